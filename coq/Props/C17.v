(* C17 — for every list, vector, bitfield and container view, the read-only iterator
   ([Iter.ro_iter]: the explicit stack machines of view/iter.go and view/bitfield_iter.go), the
   index-based iterator ([Iter.ix_iter]) and the indexed getters ([Iter.get_all]: [View.view_get]
   for i = 0 .. length-1) yield exactly the collection's length many components, in order and with
   identical values; each iterator reports its end exactly when the length is reached and keeps
   reporting it, and reports an error rather than a wrong component when data is missing.

   Vocabulary (IterProofs.v, top):
   [bottom n depth i]      bottom node i of the subtree of depth [depth] below n
                           (= [getter n (2^depth + i)], theorem C17_bottom_getter); [Err] if a leaf
                           (e.g. a zero-summary) sits on the way: "data is missing".
   [steps_of f rs extra]   rendering of a list of per-index results by a drained iterator:
                           [f a] for each [OK a] up to the first failure, which is rendered
                           [IErr] / [IPanic] and ends the drain; without failure [extra] x [IEnd] follow.
   [packed_elem], [bit_elem], [node_elem]   the expected result for index k
                           (packed basic value / bit / typed subtree).
   [is_comp s]             s is [IVal _] or [INode _ _].
   [node_iter_calls .. k it]  the result of call number k (from 0) of Next() starting in state it.

   All theorems hold for ANY tree (no representation hypothesis); C17_repr_* at the end
   specialise to trees that represent a value.
   Restrictions and why: depth < 64 for the drains with the Go length check (1 << 64 = 0,
   IterProofs.cex_depth64); [view_depth t < 64] for the agreement with the getters (ToGindex64
   rejects depth 64 although the iterator works, IterProofs.cex_view_depth64). *)
From Ztyp Require Import Base Bitlen Tree Types Spec View Iter Repr IterProofs.
Open Scope N_scope.

(* ---- 0. the reference: bottom node i is what the generalized-index getter finds ---- *)
Theorem C17_bottom_getter : forall n d i, d < 64 -> i < 2 ^ d ->
  bottom n d i = getter n (2 ^ d + i).
Proof. exact bottom_getter. Qed.
Print Assumptions C17_bottom_getter.

(* ---- 1. nodeReadonlyIter ---- *)

(* complete characterisation of the drain, success and failure *)
Theorem C17_node_iter_all : forall anchor depth len,
  depth < 64 -> len <= 2 ^ depth ->
  node_iter_all anchor len depth =
  mapM (fun k => bottom anchor depth (N.of_nat k)) (seq 0 (N.to_nat len)).
Proof. exact node_iter_all_spec. Qed.
Print Assumptions C17_node_iter_all.

Theorem C17_node_iter_seq : forall anchor depth len ms,
  depth < 64 -> len <= 2 ^ depth ->
  (node_iter_all anchor len depth = OK ms <->
   Forall2 (fun k m => bottom anchor depth (N.of_nat k) = OK m) (seq 0 (N.to_nat len)) ms).
Proof. exact node_iter_seq. Qed.
Print Assumptions C17_node_iter_seq.

Theorem C17_node_iter_seq_ex : forall anchor depth len,
  depth < 64 -> len <= 2 ^ depth ->
  (forall i, i < len -> exists m, bottom anchor depth i = OK m) ->
  exists ms, node_iter_all anchor len depth = OK ms /\
    Forall2 (fun k m => bottom anchor depth (N.of_nat k) = OK m) (seq 0 (N.to_nat len)) ms.
Proof. exact node_iter_seq_ex. Qed.
Print Assumptions C17_node_iter_seq_ex.

(* never a wrong node, also for partial drains and when later nodes are missing *)
Theorem C17_node_iter_sound : forall anchor depth len count ns i m,
  depth < 256 -> len <= 2 ^ depth -> len <= 2 ^ 64 ->
  node_iter_take anchor len depth count (ni_init depth) = OK ns ->
  nth_error ns i = Some m ->
  bottom anchor depth (N.of_nat i) = OK m /\ N.of_nat i < len.
Proof. exact node_iter_take_sound. Qed.
Print Assumptions C17_node_iter_sound.

Theorem C17_node_iter_all_sound : forall anchor depth len ns i m,
  depth < 64 ->
  node_iter_all anchor len depth = OK ns -> nth_error ns i = Some m ->
  bottom anchor depth (N.of_nat i) = OK m /\ N.of_nat i < len.
Proof. exact node_iter_sound. Qed.
Print Assumptions C17_node_iter_all_sound.

Theorem C17_node_iter_all_err : forall anchor depth len k,
  depth < 64 -> len <= 2 ^ depth -> k < len -> bottom anchor depth k = Err ->
  node_iter_all anchor len depth = Err.
Proof. exact node_iter_all_err. Qed.
Print Assumptions C17_node_iter_all_err.

(* step-wise: call k returns bottom node k (or the error of a missing node, never Panic) for
   k < len, and the end from call len on, without changing the state *)
Theorem C17_node_iter_step : forall anchor len depth k,
  depth < 256 -> len <= 2 ^ depth -> len <= 2 ^ 64 ->
  (forall x, x < N.of_nat k -> x < len -> exists m, bottom anchor depth x = OK m) ->
  (N.of_nat k < len ->
     match bottom anchor depth (N.of_nat k) with
     | OK m => exists it', node_iter_calls anchor len depth k (ni_init depth) = OK (Some m, it')
     | Err => node_iter_calls anchor len depth k (ni_init depth) = Err
     | Panic => False
     end) /\
  (len <= N.of_nat k ->
     exists it', node_iter_calls anchor len depth k (ni_init depth) = OK (None, it') /\
                 node_iter_next anchor len depth it' = OK (None, it')).
Proof. exact node_iter_step. Qed.
Print Assumptions C17_node_iter_step.

Theorem C17_node_iter_end_sticky : forall anchor len depth it, len <= ni_i it ->
  node_iter_next anchor len depth it = OK (None, it).
Proof. exact node_iter_next_end. Qed.
Print Assumptions C17_node_iter_end_sticky.

(* ---- 2. the length check of the constructor ---- *)
Theorem C17_node_iter_ok : forall depth len, depth < 64 ->
  (node_iter_ok depth len = true <-> len <= 2 ^ depth).
Proof. exact node_iter_ok_spec. Qed.
Print Assumptions C17_node_iter_ok.

Theorem C17_node_iter_ok_high : forall depth len, 64 <= depth ->
  (node_iter_ok depth len = true <-> len = 0).
Proof. exact node_iter_ok_high. Qed.
Print Assumptions C17_node_iter_ok_high.

Theorem C17_basic_iter_ok : forall e depth len,
  depth < 64 -> 2 ^ depth * per_node e < 2 ^ 64 ->
  (basic_iter_ok e depth len = true <-> len <= 2 ^ depth * per_node e).
Proof. exact basic_iter_ok_spec. Qed.
Print Assumptions C17_basic_iter_ok.

Theorem C17_bit_iter_ok : forall depth len, depth < 56 ->
  (bit_iter_ok depth len = true <-> len <= 2 ^ depth * 256).
Proof. exact bit_iter_ok_spec. Qed.
Print Assumptions C17_bit_iter_ok.

(* ---- 3. the drained iterators: complete characterisations (sequence, end, error) ---- *)
Theorem C17_node_iter_drain : forall tys anchor len depth extra,
  depth < 256 -> len <= 2 ^ depth -> len <= 2 ^ 64 ->
  node_iter_drain (N.to_nat len + extra) tys anchor len depth (ni_init depth) 0 =
  steps_of (fun s => s) (map (node_elem tys anchor depth) (seq 0 (N.to_nat len))) extra.
Proof. exact node_iter_drain_init. Qed.
Print Assumptions C17_node_iter_drain.

(* per_node e is 32, 16, 8, 4, 1 for uint8 .. uint256 (IterProofs.per_node_values) *)
Theorem C17_basic_iter_drain : forall e anchor depth len extra,
  1 <= per_node e -> depth < 256 -> len <= 2 ^ depth * per_node e -> len <= 2 ^ 64 ->
  basic_iter_drain (N.to_nat len + extra) e anchor len depth (basic_iter_init e depth) =
  steps_of IVal (map (packed_elem e anchor depth) (seq 0 (N.to_nat len))) extra.
Proof. exact basic_iter_drain_spec. Qed.
Print Assumptions C17_basic_iter_drain.

Theorem C17_bit_iter_drain : forall anchor depth len extra,
  depth < 256 -> len <= 2 ^ depth * 256 -> len <= 2 ^ 64 ->
  bit_iter_drain (N.to_nat len + extra) anchor len depth (bit_iter_init depth) =
  steps_of (fun b => IVal (VBool b)) (map (bit_elem anchor depth) (seq 0 (N.to_nat len))) extra.
Proof. exact bit_iter_drain_spec. Qed.
Print Assumptions C17_bit_iter_drain.

Theorem C17_basic_iter_sound : forall e anchor depth len extra i s,
  1 <= per_node e -> depth < 256 -> len <= 2 ^ depth * per_node e -> len <= 2 ^ 64 ->
  nth_error (basic_iter_drain (N.to_nat len + extra) e anchor len depth (basic_iter_init e depth)) i
    = Some s ->
  is_comp s = true ->
  exists v, s = IVal v /\ packed_elem e anchor depth i = OK v /\ N.of_nat i < len.
Proof. exact basic_iter_sound. Qed.
Print Assumptions C17_basic_iter_sound.

Theorem C17_bit_iter_sound : forall anchor depth len extra i s,
  depth < 256 -> len <= 2 ^ depth * 256 -> len <= 2 ^ 64 ->
  nth_error (bit_iter_drain (N.to_nat len + extra) anchor len depth (bit_iter_init depth)) i = Some s ->
  is_comp s = true ->
  exists b, s = IVal (VBool b) /\ bit_elem anchor depth i = OK b /\ N.of_nat i < len.
Proof. exact bit_iter_sound. Qed.
Print Assumptions C17_bit_iter_sound.

(* ---- 4. the property: the three access paths agree, on any tree ---- *)

(* a read-only iteration that reports no error is the getters' results followed by the end *)
Theorem C17_ro_eq_get : forall t n extra, wf_ty t = true -> view_depth t < 64 ->
  ~ In IErr (ro_iter t n extra) ->
  exists len, series_len t n = OK len /\
    ro_iter t n extra = get_all t n ++ repeat IEnd extra /\
    length (get_all t n) = N.to_nat len /\
    Forall (fun s => is_comp s = true) (get_all t n).
Proof. exact ro_eq_get. Qed.
Print Assumptions C17_ro_eq_get.

Theorem C17_ix_eq_get : forall t n extra len, series_len t n = OK len ->
  ix_iter t n extra = get_all t n ++ repeat IEnd extra /\
  length (get_all t n) = N.to_nat len.
Proof. exact ix_eq_get. Qed.
Print Assumptions C17_ix_eq_get.

(* error rather than a wrong component: whatever component the read-only iterator yields at
   position i, even if it fails later, is the getter's result for index i < length *)
Theorem C17_ro_sound : forall t n extra i s, wf_ty t = true -> view_depth t < 64 ->
  nth_error (ro_iter t n extra) i = Some s -> is_comp s = true ->
  nth_error (get_all t n) i = Some s /\
  exists len, series_len t n = OK len /\ N.of_nat i < len.
Proof. exact ro_sound. Qed.
Print Assumptions C17_ro_sound.

(* the end is reported exactly from the length on, and keeps being reported *)
Theorem C17_ro_end_exact : forall t n extra i, wf_ty t = true -> view_depth t < 64 ->
  ~ In IErr (ro_iter t n extra) ->
  exists len, series_len t n = OK len /\
    (nth_error (ro_iter t n extra) i = Some IEnd <->
     (N.to_nat len <= i < N.to_nat len + extra)%nat) /\
    ((i < N.to_nat len)%nat ->
     exists s, nth_error (ro_iter t n extra) i = Some s /\ is_comp s = true).
Proof. exact ro_end_exact. Qed.
Print Assumptions C17_ro_end_exact.

Theorem C17_ro_no_panic : forall t n extra, wf_ty t = true -> view_depth t < 64 ->
  ~ In IPanic (ro_iter t n extra).
Proof. exact ro_no_panic. Qed.
Print Assumptions C17_ro_no_panic.

(* ---- 5. on trees that represent a value ([Repr.repr], any zero table zh) the read-only
        iterator yields exactly the components of the value, then the end ---- *)

Theorem C17_repr_ro_bitvector : forall zh k n bs extra,
  small_params (TBitvector k) = true ->
  repr zh (TBitvector k) n (VBits bs) -> has_type (VBits bs) (TBitvector k) = true ->
  ro_iter (TBitvector k) n extra = map (fun b => IVal (VBool b)) bs ++ repeat IEnd extra.
Proof. exact repr_ro_bitvector. Qed.
Print Assumptions C17_repr_ro_bitvector.

Theorem C17_repr_ro_bitlist : forall zh k n bs extra,
  small_params (TBitlist k) = true ->
  repr zh (TBitlist k) n (VBits bs) -> has_type (VBits bs) (TBitlist k) = true ->
  ro_iter (TBitlist k) n extra = map (fun b => IVal (VBool b)) bs ++ repeat IEnd extra.
Proof. exact repr_ro_bitlist. Qed.
Print Assumptions C17_repr_ro_bitlist.

Theorem C17_repr_ro_packed_vector : forall zh w k n vs extra,
  wf_ty (TVector (TUint w) k) = true -> small_params (TVector (TUint w) k) = true ->
  repr zh (TVector (TUint w) k) n (VSeq vs) -> has_type (VSeq vs) (TVector (TUint w) k) = true ->
  ro_iter (TVector (TUint w) k) n extra = map IVal vs ++ repeat IEnd extra.
Proof. exact repr_ro_packed_vector. Qed.
Print Assumptions C17_repr_ro_packed_vector.

Theorem C17_repr_ro_packed_list : forall zh w k n vs extra,
  wf_ty (TList (TUint w) k) = true -> small_params (TList (TUint w) k) = true ->
  repr zh (TList (TUint w) k) n (VSeq vs) -> has_type (VSeq vs) (TList (TUint w) k) = true ->
  ro_iter (TList (TUint w) k) n extra = map IVal vs ++ repeat IEnd extra.
Proof. exact repr_ro_packed_list. Qed.
Print Assumptions C17_repr_ro_packed_list.

Theorem C17_repr_ro_complex_vector : forall zh e k n vs extra,
  is_basic_elem e = false -> wf_ty (TVector e k) = true -> small_params (TVector e k) = true ->
  repr zh (TVector e k) n (VSeq vs) -> has_type (VSeq vs) (TVector e k) = true ->
  exists steps, ro_iter (TVector e k) n extra = steps ++ repeat IEnd extra /\
    Forall2 (fun step x => exists m, step = INode e m /\ repr zh e m x) steps vs.
Proof. exact repr_ro_complex_vector. Qed.
Print Assumptions C17_repr_ro_complex_vector.

Theorem C17_repr_ro_complex_list : forall zh e k n vs extra,
  is_basic_elem e = false -> wf_ty (TList e k) = true -> small_params (TList e k) = true ->
  repr zh (TList e k) n (VSeq vs) -> has_type (VSeq vs) (TList e k) = true ->
  exists steps, ro_iter (TList e k) n extra = steps ++ repeat IEnd extra /\
    Forall2 (fun step x => exists m, step = INode e m /\ repr zh e m x) steps vs.
Proof. exact repr_ro_complex_list. Qed.
Print Assumptions C17_repr_ro_complex_list.

(* containers: [small_params] does not bound the number of fields, hence [view_depth < 64]
   (true for fewer than 2^63 fields) *)
Theorem C17_repr_ro_container : forall zh fs n vs extra,
  wf_ty (TContainer fs) = true -> view_depth (TContainer fs) < 64 ->
  repr zh (TContainer fs) n (VCont vs) -> has_type (VCont vs) (TContainer fs) = true ->
  exists steps, ro_iter (TContainer fs) n extra = steps ++ repeat IEnd extra /\
    Forall2 (fun step fx => exists m, step = INode (fst fx) m /\ repr zh (fst fx) m (snd fx))
            steps (combine fs vs).
Proof. exact repr_ro_container. Qed.
Print Assumptions C17_repr_ro_container.

(* and then the getters and the index iterator yield the same components *)
Theorem C17_repr_get_all_eq : forall t n extra steps len,
  wf_ty t = true -> view_depth t < 64 ->
  ro_iter t n extra = steps ++ repeat IEnd extra -> ~ In IErr steps ->
  Forall (fun s => is_comp s = true) steps ->
  series_len t n = OK len ->
  get_all t n = steps /\ ix_iter t n extra = steps ++ repeat IEnd extra /\
  length steps = N.to_nat len.
Proof. exact repr_get_all_eq. Qed.
Print Assumptions C17_repr_get_all_eq.

(* [view_depth t < 64] follows from small parameters *)
Theorem C17_small_view_depth : forall t, small_params t = true ->
  (forall fs, t = TContainer fs -> N.of_nat (length fs) <= 2 ^ 62) ->
  view_depth t < 64.
Proof. exact small_view_depth. Qed.
Print Assumptions C17_small_view_depth.
