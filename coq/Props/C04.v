(* C04 — for every sequence of typed mutations (set element/field, append, pop, set bit, change
   union option), applied directly or through nested sub-views obtained from a parent view, the
   root view stays observationally identical to a plain in-memory value subjected to the same
   operations: same hash-tree-root, same lengths, same element reads (same serialization follows
   from the C02 theorem "repr -> ser_node = spec_ser").  Out-of-range indices, appends beyond the
   limit and pops of an empty collection are reported as errors and leave the value unchanged.

   TM = [tm_step zh] (Mut.v over pure trees: Set/Append/Pop/Change of view/*.go plus the
   BackingHook propagation), VM = [v_step] (VMach.v: plain values, write-back into the parent).

   Vocabulary (MutProofs.v, section 0):
   [ty_ok t]        wf_ty, small_params (lengths / limits <= 2^56), small_fields (<= 2^63 fields).
   [R zh tm vm]     the simulation: handle k of TM and of VM have the same type and hook, the
                    backing tree of k represents ([Repr.repr]) the well-typed plain value of k,
                    hooks point to older handles and to a slot of the child's type.
   [src_ok vm o]    the source of a mutation fits what the addressed slot expects ([op_want]):
                    a typed literal of the slot's type; a handle of the slot's type where Go takes
                    a backed view (complex elements, fields, union values) — bits and packed
                    integers come as literals; SNone only for selector 0 of Union[None, ...].
   [out_rel r r']   OK x against Some x' with the same handle number, Err against None, never Panic.
   [mut_rel zh t r ov]  r = OK (n', tt) with n' representing the new typed value, when ov = Some;
                    r = Err when ov = None.
   [geom t lst d]   the bottom positions of a view of type t lie d levels below its contents node,
                    which is the backing itself (lst = false) or its left child ([wrapn]).
   [chunks_equiv]   two lists of 32-byte chunks are bytewise equal up to trailing zero chunks.
   [bits_msb d i]   (BitlenProofs) the d low bits of i, most significant first. *)
From Ztyp Require Import Base Bitlen Tree Types Spec View Mut Repr VMach BitlenProofs ReprProofs MutProofs.
Open Scope N_scope.

(* ==================================================================================== *)
(* 1. positions, and the series update lemmas                                            *)
(* ==================================================================================== *)

(* the path of ToGindex64(i, d): the d bits of i; list contents live under the left child *)
Theorem C04_vector_path : forall (d : nat) (i : N),
  N.of_nat d < 64 -> i < 2 ^ N.of_nat d ->
  exists g, to_gindex64 i (N.of_nat d) = OK g /\ g_path g = bits_msb d i.
Proof. exact vector_path. Qed.
Print Assumptions C04_vector_path.

Theorem C04_list_path : forall (d : nat) (i : N),
  N.of_nat d + 1 < 64 -> i < 2 ^ N.of_nat d ->
  exists g, to_gindex64 i (N.of_nat d + 1) = OK g /\ g_path g = false :: bits_msb d i.
Proof. exact list_path. Qed.
Print Assumptions C04_list_path.

Theorem C04_series_get : forall (zh : nat -> chunk) (d : nat) (ps : list (node -> Prop)) (n : node) (i : N),
  series zh d ps n -> i < lenN ps ->
  exists m, get_path n (bits_msb d i) = OK m /\ nth (nat_of i) ps (fun _ => False) m.
Proof. exact series_get. Qed.
Print Assumptions C04_series_get.

(* writing a present position: any expand flag, the i-th predicate is replaced *)
Theorem C04_series_set : forall (zh : nat -> chunk) (d : nat) (ps : list (node -> Prop)) (n : node)
    (i : N) (e : bool) (v : node) (q : node -> Prop),
  series zh d ps n -> i < lenN ps -> q v ->
  exists n', set_path zh n (bits_msb d i) e v = OK n' /\
             series zh d (list_set ps (nat_of i) q) n'.
Proof. exact series_set. Qed.
Print Assumptions C04_series_set.

(* appending at the first absent position: the expansion meets zero summaries only *)
Theorem C04_series_append : forall (zh : nat -> chunk) (d : nat) (ps : list (node -> Prop)) (n v : node)
    (q : node -> Prop),
  (d <= 64)%nat -> series zh d ps n -> lenN ps < 2 ^ N.of_nat d -> q v ->
  exists n', set_path zh n (bits_msb d (lenN ps)) true v = OK n' /\ series zh d (ps ++ [q]) n'.
Proof. exact series_append. Qed.
Print Assumptions C04_series_append.

(* pop of the last complex element = writing the zero leaf *)
Theorem C04_series_pop : forall (zh : nat -> chunk) (d : nat) (ps : list (node -> Prop)) (n : node) (e : bool),
  series zh d ps n -> ps <> [] ->
  exists n', set_path zh n (bits_msb d (lenN ps - 1)) e (Leaf (zh 0%nat)) = OK n' /\
             series zh d (removelast ps) n'.
Proof. exact series_pop. Qed.
Print Assumptions C04_series_pop.

(* a trailing zero chunk counts as padding *)
Theorem C04_series_equiv : forall (zh : nat -> chunk) (d : nat) (cs1 cs2 : list chunk) (n : node),
  zh 0%nat = zero_chunk -> chunks_equiv cs1 cs2 ->
  series zh d (map is_chunk cs1) n -> series zh d (map is_chunk cs2) n.
Proof. exact series_equiv. Qed.
Print Assumptions C04_series_equiv.

(* packed integers: BackingFromBase rewrites slot i mod per of chunk i / per *)
Theorem C04_packed_set_is_slot_write : forall w c i n,
  packed_set (TUint w) c i (VUint n) =
  if 32 / w <=? i then Panic else OK (slot_write (nat_of w) c (nat_of i) (le_bytes (nat_of w) n)).
Proof. exact packed_set_uint. Qed.
Print Assumptions C04_packed_set_is_slot_write.

Theorem C04_packed_set_chunks : forall (w : N) (vs : list val),
  uint_width_ok w = true -> forallb (fun x => has_type x (TUint w)) vs = true ->
  forall (i : nat) (x : val), has_type x (TUint w) = true -> (i < length vs)%nat ->
  let j := Nat.div i (nat_of (32 / w)) in
  (j < length (packed_chunks (TUint w) vs))%nat /\
  (Nat.modulo i (nat_of (32 / w)) < nat_of (32 / w))%nat /\
  chunks_equiv
    (list_set (packed_chunks (TUint w) vs) j
       (slot_write (nat_of w) (nth j (packed_chunks (TUint w) vs) [])
                   (Nat.modulo i (nat_of (32 / w))) (uint_bytes (nat_of w) x)))
    (packed_chunks (TUint w) (list_set vs i x)).
Proof. exact packed_set_equiv. Qed.
Print Assumptions C04_packed_set_chunks.

(* append: a new chunk when the last one is full, else the last partial chunk is rewritten *)
Theorem C04_packed_append_chunks : forall (w : N) (vs : list val),
  uint_width_ok w = true -> forallb (fun x => has_type x (TUint w)) vs = true ->
  forall x : val, has_type x (TUint w) = true ->
  let j := Nat.div (length vs) (nat_of (32 / w)) in
  ((Nat.modulo (length vs) (nat_of (32 / w)) = 0)%nat ->
     j = length (packed_chunks (TUint w) vs) /\
     chunks_equiv
       (packed_chunks (TUint w) vs ++ [slot_write (nat_of w) zero_chunk 0 (uint_bytes (nat_of w) x)])
       (packed_chunks (TUint w) (vs ++ [x]))) /\
  ((Nat.modulo (length vs) (nat_of (32 / w)) <> 0)%nat ->
     (j < length (packed_chunks (TUint w) vs))%nat /\
     (Nat.modulo (length vs) (nat_of (32 / w)) < nat_of (32 / w))%nat /\
     chunks_equiv
       (list_set (packed_chunks (TUint w) vs) j
          (slot_write (nat_of w) (nth j (packed_chunks (TUint w) vs) [])
                      (Nat.modulo (length vs) (nat_of (32 / w))) (uint_bytes (nat_of w) x)))
       (packed_chunks (TUint w) (vs ++ [x]))).
Proof. exact packed_append_equiv. Qed.
Print Assumptions C04_packed_append_chunks.

(* pop: the element is zeroed; the result is the chunk list of the shorter series, possibly
   followed by one zero chunk (chunks_equiv), which is padding *)
Theorem C04_packed_pop_chunks : forall (w : N) (vs : list val),
  uint_width_ok w = true -> forallb (fun x => has_type x (TUint w)) vs = true ->
  (0 < length vs)%nat ->
  let j := Nat.div (length vs - 1) (nat_of (32 / w)) in
  (j < length (packed_chunks (TUint w) vs))%nat /\
  (Nat.modulo (length vs - 1) (nat_of (32 / w)) < nat_of (32 / w))%nat /\
  chunks_equiv
    (list_set (packed_chunks (TUint w) vs) j
       (slot_write (nat_of w) (nth j (packed_chunks (TUint w) vs) [])
                   (Nat.modulo (length vs - 1) (nat_of (32 / w))) (uint_bytes (nat_of w) (VUint 0))))
    (packed_chunks (TUint w) (removelast vs)).
Proof. exact packed_pop_equiv. Qed.
Print Assumptions C04_packed_pop_chunks.

(* ==================================================================================== *)
(* 2. every typed mutation on the pure instance                                          *)
(* ==================================================================================== *)

Theorem C04_bit_set : forall zh : nat -> chunk, zh 0%nat = zero_chunk ->
  forall (t : ty) (lst : bool) (d : nat) (c L : node) (bs : list bool) (i : N) (b : bool),
  geom t lst d -> series zh d (map is_chunk (bit_chunks bs)) c -> i < lenN bs ->
  exists c', m_bit_set node unit p_get (p_set zh) p_leaf p_chunk t tt (wrapn lst c L) i b
             = OK (wrapn lst c' L, tt) /\
             series zh d (map is_chunk (bit_chunks (list_set bs (nat_of i) b))) c'.
Proof. exact tm_bit_set_ok. Qed.
Print Assumptions C04_bit_set.

Theorem C04_bit_append : forall zh : nat -> chunk, zh 0%nat = zero_chunk ->
  forall (t : ty) (d : nat) (c : node) (bs : list bool) (b : bool) (limit : N),
  geom t true d -> series zh d (map is_chunk (bit_chunks bs)) c ->
  lenN bs <= limit -> limit < 2 ^ 64 -> (limit + 255) / 256 <= 2 ^ N.of_nat d ->
  if limit <=? lenN bs
  then m_bit_append node unit p_get (p_set zh) p_leaf p_chunk zh t limit tt
         (Pair c (len_leaf (lenN bs))) b = Err
  else exists c', m_bit_append node unit p_get (p_set zh) p_leaf p_chunk zh t limit tt
                    (Pair c (len_leaf (lenN bs))) b
                  = OK (Pair c' (len_leaf (lenN bs + 1)), tt) /\
                  series zh d (map is_chunk (bit_chunks (bs ++ [b]))) c'.
Proof. exact tm_bit_append_ok. Qed.
Print Assumptions C04_bit_append.

Theorem C04_bit_pop : forall zh : nat -> chunk, zh 0%nat = zero_chunk ->
  forall (t : ty) (d : nat) (c : node) (bs : list bool) (limit : N),
  geom t true d -> series zh d (map is_chunk (bit_chunks bs)) c ->
  lenN bs <= limit -> limit < 2 ^ 64 ->
  if lenN bs =? 0
  then m_bit_pop node unit p_get (p_set zh) p_leaf p_chunk t limit tt
         (Pair c (len_leaf (lenN bs))) = Err
  else exists c', m_bit_pop node unit p_get (p_set zh) p_leaf p_chunk t limit tt
                    (Pair c (len_leaf (lenN bs)))
                  = OK (Pair c' (len_leaf (lenN bs - 1)), tt) /\
                  series zh d (map is_chunk (bit_chunks (removelast bs))) c'.
Proof. exact tm_bit_pop_ok. Qed.
Print Assumptions C04_bit_pop.

Theorem C04_packed_set : forall zh : nat -> chunk, zh 0%nat = zero_chunk ->
  forall (t : ty) (lst : bool) (d : nat) (c L : node) (w : N) (vs : list val) (i : N) (x : val),
  geom t lst d -> uint_width_ok w = true ->
  forallb (fun y => has_type y (TUint w)) vs = true -> has_type x (TUint w) = true ->
  series zh d (map is_chunk (packed_chunks (TUint w) vs)) c -> i < lenN vs ->
  exists c', m_packed_set node unit p_get (p_set zh) p_leaf p_chunk t (TUint w) tt (wrapn lst c L) i x
             = OK (wrapn lst c' L, tt) /\
             series zh d (map is_chunk (packed_chunks (TUint w) (list_set vs (nat_of i) x))) c'.
Proof. exact tm_packed_set_ok. Qed.
Print Assumptions C04_packed_set.

Theorem C04_basic_append : forall zh : nat -> chunk, zh 0%nat = zero_chunk ->
  forall (t : ty) (d : nat) (c : node) (w : N) (vs : list val) (x : val) (limit : N),
  geom t true d -> uint_width_ok w = true ->
  forallb (fun y => has_type y (TUint w)) vs = true -> has_type x (TUint w) = true ->
  series zh d (map is_chunk (packed_chunks (TUint w) vs)) c ->
  lenN vs <= limit -> limit < 2 ^ 64 -> chunk_count_basic (TUint w) limit <= 2 ^ N.of_nat d ->
  if limit <=? lenN vs
  then m_basic_append node unit p_get (p_set zh) p_leaf p_chunk zh t (TUint w) limit tt
         (Pair c (len_leaf (lenN vs))) x = Err
  else exists c', m_basic_append node unit p_get (p_set zh) p_leaf p_chunk zh t (TUint w) limit tt
                    (Pair c (len_leaf (lenN vs))) x
                  = OK (Pair c' (len_leaf (lenN vs + 1)), tt) /\
                  series zh d (map is_chunk (packed_chunks (TUint w) (vs ++ [x]))) c'.
Proof. exact tm_basic_append_ok. Qed.
Print Assumptions C04_basic_append.

Theorem C04_basic_pop : forall zh : nat -> chunk, zh 0%nat = zero_chunk ->
  forall (t : ty) (d : nat) (c : node) (w : N) (vs : list val) (limit : N),
  geom t true d -> uint_width_ok w = true ->
  forallb (fun y => has_type y (TUint w)) vs = true ->
  series zh d (map is_chunk (packed_chunks (TUint w) vs)) c ->
  lenN vs <= limit -> limit < 2 ^ 64 ->
  if lenN vs =? 0
  then m_basic_pop node unit p_get (p_set zh) p_leaf p_chunk zh t (TUint w) limit tt
         (Pair c (len_leaf (lenN vs))) = Err
  else exists c', m_basic_pop node unit p_get (p_set zh) p_leaf p_chunk zh t (TUint w) limit tt
                    (Pair c (len_leaf (lenN vs)))
                  = OK (Pair c' (len_leaf (lenN vs - 1)), tt) /\
                  series zh d (map is_chunk (packed_chunks (TUint w) (removelast vs))) c'.
Proof. exact tm_basic_pop_ok. Qed.
Print Assumptions C04_basic_pop.

Theorem C04_complex_append : forall (zh : nat -> chunk) (t : ty) (d : nat) (c : node)
    (ps : list (node -> Prop)) (limit : N) (v : node) (q : node -> Prop),
  geom t true d -> series zh d ps c -> lenN ps <= limit -> limit < 2 ^ 64 ->
  limit <= 2 ^ N.of_nat d -> q v ->
  if limit <=? lenN ps
  then m_complex_append node unit p_get (p_set zh) p_leaf p_chunk t limit tt
         (Pair c (len_leaf (lenN ps))) v = Err
  else exists c', m_complex_append node unit p_get (p_set zh) p_leaf p_chunk t limit tt
                    (Pair c (len_leaf (lenN ps))) v
                  = OK (Pair c' (len_leaf (lenN ps + 1)), tt) /\
                  series zh d (ps ++ [q]) c'.
Proof. exact tm_complex_append_ok. Qed.
Print Assumptions C04_complex_append.

Theorem C04_complex_pop : forall (zh : nat -> chunk) (t : ty) (d : nat) (c : node)
    (ps : list (node -> Prop)) (limit : N),
  geom t true d -> series zh d ps c -> lenN ps <= limit -> limit < 2 ^ 64 ->
  if lenN ps =? 0
  then m_complex_pop node unit p_get (p_set zh) p_leaf p_chunk (p_zero zh) t limit tt
         (Pair c (len_leaf (lenN ps))) = Err
  else exists c', m_complex_pop node unit p_get (p_set zh) p_leaf p_chunk (p_zero zh) t limit tt
                    (Pair c (len_leaf (lenN ps)))
                  = OK (Pair c' (len_leaf (lenN ps - 1)), tt) /\
                  series zh d (removelast ps) c'.
Proof. exact tm_complex_pop_ok. Qed.
Print Assumptions C04_complex_pop.

(* SetNode of a slot of a complex vector / complex list / container (also the hook body) *)
Theorem C04_slot_set : forall (zh : nat -> chunk) (t : ty) (a : node) (v : val) (i : N) (n : node)
    (y : val) (e : ty),
  ty_ok t -> has_type v t = true -> repr zh t a v ->
  slot_ty t i = Some e -> repr zh e n y -> has_type y e = true ->
  mut_rel zh t (m_slot_set node unit p_get (p_set zh) p_chunk t tt a i n) (v_slot_set t v i y).
Proof. exact slot_set_ok. Qed.
Print Assumptions C04_slot_set.

(* every operation, every type: TM's mutation succeeds exactly when VM's does, with a tree that
   represents the new, still well-typed value; otherwise it reports an error, never a panic *)
Theorem C04_mutate : forall (H : chunk -> chunk -> chunk) (zh : nat -> chunk),
  (forall d, zh d = zero_hash H d) ->
  forall (tm : tm_state) (vm : vstate), R zh tm vm ->
  forall (x : handle node) (y : vhandle) (o : op), hrel zh x y ->
  (forall h s, op_src o = Some (h, s) -> src_fits vm (op_want (vh_ty y) o) s) ->
  mut_rel zh (vh_ty y)
    (mutate node unit p_get (p_set zh) p_leaf p_pair p_chunk (p_zero zh) p_true zh tm x o)
    (v_mutate vm y o).
Proof. exact mutate_ok. Qed.
Print Assumptions C04_mutate.

(* ==================================================================================== *)
(* 3. hook propagation                                                                   *)
(* ==================================================================================== *)

(* SetBacking with its hook chain against the write-back of the plain value: same success or
   failure, and the relation holds for the states returned either way (a hook that fails
   half-way leaves the handles below it updated on both sides) *)
Theorem C04_backing : forall (H : chunk -> chunk -> chunk) (zh : nat -> chunk),
  (forall d, zh d = zero_hash H d) ->
  forall (fuel : nat) (tm : tm_state) (vm : vstate) (h : nat) (y : vhandle) (b : node) (v : val),
  R zh tm vm -> (h < fuel)%nat -> nth_error vm h = Some y ->
  repr zh (vh_ty y) b v -> has_type v (vh_ty y) = true ->
  R zh (fst (set_backing node unit p_get (p_set zh) p_chunk fuel tm h b tt))
       (fst (v_write_back fuel vm h v)) /\
  back_rel (snd (set_backing node unit p_get (p_set zh) p_chunk fuel tm h b tt))
           (snd (v_write_back fuel vm h v)).
Proof. exact backing_sim. Qed.
Print Assumptions C04_backing.

(* ==================================================================================== *)
(* 4. steps, histories, observations                                                     *)
(* ==================================================================================== *)

Theorem C04_init : forall (zh : nat -> chunk) (t : ty) (n : node) (v : val),
  ty_ok t -> has_type v t = true -> repr zh t n v -> R zh (tm_init t n) (v_init t v).
Proof. exact R_init. Qed.
Print Assumptions C04_init.

Theorem C04_step : forall (H : chunk -> chunk -> chunk) (zh : nat -> chunk),
  (forall d, zh d = zero_hash H d) ->
  forall (tm : tm_state) (vm : vstate) (o : op) (tm' : tm_state) (r : res mout)
         (vm' : vstate) (r' : option vout),
  R zh tm vm -> src_ok vm o ->
  tm_step zh tm o = (tm', r) -> v_step vm o = (vm', r') ->
  R zh tm' vm' /\ out_rel r r' /\ r <> Panic.
Proof. exact step_ok_eq. Qed.
Print Assumptions C04_step.

Theorem C04_history : forall (H : chunk -> chunk -> chunk) (zh : nat -> chunk),
  (forall d, zh d = zero_hash H d) ->
  forall (os : list op) (tm : tm_state) (vm : vstate),
  R zh tm vm -> srcs_ok vm os ->
  R zh (tm_run zh tm os) (v_run vm os) /\
  Forall2 out_rel (tm_trace zh tm os) (v_trace vm os).
Proof. exact history_ok. Qed.
Print Assumptions C04_history.

(* same hash-tree-root, for every handle of related states (List/Vector[bool] excluded: D3) *)
Theorem C04_same_root : forall (H : chunk -> chunk -> chunk) (zh : nat -> chunk),
  (forall d, zh d = zero_hash H d) ->
  forall (tm : tm_state) (vm : vstate) (k : nat) (x : handle node) (y : vhandle),
  R zh tm vm -> nth_error (m_handles node unit tm) k = Some x -> nth_error vm k = Some y ->
  no_bool_seq (vh_ty y) = true ->
  h_ty node x = vh_ty y /\ root_of H (h_back node x) = spec_htr H (vh_ty y) (vh_val y).
Proof. exact observe_root. Qed.
Print Assumptions C04_same_root.

(* same length *)
Theorem C04_same_length : forall (H : chunk -> chunk -> chunk) (zh : nat -> chunk),
  (forall d, zh d = zero_hash H d) ->
  forall (tm : tm_state) (vm : vstate) (k : nat) (x : handle node) (y : vhandle),
  R zh tm vm -> nth_error (m_handles node unit tm) k = Some x -> nth_error vm k = Some y ->
  is_list_ty (vh_ty y) = true ->
  list_length (list_limit (vh_ty y)) (h_back node x) = OK (v_len (vh_ty y) (vh_val y)).
Proof. exact observe_length. Qed.
Print Assumptions C04_same_length.

(* same element reads: the typed getter of a tree that represents v returns element i of v (a
   bit, a packed integer, or a child tree representing the element), and an error out of range *)
Theorem C04_same_reads : forall (zh : nat -> chunk) (t : ty) (a : node) (v : val) (i : N),
  ty_ok t -> has_type v t = true -> repr zh t a v ->
  match v_elem t v i with
  | Some y => exists g, view_get t a i = OK g /\ got_rel zh g y
  | None => view_get t a i = Err
  end.
Proof. exact view_get_ok. Qed.
Print Assumptions C04_same_reads.

(* ==================================================================================== *)
(* 5. errors leave everything unchanged                                                  *)
(* ==================================================================================== *)

(* an error of the mutation itself (not of a hook): the machine state is returned as it was *)
Theorem C04_tm_error_unchanged : forall (zh : nat -> chunk) (tm : tm_state) (o : op) (x : handle node),
  is_mut o = true -> get_handle node unit tm (op_handle o) = OK x ->
  mutate node unit p_get (p_set zh) p_leaf p_pair p_chunk (p_zero zh) p_true zh tm x o = Err ->
  tm_step zh tm o = (tm, Err).
Proof. exact tm_error_unchanged. Qed.
Print Assumptions C04_tm_error_unchanged.

Theorem C04_read_error_unchanged : forall (zh : nat -> chunk) (tm : tm_state) (o : op) (tm' : tm_state),
  is_mut o = false -> tm_step zh tm o = (tm', Err) -> tm' = tm.
Proof. exact tm_read_error_unchanged. Qed.
Print Assumptions C04_read_error_unchanged.

(* whenever the plain value refuses the mutation, both machines report an error and stay put *)
Theorem C04_errors_unchanged : forall (H : chunk -> chunk -> chunk) (zh : nat -> chunk),
  (forall d, zh d = zero_hash H d) ->
  forall (tm : tm_state) (vm : vstate) (o : op) (y : vhandle),
  R zh tm vm -> src_ok vm o -> is_mut o = true ->
  v_get vm (op_handle o) = Some y -> v_mutate vm y o = None ->
  tm_step zh tm o = (tm, Err) /\ v_step vm o = (vm, None).
Proof. exact errors_unchanged. Qed.
Print Assumptions C04_errors_unchanged.

(* ... which is the case for out-of-range indices, appends at the limit, pops of an empty
   collection and selectors out of range *)
Theorem C04_index_out_of_range : forall (vm : vstate) (y : vhandle) (h : nat) (i : N) (s : src),
  v_len (vh_ty y) (vh_val y) <= i -> v_mutate vm y (OSet h i s) = None.
Proof. exact v_mutate_index_error. Qed.
Print Assumptions C04_index_out_of_range.

Theorem C04_append_at_limit : forall (vm : vstate) (y : vhandle) (h : nat) (s : src),
  list_limit (vh_ty y) <= v_len (vh_ty y) (vh_val y) -> v_mutate vm y (OAppend h s) = None.
Proof. exact v_mutate_append_full. Qed.
Print Assumptions C04_append_at_limit.

Theorem C04_pop_empty : forall (vm : vstate) (y : vhandle) (h : nat),
  v_len (vh_ty y) (vh_val y) = 0 -> v_mutate vm y (OPop h) = None.
Proof. exact v_mutate_pop_empty. Qed.
Print Assumptions C04_pop_empty.

Theorem C04_selector_out_of_range : forall (vm : vstate) (y : vhandle) (h : nat) (sel : N) (s : src)
    (none : bool) (opts : list ty),
  vh_ty y = TUnion none opts -> union_count none opts <= sel ->
  v_mutate vm y (OChange h sel s) = None.
Proof. exact v_mutate_selector_error. Qed.
Print Assumptions C04_selector_out_of_range.

(* ==================================================================================== *)
(* recorded discrepancy (outside src_ok): a handle of a basic type as the source of a packed
   Append / a bit Set is accepted by VM and refused by TM (lit_val / lit_bool)            *)
(* ==================================================================================== *)
Theorem C04_handle_source_discrepancy : exists n,
  has_type disc_val disc_ty = true /\ from_val MerkleProofs.toy_zh disc_ty disc_val = OK n /\
  tm_trace MerkleProofs.toy_zh (tm_init disc_ty n) [OGet 0 0; OGet 0 1; OAppend 2 (SHandle 1)]
    = [OK (MHandle 1); OK (MHandle 2); Err] /\
  v_trace (v_init disc_ty disc_val) [OGet 0 0; OGet 0 1; OAppend 2 (SHandle 1)]
    = [Some (VHandle 1); Some (VHandle 2); Some VUnit] /\
  tm_trace MerkleProofs.toy_zh (tm_init disc_ty n) [OGet 0 2; OGet 0 3; OSet 2 0 (SHandle 1)]
    = [OK (MHandle 1); OK (MHandle 2); Err] /\
  v_trace (v_init disc_ty disc_val) [OGet 0 2; OGet 0 3; OSet 2 0 (SHandle 1)]
    = [Some (VHandle 1); Some (VHandle 2); Some VUnit].
Proof. exact handle_source_discrepancy. Qed.
Print Assumptions C04_handle_source_discrepancy.
