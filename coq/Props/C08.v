(* C08 — for every chunk count, limit and leaf contents, the streaming merkleize routine
   (Merkleize.v: the verbatim transcription of tree/merkle.go) and all typed flat
   hash-tree-root helpers (tree/hashing.go) return the root the SSZ spec defines (Spec.v).

   [H] is an arbitrary pair hash, [zh] the zero-hash table (tree.ZeroHashes), assumed to hold
   the zero-subtree roots of H.  [lenN l] = N.of_nat (length l).  [OK _] also says: no panic
   (the loop fuel never runs out, no index of tmp is out of range) and no error.
   [small_fields t] (MerkleizeProofs.v): every container of t has fewer than 2^64 fields;
   [small_params t] (Repr.v): every length / limit parameter is at most 2^56. *)
From Ztyp Require Import Base Bitlen Bitfields Merkleize Types Spec Codec Repr MerkleizeProofs.
Open Scope N_scope.

(* 1. the streaming loop *)
Theorem C08_merkleize : forall (H : chunk -> chunk -> chunk) (zh : nat -> chunk),
  (forall d, zh d = zero_hash H d) ->
  forall count limit leaf, count <= limit -> limit < 2^64 ->
  merkleize H zh count limit leaf =
  OK (merkleize_spec H (map leaf (map N.of_nat (seq 0 (N.to_nat count)))) limit).
Proof. exact merkleize_correct. Qed.
Print Assumptions C08_merkleize.

(* over the limit the routine hashes the first [limit] leaves (outside the property) *)
Theorem C08_merkleize_over_limit : forall H zh count limit leaf, limit < count ->
  merkleize H zh count limit leaf = merkleize H zh limit limit leaf.
Proof. exact merkleize_over_limit. Qed.
Print Assumptions C08_merkleize_over_limit.

(* 2. Mixin *)
Theorem C08_mixin : forall (H : chunk -> chunk -> chunk) v len, len < 2^64 ->
  mixin H v len = mix_in_length H v len.
Proof. exact mixin_correct. Qed.
Print Assumptions C08_mixin.

(* 3. HashFn.HashTreeRoot(fields...) over the field roots (also for no fields) *)
Theorem C08_fields : forall (H : chunk -> chunk -> chunk) (zh : nat -> chunk),
  (forall d, zh d = zero_hash H d) ->
  forall rs, lenN rs < 2^64 ->
  fields_htr H zh rs = OK (merkleize_spec H rs (lenN rs)).
Proof. exact fields_correct. Qed.
Print Assumptions C08_fields.

(* 4. ComplexVectorHTR / ComplexListHTR over element roots rs *)
Theorem C08_complex_vector : forall (H : chunk -> chunk -> chunk) (zh : nat -> chunk),
  (forall d, zh d = zero_hash H d) ->
  forall rs, lenN rs < 2^64 ->
  complex_vector_htr H zh (fun i => nth (nat_of i) rs zero_chunk) (lenN rs) =
  OK (merkleize_spec H rs (lenN rs)).
Proof. exact complex_vector_nth. Qed.
Print Assumptions C08_complex_vector.

Theorem C08_complex_list : forall (H : chunk -> chunk -> chunk) (zh : nat -> chunk),
  (forall d, zh d = zero_hash H d) ->
  forall rs limit, lenN rs <= limit -> limit < 2^64 ->
  complex_list_htr H zh (fun i => nth (nat_of i) rs zero_chunk) (lenN rs) limit =
  OK (mix_in_length H (merkleize_spec H rs limit) (lenN rs)).
Proof. exact complex_list_nth. Qed.
Print Assumptions C08_complex_list.

(* the same for an arbitrary element function *)
Theorem C08_complex_list_fn : forall (H : chunk -> chunk -> chunk) (zh : nat -> chunk),
  (forall d, zh d = zero_hash H d) ->
  forall elem len limit, len <= limit -> limit < 2^64 ->
  complex_list_htr H zh elem len limit =
  OK (mix_in_length H
        (merkleize_spec H (map elem (map N.of_nat (seq 0 (N.to_nat len)))) limit) len).
Proof. exact complex_list_correct. Qed.
Print Assumptions C08_complex_list_fn.

(* 5. ByteVectorHTR / ByteListHTR *)
Theorem C08_byte_vector : forall (H : chunk -> chunk -> chunk) (zh : nat -> chunk),
  (forall d, zh d = zero_hash H d) ->
  forall bs, lenN bs < 2^64 ->
  byte_vector_htr H zh bs = OK (merkleize_spec H (pack bs) ((lenN bs + 31) / 32)).
Proof. exact byte_vector_correct. Qed.
Print Assumptions C08_byte_vector.

Theorem C08_byte_list : forall (H : chunk -> chunk -> chunk) (zh : nat -> chunk),
  (forall d, zh d = zero_hash H d) ->
  forall bs limit, lenN bs <= limit -> limit < 2^63 ->
  byte_list_htr H zh bs limit =
  OK (mix_in_length H (merkleize_spec H (pack bs) ((limit + 31) / 32)) (lenN bs)).
Proof. exact byte_list_correct. Qed.
Print Assumptions C08_byte_list.

(* 6. Uint8VectorHTR / Uint8ListHTR *)
Theorem C08_uint8_vector : forall (H : chunk -> chunk -> chunk) (zh : nat -> chunk),
  (forall d, zh d = zero_hash H d) ->
  forall bs, lenN bs < 2^63 ->
  uint8_vector_htr H zh bs = OK (merkleize_spec H (pack bs) ((lenN bs + 31) / 32)).
Proof. exact uint8_vector_correct. Qed.
Print Assumptions C08_uint8_vector.

Theorem C08_uint8_list : forall (H : chunk -> chunk -> chunk) (zh : nat -> chunk),
  (forall d, zh d = zero_hash H d) ->
  forall bs limit, lenN bs <= limit -> limit < 2^63 ->
  uint8_list_htr H zh bs limit =
  OK (mix_in_length H (merkleize_spec H (pack bs) ((limit + 31) / 32)) (lenN bs)).
Proof. exact uint8_list_correct. Qed.
Print Assumptions C08_uint8_list.

(* 7. Uint64VectorHTR / Uint64ListHTR: the chunks of the serialized values *)
Theorem C08_uint64_vector : forall (H : chunk -> chunk -> chunk) (zh : nat -> chunk),
  (forall d, zh d = zero_hash H d) ->
  forall vals, lenN vals < 2^60 ->
  uint64_vector_htr H zh vals =
  OK (merkleize_spec H (pack (flat_map (le_bytes 8) vals)) ((lenN vals * 8 + 31) / 32)).
Proof. exact uint64_vector_correct. Qed.
Print Assumptions C08_uint64_vector.

Theorem C08_uint64_list : forall (H : chunk -> chunk -> chunk) (zh : nat -> chunk),
  (forall d, zh d = zero_hash H d) ->
  forall vals limit, lenN vals <= limit -> limit < 2^60 ->
  uint64_list_htr H zh vals limit =
  OK (mix_in_length H
        (merkleize_spec H (pack (flat_map (le_bytes 8) vals)) ((limit * 8 + 31) / 32))
        (lenN vals)).
Proof. exact uint64_list_correct. Qed.
Print Assumptions C08_uint64_list.

(* 8. BitVectorHTR / BitListHTR on the packed bits (the bitlist with its delimiter bit) *)
Theorem C08_bit_vector : forall (H : chunk -> chunk -> chunk) (zh : nat -> chunk),
  (forall d, zh d = zero_hash H d) ->
  forall bits, lenN bits < 2^64 ->
  bit_vector_htr H zh (bits_to_bytes bits) =
  OK (merkleize_spec H (pack_bits bits) ((lenN bits + 255) / 256)).
Proof. exact bit_vector_correct. Qed.
Print Assumptions C08_bit_vector.

Theorem C08_bit_list : forall (H : chunk -> chunk -> chunk) (zh : nat -> chunk),
  (forall d, zh d = zero_hash H d) ->
  forall bits limit, lenN bits <= limit -> limit < 2^63 ->
  bit_list_htr H zh (bits_to_bytes (bits ++ [true])) limit =
  OK (mix_in_length H (merkleize_spec H (pack_bits bits) ((limit + 255) / 256)) (lenN bits)).
Proof. exact bit_list_correct. Qed.
Print Assumptions C08_bit_list.

(* 9. Union *)
Theorem C08_union : forall (H : chunk -> chunk -> chunk) sel r, sel < 256 ->
  union_htr H sel (Some r) = mix_in_selector H r sel.
Proof. exact union_correct_some. Qed.
Print Assumptions C08_union.

Theorem C08_union_none : forall (H : chunk -> chunk -> chunk) sel, sel < 256 ->
  union_htr H sel None = mix_in_selector H zero_chunk sel.
Proof. exact union_correct_none. Qed.
Print Assumptions C08_union_none.

(* 10. composition: the generic flat value of Codec.v, hashed through the helpers the way
   downstream users do (bool series are packed user-side), has the spec root *)
Theorem C08_flat_htr : forall (H : chunk -> chunk -> chunk) (zh : nat -> chunk),
  (forall d, zh d = zero_hash H d) ->
  forall t, wf_ty t = true -> small_params t = true -> small_fields t = true ->
  forall v, has_type v t = true ->
  flat_htr H zh t v = OK (spec_htr H t v).
Proof. exact flat_htr_correct. Qed.
Print Assumptions C08_flat_htr.

(* ---- "... and therefore the same root as the tree-backed view of the same value": the flat
   helpers give the Merkle root of any backing that represents the value ([repr], Repr.v), in
   particular of the view built by the constructors ([from_val]); combines [C08_flat_htr] with
   C01's [repr_root].  [no_bool_seq]: known finding D3 (List/Vector[bool] views hash unpacked). ---- *)
From Ztyp Require Import Tree View Repr AgreeProofs.
From Ztyp Require ReprProofs.

Theorem C08_flat_root_is_view_root :
  forall (H : chunk -> chunk -> chunk) (zh : nat -> chunk),
  (forall d, zh d = zero_hash H d) ->
  forall t v n,
    wf_ty t = true -> small_params t = true -> ReprProofs.small_fields t = true ->
    no_bool_seq t = true -> has_type v t = true -> repr zh t n v ->
    flat_htr H zh t v = OK (root_of H n).
Proof. exact flat_htr_is_view_root. Qed.
Print Assumptions C08_flat_root_is_view_root.

Theorem C08_flat_root_is_constructed_view_root :
  forall (H : chunk -> chunk -> chunk) (zh : nat -> chunk),
  (forall d, zh d = zero_hash H d) ->
  forall t v,
    wf_ty t = true -> small_params t = true -> ReprProofs.small_fields t = true ->
    no_bool_seq t = true -> has_type v t = true ->
    exists n, from_val zh t v = OK n /\ flat_htr H zh t v = OK (root_of H n).
Proof. exact flat_htr_is_constructed_view_root. Qed.
Print Assumptions C08_flat_root_is_constructed_view_root.
