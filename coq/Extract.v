(* Extract.v — extraction of the executable model to OCaml for the correspondence check.
   Directives: ExtrOcamlBasic only (bool, option, unit, list, prod, sumbool, comparison
   mapped to the OCaml types of the same meaning).  N, positive, nat and Byte.byte stay the
   extracted inductive types; there is no Extract Constant and no further Extract Inductive. *)
From Ztyp Require Import Base Bitlen Bitfields Tree Merkleize Types Spec Reader View Mut Heap Iter Codec Conv VMach IO IOChain Alloc FlatAlloc Extras TreePath.
Require Extraction.
Require ExtrOcamlBasic.
Extraction Language OCaml.
Extraction "model.ml"
  byte_of_N N_of_byte le_bytes le_val pad32 zero_chunk chunkify bits_to_bytes
  bit_index bit_length cover_depth
  g_anchor g_subtree g_left g_right g_parent g_is_left g_is_root g_is_close g_depth
  g_bit_iter biter_next g_path g_little_endian g_big_endian g_left_aligned to_gindex64
  byte_bit_index get_bit set_bit is_zero_bitlist covers bitlist_len bitlist_check
  bitlist_ones_count bitvector_check bitvector_ones_count
  root_of getter setter summarize summarize_path get_path set_path fill_to_depth fill_to_length fill_to_contents
  merkleize mixin fields_htr complex_vector_htr complex_list_htr uint8_vector_htr
  uint8_list_htr uint64_vector_htr uint64_list_htr byte_vector_htr byte_list_htr
  bit_vector_htr bit_list_htr union_htr
  wf_ty has_type default_val
  spec_is_fixed spec_fixed_len spec_min_len spec_max_len spec_ser spec_htr merkleize_spec
  info default_node from_val view_deserialize view_deserialize_scoped byte_len ser_node
  view_get union_selector union_value read_val list_length
  tm_step tm_init
  ro_iter ix_iter get_all view_from_backing_ok
  flat_enc flat_len flat_decode flat_htr flat_fixed_len w_offset
  print_dec parse_uint uint_unmarshal_json uint_unmarshal_text uint_unmarshal_json_cast
  uint_marshal_text uint_marshal_json u256_unmarshal_text u256_unmarshal_json
  bytes_marshal_text fixed_bytes_unmarshal big_unmarshal
  v_step v_init v_len h_alloc zero_addr
  bool_backing_from_base bool_subview packed_set packed_val chunk_set_bit chunk_get_bit cw_write_all flat_decode_scoped ew_write_all_eager basic_encode basic_decode codec_sum dr_skip dynamic_bytes_unmarshal bytes_string
  run_reads dr_read_io_chain ew_write_all one_shot view_deserialize_a foot perbyte flat_decode_a ffoot fperbyte fnew
  heap_init h_getter h_setter h_merkle h_abs hm_step hm_alloc h_cell.
