(* ==================================================================================== *)
(** * Part B. Bytes and bits inside chunk lists: packing seen pointwise *)
(* ==================================================================================== *)
From Coq Require Import PeanoNat ZArith ZifyN ZifyNat ZifyBool.
From Ztyp Require Import Base Bitlen Tree Types Spec View Mut Repr VMach
     BitlenProofs TreeProofs MerkleProofs ReprProofs MutA.
From Ztyp Require BitfieldsProofs.
Open Scope N_scope.

#[local] Ltac Zify.zify_post_hook ::= Z.div_mod_to_equations.
Local Arguments N.pow : simpl never.
Local Arguments Nat.pow : simpl never.
Local Arguments N.of_nat : simpl never.
Local Arguments N.to_nat : simpl never.
Local Arguments N.div : simpl never.
Local Arguments N.modulo : simpl never.
Local Arguments Nat.div : simpl never.
Local Arguments Nat.modulo : simpl never.
Local Arguments N.log2_up : simpl never.
Local Opaque two64.

(* byte number m of a chunk list (b0 beyond the end) *)
Definition cbyte (cs : list chunk) (m : nat) : byte :=
  nth (m mod 32) (nth (m / 32) cs []) b0.
(* bit number m of a chunk list *)
Definition cbit (cs : list chunk) (m : nat) : bool :=
  N.testbit (N_of_byte (cbyte cs (m / 8))) (N.of_nat (m mod 8)).

Definition len32 (c : chunk) : Prop := length c = 32%nat.

Lemma nth_repeat_b0 k m : nth m (repeat b0 k) b0 = b0.
Proof.
  destruct (Nat.lt_ge_cases m k) as [Hlt|Hge].
  - apply nth_repeat.
  - apply nth_overflow. rewrite repeat_length. exact Hge.
Qed.

Lemma nth_repeat_lt {A} (x d : A) k m : (m < k)%nat -> nth m (repeat x k) d = x.
Proof.
  revert m. induction k as [|k IH]; intros m Hm; [lia|]. destruct m; cbn [repeat nth]; auto. apply IH. lia.
Qed.

Lemma pad32_length bs : length (pad32 bs) = 32%nat.
Proof.
  unfold pad32, pad_to, zero_bytes. rewrite firstn_length, app_length, repeat_length. lia.
Qed.

Lemma nth_pad32 bs k : (k < 32)%nat -> nth k (pad32 bs) b0 = nth k bs b0.
Proof.
  intros Hk. unfold pad32, pad_to, zero_bytes.
  rewrite BitfieldsProofs.nth_firstn_lt by exact Hk.
  destruct (Nat.lt_ge_cases k (length bs)) as [Hlt|Hge].
  - apply app_nth1. exact Hlt.
  - rewrite app_nth2 by exact Hge. rewrite nth_repeat_b0. symmetry. apply nth_overflow. exact Hge.
Qed.

Lemma zero_chunk_len : len32 zero_chunk.
Proof. reflexivity. Qed.

Lemma nth_zero_chunk k : nth k zero_chunk b0 = b0.
Proof. apply nth_repeat_b0. Qed.

Lemma chunkify_fuel_nth : forall fuel bs j, (length bs < fuel)%nat ->
  nth j (chunkify_fuel fuel bs) [] =
  if (32 * j <? length bs)%nat then pad32 (firstn 32 (skipn (32 * j) bs)) else [].
Proof.
  induction fuel as [|f IH]; intros bs j Hl; [lia|].
  destruct bs as [|b bs'].
  - cbn [chunkify_fuel length]. destruct j; reflexivity.
  - cbn [chunkify_fuel]. destruct j as [|j].
    + cbn [nth]. reflexivity.
    + cbn [nth].
      assert (Hs : length (skipn 32 (b :: bs')) = (length (b :: bs') - 32)%nat) by apply skipn_length.
      rewrite IH by (cbn [length] in *; lia). rewrite Hs.
      replace (32 * S j)%nat with (32 + 32 * j)%nat by lia.
      rewrite BitfieldsProofs.skipn_add.
      destruct (Nat.ltb_spec (32 * j) (length (b :: bs') - 32));
        destruct (Nat.ltb_spec (32 + 32 * j) (length (b :: bs'))); try lia; reflexivity.
Qed.

Lemma cbyte_chunkify bs m : cbyte (chunkify bs) m = nth m bs b0.
Proof.
  unfold cbyte, chunkify. rewrite chunkify_fuel_nth by lia.
  pose proof (Nat.div_mod m 32 ltac:(lia)) as Hdm.
  pose proof (Nat.mod_upper_bound m 32 ltac:(lia)) as Hmod.
  destruct (Nat.ltb_spec (32 * (m / 32)) (length bs)) as [Hlt|Hge].
  - rewrite nth_pad32 by exact Hmod. rewrite BitfieldsProofs.nth_firstn_lt by exact Hmod.
    rewrite BitfieldsProofs.nth_skipn_add. f_equal. lia.
  - destruct (m mod 32)%nat; cbn [nth]; symmetry; apply nth_overflow; lia.
Qed.

Lemma chunkify_len32 bs : Forall len32 (chunkify bs).
Proof.
  unfold chunkify. generalize (S (length bs)) as fuel. intros fuel. revert bs.
  induction fuel as [|f IH]; intros bs; [constructor|].
  destruct bs as [|b bs']; [constructor|]. cbn [chunkify_fuel]. constructor; [apply pad32_length|apply IH].
Qed.

Lemma cbyte_nth cs j k : (k < 32)%nat -> nth k (nth j cs []) b0 = cbyte cs (32 * j + k).
Proof.
  intros Hk. unfold cbyte.
  replace ((32 * j + k) / 32)%nat with j by lia.
  replace ((32 * j + k) mod 32)%nat with k by lia.
  reflexivity.
Qed.

Lemma chunks_ext cs1 cs2 :
  Forall len32 cs1 -> Forall len32 cs2 -> length cs1 = length cs2 ->
  (forall m, cbyte cs1 m = cbyte cs2 m) -> cs1 = cs2.
Proof.
  intros H1 H2 Hl Hb. apply (nth_ext _ _ [] [] Hl). intros j Hj.
  rewrite Forall_forall in H1, H2.
  assert (L1 : length (nth j cs1 []) = 32%nat) by (apply H1, nth_In; exact Hj).
  assert (L2 : length (nth j cs2 []) = 32%nat) by (apply H2, nth_In; rewrite <- Hl; exact Hj).
  apply (nth_ext _ _ b0 b0); [exact (eq_trans L1 (eq_sym L2))|]. intros k Hk. change (k < length (nth j cs1 []))%nat in Hk. rewrite L1 in Hk.
  rewrite !cbyte_nth by exact Hk. apply Hb.
Qed.

Lemma cbyte_overflow cs m : (length cs <= m / 32)%nat -> cbyte cs m = b0.
Proof.
  intros Hl. unfold cbyte. rewrite (nth_overflow cs) by exact Hl. destruct (m mod 32)%nat; reflexivity.
Qed.

Lemma cbyte_app_zeros cs k m : cbyte (cs ++ repeat zero_chunk k) m = cbyte cs m.
Proof.
  destruct (Nat.lt_ge_cases (m / 32) (length cs)) as [Hlt|Hge].
  - unfold cbyte. rewrite app_nth1 by exact Hlt. reflexivity.
  - rewrite (cbyte_overflow cs m Hge). unfold cbyte. rewrite app_nth2 by exact Hge.
    destruct (Nat.lt_ge_cases (m / 32 - length cs) k) as [Hlt|Hge'].
    + rewrite nth_repeat_lt by exact Hlt. apply nth_zero_chunk.
    + rewrite (nth_overflow (repeat zero_chunk k)) by (rewrite repeat_length; exact Hge').
      destruct (m mod 32)%nat; reflexivity.
Qed.

Lemma Forall_repeat' {A} (Q : A -> Prop) x k : Q x -> Forall Q (repeat x k).
Proof. intros Hx. induction k; cbn [repeat]; constructor; auto. Qed.

(* pointwise equal chunk lists differ by trailing zero chunks only *)
Lemma chunks_ext_trim cs1 cs2 :
  Forall len32 cs1 -> Forall len32 cs2 -> (length cs2 <= length cs1)%nat ->
  (forall m, cbyte cs1 m = cbyte cs2 m) ->
  cs1 = cs2 ++ repeat zero_chunk (length cs1 - length cs2).
Proof.
  intros H1 H2 Hl Hb. apply chunks_ext; auto.
  - apply Forall_app. split; [exact H2|]. apply Forall_repeat', zero_chunk_len.
  - rewrite app_length, repeat_length. lia.
  - intros m. rewrite cbyte_app_zeros. apply Hb.
Qed.

Lemma list_set_len32 cs j c : Forall len32 cs -> len32 c -> Forall len32 (list_set cs j c).
Proof.
  intros Hcs Hc. revert j. induction Hcs as [|x l Hx Hl IH]; intros [|j]; cbn [list_set];
    constructor; auto.
Qed.

Lemma cbyte_list_set cs j c m : (j < length cs)%nat ->
  cbyte (list_set cs j c) m = if (m / 32 =? j)%nat then nth (m mod 32) c b0 else cbyte cs m.
Proof.
  intros Hj. unfold cbyte. destruct (Nat.eqb_spec (m / 32) j) as [->|Hne].
  - rewrite nth_list_set_eq by exact Hj. reflexivity.
  - rewrite nth_list_set_neq by congruence. reflexivity.
Qed.

Lemma cbyte_snoc cs c m :
  cbyte (cs ++ [c]) m = if (m / 32 =? length cs)%nat then nth (m mod 32) c b0 else cbyte cs m.
Proof.
  unfold cbyte. destruct (Nat.eqb_spec (m / 32) (length cs)) as [->|Hne].
  - rewrite app_nth2, Nat.sub_diag by lia. reflexivity.
  - destruct (Nat.lt_ge_cases (m / 32) (length cs)) as [Hlt|Hge].
    + rewrite app_nth1 by exact Hlt. reflexivity.
    + rewrite (nth_overflow cs) by exact Hge.
      rewrite (nth_overflow (cs ++ [c])) by (rewrite app_length; cbn [length]; lia). reflexivity.
Qed.

(* ---- series of chunks up to trailing zero chunks ---- *)
Section ChunkSeries.
Variable zh : nat -> chunk.
Hypothesis Hz0 : zh 0 = zero_chunk.

Lemma series_chunks_equiv d cs1 cs2 n :
  Forall len32 cs1 -> Forall len32 cs2 -> (length cs2 <= length cs1)%nat ->
  (forall m, cbyte cs1 m = cbyte cs2 m) ->
  series zh d (map is_chunk cs1) n -> series zh d (map is_chunk cs2) n.
Proof.
  intros H1 H2 Hl Hb Hs. rewrite (chunks_ext_trim cs1 cs2 H1 H2 Hl Hb) in Hs.
  rewrite map_app, map_repeat', <- Hz0 in Hs.
  apply (series_drop_zeros zh d _ _ n Hs).
Qed.

Lemma nth_map_chunk cs j m : (j < length cs)%nat ->
  nth j (map is_chunk cs) (fun _ => False) m -> m = Leaf (nth j cs []).
Proof.
  intros Hj Hn. rewrite (nth_indep _ _ (is_chunk []))in Hn by (rewrite map_length; exact Hj).
  rewrite map_nth in Hn. exact Hn.
Qed.
End ChunkSeries.

(* ==================================================================================== *)
(** ** packed unsigned integers *)

Lemma div_in_slot w r m : (0 < w)%nat -> (w * r <= m < w * r + w)%nat -> (m / w = r)%nat.
Proof. intros Hw Hm. symmetry. apply Nat.div_unique with (m - w * r)%nat; lia. Qed.

Lemma div_slot_iff w r m : (0 < w)%nat -> (m / w = r)%nat <-> (w * r <= m < w * r + w)%nat.
Proof.
  intros Hw. split; [|apply div_in_slot; exact Hw].
  intros <-. pose proof (Nat.div_mod m w ltac:(lia)). pose proof (Nat.mod_upper_bound m w ltac:(lia)).
  lia.
Qed.

Definition uint_bytes (w : nat) (v : val) : list byte :=
  match v with VUint n => le_bytes w n | _ => repeat b0 w end.

Lemma uint_bytes_length w v : length (uint_bytes w v) = w.
Proof. destruct v; cbn [uint_bytes]; rewrite ?le_bytes_length, ?repeat_length; reflexivity. Qed.

Lemma flat_map_uint_bytes w vs :
  forallb (fun x => has_type x (TUint w)) vs = true ->
  flat_map (spec_ser (TUint w)) vs = flat_map (uint_bytes (nat_of w)) vs.
Proof.
  induction vs as [|v vs IH]; intros Hty; [reflexivity|].
  cbn [forallb] in Hty. apply andb_prop in Hty. destruct Hty as [Hv Hvs].
  cbn [flat_map]. rewrite IH by exact Hvs. destruct v; try discriminate Hv. reflexivity.
Qed.

Lemma flat_map_fixed_length {A} (f : A -> list byte) w vs :
  (forall v, length (f v) = w) -> length (flat_map f vs) = (w * length vs)%nat.
Proof.
  intros Hf. induction vs as [|v vs IH]; cbn [flat_map length]; [lia|].
  rewrite app_length, Hf, IH. lia.
Qed.

(* byte m of a packed series: element m/w, byte m mod w *)
Lemma nth_flat_map_fixed (f : val -> list byte) w dv : (0 < w)%nat ->
  (forall v, length (f v) = w) -> (forall k, nth k (f dv) b0 = b0) ->
  forall vs m, nth m (flat_map f vs) b0 = nth (m mod w) (f (nth (m / w) vs dv)) b0.
Proof.
  intros Hw Hf Hd. induction vs as [|v vs IH]; intros m.
  - cbn [flat_map]. destruct (m / w)%nat, m; cbn [nth]; rewrite Hd; reflexivity.
  - cbn [flat_map]. destruct (Nat.lt_ge_cases m w) as [Hlt|Hge].
    + rewrite app_nth1 by (rewrite Hf; exact Hlt).
      rewrite Nat.div_small, Nat.mod_small by exact Hlt. reflexivity.
    + rewrite app_nth2 by (rewrite Hf; exact Hge). rewrite Hf, IH.
      replace m with ((m - w) + 1 * w)%nat at 3 4 by lia.
      rewrite Nat.div_add, Nat.mod_add by lia.
      replace ((m - w) / w + 1)%nat with (S ((m - w) / w)) by lia. reflexivity.
Qed.

Lemma uint_bytes_default w k : nth k (uint_bytes w (VUint 0)) b0 = b0.
Proof. cbn [uint_bytes]. rewrite le_bytes_0. apply nth_repeat_b0. Qed.

Lemma nth_packed w vs m : (0 < w)%nat ->
  nth m (flat_map (uint_bytes w) vs) b0 = nth (m mod w) (uint_bytes w (nth (m / w) vs (VUint 0))) b0.
Proof.
  intros Hw. apply nth_flat_map_fixed; [exact Hw|apply uint_bytes_length|apply uint_bytes_default].
Qed.

(* BackingFromBase: the bytes of slot r replaced *)
Definition slot_write (w : nat) (c : chunk) (r : nat) (new : list byte) : chunk :=
  firstn (w * r) c ++ new ++ skipn (w * r + w) c.

Lemma slot_write_length w c r new : length c = 32%nat -> length new = w -> (w * r + w <= 32)%nat ->
  length (slot_write w c r new) = 32%nat.
Proof.
  intros Hc Hn Hr. unfold slot_write. rewrite !app_length, firstn_length, skipn_length. lia.
Qed.

Lemma nth_slot_write w c r new m : (0 < w)%nat -> length c = 32%nat -> length new = w ->
  (w * r + w <= 32)%nat ->
  nth m (slot_write w c r new) b0 = if (m / w =? r)%nat then nth (m mod w) new b0 else nth m c b0.
Proof.
  intros Hw Hc Hn Hr. unfold slot_write.
  destruct (Nat.lt_ge_cases m (w * r)) as [Hlt|Hge].
  - rewrite app_nth1 by (rewrite firstn_length; lia).
    rewrite BitfieldsProofs.nth_firstn_lt by exact Hlt.
    destruct (Nat.eqb_spec (m / w) r) as [E|_]; [|reflexivity].
    apply div_slot_iff in E; lia.
  - rewrite app_nth2 by (rewrite firstn_length; lia). rewrite firstn_length.
    replace (Nat.min (w * r) (length c)) with (w * r)%nat by lia.
    destruct (Nat.lt_ge_cases m (w * r + w)) as [Hlt'|Hge'].
    + rewrite app_nth1 by lia.
      rewrite (div_in_slot w r m Hw) by lia. rewrite Nat.eqb_refl.
      f_equal. apply Nat.mod_unique with r; lia.
    + rewrite app_nth2 by lia. rewrite BitfieldsProofs.nth_skipn_add, Hn.
      destruct (Nat.eqb_spec (m / w) r) as [E|_]; [apply div_slot_iff in E; lia|].
      f_equal. lia.
Qed.

Lemma packed_set_uint w c i n :
  packed_set (TUint w) c i (VUint n) =
  if 32 / w <=? i then Panic else OK (slot_write (nat_of w) c (nat_of i) (le_bytes (nat_of w) n)).
Proof.
  cbn [packed_set]. destruct (32 / w <=? i); [reflexivity|]. unfold slot_write, nat_of.
  rewrite N2Nat.inj_mul. reflexivity.
Qed.

(* the numbers: w bytes per element, p elements per chunk *)
Lemma uint_width_cases w : uint_width_ok w = true ->
  (w = 1 /\ 32 / w = 32) \/ (w = 2 /\ 32 / w = 16) \/ (w = 4 /\ 32 / w = 8) \/
  (w = 8 /\ 32 / w = 4) \/ (w = 32 /\ 32 / w = 1).
Proof.
  unfold uint_width_ok. intros Hw.
  assert (Hc : w = 1 \/ w = 2 \/ w = 4 \/ w = 8 \/ w = 32) by lia.
  destruct Hc as [->|[->|[->|[->| ->]]]]; vm_compute; tauto.
Qed.

Lemma per_node_uint w : per_node (TUint w) = 32 / w.
Proof. reflexivity. Qed.

Lemma land_pred_pow2 i p : (p = 32 \/ p = 16 \/ p = 8 \/ p = 4 \/ p = 1) -> N.land i (p - 1) = i mod p.
Proof.
  intros [->|[->|[->|[->| ->]]]].
  - change (32 - 1) with (N.ones 5). rewrite N.land_ones. reflexivity.
  - change (16 - 1) with (N.ones 4). rewrite N.land_ones. reflexivity.
  - change (8 - 1) with (N.ones 3). rewrite N.land_ones. reflexivity.
  - change (4 - 1) with (N.ones 2). rewrite N.land_ones. reflexivity.
  - change (1 - 1) with (N.ones 0). rewrite N.land_ones. reflexivity.
Qed.

(* byte M of the packed chunks: element M/w *)
Lemma cbyte_packed w vs M : uint_width_ok w = true ->
  forallb (fun x => has_type x (TUint w)) vs = true ->
  cbyte (packed_chunks (TUint w) vs) M =
  nth (M mod nat_of w) (uint_bytes (nat_of w) (nth (M / nat_of w) vs (VUint 0))) b0.
Proof.
  intros Hw Hty. unfold packed_chunks. rewrite cbyte_chunkify, flat_map_uint_bytes by exact Hty.
  apply nth_packed. unfold uint_width_ok, nat_of in *. lia.
Qed.

Lemma packed_chunks_length w vs : uint_width_ok w = true ->
  forallb (fun x => has_type x (TUint w)) vs = true ->
  length (packed_chunks (TUint w) vs) = ((nat_of w * length vs + 31) / 32)%nat.
Proof.
  intros Hw Hty. unfold packed_chunks. rewrite chunkify_length, flat_map_uint_bytes by exact Hty.
  rewrite (flat_map_fixed_length _ (nat_of w)) by apply uint_bytes_length. reflexivity.
Qed.

Lemma nth_list_set_val (vs : list val) i x k d : (i < length vs)%nat ->
  nth k (list_set vs i x) d = if (k =? i)%nat then x else nth k vs d.
Proof.
  intros Hi. destruct (Nat.eqb_spec k i) as [->|Hne].
  - apply nth_list_set_eq. exact Hi.
  - apply nth_list_set_neq. congruence.
Qed.

Lemma nth_snoc_val {A} (vs : list A) x k d :
  nth k (vs ++ [x]) d = if (k =? length vs)%nat then x else nth k vs d.
Proof.
  destruct (Nat.eqb_spec k (length vs)) as [->|Hne].
  - rewrite app_nth2, Nat.sub_diag by lia. reflexivity.
  - destruct (Nat.lt_ge_cases k (length vs)) as [Hlt|Hge].
    + apply app_nth1. exact Hlt.
    + rewrite (nth_overflow vs) by exact Hge. apply nth_overflow. rewrite app_length. cbn [length]. lia.
Qed.

Lemma nth_removelast_val {A} (vs : list A) k d :
  nth k (removelast vs) d = if (k =? length vs - 1)%nat then d else nth k vs d.
Proof.
  destruct (snoc_cases vs) as [->|(l & x & ->)].
  - cbn [removelast length]. destruct k; cbn [nth]; destruct (_ =? _)%nat; reflexivity.
  - rewrite removelast_last, app_length. cbn [length]. replace (length l + 1 - 1)%nat with (length l) by lia.
    rewrite nth_snoc_val. destruct (Nat.eqb_spec k (length l)) as [->|Hne].
    + apply nth_overflow. lia.
    + reflexivity.
Qed.

(* the three chunk-level facts: element i of the series lives in slot i mod p of chunk i / p *)
Section Packed.
Variables (w : N) (vs : list val).
Hypothesis Hw : uint_width_ok w = true.
Hypothesis Hty : forallb (fun x => has_type x (TUint w)) vs = true.

Let wn := nat_of w.
Let pn := nat_of (32 / w).

Lemma wp32 : (0 < wn)%nat /\ (wn * pn = 32)%nat /\ (0 < pn)%nat.
Proof.
  unfold wn, pn, nat_of. destruct (uint_width_cases w Hw) as [[-> ->]|[[-> ->]|[[-> ->]|[[-> ->]|[-> ->]]]]];
    vm_compute; repeat split; lia.
Qed.

(* position arithmetic: byte M lies in chunk j, slot r  <->  element M / w = p j + r *)
Lemma slot_pos j r M : (r < pn)%nat ->
  ((M / 32 = j /\ (M mod 32) / wn = r) <-> M / wn = pn * j + r)%nat.
Proof.
  destruct wp32 as (Hw0 & Hwp & Hp0). intros Hr.
  pose proof (Nat.div_mod M 32 ltac:(lia)) as D1.
  pose proof (Nat.mod_upper_bound M 32 ltac:(lia)) as U1.
  pose proof (Nat.div_mod (M mod 32) wn ltac:(lia)) as D2.
  pose proof (Nat.mod_upper_bound (M mod 32) wn ltac:(lia)) as U2.
  assert (Hq : (M mod 32 / wn < pn)%nat) by (apply Nat.div_lt_upper_bound; lia).
  assert (E : (M / wn = pn * (M / 32) + M mod 32 / wn)%nat).
  { symmetry. apply Nat.div_unique with ((M mod 32) mod wn)%nat; [exact U2|]. nia. }
  rewrite E. split.
  - intros [<- <-]. reflexivity.
  - intros Heq. assert (M / 32 = j)%nat by nia. split; [assumption|nia].
Qed.

Lemma mod_mod_w M : ((M mod 32) mod wn = M mod wn)%nat.
Proof.
  destruct wp32 as (Hw0 & Hwp & Hp0).
  pose proof (Nat.div_mod M 32 ltac:(lia)) as D1.
  symmetry. rewrite D1 at 1.
  replace (32 * (M / 32) + M mod 32)%nat with (M mod 32 + (pn * (M / 32)) * wn)%nat by nia.
  apply Nat.mod_add. lia.
Qed.

Let cs := packed_chunks (TUint w) vs.

(* the chunk a slot write produces, described pointwise *)
Lemma cbyte_slot_write cs0 j (c : chunk) r x M :
  (r < pn)%nat -> length c = 32%nat ->
  (forall k, (k < 32)%nat -> nth k c b0 = cbyte cs (32 * j + k)) ->
  (forall M', (M' / 32 = j)%nat ->
     cbyte cs0 M' = nth (M' mod 32) (slot_write wn c r (uint_bytes wn x)) b0) ->
  (forall M', (M' / 32 <> j)%nat -> cbyte cs0 M' = cbyte cs M') ->
  cbyte cs0 M = nth (M mod wn) (uint_bytes wn (if (M / wn =? pn * j + r)%nat then x
                                               else nth (M / wn) vs (VUint 0))) b0.
Proof.
  destruct wp32 as (Hw0 & Hwp & Hp0). intros Hr Hc Hold Hin Hout.
  pose proof (Nat.div_mod M 32 ltac:(lia)) as D1.
  pose proof (Nat.mod_upper_bound M 32 ltac:(lia)) as U1.
  destruct (Nat.eq_dec (M / 32) j) as [Ej|Nj].
  - rewrite Hin by exact Ej.
    rewrite nth_slot_write; [|exact Hw0|exact Hc|apply uint_bytes_length|nia].
    rewrite mod_mod_w.
    destruct (Nat.eqb_spec (M mod 32 / wn) r) as [Er|Nr].
    + rewrite (proj2 (Nat.eqb_eq _ _) (proj1 (slot_pos j r M Hr) (conj Ej Er))). reflexivity.
    + destruct (Nat.eqb_spec (M / wn) (pn * j + r)) as [E|_].
      { apply (slot_pos j r M Hr) in E. tauto. }
      rewrite Hold by exact U1. subst j. rewrite <- D1.
      unfold cs. apply cbyte_packed; assumption.
  - rewrite Hout by exact Nj.
    destruct (Nat.eqb_spec (M / wn) (pn * j + r)) as [E|_].
    { apply (slot_pos j r M Hr) in E. tauto. }
    unfold cs. apply cbyte_packed; assumption.
Qed.

End Packed.

(* ==================================================================================== *)
(** ** bits *)

Lemma byte_ext a b :
  (forall j, (j < 8)%nat ->
     N.testbit (N_of_byte a) (N.of_nat j) = N.testbit (N_of_byte b) (N.of_nat j)) -> a = b.
Proof.
  intros Hb. apply BitfieldsProofs.N_of_byte_inj. apply N.bits_inj. intros k.
  destruct (N.lt_ge_cases k 8) as [Hlt|Hge].
  - specialize (Hb (N.to_nat k) ltac:(lia)). rewrite N2Nat.id in Hb. exact Hb.
  - pose proof (BitfieldsProofs.N_of_byte_lt a). pose proof (BitfieldsProofs.N_of_byte_lt b).
    rewrite (testbit_small (N_of_byte a) 8 k), (testbit_small (N_of_byte b) 8 k); auto.
Qed.

Lemma cbit_bit_chunks bs M : cbit (bit_chunks bs) M = nth M bs false.
Proof.
  unfold cbit, bit_chunks. rewrite cbyte_chunkify.
  pose proof (Nat.mod_upper_bound M 8 ltac:(lia)) as U.
  rewrite BitfieldsProofs.btb_testbit by exact U. f_equal.
  pose proof (Nat.div_mod M 8 ltac:(lia)). lia.
Qed.

Lemma cbit_ext cs1 cs2 : (forall M, cbit cs1 M = cbit cs2 M) -> forall m, cbyte cs1 m = cbyte cs2 m.
Proof.
  intros Hb m. apply byte_ext. intros j Hj. specialize (Hb (8 * m + j)%nat). unfold cbit in Hb.
  replace ((8 * m + j) / 8)%nat with m in Hb by lia.
  replace ((8 * m + j) mod 8)%nat with j in Hb by lia. exact Hb.
Qed.

Lemma bit_chunks_length bs : length (bit_chunks bs) = ((length bs + 255) / 256)%nat.
Proof. pose proof (bit_chunks_lenN bs) as E. unfold lenN in E. lia. Qed.

Lemma chunk_set_bit_length c i b : length (chunk_set_bit c i b) = length c.
Proof. unfold chunk_set_bit. apply BitfieldsProofs.list_set_length. Qed.

Lemma testbit_byte_of_N x j : (j < 8)%nat ->
  N.testbit (N_of_byte (byte_of_N x)) (N.of_nat j) = N.testbit x (N.of_nat j).
Proof.
  intros Hj. rewrite N_of_byte_of_N. change 256 with (2 ^ 8). apply N.mod_pow2_bits_low. lia.
Qed.

Lemma chunk_set_bit_bits c i b k j : length c = 32%nat -> i < 256 -> (k < 32)%nat -> (j < 8)%nat ->
  N.testbit (N_of_byte (nth k (chunk_set_bit c i b) b0)) (N.of_nat j) =
  if (8 * k + j =? nat_of i)%nat then b else N.testbit (N_of_byte (nth k c b0)) (N.of_nat j).
Proof.
  intros Hc Hi Hk Hj. unfold chunk_set_bit.
  rewrite BitfieldsProofs.shiftr3, BitfieldsProofs.land7.
  assert (Hq : (nat_of (i / 8) < 32)%nat) by (unfold nat_of; lia).
  destruct (Nat.eq_dec k (nat_of (i / 8))) as [->|Hne].
  - rewrite nth_list_set_eq by lia. rewrite testbit_byte_of_N by exact Hj.
    destruct b.
    + rewrite N.lor_spec, N.pow2_bits_eqb.
      destruct (Nat.eqb_spec (8 * nat_of (i / 8) + j) (nat_of i)) as [E|NE].
      * replace (i mod 8 =? N.of_nat j) with true by (symmetry; apply N.eqb_eq; unfold nat_of in *; lia).
        apply orb_true_r.
      * replace (i mod 8 =? N.of_nat j) with false by (symmetry; apply N.eqb_neq; unfold nat_of in *; lia).
        apply orb_false_r.
    + rewrite N.ldiff_spec, N.pow2_bits_eqb.
      destruct (Nat.eqb_spec (8 * nat_of (i / 8) + j) (nat_of i)) as [E|NE].
      * replace (i mod 8 =? N.of_nat j) with true by (symmetry; apply N.eqb_eq; unfold nat_of in *; lia).
        apply andb_false_r.
      * replace (i mod 8 =? N.of_nat j) with false by (symmetry; apply N.eqb_neq; unfold nat_of in *; lia).
        apply andb_true_r.
  - rewrite nth_list_set_neq by congruence.
    destruct (Nat.eqb_spec (8 * k + j) (nat_of i)) as [E|NE]; [|reflexivity].
    exfalso. apply Hne. unfold nat_of in *. lia.
Qed.

(* the chunk list after one bit write in chunk j, described pointwise *)
Lemma cbit_set cs cs0 j (c : chunk) i b M : i < 256 -> length c = 32%nat ->
  (forall k, (k < 32)%nat -> nth k c b0 = cbyte cs (32 * j + k)) ->
  (forall M', (M' / 32 = j)%nat -> cbyte cs0 M' = nth (M' mod 32) (chunk_set_bit c i b) b0) ->
  (forall M', (M' / 32 <> j)%nat -> cbyte cs0 M' = cbyte cs M') ->
  cbit cs0 M = if (M =? 256 * j + nat_of i)%nat then b else cbit cs M.
Proof.
  intros Hi Hc Hold Hin Hout. unfold cbit.
  pose proof (Nat.mod_upper_bound M 8 ltac:(lia)) as U8.
  pose proof (Nat.mod_upper_bound (M / 8) 32 ltac:(lia)) as U32.
  destruct (Nat.eq_dec (M / 8 / 32) j) as [Ej|Nj].
  - rewrite Hin by exact Ej. rewrite chunk_set_bit_bits by assumption.
    rewrite Hold by exact U32.
    replace (32 * j + M / 8 mod 32)%nat with (M / 8)%nat by lia.
    destruct (Nat.eqb_spec (8 * (M / 8 mod 32) + M mod 8) (nat_of i)) as [E|NE];
      destruct (Nat.eqb_spec M (256 * j + nat_of i)) as [E'|NE']; try reflexivity; exfalso; lia.
  - rewrite Hout by exact Nj.
    destruct (Nat.eqb_spec M (256 * j + nat_of i)) as [E'|NE']; [|reflexivity].
    exfalso. unfold nat_of in *. lia.
Qed.

(* ==================================================================================== *)
(** ** chunk lists equal up to trailing zero chunks; the six rewriting facts *)

Definition chunks_equiv (cs1 cs2 : list chunk) : Prop :=
  Forall len32 cs1 /\ Forall len32 cs2 /\ (length cs2 <= length cs1)%nat /\
  forall m, cbyte cs1 m = cbyte cs2 m.

Lemma series_equiv (zh : nat -> chunk) d cs1 cs2 n : zh 0%nat = zero_chunk -> chunks_equiv cs1 cs2 ->
  series zh d (map is_chunk cs1) n -> series zh d (map is_chunk cs2) n.
Proof. intros Hz (H1 & H2 & Hl & Hb). apply series_chunks_equiv; assumption. Qed.

Lemma app_len32 cs c : Forall len32 cs -> len32 c -> Forall len32 (cs ++ [c]).
Proof. intros. apply Forall_app. split; [assumption|]. constructor; [assumption|constructor]. Qed.

Lemma nth_len32 cs j : Forall len32 cs -> (j < length cs)%nat -> length (nth j cs []) = 32%nat.
Proof. intros H Hj. rewrite Forall_forall in H. apply H, nth_In, Hj. Qed.

Lemma forallb_list_set {A} (p : A -> bool) : forall l i x,
  forallb p l = true -> p x = true -> forallb p (list_set l i x) = true.
Proof.
  induction l as [|y l IH]; intros [|i] x Hl Hx; cbn [list_set forallb] in *; auto;
    apply andb_prop in Hl; destruct Hl as [Hy Hl]; rewrite ?Hx, ?Hy; cbn [andb]; auto.
Qed.

Lemma forallb_snoc {A} (p : A -> bool) l x :
  forallb p l = true -> p x = true -> forallb p (l ++ [x]) = true.
Proof. intros Hl Hx. rewrite forallb_app, Hl. cbn [forallb]. rewrite Hx. reflexivity. Qed.

Lemma forallb_removelast {A} (p : A -> bool) l : forallb p l = true -> forallb p (removelast l) = true.
Proof.
  destruct (snoc_cases l) as [->|(l' & x & ->)]; [auto|].
  rewrite removelast_last, forallb_app. intros H. apply andb_prop in H. tauto.
Qed.

(* ---- bits ---- *)
Section BitFacts.
Variable bs : list bool.
Let cs := bit_chunks bs.
Let L := length bs.

Lemma bits_set_equiv i b : (i < L)%nat ->
  let j := (i / 256)%nat in
  (j < length cs)%nat /\
  chunks_equiv (list_set cs j (chunk_set_bit (nth j cs []) (N.of_nat (i mod 256)) b))
               (bit_chunks (list_set bs i b)).
Proof.
  intros Hi j. assert (Hj : (j < length cs)%nat).
  { unfold cs. rewrite bit_chunks_length. unfold j, L in *. lia. }
  split; [exact Hj|].
  assert (H32 : Forall len32 cs) by apply chunkify_len32.
  assert (Hc : length (nth j cs []) = 32%nat) by (apply nth_len32; assumption).
  repeat split.
  - apply list_set_len32; [exact H32|]. unfold len32. rewrite chunk_set_bit_length. exact Hc.
  - apply chunkify_len32.
  - rewrite BitfieldsProofs.list_set_length, bit_chunks_length. unfold cs.
    rewrite bit_chunks_length, BitfieldsProofs.list_set_length. lia.
  - apply cbit_ext. intros M. rewrite cbit_bit_chunks.
    rewrite (cbit_set cs _ j (nth j cs []) (N.of_nat (i mod 256)) b M).
    + unfold cs. rewrite cbit_bit_chunks. unfold nat_of. rewrite Nat2N.id.
      destruct (Nat.eqb_spec M (256 * j + i mod 256)) as [E|NE].
      * replace M with i by (unfold j in E; lia). symmetry. apply nth_list_set_eq. exact Hi.
      * symmetry. apply nth_list_set_neq. unfold j in NE. lia.
    + pose proof (Nat.mod_upper_bound i 256 ltac:(lia)). lia.
    + exact Hc.
    + intros k Hk. apply cbyte_nth. exact Hk.
    + intros M' HM'. rewrite cbyte_list_set by exact Hj. rewrite (proj2 (Nat.eqb_eq _ _) HM'). reflexivity.
    + intros M' HM'. rewrite cbyte_list_set by exact Hj. rewrite (proj2 (Nat.eqb_neq _ _) HM'). reflexivity.
Qed.

Lemma bits_append_equiv b :
  let j := (L / 256)%nat in
  ((L mod 256 = 0)%nat -> j = length cs /\
     chunks_equiv (cs ++ [chunk_set_bit zero_chunk 0 b]) (bit_chunks (bs ++ [b]))) /\
  ((L mod 256 <> 0)%nat -> (j < length cs)%nat /\
     chunks_equiv (list_set cs j (chunk_set_bit (nth j cs []) (N.of_nat (L mod 256)) b))
                  (bit_chunks (bs ++ [b]))).
Proof.
  intros j. assert (H32 : Forall len32 cs) by apply chunkify_len32.
  assert (Hlen : length cs = ((L + 255) / 256)%nat) by apply bit_chunks_length.
  assert (Hlen' : length (bit_chunks (bs ++ [b])) = ((L + 1 + 255) / 256)%nat).
  { rewrite bit_chunks_length, app_length. reflexivity. }
  pose proof (Nat.mod_upper_bound L 256 ltac:(lia)) as HU.
  split; intros Hm.
  - assert (Hj : j = length cs) by (unfold j; lia). split; [exact Hj|].
    repeat split.
    + apply app_len32; [exact H32|]. unfold len32. rewrite chunk_set_bit_length. reflexivity.
    + apply chunkify_len32.
    + rewrite app_length. cbn [length]. lia.
    + apply cbit_ext. intros M. rewrite cbit_bit_chunks.
      rewrite (cbit_set cs _ j zero_chunk 0 b M).
      * unfold cs. rewrite cbit_bit_chunks. rewrite nth_snoc_val. fold L.
        change (nat_of 0) with O.
        replace (256 * j + 0)%nat with L by (unfold j; lia). reflexivity.
      * lia.
      * reflexivity.
      * intros k Hk. rewrite nth_zero_chunk. symmetry. apply cbyte_overflow. lia.
      * intros M' HM'. rewrite cbyte_snoc. rewrite <- Hj, (proj2 (Nat.eqb_eq _ _) HM'). reflexivity.
      * intros M' HM'. rewrite cbyte_snoc. rewrite <- Hj, (proj2 (Nat.eqb_neq _ _) HM'). reflexivity.
  - assert (Hj : (j < length cs)%nat) by (unfold j; lia). split; [exact Hj|].
    assert (Hc : length (nth j cs []) = 32%nat) by (apply nth_len32; assumption).
    repeat split.
    + apply list_set_len32; [exact H32|]. unfold len32. rewrite chunk_set_bit_length. exact Hc.
    + apply chunkify_len32.
    + rewrite BitfieldsProofs.list_set_length. unfold j in *. lia.
    + apply cbit_ext. intros M. rewrite cbit_bit_chunks.
      rewrite (cbit_set cs _ j (nth j cs []) (N.of_nat (L mod 256)) b M).
      * unfold cs. rewrite cbit_bit_chunks. rewrite nth_snoc_val. fold L.
        unfold nat_of. rewrite Nat2N.id.
        replace (256 * j + L mod 256)%nat with L by (unfold j; lia). reflexivity.
      * lia.
      * exact Hc.
      * intros k Hk. apply cbyte_nth. exact Hk.
      * intros M' HM'. rewrite cbyte_list_set by exact Hj. rewrite (proj2 (Nat.eqb_eq _ _) HM'). reflexivity.
      * intros M' HM'. rewrite cbyte_list_set by exact Hj. rewrite (proj2 (Nat.eqb_neq _ _) HM'). reflexivity.
Qed.

Lemma bits_pop_equiv : (0 < L)%nat ->
  let j := ((L - 1) / 256)%nat in
  (j < length cs)%nat /\
  chunks_equiv (list_set cs j (chunk_set_bit (nth j cs []) (N.of_nat ((L - 1) mod 256)) false))
               (bit_chunks (removelast bs)).
Proof.
  intros HL j. assert (H32 : Forall len32 cs) by apply chunkify_len32.
  assert (Hlen : length cs = ((L + 255) / 256)%nat) by apply bit_chunks_length.
  assert (Hlr : length (removelast bs) = (L - 1)%nat).
  { pose proof (lenN_removelast bs) as E. unfold lenN in E. fold L in E. lia. }
  pose proof (Nat.mod_upper_bound (L - 1) 256 ltac:(lia)) as HU.
  assert (Hj : (j < length cs)%nat) by (unfold j; lia). split; [exact Hj|].
  assert (Hc : length (nth j cs []) = 32%nat) by (apply nth_len32; assumption).
  repeat split.
  - apply list_set_len32; [exact H32|]. unfold len32. rewrite chunk_set_bit_length. exact Hc.
  - apply chunkify_len32.
  - rewrite BitfieldsProofs.list_set_length, bit_chunks_length, Hlr. lia.
  - apply cbit_ext. intros M. rewrite cbit_bit_chunks.
    rewrite (cbit_set cs _ j (nth j cs []) (N.of_nat ((L - 1) mod 256)) false M).
    + unfold cs. rewrite cbit_bit_chunks. rewrite nth_removelast_val. fold L.
      unfold nat_of. rewrite Nat2N.id.
      replace (256 * j + (L - 1) mod 256)%nat with (L - 1)%nat by (unfold j; lia). reflexivity.
    + lia.
    + exact Hc.
    + intros k Hk. apply cbyte_nth. exact Hk.
    + intros M' HM'. rewrite cbyte_list_set by exact Hj. rewrite (proj2 (Nat.eqb_eq _ _) HM'). reflexivity.
    + intros M' HM'. rewrite cbyte_list_set by exact Hj. rewrite (proj2 (Nat.eqb_neq _ _) HM'). reflexivity.
Qed.
End BitFacts.

(* ---- packed unsigned integers ---- *)
Section PackedFacts.
Variables (w : N) (vs : list val).
Hypothesis Hw : uint_width_ok w = true.
Hypothesis Hty : forallb (fun x => has_type x (TUint w)) vs = true.

Let wn := nat_of w.
Let pn := nat_of (32 / w).
Let cs := packed_chunks (TUint w) vs.
Let L := length vs.

Lemma pf_len : length cs = ((wn * L + 31) / 32)%nat.
Proof. apply packed_chunks_length; assumption. Qed.

Lemma pf_slot_len j r x : (r < pn)%nat -> (j < length cs)%nat ->
  len32 (slot_write wn (nth j cs []) r (uint_bytes wn x)).
Proof.
  destruct (wp32 w vs Hw Hty) as (Hw0 & Hwp & Hp0). fold wn pn in Hw0, Hwp, Hp0.
  intros Hr Hj. apply slot_write_length.
  - apply nth_len32; [apply chunkify_len32|exact Hj].
  - apply uint_bytes_length.
  - nia.
Qed.

Lemma pf_in cs' j c' M : (j < length cs')%nat -> (M / 32 = j)%nat ->
  cbyte (list_set cs' j c') M = nth (M mod 32) c' b0.
Proof. intros Hj HM. rewrite cbyte_list_set by exact Hj. rewrite (proj2 (Nat.eqb_eq _ _) HM). reflexivity. Qed.

Lemma pf_out cs' j c' M : (j < length cs')%nat -> (M / 32 <> j)%nat ->
  cbyte (list_set cs' j c') M = cbyte cs' M.
Proof. intros Hj HM. rewrite cbyte_list_set by exact Hj. rewrite (proj2 (Nat.eqb_neq _ _) HM). reflexivity. Qed.

Lemma packed_set_equiv i x : has_type x (TUint w) = true -> (i < L)%nat ->
  let j := (i / pn)%nat in
  (j < length cs)%nat /\ (i mod pn < pn)%nat /\
  chunks_equiv (list_set cs j (slot_write wn (nth j cs []) (i mod pn) (uint_bytes wn x)))
               (packed_chunks (TUint w) (list_set vs i x)).
Proof.
  destruct (wp32 w vs Hw Hty) as (Hw0 & Hwp & Hp0). fold wn pn in Hw0, Hwp, Hp0.
  intros Hx Hi j.
  pose proof (Nat.div_mod i pn ltac:(lia)) as Dm. fold j in Dm.
  pose proof (Nat.mod_upper_bound i pn ltac:(lia)) as Hr.
  assert (Hty' : forallb (fun y => has_type y (TUint w)) (list_set vs i x) = true)
    by (apply forallb_list_set; assumption).
  assert (Hj : (j < length cs)%nat).
  { rewrite pf_len. assert (32 * j + 1 <= wn * L)%nat by nia. lia. }
  split; [exact Hj|]. split; [exact Hr|].
  assert (H32 : Forall len32 cs) by apply chunkify_len32.
  repeat split.
  - apply list_set_len32; [exact H32|]. apply pf_slot_len; assumption.
  - apply chunkify_len32.
  - rewrite BitfieldsProofs.list_set_length, pf_len.
    rewrite packed_chunks_length by assumption. rewrite BitfieldsProofs.list_set_length. fold wn L. lia.
  - intros M.
    rewrite (cbyte_slot_write w vs Hw Hty _ j (nth j cs []) (i mod pn) x M).
    + rewrite (cbyte_packed w _ M Hw Hty'). fold wn pn.
      rewrite nth_list_set_val by exact Hi. rewrite <- Dm. reflexivity.
    + exact Hr.
    + apply nth_len32; assumption.
    + intros k Hk. apply cbyte_nth. exact Hk.
    + intros M' HM'. apply pf_in; assumption.
    + intros M' HM'. apply pf_out; assumption.
Qed.

Lemma packed_append_equiv x : has_type x (TUint w) = true ->
  let j := (L / pn)%nat in
  ((L mod pn = 0)%nat -> j = length cs /\
     chunks_equiv (cs ++ [slot_write wn zero_chunk 0 (uint_bytes wn x)])
                  (packed_chunks (TUint w) (vs ++ [x]))) /\
  ((L mod pn <> 0)%nat -> (j < length cs)%nat /\ (L mod pn < pn)%nat /\
     chunks_equiv (list_set cs j (slot_write wn (nth j cs []) (L mod pn) (uint_bytes wn x)))
                  (packed_chunks (TUint w) (vs ++ [x]))).
Proof.
  destruct (wp32 w vs Hw Hty) as (Hw0 & Hwp & Hp0). fold wn pn in Hw0, Hwp, Hp0.
  intros Hx j.
  pose proof (Nat.div_mod L pn ltac:(lia)) as Dm. fold j in Dm.
  pose proof (Nat.mod_upper_bound L pn ltac:(lia)) as Hr.
  assert (Hty' : forallb (fun y => has_type y (TUint w)) (vs ++ [x]) = true)
    by (apply forallb_snoc; assumption).
  assert (H32 : Forall len32 cs) by apply chunkify_len32.
  assert (Hlen' : length (packed_chunks (TUint w) (vs ++ [x])) = ((wn * (L + 1) + 31) / 32)%nat).
  { rewrite packed_chunks_length by assumption. rewrite app_length. reflexivity. }
  assert (Hw32 : (wn <= 32)%nat) by nia.
  split; intros Hm.
  - assert (HwL : (wn * L = 32 * j)%nat) by nia.
    assert (Hj : j = length cs) by (rewrite pf_len; lia). split; [exact Hj|].
    repeat split.
    + apply app_len32; [exact H32|]. apply slot_write_length; [reflexivity|apply uint_bytes_length|nia].
    + apply chunkify_len32.
    + rewrite Hlen', app_length. cbn [length]. rewrite <- Hj. lia.
    + intros M.
      rewrite (cbyte_slot_write w vs Hw Hty _ j zero_chunk 0 x M).
      * rewrite (cbyte_packed w _ M Hw Hty'). fold wn pn.
        rewrite nth_snoc_val. fold L. replace (pn * j + 0)%nat with L by lia. reflexivity.
      * exact Hp0.
      * reflexivity.
      * intros k Hk. rewrite nth_zero_chunk. symmetry. apply cbyte_overflow. fold cs. lia.
      * intros M' HM'. rewrite cbyte_snoc. fold cs. rewrite <- Hj, (proj2 (Nat.eqb_eq _ _) HM'). reflexivity.
      * intros M' HM'. rewrite cbyte_snoc. fold cs. rewrite <- Hj, (proj2 (Nat.eqb_neq _ _) HM'). reflexivity.
  - assert (HwL : (wn * L = 32 * j + wn * (L mod pn))%nat) by nia.
    assert (Hwr : (1 <= wn * (L mod pn))%nat) by nia.
    assert (Hwr' : (wn * (L mod pn) + wn <= 32)%nat) by nia.
    assert (Hj : (j < length cs)%nat) by (rewrite pf_len; lia).
    split; [exact Hj|]. split; [exact Hr|].
    repeat split.
    + apply list_set_len32; [exact H32|]. apply pf_slot_len; assumption.
    + apply chunkify_len32.
    + rewrite Hlen', BitfieldsProofs.list_set_length, pf_len. lia.
    + intros M.
      rewrite (cbyte_slot_write w vs Hw Hty _ j (nth j cs []) (L mod pn) x M).
      * rewrite (cbyte_packed w _ M Hw Hty'). fold wn pn.
        rewrite nth_snoc_val. fold L. rewrite <- Dm. reflexivity.
      * exact Hr.
      * apply nth_len32; assumption.
      * intros k Hk. apply cbyte_nth. exact Hk.
      * intros M' HM'. apply pf_in; assumption.
      * intros M' HM'. apply pf_out; assumption.
Qed.

Lemma packed_pop_equiv : (0 < L)%nat ->
  let j := ((L - 1) / pn)%nat in
  (j < length cs)%nat /\ ((L - 1) mod pn < pn)%nat /\
  chunks_equiv (list_set cs j (slot_write wn (nth j cs []) ((L - 1) mod pn) (uint_bytes wn (VUint 0))))
               (packed_chunks (TUint w) (removelast vs)).
Proof.
  destruct (wp32 w vs Hw Hty) as (Hw0 & Hwp & Hp0). fold wn pn in Hw0, Hwp, Hp0.
  intros HL j.
  pose proof (Nat.div_mod (L - 1) pn ltac:(lia)) as Dm. fold j in Dm.
  pose proof (Nat.mod_upper_bound (L - 1) pn ltac:(lia)) as Hr.
  assert (Hty' : forallb (fun y => has_type y (TUint w)) (removelast vs) = true)
    by (apply forallb_removelast; assumption).
  assert (Hlr : length (removelast vs) = (L - 1)%nat).
  { pose proof (lenN_removelast vs) as E. unfold lenN in E. fold L in E. lia. }
  assert (H32 : Forall len32 cs) by apply chunkify_len32.
  assert (Hj : (j < length cs)%nat).
  { rewrite pf_len. assert (32 * j + 1 <= wn * L)%nat by nia. lia. }
  split; [exact Hj|]. split; [exact Hr|].
  repeat split.
  - apply list_set_len32; [exact H32|]. apply pf_slot_len; assumption.
  - apply chunkify_len32.
  - rewrite BitfieldsProofs.list_set_length, pf_len.
    rewrite packed_chunks_length by assumption. rewrite Hlr. fold wn.
    assert (wn * (L - 1) <= wn * L)%nat by nia. lia.
  - intros M.
    rewrite (cbyte_slot_write w vs Hw Hty _ j (nth j cs []) ((L - 1) mod pn) (VUint 0) M).
    + rewrite (cbyte_packed w _ M Hw Hty'). fold wn pn.
      rewrite nth_removelast_val. fold L. rewrite <- Dm. reflexivity.
    + exact Hr.
    + apply nth_len32; assumption.
    + intros k Hk. apply cbyte_nth. exact Hk.
    + intros M' HM'. apply pf_in; assumption.
    + intros M' HM'. apply pf_out; assumption.
Qed.
End PackedFacts.
