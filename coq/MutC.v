(* ==================================================================================== *)
(** * Part C. The typed mutations over pure trees, one by one *)
(* ==================================================================================== *)
From Coq Require Import PeanoNat ZArith ZifyN ZifyNat ZifyBool.
From Ztyp Require Import Base Bitlen Tree Types Spec View Mut Repr VMach
     BitlenProofs TreeProofs MerkleProofs ReprProofs MutA MutB.
From Ztyp Require BitfieldsProofs.
Open Scope N_scope.

#[local] Ltac Zify.zify_post_hook ::= Z.div_mod_to_equations.
Local Arguments N.pow : simpl never.
Local Arguments Nat.pow : simpl never.
Local Arguments N.of_nat : simpl never.
Local Arguments N.to_nat : simpl never.
Local Arguments N.div : simpl never.
Local Arguments N.modulo : simpl never.
Local Arguments Nat.div : simpl never.
Local Arguments Nat.modulo : simpl never.
Local Arguments N.log2_up : simpl never.
Local Opaque two64.

(* where the bottom positions of a view of type t are: [d] levels below the contents node,
   which is the backing itself or (lists) its left child *)
Definition geom (t : ty) (lst : bool) (d : nat) : Prop :=
  view_depth t = N.of_nat d + (if lst then 1 else 0) /\ view_depth t < 64.
Definition wrapn (lst : bool) (c L : node) : node := if lst then Pair c L else c.

Lemma g_path_3 : g_path 3 = [true].
Proof. vm_compute. reflexivity. Qed.
Lemma g_path_2 : g_path 2 = [false].
Proof. vm_compute. reflexivity. Qed.

Lemma firstn8_len_leaf ll : firstn 8 (pad32 (le_bytes 8 ll)) = le_bytes 8 ll.
Proof.
  rewrite pad32_short by (rewrite le_bytes_length; lia).
  rewrite firstn_app, le_bytes_length. change (8 - 8)%nat with O. rewrite firstn_O, app_nil_r.
  apply firstn_all2. rewrite le_bytes_length. lia.
Qed.

Lemma le_val_len_leaf ll : ll < 2 ^ 64 -> le_val (firstn 8 (pad32 (le_bytes 8 ll))) = ll.
Proof.
  intros Hl. rewrite firstn8_len_leaf, le_val_le_bytes. change (256 ^ N.of_nat 8) with (2 ^ 64).
  apply N.mod_small. exact Hl.
Qed.

Section Pure.
Variable zh : nat -> chunk.
Hypothesis Hz0 : zh 0%nat = zero_chunk.

Notation series := (series zh).

Lemma gindex_geom t lst d i : geom t lst d -> i < 2 ^ N.of_nat d ->
  to_gindex64 i (view_depth t) = OK (2 ^ view_depth t + i).
Proof.
  intros [Hv H64] Hi. rewrite to_gindex64_spec.
  rewrite (proj2 (N.ltb_lt _ _) H64).
  assert (Hlt : i < 2 ^ view_depth t).
  { rewrite Hv. destruct lst.
    - rewrite N.pow_add_r. change (2 ^ 1) with 2. lia.
    - rewrite N.add_0_r. exact Hi. }
  rewrite (proj2 (N.ltb_lt _ _) Hlt). reflexivity.
Qed.

Lemma pget_geom t lst d c L i : geom t lst d -> i < 2 ^ N.of_nat d ->
  p_get tt (wrapn lst c L) (2 ^ view_depth t + i) = get_path c (bits_msb d i).
Proof.
  intros [Hv H64] Hi. unfold p_get, getter. rewrite Hv in *. destruct lst; cbn [wrapn].
  - replace (N.of_nat d + 1) with (N.of_nat (S d)) in * by lia.
    rewrite g_path_bits by (rewrite ?pow2N_S; lia).
    rewrite bits_msb_left by exact Hi. apply get_path_pair.
  - rewrite N.add_0_r in *. rewrite g_path_bits by assumption. reflexivity.
Qed.

Lemma pset_geom t lst d c L i e v : geom t lst d -> i < 2 ^ N.of_nat d ->
  p_set zh tt (wrapn lst c L) (2 ^ view_depth t + i) e v =
  do c' <- set_path zh c (bits_msb d i) e v; OK (wrapn lst c' L, tt).
Proof.
  intros [Hv H64] Hi. unfold p_set, setter. rewrite Hv in *. destruct lst; cbn [wrapn].
  - replace (N.of_nat d + 1) with (N.of_nat (S d)) in * by lia.
    rewrite g_path_bits by (rewrite ?pow2N_S; lia).
    rewrite bits_msb_left by exact Hi. rewrite set_path_cons, step_children_pair. cbn [bind].
    destruct (set_path zh c (bits_msb d i) e v); reflexivity.
  - rewrite N.add_0_r in *. rewrite g_path_bits by assumption.
    destruct (set_path zh c (bits_msb d i) e v); reflexivity.
Qed.

(* ---- the length leaf ---- *)
Lemma tm_length_ok limit c ll : ll <= limit -> ll < 2 ^ 64 ->
  m_length node unit p_get p_chunk limit tt (Pair c (len_leaf ll)) = OK ll.
Proof.
  intros Hle Hl. unfold m_length, p_get, getter. rewrite g_path_3.
  rewrite get_path_pair, get_path_nil. cbn [bind p_chunk leaf_chunk len_leaf].
  rewrite le_val_len_leaf by exact Hl.
  rewrite (proj2 (N.ltb_ge _ _) Hle). reflexivity.
Qed.

Lemma tm_set_length_ok c L len :
  m_set_length node unit (p_set zh) p_leaf tt (Pair c L) len = OK (Pair c (len_leaf len), tt).
Proof.
  unfold m_set_length, p_leaf, p_set, setter. rewrite g_path_3. reflexivity.
Qed.

Lemma tm_check_index_ok t c ll i : ll <= list_limit t -> ll < 2 ^ 64 ->
  m_check_index node unit p_get p_chunk t tt (Pair c (len_leaf ll)) i =
  if ll <=? i then Err else OK tt.
Proof.
  intros Hle Hl. unfold m_check_index. rewrite tm_length_ok by assumption. cbn [bind].
  destruct (N.leb_spec ll i) as [Hi|Hi]; [reflexivity|].
  rewrite (proj2 (N.leb_gt _ _)) by lia. reflexivity.
Qed.

(* ---- slots ---- *)
Lemma read_slot t lst d c L ps i : geom t lst d -> series d ps c -> i < lenN ps ->
  exists m, m_get_node node unit p_get t tt (wrapn lst c L) i = OK m /\
            nth (nat_of i) ps (fun _ => False) m.
Proof.
  intros Hg Hs Hi. pose proof (series_length zh _ _ _ Hs) as Hl.
  unfold m_get_node. rewrite (gindex_geom t lst d i Hg) by lia. cbn [bind].
  rewrite (pget_geom t lst d c L i Hg) by lia. apply (series_get zh); assumption.
Qed.

Lemma write_slot t lst d c L ps i e v (q : node -> Prop) :
  geom t lst d -> series d ps c -> i < lenN ps -> q v ->
  exists c', p_set zh tt (wrapn lst c L) (2 ^ view_depth t + i) e v = OK (wrapn lst c' L, tt) /\
             series d (list_set ps (nat_of i) q) c'.
Proof.
  intros Hg Hs Hi Hq. pose proof (series_length zh _ _ _ Hs) as Hl.
  rewrite (pset_geom t lst d c L i e v Hg) by lia.
  destruct (series_set zh d ps c i e v q Hs Hi Hq) as (c' & E & S).
  exists c'. rewrite E. split; [reflexivity|exact S].
Qed.

Lemma append_slot t lst d c L ps v (q : node -> Prop) :
  geom t lst d -> series d ps c -> lenN ps < 2 ^ N.of_nat d -> q v ->
  exists c', p_set zh tt (wrapn lst c L) (2 ^ view_depth t + lenN ps) true v = OK (wrapn lst c' L, tt) /\
             series d (ps ++ [q]) c'.
Proof.
  intros Hg Hs Hl Hq.
  rewrite (pset_geom t lst d c L _ true v Hg) by lia.
  assert (Hd : (d <= 64)%nat) by (destruct Hg as [Hv H64]; lia).
  destruct (series_append zh d ps c v q Hd Hs Hl Hq) as (c' & E & S).
  exists c'. rewrite E. split; [reflexivity|exact S].
Qed.

(* ---- chunks ---- *)
Lemma read_chunk t lst d c L cs j : geom t lst d -> series d (map is_chunk cs) c ->
  (j < length cs)%nat ->
  m_get_node node unit p_get t tt (wrapn lst c L) (N.of_nat j) = OK (Leaf (nth j cs [])).
Proof.
  intros Hg Hs Hj.
  destruct (read_slot t lst d c L _ (N.of_nat j) Hg Hs) as (m & E & Hn).
  { rewrite lenN_map. unfold lenN. lia. }
  rewrite E. f_equal. unfold nat_of in Hn. rewrite Nat2N.id in Hn.
  apply (nth_map_chunk cs j m Hj Hn).
Qed.

Lemma write_chunk t lst d c L cs j e c1 : geom t lst d -> series d (map is_chunk cs) c ->
  (j < length cs)%nat ->
  exists c', p_set zh tt (wrapn lst c L) (2 ^ view_depth t + N.of_nat j) e (Leaf c1)
             = OK (wrapn lst c' L, tt) /\
             series d (map is_chunk (list_set cs j c1)) c'.
Proof.
  intros Hg Hs Hj.
  destruct (write_slot t lst d c L _ (N.of_nat j) e (Leaf c1) (is_chunk c1) Hg Hs) as (c' & E & S).
  { rewrite lenN_map. unfold lenN. lia. }
  { reflexivity. }
  exists c'. split; [exact E|]. rewrite map_list_set.
  unfold nat_of in S. rewrite Nat2N.id in S. exact S.
Qed.

Lemma append_chunk t lst d c L cs c1 : geom t lst d -> series d (map is_chunk cs) c ->
  lenN cs < 2 ^ N.of_nat d ->
  exists c', p_set zh tt (wrapn lst c L) (2 ^ view_depth t + lenN cs) true (Leaf c1)
             = OK (wrapn lst c' L, tt) /\
             series d (map is_chunk (cs ++ [c1])) c'.
Proof.
  intros Hg Hs Hl.
  destruct (append_slot t lst d c L _ (Leaf c1) (is_chunk c1) Hg Hs) as (c' & E & S).
  { rewrite lenN_map. exact Hl. }
  { reflexivity. }
  exists c'. rewrite lenN_map in E. split; [exact E|]. rewrite map_app. exact S.
Qed.


(* ==================================================================================== *)
(** ** bitfields *)

Lemma shiftr8 a : N.shiftr a 8 = a / 256.
Proof. rewrite N.shiftr_div_pow2. reflexivity. Qed.
Lemma land255 a : N.land a 255 = a mod 256.
Proof. change 255 with (N.ones 8). rewrite N.land_ones. reflexivity. Qed.

Lemma tm_bit_set_ok t lst d c L bs i b :
  geom t lst d -> series d (map is_chunk (bit_chunks bs)) c -> i < lenN bs ->
  exists c', m_bit_set node unit p_get (p_set zh) p_leaf p_chunk t tt (wrapn lst c L) i b
             = OK (wrapn lst c' L, tt) /\
             series d (map is_chunk (bit_chunks (list_set bs (nat_of i) b))) c'.
Proof.
  intros Hg Hs Hi.
  destruct (bits_set_equiv bs (nat_of i) b) as (Hj & Heq); [unfold lenN, nat_of in *; lia|].
  cbv zeta in Hj, Heq.
  unfold m_bit_set. rewrite shiftr8.
  replace (i / 256) with (N.of_nat (nat_of i / 256)) by (unfold nat_of; lia).
  rewrite (read_chunk t lst d c L _ _ Hg Hs Hj). cbn [bind p_chunk leaf_chunk p_leaf].
  unfold m_set_node.
  pose proof (series_length zh _ _ _ Hs) as Hl. rewrite lenN_map in Hl.
  rewrite (gindex_geom t lst d _ Hg) by (unfold lenN in Hl; lia). cbn [bind].
  destruct (write_chunk t lst d c L _ _ false
              (chunk_set_bit (nth (nat_of i / 256) (bit_chunks bs) []) (wrap8 i) b) Hg Hs Hj)
    as (c' & E & S).
  exists c'. split; [exact E|].
  refine (series_equiv zh d _ _ c' Hz0 _ S).
  replace (wrap8 i) with (N.of_nat (nat_of i mod 256)) by (unfold wrap8, nat_of; lia).
  exact Heq.
Qed.


Lemma tm_bit_append_ok t d c bs b limit :
  geom t true d -> series d (map is_chunk (bit_chunks bs)) c ->
  lenN bs <= limit -> limit < 2 ^ 64 -> (limit + 255) / 256 <= 2 ^ N.of_nat d ->
  if limit <=? lenN bs
  then m_bit_append node unit p_get (p_set zh) p_leaf p_chunk zh t limit tt
         (Pair c (len_leaf (lenN bs))) b = Err
  else exists c', m_bit_append node unit p_get (p_set zh) p_leaf p_chunk zh t limit tt
                    (Pair c (len_leaf (lenN bs))) b
                  = OK (Pair c' (len_leaf (lenN bs + 1)), tt) /\
                  series d (map is_chunk (bit_chunks (bs ++ [b]))) c'.
Proof.
  intros Hg Hs Hle Hlim Hcap. unfold m_bit_append.
  rewrite tm_length_ok by lia. cbn [bind].
  destruct (N.leb_spec limit (lenN bs)) as [Hfull|Hroom]; [reflexivity|].
  rewrite shiftr8, land255.
  replace (lenN bs / 256) with (N.of_nat (length bs / 256)) by (unfold lenN; lia).
  change (Pair c (len_leaf (lenN bs))) with (wrapn true c (len_leaf (lenN bs))).
  rewrite (gindex_geom t true d _ Hg) by (unfold lenN in *; lia). cbn [bind].
  destruct (bits_append_equiv bs b) as [H0 H1]. cbv zeta in H0, H1.
  destruct (N.eqb_spec (lenN bs mod 256) 0) as [Ez|Ez].
  - destruct H0 as (Hj & Heq); [unfold lenN in Ez; lia|].
    cbn [bind p_leaf]. rewrite Hz0, Hj.
    destruct (append_chunk t true d c (len_leaf (lenN bs)) (bit_chunks bs)
                (chunk_set_bit zero_chunk 0 b) Hg Hs) as (c' & E & S).
    { rewrite bit_chunks_lenN. lia. }
    change (lenN (bit_chunks bs)) with (N.of_nat (length (bit_chunks bs))) in E. rewrite E. cbn [bind wrapn]. rewrite tm_set_length_ok.
    exists c'. split; [reflexivity|].
    refine (series_equiv zh d _ _ c' Hz0 _ S). exact Heq.
  - destruct H1 as (Hj & Heq); [unfold lenN in Ez; lia|].
    rewrite (read_chunk t true d c _ _ _ Hg Hs Hj). cbn [bind p_chunk leaf_chunk p_leaf].
    destruct (write_chunk t true d c (len_leaf (lenN bs)) _ _ true
                (chunk_set_bit (nth (length bs / 256) (bit_chunks bs) []) (wrap8 (lenN bs)) b) Hg Hs Hj)
      as (c' & E & S).
    rewrite E. cbn [bind wrapn]. rewrite tm_set_length_ok.
    exists c'. split; [reflexivity|].
    refine (series_equiv zh d _ _ c' Hz0 _ S).
    replace (wrap8 (lenN bs)) with (N.of_nat (length bs mod 256)) by (unfold wrap8, lenN; lia).
    exact Heq.
Qed.

Lemma tm_bit_pop_ok t d c bs limit :
  geom t true d -> series d (map is_chunk (bit_chunks bs)) c ->
  lenN bs <= limit -> limit < 2 ^ 64 ->
  if lenN bs =? 0
  then m_bit_pop node unit p_get (p_set zh) p_leaf p_chunk t limit tt
         (Pair c (len_leaf (lenN bs))) = Err
  else exists c', m_bit_pop node unit p_get (p_set zh) p_leaf p_chunk t limit tt
                    (Pair c (len_leaf (lenN bs)))
                  = OK (Pair c' (len_leaf (lenN bs - 1)), tt) /\
                  series d (map is_chunk (bit_chunks (removelast bs))) c'.
Proof.
  intros Hg Hs Hle Hlim. unfold m_bit_pop.
  rewrite tm_length_ok by lia. cbn [bind].
  destruct (N.eqb_spec (lenN bs) 0) as [Ez|Ez]; [reflexivity|].
  rewrite shiftr8.
  replace ((lenN bs - 1) / 256) with (N.of_nat ((length bs - 1) / 256)) by (unfold lenN; lia).
  change (Pair c (len_leaf (lenN bs))) with (wrapn true c (len_leaf (lenN bs))).
  destruct (bits_pop_equiv bs) as (Hj & Heq); [unfold lenN in Ez; lia|]. cbv zeta in Hj, Heq.
  pose proof (series_length zh _ _ _ Hs) as Hl. rewrite lenN_map in Hl.
  rewrite (gindex_geom t true d _ Hg) by (unfold lenN in Hl; lia). cbn [bind].
  rewrite (read_chunk t true d c _ _ _ Hg Hs Hj). cbn [bind p_chunk leaf_chunk p_leaf].
  destruct (write_chunk t true d c (len_leaf (lenN bs)) _ _ true
              (chunk_set_bit (nth ((length bs - 1) / 256) (bit_chunks bs) []) (wrap8 (lenN bs - 1)) false)
              Hg Hs Hj) as (c' & E & S).
  rewrite E. cbn [bind wrapn]. rewrite tm_set_length_ok.
  exists c'. split; [reflexivity|].
  refine (series_equiv zh d _ _ c' Hz0 _ S).
  replace (wrap8 (lenN bs - 1)) with (N.of_nat ((length bs - 1) mod 256)) by (unfold wrap8, lenN; lia).
  exact Heq.
Qed.


(* ==================================================================================== *)
(** ** packed unsigned integers *)

Lemma sub_index w i : uint_width_ok w = true ->
  wrap8 (N.land i (32 / w - 1)) = i mod (32 / w) /\ i mod (32 / w) < 32 / w /\ 32 / w <> 0.
Proof.
  intros Hw. destruct (uint_width_cases w Hw) as [[-> E]|[[-> E]|[[-> E]|[[-> E]|[-> E]]]]];
    rewrite E; (rewrite land_pred_pow2 by tauto); unfold wrap8; lia.
Qed.

Lemma packed_capacity w ll limit : uint_width_ok w = true -> ll < limit ->
  ll / (32 / w) < chunk_count_basic (TUint w) limit.
Proof.
  intros Hw Hl. unfold chunk_count_basic. cbn [spec_fixed_len].
  destruct (uint_width_cases w Hw) as [[-> E]|[[-> E]|[[-> E]|[[-> E]|[-> E]]]]]; rewrite E; lia.
Qed.

Lemma le_val_zeros k : le_val (repeat b0 k) = 0.
Proof. induction k as [|k IH]; cbn [repeat le_val]; [reflexivity|]. rewrite IH. reflexivity. Qed.

Lemma packed_val_zero w sub : uint_width_ok w = true -> sub < 32 / w ->
  packed_val (TUint w) zero_chunk sub = OK (VUint 0).
Proof.
  intros Hw Hs. unfold packed_val. rewrite (proj2 (N.leb_gt _ _) Hs).
  unfold zero_chunk, zero_bytes. rewrite skipn_repeat', firstn_repeat', !le_val_zeros.
  destruct ((w =? 1) || (w =? 2) || (w =? 4) || (w =? 8)) eqn:E1; [reflexivity|].
  destruct (w =? 32) eqn:E2; [reflexivity|].
  exfalso. unfold uint_width_ok in Hw. rewrite ?E1, ?E2 in Hw. discriminate Hw.
Qed.

Lemma has_type_uint x w : has_type x (TUint w) = true -> exists n, x = VUint n.
Proof. destruct x; cbn [has_type]; try discriminate. eauto. Qed.

Lemma tm_packed_set_ok t lst d c L w vs i x :
  geom t lst d -> uint_width_ok w = true ->
  forallb (fun y => has_type y (TUint w)) vs = true -> has_type x (TUint w) = true ->
  series d (map is_chunk (packed_chunks (TUint w) vs)) c -> i < lenN vs ->
  exists c', m_packed_set node unit p_get (p_set zh) p_leaf p_chunk t (TUint w) tt (wrapn lst c L) i x
             = OK (wrapn lst c' L, tt) /\
             series d (map is_chunk (packed_chunks (TUint w) (list_set vs (nat_of i) x))) c'.
Proof.
  intros Hg Hw Hty Hx Hs Hi.
  destruct (sub_index w i Hw) as (Esub & Hsub & Hp).
  destruct (packed_set_equiv w vs Hw Hty (nat_of i) x Hx) as (Hj & Hr & Heq);
    [unfold lenN, nat_of in *; lia|]. cbv zeta in Hj, Heq.
  destruct (has_type_uint x w Hx) as [n ->].
  unfold m_packed_set. rewrite per_node_uint.
  replace (i / (32 / w)) with (N.of_nat (nat_of i / nat_of (32 / w)))
    by (unfold nat_of; rewrite <- N2Nat.inj_div, N2Nat.id; reflexivity).
  rewrite (read_chunk t lst d c L _ _ Hg Hs Hj). cbn [bind p_chunk leaf_chunk].
  rewrite Esub, packed_set_uint. rewrite (proj2 (N.leb_gt _ _) Hsub). cbn [bind p_leaf].
  unfold m_set_node.
  pose proof (series_length zh _ _ _ Hs) as Hl. rewrite lenN_map in Hl.
  rewrite (gindex_geom t lst d _ Hg) by (unfold lenN in Hl; lia). cbn [bind].
  match goal with |- context [Leaf ?cc] =>
    destruct (write_chunk t lst d c L _ _ false cc Hg Hs Hj) as (c' & E & S) end.
  exists c'. split; [exact E|].
  refine (series_equiv zh d _ _ c' Hz0 _ S).
  replace (nat_of (i mod (32 / w))) with (nat_of i mod nat_of (32 / w))%nat
    by (unfold nat_of; rewrite N2Nat.inj_mod; reflexivity).
  exact Heq.
Qed.

Lemma tm_basic_append_ok t d c w vs x limit :
  geom t true d -> uint_width_ok w = true ->
  forallb (fun y => has_type y (TUint w)) vs = true -> has_type x (TUint w) = true ->
  series d (map is_chunk (packed_chunks (TUint w) vs)) c ->
  lenN vs <= limit -> limit < 2 ^ 64 -> chunk_count_basic (TUint w) limit <= 2 ^ N.of_nat d ->
  if limit <=? lenN vs
  then m_basic_append node unit p_get (p_set zh) p_leaf p_chunk zh t (TUint w) limit tt
         (Pair c (len_leaf (lenN vs))) x = Err
  else exists c', m_basic_append node unit p_get (p_set zh) p_leaf p_chunk zh t (TUint w) limit tt
                    (Pair c (len_leaf (lenN vs))) x
                  = OK (Pair c' (len_leaf (lenN vs + 1)), tt) /\
                  series d (map is_chunk (packed_chunks (TUint w) (vs ++ [x]))) c'.
Proof.
  intros Hg Hw Hty Hx Hs Hle Hlim Hcap. unfold m_basic_append.
  rewrite tm_length_ok by lia. cbn [bind].
  destruct (N.leb_spec limit (lenN vs)) as [Hfull|Hroom]; [reflexivity|].
  destruct (sub_index w (lenN vs) Hw) as (Esub & Hsub & Hp).
  pose proof (packed_capacity w (lenN vs) limit Hw Hroom) as Hc.
  destruct (has_type_uint x w Hx) as [n ->].
  rewrite per_node_uint.
  assert (Ediv : lenN vs / (32 / w) = N.of_nat (length vs / nat_of (32 / w))).
  { unfold lenN, nat_of. rewrite Nat2N.inj_div, N2Nat.id. reflexivity. }
  assert (Emod : (nat_of (lenN vs mod (32 / w)) = length vs mod nat_of (32 / w))%nat).
  { unfold lenN, nat_of. rewrite N2Nat.inj_mod, Nat2N.id. reflexivity. }
  rewrite Ediv in *.
  change (Pair c (len_leaf (lenN vs))) with (wrapn true c (len_leaf (lenN vs))).
  rewrite (gindex_geom t true d _ Hg) by lia. cbn [bind].
  destruct (packed_append_equiv w vs Hw Hty (VUint n) Hx) as [H0 H1]. cbv zeta in H0, H1.
  destruct (N.eqb_spec (lenN vs mod (32 / w)) 0) as [Ez|Ez].
  - destruct H0 as (Hj & Heq); [rewrite <- Emod, Ez; reflexivity|].
    rewrite Hz0, packed_set_uint.
    rewrite (proj2 (N.leb_gt (32 / w) 0)) by lia. cbn [bind p_leaf]. rewrite Hj.
    match goal with |- context [Leaf ?cc] =>
      destruct (append_chunk t true d c (len_leaf (lenN vs)) (packed_chunks (TUint w) vs) cc Hg Hs)
        as (c' & E & S) end.
    { unfold lenN. rewrite <- Hj. lia. }
    change (lenN (packed_chunks (TUint w) vs)) with (N.of_nat (length (packed_chunks (TUint w) vs))) in E.
    rewrite E. cbn [bind wrapn]. rewrite tm_set_length_ok.
    exists c'. split; [reflexivity|].
    refine (series_equiv zh d _ _ c' Hz0 _ S). exact Heq.
  - destruct H1 as (Hj & Hr & Heq); [rewrite <- Emod; unfold nat_of; lia|].
    rewrite (read_chunk t true d c _ _ _ Hg Hs Hj). cbn [bind p_chunk leaf_chunk].
    rewrite Esub, packed_set_uint. rewrite (proj2 (N.leb_gt _ _) Hsub). cbn [bind p_leaf].
    match goal with |- context [Leaf ?cc] =>
      destruct (write_chunk t true d c (len_leaf (lenN vs)) _ _ true cc Hg Hs Hj) as (c' & E & S) end.
    rewrite E. cbn [bind wrapn]. rewrite tm_set_length_ok.
    exists c'. split; [reflexivity|].
    refine (series_equiv zh d _ _ c' Hz0 _ S). rewrite Emod. exact Heq.
Qed.

Lemma tm_basic_pop_ok t d c w vs limit :
  geom t true d -> uint_width_ok w = true ->
  forallb (fun y => has_type y (TUint w)) vs = true ->
  series d (map is_chunk (packed_chunks (TUint w) vs)) c ->
  lenN vs <= limit -> limit < 2 ^ 64 ->
  if lenN vs =? 0
  then m_basic_pop node unit p_get (p_set zh) p_leaf p_chunk zh t (TUint w) limit tt
         (Pair c (len_leaf (lenN vs))) = Err
  else exists c', m_basic_pop node unit p_get (p_set zh) p_leaf p_chunk zh t (TUint w) limit tt
                    (Pair c (len_leaf (lenN vs)))
                  = OK (Pair c' (len_leaf (lenN vs - 1)), tt) /\
                  series d (map is_chunk (packed_chunks (TUint w) (removelast vs))) c'.
Proof.
  intros Hg Hw Hty Hs Hle Hlim. unfold m_basic_pop.
  rewrite tm_length_ok by lia. cbn [bind].
  destruct (N.eqb_spec (lenN vs) 0) as [Ez|Ez]; [reflexivity|].
  destruct (sub_index w (lenN vs - 1) Hw) as (Esub & Hsub & Hp).
  rewrite per_node_uint.
  assert (Ediv : (lenN vs - 1) / (32 / w) = N.of_nat ((length vs - 1) / nat_of (32 / w))).
  { unfold lenN, nat_of. rewrite Nat2N.inj_div, N2Nat.id. f_equal. lia. }
  assert (Emod : (nat_of ((lenN vs - 1) mod (32 / w)) = (length vs - 1) mod nat_of (32 / w))%nat).
  { unfold lenN, nat_of. rewrite N2Nat.inj_mod. f_equal. lia. }
  rewrite Ediv.
  change (Pair c (len_leaf (lenN vs))) with (wrapn true c (len_leaf (lenN vs))).
  destruct (packed_pop_equiv w vs Hw Hty) as (Hj & Hr & Heq); [unfold lenN in Ez; lia|].
  cbv zeta in Hj, Heq.
  pose proof (series_length zh _ _ _ Hs) as Hl. rewrite lenN_map in Hl.
  rewrite (gindex_geom t true d _ Hg) by (unfold lenN in Hl; lia). cbn [bind].
  rewrite (read_chunk t true d c _ _ _ Hg Hs Hj). cbn [bind p_chunk leaf_chunk].
  rewrite Esub, Hz0, (packed_val_zero w _ Hw Hsub). cbn [bind].
  rewrite packed_set_uint. rewrite (proj2 (N.leb_gt _ _) Hsub). cbn [bind p_leaf].
  match goal with |- context [Leaf ?cc] =>
    destruct (write_chunk t true d c (len_leaf (lenN vs)) _ _ true cc Hg Hs Hj) as (c' & E & S) end.
  rewrite E. cbn [bind wrapn]. rewrite tm_set_length_ok.
  exists c'. split; [reflexivity|].
  refine (series_equiv zh d _ _ c' Hz0 _ S). rewrite Emod. exact Heq.
Qed.


(* ==================================================================================== *)
(** ** series of nodes (complex elements, fields) *)

Lemma tm_set_node_ok t lst d c L ps i v (q : node -> Prop) :
  geom t lst d -> series d ps c -> i < lenN ps -> q v ->
  exists c', m_set_node node unit (p_set zh) t tt (wrapn lst c L) i v = OK (wrapn lst c' L, tt) /\
             series d (list_set ps (nat_of i) q) c'.
Proof.
  intros Hg Hs Hi Hq. unfold m_set_node.
  pose proof (series_length zh _ _ _ Hs) as Hl.
  rewrite (gindex_geom t lst d _ Hg) by lia. cbn [bind].
  apply write_slot; assumption.
Qed.

Lemma tm_complex_append_ok t d c ps limit v (q : node -> Prop) :
  geom t true d -> series d ps c -> lenN ps <= limit -> limit < 2 ^ 64 ->
  limit <= 2 ^ N.of_nat d -> q v ->
  if limit <=? lenN ps
  then m_complex_append node unit p_get (p_set zh) p_leaf p_chunk t limit tt
         (Pair c (len_leaf (lenN ps))) v = Err
  else exists c', m_complex_append node unit p_get (p_set zh) p_leaf p_chunk t limit tt
                    (Pair c (len_leaf (lenN ps))) v
                  = OK (Pair c' (len_leaf (lenN ps + 1)), tt) /\
                  series d (ps ++ [q]) c'.
Proof.
  intros Hg Hs Hle Hlim Hcap Hq. unfold m_complex_append.
  rewrite tm_length_ok by lia. cbn [bind].
  destruct (N.leb_spec limit (lenN ps)) as [Hfull|Hroom]; [reflexivity|].
  change (Pair c (len_leaf (lenN ps))) with (wrapn true c (len_leaf (lenN ps))).
  rewrite (gindex_geom t true d _ Hg) by lia. cbn [bind].
  destruct (append_slot t true d c (len_leaf (lenN ps)) ps v q Hg Hs ltac:(lia) Hq) as (c' & E & S).
  rewrite E. cbn [bind wrapn]. rewrite tm_set_length_ok.
  exists c'. split; [reflexivity|exact S].
Qed.

Lemma tm_complex_pop_ok t d c ps limit :
  geom t true d -> series d ps c -> lenN ps <= limit -> limit < 2 ^ 64 ->
  if lenN ps =? 0
  then m_complex_pop node unit p_get (p_set zh) p_leaf p_chunk (p_zero zh) t limit tt
         (Pair c (len_leaf (lenN ps))) = Err
  else exists c', m_complex_pop node unit p_get (p_set zh) p_leaf p_chunk (p_zero zh) t limit tt
                    (Pair c (len_leaf (lenN ps)))
                  = OK (Pair c' (len_leaf (lenN ps - 1)), tt) /\
                  series d (removelast ps) c'.
Proof.
  intros Hg Hs Hle Hlim. unfold m_complex_pop.
  rewrite tm_length_ok by lia. cbn [bind].
  destruct (N.eqb_spec (lenN ps) 0) as [Ez|Ez]; [reflexivity|].
  pose proof (series_length zh _ _ _ Hs) as Hl.
  change (Pair c (len_leaf (lenN ps))) with (wrapn true c (len_leaf (lenN ps))).
  rewrite (gindex_geom t true d _ Hg) by lia. cbn [bind].
  rewrite (pset_geom t true d c _ _ true _ Hg) by lia.
  destruct (series_pop zh d ps c true Hs) as (c' & E & S).
  { intros ->. apply Ez. reflexivity. }
  unfold p_zero. rewrite E. cbn [bind wrapn]. rewrite tm_set_length_ok.
  exists c'. split; [reflexivity|exact S].
Qed.

End Pure.
