(* Eval.v — observation functions used by tools/coqeval.py: the same operations the OCaml driver
   runs on the EXTRACTED model are here evaluated INSIDE Coq (vm_compute) on a sample of the
   cases of a run, and compared with what the driver printed.  This cross-checks the extraction
   and the unverified OCaml glue (hex / number parsing, printing) on the operations that do not
   involve the hash function.  Definitions only; nothing here is part of a theorem.
   An observation is a list of number lists: a number is itself, a bool 0/1, bytes their values,
   a result  OK x = 1 :: x,  Err = [0],  Panic = [2]. *)
From Ztyp Require Import Base Bitlen Bitfields Tree Types Spec Reader View Codec Conv.
Open Scope N_scope.

Definition ob (b : bool) : list N := [if b then 1 else 0].
Definition obytes (bs : list byte) : list N := map N_of_byte bs.
Definition ores {A} (f : A -> list N) (r : res A) : list N :=
  match r with OK a => 1 :: f a | Err => [0] | Panic => [2] end.
Definition oopt {A} (f : A -> list N) (r : option A) : list N :=
  match r with Some a => 1 :: f a | None => [0] end.

Fixpoint nlist_eqb (a b : list N) : bool :=
  match a, b with
  | [], [] => true
  | x :: a', y :: b' => (x =? y) && nlist_eqb a' b'
  | _, _ => false
  end.
Fixpoint obs_eqb (a b : list (list N)) : bool :=
  match a, b with
  | [], [] => true
  | x :: a', y :: b' => nlist_eqb x y && obs_eqb a' b'
  | _, _ => false
  end.

(* indices of the cases whose observation differs from the expected one *)
Fixpoint mismatches_from (i : N) (cases : list (list (list N) * list (list N))) : list N :=
  match cases with
  | [] => []
  | (got, want) :: r =>
    if obs_eqb got want then mismatches_from (i + 1) r else i :: mismatches_from (i + 1) r
  end.
Definition mismatches := mismatches_from 0.

Definition bytes_of (l : list N) : list byte := map byte_of_N l.

(* C16 *)
Definition obs_gindex (v : N) : list (list N) :=
  [[bit_index v]; [bit_length v]; [cover_depth v]; [g_anchor v]; [g_subtree v]; [g_left v];
   [g_right v]; [g_parent v]; ob (g_is_left v); ob (g_is_root v); ob (g_is_close v); [g_depth v];
   map (fun b : bool => if b then 1 else 0) (g_path v);
   oopt obytes (g_little_endian v); oopt obytes (g_big_endian v);
   oopt obytes (fst (g_left_aligned v)); [snd (g_left_aligned v)]].
Definition obs_togindex (i d : N) : list (list N) := [ores (fun x => [x]) (to_gindex64 i d)].

(* C18 *)
Definition ounit (r : res unit) : list N := ores (fun _ => []) r.
Definition obs_bitfield (bs : list byte) (limit idx : N) : list (list N) :=
  [ounit (bitlist_check bs limit); [bitlist_len bs]; [bitlist_ones_count bs]; ob (is_zero_bitlist bs);
   ounit (bitvector_check bs limit); [bitvector_ones_count bs];
   ores ob (get_bit bs idx); ores obytes (set_bit bs idx true); ores obytes (set_bit bs idx false)].
Definition obs_covers (a b : list byte) : list (list N) := [ores ob (covers a b)].

(* C15 *)
Definition obs_c15 (t : ty) : list (list N) :=
  let i := info t in
  [ob (ti_fixed i); [ti_size i]; [ti_min i]; [ti_max i];
   ob (spec_is_fixed t); [spec_fixed_len t]; [spec_min_len t]; [spec_max_len t]].

(* C10: decode with the flat decoder, re-encode *)
Definition obs_c10 (t : ty) (bs : list byte) : list (list N) :=
  match flat_decode t CFresh bs with
  | OK (v, _) => [[1]; ores obytes (flat_enc t v); ob (has_type v t && chunk_eqb (spec_ser t v) bs)]
  | Err => [[0]]
  | Panic => [[2]]
  end.

(* C03: decode with the view decoder, re-serialize (independent of the zero-hash table) *)
Definition zh_dummy (_ : nat) : chunk := zero_chunk.
Definition obs_c03 (t : ty) (bs : list byte) : list (list N) :=
  match view_deserialize zh_dummy t bs with
  | OK n => [[1]; ores obytes (ser_node t n)]
  | Err => [[0]]
  | Panic => [[2]]
  end.

(* C19 *)
Definition ocres (r : cres N) : list N :=
  match r with COk n => [1; n] | CSyntax => [2] | CRange => [3] | CEmpty => [4] | CQuote => [5] | COther => [6] end.
Definition obs_uut (w : N) (text : list byte) : list (list N) := [ocres (uint_unmarshal_text text w)].
Definition obs_uuj (w : N) (text : list byte) : list (list N) := [ocres (uint_unmarshal_json_cast text w)].
Definition obs_u256ut (text : list byte) : list (list N) := [ocres (u256_unmarshal_text text)].
Definition obs_umt (n : N) : list (list N) := [obytes (uint_marshal_text n)].
