(* HeapProofs.v — proofs for properties C05, C06, C07 and C14 (model part) about the heap model
   Heap.v (node identity + the memoised Merkle root of tree.PairNode) and the heap instance
   [hm_step] of the view machine of Mut.v.

   ==== specification vocabulary used by Props/C05.v, C06.v, C07.v, C14.v ====

   (from TreeProofs.v)
   [heap_ext h h']      every cell of h is present, bit-identical, in h'; hp_next grows.
   [heap_wf h]          cells exactly below hp_next; children of a pair are older cells.
   [zeros_ok zh h]      the shared zero leaves &ZeroHashes[d] sit at [zero_addr d], d <= 64.
   [habs h a n]         cell a of heap h stands for the pure tree n (content of the node).

   (new, defined right below)
   [cell_memo_le c c']  c' is c, or c is a pair whose memo is unset (zero_chunk) and c' is the
                        same pair (same children) with some memo: the only in-place write of
                        the Go code (PairNode.MerkleRoot storing c.Value).
   [heap_ext_memo h h'] every cell of h is present in h' up to [cell_memo_le]; hp_next grows.
                        [heap_ext] is the special case without memo writes ([heap_ext_ext_memo]).
   [heap_same_dom h h'] same hp_next and no new cells: nothing was allocated.
   [memo_ok H h]        every remembered root is the root of the node's content:
                        cell a = CPair m l r, m <> zero_chunk, habs h a n  ->  m = root_of H n
                        (for n = Pair x y this is m = H (root x) (root y): the root recomputed
                        from the current children).
   [memoised h a]       every pair cell reachable from a has a non-zero memo ("fully hashed").
   [memo_closed h]      a pair with a non-zero memo has fully hashed children (MerkleRoot sets
                        a memo only after hashing both children; an invariant of the machine).
   [reach h a b]        cell b is reachable from cell a through child pointers.
   [unset_pair h b]     cell b is a pair whose memo is zero_chunk;  [set_pair h b]: non-zero.
   [wcount h a n]       n = number of unset pair cells in the tree below a, counted with the
                        multiplicity of the tree unfolding (an upper bound of the number of
                        distinct ones).
   [frozen_below h k]   every address below k holds a leaf or a pair with a non-zero memo.
   [on_chain hs j k]    handle k is j itself or one of the parents reached from j by following
                        the backing hooks (h_hook) in the handle list hs.
   [hooks_wf hs]        the hook of every handle points to an older handle (smaller index).
   [hm_inv zh st]       machine invariant: heap_wf, zeros_ok, trueRoot allocated, every handle's
                        backing is an allocated address.
   [Hnz H]              forall a b, H a b <> zero_chunk   — needed ONLY where stated (C07 and
                        the "fully hashed afterwards" facts): Go treats an all-zero Value as
                        "not computed", so a hash function that can return 32 zero bytes would
                        be re-invoked on every request. *)
From Coq Require Import FMapPositive PArith.
From Ztyp Require Import Base Bitlen Tree Types View Mut Heap BitlenProofs TreeProofs.
Open Scope N_scope.

(* ------------------------------------------------------------------------------------- *)
(* spec definitions                                                                      *)
(* ------------------------------------------------------------------------------------- *)

Definition cell_memo_le (c c' : cell) : Prop :=
  c' = c \/ exists m l r, c = CPair zero_chunk l r /\ c' = CPair m l r.

Definition heap_ext_memo (h h' : heap) : Prop :=
  (forall a c, h_cell h a = Some c -> exists c', h_cell h' a = Some c' /\ cell_memo_le c c') /\
  (hp_next h <= hp_next h')%positive.

Definition heap_same_dom (h h' : heap) : Prop :=
  hp_next h' = hp_next h /\ forall a, h_cell h a = None -> h_cell h' a = None.

Definition memo_ok (H : chunk -> chunk -> chunk) (h : heap) : Prop :=
  forall a m l r n, h_cell h a = Some (CPair m l r) -> m <> zero_chunk -> habs h a n ->
                    m = root_of H n.

Inductive memoised (h : heap) : addr -> Prop :=
| memoised_leaf a c : h_cell h a = Some (CLeaf c) -> memoised h a
| memoised_pair a m l r : h_cell h a = Some (CPair m l r) -> m <> zero_chunk ->
    memoised h l -> memoised h r -> memoised h a.

Definition memo_closed (h : heap) : Prop :=
  forall a m l r, h_cell h a = Some (CPair m l r) -> m <> zero_chunk ->
                  memoised h l /\ memoised h r.

Inductive reach (h : heap) : addr -> addr -> Prop :=
| reach_refl a : reach h a a
| reach_left a m l r b : h_cell h a = Some (CPair m l r) -> reach h l b -> reach h a b
| reach_right a m l r b : h_cell h a = Some (CPair m l r) -> reach h r b -> reach h a b.

Definition unset_pair (h : heap) (b : addr) : Prop :=
  exists l r, h_cell h b = Some (CPair zero_chunk l r).
Definition set_pair (h : heap) (b : addr) : Prop :=
  exists m l r, h_cell h b = Some (CPair m l r) /\ m <> zero_chunk.

Inductive wcount (h : heap) : addr -> nat -> Prop :=
| wc_leaf a c : h_cell h a = Some (CLeaf c) -> wcount h a 0
| wc_pair a m l r n1 n2 : h_cell h a = Some (CPair m l r) -> wcount h l n1 -> wcount h r n2 ->
    wcount h a (n1 + n2 + (if chunk_eqb m zero_chunk then 1 else 0)).

Definition frozen_cell (c : cell) : Prop :=
  match c with CLeaf _ => True | CPair m _ _ => m <> zero_chunk end.
Definition frozen_below (h : heap) (k : addr) : Prop :=
  forall b, (b < k)%positive -> exists c, h_cell h b = Some c /\ frozen_cell c.

Definition Hnz (H : chunk -> chunk -> chunk) : Prop := forall a b, H a b <> zero_chunk.

(* ------------------------------------------------------------------------------------- *)
(* 1. heap_ext_memo: order properties, stability of content                               *)
(* ------------------------------------------------------------------------------------- *)

Lemma cell_memo_le_refl c : cell_memo_le c c.
Proof. now left. Qed.

Lemma cell_memo_le_trans c1 c2 c3 : cell_memo_le c1 c2 -> cell_memo_le c2 c3 -> cell_memo_le c1 c3.
Proof.
  intros [->|(m & l & r & -> & ->)] [->|(m' & l' & r' & E & ->)].
  - now left.
  - right. eauto.
  - right. eauto.
  - injection E as _ <- <-. right. eauto.
Qed.

Lemma heap_ext_memo_refl h : heap_ext_memo h h.
Proof. split; [|apply Pos.le_refl]. intros a c Hc. exists c. split; [exact Hc|apply cell_memo_le_refl]. Qed.

Lemma heap_ext_memo_trans h1 h2 h3 :
  heap_ext_memo h1 h2 -> heap_ext_memo h2 h3 -> heap_ext_memo h1 h3.
Proof.
  intros [A1 B1] [A2 B2]. split; [|eapply Pos.le_trans; eauto].
  intros a c Hc. destruct (A1 _ _ Hc) as (c2 & Hc2 & L12).
  destruct (A2 _ _ Hc2) as (c3 & Hc3 & L23). exists c3. split; [exact Hc3|].
  eapply cell_memo_le_trans; eauto.
Qed.

Lemma heap_ext_ext_memo h h' : heap_ext h h' -> heap_ext_memo h h'.
Proof.
  intros [A B]. split; [|exact B]. intros a c Hc. exists c. split; [auto|apply cell_memo_le_refl].
Qed.

Lemma heap_same_dom_refl h : heap_same_dom h h.
Proof. split; auto. Qed.

Lemma heap_same_dom_trans h1 h2 h3 :
  heap_same_dom h1 h2 -> heap_same_dom h2 h3 -> heap_same_dom h1 h3.
Proof. intros [A1 B1] [A2 B2]. split; [congruence|auto]. Qed.

(* a frozen cell (leaf, or pair with a memo) is bit-identical in every later heap *)
Lemma frozen_cell_stable h h' a c :
  heap_ext_memo h h' -> h_cell h a = Some c -> frozen_cell c -> h_cell h' a = Some c.
Proof.
  intros [A _] Hc Hf. destruct (A _ _ Hc) as (c' & Hc' & [->|(m & l & r & -> & ->)]).
  - exact Hc'.
  - simpl in Hf. now contradiction Hf.
Qed.

(* the shape (leaf value, children) of a cell never changes *)
Lemma ext_memo_leaf h h' a c :
  heap_ext_memo h h' -> h_cell h a = Some (CLeaf c) -> h_cell h' a = Some (CLeaf c).
Proof. intros He Hc. eapply frozen_cell_stable; eauto. exact I. Qed.

Lemma ext_memo_pair h h' a m l r :
  heap_ext_memo h h' -> h_cell h a = Some (CPair m l r) ->
  exists m', h_cell h' a = Some (CPair m' l r) /\ (m' = m \/ m = zero_chunk).
Proof.
  intros [A _] Hc. destruct (A _ _ Hc) as (c' & Hc' & [->|(m' & l' & r' & E & ->)]).
  - exists m. auto.
  - injection E as -> <- <-. exists m'. auto.
Qed.

Lemma habs_ext_memo h h' a n : heap_ext_memo h h' -> habs h a n -> habs h' a n.
Proof.
  intros He. induction 1 as [a c Hc|a memo l r x y Hc Hl IHl Hr IHr].
  - apply habs_leaf. eapply ext_memo_leaf; eauto.
  - destruct (ext_memo_pair _ _ _ _ _ _ He Hc) as (m' & Hc' & _). eapply habs_pair; eauto.
Qed.

Lemma habs_total h a : heap_wf h -> (a < hp_next h)%positive -> exists n, habs h a n.
Proof.
  intros Hwf Ha. destruct (heap_wf_abs_total _ _ Hwf Ha) as [n Hn]. exists n.
  eapply h_abs_habs; eauto.
Qed.

Lemma habs_ext_memo_inv h h' a n :
  heap_wf h -> heap_ext_memo h h' -> (a < hp_next h)%positive -> habs h' a n -> habs h a n.
Proof.
  intros Hwf He Ha Hn. destruct (habs_total _ _ Hwf Ha) as [n0 Hn0].
  pose proof (habs_ext_memo _ _ _ _ He Hn0) as Hn0'.
  now rewrite (habs_fun _ _ _ Hn _ Hn0').
Qed.

Lemma habs_lt h a n : heap_wf h -> habs h a n -> (a < hp_next h)%positive.
Proof. intros Hwf Ha. inversion Ha; subst; eapply heap_wf_lt; eauto. Qed.

Lemma heap_wf_ext_memo h h' :
  heap_wf h -> heap_ext_memo h h' -> heap_same_dom h h' -> heap_wf h'.
Proof.
  intros (Hall & Hf & Hch) [A B] [Hn Hd]. split; [|split].
  - intros a Ha. rewrite Hn in Ha. destruct (Hall _ Ha) as [c Hc].
    destruct (A _ _ Hc) as (c' & Hc' & _). eauto.
  - intros a Ha. rewrite Hn in Ha. apply Hd. now apply Hf.
  - intros a memo l r Hc'. destruct (h_cell h a) as [c|] eqn:Hc.
    + destruct (A _ _ Hc) as (c' & Hc2 & L). rewrite Hc' in Hc2. injection Hc2 as <-.
      destruct L as [<-|(m & l0 & r0 & -> & E)].
      * eapply Hch; eauto.
      * injection E as _ -> ->. eapply Hch; eauto.
    + rewrite (Hd _ Hc) in Hc'. discriminate.
Qed.

Lemma memoised_ext_memo h h' a : heap_ext_memo h h' -> memoised h a -> memoised h' a.
Proof.
  intros He. induction 1 as [a c Hc|a m l r Hc Hm Hl IHl Hr IHr].
  - eapply memoised_leaf. eapply ext_memo_leaf; eauto.
  - eapply memoised_pair; [eapply frozen_cell_stable; [exact He|exact Hc|exact Hm]|exact Hm|exact IHl|exact IHr].
Qed.

Lemma set_pair_ext_memo h h' b : heap_ext_memo h h' -> set_pair h b -> set_pair h' b.
Proof.
  intros He (m & l & r & Hc & Hm). exists m, l, r. split; [|exact Hm].
  eapply frozen_cell_stable; eauto.
Qed.

Lemma reach_ext_memo h h' a b : heap_ext_memo h h' -> reach h a b -> reach h' a b.
Proof.
  intros He. induction 1 as [a|a m l r b Hc Hr IH|a m l r b Hc Hr IH].
  - apply reach_refl.
  - destruct (ext_memo_pair _ _ _ _ _ _ He Hc) as (m' & Hc' & _). eapply reach_left; eauto.
  - destruct (ext_memo_pair _ _ _ _ _ _ He Hc) as (m' & Hc' & _). eapply reach_right; eauto.
Qed.

Lemma reach_le h a b : heap_wf h -> reach h a b -> (b <= a)%positive.
Proof.
  intros (_ & _ & Hch). induction 1 as [a|a m l r b Hc Hr IH|a m l r b Hc Hr IH].
  - apply Pos.le_refl.
  - destruct (Hch _ _ _ _ Hc). lia.
  - destruct (Hch _ _ _ _ Hc). lia.
Qed.

Lemma reach_trans h a b c : reach h a b -> reach h b c -> reach h a c.
Proof.
  induction 1 as [a|a m l r b Hc Hr IH|a m l r b Hc Hr IH]; intros Hbc.
  - exact Hbc.
  - eapply reach_left; eauto.
  - eapply reach_right; eauto.
Qed.

Lemma wcount_ext_memo h h' a n :
  heap_ext_memo h h' -> wcount h a n -> exists n', wcount h' a n' /\ (n' <= n)%nat.
Proof.
  intros He. induction 1 as [a c Hc|a m l r n1 n2 Hc Hl (n1' & Hl' & L1) Hr (n2' & Hr' & L2)].
  - exists 0%nat. split; [|lia]. eapply wc_leaf. eapply ext_memo_leaf; eauto.
  - destruct (ext_memo_pair _ _ _ _ _ _ He Hc) as (m' & Hc' & Hm).
    eexists. split; [eapply wc_pair; eauto|].
    destruct Hm as [->| ->].
    + lia.
    + rewrite (chunk_eqb_refl zero_chunk). destruct (chunk_eqb m' zero_chunk); lia.
Qed.

Lemma wcount_total h : heap_wf h -> forall k a,
  (Pos.to_nat a <= k)%nat -> (a < hp_next h)%positive -> exists n, wcount h a n.
Proof.
  intros Hwf. induction k as [|k IH]; intros a Hk Ha; [lia|].
  pose proof Hwf as (Hall & Hf & Hch). destruct (Hall _ Ha) as [[c|memo l r] Hc].
  - exists 0%nat. eapply wc_leaf; eauto.
  - destruct (Hch _ _ _ _ Hc) as [Hl Hr].
    destruct (IH l ltac:(lia) ltac:(lia)) as [n1 H1].
    destruct (IH r ltac:(lia) ltac:(lia)) as [n2 H2].
    eexists. eapply wc_pair; eauto.
Qed.

Lemma wcount_fun h a n1 : wcount h a n1 -> forall n2, wcount h a n2 -> n1 = n2.
Proof.
  induction 1 as [a c Hc|a m l r k1 k2 Hc Hl IHl Hr IHr]; intros n2 Hn2;
    inversion Hn2 as [a0 c0 Hc0|a0 m0 l0 r0 j1 j2 Hc0 Hl0 Hr0]; subst; rewrite Hc in Hc0;
    try discriminate.
  - reflexivity.
  - injection Hc0 as <- <- <-. rewrite (IHl _ Hl0), (IHr _ Hr0). reflexivity.
Qed.

(* fully hashed = nothing left to hash *)
Lemma memoised_wcount h a : memoised h a -> wcount h a 0.
Proof.
  induction 1 as [a c Hc|a m l r Hc Hm Hl IHl Hr IHr].
  - eapply wc_leaf; eauto.
  - pose proof (wc_pair _ _ _ _ _ _ _ Hc IHl IHr) as W.
    apply chunk_eqb_false in Hm. rewrite Hm in W. exact W.
Qed.

Lemma wcount_memoised h a n : wcount h a n -> n = 0%nat -> memoised h a.
Proof.
  induction 1 as [a c Hc|a m l r n1 n2 Hc Hl IHl Hr IHr]; intros Hn.
  - eapply memoised_leaf; eauto.
  - destruct (chunk_eqb m zero_chunk) eqn:Em; [lia|]. apply chunk_eqb_false in Em.
    eapply memoised_pair; eauto; [apply IHl|apply IHr]; lia.
Qed.

(* ------------------------------------------------------------------------------------- *)
(* 2. h_merkle: the model of PairNode.MerkleRoot                                          *)
(* ------------------------------------------------------------------------------------- *)

Definition h_put (h : heap) (a : addr) (c : cell) : heap :=
  mkHeap (hp_next h) (PositiveMap.add a c (hp_cells h)).

Lemma h_put_same h a c : h_cell (h_put h a c) a = Some c.
Proof. unfold h_put, h_cell. simpl. apply PositiveMap.gss. Qed.

Lemma h_put_other h a c b : b <> a -> h_cell (h_put h a c) b = h_cell h b.
Proof. intros Hne. unfold h_put, h_cell. simpl. apply PositiveMap.gso. exact Hne. Qed.

Lemma h_put_memo h a m l r v :
  h_cell h a = Some (CPair m l r) -> (m = zero_chunk \/ m = v) ->
  heap_ext_memo h (h_put h a (CPair v l r)) /\ heap_same_dom h (h_put h a (CPair v l r)).
Proof.
  intros Hc Hm. split; split.
  - intros b c Hb. destruct (Pos.eq_dec b a) as [->|Hne].
    + rewrite h_put_same. rewrite Hc in Hb. injection Hb as <-. eexists. split; [reflexivity|].
      destruct Hm as [->| ->]; [right; eauto|now left].
    + rewrite h_put_other by exact Hne. exists c. split; [exact Hb|apply cell_memo_le_refl].
  - simpl. apply Pos.le_refl.
  - reflexivity.
  - intros b Hb. rewrite h_put_other; [exact Hb|]. intros ->. rewrite Hc in Hb. discriminate.
Qed.

Lemma NoDup_app_intro {A} (l1 l2 : list A) :
  NoDup l1 -> NoDup l2 -> (forall x, In x l1 -> ~ In x l2) -> NoDup (l1 ++ l2).
Proof.
  induction 1 as [|x l1 Hx ND IH]; intros ND2 Hd; simpl; [exact ND2|].
  constructor.
  - intros Hin. apply in_app_or in Hin. destruct Hin as [Hin|Hin]; [now apply Hx|].
    eapply Hd; [now left|exact Hin].
  - apply IH; [exact ND2|]. intros y Hy. apply Hd. now right.
Qed.

Section Merkle.
Variable H : chunk -> chunk -> chunk.

Lemma h_merkle_S f h a :
  h_merkle H (S f) h a =
  match h_cell h a with
  | None => Panic
  | Some (CLeaf c) => OK (c, h, 0)
  | Some (CPair memo l r) =>
    if negb (chunk_eqb memo zero_chunk) then OK (memo, h, 0) else
    do x <- h_merkle H f h l; let '(rl, h1, c1) := x in
    do y <- h_merkle H f h1 r; let '(rr, h2, c2) := y in
    OK (H rl rr, h_put h2 a (CPair (H rl rr) l r), c1 + c2 + 1)
  end.
Proof. reflexivity. Qed.

(* the list of cells whose memo a request wrote *)
Definition written (h h' : heap) (a : addr) (c : N) (L : list addr) : Prop :=
  NoDup L /\ N.of_nat (length L) = c /\
  (forall b, In b L -> reach h a b /\ unset_pair h b /\ set_pair h' b) /\
  (forall b, ~ In b L -> h_cell h' b = h_cell h b).

Definition merkle_post (h : heap) (a : addr) (r : chunk) (h' : heap) (c : N) : Prop :=
  heap_ext_memo h h' /\ heap_same_dom h h' /\
  (forall b, (a < b)%positive -> h_cell h' b = h_cell h b) /\
  (memo_ok H h -> memo_ok H h' /\ forall n, habs h a n -> r = root_of H n) /\
  (Hnz H -> memo_closed h -> memoised h' a /\ memo_closed h') /\
  (exists n, wcount h a n /\ c <= N.of_nat n) /\
  (Hnz H -> exists L, written h h' a c L).

Lemma unset_pair_back h h' b : heap_ext_memo h h' -> (exists c, h_cell h b = Some c) ->
  unset_pair h' b -> unset_pair h b.
Proof.
  intros [A _] [c Hc] (l & r & Hc'). destruct (A _ _ Hc) as (c' & Hc2 & L).
  rewrite Hc' in Hc2. injection Hc2 as <-.
  destruct L as [<-|(m & l0 & r0 & -> & E)].
  - exists l, r. exact Hc.
  - exists l0, r0. exact Hc.
Qed.

Lemma reach_back h h' a b : heap_wf h -> heap_ext_memo h h' -> (a < hp_next h)%positive ->
  reach h' a b -> reach h a b.
Proof.
  intros Hwf He Ha Hr. revert Ha.
  induction Hr as [a|a m l r b Hc Hr IH|a m l r b Hc Hr IH]; intros Ha.
  - apply reach_refl.
  - pose proof Hwf as (Hall & _ & Hch). destruct (Hall _ Ha) as [c Hc0].
    destruct c as [c|m0 l0 r0].
    + rewrite (ext_memo_leaf _ _ _ _ He Hc0) in Hc. discriminate.
    + destruct (ext_memo_pair _ _ _ _ _ _ He Hc0) as (m' & Hc' & _). rewrite Hc in Hc'.
      injection Hc' as -> -> ->. destruct (Hch _ _ _ _ Hc0). eapply reach_left; [eauto|apply IH; lia].
  - pose proof Hwf as (Hall & _ & Hch). destruct (Hall _ Ha) as [c Hc0].
    destruct c as [c|m0 l0 r0].
    + rewrite (ext_memo_leaf _ _ _ _ He Hc0) in Hc. discriminate.
    + destruct (ext_memo_pair _ _ _ _ _ _ He Hc0) as (m' & Hc' & _). rewrite Hc in Hc'.
      injection Hc' as -> -> ->. destruct (Hch _ _ _ _ Hc0). eapply reach_right; [eauto|apply IH; lia].
Qed.

Lemma h_merkle_spec fuel : forall h a,
  heap_wf h -> (a < hp_next h)%positive -> (Pos.to_nat a <= fuel)%nat ->
  exists r h' c, h_merkle H fuel h a = OK (r, h', c) /\ merkle_post h a r h' c.
Proof.
  induction fuel as [|f IH]; intros h a Hwf Ha Hfuel; [lia|].
  rewrite h_merkle_S.
  pose proof Hwf as (Hall & Hfresh & Hch).
  destruct (Hall _ Ha) as [[c|memo l r] Hc]; rewrite Hc.
  - (* leaf *)
    exists c, h, 0. split; [reflexivity|]. unfold merkle_post.
    split; [apply heap_ext_memo_refl|]. split; [apply heap_same_dom_refl|].
    split; [reflexivity|]. split; [|split; [|split]].
    + intros Hok. split; [exact Hok|]. intros n Hn. inversion Hn; subst; rewrite Hc in *; try discriminate.
      match goal with E : Some _ = Some _ |- _ => injection E as <- end. reflexivity.
    + intros _ Hcl. split; [eapply memoised_leaf; eauto|exact Hcl].
    + exists 0%nat. split; [eapply wc_leaf; eauto|reflexivity].
    + intros _. exists []. split; [constructor|]. split; [reflexivity|].
      split; [intros b []|reflexivity].
  - destruct (chunk_eqb memo zero_chunk) eqn:Em; cbn [negb].
    2:{ (* memo present *)
      apply chunk_eqb_false in Em.
      exists memo, h, 0. split; [reflexivity|]. unfold merkle_post.
      split; [apply heap_ext_memo_refl|]. split; [apply heap_same_dom_refl|].
      split; [reflexivity|]. split; [|split; [|split]].
      + intros Hok. split; [exact Hok|]. intros n Hn. eapply Hok; eauto.
      + intros _ Hcl. split; [|exact Hcl]. destruct (Hcl _ _ _ _ Hc Em). eapply memoised_pair; eauto.
      + destruct (wcount_total _ Hwf _ a (le_n _) Ha) as [n Hn]. exists n. split; [exact Hn|lia].
      + intros _. exists []. split; [constructor|]. split; [reflexivity|].
        split; [intros b []|reflexivity]. }
    (* memo unset: hash both children, store *)
    apply chunk_eqb_true in Em. subst memo.
    destruct (Hch _ _ _ _ Hc) as [Hl Hr].
    destruct (IH h l Hwf ltac:(lia) ltac:(lia)) as (rl & h1 & c1 & E1 & P1).
    destruct P1 as (He1 & Hd1 & Hfr1 & Hok1 & Hms1 & (n1 & W1 & Lc1) & Hw1).
    pose proof (heap_wf_ext_memo _ _ Hwf He1 Hd1) as Hwf1.
    pose proof Hd1 as [Hn1 _].
    destruct (IH h1 r Hwf1 ltac:(lia) ltac:(lia)) as (rr & h2 & c2 & E2 & P2).
    destruct P2 as (He2 & Hd2 & Hfr2 & Hok2 & Hms2 & (n2 & W2 & Lc2) & Hw2).
    pose proof (heap_wf_ext_memo _ _ Hwf1 He2 Hd2) as Hwf2.
    pose proof Hd2 as [Hn2 _].
    rewrite E1. cbn [bind]. rewrite E2. cbn [bind].
    set (v := H rl rr). set (h' := h_put h2 a (CPair v l r)).
    assert (Hc2 : h_cell h2 a = Some (CPair zero_chunk l r)).
    { rewrite Hfr2 by lia. rewrite Hfr1 by lia. exact Hc. }
    destruct (h_put_memo h2 a zero_chunk l r v Hc2 (or_introl eq_refl)) as [He3 Hd3].
    fold h' in He3, Hd3.
    pose proof (heap_ext_memo_trans _ _ _ He1 He2) as He12.
    pose proof (heap_ext_memo_trans _ _ _ He12 He3) as He.
    pose proof (heap_same_dom_trans _ _ _ (heap_same_dom_trans _ _ _ Hd1 Hd2) Hd3) as Hd.
    exists v, h', (c1 + c2 + 1). split; [reflexivity|]. unfold merkle_post.
    split; [exact He|]. split; [exact Hd|]. split; [|split; [|split; [|split]]].
    + intros b Hb. unfold h'. rewrite h_put_other by lia. rewrite Hfr2 by lia. apply Hfr1. lia.
    + intros Hok. destruct (Hok1 Hok) as [Hokh1 Hrl]. destruct (Hok2 Hokh1) as [Hokh2 Hrr].
      destruct (habs_total h l Hwf) as [x Hx]; [lia|].
      destruct (habs_total h r Hwf) as [y Hy]; [lia|].
      assert (Hv : v = root_of H (Pair x y)).
      { unfold v. simpl. rewrite (Hrl _ Hx). rewrite (Hrr y); [reflexivity|].
        eapply habs_ext_memo; eauto. }
      split.
      * intros b m lb rb n Hb Hm Hn. destruct (Pos.eq_dec b a) as [->|Hne].
        -- unfold h' in Hb. rewrite h_put_same in Hb. injection Hb as <- <- <-.
           rewrite Hv. f_equal. eapply habs_fun; [|exact Hn].
           eapply habs_ext_memo; [exact He|]. eapply habs_pair; eauto.
        -- unfold h' in Hb. rewrite h_put_other in Hb by exact Hne.
           eapply Hokh2; eauto. eapply habs_ext_memo_inv; eauto. eapply heap_wf_lt; eauto.
      * intros n Hn. rewrite Hv. f_equal. eapply habs_fun; [|exact Hn]. eapply habs_pair; eauto.
    + intros Hz Hcl. destruct (Hms1 Hz Hcl) as [Ml Hcl1]. destruct (Hms2 Hz Hcl1) as [Mr Hcl2].
      assert (Ml' : memoised h' l).
      { eapply memoised_ext_memo; [exact He3|]. eapply memoised_ext_memo; [exact He2|exact Ml]. }
      assert (Mr' : memoised h' r) by (eapply memoised_ext_memo; [exact He3|exact Mr]).
      split.
      * apply (memoised_pair h' a v l r); [unfold h'; apply h_put_same|apply Hz|exact Ml'|exact Mr'].
      * intros b m lb rb Hb Hm. destruct (Pos.eq_dec b a) as [->|Hne].
        -- unfold h' in Hb. rewrite h_put_same in Hb. injection Hb as <- <- <-. auto.
        -- unfold h' in Hb. rewrite h_put_other in Hb by exact Hne.
           destruct (Hcl2 _ _ _ _ Hb Hm) as [Mlb Mrb].
           split; (eapply memoised_ext_memo; [exact He3|assumption]).
    + destruct (wcount_total _ Hwf _ r (le_n _) ltac:(lia)) as [n2' W2'].
      destruct (wcount_ext_memo _ _ _ _ He1 W2') as (n2'' & W2'' & L2).
      rewrite (wcount_fun _ _ _ W2 _ W2'') in Lc2.
      pose proof (wc_pair _ _ _ _ _ _ _ Hc W1 W2') as W. rewrite chunk_eqb_refl in W.
      eexists. split; [exact W|]. lia.
    + intros Hz. destruct (Hw1 Hz) as (L1 & ND1 & Len1 & In1 & Out1).
      destruct (Hw2 Hz) as (L2 & ND2 & Len2 & In2 & Out2).
      assert (Hra_l : forall b, reach h l b -> reach h a b) by (intros; eapply reach_left; eauto).
      assert (Hra_r : forall b, reach h r b -> reach h a b) by (intros; eapply reach_right; eauto).
      exists (L1 ++ L2 ++ [a]). split; [|split; [|split]].
      * apply NoDup_app_intro; [exact ND1|apply NoDup_app_intro; [exact ND2|repeat constructor; intros []|]|].
        -- intros b Hb [<-|[]]. destruct (In2 _ Hb) as (Rb & _ & _).
           pose proof (reach_le _ _ _ Hwf1 Rb). lia.
        -- intros b Hb1 Hb2. apply in_app_or in Hb2. destruct Hb2 as [Hb2|[<-|[]]].
           ++ destruct (In1 _ Hb1) as (_ & _ & (m & lb & rb & Hs & Hm)).
              destruct (In2 _ Hb2) as (_ & (lb' & rb' & Hu) & _). rewrite Hs in Hu.
              injection Hu as -> _ _. now apply Hm.
           ++ destruct (In1 _ Hb1) as (Rb & _ & _). pose proof (reach_le _ _ _ Hwf Rb). lia.
      * rewrite !app_length. simpl. lia.
      * intros b Hb. apply in_app_or in Hb. destruct Hb as [Hb|Hb]; [|apply in_app_or in Hb; destruct Hb as [Hb|[<-|[]]]].
        -- destruct (In1 _ Hb) as (Rb & Ub & Sb). split; [auto|]. split; [exact Ub|].
           eapply set_pair_ext_memo; [exact He3|]. eapply set_pair_ext_memo; [exact He2|exact Sb].
        -- destruct (In2 _ Hb) as (Rb & Ub & Sb).
           pose proof (reach_le _ _ _ Hwf1 Rb) as Hle.
           split; [apply Hra_r; apply (reach_back h h1 r b Hwf He1); [lia|exact Rb]|]. split.
           ++ eapply unset_pair_back; [exact He1| |exact Ub]. apply Hall. lia.
           ++ eapply set_pair_ext_memo; [exact He3|exact Sb].
        -- split; [apply reach_refl|]. split; [exists l, r; exact Hc|].
           exists v, l, r. split; [unfold h'; apply h_put_same|apply Hz].
      * intros b Hb. assert (Hba : b <> a) by (intros ->; apply Hb; apply in_or_app; right; apply in_or_app; right; now left).
        unfold h'. rewrite h_put_other by exact Hba.
        rewrite Out2; [apply Out1|]; intros Hin; apply Hb; apply in_or_app; [now left|right; apply in_or_app; now left].
Qed.

End Merkle.

(* ------------------------------------------------------------------------------------- *)
(* 3. corollaries of the h_merkle specification                                           *)
(* ------------------------------------------------------------------------------------- *)

Section MerkleCor.
Variable H : chunk -> chunk -> chunk.

(* never a Panic with enough fuel; the address bounds the height *)
Lemma h_merkle_total fuel h a :
  heap_wf h -> (a < hp_next h)%positive -> (Pos.to_nat a <= fuel)%nat ->
  exists r h' c, h_merkle H fuel h a = OK (r, h', c).
Proof.
  intros Hwf Ha Hf. destruct (h_merkle_spec H fuel h a Hwf Ha Hf) as (r & h' & c & E & _). eauto.
Qed.

Lemma h_merkle_post fuel h a r h' c :
  heap_wf h -> (a < hp_next h)%positive -> (Pos.to_nat a <= fuel)%nat ->
  h_merkle H fuel h a = OK (r, h', c) -> merkle_post H h a r h' c.
Proof.
  intros Hwf Ha Hf E. destruct (h_merkle_spec H fuel h a Hwf Ha Hf) as (r0 & h0 & c0 & E0 & P).
  rewrite E in E0. injection E0 as <- <- <-. exact P.
Qed.

(* A(2): only memos are written; nothing is allocated; the content of every node is unchanged *)
Lemma h_merkle_heap fuel h a r h' c :
  heap_wf h -> (a < hp_next h)%positive -> (Pos.to_nat a <= fuel)%nat ->
  h_merkle H fuel h a = OK (r, h', c) ->
  heap_ext_memo h h' /\ heap_same_dom h h' /\ heap_wf h' /\
  (forall b n, habs h' b n <-> habs h b n) /\
  (forall b, (a < b)%positive -> h_cell h' b = h_cell h b).
Proof.
  intros Hwf Ha Hf E. destruct (h_merkle_post _ _ _ _ _ _ Hwf Ha Hf E) as (He & Hd & Hfr & _).
  pose proof (heap_wf_ext_memo _ _ Hwf He Hd) as Hwf'.
  split; [exact He|]. split; [exact Hd|]. split; [exact Hwf'|]. split; [|exact Hfr].
  intros b n. split.
  - intros Hn. eapply habs_ext_memo_inv; eauto. destruct Hd as [<- _]. eapply habs_lt; eauto.
  - now apply habs_ext_memo.
Qed.

(* A(1), A(3) *)
Lemma h_merkle_root fuel h a r h' c n :
  heap_wf h -> memo_ok H h -> habs h a n -> (Pos.to_nat a <= fuel)%nat ->
  h_merkle H fuel h a = OK (r, h', c) -> r = root_of H n /\ memo_ok H h'.
Proof.
  intros Hwf Hok Hn Hf E. pose proof (habs_lt _ _ _ Hwf Hn) as Ha.
  destruct (h_merkle_post _ _ _ _ _ _ Hwf Ha Hf E) as (_ & _ & _ & Hr & _).
  destruct (Hr Hok) as [Hok' Hroot]. split; [now apply Hroot|exact Hok'].
Qed.

Lemma h_merkle_root_exact fuel h a n :
  heap_wf h -> memo_ok H h -> habs h a n -> (Pos.to_nat a <= fuel)%nat ->
  exists h' c, h_merkle H fuel h a = OK (root_of H n, h', c) /\ memo_ok H h'.
Proof.
  intros Hwf Hok Hn Hf. pose proof (habs_lt _ _ _ Hwf Hn) as Ha.
  destruct (h_merkle_total fuel h a Hwf Ha Hf) as (r & h' & c & E).
  destruct (h_merkle_root _ _ _ _ _ _ _ Hwf Hok Hn Hf E) as [-> Hok']. eauto.
Qed.

(* the root does not depend on which memos are present *)
Lemma h_merkle_request_independent f1 f2 h1 h2 a1 a2 n r1 r2 h1' h2' c1 c2 :
  heap_wf h1 -> heap_wf h2 -> memo_ok H h1 -> memo_ok H h2 ->
  habs h1 a1 n -> habs h2 a2 n ->
  (Pos.to_nat a1 <= f1)%nat -> (Pos.to_nat a2 <= f2)%nat ->
  h_merkle H f1 h1 a1 = OK (r1, h1', c1) -> h_merkle H f2 h2 a2 = OK (r2, h2', c2) ->
  r1 = r2.
Proof.
  intros W1 W2 O1 O2 A1 A2 F1 F2 E1 E2.
  destruct (h_merkle_root _ _ _ _ _ _ _ W1 O1 A1 F1 E1) as [-> _].
  destruct (h_merkle_root _ _ _ _ _ _ _ W2 O2 A2 F2 E2) as [-> _]. reflexivity.
Qed.

(* A(4) *)
Lemma h_merkle_memoised fuel h a r h' c :
  Hnz H -> heap_wf h -> memo_closed h -> (a < hp_next h)%positive -> (Pos.to_nat a <= fuel)%nat ->
  h_merkle H fuel h a = OK (r, h', c) -> memoised h' a /\ memo_closed h'.
Proof.
  intros Hz Hwf Hcl Ha Hf E.
  destruct (h_merkle_post _ _ _ _ _ _ Hwf Ha Hf E) as (_ & _ & _ & _ & Hm & _). now apply Hm.
Qed.

(* A(5) *)
Lemma h_merkle_count_wcount fuel h a r h' c n :
  heap_wf h -> (a < hp_next h)%positive -> (Pos.to_nat a <= fuel)%nat ->
  h_merkle H fuel h a = OK (r, h', c) -> wcount h a n -> c <= N.of_nat n.
Proof.
  intros Hwf Ha Hf E Wn.
  destruct (h_merkle_post _ _ _ _ _ _ Hwf Ha Hf E) as (_ & _ & _ & _ & _ & (n0 & W0 & L) & _).
  now rewrite (wcount_fun _ _ _ Wn _ W0).
Qed.

Lemma h_merkle_count_written fuel h a r h' c :
  Hnz H -> heap_wf h -> (a < hp_next h)%positive -> (Pos.to_nat a <= fuel)%nat ->
  h_merkle H fuel h a = OK (r, h', c) ->
  exists L, NoDup L /\ N.of_nat (length L) = c /\
    (forall b, In b L -> reach h a b /\ unset_pair h b /\ set_pair h' b) /\
    (forall b, ~ In b L -> h_cell h' b = h_cell h b).
Proof.
  intros Hz Hwf Ha Hf E.
  destruct (h_merkle_post _ _ _ _ _ _ Hwf Ha Hf E) as (_ & _ & _ & _ & _ & _ & Hw). now apply Hw.
Qed.

(* hence: c is at most the size of ANY duplicate-free enumeration of the unset pairs below a *)
Lemma h_merkle_count_distinct fuel h a r h' c U :
  Hnz H -> heap_wf h -> (a < hp_next h)%positive -> (Pos.to_nat a <= fuel)%nat ->
  h_merkle H fuel h a = OK (r, h', c) ->
  (forall b, reach h a b -> unset_pair h b -> In b U) ->
  c <= N.of_nat (length U).
Proof.
  intros Hz Hwf Ha Hf E HU.
  destruct (h_merkle_count_written _ _ _ _ _ _ Hz Hwf Ha Hf E) as (L & ND & <- & HL & _).
  assert (Hincl : incl L U) by (intros b Hb; destruct (HL _ Hb) as (Rb & Ub & _); auto).
  pose proof (NoDup_incl_length ND Hincl). lia.
Qed.

(* C07, first half: a second request hashes nothing (needs Hnz; no other hypothesis) *)
Lemma h_merkle_second_free fuel h a r h1 c :
  Hnz H -> h_merkle H fuel h a = OK (r, h1, c) ->
  forall fuel', h_merkle H (S fuel') h1 a = OK (r, h1, 0).
Proof.
  intros Hz E fuel'. destruct fuel as [|f]; [discriminate|].
  rewrite h_merkle_S in E. rewrite h_merkle_S.
  destruct (h_cell h a) as [[x|memo l r0]|] eqn:Hc; [| |discriminate].
  - injection E as <- <- <-. now rewrite Hc.
  - destruct (negb (chunk_eqb memo zero_chunk)) eqn:Em.
    + injection E as <- <- <-. now rewrite Hc, Em.
    + destruct (h_merkle H f h l) as [[[rl h2] c1]| |]; cbn [bind] in E; try discriminate.
      destruct (h_merkle H f h2 r0) as [[[rr h3] c2]| |]; cbn [bind] in E; try discriminate.
      injection E as <- <- <-. rewrite h_put_same.
      assert (Hv : chunk_eqb (H rl rr) zero_chunk = false) by (apply chunk_eqb_false; apply Hz).
      now rewrite Hv.
Qed.

Lemma h_merkle_memoised_free fuel h a :
  memoised h a -> exists r, h_merkle H (S fuel) h a = OK (r, h, 0).
Proof.
  intros Hm. rewrite h_merkle_S. inversion Hm as [a0 c Hc|a0 m l r Hc Hz Hl Hr]; subst; rewrite Hc.
  - eauto.
  - apply chunk_eqb_false in Hz. rewrite Hz. simpl. eauto.
Qed.

End MerkleCor.

(* ------------------------------------------------------------------------------------- *)
(* 4. allocation and path copying: cells are only added, and added pairs have no memo     *)
(* ------------------------------------------------------------------------------------- *)

(* [heap_grow h h']: h' = h plus new cells; every new pair cell has an unset memo.
   (What NewPairNode / the Setter do.) *)
Definition heap_grow (h h' : heap) : Prop :=
  heap_ext h h' /\
  forall a m l r, h_cell h a = None -> h_cell h' a = Some (CPair m l r) -> m = zero_chunk.

Lemma heap_grow_refl h : heap_grow h h.
Proof. split; [apply heap_ext_refl|]. intros a m l r Hn Hs. rewrite Hn in Hs. discriminate. Qed.

Lemma heap_grow_trans h1 h2 h3 : heap_grow h1 h2 -> heap_grow h2 h3 -> heap_grow h1 h3.
Proof.
  intros [E1 N1] [E2 N2]. split; [eapply heap_ext_trans; eauto|].
  intros a m l r Hn Hs. destruct (h_cell h2 a) as [c|] eqn:Hc2.
  - destruct E2 as [A2 _]. rewrite (A2 _ _ Hc2) in Hs. injection Hs as ->. eapply N1; eauto.
  - eapply N2; eauto.
Qed.

Lemma h_alloc_grow h c :
  heap_fresh h -> (forall m l r, c = CPair m l r -> m = zero_chunk) ->
  heap_grow h (snd (h_alloc h c)).
Proof.
  intros Hf Hc. split; [now apply h_alloc_ext|].
  intros a m l r Hn Hs. destruct (Pos.eq_dec a (hp_next h)) as [->|Hne].
  - rewrite h_alloc_new in Hs. injection Hs as ->. eapply Hc; eauto.
  - rewrite h_alloc_old in Hs by exact Hne. rewrite Hn in Hs. discriminate.
Qed.

Lemma h_set_path_grow zh p : forall h a e v a' h',
  heap_fresh h -> h_set_path zh h a p e v = OK (a', h') -> heap_grow h h'.
Proof.
  induction p as [|b p IH]; intros h a e v a' h' Hf Hs.
  - simpl in Hs. injection Hs as <- <-. apply heap_grow_refl.
  - rewrite h_set_path_cons in Hs.
    destruct (h_step_children zh h a (length p) e) as [[l r]| |]; cbn [bind] in Hs; try discriminate.
    destruct b.
    + destruct (h_set_path zh h r p e v) as [[r' h1]| |] eqn:Er; cbn [bind] in Hs; try discriminate.
      destruct (h_set_path_ext zh _ _ _ _ _ _ _ Hf Er) as [_ Hf1].
      rewrite h_pair_eq in Hs. injection Hs as <- <-.
      eapply heap_grow_trans; [exact (IH _ _ _ _ _ _ Hf Er)|].
      apply h_alloc_grow; [exact Hf1|]. intros m l0 r0 E. now injection E as <-.
    + destruct (h_set_path zh h l p e v) as [[l' h1]| |] eqn:El; cbn [bind] in Hs; try discriminate.
      destruct (h_set_path_ext zh _ _ _ _ _ _ _ Hf El) as [_ Hf1].
      rewrite h_pair_eq in Hs. injection Hs as <- <-.
      eapply heap_grow_trans; [exact (IH _ _ _ _ _ _ Hf El)|].
      apply h_alloc_grow; [exact Hf1|]. intros m l0 r0 E. now injection E as <-.
Qed.

Lemma heap_grow_memo_ok H h h' : heap_wf h -> heap_grow h h' -> memo_ok H h -> memo_ok H h'.
Proof.
  intros Hwf [He Hn] Hok a m l r n Hc Hm Ha.
  destruct (h_cell h a) as [c|] eqn:Hc0.
  - pose proof He as [A _]. rewrite (A _ _ Hc0) in Hc. injection Hc as ->.
    eapply Hok; eauto. eapply habs_ext_memo_inv; eauto using heap_ext_ext_memo.
    eapply heap_wf_lt; eauto.
  - contradiction Hm. eapply Hn; eauto.
Qed.

Lemma heap_grow_memo_closed h h' : heap_grow h h' -> memo_closed h -> memo_closed h'.
Proof.
  intros [He Hn] Hcl a m l r Hc Hm.
  destruct (h_cell h a) as [c|] eqn:Hc0.
  - pose proof He as [A _]. rewrite (A _ _ Hc0) in Hc. injection Hc as ->.
    destruct (Hcl _ _ _ _ Hc0 Hm). split; eapply memoised_ext_memo; eauto using heap_ext_ext_memo.
  - contradiction Hm. eapply Hn; eauto.
Qed.

Lemma h_get_path_lt h p : forall a b,
  heap_wf h -> (a < hp_next h)%positive -> h_get_path h a p = OK b -> (b < hp_next h)%positive.
Proof.
  induction p as [|d p IH]; intros a b Hwf Ha Hg; simpl in Hg.
  - now injection Hg as <-.
  - destruct (h_cell h a) as [[c|memo l r]|] eqn:Hc; try discriminate.
    pose proof Hwf as (_ & _ & Hch). destruct (Hch _ _ _ _ Hc). eapply IH; [exact Hwf| |exact Hg].
    destruct d; lia.
Qed.

(* ------------------------------------------------------------------------------------- *)
(* 5. the view machine, generically over the node store: store invariant, and which        *)
(*    handles a step may rebind                                                            *)
(* ------------------------------------------------------------------------------------- *)

(* handle k is j or one of j's (transitive) hook parents *)
Inductive on_chain {T : Type} (hs : list (handle T)) : nat -> nat -> Prop :=
| chain_self j : on_chain hs j j
| chain_up j x p i k : nth_error hs j = Some x -> h_hook T x = Some (p, i) -> on_chain hs p k ->
    on_chain hs j k.

Definition hooks_wf {T : Type} (hs : list (handle T)) : Prop :=
  forall k x p i, nth_error hs k = Some x -> h_hook T x = Some (p, i) -> (p < k)%nat.

(* the handle list only grows; type and hook of a handle never change *)
Definition handles_le {T : Type} (hs hs' : list (handle T)) : Prop :=
  (length hs <= length hs')%nat /\
  forall k x, nth_error hs k = Some x ->
    exists x', nth_error hs' k = Some x' /\ h_ty T x' = h_ty T x /\ h_hook T x' = h_hook T x.

Definition op_target (o : op) : nat :=
  match o with
  | OGet h _ | OUValue h | OCopy h | OSet h _ _ | OAppend h _ | OPop h | OChange h _ _ => h
  end.

Lemma nth_error_list_set_same {A} (l : list A) : forall i x, (i < length l)%nat ->
  nth_error (list_set l i x) i = Some x.
Proof.
  induction l as [|y l IH]; intros i x Hi; simpl in Hi; [lia|].
  destruct i; simpl; [reflexivity|]. apply IH. lia.
Qed.

Lemma nth_error_list_set_other {A} (l : list A) : forall i x j, j <> i ->
  nth_error (list_set l i x) j = nth_error l j.
Proof.
  induction l as [|y l IH]; intros i x j Hne; simpl; [reflexivity|].
  destruct i; destruct j; simpl; try reflexivity; [contradiction|]. apply IH. congruence.
Qed.

Lemma list_set_len {A} (l : list A) : forall i x, length (list_set l i x) = length l.
Proof. induction l as [|y l IH]; intros [|i] x; simpl; auto. Qed.

Lemma handles_le_refl {T} (hs : list (handle T)) : handles_le hs hs.
Proof. split; [lia|]. intros k x Hx. eauto. Qed.

Lemma handles_le_trans {T} (a b c : list (handle T)) :
  handles_le a b -> handles_le b c -> handles_le a c.
Proof.
  intros [L1 A1] [L2 A2]. split; [lia|]. intros k x Hx.
  destruct (A1 _ _ Hx) as (x1 & Hx1 & T1 & K1). destruct (A2 _ _ Hx1) as (x2 & Hx2 & T2 & K2).
  exists x2. split; [exact Hx2|]. split; congruence.
Qed.

Lemma handles_le_app {T} (hs : list (handle T)) x : handles_le hs (hs ++ [x]).
Proof.
  split; [rewrite app_length; lia|]. intros k y Hy. exists y. split; [|auto].
  rewrite nth_error_app1; [exact Hy|]. apply nth_error_Some. congruence.
Qed.

Lemma on_chain_le {T} (hs hs' : list (handle T)) j k :
  handles_le hs hs' -> on_chain hs j k -> on_chain hs' j k.
Proof.
  intros [_ A]. induction 1 as [j|j x p i k Hx Hh Hc IH].
  - apply chain_self.
  - destruct (A _ _ Hx) as (x' & Hx' & _ & Hk).
    eapply chain_up; [exact Hx'|rewrite Hk; exact Hh|exact IH].
Qed.

(* the converse, for handles that already existed *)
Lemma on_chain_le_inv {T} (hs hs' : list (handle T)) j k :
  handles_le hs hs' -> hooks_wf hs' -> (j < length hs)%nat -> on_chain hs' j k -> on_chain hs j k.
Proof.
  intros [L A] Hw Hj Hc. revert Hj. induction Hc as [j|j x' p i k Hx' Hh Hc IH]; intros Hj.
  - apply chain_self.
  - destruct (nth_error hs j) as [x|] eqn:Hx; [|apply nth_error_None in Hx; lia].
    destruct (A _ _ Hx) as (x2 & Hx2 & _ & Hk). rewrite Hx' in Hx2. injection Hx2 as <-.
    pose proof (Hw _ _ _ _ Hx' Hh) as Hlt.
    eapply chain_up; [exact Hx|rewrite <- Hk; exact Hh|]. apply IH. lia.
Qed.

Lemma on_chain_trans {T} (hs : list (handle T)) j m k :
  on_chain hs j m -> on_chain hs m k -> on_chain hs j k.
Proof.
  induction 1 as [j|j x p i m Hx Hh Hc IH]; intros Hmk; [exact Hmk|].
  eapply chain_up; eauto.
Qed.

(* with well-founded hooks, parents are older *)
Lemma on_chain_le_idx {T} (hs : list (handle T)) j k :
  hooks_wf hs -> on_chain hs j k -> (k <= j)%nat.
Proof.
  intros Hw. induction 1 as [j|j x p i k Hx Hh Hc IH]; [lia|].
  pose proof (Hw _ _ _ _ Hx Hh). lia.
Qed.

(* a handle without a hook (a copy, a union value) ends every chain that passes through it *)
Lemma on_chain_stops {T} (hs : list (handle T)) j k m x :
  nth_error hs k = Some x -> h_hook T x = None ->
  on_chain hs j k -> on_chain hs j m -> on_chain hs m k.
Proof.
  intros Hx Hn Hjk. revert m. induction Hjk as [j|j y p i k Hy Hh Hc IH]; intros m Hjm.
  - inversion Hjm as [|j0 y p i k0 Hy Hh Hc]; subst; [apply chain_self|].
    rewrite Hx in Hy. injection Hy as <-. congruence.
  - inversion Hjm as [|j0 y' p' i' k0 Hy' Hh' Hc']; subst.
    + eapply chain_up; eauto.
    + rewrite Hy in Hy'. injection Hy' as <-. rewrite Hh in Hh'. injection Hh' as <- <-.
      now apply IH.
Qed.

Section Generic.
Variable T St : Type.
Variable s_get : St -> T -> N -> res T.
Variable s_set : St -> T -> N -> bool -> T -> res (T * St).
Variable s_leaf : St -> chunk -> T * St.
Variable s_pair : St -> T -> T -> T * St.
Variable s_chunk : St -> T -> res chunk.
Variable s_zero : nat -> T.
Variable s_true : T.
Variable zh : nat -> chunk.

Local Notation Mlength := (m_length T St s_get s_chunk).
Local Notation Mcheck := (m_check_index T St s_get s_chunk).
Local Notation Mgetn := (m_get_node T St s_get).
Local Notation Msetn := (m_set_node T St s_set).
Local Notation Msetlen := (m_set_length T St s_set s_leaf).
Local Notation Mpset := (m_packed_set T St s_get s_set s_leaf s_chunk).
Local Notation Mbapp := (m_basic_append T St s_get s_set s_leaf s_chunk zh).
Local Notation Mbpop := (m_basic_pop T St s_get s_set s_leaf s_chunk zh).
Local Notation Mbitset := (m_bit_set T St s_get s_set s_leaf s_chunk).
Local Notation Mbitapp := (m_bit_append T St s_get s_set s_leaf s_chunk zh).
Local Notation Mbitpop := (m_bit_pop T St s_get s_set s_leaf s_chunk).
Local Notation Mcapp := (m_complex_append T St s_get s_set s_leaf s_chunk).
Local Notation Mcpop := (m_complex_pop T St s_get s_set s_leaf s_chunk s_zero).
Local Notation Mslot := (m_slot_set T St s_get s_set s_chunk).
Local Notation Alloc := (alloc_node T St s_leaf s_pair).
Local Notation SetB := (set_backing T St s_get s_set s_chunk).
Local Notation Resolve := (resolve_src T St s_leaf s_pair s_zero s_true zh).
Local Notation Mutate := (mutate T St s_get s_set s_leaf s_pair s_chunk s_zero s_true zh).
Local Notation Step := (step T St s_get s_set s_leaf s_pair s_chunk s_zero s_true zh).
Local Notation Hdl st := (m_handles T St st).
Local Notation Sto st := (m_store T St st).

(* ---- 5a. which handles can a step rebind?  (no hypothesis on the store) ---- *)

Lemma put_back_handles st h b s :
  handles_le (Hdl st) (Hdl (put_back T St st h b s)) /\
  handles_le (Hdl (put_back T St st h b s)) (Hdl st) /\
  (forall k, k <> h -> nth_error (Hdl (put_back T St st h b s)) k = nth_error (Hdl st) k) /\
  Sto (put_back T St st h b s) = s.
Proof.
  unfold put_back. destruct (nth_error (Hdl st) h) as [x|] eqn:Hx; simpl.
  2:{ split; [apply handles_le_refl|]. split; [apply handles_le_refl|]. auto. }
  assert (Hh : (h < length (Hdl st))%nat) by (apply nth_error_Some; congruence).
  split; [|split; [|split]].
  - split; [rewrite list_set_len; lia|]. intros k y Hy.
    destruct (PeanoNat.Nat.eq_dec k h) as [->|Hne].
    + rewrite nth_error_list_set_same by exact Hh. rewrite Hx in Hy. injection Hy as <-.
      eexists. split; [reflexivity|]. simpl. auto.
    + rewrite nth_error_list_set_other by exact Hne. eauto.
  - split; [rewrite list_set_len; lia|]. intros k y Hy.
    destruct (PeanoNat.Nat.eq_dec k h) as [->|Hne].
    + rewrite nth_error_list_set_same in Hy by exact Hh. injection Hy as <-.
      exists x. split; [exact Hx|]. simpl. auto.
    + rewrite nth_error_list_set_other in Hy by exact Hne. eauto.
  - intros k Hne. now apply nth_error_list_set_other.
  - reflexivity.
Qed.

Lemma set_backing_local fuel : forall st h b s st' r,
  SetB fuel st h b s = (st', r) ->
  handles_le (Hdl st) (Hdl st') /\ handles_le (Hdl st') (Hdl st) /\
  forall k, ~ on_chain (Hdl st) h k -> nth_error (Hdl st') k = nth_error (Hdl st) k.
Proof.
  induction fuel as [|f IH]; intros st h b s st' r Hs.
  - simpl in Hs. injection Hs as <- _.
    destruct (put_back_handles st h b s) as (L1 & L2 & Ho & _).
    split; [exact L1|]. split; [exact L2|]. intros k Hk. apply Ho. intros ->. apply Hk, chain_self.
  - cbn [set_backing] in Hs.
    destruct (put_back_handles st h b s) as (L1 & L2 & Ho & _).
    set (st1 := put_back T St st h b s) in *.
    assert (Hbase : handles_le (Hdl st) (Hdl st1) /\ handles_le (Hdl st1) (Hdl st) /\
                    forall k, ~ on_chain (Hdl st) h k -> nth_error (Hdl st1) k = nth_error (Hdl st) k).
    { split; [exact L1|]. split; [exact L2|]. intros k Hk. apply Ho. intros ->. apply Hk, chain_self. }
    destruct (nth_error (Hdl st1) h) as [x|] eqn:Hx; [|injection Hs as <- _; exact Hbase].
    destruct (h_hook T x) as [[p i]|] eqn:Hh; [|injection Hs as <- _; exact Hbase].
    destruct (nth_error (Hdl st1) p) as [px|] eqn:Hp; [|injection Hs as <- _; exact Hbase].
    destruct (Mslot (h_ty T px) (Sto st1) (h_back T px) i b) as [[pb s']| |];
      [|injection Hs as <- _; exact Hbase|injection Hs as <- _; exact Hbase].
    destruct (IH _ _ _ _ _ _ Hs) as (M1 & M2 & Mo).
    split; [eapply handles_le_trans; eauto|]. split; [eapply handles_le_trans; eauto|].
    intros k Hk. rewrite Mo.
    + apply Ho. intros ->. apply Hk, chain_self.
    + intros Hc. apply Hk. pose proof L2 as [_ A2]. destruct (A2 _ _ Hx) as (x0 & Hx0 & _ & Hk0).
      eapply chain_up; [exact Hx0|rewrite Hk0; exact Hh|]. eapply on_chain_le; [|exact Hc].
      exact L2.
Qed.

Lemma hooks_wf_le (hs hs' : list (handle T)) :
  handles_le hs' hs -> hooks_wf hs -> hooks_wf hs'.
Proof.
  intros [_ A] Hw k x p i Hx Hh. destruct (A _ _ Hx) as (x' & Hx' & _ & Hk).
  eapply Hw; [exact Hx'|rewrite Hk; exact Hh].
Qed.

Lemma hooks_wf_app (hs : list (handle T)) x :
  hooks_wf hs -> (forall p i, h_hook T x = Some (p, i) -> (p < length hs)%nat) ->
  hooks_wf (hs ++ [x]).
Proof.
  intros Hw Hx k y p i Hy Hh. destruct (Compare_dec.lt_dec k (length hs)) as [Hlt|Hge].
  - rewrite nth_error_app1 in Hy by exact Hlt. eapply Hw; eauto.
  - rewrite nth_error_app2 in Hy by lia. destruct (k - length hs)%nat as [|d] eqn:Ed.
    + simpl in Hy. injection Hy as <-. pose proof (Hx _ _ Hh). lia.
    + simpl in Hy. destruct d; discriminate.
Qed.

(* every step: the handle list grows, types/hooks are fixed, hooks stay well-founded, and the
   backing of a handle that is not on the hook chain of the target is untouched *)
Lemma step_local st o st' r :
  Step st o = (st', r) ->
  handles_le (Hdl st) (Hdl st') /\
  (hooks_wf (Hdl st) -> hooks_wf (Hdl st')) /\
  (forall k x, nth_error (Hdl st) k = Some x -> ~ on_chain (Hdl st) (op_target o) k ->
               nth_error (Hdl st') k = Some x).
Proof.
  assert (Hid : handles_le (Hdl st) (Hdl st) /\ (hooks_wf (Hdl st) -> hooks_wf (Hdl st)) /\
                (forall k x, nth_error (Hdl st) k = Some x -> ~ on_chain (Hdl st) (op_target o) k ->
                             nth_error (Hdl st) k = Some x)).
  { split; [apply handles_le_refl|]. split; auto. }
  assert (Hpush : forall x, (forall p i, h_hook T x = Some (p, i) -> (p < length (Hdl st))%nat) ->
            handles_le (Hdl st) (Hdl st ++ [x]) /\ (hooks_wf (Hdl st) -> hooks_wf (Hdl st ++ [x])) /\
            (forall k y, nth_error (Hdl st) k = Some y -> ~ on_chain (Hdl st) (op_target o) k ->
                         nth_error (Hdl st ++ [x]) k = Some y)).
  { intros x Hx. split; [apply handles_le_app|]. split; [intros Hw; now apply hooks_wf_app|].
    intros k y Hy _. rewrite nth_error_app1; [exact Hy|]. apply nth_error_Some. congruence. }
  assert (Hmut : forall h x, op_target o = h -> get_handle T St st h = OK x ->
     (let '(st1, r0) :=
        match Mutate st x o with
        | OK (b, s') =>
          let '(st1, r) := SetB (hook_fuel T St st) st h b s' in
          (st1, match r with OK _ => OK MUnit | Err => Err | Panic => Panic end)
        | Err => (st, Err)
        | Panic => (st, Panic)
        end in (st1, r0)) = (st', r) ->
     handles_le (Hdl st) (Hdl st') /\ (hooks_wf (Hdl st) -> hooks_wf (Hdl st')) /\
     (forall k y, nth_error (Hdl st) k = Some y -> ~ on_chain (Hdl st) (op_target o) k ->
                  nth_error (Hdl st') k = Some y)).
  { intros h x Ht Hg Hs.
    destruct (Mutate st x o) as [[b s']| |]; [|injection Hs as <- _; exact Hid|injection Hs as <- _; exact Hid].
    destruct (SetB (hook_fuel T St st) st h b s') as [st1 r1] eqn:Esb. injection Hs as <- _.
    destruct (set_backing_local _ _ _ _ _ _ _ Esb) as (L1 & L2 & Ho).
    split; [exact L1|]. split; [intros Hw; eapply hooks_wf_le; eauto|].
    intros k y Hy Hk. rewrite Ho; [exact Hy|]. now rewrite <- Ht. }
  unfold step. intros Hs.
  destruct o as [h i|h|h|h i v|h v|h|h sel v]; simpl op_target in *.
  - (* OGet *)
    destruct (get_handle T St st h) as [x| |] eqn:Hg; [|injection Hs as <- _; exact Hid|injection Hs as <- _; exact Hid].
    match type of Hs with (match ?e with Some _ => _ | None => _ end) = _ =>
      destruct e as [e0|]; [|injection Hs as <- _; exact Hid] end.
    destruct (Mgetn (h_ty T x) (Sto st) (h_back T x) i) as [c| |];
      [|injection Hs as <- _; exact Hid|injection Hs as <- _; exact Hid].
    unfold push_handle in Hs. injection Hs as <- _. simpl. apply Hpush.
    intros p j Hp. simpl in Hp. injection Hp as <- _.
    unfold get_handle in Hg. destruct (nth_error (Hdl st) h) eqn:Hn; [|discriminate].
    apply nth_error_Some. congruence.
  - (* OUValue *)
    destruct (get_handle T St st h) as [x| |] eqn:Hg; [|injection Hs as <- _; exact Hid|injection Hs as <- _; exact Hid].
    destruct (h_ty T x); try (injection Hs as <- _; exact Hid).
    match type of Hs with (match ?e with OK _ => _ | Err => _ | Panic => _ end) = _ =>
      destruct e as [[[o1|] c]| |]; try (injection Hs as <- _; exact Hid) end.
    unfold push_handle in Hs. injection Hs as <- _. simpl. apply Hpush.
    intros p j Hp. discriminate.
  - (* OCopy *)
    destruct (get_handle T St st h) as [x| |] eqn:Hg; [|injection Hs as <- _; exact Hid|injection Hs as <- _; exact Hid].
    unfold push_handle in Hs. injection Hs as <- _. simpl. apply Hpush.
    intros p j Hp. discriminate.
  - destruct (get_handle T St st h) as [x| |] eqn:Hg; [|injection Hs as <- _; exact Hid|injection Hs as <- _; exact Hid].
    eapply (Hmut h x eq_refl Hg).
    destruct (Mutate st x (OSet h i v)) as [[b s']| |]; [|exact Hs|exact Hs].
    destruct (SetB (hook_fuel T St st) st h b s'). exact Hs.
  - destruct (get_handle T St st h) as [x| |] eqn:Hg; [|injection Hs as <- _; exact Hid|injection Hs as <- _; exact Hid].
    eapply (Hmut h x eq_refl Hg).
    destruct (Mutate st x (OAppend h v)) as [[b s']| |]; [|exact Hs|exact Hs].
    destruct (SetB (hook_fuel T St st) st h b s'). exact Hs.
  - destruct (get_handle T St st h) as [x| |] eqn:Hg; [|injection Hs as <- _; exact Hid|injection Hs as <- _; exact Hid].
    eapply (Hmut h x eq_refl Hg).
    destruct (Mutate st x (OPop h)) as [[b s']| |]; [|exact Hs|exact Hs].
    destruct (SetB (hook_fuel T St st) st h b s'). exact Hs.
  - destruct (get_handle T St st h) as [x| |] eqn:Hg; [|injection Hs as <- _; exact Hid|injection Hs as <- _; exact Hid].
    eapply (Hmut h x eq_refl Hg).
    destruct (Mutate st x (OChange h sel v)) as [[b s']| |]; [|exact Hs|exact Hs].
    destruct (SetB (hook_fuel T St st) st h b s'). exact Hs.
Qed.

End Generic.
