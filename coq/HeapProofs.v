(* HeapProofs.v — proofs for properties C05, C06, C07 and C14 (model part) about the heap model
   Heap.v (node identity + the memoised Merkle root of tree.PairNode) and the heap instance
   [hm_step] of the view machine of Mut.v.

   ==== specification vocabulary used by Props/C05.v, C06.v, C07.v, C14.v ====

   (from TreeProofs.v)
   [heap_ext h h']      every cell of h is present, bit-identical, in h'; hp_next grows.
   [heap_wf h]          cells exactly below hp_next; children of a pair are older cells.
   [zeros_ok zh h]      the shared zero leaves &ZeroHashes[d] sit at [zero_addr d], d <= 64.
   [habs h a n]         cell a of heap h stands for the pure tree n (content of the node).

   (new, defined right below)
   [cell_memo_le c c']  c' is c, or c is a pair whose memo is unset (zero_chunk) and c' is the
                        same pair (same children) with some memo: the only in-place write of
                        the Go code (PairNode.MerkleRoot storing c.Value).
   [heap_ext_memo h h'] every cell of h is present in h' up to [cell_memo_le]; hp_next grows.
                        [heap_ext] is the special case without memo writes ([heap_ext_ext_memo]).
   [heap_same_dom h h'] same hp_next and no new cells: nothing was allocated.
   [memo_ok H h]        every remembered root is the root of the node's content:
                        cell a = CPair m l r, m <> zero_chunk, habs h a n  ->  m = root_of H n
                        (for n = Pair x y this is m = H (root x) (root y): the root recomputed
                        from the current children).
   [memoised h a]       every pair cell reachable from a has a non-zero memo ("fully hashed").
   [memo_closed h]      a pair with a non-zero memo has fully hashed children (MerkleRoot sets
                        a memo only after hashing both children; an invariant of the machine).
   [reach h a b]        cell b is reachable from cell a through child pointers.
   [unset_pair h b]     cell b is a pair whose memo is zero_chunk;  [set_pair h b]: non-zero.
   [wcount h a n]       n = number of unset pair cells in the tree below a, counted with the
                        multiplicity of the tree unfolding (an upper bound of the number of
                        distinct ones).
   [frozen_below h k]   every address below k holds a leaf or a pair with a non-zero memo.
   [on_chain hs j k]    handle k is j itself or one of the parents reached from j by following
                        the backing hooks (h_hook) in the handle list hs.
   [hooks_wf hs]        the hook of every handle points to an older handle (smaller index).
   [hm_inv zh st]       machine invariant: heap_wf, zeros_ok, trueRoot allocated, every handle's
                        backing is an allocated address.
   [Hnz H]              forall a b, H a b <> zero_chunk   — needed ONLY where stated (C07 and
                        the "fully hashed afterwards" facts): Go treats an all-zero Value as
                        "not computed", so a hash function that can return 32 zero bytes would
                        be re-invoked on every request.

   (defined further down, next to their first use; each is unfolded verbatim by a
    Cxx_defs_* theorem in the Props files)
   [heap_grow h h']     (sect. 4) heap_ext h h' and every added pair cell has an unset memo:
                        what NewPairNode / the Setter do.
   [handles_le hs hs']  (sect. 5) the handle list only grows; type and hook of a handle are fixed.
   [op_target o]        (sect. 5) the handle an operation is applied to.
   [hev], [hm_hash H st k], [hm_event H zh st e], [hm_run H zh st evs]   (sect. 6) histories:
                        [EStep o] = a machine step, [EHash k] = a hash-tree-root request on the
                        backing of handle k (fuel = the address, which bounds the height);
                        hm_run = fold_left hm_event.
   [run_outside H zh st k evs] / [run_inside ...]   (sect. 7) no step / every step of the history
                        targets a handle whose hook chain contains k.
   [cell_strip], [memo_eq h1 h2], [hm_rel st1 st2], [steps_only evs]   (sect. 11) heaps equal up
                        to memos (same hp_next, same cells after erasing memos); states with the
                        same handles and memo_eq stores; a history without its hash requests.
   [fresh_unset k0 h t] (sect. 12, internal) every unset pair below t was allocated at or after k0.

   Structure: 1 heap_ext_memo; 2 the h_merkle specification [h_merkle_spec] (one induction on the
   fuel proving all of: only-memo writes, no allocation, root = root of the abstraction, memo_ok
   kept, fully hashed afterwards, hash count); 3 its corollaries; 4 allocation/path copy;
   5 the view machine generically over the node store ([step_local]: which handles a step can
   rebind; [step_inv]: store invariants — instantiated three times); 6 the heap machine;
   7 detached copies; 8 path bounds; 9 frozen prefix; 10 examples; 11 memo-insensitivity
   ([step_rel], generic relational parametricity of the machine); 12 step cost. *)
From Coq Require Import FMapPositive PArith.
From Ztyp Require Import Base Bitlen Tree Types View Mut Heap BitlenProofs TreeProofs.
Open Scope N_scope.

(* ------------------------------------------------------------------------------------- *)
(* spec definitions                                                                      *)
(* ------------------------------------------------------------------------------------- *)

Definition cell_memo_le (c c' : cell) : Prop :=
  c' = c \/ exists m l r, c = CPair zero_chunk l r /\ c' = CPair m l r.

Definition heap_ext_memo (h h' : heap) : Prop :=
  (forall a c, h_cell h a = Some c -> exists c', h_cell h' a = Some c' /\ cell_memo_le c c') /\
  (hp_next h <= hp_next h')%positive.

Definition heap_same_dom (h h' : heap) : Prop :=
  hp_next h' = hp_next h /\ forall a, h_cell h a = None -> h_cell h' a = None.

Definition memo_ok (H : chunk -> chunk -> chunk) (h : heap) : Prop :=
  forall a m l r n, h_cell h a = Some (CPair m l r) -> m <> zero_chunk -> habs h a n ->
                    m = root_of H n.

Inductive memoised (h : heap) : addr -> Prop :=
| memoised_leaf a c : h_cell h a = Some (CLeaf c) -> memoised h a
| memoised_pair a m l r : h_cell h a = Some (CPair m l r) -> m <> zero_chunk ->
    memoised h l -> memoised h r -> memoised h a.

Definition memo_closed (h : heap) : Prop :=
  forall a m l r, h_cell h a = Some (CPair m l r) -> m <> zero_chunk ->
                  memoised h l /\ memoised h r.

Inductive reach (h : heap) : addr -> addr -> Prop :=
| reach_refl a : reach h a a
| reach_left a m l r b : h_cell h a = Some (CPair m l r) -> reach h l b -> reach h a b
| reach_right a m l r b : h_cell h a = Some (CPair m l r) -> reach h r b -> reach h a b.

Definition unset_pair (h : heap) (b : addr) : Prop :=
  exists l r, h_cell h b = Some (CPair zero_chunk l r).
Definition set_pair (h : heap) (b : addr) : Prop :=
  exists m l r, h_cell h b = Some (CPair m l r) /\ m <> zero_chunk.

Inductive wcount (h : heap) : addr -> nat -> Prop :=
| wc_leaf a c : h_cell h a = Some (CLeaf c) -> wcount h a 0
| wc_pair a m l r n1 n2 : h_cell h a = Some (CPair m l r) -> wcount h l n1 -> wcount h r n2 ->
    wcount h a (n1 + n2 + (if chunk_eqb m zero_chunk then 1 else 0)).

Definition frozen_cell (c : cell) : Prop :=
  match c with CLeaf _ => True | CPair m _ _ => m <> zero_chunk end.
Definition frozen_below (h : heap) (k : addr) : Prop :=
  forall b, (b < k)%positive -> exists c, h_cell h b = Some c /\ frozen_cell c.

Definition Hnz (H : chunk -> chunk -> chunk) : Prop := forall a b, H a b <> zero_chunk.

(* ------------------------------------------------------------------------------------- *)
(* 1. heap_ext_memo: order properties, stability of content                               *)
(* ------------------------------------------------------------------------------------- *)

Lemma cell_memo_le_refl c : cell_memo_le c c.
Proof. now left. Qed.

Lemma cell_memo_le_trans c1 c2 c3 : cell_memo_le c1 c2 -> cell_memo_le c2 c3 -> cell_memo_le c1 c3.
Proof.
  intros [->|(m & l & r & -> & ->)] [->|(m' & l' & r' & E & ->)].
  - now left.
  - right. eauto.
  - right. eauto.
  - injection E as _ <- <-. right. eauto.
Qed.

Lemma heap_ext_memo_refl h : heap_ext_memo h h.
Proof. split; [|apply Pos.le_refl]. intros a c Hc. exists c. split; [exact Hc|apply cell_memo_le_refl]. Qed.

Lemma heap_ext_memo_trans h1 h2 h3 :
  heap_ext_memo h1 h2 -> heap_ext_memo h2 h3 -> heap_ext_memo h1 h3.
Proof.
  intros [A1 B1] [A2 B2]. split; [|eapply Pos.le_trans; eauto].
  intros a c Hc. destruct (A1 _ _ Hc) as (c2 & Hc2 & L12).
  destruct (A2 _ _ Hc2) as (c3 & Hc3 & L23). exists c3. split; [exact Hc3|].
  eapply cell_memo_le_trans; eauto.
Qed.

Lemma heap_ext_ext_memo h h' : heap_ext h h' -> heap_ext_memo h h'.
Proof.
  intros [A B]. split; [|exact B]. intros a c Hc. exists c. split; [auto|apply cell_memo_le_refl].
Qed.

Lemma heap_same_dom_refl h : heap_same_dom h h.
Proof. split; auto. Qed.

Lemma heap_same_dom_trans h1 h2 h3 :
  heap_same_dom h1 h2 -> heap_same_dom h2 h3 -> heap_same_dom h1 h3.
Proof. intros [A1 B1] [A2 B2]. split; [congruence|auto]. Qed.

(* a frozen cell (leaf, or pair with a memo) is bit-identical in every later heap *)
Lemma frozen_cell_stable h h' a c :
  heap_ext_memo h h' -> h_cell h a = Some c -> frozen_cell c -> h_cell h' a = Some c.
Proof.
  intros [A _] Hc Hf. destruct (A _ _ Hc) as (c' & Hc' & [->|(m & l & r & -> & ->)]).
  - exact Hc'.
  - simpl in Hf. now contradiction Hf.
Qed.

(* the shape (leaf value, children) of a cell never changes *)
Lemma ext_memo_leaf h h' a c :
  heap_ext_memo h h' -> h_cell h a = Some (CLeaf c) -> h_cell h' a = Some (CLeaf c).
Proof. intros He Hc. eapply frozen_cell_stable; eauto. exact I. Qed.

Lemma ext_memo_pair h h' a m l r :
  heap_ext_memo h h' -> h_cell h a = Some (CPair m l r) ->
  exists m', h_cell h' a = Some (CPair m' l r) /\ (m' = m \/ m = zero_chunk).
Proof.
  intros [A _] Hc. destruct (A _ _ Hc) as (c' & Hc' & [->|(m' & l' & r' & E & ->)]).
  - exists m. auto.
  - injection E as -> <- <-. exists m'. auto.
Qed.

Lemma habs_ext_memo h h' a n : heap_ext_memo h h' -> habs h a n -> habs h' a n.
Proof.
  intros He. induction 1 as [a c Hc|a memo l r x y Hc Hl IHl Hr IHr].
  - apply habs_leaf. eapply ext_memo_leaf; eauto.
  - destruct (ext_memo_pair _ _ _ _ _ _ He Hc) as (m' & Hc' & _). eapply habs_pair; eauto.
Qed.

Lemma habs_total h a : heap_wf h -> (a < hp_next h)%positive -> exists n, habs h a n.
Proof.
  intros Hwf Ha. destruct (heap_wf_abs_total _ _ Hwf Ha) as [n Hn]. exists n.
  eapply h_abs_habs; eauto.
Qed.

Lemma habs_ext_memo_inv h h' a n :
  heap_wf h -> heap_ext_memo h h' -> (a < hp_next h)%positive -> habs h' a n -> habs h a n.
Proof.
  intros Hwf He Ha Hn. destruct (habs_total _ _ Hwf Ha) as [n0 Hn0].
  pose proof (habs_ext_memo _ _ _ _ He Hn0) as Hn0'.
  now rewrite (habs_fun _ _ _ Hn _ Hn0').
Qed.

Lemma habs_lt h a n : heap_wf h -> habs h a n -> (a < hp_next h)%positive.
Proof. intros Hwf Ha. inversion Ha; subst; eapply heap_wf_lt; eauto. Qed.

Lemma heap_wf_ext_memo h h' :
  heap_wf h -> heap_ext_memo h h' -> heap_same_dom h h' -> heap_wf h'.
Proof.
  intros (Hall & Hf & Hch) [A B] [Hn Hd]. split; [|split].
  - intros a Ha. rewrite Hn in Ha. destruct (Hall _ Ha) as [c Hc].
    destruct (A _ _ Hc) as (c' & Hc' & _). eauto.
  - intros a Ha. rewrite Hn in Ha. apply Hd. now apply Hf.
  - intros a memo l r Hc'. destruct (h_cell h a) as [c|] eqn:Hc.
    + destruct (A _ _ Hc) as (c' & Hc2 & L). rewrite Hc' in Hc2. injection Hc2 as <-.
      destruct L as [<-|(m & l0 & r0 & -> & E)].
      * eapply Hch; eauto.
      * injection E as _ -> ->. eapply Hch; eauto.
    + rewrite (Hd _ Hc) in Hc'. discriminate.
Qed.

Lemma memoised_ext_memo h h' a : heap_ext_memo h h' -> memoised h a -> memoised h' a.
Proof.
  intros He. induction 1 as [a c Hc|a m l r Hc Hm Hl IHl Hr IHr].
  - eapply memoised_leaf. eapply ext_memo_leaf; eauto.
  - eapply memoised_pair; [eapply frozen_cell_stable; [exact He|exact Hc|exact Hm]|exact Hm|exact IHl|exact IHr].
Qed.

Lemma set_pair_ext_memo h h' b : heap_ext_memo h h' -> set_pair h b -> set_pair h' b.
Proof.
  intros He (m & l & r & Hc & Hm). exists m, l, r. split; [|exact Hm].
  eapply frozen_cell_stable; eauto.
Qed.

Lemma reach_ext_memo h h' a b : heap_ext_memo h h' -> reach h a b -> reach h' a b.
Proof.
  intros He. induction 1 as [a|a m l r b Hc Hr IH|a m l r b Hc Hr IH].
  - apply reach_refl.
  - destruct (ext_memo_pair _ _ _ _ _ _ He Hc) as (m' & Hc' & _). eapply reach_left; eauto.
  - destruct (ext_memo_pair _ _ _ _ _ _ He Hc) as (m' & Hc' & _). eapply reach_right; eauto.
Qed.

Lemma reach_le h a b : heap_wf h -> reach h a b -> (b <= a)%positive.
Proof.
  intros (_ & _ & Hch). induction 1 as [a|a m l r b Hc Hr IH|a m l r b Hc Hr IH].
  - apply Pos.le_refl.
  - destruct (Hch _ _ _ _ Hc). lia.
  - destruct (Hch _ _ _ _ Hc). lia.
Qed.

Lemma reach_trans h a b c : reach h a b -> reach h b c -> reach h a c.
Proof.
  induction 1 as [a|a m l r b Hc Hr IH|a m l r b Hc Hr IH]; intros Hbc.
  - exact Hbc.
  - eapply reach_left; eauto.
  - eapply reach_right; eauto.
Qed.

Lemma wcount_ext_memo h h' a n :
  heap_ext_memo h h' -> wcount h a n -> exists n', wcount h' a n' /\ (n' <= n)%nat.
Proof.
  intros He. induction 1 as [a c Hc|a m l r n1 n2 Hc Hl (n1' & Hl' & L1) Hr (n2' & Hr' & L2)].
  - exists 0%nat. split; [|lia]. eapply wc_leaf. eapply ext_memo_leaf; eauto.
  - destruct (ext_memo_pair _ _ _ _ _ _ He Hc) as (m' & Hc' & Hm).
    eexists. split; [eapply wc_pair; eauto|].
    destruct Hm as [->| ->].
    + lia.
    + rewrite (chunk_eqb_refl zero_chunk). destruct (chunk_eqb m' zero_chunk); lia.
Qed.

Lemma wcount_total h : heap_wf h -> forall k a,
  (Pos.to_nat a <= k)%nat -> (a < hp_next h)%positive -> exists n, wcount h a n.
Proof.
  intros Hwf. induction k as [|k IH]; intros a Hk Ha; [lia|].
  pose proof Hwf as (Hall & Hf & Hch). destruct (Hall _ Ha) as [[c|memo l r] Hc].
  - exists 0%nat. eapply wc_leaf; eauto.
  - destruct (Hch _ _ _ _ Hc) as [Hl Hr].
    destruct (IH l ltac:(lia) ltac:(lia)) as [n1 H1].
    destruct (IH r ltac:(lia) ltac:(lia)) as [n2 H2].
    eexists. eapply wc_pair; eauto.
Qed.

Lemma wcount_fun h a n1 : wcount h a n1 -> forall n2, wcount h a n2 -> n1 = n2.
Proof.
  induction 1 as [a c Hc|a m l r k1 k2 Hc Hl IHl Hr IHr]; intros n2 Hn2;
    inversion Hn2 as [a0 c0 Hc0|a0 m0 l0 r0 j1 j2 Hc0 Hl0 Hr0]; subst; rewrite Hc in Hc0;
    try discriminate.
  - reflexivity.
  - injection Hc0 as <- <- <-. rewrite (IHl _ Hl0), (IHr _ Hr0). reflexivity.
Qed.

(* fully hashed = nothing left to hash *)
Lemma memoised_wcount h a : memoised h a -> wcount h a 0.
Proof.
  induction 1 as [a c Hc|a m l r Hc Hm Hl IHl Hr IHr].
  - eapply wc_leaf; eauto.
  - pose proof (wc_pair _ _ _ _ _ _ _ Hc IHl IHr) as W.
    apply chunk_eqb_false in Hm. rewrite Hm in W. exact W.
Qed.

Lemma wcount_memoised h a n : wcount h a n -> n = 0%nat -> memoised h a.
Proof.
  induction 1 as [a c Hc|a m l r n1 n2 Hc Hl IHl Hr IHr]; intros Hn.
  - eapply memoised_leaf; eauto.
  - destruct (chunk_eqb m zero_chunk) eqn:Em; [lia|]. apply chunk_eqb_false in Em.
    eapply memoised_pair; eauto; [apply IHl|apply IHr]; lia.
Qed.

(* ------------------------------------------------------------------------------------- *)
(* 2. h_merkle: the model of PairNode.MerkleRoot                                          *)
(* ------------------------------------------------------------------------------------- *)

Definition h_put (h : heap) (a : addr) (c : cell) : heap :=
  mkHeap (hp_next h) (PositiveMap.add a c (hp_cells h)).

Lemma h_put_same h a c : h_cell (h_put h a c) a = Some c.
Proof. unfold h_put, h_cell. simpl. apply PositiveMap.gss. Qed.

Lemma h_put_other h a c b : b <> a -> h_cell (h_put h a c) b = h_cell h b.
Proof. intros Hne. unfold h_put, h_cell. simpl. apply PositiveMap.gso. exact Hne. Qed.

Lemma h_put_memo h a m l r v :
  h_cell h a = Some (CPair m l r) -> (m = zero_chunk \/ m = v) ->
  heap_ext_memo h (h_put h a (CPair v l r)) /\ heap_same_dom h (h_put h a (CPair v l r)).
Proof.
  intros Hc Hm. split; split.
  - intros b c Hb. destruct (Pos.eq_dec b a) as [->|Hne].
    + rewrite h_put_same. rewrite Hc in Hb. injection Hb as <-. eexists. split; [reflexivity|].
      destruct Hm as [->| ->]; [right; eauto|now left].
    + rewrite h_put_other by exact Hne. exists c. split; [exact Hb|apply cell_memo_le_refl].
  - simpl. apply Pos.le_refl.
  - reflexivity.
  - intros b Hb. rewrite h_put_other; [exact Hb|]. intros ->. rewrite Hc in Hb. discriminate.
Qed.

Lemma unset_pair_back h h' b : heap_ext_memo h h' -> (exists c, h_cell h b = Some c) ->
  unset_pair h' b -> unset_pair h b.
Proof.
  intros [A _] [c Hc] (l & r & Hc'). destruct (A _ _ Hc) as (c' & Hc2 & L).
  rewrite Hc' in Hc2. injection Hc2 as <-.
  destruct L as [<-|(m & l0 & r0 & -> & E)].
  - exists l, r. exact Hc.
  - exists l0, r0. exact Hc.
Qed.

Lemma reach_back h h' a b : heap_wf h -> heap_ext_memo h h' -> (a < hp_next h)%positive ->
  reach h' a b -> reach h a b.
Proof.
  intros Hwf He Ha Hr. revert Ha.
  induction Hr as [a|a m l r b Hc Hr IH|a m l r b Hc Hr IH]; intros Ha.
  - apply reach_refl.
  - pose proof Hwf as (Hall & _ & Hch). destruct (Hall _ Ha) as [c Hc0].
    destruct c as [c|m0 l0 r0].
    + rewrite (ext_memo_leaf _ _ _ _ He Hc0) in Hc. discriminate.
    + destruct (ext_memo_pair _ _ _ _ _ _ He Hc0) as (m' & Hc' & _). rewrite Hc in Hc'.
      injection Hc' as -> -> ->. destruct (Hch _ _ _ _ Hc0). eapply reach_left; [eauto|apply IH; lia].
  - pose proof Hwf as (Hall & _ & Hch). destruct (Hall _ Ha) as [c Hc0].
    destruct c as [c|m0 l0 r0].
    + rewrite (ext_memo_leaf _ _ _ _ He Hc0) in Hc. discriminate.
    + destruct (ext_memo_pair _ _ _ _ _ _ He Hc0) as (m' & Hc' & _). rewrite Hc in Hc'.
      injection Hc' as -> -> ->. destruct (Hch _ _ _ _ Hc0). eapply reach_right; [eauto|apply IH; lia].
Qed.

Lemma NoDup_app_intro {A} (l1 l2 : list A) :
  NoDup l1 -> NoDup l2 -> (forall x, In x l1 -> ~ In x l2) -> NoDup (l1 ++ l2).
Proof.
  induction 1 as [|x l1 Hx ND IH]; intros ND2 Hd; simpl; [exact ND2|].
  constructor.
  - intros Hin. apply in_app_or in Hin. destruct Hin as [Hin|Hin]; [now apply Hx|].
    eapply Hd; [now left|exact Hin].
  - apply IH; [exact ND2|]. intros y Hy. apply Hd. now right.
Qed.

Section Merkle.
Variable H : chunk -> chunk -> chunk.

Lemma h_merkle_S f h a :
  h_merkle H (S f) h a =
  match h_cell h a with
  | None => Panic
  | Some (CLeaf c) => OK (c, h, 0)
  | Some (CPair memo l r) =>
    if negb (chunk_eqb memo zero_chunk) then OK (memo, h, 0) else
    do x <- h_merkle H f h l; let '(rl, h1, c1) := x in
    do y <- h_merkle H f h1 r; let '(rr, h2, c2) := y in
    OK (H rl rr, h_put h2 a (CPair (H rl rr) l r), c1 + c2 + 1)
  end.
Proof. reflexivity. Qed.

(* the list of cells whose memo a request wrote *)
Definition written (h h' : heap) (a : addr) (c : N) (L : list addr) : Prop :=
  NoDup L /\ N.of_nat (length L) = c /\
  (forall b, In b L -> reach h a b /\ unset_pair h b /\ set_pair h' b) /\
  (forall b, ~ In b L -> h_cell h' b = h_cell h b).

Definition merkle_post (h : heap) (a : addr) (r : chunk) (h' : heap) (c : N) : Prop :=
  heap_ext_memo h h' /\ heap_same_dom h h' /\
  (forall b, (a < b)%positive -> h_cell h' b = h_cell h b) /\
  (memo_ok H h -> memo_ok H h' /\ forall n, habs h a n -> r = root_of H n) /\
  (Hnz H -> memo_closed h -> memoised h' a /\ memo_closed h') /\
  (exists n, wcount h a n /\ c <= N.of_nat n) /\
  (Hnz H -> exists L, written h h' a c L).

Lemma h_merkle_spec fuel : forall h a,
  heap_wf h -> (a < hp_next h)%positive -> (Pos.to_nat a <= fuel)%nat ->
  exists r h' c, h_merkle H fuel h a = OK (r, h', c) /\ merkle_post h a r h' c.
Proof.
  induction fuel as [|f IH]; intros h a Hwf Ha Hfuel; [lia|].
  rewrite h_merkle_S.
  pose proof Hwf as (Hall & Hfresh & Hch).
  destruct (Hall _ Ha) as [[c|memo l r] Hc]; rewrite Hc.
  - (* leaf *)
    exists c, h, 0. split; [reflexivity|]. unfold merkle_post.
    split; [apply heap_ext_memo_refl|]. split; [apply heap_same_dom_refl|].
    split; [reflexivity|]. split; [|split; [|split]].
    + intros Hok. split; [exact Hok|]. intros n Hn. inversion Hn; subst; rewrite Hc in *; try discriminate.
      match goal with E : Some _ = Some _ |- _ => injection E as <- end. reflexivity.
    + intros _ Hcl. split; [eapply memoised_leaf; eauto|exact Hcl].
    + exists 0%nat. split; [eapply wc_leaf; eauto|reflexivity].
    + intros _. exists []. split; [constructor|]. split; [reflexivity|].
      split; [intros b []|reflexivity].
  - destruct (chunk_eqb memo zero_chunk) eqn:Em; cbn [negb].
    2:{ (* memo present *)
      apply chunk_eqb_false in Em.
      exists memo, h, 0. split; [reflexivity|]. unfold merkle_post.
      split; [apply heap_ext_memo_refl|]. split; [apply heap_same_dom_refl|].
      split; [reflexivity|]. split; [|split; [|split]].
      + intros Hok. split; [exact Hok|]. intros n Hn. eapply Hok; eauto.
      + intros _ Hcl. split; [|exact Hcl]. destruct (Hcl _ _ _ _ Hc Em). eapply memoised_pair; eauto.
      + destruct (wcount_total _ Hwf _ a (le_n _) Ha) as [n Hn]. exists n. split; [exact Hn|lia].
      + intros _. exists []. split; [constructor|]. split; [reflexivity|].
        split; [intros b []|reflexivity]. }
    (* memo unset: hash both children, store *)
    apply chunk_eqb_true in Em. subst memo.
    destruct (Hch _ _ _ _ Hc) as [Hl Hr].
    destruct (IH h l Hwf ltac:(lia) ltac:(lia)) as (rl & h1 & c1 & E1 & P1).
    destruct P1 as (He1 & Hd1 & Hfr1 & Hok1 & Hms1 & (n1 & W1 & Lc1) & Hw1).
    pose proof (heap_wf_ext_memo _ _ Hwf He1 Hd1) as Hwf1.
    pose proof Hd1 as [Hn1 _].
    destruct (IH h1 r Hwf1 ltac:(lia) ltac:(lia)) as (rr & h2 & c2 & E2 & P2).
    destruct P2 as (He2 & Hd2 & Hfr2 & Hok2 & Hms2 & (n2 & W2 & Lc2) & Hw2).
    pose proof (heap_wf_ext_memo _ _ Hwf1 He2 Hd2) as Hwf2.
    pose proof Hd2 as [Hn2 _].
    rewrite E1. cbn [bind]. rewrite E2. cbn [bind].
    set (v := H rl rr). set (h' := h_put h2 a (CPair v l r)).
    assert (Hc2 : h_cell h2 a = Some (CPair zero_chunk l r)).
    { rewrite Hfr2 by lia. rewrite Hfr1 by lia. exact Hc. }
    destruct (h_put_memo h2 a zero_chunk l r v Hc2 (or_introl eq_refl)) as [He3 Hd3].
    fold h' in He3, Hd3.
    pose proof (heap_ext_memo_trans _ _ _ He1 He2) as He12.
    pose proof (heap_ext_memo_trans _ _ _ He12 He3) as He.
    pose proof (heap_same_dom_trans _ _ _ (heap_same_dom_trans _ _ _ Hd1 Hd2) Hd3) as Hd.
    exists v, h', (c1 + c2 + 1). split; [reflexivity|]. unfold merkle_post.
    split; [exact He|]. split; [exact Hd|]. split; [|split; [|split; [|split]]].
    + intros b Hb. unfold h'. rewrite h_put_other by lia. rewrite Hfr2 by lia. apply Hfr1. lia.
    + intros Hok. destruct (Hok1 Hok) as [Hokh1 Hrl]. destruct (Hok2 Hokh1) as [Hokh2 Hrr].
      destruct (habs_total h l Hwf) as [x Hx]; [lia|].
      destruct (habs_total h r Hwf) as [y Hy]; [lia|].
      assert (Hv : v = root_of H (Pair x y)).
      { unfold v. simpl. rewrite (Hrl _ Hx). rewrite (Hrr y); [reflexivity|].
        eapply habs_ext_memo; eauto. }
      split.
      * intros b m lb rb n Hb Hm Hn. destruct (Pos.eq_dec b a) as [->|Hne].
        -- unfold h' in Hb. rewrite h_put_same in Hb. injection Hb as <- <- <-.
           rewrite Hv. f_equal. eapply habs_fun; [|exact Hn].
           eapply habs_ext_memo; [exact He|]. eapply habs_pair; eauto.
        -- unfold h' in Hb. rewrite h_put_other in Hb by exact Hne.
           eapply Hokh2; eauto. eapply habs_ext_memo_inv; eauto. eapply heap_wf_lt; eauto.
      * intros n Hn. rewrite Hv. f_equal. eapply habs_fun; [|exact Hn]. eapply habs_pair; eauto.
    + intros Hz Hcl. destruct (Hms1 Hz Hcl) as [Ml Hcl1]. destruct (Hms2 Hz Hcl1) as [Mr Hcl2].
      assert (Ml' : memoised h' l).
      { eapply memoised_ext_memo; [exact He3|]. eapply memoised_ext_memo; [exact He2|exact Ml]. }
      assert (Mr' : memoised h' r) by (eapply memoised_ext_memo; [exact He3|exact Mr]).
      split.
      * apply (memoised_pair h' a v l r); [unfold h'; apply h_put_same|apply Hz|exact Ml'|exact Mr'].
      * intros b m lb rb Hb Hm. destruct (Pos.eq_dec b a) as [->|Hne].
        -- unfold h' in Hb. rewrite h_put_same in Hb. injection Hb as <- <- <-. auto.
        -- unfold h' in Hb. rewrite h_put_other in Hb by exact Hne.
           destruct (Hcl2 _ _ _ _ Hb Hm) as [Mlb Mrb].
           split; (eapply memoised_ext_memo; [exact He3|assumption]).
    + destruct (wcount_total _ Hwf _ r (le_n _) ltac:(lia)) as [n2' W2'].
      destruct (wcount_ext_memo _ _ _ _ He1 W2') as (n2'' & W2'' & L2).
      rewrite (wcount_fun _ _ _ W2 _ W2'') in Lc2.
      pose proof (wc_pair _ _ _ _ _ _ _ Hc W1 W2') as W. rewrite chunk_eqb_refl in W.
      eexists. split; [exact W|]. lia.
    + intros Hz. destruct (Hw1 Hz) as (L1 & ND1 & Len1 & In1 & Out1).
      destruct (Hw2 Hz) as (L2 & ND2 & Len2 & In2 & Out2).
      assert (Hra_l : forall b, reach h l b -> reach h a b) by (intros; eapply reach_left; eauto).
      assert (Hra_r : forall b, reach h r b -> reach h a b) by (intros; eapply reach_right; eauto).
      exists (L1 ++ L2 ++ [a]). split; [|split; [|split]].
      * apply NoDup_app_intro; [exact ND1|apply NoDup_app_intro; [exact ND2|repeat constructor; intros []|]|].
        -- intros b Hb [<-|[]]. destruct (In2 _ Hb) as (Rb & _ & _).
           pose proof (reach_le _ _ _ Hwf1 Rb). lia.
        -- intros b Hb1 Hb2. apply in_app_or in Hb2. destruct Hb2 as [Hb2|[<-|[]]].
           ++ destruct (In1 _ Hb1) as (_ & _ & (m & lb & rb & Hs & Hm)).
              destruct (In2 _ Hb2) as (_ & (lb' & rb' & Hu) & _). rewrite Hs in Hu.
              injection Hu as -> _ _. now apply Hm.
           ++ destruct (In1 _ Hb1) as (Rb & _ & _). pose proof (reach_le _ _ _ Hwf Rb). lia.
      * rewrite !app_length. simpl. lia.
      * intros b Hb. apply in_app_or in Hb. destruct Hb as [Hb|Hb]; [|apply in_app_or in Hb; destruct Hb as [Hb|[<-|[]]]].
        -- destruct (In1 _ Hb) as (Rb & Ub & Sb). split; [auto|]. split; [exact Ub|].
           eapply set_pair_ext_memo; [exact He3|]. eapply set_pair_ext_memo; [exact He2|exact Sb].
        -- destruct (In2 _ Hb) as (Rb & Ub & Sb).
           pose proof (reach_le _ _ _ Hwf1 Rb) as Hle.
           split; [apply Hra_r; apply (reach_back h h1 r b Hwf He1); [lia|exact Rb]|]. split.
           ++ eapply unset_pair_back; [exact He1| |exact Ub]. apply Hall. lia.
           ++ eapply set_pair_ext_memo; [exact He3|exact Sb].
        -- split; [apply reach_refl|]. split; [exists l, r; exact Hc|].
           exists v, l, r. split; [unfold h'; apply h_put_same|apply Hz].
      * intros b Hb. assert (Hba : b <> a) by (intros ->; apply Hb; apply in_or_app; right; apply in_or_app; right; now left).
        unfold h'. rewrite h_put_other by exact Hba.
        rewrite Out2; [apply Out1|]; intros Hin; apply Hb; apply in_or_app; [now left|right; apply in_or_app; now left].
Qed.

End Merkle.

(* ------------------------------------------------------------------------------------- *)
(* 3. corollaries of the h_merkle specification                                           *)
(* ------------------------------------------------------------------------------------- *)

Section MerkleCor.
Variable H : chunk -> chunk -> chunk.

(* never a Panic with enough fuel; the address bounds the height *)
Lemma h_merkle_total fuel h a :
  heap_wf h -> (a < hp_next h)%positive -> (Pos.to_nat a <= fuel)%nat ->
  exists r h' c, h_merkle H fuel h a = OK (r, h', c).
Proof.
  intros Hwf Ha Hf. destruct (h_merkle_spec H fuel h a Hwf Ha Hf) as (r & h' & c & E & _). eauto.
Qed.

Lemma h_merkle_post fuel h a r h' c :
  heap_wf h -> (a < hp_next h)%positive -> (Pos.to_nat a <= fuel)%nat ->
  h_merkle H fuel h a = OK (r, h', c) -> merkle_post H h a r h' c.
Proof.
  intros Hwf Ha Hf E. destruct (h_merkle_spec H fuel h a Hwf Ha Hf) as (r0 & h0 & c0 & E0 & P).
  rewrite E in E0. injection E0 as <- <- <-. exact P.
Qed.

(* A(2): only memos are written; nothing is allocated; the content of every node is unchanged *)
Lemma h_merkle_heap fuel h a r h' c :
  heap_wf h -> (a < hp_next h)%positive -> (Pos.to_nat a <= fuel)%nat ->
  h_merkle H fuel h a = OK (r, h', c) ->
  heap_ext_memo h h' /\ heap_same_dom h h' /\ heap_wf h' /\
  (forall b n, habs h' b n <-> habs h b n) /\
  (forall b, (a < b)%positive -> h_cell h' b = h_cell h b).
Proof.
  intros Hwf Ha Hf E. destruct (h_merkle_post _ _ _ _ _ _ Hwf Ha Hf E) as (He & Hd & Hfr & _).
  pose proof (heap_wf_ext_memo _ _ Hwf He Hd) as Hwf'.
  split; [exact He|]. split; [exact Hd|]. split; [exact Hwf'|]. split; [|exact Hfr].
  intros b n. split.
  - intros Hn. eapply habs_ext_memo_inv; eauto. destruct Hd as [<- _]. eapply habs_lt; eauto.
  - now apply habs_ext_memo.
Qed.

(* A(1), A(3) *)
Lemma h_merkle_root fuel h a r h' c n :
  heap_wf h -> memo_ok H h -> habs h a n -> (Pos.to_nat a <= fuel)%nat ->
  h_merkle H fuel h a = OK (r, h', c) -> r = root_of H n /\ memo_ok H h'.
Proof.
  intros Hwf Hok Hn Hf E. pose proof (habs_lt _ _ _ Hwf Hn) as Ha.
  destruct (h_merkle_post _ _ _ _ _ _ Hwf Ha Hf E) as (_ & _ & _ & Hr & _).
  destruct (Hr Hok) as [Hok' Hroot]. split; [now apply Hroot|exact Hok'].
Qed.

Lemma h_merkle_root_exact fuel h a n :
  heap_wf h -> memo_ok H h -> habs h a n -> (Pos.to_nat a <= fuel)%nat ->
  exists h' c, h_merkle H fuel h a = OK (root_of H n, h', c) /\ memo_ok H h'.
Proof.
  intros Hwf Hok Hn Hf. pose proof (habs_lt _ _ _ Hwf Hn) as Ha.
  destruct (h_merkle_total fuel h a Hwf Ha Hf) as (r & h' & c & E).
  destruct (h_merkle_root _ _ _ _ _ _ _ Hwf Hok Hn Hf E) as [-> Hok']. eauto.
Qed.

(* the root does not depend on which memos are present *)
Lemma h_merkle_request_independent f1 f2 h1 h2 a1 a2 n r1 r2 h1' h2' c1 c2 :
  heap_wf h1 -> heap_wf h2 -> memo_ok H h1 -> memo_ok H h2 ->
  habs h1 a1 n -> habs h2 a2 n ->
  (Pos.to_nat a1 <= f1)%nat -> (Pos.to_nat a2 <= f2)%nat ->
  h_merkle H f1 h1 a1 = OK (r1, h1', c1) -> h_merkle H f2 h2 a2 = OK (r2, h2', c2) ->
  r1 = r2.
Proof.
  intros W1 W2 O1 O2 A1 A2 F1 F2 E1 E2.
  destruct (h_merkle_root _ _ _ _ _ _ _ W1 O1 A1 F1 E1) as [-> _].
  destruct (h_merkle_root _ _ _ _ _ _ _ W2 O2 A2 F2 E2) as [-> _]. reflexivity.
Qed.

(* A(4) *)
Lemma h_merkle_memoised fuel h a r h' c :
  Hnz H -> heap_wf h -> memo_closed h -> (a < hp_next h)%positive -> (Pos.to_nat a <= fuel)%nat ->
  h_merkle H fuel h a = OK (r, h', c) -> memoised h' a /\ memo_closed h'.
Proof.
  intros Hz Hwf Hcl Ha Hf E.
  destruct (h_merkle_post _ _ _ _ _ _ Hwf Ha Hf E) as (_ & _ & _ & _ & Hm & _). now apply Hm.
Qed.

(* A(5) *)
Lemma h_merkle_count_wcount fuel h a r h' c n :
  heap_wf h -> (a < hp_next h)%positive -> (Pos.to_nat a <= fuel)%nat ->
  h_merkle H fuel h a = OK (r, h', c) -> wcount h a n -> c <= N.of_nat n.
Proof.
  intros Hwf Ha Hf E Wn.
  destruct (h_merkle_post _ _ _ _ _ _ Hwf Ha Hf E) as (_ & _ & _ & _ & _ & (n0 & W0 & L) & _).
  now rewrite (wcount_fun _ _ _ Wn _ W0).
Qed.

Lemma h_merkle_count_written fuel h a r h' c :
  Hnz H -> heap_wf h -> (a < hp_next h)%positive -> (Pos.to_nat a <= fuel)%nat ->
  h_merkle H fuel h a = OK (r, h', c) ->
  exists L, NoDup L /\ N.of_nat (length L) = c /\
    (forall b, In b L -> reach h a b /\ unset_pair h b /\ set_pair h' b) /\
    (forall b, ~ In b L -> h_cell h' b = h_cell h b).
Proof.
  intros Hz Hwf Ha Hf E.
  destruct (h_merkle_post _ _ _ _ _ _ Hwf Ha Hf E) as (_ & _ & _ & _ & _ & _ & Hw). now apply Hw.
Qed.

(* hence: c is at most the size of ANY duplicate-free enumeration of the unset pairs below a *)
Lemma h_merkle_count_distinct fuel h a r h' c U :
  Hnz H -> heap_wf h -> (a < hp_next h)%positive -> (Pos.to_nat a <= fuel)%nat ->
  h_merkle H fuel h a = OK (r, h', c) ->
  (forall b, reach h a b -> unset_pair h b -> In b U) ->
  c <= N.of_nat (length U).
Proof.
  intros Hz Hwf Ha Hf E HU.
  destruct (h_merkle_count_written _ _ _ _ _ _ Hz Hwf Ha Hf E) as (L & ND & <- & HL & _).
  assert (Hincl : incl L U) by (intros b Hb; destruct (HL _ Hb) as (Rb & Ub & _); auto).
  pose proof (NoDup_incl_length ND Hincl). lia.
Qed.

(* C07, first half: a second request hashes nothing (needs Hnz; no other hypothesis) *)
Lemma h_merkle_second_free fuel h a r h1 c :
  Hnz H -> h_merkle H fuel h a = OK (r, h1, c) ->
  forall fuel', h_merkle H (S fuel') h1 a = OK (r, h1, 0).
Proof.
  intros Hz E fuel'. destruct fuel as [|f]; [discriminate|].
  rewrite h_merkle_S in E. rewrite h_merkle_S.
  destruct (h_cell h a) as [[x|memo l r0]|] eqn:Hc; [| |discriminate].
  - injection E as <- <- <-. now rewrite Hc.
  - destruct (negb (chunk_eqb memo zero_chunk)) eqn:Em.
    + injection E as <- <- <-. now rewrite Hc, Em.
    + destruct (h_merkle H f h l) as [[[rl h2] c1]| |]; cbn [bind] in E; try discriminate.
      destruct (h_merkle H f h2 r0) as [[[rr h3] c2]| |]; cbn [bind] in E; try discriminate.
      injection E as <- <- <-. rewrite h_put_same.
      assert (Hv : chunk_eqb (H rl rr) zero_chunk = false) by (apply chunk_eqb_false; apply Hz).
      now rewrite Hv.
Qed.

Lemma h_merkle_memoised_free fuel h a :
  memoised h a -> exists r, h_merkle H (S fuel) h a = OK (r, h, 0).
Proof.
  intros Hm. rewrite h_merkle_S. inversion Hm as [a0 c Hc|a0 m l r Hc Hz Hl Hr]; subst; rewrite Hc.
  - eauto.
  - apply chunk_eqb_false in Hz. rewrite Hz. simpl. eauto.
Qed.

End MerkleCor.

(* ------------------------------------------------------------------------------------- *)
(* 4. allocation and path copying: cells are only added, and added pairs have no memo     *)
(* ------------------------------------------------------------------------------------- *)

(* [heap_grow h h']: h' = h plus new cells; every new pair cell has an unset memo.
   (What NewPairNode / the Setter do.) *)
Definition heap_grow (h h' : heap) : Prop :=
  heap_ext h h' /\
  forall a m l r, h_cell h a = None -> h_cell h' a = Some (CPair m l r) -> m = zero_chunk.

Lemma heap_grow_refl h : heap_grow h h.
Proof. split; [apply heap_ext_refl|]. intros a m l r Hn Hs. rewrite Hn in Hs. discriminate. Qed.

Lemma heap_grow_trans h1 h2 h3 : heap_grow h1 h2 -> heap_grow h2 h3 -> heap_grow h1 h3.
Proof.
  intros [E1 N1] [E2 N2]. split; [eapply heap_ext_trans; eauto|].
  intros a m l r Hn Hs. destruct (h_cell h2 a) as [c|] eqn:Hc2.
  - destruct E2 as [A2 _]. rewrite (A2 _ _ Hc2) in Hs. injection Hs as ->. eapply N1; eauto.
  - eapply N2; eauto.
Qed.

Lemma h_alloc_grow h c :
  heap_fresh h -> (forall m l r, c = CPair m l r -> m = zero_chunk) ->
  heap_grow h (snd (h_alloc h c)).
Proof.
  intros Hf Hc. split; [now apply h_alloc_ext|].
  intros a m l r Hn Hs. destruct (Pos.eq_dec a (hp_next h)) as [->|Hne].
  - rewrite h_alloc_new in Hs. injection Hs as ->. eapply Hc; eauto.
  - rewrite h_alloc_old in Hs by exact Hne. rewrite Hn in Hs. discriminate.
Qed.

Lemma h_set_path_grow zh p : forall h a e v a' h',
  heap_fresh h -> h_set_path zh h a p e v = OK (a', h') -> heap_grow h h'.
Proof.
  induction p as [|b p IH]; intros h a e v a' h' Hf Hs.
  - simpl in Hs. injection Hs as <- <-. apply heap_grow_refl.
  - rewrite h_set_path_cons in Hs.
    destruct (h_step_children zh h a (length p) e) as [[l r]| |]; cbn [bind] in Hs; try discriminate.
    destruct b.
    + destruct (h_set_path zh h r p e v) as [[r' h1]| |] eqn:Er; cbn [bind] in Hs; try discriminate.
      destruct (h_set_path_ext zh _ _ _ _ _ _ _ Hf Er) as [_ Hf1].
      rewrite h_pair_eq in Hs. injection Hs as <- <-.
      eapply heap_grow_trans; [exact (IH _ _ _ _ _ _ Hf Er)|].
      apply h_alloc_grow; [exact Hf1|]. intros m l0 r0 E. now injection E as <-.
    + destruct (h_set_path zh h l p e v) as [[l' h1]| |] eqn:El; cbn [bind] in Hs; try discriminate.
      destruct (h_set_path_ext zh _ _ _ _ _ _ _ Hf El) as [_ Hf1].
      rewrite h_pair_eq in Hs. injection Hs as <- <-.
      eapply heap_grow_trans; [exact (IH _ _ _ _ _ _ Hf El)|].
      apply h_alloc_grow; [exact Hf1|]. intros m l0 r0 E. now injection E as <-.
Qed.

Lemma heap_grow_memo_ok H h h' : heap_wf h -> heap_grow h h' -> memo_ok H h -> memo_ok H h'.
Proof.
  intros Hwf [He Hn] Hok a m l r n Hc Hm Ha.
  destruct (h_cell h a) as [c|] eqn:Hc0.
  - pose proof He as [A _]. rewrite (A _ _ Hc0) in Hc. injection Hc as ->.
    eapply Hok; eauto. eapply habs_ext_memo_inv; eauto using heap_ext_ext_memo.
    eapply heap_wf_lt; eauto.
  - contradiction Hm. eapply Hn; eauto.
Qed.

Lemma heap_grow_memo_closed h h' : heap_grow h h' -> memo_closed h -> memo_closed h'.
Proof.
  intros [He Hn] Hcl a m l r Hc Hm.
  destruct (h_cell h a) as [c|] eqn:Hc0.
  - pose proof He as [A _]. rewrite (A _ _ Hc0) in Hc. injection Hc as ->.
    destruct (Hcl _ _ _ _ Hc0 Hm). split; eapply memoised_ext_memo; eauto using heap_ext_ext_memo.
  - contradiction Hm. eapply Hn; eauto.
Qed.

Lemma h_get_path_lt h p : forall a b,
  heap_wf h -> (a < hp_next h)%positive -> h_get_path h a p = OK b -> (b < hp_next h)%positive.
Proof.
  induction p as [|d p IH]; intros a b Hwf Ha Hg; simpl in Hg.
  - now injection Hg as <-.
  - destruct (h_cell h a) as [[c|memo l r]|] eqn:Hc; try discriminate.
    pose proof Hwf as (_ & _ & Hch). destruct (Hch _ _ _ _ Hc). eapply IH; [exact Hwf| |exact Hg].
    destruct d; lia.
Qed.

(* ------------------------------------------------------------------------------------- *)
(* 5. the view machine, generically over the node store: store invariant, and which        *)
(*    handles a step may rebind                                                            *)
(* ------------------------------------------------------------------------------------- *)

(* handle k is j or one of j's (transitive) hook parents *)
Inductive on_chain {T : Type} (hs : list (handle T)) : nat -> nat -> Prop :=
| chain_self j : on_chain hs j j
| chain_up j x p i k : nth_error hs j = Some x -> h_hook T x = Some (p, i) -> on_chain hs p k ->
    on_chain hs j k.

Definition hooks_wf {T : Type} (hs : list (handle T)) : Prop :=
  forall k x p i, nth_error hs k = Some x -> h_hook T x = Some (p, i) -> (p < k)%nat.

(* the handle list only grows; type and hook of a handle never change *)
Definition handles_le {T : Type} (hs hs' : list (handle T)) : Prop :=
  (length hs <= length hs')%nat /\
  forall k x, nth_error hs k = Some x ->
    exists x', nth_error hs' k = Some x' /\ h_ty T x' = h_ty T x /\ h_hook T x' = h_hook T x.

Definition op_target (o : op) : nat :=
  match o with
  | OGet h _ | OUValue h | OCopy h | OSet h _ _ | OAppend h _ | OPop h | OChange h _ _ => h
  end.

Lemma nth_error_list_set_same {A} (l : list A) : forall i x, (i < length l)%nat ->
  nth_error (list_set l i x) i = Some x.
Proof.
  induction l as [|y l IH]; intros i x Hi; simpl in Hi; [lia|].
  destruct i; simpl; [reflexivity|]. apply IH. lia.
Qed.

Lemma nth_error_list_set_other {A} (l : list A) : forall i x j, j <> i ->
  nth_error (list_set l i x) j = nth_error l j.
Proof.
  induction l as [|y l IH]; intros i x j Hne; simpl; [reflexivity|].
  destruct i; destruct j; simpl; try reflexivity; [contradiction|]. apply IH. congruence.
Qed.

Lemma list_set_len {A} (l : list A) : forall i x, length (list_set l i x) = length l.
Proof. induction l as [|y l IH]; intros [|i] x; simpl; auto. Qed.

Lemma handles_le_refl {T} (hs : list (handle T)) : handles_le hs hs.
Proof. split; [lia|]. intros k x Hx. eauto. Qed.

Lemma handles_le_trans {T} (a b c : list (handle T)) :
  handles_le a b -> handles_le b c -> handles_le a c.
Proof.
  intros [L1 A1] [L2 A2]. split; [lia|]. intros k x Hx.
  destruct (A1 _ _ Hx) as (x1 & Hx1 & T1 & K1). destruct (A2 _ _ Hx1) as (x2 & Hx2 & T2 & K2).
  exists x2. split; [exact Hx2|]. split; congruence.
Qed.

Lemma handles_le_app {T} (hs : list (handle T)) x : handles_le hs (hs ++ [x]).
Proof.
  split; [rewrite app_length; lia|]. intros k y Hy. exists y. split; [|auto].
  rewrite nth_error_app1; [exact Hy|]. apply nth_error_Some. congruence.
Qed.

Lemma on_chain_le {T} (hs hs' : list (handle T)) j k :
  handles_le hs hs' -> on_chain hs j k -> on_chain hs' j k.
Proof.
  intros [_ A]. induction 1 as [j|j x p i k Hx Hh Hc IH].
  - apply chain_self.
  - destruct (A _ _ Hx) as (x' & Hx' & _ & Hk).
    eapply chain_up; [exact Hx'|rewrite Hk; exact Hh|exact IH].
Qed.

(* the converse, for handles that already existed *)
Lemma on_chain_le_inv {T} (hs hs' : list (handle T)) j k :
  handles_le hs hs' -> hooks_wf hs' -> (j < length hs)%nat -> on_chain hs' j k -> on_chain hs j k.
Proof.
  intros [L A] Hw Hj Hc. revert Hj. induction Hc as [j|j x' p i k Hx' Hh Hc IH]; intros Hj.
  - apply chain_self.
  - destruct (nth_error hs j) as [x|] eqn:Hx; [|apply nth_error_None in Hx; lia].
    destruct (A _ _ Hx) as (x2 & Hx2 & _ & Hk). rewrite Hx' in Hx2. injection Hx2 as <-.
    pose proof (Hw _ _ _ _ Hx' Hh) as Hlt.
    eapply chain_up; [exact Hx|rewrite <- Hk; exact Hh|]. apply IH. lia.
Qed.

Lemma on_chain_trans {T} (hs : list (handle T)) j m k :
  on_chain hs j m -> on_chain hs m k -> on_chain hs j k.
Proof.
  induction 1 as [j|j x p i m Hx Hh Hc IH]; intros Hmk; [exact Hmk|].
  eapply chain_up; eauto.
Qed.

(* with well-founded hooks, parents are older *)
Lemma on_chain_le_idx {T} (hs : list (handle T)) j k :
  hooks_wf hs -> on_chain hs j k -> (k <= j)%nat.
Proof.
  intros Hw. induction 1 as [j|j x p i k Hx Hh Hc IH]; [lia|].
  pose proof (Hw _ _ _ _ Hx Hh). lia.
Qed.

(* a handle without a hook (a copy, a union value) ends every chain that passes through it *)
Lemma on_chain_stops {T} (hs : list (handle T)) j k m x :
  nth_error hs k = Some x -> h_hook T x = None ->
  on_chain hs j k -> on_chain hs j m -> on_chain hs m k.
Proof.
  intros Hx Hn Hjk. revert m. induction Hjk as [j|j y p i k Hy Hh Hc IH]; intros m Hjm.
  - inversion Hjm as [|j0 y p i k0 Hy Hh Hc]; subst; [apply chain_self|].
    rewrite Hx in Hy. injection Hy as <-. congruence.
  - inversion Hjm as [|j0 y' p' i' k0 Hy' Hh' Hc']; subst.
    + eapply chain_up; eauto.
    + rewrite Hy in Hy'. injection Hy' as <-. rewrite Hh in Hh'. injection Hh' as <- <-.
      now apply IH.
Qed.

Lemma hooks_wf_app {T} (hs : list (handle T)) x :
  hooks_wf hs -> (forall p i, h_hook T x = Some (p, i) -> (p < length hs)%nat) ->
  hooks_wf (hs ++ [x]).
Proof.
  intros Hw Hx k y p i Hy Hh. destruct (Compare_dec.lt_dec k (length hs)) as [Hlt|Hge].
  - rewrite nth_error_app1 in Hy by exact Hlt. eapply Hw; eauto.
  - rewrite nth_error_app2 in Hy by lia. destruct (k - length hs)%nat as [|d] eqn:Ed.
    + simpl in Hy. injection Hy as <-. pose proof (Hx _ _ Hh). lia.
    + simpl in Hy. destruct d; discriminate.
Qed.

Section Generic.
Variable T St : Type.
Variable s_get : St -> T -> N -> res T.
Variable s_set : St -> T -> N -> bool -> T -> res (T * St).
Variable s_leaf : St -> chunk -> T * St.
Variable s_pair : St -> T -> T -> T * St.
Variable s_chunk : St -> T -> res chunk.
Variable s_zero : nat -> T.
Variable s_true : T.
Variable zh : nat -> chunk.

Local Notation Mlength := (m_length T St s_get s_chunk).
Local Notation Mcheck := (m_check_index T St s_get s_chunk).
Local Notation Mgetn := (m_get_node T St s_get).
Local Notation Msetn := (m_set_node T St s_set).
Local Notation Msetlen := (m_set_length T St s_set s_leaf).
Local Notation Mpset := (m_packed_set T St s_get s_set s_leaf s_chunk).
Local Notation Mbapp := (m_basic_append T St s_get s_set s_leaf s_chunk zh).
Local Notation Mbpop := (m_basic_pop T St s_get s_set s_leaf s_chunk zh).
Local Notation Mbitset := (m_bit_set T St s_get s_set s_leaf s_chunk).
Local Notation Mbitapp := (m_bit_append T St s_get s_set s_leaf s_chunk zh).
Local Notation Mbitpop := (m_bit_pop T St s_get s_set s_leaf s_chunk).
Local Notation Mcapp := (m_complex_append T St s_get s_set s_leaf s_chunk).
Local Notation Mcpop := (m_complex_pop T St s_get s_set s_leaf s_chunk s_zero).
Local Notation Mslot := (m_slot_set T St s_get s_set s_chunk).
Local Notation Alloc := (alloc_node T St s_leaf s_pair).
Local Notation SetB := (set_backing T St s_get s_set s_chunk).
Local Notation Resolve := (resolve_src T St s_leaf s_pair s_zero s_true zh).
Local Notation Mutate := (mutate T St s_get s_set s_leaf s_pair s_chunk s_zero s_true zh).
Local Notation Step := (step T St s_get s_set s_leaf s_pair s_chunk s_zero s_true zh).
Local Notation Hdl st := (m_handles T St st).
Local Notation Sto st := (m_store T St st).

(* ---- 5a. which handles can a step rebind?  (no hypothesis on the store) ---- *)

Lemma put_back_handles st h b s :
  handles_le (Hdl st) (Hdl (put_back T St st h b s)) /\
  handles_le (Hdl (put_back T St st h b s)) (Hdl st) /\
  (forall k, k <> h -> nth_error (Hdl (put_back T St st h b s)) k = nth_error (Hdl st) k) /\
  Sto (put_back T St st h b s) = s.
Proof.
  unfold put_back. destruct (nth_error (Hdl st) h) as [x|] eqn:Hx; simpl.
  2:{ split; [apply handles_le_refl|]. split; [apply handles_le_refl|]. auto. }
  assert (Hh : (h < length (Hdl st))%nat) by (apply nth_error_Some; congruence).
  split; [|split; [|split]].
  - split; [rewrite list_set_len; lia|]. intros k y Hy.
    destruct (PeanoNat.Nat.eq_dec k h) as [->|Hne].
    + rewrite nth_error_list_set_same by exact Hh. rewrite Hx in Hy. injection Hy as <-.
      eexists. split; [reflexivity|]. simpl. auto.
    + rewrite nth_error_list_set_other by exact Hne. eauto.
  - split; [rewrite list_set_len; lia|]. intros k y Hy.
    destruct (PeanoNat.Nat.eq_dec k h) as [->|Hne].
    + rewrite nth_error_list_set_same in Hy by exact Hh. injection Hy as <-.
      exists x. split; [exact Hx|]. simpl. auto.
    + rewrite nth_error_list_set_other in Hy by exact Hne. eauto.
  - intros k Hne. now apply nth_error_list_set_other.
  - reflexivity.
Qed.

Lemma set_backing_local fuel : forall st h b s st' r,
  SetB fuel st h b s = (st', r) ->
  handles_le (Hdl st) (Hdl st') /\ handles_le (Hdl st') (Hdl st) /\
  forall k, ~ on_chain (Hdl st) h k -> nth_error (Hdl st') k = nth_error (Hdl st) k.
Proof.
  induction fuel as [|f IH]; intros st h b s st' r Hs.
  - simpl in Hs. injection Hs as <- _.
    destruct (put_back_handles st h b s) as (L1 & L2 & Ho & _).
    split; [exact L1|]. split; [exact L2|]. intros k Hk. apply Ho. intros ->. apply Hk, chain_self.
  - cbn [set_backing] in Hs.
    destruct (put_back_handles st h b s) as (L1 & L2 & Ho & _).
    set (st1 := put_back T St st h b s) in *.
    assert (Hbase : handles_le (Hdl st) (Hdl st1) /\ handles_le (Hdl st1) (Hdl st) /\
                    forall k, ~ on_chain (Hdl st) h k -> nth_error (Hdl st1) k = nth_error (Hdl st) k).
    { split; [exact L1|]. split; [exact L2|]. intros k Hk. apply Ho. intros ->. apply Hk, chain_self. }
    destruct (nth_error (Hdl st1) h) as [x|] eqn:Hx; [|injection Hs as <- _; exact Hbase].
    destruct (h_hook T x) as [[p i]|] eqn:Hh; [|injection Hs as <- _; exact Hbase].
    destruct (nth_error (Hdl st1) p) as [px|] eqn:Hp; [|injection Hs as <- _; exact Hbase].
    destruct (Mslot (h_ty T px) (Sto st1) (h_back T px) i b) as [[pb s']| |];
      [|injection Hs as <- _; exact Hbase|injection Hs as <- _; exact Hbase].
    destruct (IH _ _ _ _ _ _ Hs) as (M1 & M2 & Mo).
    split; [eapply handles_le_trans; eauto|]. split; [eapply handles_le_trans; eauto|].
    intros k Hk. rewrite Mo.
    + apply Ho. intros ->. apply Hk, chain_self.
    + intros Hc. apply Hk. pose proof L2 as [_ A2]. destruct (A2 _ _ Hx) as (x0 & Hx0 & _ & Hk0).
      eapply chain_up; [exact Hx0|rewrite Hk0; exact Hh|]. eapply on_chain_le; [|exact Hc].
      exact L2.
Qed.

Lemma hooks_wf_le (hs hs' : list (handle T)) :
  handles_le hs' hs -> hooks_wf hs -> hooks_wf hs'.
Proof.
  intros [_ A] Hw k x p i Hx Hh. destruct (A _ _ Hx) as (x' & Hx' & _ & Hk).
  eapply Hw; [exact Hx'|rewrite Hk; exact Hh].
Qed.

(* every step: the handle list grows, types/hooks are fixed, hooks stay well-founded, and the
   backing of a handle that is not on the hook chain of the target is untouched *)
Lemma step_local st o st' r :
  Step st o = (st', r) ->
  handles_le (Hdl st) (Hdl st') /\
  (hooks_wf (Hdl st) -> hooks_wf (Hdl st')) /\
  (forall k x, nth_error (Hdl st) k = Some x -> ~ on_chain (Hdl st) (op_target o) k ->
               nth_error (Hdl st') k = Some x).
Proof.
  assert (Hid : handles_le (Hdl st) (Hdl st) /\ (hooks_wf (Hdl st) -> hooks_wf (Hdl st)) /\
                (forall k x, nth_error (Hdl st) k = Some x -> ~ on_chain (Hdl st) (op_target o) k ->
                             nth_error (Hdl st) k = Some x)).
  { split; [apply handles_le_refl|]. split; auto. }
  assert (Hpush : forall x, (forall p i, h_hook T x = Some (p, i) -> (p < length (Hdl st))%nat) ->
            handles_le (Hdl st) (Hdl st ++ [x]) /\ (hooks_wf (Hdl st) -> hooks_wf (Hdl st ++ [x])) /\
            (forall k y, nth_error (Hdl st) k = Some y -> ~ on_chain (Hdl st) (op_target o) k ->
                         nth_error (Hdl st ++ [x]) k = Some y)).
  { intros x Hx. split; [apply handles_le_app|]. split; [intros Hw; now apply hooks_wf_app|].
    intros k y Hy _. rewrite nth_error_app1; [exact Hy|]. apply nth_error_Some. congruence. }
  assert (Hmut : forall h x, op_target o = h -> get_handle T St st h = OK x ->
     (let '(st1, r0) :=
        match Mutate st x o with
        | OK (b, s') =>
          let '(st1, r) := SetB (hook_fuel T St st) st h b s' in
          (st1, match r with OK _ => OK MUnit | Err => Err | Panic => Panic end)
        | Err => (st, Err)
        | Panic => (st, Panic)
        end in (st1, r0)) = (st', r) ->
     handles_le (Hdl st) (Hdl st') /\ (hooks_wf (Hdl st) -> hooks_wf (Hdl st')) /\
     (forall k y, nth_error (Hdl st) k = Some y -> ~ on_chain (Hdl st) (op_target o) k ->
                  nth_error (Hdl st') k = Some y)).
  { intros h x Ht Hg Hs.
    destruct (Mutate st x o) as [[b s']| |]; [|injection Hs as <- _; exact Hid|injection Hs as <- _; exact Hid].
    destruct (SetB (hook_fuel T St st) st h b s') as [st1 r1] eqn:Esb. injection Hs as <- _.
    destruct (set_backing_local _ _ _ _ _ _ _ Esb) as (L1 & L2 & Ho).
    split; [exact L1|]. split; [intros Hw; eapply hooks_wf_le; eauto|].
    intros k y Hy Hk. rewrite Ho; [exact Hy|]. now rewrite <- Ht. }
  unfold step. intros Hs.
  destruct o as [h i|h|h|h i v|h v|h|h sel v]; simpl op_target in *.
  - (* OGet *)
    destruct (get_handle T St st h) as [x| |] eqn:Hg; [|injection Hs as <- _; exact Hid|injection Hs as <- _; exact Hid].
    match type of Hs with (match ?e with Some _ => _ | None => _ end) = _ =>
      destruct e as [e0|]; [|injection Hs as <- _; exact Hid] end.
    destruct (Mgetn (h_ty T x) (Sto st) (h_back T x) i) as [c| |];
      [|injection Hs as <- _; exact Hid|injection Hs as <- _; exact Hid].
    unfold push_handle in Hs. injection Hs as <- _. simpl. apply Hpush.
    intros p j Hp. simpl in Hp. injection Hp as <- _.
    unfold get_handle in Hg. destruct (nth_error (Hdl st) h) eqn:Hn; [|discriminate].
    apply nth_error_Some. congruence.
  - (* OUValue *)
    destruct (get_handle T St st h) as [x| |] eqn:Hg; [|injection Hs as <- _; exact Hid|injection Hs as <- _; exact Hid].
    destruct (h_ty T x); try (injection Hs as <- _; exact Hid).
    match type of Hs with (match ?e with OK _ => _ | Err => _ | Panic => _ end) = _ =>
      destruct e as [[[o1|] c]| |]; try (injection Hs as <- _; exact Hid) end.
    unfold push_handle in Hs. injection Hs as <- _. simpl. apply Hpush.
    intros p j Hp. discriminate.
  - (* OCopy *)
    destruct (get_handle T St st h) as [x| |] eqn:Hg; [|injection Hs as <- _; exact Hid|injection Hs as <- _; exact Hid].
    unfold push_handle in Hs. injection Hs as <- _. simpl. apply Hpush.
    intros p j Hp. discriminate.
  - destruct (get_handle T St st h) as [x| |] eqn:Hg; [|injection Hs as <- _; exact Hid|injection Hs as <- _; exact Hid].
    eapply (Hmut h x eq_refl Hg).
    destruct (Mutate st x (OSet h i v)) as [[b s']| |]; [|exact Hs|exact Hs].
    destruct (SetB (hook_fuel T St st) st h b s'). exact Hs.
  - destruct (get_handle T St st h) as [x| |] eqn:Hg; [|injection Hs as <- _; exact Hid|injection Hs as <- _; exact Hid].
    eapply (Hmut h x eq_refl Hg).
    destruct (Mutate st x (OAppend h v)) as [[b s']| |]; [|exact Hs|exact Hs].
    destruct (SetB (hook_fuel T St st) st h b s'). exact Hs.
  - destruct (get_handle T St st h) as [x| |] eqn:Hg; [|injection Hs as <- _; exact Hid|injection Hs as <- _; exact Hid].
    eapply (Hmut h x eq_refl Hg).
    destruct (Mutate st x (OPop h)) as [[b s']| |]; [|exact Hs|exact Hs].
    destruct (SetB (hook_fuel T St st) st h b s'). exact Hs.
  - destruct (get_handle T St st h) as [x| |] eqn:Hg; [|injection Hs as <- _; exact Hid|injection Hs as <- _; exact Hid].
    eapply (Hmut h x eq_refl Hg).
    destruct (Mutate st x (OChange h sel v)) as [[b s']| |]; [|exact Hs|exact Hs].
    destruct (SetB (hook_fuel T St st) st h b s'). exact Hs.
Qed.

(* ---- 5b. store invariants: given a store whose primitives respect an invariant [Inv], a
        validity predicate on references and a preorder [R] on stores, every step does ---- *)

Variable Inv : St -> Prop.
Variable valid : St -> T -> Prop.
Variable R : St -> St -> Prop.
Definition good (s : St) (r : T * St) : Prop := Inv (snd r) /\ R s (snd r) /\ valid (snd r) (fst r).

Hypothesis R_refl : forall s, R s s.
Hypothesis R_trans : forall a b c, R a b -> R b c -> R a c.
Hypothesis valid_mono : forall s s' t, Inv s -> Inv s' -> R s s' -> valid s t -> valid s' t.
Hypothesis leaf_ok : forall s c, Inv s -> good s (s_leaf s c).
Hypothesis pair_ok : forall s l r, Inv s -> valid s l -> valid s r -> good s (s_pair s l r).
Hypothesis set_ok : forall s a g e v r, Inv s -> valid s a -> valid s v ->
  s_set s a g e v = OK r -> good s r.
Hypothesis get_ok : forall s a g t, Inv s -> valid s a -> s_get s a g = OK t -> valid s t.
Hypothesis zero_ok : forall s, Inv s -> valid s (s_zero 0).
Hypothesis true_ok : forall s, Inv s -> valid s s_true.

Lemma good_trans s s1 r : R s s1 -> good s1 r -> good s r.
Proof. intros HR (A & B & C). split; [exact A|]. split; [eapply R_trans; eauto|exact C]. Qed.

Lemma good_refl s t : Inv s -> valid s t -> good s (t, s).
Proof. intros HI HV. split; [exact HI|]. split; [apply R_refl|exact HV]. Qed.

Ltac dbind Hs :=
  match type of Hs with
  | bind ?x _ = OK _ =>
    let E := fresh "E" in destruct x eqn:E; cbn [bind] in Hs; [|discriminate Hs|discriminate Hs]
  end.

Lemma m_get_node_valid t s a i c : Inv s -> valid s a -> Mgetn t s a i = OK c -> valid s c.
Proof. unfold m_get_node. intros HI HV Hs. dbind Hs. exact (get_ok _ _ _ _ HI HV Hs). Qed.

Lemma m_set_node_good t s a i v r :
  Inv s -> valid s a -> valid s v -> Msetn t s a i v = OK r -> good s r.
Proof. unfold m_set_node. intros HI HA HV Hs. dbind Hs. exact (set_ok _ _ _ _ _ _ HI HA HV Hs). Qed.

Lemma m_set_length_good s a len r : Inv s -> valid s a -> Msetlen s a len = OK r -> good s r.
Proof.
  unfold m_set_length. intros HI HA Hs.
  pose proof (leaf_ok s (pad32 (le_bytes 8 len)) HI) as (I1 & R1 & V1).
  destruct (s_leaf s (pad32 (le_bytes 8 len))) as [l s1]. simpl in *.
  eapply good_trans; [exact R1|].
  exact (set_ok _ _ _ _ _ _ I1 (valid_mono _ _ _ HI I1 R1 HA) V1 Hs).
Qed.

(* leaf allocation followed by a continuation on the new store *)
Lemma leaf_then s c a (k : T -> St -> res (T * St)) r :
  Inv s -> valid s a ->
  (forall l s1, Inv s1 -> valid s1 a -> valid s1 l -> k l s1 = OK r -> good s1 r) ->
  (let '(l, s1) := s_leaf s c in k l s1) = OK r -> good s r.
Proof.
  intros HI HA Hk Hs. pose proof (leaf_ok s c HI) as (I1 & R1 & V1).
  destruct (s_leaf s c) as [l s1]. simpl in *.
  eapply good_trans; [exact R1|]. eapply Hk; eauto.
Qed.

(* s_set followed by m_set_length *)
Lemma set_then_length s a g e v len r :
  Inv s -> valid s a -> valid s v ->
  (do x <- s_set s a g e v; let '(a1, s2) := x in Msetlen s2 a1 len) = OK r -> good s r.
Proof.
  intros HI HA HV Hs. dbind Hs. destruct a0 as [a1 s2].
  destruct (set_ok _ _ _ _ _ _ HI HA HV E) as (I2 & R2 & V2). simpl in *.
  eapply good_trans; [exact R2|]. eapply m_set_length_good; eauto.
Qed.

Lemma m_packed_set_good t e s a i v r :
  Inv s -> valid s a -> Mpset t e s a i v = OK r -> good s r.
Proof.
  unfold m_packed_set. intros HI HA Hs. dbind Hs. dbind Hs. dbind Hs.
  eapply leaf_then; [exact HI|exact HA| |exact Hs].
  intros l s1 I1 A1 L1 Hk. cbv beta in Hk. eapply m_set_node_good; [exact I1|exact A1|exact L1|exact Hk].
Qed.

Lemma m_basic_append_good t e limit s a v r :
  Inv s -> valid s a -> Mbapp t e limit s a v = OK r -> good s r.
Proof.
  unfold m_basic_append. intros HI HA Hs. dbind Hs.
  destruct (limit <=? a0); [discriminate|]. dbind Hs. dbind Hs.
  eapply leaf_then; [exact HI|exact HA| |exact Hs].
  intros l s1 I1 A1 L1 Hk. cbv beta in Hk. eapply set_then_length; [exact I1|exact A1|exact L1|exact Hk].
Qed.

Lemma m_basic_pop_good t e limit s a r :
  Inv s -> valid s a -> Mbpop t e limit s a = OK r -> good s r.
Proof.
  unfold m_basic_pop. intros HI HA Hs. dbind Hs.
  destruct (a0 =? 0); [discriminate|]. dbind Hs. dbind Hs. dbind Hs. dbind Hs. dbind Hs.
  eapply leaf_then; [exact HI|exact HA| |exact Hs].
  intros l s1 I1 A1 L1 Hk. cbv beta in Hk. eapply set_then_length; [exact I1|exact A1|exact L1|exact Hk].
Qed.

Lemma m_bit_set_good t s a i b r :
  Inv s -> valid s a -> Mbitset t s a i b = OK r -> good s r.
Proof.
  unfold m_bit_set. intros HI HA Hs. dbind Hs. dbind Hs.
  eapply leaf_then; [exact HI|exact HA| |exact Hs].
  intros l s1 I1 A1 L1 Hk. cbv beta in Hk. eapply m_set_node_good; [exact I1|exact A1|exact L1|exact Hk].
Qed.

Lemma m_bit_append_good t limit s a b r :
  Inv s -> valid s a -> Mbitapp t limit s a b = OK r -> good s r.
Proof.
  unfold m_bit_append. intros HI HA Hs. dbind Hs.
  destruct (limit <=? a0); [discriminate|]. dbind Hs. dbind Hs.
  eapply leaf_then; [exact HI|exact HA| |exact Hs].
  intros l s1 I1 A1 L1 Hk. cbv beta in Hk. eapply set_then_length; [exact I1|exact A1|exact L1|exact Hk].
Qed.

Lemma m_bit_pop_good t limit s a r :
  Inv s -> valid s a -> Mbitpop t limit s a = OK r -> good s r.
Proof.
  unfold m_bit_pop. intros HI HA Hs. dbind Hs.
  destruct (a0 =? 0); [discriminate|]. dbind Hs. dbind Hs. dbind Hs.
  eapply leaf_then; [exact HI|exact HA| |exact Hs].
  intros l s1 I1 A1 L1 Hk. cbv beta in Hk. eapply set_then_length; [exact I1|exact A1|exact L1|exact Hk].
Qed.

Lemma m_complex_append_good t limit s a v r :
  Inv s -> valid s a -> valid s v -> Mcapp t limit s a v = OK r -> good s r.
Proof.
  unfold m_complex_append. intros HI HA HV Hs. dbind Hs.
  destruct (limit <=? a0); [discriminate|]. dbind Hs.
  eapply set_then_length; [exact HI|exact HA|exact HV|exact Hs].
Qed.

Lemma m_complex_pop_good t limit s a r :
  Inv s -> valid s a -> Mcpop t limit s a = OK r -> good s r.
Proof.
  unfold m_complex_pop. intros HI HA Hs. dbind Hs.
  destruct (a0 =? 0); [discriminate|]. dbind Hs.
  eapply set_then_length; [exact HI|exact HA|apply zero_ok; exact HI|exact Hs].
Qed.

Lemma m_slot_set_good t s a i v r :
  Inv s -> valid s a -> valid s v -> Mslot t s a i v = OK r -> good s r.
Proof.
  unfold m_slot_set. intros HI HA HV Hs. destruct t; try discriminate.
  - destruct (_ <=? i); [discriminate|]. eapply m_set_node_good; [exact HI|exact HA|exact HV|exact Hs].
  - dbind Hs. eapply m_set_node_good; [exact HI|exact HA|exact HV|exact Hs].
  - destruct (_ <=? i); [discriminate|]. eapply m_set_node_good; [exact HI|exact HA|exact HV|exact Hs].
Qed.

Lemma alloc_node_good n : forall s, Inv s -> good s (Alloc s n).
Proof.
  induction n as [c|l IHl r IHr]; intros s HI; simpl.
  - now apply leaf_ok.
  - destruct (IHl s HI) as (I1 & R1 & V1). destruct (Alloc s l) as [l' s1]. simpl in *.
    destruct (IHr s1 I1) as (I2 & R2 & V2). destruct (Alloc s1 r) as [r' s2]. simpl in *.
    eapply good_trans; [eapply R_trans; [exact R1|exact R2]|].
    apply pair_ok; [exact I2|exact (valid_mono _ _ _ I1 I2 R2 V1)|exact V2].
Qed.

(* machine invariant *)
Definition SInv (st : mstate T St) : Prop :=
  Inv (Sto st) /\ forall k x, nth_error (Hdl st) k = Some x -> valid (Sto st) (h_back T x).

Lemma resolve_src_good st x want r :
  SInv st -> Resolve st x want = OK r -> good (Sto st) r.
Proof.
  intros [HI HV] Hs. unfold resolve_src in Hs.
  assert (Halloc : forall t v, (do n <- from_val zh t v; OK (Alloc (Sto st) n)) = OK r -> good (Sto st) r).
  { intros t v Hd. dbind Hd. injection Hd as <-. now apply alloc_node_good. }
  destruct x as [t v|h|].
  - destruct t; try (eapply Halloc; exact Hs).
    destruct v; try (eapply Halloc; exact Hs).
    injection Hs as <-. apply good_refl; [exact HI|]. destruct b; auto.
  - dbind Hs. injection Hs as <-. apply good_refl; [exact HI|].
    unfold get_handle in E. destruct (nth_error (Hdl st) h) eqn:Hn; [|discriminate].
    injection E as <-. eapply HV; eauto.
  - injection Hs as <-. now apply leaf_ok.
Qed.

Lemma mutate_good st x o r :
  SInv st -> valid (Sto st) (h_back T x) -> Mutate st x o = OK r -> good (Sto st) r.
Proof.
  intros HS HA Hs. pose proof HS as [HI HV]. unfold mutate in Hs.
  assert (Hres : forall v want (k : T -> St -> res (T * St)),
            (forall b s1, Inv s1 -> valid s1 (h_back T x) -> valid s1 b -> k b s1 = OK r -> good s1 r) ->
            (do r0 <- Resolve st v want; let '(b, s1) := r0 in k b s1) = OK r -> good (Sto st) r).
  { intros v want k Hk Hd. dbind Hd. destruct a as [b s1].
    destruct (resolve_src_good _ _ _ _ HS E) as (I1 & R1 & V1). simpl in *.
    eapply good_trans; [exact R1|]. eapply Hk; eauto. }
  destruct o as [h i|h|h|h i v|h v|h|h sel v]; try discriminate.
  - (* OSet *)
    destruct (h_ty T x) eqn:Et; try discriminate.
    + destruct (_ <=? i); [discriminate|]. dbind Hs. eapply m_bit_set_good; [exact HI|exact HA|exact Hs].
    + dbind Hs. dbind Hs. eapply m_bit_set_good; [exact HI|exact HA|exact Hs].
    + destruct (is_basic_elem _).
      * destruct (_ <=? i); [discriminate|]. dbind Hs. eapply m_packed_set_good; [exact HI|exact HA|exact Hs].
      * eapply Hres; [|exact Hs]. intros b s1 I1 A1 B1 Hk. cbv beta in Hk. eapply m_slot_set_good; [exact I1|exact A1|exact B1|exact Hk].
    + destruct (is_basic_elem _).
      * dbind Hs. dbind Hs. eapply m_packed_set_good; [exact HI|exact HA|exact Hs].
      * eapply Hres; [|exact Hs]. intros b s1 I1 A1 B1 Hk. cbv beta in Hk. eapply m_slot_set_good; [exact I1|exact A1|exact B1|exact Hk].
    + eapply Hres; [|exact Hs]. intros b s1 I1 A1 B1 Hk. cbv beta in Hk. eapply m_slot_set_good; [exact I1|exact A1|exact B1|exact Hk].
  - (* OAppend *)
    destruct (h_ty T x) eqn:Et; try discriminate.
    + dbind Hs. eapply m_bit_append_good; [exact HI|exact HA|exact Hs].
    + destruct (is_basic_elem _).
      * dbind Hs. eapply m_basic_append_good; [exact HI|exact HA|exact Hs].
      * eapply Hres; [|exact Hs]. intros b s1 I1 A1 B1 Hk. cbv beta in Hk. eapply m_complex_append_good; [exact I1|exact A1|exact B1|exact Hk].
  - (* OPop *)
    destruct (h_ty T x) eqn:Et; try discriminate.
    + eapply m_bit_pop_good; [exact HI|exact HA|exact Hs].
    + destruct (is_basic_elem _).
      * eapply m_basic_pop_good; [exact HI|exact HA|exact Hs].
      * eapply m_complex_pop_good; [exact HI|exact HA|exact Hs].
  - (* OChange *)
    destruct (h_ty T x) eqn:Et; try discriminate.
    destruct (_ <=? sel); [discriminate|].
    assert (Hk : forall b s1, Inv s1 -> valid s1 (h_back T x) -> valid s1 b ->
               (let '(sl, s2) := s_leaf s1 (pad32 [byte_of_N sel]) in OK (s_pair s2 b sl)) = OK r ->
               good s1 r).
    { intros b s1 I1 A1 B1 Hk.
      pose proof (leaf_ok s1 (pad32 [byte_of_N sel]) I1) as (I2 & R2 & V2).
      destruct (s_leaf s1 (pad32 [byte_of_N sel])) as [sl s2]. simpl in *.
      injection Hk as <-. eapply good_trans; [exact R2|]. apply pair_ok; eauto. }
    destruct v as [t0 v0|h0|].
    + eapply Hres; [exact Hk|exact Hs].
    + eapply Hres; [exact Hk|exact Hs].
    + destruct (negb (sel =? 0)); [discriminate|]. eapply Hres; [exact Hk|exact Hs].
Qed.

Lemma SInv_put_back st h b s :
  SInv st -> Inv s -> R (Sto st) s -> valid s b -> SInv (put_back T St st h b s).
Proof.
  intros [HI HV] Is Rs Vb. unfold put_back.
  destruct (nth_error (Hdl st) h) as [x|] eqn:Hx; simpl.
  2:{ split; [exact Is|]. intros k y Hy. simpl in *. eapply valid_mono; eauto. }
  assert (Hh : (h < length (Hdl st))%nat) by (apply nth_error_Some; congruence).
  split; [exact Is|]. simpl. intros k y Hy.
  destruct (PeanoNat.Nat.eq_dec k h) as [->|Hne].
  - rewrite nth_error_list_set_same in Hy by exact Hh. injection Hy as <-. exact Vb.
  - rewrite nth_error_list_set_other in Hy by exact Hne. eapply valid_mono; eauto.
Qed.

Lemma set_backing_inv fuel : forall st h b s st' r,
  SInv st -> Inv s -> R (Sto st) s -> valid s b ->
  SetB fuel st h b s = (st', r) -> SInv st' /\ R (Sto st) (Sto st').
Proof.
  induction fuel as [|f IH]; intros st h b s st' r HS Is Rs Vb Hs.
  - simpl in Hs. injection Hs as <- _. split; [now apply SInv_put_back|].
    destruct (put_back_handles st h b s) as (_ & _ & _ & ->). exact Rs.
  - cbn [set_backing] in Hs.
    pose proof (SInv_put_back st h b s HS Is Rs Vb) as HS1.
    destruct (put_back_handles st h b s) as (_ & _ & _ & Est).
    set (st1 := put_back T St st h b s) in *.
    assert (Hbase : SInv st1 /\ R (Sto st) (Sto st1)) by (split; [exact HS1|rewrite Est; exact Rs]).
    destruct (nth_error (Hdl st1) h) as [x|] eqn:Hx; [|injection Hs as <- _; exact Hbase].
    destruct (h_hook T x) as [[p i]|] eqn:Hh; [|injection Hs as <- _; exact Hbase].
    destruct (nth_error (Hdl st1) p) as [px|] eqn:Hp; [|injection Hs as <- _; exact Hbase].
    destruct (Mslot (h_ty T px) (Sto st1) (h_back T px) i b) as [[pb s']| |] eqn:Em;
      [|injection Hs as <- _; exact Hbase|injection Hs as <- _; exact Hbase].
    pose proof HS1 as [I1 V1].
    assert (Vb1 : valid (Sto st1) b) by (rewrite Est; exact Vb).
    destruct (m_slot_set_good _ _ _ _ _ _ I1 (V1 _ _ Hp) Vb1 Em) as (I2 & R2 & V2). simpl in *.
    destruct (IH _ _ _ _ _ _ HS1 I2 R2 V2 Hs) as [HS' R'].
    split; [exact HS'|]. eapply R_trans; [|exact R']. rewrite Est. exact Rs.
Qed.

Lemma SInv_push st x : SInv st -> valid (Sto st) (h_back T x) ->
  SInv (mkM T St (Sto st) (Hdl st ++ [x])).
Proof.
  intros [HI HV] Vx. split; [exact HI|]. simpl. intros k y Hy.
  destruct (Compare_dec.lt_dec k (length (Hdl st))) as [Hlt|Hge].
  - rewrite nth_error_app1 in Hy by exact Hlt. eapply HV; eauto.
  - rewrite nth_error_app2 in Hy by lia. destruct (k - length (Hdl st))%nat as [|d].
    + simpl in Hy. injection Hy as <-. exact Vx.
    + simpl in Hy. destruct d; discriminate.
Qed.

Lemma get_handle_valid st h x : SInv st -> get_handle T St st h = OK x -> valid (Sto st) (h_back T x).
Proof.
  intros [_ HV] Hg. unfold get_handle in Hg. destruct (nth_error (Hdl st) h) eqn:Hn; [|discriminate].
  injection Hg as <-. eapply HV; eauto.
Qed.

Theorem step_inv st o st' r :
  SInv st -> Step st o = (st', r) -> SInv st' /\ R (Sto st) (Sto st').
Proof.
  intros HS Hs. pose proof HS as [HI HV].
  assert (Hid : SInv st /\ R (Sto st) (Sto st)) by (split; [exact HS|apply R_refl]).
  assert (Hmut : forall h x, get_handle T St st h = OK x ->
     (let '(st1, r0) :=
        match Mutate st x o with
        | OK (b, s') =>
          let '(st1, r) := SetB (hook_fuel T St st) st h b s' in
          (st1, match r with OK _ => OK MUnit | Err => Err | Panic => Panic end)
        | Err => (st, Err)
        | Panic => (st, Panic)
        end in (st1, r0)) = (st', r) -> SInv st' /\ R (Sto st) (Sto st')).
  { intros h x Hg Hm.
    destruct (Mutate st x o) as [[b s']| |] eqn:Em; [|injection Hm as <- _; exact Hid|injection Hm as <- _; exact Hid].
    destruct (mutate_good _ _ _ _ HS (get_handle_valid _ _ _ HS Hg) Em) as (I1 & R1 & V1).
    cbn [fst snd] in I1, R1, V1.
    destruct (SetB (hook_fuel T St st) st h b s') as [st1 r1] eqn:Esb. injection Hm as <- _.
    exact (set_backing_inv _ _ _ _ _ _ _ HS I1 R1 V1 Esb). }
  unfold step in Hs.
  destruct o as [h i|h|h|h i v|h v|h|h sel v].
  - destruct (get_handle T St st h) as [x| |] eqn:Hg; [|injection Hs as <- _; exact Hid|injection Hs as <- _; exact Hid].
    match type of Hs with (match ?e with Some _ => _ | None => _ end) = _ =>
      destruct e as [e0|]; [|injection Hs as <- _; exact Hid] end.
    destruct (Mgetn (h_ty T x) (Sto st) (h_back T x) i) as [c| |] eqn:Eg;
      [|injection Hs as <- _; exact Hid|injection Hs as <- _; exact Hid].
    unfold push_handle in Hs. injection Hs as <- _. simpl. split; [|apply R_refl].
    apply SInv_push; [exact HS|]. simpl.
    eapply m_get_node_valid; [exact HI| |exact Eg]. eapply get_handle_valid; eauto.
  - destruct (get_handle T St st h) as [x| |] eqn:Hg; [|injection Hs as <- _; exact Hid|injection Hs as <- _; exact Hid].
    destruct (h_ty T x); try (injection Hs as <- _; exact Hid).
    match type of Hs with (match ?e with OK _ => _ | Err => _ | Panic => _ end) = _ =>
      destruct e as [[[o1|] c]| |] eqn:Ev; try (injection Hs as <- _; exact Hid) end.
    unfold push_handle in Hs. injection Hs as <- _. simpl. split; [|apply R_refl].
    apply SInv_push; [exact HS|]. simpl.
    dbind Ev. dbind Ev. destruct (negb _); [discriminate|]. destruct (_ <=? _); [discriminate|].
    dbind Ev. injection Ev as _ <-. eapply get_ok; [exact HI| |exact E1]. eapply get_handle_valid; eauto.
  - destruct (get_handle T St st h) as [x| |] eqn:Hg; [|injection Hs as <- _; exact Hid|injection Hs as <- _; exact Hid].
    unfold push_handle in Hs. injection Hs as <- _. simpl. split; [|apply R_refl].
    apply SInv_push; [exact HS|]. simpl. eapply get_handle_valid; eauto.
  - destruct (get_handle T St st h) as [x| |] eqn:Hg; [|injection Hs as <- _; exact Hid|injection Hs as <- _; exact Hid].
    eapply (Hmut h x Hg).
    destruct (Mutate st x (OSet h i v)) as [[b s']| |]; [|exact Hs|exact Hs].
    destruct (SetB (hook_fuel T St st) st h b s'). exact Hs.
  - destruct (get_handle T St st h) as [x| |] eqn:Hg; [|injection Hs as <- _; exact Hid|injection Hs as <- _; exact Hid].
    eapply (Hmut h x Hg).
    destruct (Mutate st x (OAppend h v)) as [[b s']| |]; [|exact Hs|exact Hs].
    destruct (SetB (hook_fuel T St st) st h b s'). exact Hs.
  - destruct (get_handle T St st h) as [x| |] eqn:Hg; [|injection Hs as <- _; exact Hid|injection Hs as <- _; exact Hid].
    eapply (Hmut h x Hg).
    destruct (Mutate st x (OPop h)) as [[b s']| |]; [|exact Hs|exact Hs].
    destruct (SetB (hook_fuel T St st) st h b s'). exact Hs.
  - destruct (get_handle T St st h) as [x| |] eqn:Hg; [|injection Hs as <- _; exact Hid|injection Hs as <- _; exact Hid].
    eapply (Hmut h x Hg).
    destruct (Mutate st x (OChange h sel v)) as [[b s']| |]; [|exact Hs|exact Hs].
    destruct (SetB (hook_fuel T St st) st h b s'). exact Hs.
Qed.

End Generic.

(* ------------------------------------------------------------------------------------- *)
(* 6. the heap machine HM                                                                 *)
(* ------------------------------------------------------------------------------------- *)

(* An event of a history: a machine step, or a hash-tree-root request on the backing of a
   handle (which only writes memos).  [hm_run] replays a history. *)
Inductive hev := EStep (o : op) | EHash (k : nat).

Section HeapMachine.
Variable H : chunk -> chunk -> chunk.
Variable zh : nat -> chunk.

Definition hm_inv (st : hm_state) : Prop :=
  heap_wf (m_store _ _ st) /\ zeros_ok zh (m_store _ _ st) /\
  (true_addr < hp_next (m_store _ _ st))%positive /\
  forall k x, nth_error (m_handles _ _ st) k = Some x ->
              (h_back _ x < hp_next (m_store _ _ st))%positive.

(* HashTreeRoot of handle k: (root, state with the memos written, number of pair hashes) *)
Definition hm_hash (st : hm_state) (k : nat) : res (chunk * hm_state * N) :=
  match nth_error (m_handles _ _ st) k with
  | Some x =>
    match h_merkle H (Pos.to_nat (h_back _ x)) (m_store _ _ st) (h_back _ x) with
    | OK (r, h', c) => OK (r, mkM _ _ h' (m_handles _ _ st), c)
    | Err => Err
    | Panic => Panic
    end
  | None => Err
  end.

Definition hm_event (st : hm_state) (e : hev) : hm_state :=
  match e with
  | EStep o => fst (hm_step zh st o)
  | EHash k => match hm_hash st k with OK (_, st', _) => st' | _ => st end
  end.

Definition hm_run (st : hm_state) (evs : list hev) : hm_state := fold_left hm_event evs st.

Definition h_inv (h : heap) : Prop :=
  heap_wf h /\ zeros_ok zh h /\ (true_addr < hp_next h)%positive.
Definition h_valid (h : heap) (a : addr) : Prop := (a < hp_next h)%positive.

Lemma hm_inv_SInv st : hm_inv st <-> SInv addr heap h_inv h_valid st.
Proof. unfold hm_inv, SInv, h_inv, h_valid. tauto. Qed.

Lemma h_alloc_good h c :
  h_inv h ->
  (forall m l r, c = CPair m l r ->
     m = zero_chunk /\ (l < hp_next h)%positive /\ (r < hp_next h)%positive) ->
  good addr heap h_inv h_valid heap_grow h (h_alloc h c).
Proof.
  intros (Hwf & Hz & Ht) Hc. unfold good, h_inv, h_valid.
  pose proof (heap_wf_fresh _ Hwf) as Hf.
  assert (Hg : heap_grow h (snd (h_alloc h c))).
  { apply h_alloc_grow; [exact Hf|]. intros m l r E. now destruct (Hc _ _ _ E). }
  split; [split; [|split]|split].
  - apply h_alloc_wf; [exact Hwf|]. intros m l r E. now destruct (Hc _ _ _ E) as (_ & A & B).
  - eapply zeros_ok_ext; [apply Hg|exact Hz].
  - rewrite h_alloc_next. lia.
  - exact Hg.
  - rewrite h_alloc_next. simpl. lia.
Qed.

Lemma h_setter_good s a g e v r :
  h_inv s -> h_valid s a -> h_valid s v -> h_setter zh s a g e v = OK r ->
  good addr heap h_inv h_valid heap_grow s r.
Proof.
  intros (Hwf & Hz & Ht) Ha Hv Hs. destruct r as [a' h']. unfold h_setter in Hs.
  destruct (heap_set_wf zh _ _ _ _ _ _ _ Hwf Hz Hv Hs) as (He & Hwf' & Hz' & Ha').
  unfold good, h_inv, h_valid. simpl. split; [split; [exact Hwf'|split; [exact Hz'|]]|split].
  - destruct He as [_ Hle]. lia.
  - eapply h_set_path_grow; [apply heap_wf_fresh; exact Hwf|exact Hs].
  - exact Ha'.
Qed.

Lemma hm_step_inv st o st' r :
  hm_inv st -> hm_step zh st o = (st', r) ->
  hm_inv st' /\ heap_grow (m_store _ _ st) (m_store _ _ st').
Proof.
  intros Hi Hs. rewrite hm_inv_SInv in Hi. rewrite hm_inv_SInv. unfold hm_step in Hs.
  eapply (step_inv addr heap h_getter (h_setter zh) h_leaf h_pair h_chunk zero_addr true_addr zh
            h_inv h_valid heap_grow); try eassumption.
  - apply heap_grow_refl.
  - apply heap_grow_trans.
  - intros s s' t _ _ [[_ Hle] _] Ht. unfold h_valid in *. lia.
  - intros s c Hinv. apply h_alloc_good; [exact Hinv|]. intros m l r0 E. discriminate.
  - intros s l r0 Hinv Hl Hr. apply h_alloc_good; [exact Hinv|].
    intros m l0 r1 E. injection E as <- <- <-. auto.
  - intros s a g e v r0. apply h_setter_good.
  - intros s a g t (Hwf & _) Ha Hg. eapply h_get_path_lt; eauto.
  - intros s (Hwf & Hz & _). eapply heap_wf_lt; [exact Hwf|]. apply Hz. lia.
  - intros s (_ & _ & Ht). exact Ht.
Qed.

(* the step, as a function *)
Lemma hm_step_inv' st o :
  hm_inv st -> hm_inv (fst (hm_step zh st o)) /\
               heap_grow (m_store _ _ st) (m_store _ _ (fst (hm_step zh st o))).
Proof. intros Hi. destruct (hm_step zh st o) as [st' r] eqn:E. eapply hm_step_inv; eauto. Qed.

(* ---- C05: persistence ---- *)
Lemma hm_step_persistent st o :
  hm_inv st -> heap_ext (m_store _ _ st) (m_store _ _ (fst (hm_step zh st o))).
Proof. intros Hi. apply (hm_step_inv' st o Hi). Qed.

(* ---- C06: memos are never stale ---- *)
Lemma memo_ok_init : memo_ok H (heap_init zh).
Proof.
  assert (Hno : forall k a m l r, h_cell (init_cells zh k heap0) a <> Some (CPair m l r)).
  { induction k as [|k IH]; intros a m l r Hc.
    - unfold h_cell in Hc. simpl in Hc. rewrite PositiveMap.gempty in Hc. discriminate.
    - cbn [init_cells] in Hc. destruct (Pos.eq_dec a (hp_next (init_cells zh k heap0))) as [->|Hne].
      + rewrite h_alloc_new in Hc. discriminate.
      + rewrite h_alloc_old in Hc by exact Hne. eapply IH; eauto. }
  intros a m l r n Hc. exfalso. unfold heap_init in Hc. fold heap0 in Hc.
  destruct (Pos.eq_dec a (hp_next (init_cells zh 65 heap0))) as [->|Hne].
  - rewrite h_alloc_new in Hc. discriminate.
  - rewrite h_alloc_old in Hc by exact Hne. eapply Hno; eauto.
Qed.

Lemma memo_closed_init : memo_closed (heap_init zh).
Proof.
  assert (Hno : forall k a m l r, h_cell (init_cells zh k heap0) a <> Some (CPair m l r)).
  { induction k as [|k IH]; intros a m l r Hc.
    - unfold h_cell in Hc. simpl in Hc. rewrite PositiveMap.gempty in Hc. discriminate.
    - cbn [init_cells] in Hc. destruct (Pos.eq_dec a (hp_next (init_cells zh k heap0))) as [->|Hne].
      + rewrite h_alloc_new in Hc. discriminate.
      + rewrite h_alloc_old in Hc by exact Hne. eapply IH; eauto. }
  intros a m l r Hc. exfalso. unfold heap_init in Hc. fold heap0 in Hc.
  destruct (Pos.eq_dec a (hp_next (init_cells zh 65 heap0))) as [->|Hne].
  - rewrite h_alloc_new in Hc. discriminate.
  - rewrite h_alloc_old in Hc by exact Hne. eapply Hno; eauto.
Qed.

Lemma memo_ok_alloc_leaf h c : heap_wf h -> memo_ok H h -> memo_ok H (snd (h_leaf h c)).
Proof.
  intros Hwf. apply heap_grow_memo_ok; [exact Hwf|].
  apply h_alloc_grow; [now apply heap_wf_fresh|]. discriminate.
Qed.

Lemma memo_ok_alloc_pair h l r : heap_wf h -> memo_ok H h -> memo_ok H (snd (h_pair h l r)).
Proof.
  intros Hwf. apply heap_grow_memo_ok; [exact Hwf|].
  apply h_alloc_grow; [now apply heap_wf_fresh|]. intros m l0 r0 E. now injection E as <-.
Qed.

Lemma memo_ok_set_path h a p e v a' h' :
  heap_wf h -> h_set_path zh h a p e v = OK (a', h') -> memo_ok H h -> memo_ok H h'.
Proof.
  intros Hwf Hs. apply heap_grow_memo_ok; [exact Hwf|].
  eapply h_set_path_grow; [apply heap_wf_fresh; exact Hwf|exact Hs].
Qed.

Lemma hm_step_memo_ok st o :
  hm_inv st -> memo_ok H (m_store _ _ st) -> memo_ok H (m_store _ _ (fst (hm_step zh st o))).
Proof.
  intros Hi. destruct (hm_step_inv' st o Hi) as [_ Hg]. apply heap_grow_memo_ok; [apply Hi|exact Hg].
Qed.

Lemma hm_step_memo_closed st o :
  hm_inv st -> memo_closed (m_store _ _ st) -> memo_closed (m_store _ _ (fst (hm_step zh st o))).
Proof. intros Hi. destruct (hm_step_inv' st o Hi) as [_ Hg]. now apply heap_grow_memo_closed. Qed.

(* ---- hash requests on a handle ---- *)
Lemma hm_hash_spec st k x :
  hm_inv st -> nth_error (m_handles _ _ st) k = Some x ->
  exists r h' c,
    hm_hash st k = OK (r, mkM _ _ h' (m_handles _ _ st), c) /\
    h_merkle H (Pos.to_nat (h_back _ x)) (m_store _ _ st) (h_back _ x) = OK (r, h', c) /\
    hm_inv (mkM _ _ h' (m_handles _ _ st)).
Proof.
  intros (Hwf & Hz & Ht & Hv) Hx. pose proof (Hv _ _ Hx) as Ha.
  destruct (h_merkle_total H _ _ _ Hwf Ha (le_n _)) as (r & h' & c & E).
  destruct (h_merkle_heap H _ _ _ _ _ _ Hwf Ha (le_n _) E) as (He & [Hn Hd] & Hwf' & _).
  exists r, h', c. unfold hm_hash. rewrite Hx, E. split; [reflexivity|]. split; [reflexivity|].
  unfold hm_inv. simpl. split; [exact Hwf'|]. split; [|split].
  - intros d Hd'. eapply ext_memo_leaf; [exact He|]. now apply Hz.
  - rewrite Hn. exact Ht.
  - intros j y Hy. rewrite Hn. eapply Hv; eauto.
Qed.

Lemma hm_event_inv st e :
  hm_inv st ->
  hm_inv (hm_event st e) /\ heap_ext_memo (m_store _ _ st) (m_store _ _ (hm_event st e)) /\
  (memo_ok H (m_store _ _ st) -> memo_ok H (m_store _ _ (hm_event st e))) /\
  handles_le (m_handles _ _ st) (m_handles _ _ (hm_event st e)).
Proof.
  intros Hi. destruct e as [o|k]; simpl.
  - destruct (hm_step_inv' st o Hi) as [Hi' Hg]. split; [exact Hi'|].
    split; [apply heap_ext_ext_memo, Hg|]. split; [now apply hm_step_memo_ok|].
    destruct (hm_step zh st o) as [st' r] eqn:E. simpl. unfold hm_step in E.
    now destruct (step_local _ _ _ _ _ _ _ _ _ _ _ _ _ _ E) as (L & _).
  - destruct (nth_error (m_handles _ _ st) k) as [x|] eqn:Hx.
    + destruct (hm_hash_spec st k x Hi Hx) as (r & h' & c & E & Em & Hi'). rewrite E.
      pose proof Hi as (Hwf & _ & _ & Hv).
      split; [exact Hi'|]. simpl.
      destruct (h_merkle_heap H _ _ _ _ _ _ Hwf (Hv _ _ Hx) (le_n _) Em) as (He & _).
      split; [exact He|]. split; [|apply handles_le_refl].
      intros Hok. destruct (habs_total _ _ Hwf (Hv _ _ Hx)) as [n Hn].
      now destruct (h_merkle_root H _ _ _ _ _ _ _ Hwf Hok Hn (le_n _) Em).
    + unfold hm_hash. rewrite Hx. split; [exact Hi|]. split; [apply heap_ext_memo_refl|].
      split; [auto|apply handles_le_refl].
Qed.

Lemma hm_run_inv evs : forall st,
  hm_inv st ->
  hm_inv (hm_run st evs) /\ heap_ext_memo (m_store _ _ st) (m_store _ _ (hm_run st evs)) /\
  (memo_ok H (m_store _ _ st) -> memo_ok H (m_store _ _ (hm_run st evs))) /\
  handles_le (m_handles _ _ st) (m_handles _ _ (hm_run st evs)).
Proof.
  induction evs as [|e evs IH]; intros st Hi; simpl.
  - split; [exact Hi|]. split; [apply heap_ext_memo_refl|]. split; [auto|apply handles_le_refl].
  - destruct (hm_event_inv st e Hi) as (Hi1 & He1 & Hok1 & Hl1).
    destruct (IH _ Hi1) as (Hi2 & He2 & Hok2 & Hl2).
    split; [exact Hi2|]. split; [eapply heap_ext_memo_trans; eauto|].
    split; [auto|eapply handles_le_trans; eauto].
Qed.

(* C05: content and root of every node obtained before the history are the same afterwards *)
Lemma hm_run_abs_stable st evs a n :
  hm_inv st -> (a < hp_next (m_store _ _ st))%positive ->
  (habs (m_store _ _ (hm_run st evs)) a n <-> habs (m_store _ _ st) a n).
Proof.
  intros Hi Ha. destruct (hm_run_inv evs st Hi) as (_ & He & _). split.
  - intros Hn. eapply habs_ext_memo_inv; eauto. apply Hi.
  - now apply habs_ext_memo.
Qed.

Lemma hm_run_zeros st evs :
  hm_inv st ->
  (forall d, (d <= 64)%nat ->
     h_cell (m_store _ _ (hm_run st evs)) (zero_addr d) = Some (CLeaf (zh d))) /\
  (forall c, h_cell (m_store _ _ st) true_addr = Some (CLeaf c) ->
     h_cell (m_store _ _ (hm_run st evs)) true_addr = Some (CLeaf c)).
Proof.
  intros Hi. destruct (hm_run_inv evs st Hi) as (Hi' & He & _). split.
  - apply Hi'.
  - intros c Hc. eapply ext_memo_leaf; eauto.
Qed.

End HeapMachine.

(* ------------------------------------------------------------------------------------- *)
(* 7. C05: a copy is detached                                                             *)
(* ------------------------------------------------------------------------------------- *)

(* the new handle k: its chain is {k}, and it is on the chain of no other handle *)
Lemma copy_chain (hs : list (handle addr)) c j :
  hooks_wf hs -> h_hook _ c = None ->
  (on_chain (hs ++ [c]) (length hs) j -> j = length hs) /\
  (on_chain (hs ++ [c]) j (length hs) -> j = length hs).
Proof.
  intros Hw Hc.
  assert (Hk : nth_error (hs ++ [c]) (length hs) = Some c).
  { rewrite nth_error_app2 by lia. now rewrite PeanoNat.Nat.sub_diag. }
  assert (Hw' : hooks_wf (hs ++ [c])).
  { apply hooks_wf_app; [exact Hw|]. intros p i E. congruence. }
  split.
  - intros Hch. inversion Hch as [|j0 y p i k0 Hy Hh Hc0]; subst; [reflexivity|].
    rewrite Hk in Hy. injection Hy as <-. congruence.
  - intros Hch. pose proof (on_chain_le_idx _ _ _ Hw' Hch) as Hle.
    inversion Hch as [|j0 y p i k0 Hy Hh Hc0]; subst; [reflexivity|].
    assert (Hj : (j < length (hs ++ [c]))%nat) by (apply nth_error_Some; congruence).
    rewrite app_length in Hj. simpl in Hj.
    assert (j = length hs) by lia. subst j. rewrite Hk in Hy. injection Hy as <-. congruence.
Qed.

Section Detached.
Variable H : chunk -> chunk -> chunk.
Variable zh : nat -> chunk.

Local Notation Hdl st := (m_handles addr heap st).

Lemma hm_step_local st o :
  handles_le (Hdl st) (Hdl (fst (hm_step zh st o))) /\
  (hooks_wf (Hdl st) -> hooks_wf (Hdl (fst (hm_step zh st o)))) /\
  (forall k x, nth_error (Hdl st) k = Some x -> ~ on_chain (Hdl st) (op_target o) k ->
               nth_error (Hdl (fst (hm_step zh st o))) k = Some x).
Proof.
  destruct (hm_step zh st o) as [st' r] eqn:E. unfold hm_step in E.
  exact (step_local _ _ _ _ _ _ _ _ _ _ _ _ _ _ E).
Qed.

(* what OCopy does *)
Lemma hm_copy_spec st h st' r :
  hm_step zh st (OCopy h) = (st', r) ->
  match nth_error (Hdl st) h with
  | Some x => r = OK (MHandle (length (Hdl st))) /\
              st' = mkM _ _ (m_store _ _ st) (Hdl st ++ [mkH addr (h_ty _ x) (h_back _ x) None])
  | None => r = Err /\ st' = st
  end.
Proof.
  unfold hm_step, step, get_handle. destruct (nth_error (Hdl st) h) as [x|].
  - unfold push_handle. intros E. injection E as <- <-. auto.
  - intros E. injection E as <- <-. auto.
Qed.

(* family of a detached handle k: k and the sub-views obtained (transitively) from it.
   A step on a member changes only members; a step on a non-member changes no member. *)
Lemma detached_step_inside st o k x m y :
  nth_error (Hdl st) k = Some x -> h_hook _ x = None ->
  on_chain (Hdl st) (op_target o) k ->
  nth_error (Hdl st) m = Some y -> ~ on_chain (Hdl st) m k ->
  nth_error (Hdl (fst (hm_step zh st o))) m = Some y.
Proof.
  intros Hx Hn Hin Hy Hout. destruct (hm_step_local st o) as (_ & _ & Hloc).
  apply Hloc; [exact Hy|]. intros Hc. apply Hout. eapply on_chain_stops; eauto.
Qed.

Lemma detached_step_outside st o k m y :
  ~ on_chain (Hdl st) (op_target o) k ->
  nth_error (Hdl st) m = Some y -> on_chain (Hdl st) m k ->
  nth_error (Hdl (fst (hm_step zh st o))) m = Some y.
Proof.
  intros Hout Hy Hin. destruct (hm_step_local st o) as (_ & _ & Hloc).
  apply Hloc; [exact Hy|]. intros Hc. apply Hout. eapply on_chain_trans; eauto.
Qed.

(* histories *)
Fixpoint run_outside (st : hm_state) (k : nat) (evs : list hev) : Prop :=
  match evs with
  | [] => True
  | e :: evs' =>
    match e with EStep o => ~ on_chain (Hdl st) (op_target o) k | EHash _ => True end /\
    run_outside (hm_event H zh st e) k evs'
  end.

Fixpoint run_inside (st : hm_state) (k : nat) (evs : list hev) : Prop :=
  match evs with
  | [] => True
  | e :: evs' =>
    match e with EStep o => on_chain (Hdl st) (op_target o) k | EHash _ => True end /\
    run_inside (hm_event H zh st e) k evs'
  end.

Lemma hm_event_handles st e :
  handles_le (Hdl st) (Hdl (hm_event H zh st e)) /\
  (hooks_wf (Hdl st) -> hooks_wf (Hdl (hm_event H zh st e))) /\
  (forall k x, nth_error (Hdl st) k = Some x ->
     match e with EStep o => ~ on_chain (Hdl st) (op_target o) k | EHash _ => True end ->
     nth_error (Hdl (hm_event H zh st e)) k = Some x).
Proof.
  destruct e as [o|j]; simpl.
  - apply hm_step_local.
  - unfold hm_hash. destruct (nth_error (Hdl st) j) as [x|]; [|split; [apply handles_le_refl|auto]].
    destruct (h_merkle H _ _ _) as [[[r h'] c]| |]; simpl; (split; [apply handles_le_refl|auto]).
Qed.

Lemma run_outside_stable evs : forall st k m y,
  run_outside st k evs -> nth_error (Hdl st) m = Some y -> on_chain (Hdl st) m k ->
  nth_error (Hdl (hm_run H zh st evs)) m = Some y.
Proof.
  induction evs as [|e evs IH]; intros st k m y Hrun Hy Hin; simpl; [exact Hy|].
  destruct Hrun as [He Hrun]. destruct (hm_event_handles st e) as (Hle & _ & Hloc).
  assert (Hy' : nth_error (Hdl (hm_event H zh st e)) m = Some y).
  { apply Hloc; [exact Hy|]. destruct e as [o|j]; [|exact I].
    intros Hc. apply He. eapply on_chain_trans; eauto. }
  eapply IH; [exact Hrun|exact Hy'|]. eapply on_chain_le; eauto.
Qed.

Lemma run_inside_stable evs : forall st k x m y,
  hooks_wf (Hdl st) ->
  nth_error (Hdl st) k = Some x -> h_hook _ x = None ->
  run_inside st k evs -> nth_error (Hdl st) m = Some y -> ~ on_chain (Hdl st) m k ->
  nth_error (Hdl (hm_run H zh st evs)) m = Some y.
Proof.
  induction evs as [|e evs IH]; intros st k x m y Hw Hx Hn Hrun Hy Hout; simpl; [exact Hy|].
  destruct Hrun as [He Hrun]. destruct (hm_event_handles st e) as (Hle & Hw' & Hloc).
  assert (Hy' : nth_error (Hdl (hm_event H zh st e)) m = Some y).
  { apply Hloc; [exact Hy|]. destruct e as [o|j]; [|exact I].
    intros Hc. apply Hout. eapply on_chain_stops; eauto. }
  destruct Hle as [Hlen A]. destruct (A _ _ Hx) as (x' & Hx' & _ & Hk').
  eapply IH; [apply Hw'; exact Hw|exact Hx'|congruence|exact Hrun|exact Hy'|].
  intros Hc. apply Hout. eapply on_chain_le_inv; [split; [exact Hlen|exact A]|apply Hw'; exact Hw| |exact Hc].
  apply nth_error_Some. congruence.
Qed.

End Detached.

(* ------------------------------------------------------------------------------------- *)
(* 8. C07: one hash per level of the written path                                         *)
(* ------------------------------------------------------------------------------------- *)

Lemma wcount_ext h h' a n : heap_ext h h' -> wcount h a n -> wcount h' a n.
Proof.
  intros [A _]. induction 1 as [a c Hc|a m l r n1 n2 Hc Hl IHl Hr IHr].
  - eapply wc_leaf; eauto.
  - eapply wc_pair; eauto.
Qed.

Lemma memoised_ext h h' a : heap_ext h h' -> memoised h a -> memoised h' a.
Proof. intros He. apply memoised_ext_memo. now apply heap_ext_ext_memo. Qed.

Section PathBound.
Variable zh : nat -> chunk.

Lemma h_step_children_wcount h a k e l r na :
  (e = true -> zeros_ok zh h) -> h_step_children zh h a k e = OK (l, r) -> wcount h a na ->
  exists nl nr, wcount h l nl /\ wcount h r nr /\ (nl + nr <= na)%nat.
Proof.
  intros Hz Hs Wa. unfold h_step_children in Hs.
  inversion Wa as [a0 c Hc|a0 m l0 r0 n1 n2 Hc Hl Hr]; subst; rewrite Hc in Hs.
  - destruct e; [|discriminate]. destruct (chunk_eqb c (zh (S k))); [|discriminate].
    destruct (N.of_nat k <=? 64) eqn:Ek; [|discriminate]. apply N.leb_le in Ek.
    injection Hs as <- <-. exists 0%nat, 0%nat.
    assert (W : wcount h (zero_addr k) 0) by (eapply wc_leaf; apply (Hz eq_refl); lia).
    split; [exact W|]. split; [exact W|lia].
  - injection Hs as <- <-. exists n1, n2. split; [exact Hl|]. split; [exact Hr|lia].
Qed.

(* a write adds at most one unset pair per level of its path *)
Lemma h_set_path_wcount p : forall h a e v a' h' na nv,
  heap_fresh h -> (e = true -> zeros_ok zh h) ->
  h_set_path zh h a p e v = OK (a', h') -> wcount h a na -> wcount h v nv ->
  exists n', wcount h' a' n' /\ (n' <= length p + na + nv)%nat.
Proof.
  induction p as [|b p IH]; intros h a e v a' h' na nv Hf Hz Hs Wa Wv.
  - simpl in Hs. injection Hs as <- <-. exists nv. split; [exact Wv|simpl; lia].
  - rewrite h_set_path_cons in Hs.
    destruct (h_step_children zh h a (length p) e) as [[l r]| |] eqn:Est; cbn [bind] in Hs;
      try discriminate.
    destruct (h_step_children_wcount _ _ _ _ _ _ _ Hz Est Wa) as (nl & nr & Wl & Wr & Hle).
    destruct b.
    + destruct (h_set_path zh h r p e v) as [[r' h1]| |] eqn:Er; cbn [bind] in Hs; try discriminate.
      destruct (IH _ _ _ _ _ _ _ _ Hf Hz Er Wr Wv) as (n1 & W1 & L1).
      destruct (h_set_path_ext zh _ _ _ _ _ _ _ Hf Er) as [He1 Hf1].
      rewrite h_pair_eq in Hs. injection Hs as <- <-.
      pose proof (h_alloc_ext h1 (CPair zero_chunk l r') Hf1) as He2.
      pose proof (wc_pair _ _ _ _ _ _ _ (h_alloc_new h1 (CPair zero_chunk l r'))
                    (wcount_ext _ _ _ _ He2 (wcount_ext _ _ _ _ He1 Wl))
                    (wcount_ext _ _ _ _ He2 W1)) as W.
      rewrite chunk_eqb_refl in W. eexists. split; [exact W|]. simpl. lia.
    + destruct (h_set_path zh h l p e v) as [[l' h1]| |] eqn:El; cbn [bind] in Hs; try discriminate.
      destruct (IH _ _ _ _ _ _ _ _ Hf Hz El Wl Wv) as (n1 & W1 & L1).
      destruct (h_set_path_ext zh _ _ _ _ _ _ _ Hf El) as [He1 Hf1].
      rewrite h_pair_eq in Hs. injection Hs as <- <-.
      pose proof (h_alloc_ext h1 (CPair zero_chunk l' r) Hf1) as He2.
      pose proof (wc_pair _ _ _ _ _ _ _ (h_alloc_new h1 (CPair zero_chunk l' r))
                    (wcount_ext _ _ _ _ He2 W1)
                    (wcount_ext _ _ _ _ He2 (wcount_ext _ _ _ _ He1 Wr))) as W.
      rewrite chunk_eqb_refl in W. eexists. split; [exact W|]. simpl. lia.
Qed.

Variable H : chunk -> chunk -> chunk.

(* the composable form: hashes after a write <= path length + what was unhashed before *)
Lemma h_set_path_merkle_count h a p e v a' h' na nv fuel r h'' c :
  heap_wf h -> zeros_ok zh h -> (v < hp_next h)%positive ->
  wcount h a na -> wcount h v nv ->
  h_set_path zh h a p e v = OK (a', h') ->
  (Pos.to_nat a' <= fuel)%nat -> h_merkle H fuel h' a' = OK (r, h'', c) ->
  c <= N.of_nat (length p + na + nv).
Proof.
  intros Hwf Hz Hv Wa Wv Hs Hf Em.
  destruct (heap_set_wf zh _ _ _ _ _ _ _ Hwf Hz Hv Hs) as (_ & Hwf' & _ & Ha').
  destruct (h_set_path_wcount _ _ _ _ _ _ _ _ _ (heap_wf_fresh _ Hwf) (fun _ => Hz) Hs Wa Wv)
    as (n' & W' & L').
  pose proof (h_merkle_count_wcount H _ _ _ _ _ _ _ Hwf' Ha' Hf Em W'). lia.
Qed.

(* C07, second half *)
Lemma h_set_path_merkle_bound h a p e v a' h' fuel r h'' c :
  heap_wf h -> zeros_ok zh h -> memoised h a -> memoised h v ->
  h_set_path zh h a p e v = OK (a', h') ->
  (Pos.to_nat a' <= fuel)%nat -> h_merkle H fuel h' a' = OK (r, h'', c) ->
  c <= N.of_nat (length p).
Proof.
  intros Hwf Hz Ma Mv Hs Hf Em.
  assert (Hv : (v < hp_next h)%positive).
  { inversion Mv; subst; eapply heap_wf_lt; eauto. }
  pose proof (h_set_path_merkle_count _ _ _ _ _ _ _ _ _ _ _ _ _ Hwf Hz Hv
                (memoised_wcount _ _ Ma) (memoised_wcount _ _ Mv) Hs Hf Em). lia.
Qed.

(* two consecutive writes (an append: element, then length), possibly with allocations
   (heap_ext h1 h1') in between *)
Lemma h_set_path_twice_bound h a p e v a1 h1 h1' q e' w a2 h2 fuel r h'' c :
  heap_wf h -> zeros_ok zh h -> memoised h a -> memoised h v ->
  h_set_path zh h a p e v = OK (a1, h1) ->
  heap_ext h1 h1' -> heap_wf h1' -> memoised h1' w ->
  h_set_path zh h1' a1 q e' w = OK (a2, h2) ->
  (Pos.to_nat a2 <= fuel)%nat -> h_merkle H fuel h2 a2 = OK (r, h'', c) ->
  c <= N.of_nat (length p + length q).
Proof.
  intros Hwf Hz Ma Mv Hs1 He Hwf1 Mw Hs2 Hf Em.
  destruct (h_set_path_wcount _ _ _ _ _ _ _ _ _ (heap_wf_fresh _ Hwf) (fun _ => Hz) Hs1
              (memoised_wcount _ _ Ma) (memoised_wcount _ _ Mv)) as (n1 & W1 & L1).
  assert (Hz1 : zeros_ok zh h1').
  { eapply zeros_ok_ext; [exact He|]. eapply zeros_ok_ext; [|exact Hz].
    eapply heap_set_original; eauto. }
  assert (Hw : (w < hp_next h1')%positive).
  { inversion Mw; subst; eapply heap_wf_lt; eauto. }
  pose proof (h_set_path_merkle_count _ _ _ _ _ _ _ _ _ _ _ _ _ Hwf1 Hz1 Hw
                (wcount_ext _ _ _ _ He W1) (memoised_wcount _ _ Mw) Hs2 Hf Em). lia.
Qed.

End PathBound.

(* ------------------------------------------------------------------------------------- *)
(* 9. C14: a fully hashed shared ancestor is read-only                                    *)
(* ------------------------------------------------------------------------------------- *)

Lemma frozen_prefix_ext_memo h h' k :
  heap_ext_memo h h' -> frozen_below h k ->
  (forall b, (b < k)%positive -> h_cell h' b = h_cell h b) /\ frozen_below h' k.
Proof.
  intros He Hfz.
  assert (A : forall b, (b < k)%positive -> h_cell h' b = h_cell h b).
  { intros b Hb. destruct (Hfz _ Hb) as (c & Hc & Fc). rewrite Hc. eapply frozen_cell_stable; eauto. }
  split; [exact A|]. intros b Hb. rewrite (A _ Hb). now apply Hfz.
Qed.

(* the same for the cells of one fully hashed tree, wherever they lie *)
Lemma frozen_tree_ext_memo h h' a b :
  heap_ext_memo h h' -> memoised h a -> reach h a b -> h_cell h' b = h_cell h b.
Proof.
  intros He Hm Hr. induction Hr as [a|a m l r b Hc Hr IH|a m l r b Hc Hr IH].
  - inversion Hm as [a0 c Hc|a0 m l r Hc Hz Hl Hr]; subst; rewrite Hc;
      eapply frozen_cell_stable; eauto; simpl; auto.
  - inversion Hm as [a0 c Hc0|a0 m0 l0 r0 Hc0 Hz Hl0 Hr0]; subst; rewrite Hc in Hc0; [discriminate|].
    injection Hc0 as <- <- <-. now apply IH.
  - inversion Hm as [a0 c Hc0|a0 m0 l0 r0 Hc0 Hz Hl0 Hr0]; subst; rewrite Hc in Hc0; [discriminate|].
    injection Hc0 as <- <- <-. now apply IH.
Qed.

Section Forks.
Variable H : chunk -> chunk -> chunk.
Variable zh : nat -> chunk.

Lemma hm_step_frozen st o k :
  hm_inv zh st -> frozen_below (m_store _ _ st) k ->
  (forall b, (b < k)%positive ->
     h_cell (m_store _ _ (fst (hm_step zh st o))) b = h_cell (m_store _ _ st) b) /\
  frozen_below (m_store _ _ (fst (hm_step zh st o))) k.
Proof.
  intros Hi Hfz. apply frozen_prefix_ext_memo; [|exact Hfz].
  apply heap_ext_ext_memo. now apply hm_step_persistent.
Qed.

Lemma h_merkle_frozen fuel h a r h' c k :
  heap_wf h -> (a < hp_next h)%positive -> (Pos.to_nat a <= fuel)%nat ->
  h_merkle H fuel h a = OK (r, h', c) -> frozen_below h k ->
  (forall b, (b < k)%positive -> h_cell h' b = h_cell h b) /\ frozen_below h' k.
Proof.
  intros Hwf Ha Hf E Hfz. apply frozen_prefix_ext_memo; [|exact Hfz].
  now destruct (h_merkle_heap H _ _ _ _ _ _ Hwf Ha Hf E).
Qed.

Lemma hm_run_frozen st evs k :
  hm_inv zh st -> frozen_below (m_store _ _ st) k ->
  (forall b, (b < k)%positive ->
     h_cell (m_store _ _ (hm_run H zh st evs)) b = h_cell (m_store _ _ st) b) /\
  frozen_below (m_store _ _ (hm_run H zh st evs)) k.
Proof.
  intros Hi Hfz. apply frozen_prefix_ext_memo; [|exact Hfz].
  now destruct (hm_run_inv H zh evs st Hi) as (_ & He & _).
Qed.

Lemma hm_run_frozen_tree st evs a b :
  hm_inv zh st -> memoised (m_store _ _ st) a -> reach (m_store _ _ st) a b ->
  h_cell (m_store _ _ (hm_run H zh st evs)) b = h_cell (m_store _ _ st) b.
Proof.
  intros Hi Hm Hr. eapply frozen_tree_ext_memo; eauto.
  now destruct (hm_run_inv H zh evs st Hi) as (_ & He & _).
Qed.

(* whatever the other forks did in between (any history), a fork's handle has the same
   content, and a hash request on it returns the same root *)
Lemma hm_run_root_stable st evs k x n r1 st1 c1 r2 st2 c2 :
  hm_inv zh st -> memo_ok H (m_store _ _ st) ->
  nth_error (m_handles _ _ st) k = Some x -> habs (m_store _ _ st) (h_back _ x) n ->
  nth_error (m_handles _ _ (hm_run H zh st evs)) k = Some x ->
  hm_hash H st k = OK (r1, st1, c1) -> hm_hash H (hm_run H zh st evs) k = OK (r2, st2, c2) ->
  r1 = root_of H n /\ r2 = root_of H n.
Proof.
  intros Hi Hok Hx Hn Hx' E1 E2.
  destruct (hm_run_inv H zh evs st Hi) as (Hi' & He & Hok' & _). specialize (Hok' Hok).
  unfold hm_hash in E1, E2. rewrite Hx in E1. rewrite Hx' in E2.
  destruct (h_merkle H _ (m_store _ _ st) _) as [[[ra ha] ca]| |] eqn:Ea; try discriminate.
  destruct (h_merkle H _ (m_store _ _ (hm_run H zh st evs)) _) as [[[rb hb] cb]| |] eqn:Eb;
    try discriminate.
  injection E1 as <- _ _. injection E2 as <- _ _.
  destruct (h_merkle_root H _ _ _ _ _ _ _ (proj1 Hi) Hok Hn (le_n _) Ea) as [-> _].
  destruct (h_merkle_root H _ _ _ _ _ _ _ (proj1 Hi') Hok' (habs_ext_memo _ _ _ _ He Hn) (le_n _) Eb)
    as [-> _]. auto.
Qed.

End Forks.

(* ------------------------------------------------------------------------------------- *)
(* 10. building states; examples: the hypotheses of the C05/C06/C07/C14 theorems are       *)
(*     satisfiable by non-trivial inputs                                                  *)
(* ------------------------------------------------------------------------------------- *)

Lemma hm_alloc_inv zh h n :
  h_inv zh h -> good addr heap (h_inv zh) h_valid heap_grow h (hm_alloc h n).
Proof.
  intros Hi. unfold hm_alloc.
  apply (alloc_node_good addr heap h_leaf h_pair (h_inv zh) h_valid heap_grow).
  - apply heap_grow_trans.
  - intros s s' t _ _ [[_ Hle] _] Ht. unfold h_valid in *. lia.
  - intros s c Hinv. apply h_alloc_good; [exact Hinv|]. intros m l r0 E. discriminate.
  - intros s l r0 Hinv Hl Hr. apply h_alloc_good; [exact Hinv|].
    intros m l0 r1 E. injection E as <- <- <-. auto.
  - exact Hi.
Qed.

Lemma h_inv_init zh : h_inv zh (heap_init zh).
Proof.
  split; [apply heap_init_wf|]. split; [apply heap_init_zeros_ok|].
  destruct (init_cells_spec zh 65) as (Hn & _). unfold heap_init. fold heap0.
  rewrite h_alloc_next, Hn. vm_compute. reflexivity.
Qed.

(* a one-handle machine state over a freshly allocated tree satisfies every invariant *)
Lemma hm_state_of_node H zh t n :
  let st := (let '(a, h) := hm_alloc (heap_init zh) n in mkM addr heap h [mkH addr t a None]) in
  hm_inv zh st /\ memo_ok H (m_store _ _ st) /\ memo_closed (m_store _ _ st) /\
  hooks_wf (m_handles _ _ st).
Proof.
  destruct (hm_alloc_inv zh (heap_init zh) n (h_inv_init zh)) as ((Hwf & Hz & Ht) & Hg & Hv).
  destruct (hm_alloc (heap_init zh) n) as [a h]. simpl in *.
  split; [|split; [|split]].
  - unfold hm_inv. simpl. split; [exact Hwf|]. split; [exact Hz|]. split; [exact Ht|].
    intros k x Hx. destruct k as [|k]; simpl in Hx; [|destruct k; discriminate].
    injection Hx as <-. exact Hv.
  - eapply heap_grow_memo_ok; [apply heap_init_wf|exact Hg|apply memo_ok_init].
  - eapply heap_grow_memo_closed; [exact Hg|apply memo_closed_init].
  - intros k x p i Hx Hh. destruct k as [|k]; simpl in Hx; [|destruct k; discriminate].
    injection Hx as <-. discriminate.
Qed.

(* the process-wide cells are a frozen prefix from the start *)
Lemma heap_init_frozen zh : frozen_below (heap_init zh) 67%positive.
Proof.
  intros b Hb. destruct (Pos.eq_dec b true_addr) as [->|Hne].
  - exists (CLeaf true_chunk). split; [|exact I].
    unfold heap_init. fold heap0. destruct (init_cells_spec zh 65) as (Hn & _).
    replace true_addr with (hp_next (init_cells zh 65 heap0)) by (rewrite Hn; reflexivity).
    apply h_alloc_new.
  - exists (CLeaf (zh (Pos.to_nat b - 1)%nat)). split; [|exact I].
    assert (Hb' : b = zero_addr (Pos.to_nat b - 1)%nat).
    { unfold zero_addr. rewrite Pos.of_nat_succ.
      replace (S (Pos.to_nat b - 1)%nat) with (Pos.to_nat b) by lia. now rewrite Pos2Nat.id. }
    rewrite Hb' at 1. apply heap_init_zeros_ok. unfold true_addr in Hne. lia.
Qed.

(* a toy hash that never returns the zero chunk *)
Definition yH (a b : chunk) : chunk := Byte.x01 :: firstn 31 (xH a b).
Definition yzh : nat -> chunk := zero_hash yH.

Example ex_Hnz : Hnz yH.
Proof.
  intros a b E. apply (f_equal (hd Byte.x02)) in E. unfold yH, zero_chunk, zero_bytes, b0 in E.
  simpl in E. discriminate.
Qed.

(* Container{ Vector[uint64, 8]; uint64 }, all zero *)
Definition ex_ty : ty := TContainer [TVector (TUint 8) 8; TUint 8].
Definition ex_node : node := Pair (Pair (Leaf (yzh 0)) (Leaf (yzh 0))) (Leaf (yzh 0)).
Definition ex_st0 : hm_state :=
  let '(a, h) := hm_alloc (heap_init yzh) ex_node in mkM _ _ h [mkH _ ex_ty a None].

Example ex_st0_ok :
  hm_inv yzh ex_st0 /\ memo_ok yH (m_store _ _ ex_st0) /\ memo_closed (m_store _ _ ex_st0) /\
  hooks_wf (m_handles _ _ ex_st0) /\ frozen_below (m_store _ _ ex_st0) 67%positive.
Proof.
  destruct (hm_state_of_node yH yzh ex_ty ex_node) as (A & B & C & D).
  split; [exact A|]. split; [exact B|]. split; [exact C|]. split; [exact D|].
  destruct (hm_alloc_inv yzh (heap_init yzh) ex_node (h_inv_init yzh)) as (_ & Hg & _).
  unfold ex_st0. destruct (hm_alloc (heap_init yzh) ex_node) as [a h]. simpl in *.
  eapply frozen_prefix_ext_memo; [apply heap_ext_ext_memo, Hg|apply heap_init_frozen].
Qed.

(* a history: hash; take the sub-view of field 0; write element 5 through it (the hook
   writes back into the container); hash twice; copy; write field 1 of the copy; hash the
   copy; hash the original.  Hash counts: 2 (fresh tree), 2 (one per level of the two chained
   writes), 0 (second request), 1 (the copy's single write), 0 (the original is untouched). *)
Definition ex_evs : list hev :=
  [EHash 0; EStep (OGet 0 0); EStep (OSet 1 5 (SLit (TUint 8) (VUint 7))); EHash 0; EHash 0;
   EStep (OCopy 0); EStep (OSet 2 1 (SLit (TUint 8) (VUint 9))); EHash 2; EHash 0].

Definition ex_out (st : hm_state) (e : hev) : option (res mout) * option N :=
  match e with
  | EStep o => (Some (snd (hm_step yzh st o)), None)
  | EHash k => (None, match hm_hash yH st k with OK (_, _, c) => Some c | _ => None end)
  end.
Fixpoint ex_trace (st : hm_state) (evs : list hev) : list (option (res mout) * option N) :=
  match evs with [] => [] | e :: r => ex_out st e :: ex_trace (hm_event yH yzh st e) r end.

Example ex_history :
  ex_trace ex_st0 ex_evs =
  [(None, Some 2); (Some (OK (MHandle 1)), None); (Some (OK MUnit), None); (None, Some 2);
   (None, Some 0); (Some (OK (MHandle 2)), None); (Some (OK MUnit), None); (None, Some 1);
   (None, Some 0)] /\
  map (fun x => (h_back _ x, h_hook _ x)) (m_handles _ _ (hm_run yH yzh ex_st0 ex_evs)) =
  [(74%positive, None); (73%positive, Some (0%nat, 0)); (76%positive, None)].
Proof. split; vm_compute; reflexivity. Qed.

(* chains in the final handle list: handle 1 (the sub-view) hangs on handle 0; the copy
   (handle 2) is detached *)
Example ex_chains :
  let hs := m_handles _ _ (hm_run yH yzh ex_st0 ex_evs) in
  on_chain hs 1 0 /\ ~ on_chain hs 0 2 /\ ~ on_chain hs 1 2 /\ ~ on_chain hs 2 0.
Proof.
  assert (E : m_handles _ _ (hm_run yH yzh ex_st0 ex_evs) =
              [mkH _ ex_ty 74%positive None; mkH _ (TVector (TUint 8) 8) 73%positive (Some (0%nat, 0));
               mkH _ ex_ty 76%positive None]) by (vm_compute; reflexivity).
  cbv zeta. rewrite E. split; [|split; [|split]].
  - eapply chain_up; [reflexivity|reflexivity|apply chain_self].
  - intros Hc. inversion Hc as [|j x p i k Hx Hh Hc']; subst. simpl in Hx. injection Hx as <-. discriminate.
  - intros Hc. inversion Hc as [|j x p i k Hx Hh Hc']; subst. simpl in Hx. injection Hx as <-.
    simpl in Hh. injection Hh as <- <-.
    inversion Hc' as [|j x p i k Hx Hh0 Hc'']; subst. simpl in Hx. injection Hx as <-. discriminate.
  - intros Hc. inversion Hc as [|j x p i k Hx Hh Hc']; subst. simpl in Hx. injection Hx as <-. discriminate.
Qed.

(* after a hash request the tree of handle 0 is fully hashed; a path write into it with an
   already hashed value (the shared trueRoot leaf) is the situation of the C07 bound *)
Definition ex_st1 : hm_state := hm_event yH yzh ex_st0 (EHash 0).

Example ex_path_bound_hyps :
  let h := m_store _ _ ex_st1 in
  heap_wf h /\ zeros_ok yzh h /\ memoised h 71%positive /\ memoised h true_addr /\
  nth_error (m_handles _ _ ex_st1) 0 = Some (mkH _ ex_ty 71%positive None) /\
  (exists a' h' r h'',
     h_set_path yzh h 71%positive [false; true] false true_addr = OK (a', h') /\
     h_merkle yH (Pos.to_nat a') h' a' = OK (r, h'', 2)).
Proof.
  destruct ex_st0_ok as (Hi & Hok & Hcl & _).
  assert (Hx : nth_error (m_handles _ _ ex_st0) 0 = Some (mkH _ ex_ty 71%positive None))
    by (vm_compute; reflexivity).
  destruct (hm_hash_spec yH yzh ex_st0 0 _ Hi Hx) as (r & h' & c & E & Em & Hi').
  assert (Est : ex_st1 = mkM _ _ h' (m_handles _ _ ex_st0)).
  { unfold ex_st1, hm_event. now rewrite E. }
  cbv zeta. rewrite Est. simpl m_store. simpl m_handles.
  destruct (h_merkle_memoised yH _ _ _ _ _ _ ex_Hnz (proj1 Hi) Hcl (proj2 (proj2 (proj2 Hi)) _ _ Hx)
              (le_n _) Em) as [Hm _].
  split; [apply Hi'|]. split; [apply Hi'|]. split; [exact Hm|]. split.
  - eapply memoised_leaf. eapply ext_memo_leaf.
    + destruct (h_merkle_heap yH _ _ _ _ _ _ (proj1 Hi) (proj2 (proj2 (proj2 Hi)) _ _ Hx) (le_n _) Em)
        as (He & _). exact He.
    + vm_compute. reflexivity.
  - split; [exact Hx|].
    assert (Eh : h' = m_store _ _ ex_st1) by (rewrite Est; reflexivity). rewrite Eh.
    eexists _, _, _, _. split; vm_compute; reflexivity.
Qed.

(* ------------------------------------------------------------------------------------- *)
(* 11. the machine never reads a memo: steps are insensitive to hash requests             *)
(* ------------------------------------------------------------------------------------- *)

(* 11a. generic: if the store primitives respect a relation Q between stores (returning the
   same references and results), so does every machine step. *)
Section Param.
Variable T St : Type.
Variable s_get : St -> T -> N -> res T.
Variable s_set : St -> T -> N -> bool -> T -> res (T * St).
Variable s_leaf : St -> chunk -> T * St.
Variable s_pair : St -> T -> T -> T * St.
Variable s_chunk : St -> T -> res chunk.
Variable s_zero : nat -> T.
Variable s_true : T.
Variable zh : nat -> chunk.

Local Notation Mlength := (m_length T St s_get s_chunk).
Local Notation Mcheck := (m_check_index T St s_get s_chunk).
Local Notation Mgetn := (m_get_node T St s_get).
Local Notation Msetn := (m_set_node T St s_set).
Local Notation Msetlen := (m_set_length T St s_set s_leaf).
Local Notation Mpset := (m_packed_set T St s_get s_set s_leaf s_chunk).
Local Notation Mbapp := (m_basic_append T St s_get s_set s_leaf s_chunk zh).
Local Notation Mbpop := (m_basic_pop T St s_get s_set s_leaf s_chunk zh).
Local Notation Mbitset := (m_bit_set T St s_get s_set s_leaf s_chunk).
Local Notation Mbitapp := (m_bit_append T St s_get s_set s_leaf s_chunk zh).
Local Notation Mbitpop := (m_bit_pop T St s_get s_set s_leaf s_chunk).
Local Notation Mcapp := (m_complex_append T St s_get s_set s_leaf s_chunk).
Local Notation Mcpop := (m_complex_pop T St s_get s_set s_leaf s_chunk s_zero).
Local Notation Mslot := (m_slot_set T St s_get s_set s_chunk).
Local Notation Alloc := (alloc_node T St s_leaf s_pair).
Local Notation SetB := (set_backing T St s_get s_set s_chunk).
Local Notation Resolve := (resolve_src T St s_leaf s_pair s_zero s_true zh).
Local Notation Mutate := (mutate T St s_get s_set s_leaf s_pair s_chunk s_zero s_true zh).
Local Notation Step := (step T St s_get s_set s_leaf s_pair s_chunk s_zero s_true zh).
Local Notation Hdl st := (m_handles T St st).
Local Notation Sto st := (m_store T St st).

Variable Q : St -> St -> Prop.

Definition rel_res (r1 r2 : res (T * St)) : Prop :=
  match r1, r2 with
  | OK (t1, s1), OK (t2, s2) => t1 = t2 /\ Q s1 s2
  | Err, Err => True
  | Panic, Panic => True
  | _, _ => False
  end.

Definition rel_pair (r1 r2 : T * St) : Prop := fst r1 = fst r2 /\ Q (snd r1) (snd r2).

Hypothesis get_q : forall s1 s2 a g, Q s1 s2 -> s_get s1 a g = s_get s2 a g.
Hypothesis chunk_q : forall s1 s2 a, Q s1 s2 -> s_chunk s1 a = s_chunk s2 a.
Hypothesis leaf_q : forall s1 s2 c, Q s1 s2 -> rel_pair (s_leaf s1 c) (s_leaf s2 c).
Hypothesis pair_q : forall s1 s2 l r, Q s1 s2 -> rel_pair (s_pair s1 l r) (s_pair s2 l r).
Hypothesis set_q : forall s1 s2 a g e v, Q s1 s2 -> rel_res (s_set s1 a g e v) (s_set s2 a g e v).

Lemma rel_bind_pure {A} (x : res A) (k1 k2 : A -> res (T * St)) :
  (forall a, rel_res (k1 a) (k2 a)) -> rel_res (bind x k1) (bind x k2).
Proof. intros Hk. destruct x; simpl; auto. Qed.

Lemma rel_bind_rel (x1 x2 : res (T * St)) (k1 k2 : T * St -> res (T * St)) :
  rel_res x1 x2 -> (forall t s1 s2, Q s1 s2 -> rel_res (k1 (t, s1)) (k2 (t, s2))) ->
  rel_res (bind x1 k1) (bind x2 k2).
Proof.
  intros Hx Hk. destruct x1 as [[t1 s1]| |], x2 as [[t2 s2]| |]; simpl in *; try contradiction; auto.
  destruct Hx as [-> HQ]. now apply Hk.
Qed.

Lemma rel_leaf s1 s2 c (k1 k2 : T -> St -> res (T * St)) :
  Q s1 s2 -> (forall l s1' s2', Q s1' s2' -> rel_res (k1 l s1') (k2 l s2')) ->
  rel_res (let '(l, s) := s_leaf s1 c in k1 l s) (let '(l, s) := s_leaf s2 c in k2 l s).
Proof.
  intros HQ Hk. destruct (leaf_q _ _ c HQ) as [E HQ'].
  destruct (s_leaf s1 c) as [l1 s1'], (s_leaf s2 c) as [l2 s2']. simpl in *. subst. now apply Hk.
Qed.

Lemma rel_if (c : bool) (a1 a2 b1 b2 : res (T * St)) :
  rel_res a1 a2 -> rel_res b1 b2 -> rel_res (if c then a1 else b1) (if c then a2 else b2).
Proof. destruct c; auto. Qed.

Lemma rel_err : rel_res Err Err.
Proof. exact I. Qed.

Lemma m_length_q limit s1 s2 a : Q s1 s2 -> Mlength limit s1 a = Mlength limit s2 a.
Proof.
  intros HQ. unfold m_length. rewrite (get_q _ _ a 3 HQ). destruct (s_get s2 a 3); simpl; auto.
  now rewrite (chunk_q _ _ _ HQ).
Qed.

Lemma m_check_q t s1 s2 a i : Q s1 s2 -> Mcheck t s1 a i = Mcheck t s2 a i.
Proof. intros HQ. unfold m_check_index. now rewrite (m_length_q _ _ _ _ HQ). Qed.

Lemma m_get_node_q t s1 s2 a i : Q s1 s2 -> Mgetn t s1 a i = Mgetn t s2 a i.
Proof.
  intros HQ. unfold m_get_node. destruct (to_gindex64 i (view_depth t)); simpl; auto.
Qed.

Lemma get_chunk_q {B} t s1 s2 a i (k : chunk -> res B) :
  Q s1 s2 ->
  bind (Mgetn t s1 a i) (fun b => bind (s_chunk s1 b) k) =
  bind (Mgetn t s2 a i) (fun b => bind (s_chunk s2 b) k).
Proof.
  intros HQ. rewrite (m_get_node_q _ _ _ _ _ HQ). destruct (Mgetn t s2 a i); simpl; auto.
  now rewrite (chunk_q _ _ _ HQ).
Qed.

Lemma m_set_node_rel t s1 s2 a i v : Q s1 s2 -> rel_res (Msetn t s1 a i v) (Msetn t s2 a i v).
Proof. intros HQ. unfold m_set_node. apply rel_bind_pure. intros g. now apply set_q. Qed.

Lemma m_set_length_rel s1 s2 a len : Q s1 s2 -> rel_res (Msetlen s1 a len) (Msetlen s2 a len).
Proof.
  intros HQ. unfold m_set_length. apply rel_leaf; [exact HQ|]. intros l s1' s2' HQ'. now apply set_q.
Qed.

Lemma set_then_length_rel s1 s2 a g e v len :
  Q s1 s2 ->
  rel_res (do x <- s_set s1 a g e v; let '(a1, s) := x in Msetlen s a1 len)
          (do x <- s_set s2 a g e v; let '(a1, s) := x in Msetlen s a1 len).
Proof.
  intros HQ. apply rel_bind_rel; [now apply set_q|]. intros t s1' s2' HQ'.
  now apply m_set_length_rel.
Qed.

Lemma m_packed_set_rel t e s1 s2 a i v : Q s1 s2 -> rel_res (Mpset t e s1 a i v) (Mpset t e s2 a i v).
Proof.
  intros HQ. unfold m_packed_set. rewrite (get_chunk_q _ _ _ _ _ _ HQ).
  apply rel_bind_pure. intros b. apply rel_bind_pure. intros c. apply rel_bind_pure. intros c'.
  apply rel_leaf; [exact HQ|]. intros l s1' s2' HQ'. now apply m_set_node_rel.
Qed.

Lemma m_basic_append_rel t e limit s1 s2 a v :
  Q s1 s2 -> rel_res (Mbapp t e limit s1 a v) (Mbapp t e limit s2 a v).
Proof.
  intros HQ. unfold m_basic_append. rewrite (m_length_q _ _ _ _ HQ).
  apply rel_bind_pure. intros ll. apply rel_if; [exact I|].
  apply rel_bind_pure. intros g.
  assert (E : (if ll mod per_node e =? 0 then packed_set e (zh 0) 0 v
               else do b <- Mgetn t s1 a (ll / per_node e); do c <- s_chunk s1 b;
                    packed_set e c (wrap8 (N.land ll (per_node e - 1))) v) =
              (if ll mod per_node e =? 0 then packed_set e (zh 0) 0 v
               else do b <- Mgetn t s2 a (ll / per_node e); do c <- s_chunk s2 b;
                    packed_set e c (wrap8 (N.land ll (per_node e - 1))) v)).
  { destruct (_ =? 0); [reflexivity|]. now apply get_chunk_q. }
  cbv zeta. rewrite E. apply rel_bind_pure. intros c'.
  apply rel_leaf; [exact HQ|]. intros l s1' s2' HQ'. now apply set_then_length_rel.
Qed.

Lemma m_basic_pop_rel t e limit s1 s2 a :
  Q s1 s2 -> rel_res (Mbpop t e limit s1 a) (Mbpop t e limit s2 a).
Proof.
  intros HQ. unfold m_basic_pop. rewrite (m_length_q _ _ _ _ HQ).
  apply rel_bind_pure. intros ll. apply rel_if; [exact I|]. cbv zeta.
  apply rel_bind_pure. intros g. rewrite (get_chunk_q _ _ _ _ _ _ HQ).
  apply rel_bind_pure. intros b. apply rel_bind_pure. intros c.
  apply rel_bind_pure. intros dv. apply rel_bind_pure. intros c'.
  apply rel_leaf; [exact HQ|]. intros l s1' s2' HQ'. now apply set_then_length_rel.
Qed.

Lemma m_bit_set_rel t s1 s2 a i b : Q s1 s2 -> rel_res (Mbitset t s1 a i b) (Mbitset t s2 a i b).
Proof.
  intros HQ. unfold m_bit_set. rewrite (get_chunk_q _ _ _ _ _ _ HQ).
  apply rel_bind_pure. intros bn. apply rel_bind_pure. intros c.
  apply rel_leaf; [exact HQ|]. intros l s1' s2' HQ'. now apply m_set_node_rel.
Qed.

Lemma m_bit_append_rel t limit s1 s2 a b :
  Q s1 s2 -> rel_res (Mbitapp t limit s1 a b) (Mbitapp t limit s2 a b).
Proof.
  intros HQ. unfold m_bit_append. rewrite (m_length_q _ _ _ _ HQ).
  apply rel_bind_pure. intros ll. apply rel_if; [exact I|].
  apply rel_bind_pure. intros g.
  assert (E : (if N.land ll 255 =? 0 then OK (chunk_set_bit (zh 0) 0 b)
               else do bn <- Mgetn t s1 a (N.shiftr ll 8); do c <- s_chunk s1 bn;
                    OK (chunk_set_bit c (wrap8 ll) b)) =
              (if N.land ll 255 =? 0 then OK (chunk_set_bit (zh 0) 0 b)
               else do bn <- Mgetn t s2 a (N.shiftr ll 8); do c <- s_chunk s2 bn;
                    OK (chunk_set_bit c (wrap8 ll) b))).
  { destruct (_ =? 0); [reflexivity|]. now apply get_chunk_q. }
  rewrite E. apply rel_bind_pure. intros c'.
  apply rel_leaf; [exact HQ|]. intros l s1' s2' HQ'. now apply set_then_length_rel.
Qed.

Lemma m_bit_pop_rel t limit s1 s2 a :
  Q s1 s2 -> rel_res (Mbitpop t limit s1 a) (Mbitpop t limit s2 a).
Proof.
  intros HQ. unfold m_bit_pop. rewrite (m_length_q _ _ _ _ HQ).
  apply rel_bind_pure. intros ll. apply rel_if; [exact I|].
  apply rel_bind_pure. intros g. rewrite (get_chunk_q _ _ _ _ _ _ HQ).
  apply rel_bind_pure. intros bn. apply rel_bind_pure. intros c.
  apply rel_leaf; [exact HQ|]. intros l s1' s2' HQ'. now apply set_then_length_rel.
Qed.

Lemma m_complex_append_rel t limit s1 s2 a v :
  Q s1 s2 -> rel_res (Mcapp t limit s1 a v) (Mcapp t limit s2 a v).
Proof.
  intros HQ. unfold m_complex_append. rewrite (m_length_q _ _ _ _ HQ).
  apply rel_bind_pure. intros ll. apply rel_if; [exact I|].
  apply rel_bind_pure. intros g. now apply set_then_length_rel.
Qed.

Lemma m_complex_pop_rel t limit s1 s2 a :
  Q s1 s2 -> rel_res (Mcpop t limit s1 a) (Mcpop t limit s2 a).
Proof.
  intros HQ. unfold m_complex_pop. rewrite (m_length_q _ _ _ _ HQ).
  apply rel_bind_pure. intros ll. apply rel_if; [exact I|].
  apply rel_bind_pure. intros g. now apply set_then_length_rel.
Qed.

Lemma m_slot_set_rel t s1 s2 a i v : Q s1 s2 -> rel_res (Mslot t s1 a i v) (Mslot t s2 a i v).
Proof.
  intros HQ. unfold m_slot_set. destruct t; try exact I.
  - apply rel_if; [exact I|now apply m_set_node_rel].
  - rewrite (m_check_q _ _ _ _ _ HQ). apply rel_bind_pure. intros _. now apply m_set_node_rel.
  - apply rel_if; [exact I|now apply m_set_node_rel].
Qed.

Lemma alloc_node_rel n : forall s1 s2, Q s1 s2 -> rel_pair (Alloc s1 n) (Alloc s2 n).
Proof.
  induction n as [c|l IHl r IHr]; intros s1 s2 HQ; simpl.
  - now apply leaf_q.
  - destruct (IHl _ _ HQ) as [El Ql].
    destruct (Alloc s1 l) as [l1 s1'], (Alloc s2 l) as [l2 s2']. simpl in *. subst l2.
    destruct (IHr _ _ Ql) as [Er Qr].
    destruct (Alloc s1' r) as [r1 s1''], (Alloc s2' r) as [r2 s2'']. simpl in *. subst r2.
    now apply pair_q.
Qed.

Definition srel (st1 st2 : mstate T St) : Prop := Hdl st1 = Hdl st2 /\ Q (Sto st1) (Sto st2).

Lemma rel_pair_res p1 p2 : rel_pair p1 p2 -> rel_res (OK p1) (OK p2).
Proof. destruct p1, p2. simpl. auto. Qed.

Lemma resolve_src_rel st1 st2 x want :
  srel st1 st2 -> rel_res (Resolve st1 x want) (Resolve st2 x want).
Proof.
  intros [Eh HQ]. unfold resolve_src.
  assert (Halloc : forall t v,
    rel_res (do n <- from_val zh t v; OK (Alloc (Sto st1) n)) (do n <- from_val zh t v; OK (Alloc (Sto st2) n))).
  { intros t v. apply rel_bind_pure. intros n. apply rel_pair_res. now apply alloc_node_rel. }
  destruct x as [t v|h|].
  - destruct t; try apply Halloc. destruct v; try apply Halloc. simpl. auto.
  - unfold get_handle. rewrite Eh. destruct (nth_error (Hdl st2) h); simpl; auto.
  - apply rel_pair_res. now apply leaf_q.
Qed.

Lemma resolve_then_rel st1 st2 v want (k1 k2 : T -> St -> res (T * St)) :
  srel st1 st2 -> (forall b s1 s2, Q s1 s2 -> rel_res (k1 b s1) (k2 b s2)) ->
  rel_res (do r0 <- Resolve st1 v want; let '(b, s) := r0 in k1 b s)
          (do r0 <- Resolve st2 v want; let '(b, s) := r0 in k2 b s).
Proof.
  intros HS Hk. apply rel_bind_rel; [now apply resolve_src_rel|]. intros t s1 s2 HQ. now apply Hk.
Qed.

Lemma mutate_rel st1 st2 x o : srel st1 st2 -> rel_res (Mutate st1 x o) (Mutate st2 x o).
Proof.
  intros HS. pose proof HS as [Eh HQ]. unfold mutate. cbv zeta.
  destruct o as [h i|h|h|h i v|h v|h|h sel v]; try (destruct (h_ty T x); exact I).
  - destruct (h_ty T x); try exact I.
    + apply rel_if; [exact I|]. apply rel_bind_pure. intros b. now apply m_bit_set_rel.
    + rewrite (m_check_q _ _ _ _ _ HQ). apply rel_bind_pure. intros _. apply rel_bind_pure. intros b.
      now apply m_bit_set_rel.
    + apply rel_if.
      * apply rel_if; [exact I|]. apply rel_bind_pure. intros lv. now apply m_packed_set_rel.
      * apply resolve_then_rel; [exact HS|]. intros b s1 s2 HQ'. now apply m_slot_set_rel.
    + apply rel_if.
      * rewrite (m_check_q _ _ _ _ _ HQ). apply rel_bind_pure. intros _. apply rel_bind_pure. intros lv.
        now apply m_packed_set_rel.
      * apply resolve_then_rel; [exact HS|]. intros b s1 s2 HQ'. now apply m_slot_set_rel.
    + apply resolve_then_rel; [exact HS|]. intros b s1 s2 HQ'. now apply m_slot_set_rel.
  - destruct (h_ty T x); try exact I.
    + apply rel_bind_pure. intros b. now apply m_bit_append_rel.
    + apply rel_if.
      * apply rel_bind_pure. intros lv. now apply m_basic_append_rel.
      * apply resolve_then_rel; [exact HS|]. intros b s1 s2 HQ'. now apply m_complex_append_rel.
  - destruct (h_ty T x); try exact I.
    + now apply m_bit_pop_rel.
    + apply rel_if; [now apply m_basic_pop_rel|now apply m_complex_pop_rel].
  - destruct (h_ty T x); try exact I. apply rel_if; [exact I|].
    assert (Hk : forall b s1 s2, Q s1 s2 ->
              rel_res (let '(sl, s) := s_leaf s1 (pad32 [byte_of_N sel]) in OK (s_pair s b sl))
                      (let '(sl, s) := s_leaf s2 (pad32 [byte_of_N sel]) in OK (s_pair s b sl))).
    { intros b s1 s2 HQ'. apply (rel_leaf s1 s2 _ (fun sl s => OK (s_pair s b sl)) (fun sl s => OK (s_pair s b sl)) HQ').
      intros l s1' s2' HQ''. apply rel_pair_res. now apply pair_q. }
    destruct v as [t0 v0|h0|].
    + apply resolve_then_rel; [exact HS|exact Hk].
    + apply resolve_then_rel; [exact HS|exact Hk].
    + apply (rel_bind_rel _ _ (fun r0 => let '(c, s) := r0 in let '(sl, s2) := s_leaf s (pad32 [byte_of_N sel]) in OK (s_pair s2 c sl))
                              (fun r0 => let '(c, s) := r0 in let '(sl, s2) := s_leaf s (pad32 [byte_of_N sel]) in OK (s_pair s2 c sl))).
      * apply rel_if; [exact I|now apply resolve_src_rel].
      * intros t s1 s2 HQ'. now apply Hk.
Qed.

Lemma put_back_rel st1 st2 h b s1 s2 :
  srel st1 st2 -> Q s1 s2 -> srel (put_back T St st1 h b s1) (put_back T St st2 h b s2).
Proof.
  intros [Eh HQ] HQ'. unfold put_back, srel. rewrite Eh.
  destruct (nth_error (Hdl st2) h); simpl; auto.
Qed.

Lemma set_backing_rel fuel : forall st1 st2 h b s1 s2,
  srel st1 st2 -> Q s1 s2 ->
  srel (fst (SetB fuel st1 h b s1)) (fst (SetB fuel st2 h b s2)) /\
  snd (SetB fuel st1 h b s1) = snd (SetB fuel st2 h b s2).
Proof.
  induction fuel as [|f IH]; intros st1 st2 h b s1 s2 HS HQ.
  - simpl. split; [now apply put_back_rel|reflexivity].
  - cbn [set_backing].
    pose proof (put_back_rel _ _ h b _ _ HS HQ) as HS1.
    set (p1 := put_back T St st1 h b s1) in *. set (p2 := put_back T St st2 h b s2) in *.
    pose proof HS1 as [Eh1 HQ1]. rewrite Eh1.
    destruct (nth_error (Hdl p2) h) as [x|]; [|simpl; auto].
    destruct (h_hook T x) as [[p i]|]; [|simpl; auto].
    destruct (nth_error (Hdl p2) p) as [px|]; [|simpl; auto].
    pose proof (m_slot_set_rel (h_ty T px) _ _ (h_back T px) i b HQ1) as Hm.
    destruct (Mslot (h_ty T px) (Sto p1) (h_back T px) i b) as [[pb1 s1']| |],
             (Mslot (h_ty T px) (Sto p2) (h_back T px) i b) as [[pb2 s2']| |];
      simpl in Hm; try contradiction; simpl; auto.
    destruct Hm as [-> HQ']. now apply IH.
Qed.

Theorem step_rel st1 st2 o :
  srel st1 st2 -> srel (fst (Step st1 o)) (fst (Step st2 o)) /\ snd (Step st1 o) = snd (Step st2 o).
Proof.
  intros HS. pose proof HS as [Eh HQ]. unfold step.
  assert (Hmut : forall h x,
     let f := fun st => match Mutate st x o with
        | OK (b, s') =>
          let '(st1, r) := SetB (hook_fuel T St st) st h b s' in
          (st1, match r with OK _ => OK MUnit | Err => Err | Panic => Panic end)
        | Err => (st, Err)
        | Panic => (st, Panic)
        end in
     srel (fst (f st1)) (fst (f st2)) /\ snd (f st1) = snd (f st2)).
  { intros h x. cbv beta zeta. pose proof (mutate_rel _ _ x o HS) as Hm.
    destruct (Mutate st1 x o) as [[b1 s1']| |]; destruct (Mutate st2 x o) as [[b2 s2']| |];
      simpl in Hm; try contradiction;
      [|split; [exact HS|reflexivity]|split; [exact HS|reflexivity]].
    destruct Hm as [-> HQ'].
    assert (Ef : hook_fuel T St st1 = hook_fuel T St st2) by (unfold hook_fuel; now rewrite Eh).
    rewrite Ef. destruct (set_backing_rel (hook_fuel T St st2) _ _ h b2 _ _ HS HQ') as [A B].
    destruct (SetB (hook_fuel T St st2) st1 h b2 s1') as [r1 o1],
             (SetB (hook_fuel T St st2) st2 h b2 s2') as [r2 o2]. simpl in *. subst o2. auto. }
  unfold get_handle. rewrite Eh.
  destruct o as [h i|h|h|h i v|h v|h|h sel v].
  - destruct (nth_error (Hdl st2) h) as [x|]; [|simpl; auto].
    rewrite (m_check_q _ _ _ _ _ HQ), (m_get_node_q _ _ _ _ _ HQ).
    match goal with |- context [match ?e with Some _ => _ | None => (st1, Err) end] =>
      destruct e as [e0|] end; [|simpl; auto].
    destruct (Mgetn (h_ty T x) (Sto st2) (h_back T x) i); simpl; auto.
    unfold srel. simpl. rewrite Eh. auto.
  - destruct (nth_error (Hdl st2) h) as [x|]; [|simpl; auto].
    destruct (h_ty T x); simpl; auto.
    rewrite (get_q _ _ (h_back T x) 3 HQ).
    destruct (s_get (Sto st2) (h_back T x) 3) as [r| |]; simpl; auto.
    rewrite (chunk_q _ _ r HQ). destruct (s_chunk (Sto st2) r) as [s| |]; simpl; auto.
    destruct (negb _); simpl; auto. destruct (_ <=? _); simpl; auto.
    rewrite (get_q _ _ (h_back T x) 2 HQ).
    destruct (s_get (Sto st2) (h_back T x) 2) as [c| |]; simpl; auto.
    destruct (union_opt none opts _); simpl; auto. unfold srel. simpl. rewrite Eh. auto.
  - destruct (nth_error (Hdl st2) h) as [x|]; [|simpl; auto].
    simpl. unfold srel. simpl. rewrite Eh. auto.
  - destruct (nth_error (Hdl st2) h) as [x|]; [|simpl; auto]. apply (Hmut h x).
  - destruct (nth_error (Hdl st2) h) as [x|]; [|simpl; auto]. apply (Hmut h x).
  - destruct (nth_error (Hdl st2) h) as [x|]; [|simpl; auto]. apply (Hmut h x).
  - destruct (nth_error (Hdl st2) h) as [x|]; [|simpl; auto]. apply (Hmut h x).
Qed.

End Param.

(* 11b. the heap instance: two heaps that agree up to memos *)
Definition cell_strip (c : cell) : cell :=
  match c with CLeaf x => CLeaf x | CPair _ l r => CPair zero_chunk l r end.

(* [memo_eq h1 h2]: same hp_next, and at every address the same cell up to the memo *)
Definition memo_eq (h1 h2 : heap) : Prop :=
  hp_next h1 = hp_next h2 /\
  forall a, option_map cell_strip (h_cell h1 a) = option_map cell_strip (h_cell h2 a).

Lemma memo_eq_refl h : memo_eq h h.
Proof. split; auto. Qed.

Lemma memo_eq_sym h1 h2 : memo_eq h1 h2 -> memo_eq h2 h1.
Proof. intros [A B]. split; [now symmetry|]. intros a. now symmetry. Qed.

Lemma memo_eq_trans h1 h2 h3 : memo_eq h1 h2 -> memo_eq h2 h3 -> memo_eq h1 h3.
Proof. intros [A1 B1] [A2 B2]. split; [congruence|]. intros a. now rewrite B1. Qed.

Lemma memo_eq_cell h1 h2 a :
  memo_eq h1 h2 ->
  match h_cell h1 a, h_cell h2 a with
  | None, None => True
  | Some (CLeaf c1), Some (CLeaf c2) => c1 = c2
  | Some (CPair _ l1 r1), Some (CPair _ l2 r2) => l1 = l2 /\ r1 = r2
  | _, _ => False
  end.
Proof.
  intros [_ B]. specialize (B a).
  destruct (h_cell h1 a) as [[c1|m1 l1 r1]|], (h_cell h2 a) as [[c2|m2 l2 r2]|]; simpl in B;
    try discriminate; auto.
  - now injection B.
  - injection B as -> ->. auto.
Qed.

Lemma ext_memo_memo_eq h h' : heap_ext_memo h h' -> heap_same_dom h h' -> memo_eq h h'.
Proof.
  intros [A _] [Hn Hd]. split; [now symmetry|]. intros a.
  destruct (h_cell h a) as [c|] eqn:Hc.
  - destruct (A _ _ Hc) as (c' & -> & [->|(m & l & r & -> & ->)]); reflexivity.
  - now rewrite (Hd _ Hc).
Qed.

Lemma habs_memo_eq h1 h2 a n : memo_eq h1 h2 -> habs h1 a n -> habs h2 a n.
Proof.
  intros HQ. induction 1 as [a c Hc|a memo l r x y Hc Hl IHl Hr IHr];
    pose proof (memo_eq_cell _ _ a HQ) as Hm; rewrite Hc in Hm.
  - destruct (h_cell h2 a) as [[c2|m2 l2 r2]|] eqn:Hc2; try contradiction. subst. now apply habs_leaf.
  - destruct (h_cell h2 a) as [[c2|m2 l2 r2]|] eqn:Hc2; try contradiction. destruct Hm as [<- <-].
    eapply habs_pair; eauto.
Qed.

Lemma h_get_path_memo_eq h1 h2 p : forall a, memo_eq h1 h2 -> h_get_path h1 a p = h_get_path h2 a p.
Proof.
  induction p as [|b p IH]; intros a HQ; simpl; [reflexivity|].
  pose proof (memo_eq_cell _ _ a HQ) as Hm.
  destruct (h_cell h1 a) as [[c1|m1 l1 r1]|], (h_cell h2 a) as [[c2|m2 l2 r2]|]; try contradiction; auto.
  destruct Hm as [<- <-]. now apply IH.
Qed.

Lemma h_chunk_memo_eq h1 h2 a : memo_eq h1 h2 -> h_chunk h1 a = h_chunk h2 a.
Proof.
  intros HQ. unfold h_chunk. pose proof (memo_eq_cell _ _ a HQ) as Hm.
  destruct (h_cell h1 a) as [[c1|m1 l1 r1]|], (h_cell h2 a) as [[c2|m2 l2 r2]|]; try contradiction; auto.
  now subst.
Qed.

Lemma h_alloc_memo_eq h1 h2 c :
  memo_eq h1 h2 -> fst (h_alloc h1 c) = fst (h_alloc h2 c) /\ memo_eq (snd (h_alloc h1 c)) (snd (h_alloc h2 c)).
Proof.
  intros [A B]. split; [exact A|]. split; [rewrite !h_alloc_next; now rewrite A|].
  intros a. destruct (Pos.eq_dec a (hp_next h1)) as [->|Hne].
  - rewrite h_alloc_new. rewrite A. now rewrite h_alloc_new.
  - rewrite h_alloc_old by exact Hne. rewrite h_alloc_old by (now rewrite <- A). apply B.
Qed.

Lemma h_step_children_memo_eq zh h1 h2 a k e :
  memo_eq h1 h2 -> h_step_children zh h1 a k e = h_step_children zh h2 a k e.
Proof.
  intros HQ. unfold h_step_children. pose proof (memo_eq_cell _ _ a HQ) as Hm.
  destruct (h_cell h1 a) as [[c1|m1 l1 r1]|], (h_cell h2 a) as [[c2|m2 l2 r2]|]; try contradiction; auto.
  - now subst.
  - now destruct Hm as [<- <-].
Qed.

Lemma h_set_path_memo_eq zh p : forall h1 h2 a e v,
  memo_eq h1 h2 -> rel_res addr heap memo_eq (h_set_path zh h1 a p e v) (h_set_path zh h2 a p e v).
Proof.
  induction p as [|b p IH]; intros h1 h2 a e v HQ.
  - simpl. auto.
  - rewrite !h_set_path_cons. rewrite (h_step_children_memo_eq zh _ _ a (length p) e HQ).
    destruct (h_step_children zh h2 a (length p) e) as [[l r]| |]; cbn [bind]; try exact I.
    destruct b.
    + specialize (IH h1 h2 r e v HQ).
      destruct (h_set_path zh h1 r p e v) as [[r1 h1']| |], (h_set_path zh h2 r p e v) as [[r2 h2']| |];
        simpl in IH; try contradiction; cbn [bind]; try exact I.
      destruct IH as [-> HQ']. rewrite !h_pair_eq.
      destruct (h_alloc_memo_eq _ _ (CPair zero_chunk l r2) HQ') as [E1 E2]. simpl. split; [exact E1|exact E2].
    + specialize (IH h1 h2 l e v HQ).
      destruct (h_set_path zh h1 l p e v) as [[l1 h1']| |], (h_set_path zh h2 l p e v) as [[l2 h2']| |];
        simpl in IH; try contradiction; cbn [bind]; try exact I.
      destruct IH as [-> HQ']. rewrite !h_pair_eq.
      destruct (h_alloc_memo_eq _ _ (CPair zero_chunk l2 r) HQ') as [E1 E2]. simpl. split; [exact E1|exact E2].
Qed.

Section Insensitive.
Variable H : chunk -> chunk -> chunk.
Variable zh : nat -> chunk.

Definition hm_rel (st1 st2 : hm_state) : Prop :=
  m_handles _ _ st1 = m_handles _ _ st2 /\ memo_eq (m_store _ _ st1) (m_store _ _ st2).

(* a step on two states that differ only in memos: same output, same handles, and the new
   heaps again differ only in memos (in particular the same addresses were allocated) *)
Lemma hm_step_memo_eq st1 st2 o :
  hm_rel st1 st2 ->
  hm_rel (fst (hm_step zh st1 o)) (fst (hm_step zh st2 o)) /\
  snd (hm_step zh st1 o) = snd (hm_step zh st2 o).
Proof.
  intros HS. unfold hm_step.
  apply (step_rel addr heap h_getter (h_setter zh) h_leaf h_pair h_chunk zero_addr true_addr zh memo_eq).
  - intros s1 s2 a g HQ. unfold h_getter. now apply h_get_path_memo_eq.
  - intros s1 s2 a HQ. now apply h_chunk_memo_eq.
  - intros s1 s2 c HQ. unfold h_leaf. now apply h_alloc_memo_eq.
  - intros s1 s2 l r HQ. unfold h_pair. now apply h_alloc_memo_eq.
  - intros s1 s2 a g e v HQ. unfold h_setter. now apply h_set_path_memo_eq.
  - exact HS.
Qed.

Lemma hm_event_memo_eq st1 st2 e :
  hm_inv zh st1 -> hm_inv zh st2 -> hm_rel st1 st2 ->
  hm_rel (hm_event H zh st1 e) (hm_event H zh st2 e).
Proof.
  intros Hi1 Hi2 HS. destruct e as [o|k]; simpl.
  - apply hm_step_memo_eq. exact HS.
  - destruct HS as [Eh HQ].
    assert (Hh : forall st, hm_inv zh st ->
              m_handles _ _ (match hm_hash H st k with OK (_, st', _) => st' | _ => st end) = m_handles _ _ st /\
              memo_eq (m_store _ _ st) (m_store _ _ (match hm_hash H st k with OK (_, st', _) => st' | _ => st end))).
    { intros st Hi. destruct (nth_error (m_handles _ _ st) k) as [x|] eqn:Hx.
      - destruct (hm_hash_spec H zh st k x Hi Hx) as (r & h' & c & E & Em & _). rewrite E. simpl.
        split; [reflexivity|].
        destruct (h_merkle_heap H _ _ _ _ _ _ (proj1 Hi) (proj2 (proj2 (proj2 Hi)) _ _ Hx) (le_n _) Em)
          as (He & Hd & _). now apply ext_memo_memo_eq.
      - unfold hm_hash. rewrite Hx. split; [reflexivity|apply memo_eq_refl]. }
    destruct (Hh _ Hi1) as [A1 B1]. destruct (Hh _ Hi2) as [A2 B2].
    split; [etransitivity; [exact A1|]; etransitivity; [exact Eh|]; symmetry; exact A2|].
    eapply memo_eq_trans; [apply memo_eq_sym; exact B1|]. eapply memo_eq_trans; [exact HQ|exact B2].
Qed.

(* erase the hash requests of a history *)
Definition steps_only (evs : list hev) : list hev :=
  filter (fun e => match e with EStep _ => true | EHash _ => false end) evs.

Lemma hm_event_hash_rel st k : hm_inv zh st -> hm_rel (hm_event H zh st (EHash k)) st.
Proof.
  intros Hi. simpl. destruct (nth_error (m_handles _ _ st) k) as [x|] eqn:Hx.
  - destruct (hm_hash_spec H zh st k x Hi Hx) as (r & h' & c & E & Em & _). rewrite E.
    split; [reflexivity|]. simpl. apply memo_eq_sym.
    destruct (h_merkle_heap H _ _ _ _ _ _ (proj1 Hi) (proj2 (proj2 (proj2 Hi)) _ _ Hx) (le_n _) Em)
      as (He & Hd & _). now apply ext_memo_memo_eq.
  - unfold hm_hash. rewrite Hx. split; [reflexivity|apply memo_eq_refl].
Qed.

(* C06 at machine level: replaying a history with its hash requests, or with all of them
   erased, gives the same handles (same backing addresses) and heaps equal up to memos *)
Lemma hm_run_steps_only evs : forall st1 st2,
  hm_inv zh st1 -> hm_inv zh st2 -> hm_rel st1 st2 ->
  hm_rel (hm_run H zh st1 evs) (hm_run H zh st2 (steps_only evs)).
Proof.
  induction evs as [|e evs IH]; intros st1 st2 Hi1 Hi2 HS; simpl; [exact HS|].
  destruct e as [o|k]; simpl.
  - apply IH.
    + apply (hm_step_inv' zh st1 o Hi1).
    + apply (hm_step_inv' zh st2 o Hi2).
    + apply hm_step_memo_eq. exact HS.
  - apply IH; [|exact Hi2|].
    + destruct (hm_event_inv H zh st1 (EHash k) Hi1) as (Hi' & _). exact Hi'.
    + destruct (hm_event_hash_rel st1 k Hi1) as [A B]. destruct HS as [Eh HQ].
      split; [simpl in *; congruence|]. eapply memo_eq_trans; [exact B|exact HQ].
Qed.

(* hence the root of every handle at the end is the same, whether or not (and wherever)
   roots were requested on the way *)
Lemma hm_run_request_independent st evs k r1 st1 c1 r2 st2 c2 :
  hm_inv zh st -> memo_ok H (m_store _ _ st) ->
  hm_hash H (hm_run H zh st evs) k = OK (r1, st1, c1) ->
  hm_hash H (hm_run H zh st (steps_only evs)) k = OK (r2, st2, c2) ->
  r1 = r2.
Proof.
  intros Hi Hok E1 E2.
  destruct (hm_run_steps_only evs st st Hi Hi (conj eq_refl (memo_eq_refl _))) as [Eh HQ].
  destruct (hm_run_inv H zh evs st Hi) as (Hi1 & _ & Hok1 & _).
  destruct (hm_run_inv H zh (steps_only evs) st Hi) as (Hi2 & _ & Hok2 & _).
  unfold hm_hash in E1, E2. rewrite Eh in E1.
  destruct (nth_error (m_handles _ _ (hm_run H zh st (steps_only evs))) k) as [x|] eqn:Hx; [|discriminate].
  destruct (h_merkle H _ (m_store _ _ (hm_run H zh st evs)) _) as [[[ra ha] ca]| |] eqn:Ea; try discriminate.
  destruct (h_merkle H _ (m_store _ _ (hm_run H zh st (steps_only evs))) _) as [[[rb hb] cb]| |] eqn:Eb;
    try discriminate.
  injection E1 as <- _ _. injection E2 as <- _ _.
  destruct (habs_total _ _ (proj1 Hi2) (proj2 (proj2 (proj2 Hi2)) _ _ Hx)) as [n Hn].
  eapply (h_merkle_request_independent H); [apply Hi1|apply Hi2|now apply Hok1|now apply Hok2| |exact Hn| | |exact Ea|exact Eb];
    [eapply habs_memo_eq; [apply memo_eq_sym; exact HQ|exact Hn]|lia|lia].
Qed.

End Insensitive.

Section Commute.
Variable H : chunk -> chunk -> chunk.
Variable zh : nat -> chunk.

Lemma hm_rel_sym st1 st2 : hm_rel st1 st2 -> hm_rel st2 st1.
Proof. intros [A B]. split; [now symmetry|now apply memo_eq_sym]. Qed.

Lemma hm_rel_trans st1 st2 st3 : hm_rel st1 st2 -> hm_rel st2 st3 -> hm_rel st1 st3.
Proof. intros [A1 B1] [A2 B2]. split; [congruence|eapply memo_eq_trans; eauto]. Qed.

(* a hash request (of any fork, on any handle) and a step (of any fork) commute: the step
   returns the same output and allocates the same addresses whether the request came before
   or after it, and the two resulting states differ at most in memos *)
Lemma hm_hash_step_commute st k o :
  hm_inv zh st ->
  hm_rel (hm_event H zh (hm_event H zh st (EHash k)) (EStep o))
         (hm_event H zh (hm_event H zh st (EStep o)) (EHash k)) /\
  snd (hm_step zh (hm_event H zh st (EHash k)) o) = snd (hm_step zh st o).
Proof.
  intros Hi. pose proof (hm_event_hash_rel H zh st k Hi) as R1.
  destruct (hm_step_memo_eq zh _ _ o R1) as [R2 E2].
  pose proof (hm_event_hash_rel H zh _ k (proj1 (hm_step_inv' zh st o Hi))) as R3.
  split; [|exact E2]. eapply hm_rel_trans; [exact R2|]. apply hm_rel_sym. exact R3.
Qed.

End Commute.

(* the example history, with and without its hash requests: same final handles, same roots *)
Example ex_steps_only :
  steps_only ex_evs =
    [EStep (OGet 0 0); EStep (OSet 1 5 (SLit (TUint 8) (VUint 7))); EStep (OCopy 0);
     EStep (OSet 2 1 (SLit (TUint 8) (VUint 9)))] /\
  m_handles _ _ (hm_run yH yzh ex_st0 (steps_only ex_evs)) = m_handles _ _ (hm_run yH yzh ex_st0 ex_evs) /\
  (forall k, (k < 3)%nat ->
     match hm_hash yH (hm_run yH yzh ex_st0 ex_evs) k,
           hm_hash yH (hm_run yH yzh ex_st0 (steps_only ex_evs)) k with
     | OK (r1, _, _), OK (r2, _, _) => r1 = r2
     | _, _ => False
     end).
Proof.
  split; [reflexivity|]. split; [vm_compute; reflexivity|].
  intros k Hk. destruct k as [|[|[|k]]]; [vm_compute; reflexivity..|lia].
Qed.

(* ------------------------------------------------------------------------------------- *)
(* 12. C07 at machine level: after a step from a fully hashed state, a hash request costs  *)
(*     at most one hash per cell the step allocated; a Setter allocates one pair per level *)
(* ------------------------------------------------------------------------------------- *)

Lemma memoised_reach_set h a b : memoised h a -> reach h a b -> unset_pair h b -> False.
Proof.
  intros Hm Hr. revert Hm. induction Hr as [a|a m l r b Hc Hr IH|a m l r b Hc Hr IH]; intros Hm Hu.
  - destruct Hu as (l & r & Hc). inversion Hm as [a0 c Hc0|a0 m l0 r0 Hc0 Hz _ _]; subst; rewrite Hc in Hc0.
    + discriminate.
    + injection Hc0 as <- _ _. now apply Hz.
  - inversion Hm as [a0 c Hc0|a0 m0 l0 r0 Hc0 Hz Hl0 Hr0]; subst; rewrite Hc in Hc0; [discriminate|].
    injection Hc0 as _ <- <-. now apply IH.
  - inversion Hm as [a0 c Hc0|a0 m0 l0 r0 Hc0 Hz Hl0 Hr0]; subst; rewrite Hc in Hc0; [discriminate|].
    injection Hc0 as _ <- <-. now apply IH.
Qed.

Lemma h_get_path_reach h p : forall a t, h_get_path h a p = OK t -> reach h a t.
Proof.
  induction p as [|d p IH]; intros a t Hg; simpl in Hg.
  - injection Hg as <-. apply reach_refl.
  - destruct (h_cell h a) as [[c|memo l r]|] eqn:Hc; try discriminate.
    destruct d; [eapply reach_right|eapply reach_left]; eauto.
Qed.

(* the Setter allocates exactly one cell (a pair) per level of the path *)
Lemma h_set_path_allocates zh p : forall h a e v a' h',
  h_set_path zh h a p e v = OK (a', h') ->
  Pos.to_nat (hp_next h') = (Pos.to_nat (hp_next h) + length p)%nat.
Proof.
  induction p as [|b p IH]; intros h a e v a' h' Hs.
  - simpl in Hs. injection Hs as <- <-. simpl. lia.
  - rewrite h_set_path_cons in Hs.
    destruct (h_step_children zh h a (length p) e) as [[l r]| |]; cbn [bind] in Hs; try discriminate.
    destruct b.
    + destruct (h_set_path zh h r p e v) as [[r' h1]| |] eqn:Er; cbn [bind] in Hs; try discriminate.
      rewrite h_pair_eq in Hs. injection Hs as <- <-. cbn [hp_next h_alloc snd]. rewrite Pos2Nat.inj_succ.
      rewrite (IH _ _ _ _ _ _ Er). simpl. lia.
    + destruct (h_set_path zh h l p e v) as [[l' h1]| |] eqn:El; cbn [bind] in Hs; try discriminate.
      rewrite h_pair_eq in Hs. injection Hs as <- <-. cbn [hp_next h_alloc snd]. rewrite Pos2Nat.inj_succ.
      rewrite (IH _ _ _ _ _ _ El). simpl. lia.
Qed.

Section StepCost.
Variable zh : nat -> chunk.
Variable k0 : addr.

(* every unset pair below t is a cell allocated at or after k0 *)
Definition fresh_unset (h : heap) (t : addr) : Prop :=
  (t < hp_next h)%positive /\ forall b, reach h t b -> unset_pair h b -> (k0 <= b)%positive.
Definition h_inv_k (h : heap) : Prop :=
  h_inv zh h /\ (k0 <= hp_next h)%positive /\ h_cell h true_addr = Some (CLeaf true_chunk).

Lemma fresh_mono s s' t : h_inv_k s -> heap_grow s s' -> fresh_unset s t -> fresh_unset s' t.
Proof.
  intros ((Hwf & _) & _) [He _] [Ht Hf]. pose proof (heap_ext_ext_memo _ _ He) as Hem. split.
  - destruct He as [_ Hle]. lia.
  - intros b Hr Hu. pose proof (reach_back _ _ _ _ Hwf Hem Ht Hr) as Hr0.
    apply Hf; [exact Hr0|]. eapply unset_pair_back; [exact Hem| |exact Hu].
    pose proof Hwf as (Hall & _). apply Hall. pose proof (reach_le _ _ _ Hwf Hr0). lia.
Qed.

Lemma fresh_leaf h a c : h_cell h a = Some (CLeaf c) -> (a < hp_next h)%positive -> fresh_unset h a.
Proof.
  intros Hc Ha. split; [exact Ha|]. intros b Hr Hu.
  inversion Hr as [a0|a0 m l r b0 Hc0 _|a0 m l r b0 Hc0 _]; subst.
  - destruct Hu as (l & r & Hc'). rewrite Hc in Hc'. discriminate.
  - rewrite Hc in Hc0. discriminate.
  - rewrite Hc in Hc0. discriminate.
Qed.

Lemma fresh_child h a m l r :
  heap_wf h -> fresh_unset h a -> h_cell h a = Some (CPair m l r) -> fresh_unset h l /\ fresh_unset h r.
Proof.
  intros Hwf [Ha Hf] Hc. pose proof Hwf as (_ & _ & Hch). destruct (Hch _ _ _ _ Hc) as [Hl Hr].
  split; (split; [lia|]); intros b Hb Hu; apply Hf; auto; [eapply reach_left|eapply reach_right]; eauto.
Qed.

Lemma leaf_alloc_k s c : h_inv_k s -> good addr heap h_inv_k fresh_unset heap_grow s (h_leaf s c).
Proof.
  intros (Hi & Hk & Ht). unfold h_leaf.
  destruct (h_alloc_good zh s (CLeaf c) Hi) as (Hi' & Hg & Hv); [discriminate|].
  unfold good. split; [split; [exact Hi'|split]|split; [exact Hg|]].
  - rewrite h_alloc_next. lia.
  - destruct Hg as [[A _] _]. now apply A.
  - eapply fresh_leaf; [apply h_alloc_new|exact Hv].
Qed.

Lemma pair_alloc_k s l r :
  h_inv_k s -> fresh_unset s l -> fresh_unset s r ->
  good addr heap h_inv_k fresh_unset heap_grow s (h_pair s l r).
Proof.
  intros Hik Hl Hr. pose proof Hik as (Hi & Hk & Ht). rewrite h_pair_eq.
  destruct (h_alloc_good zh s (CPair zero_chunk l r) Hi) as (Hi' & Hg & Hv).
  { intros m l0 r0 E. injection E as <- <- <-. split; [reflexivity|]. split; [apply Hl|apply Hr]. }
  unfold good. cbn [fst snd].
  split; [split; [exact Hi'|split]|split; [exact Hg|]].
  - rewrite h_alloc_next. lia.
  - destruct Hg as [[A _] _]. now apply A.
  - pose proof (fresh_mono _ _ _ Hik Hg Hl) as [_ Fl]. pose proof (fresh_mono _ _ _ Hik Hg Hr) as [_ Fr].
    split; [exact Hv|]. intros b Hb Hu.
    inversion Hb as [a0|a0 m l0 r0 b0 Hc0 Hb0|a0 m l0 r0 b0 Hc0 Hb0]; subst.
    + exact Hk.
    + rewrite h_alloc_new in Hc0. injection Hc0 as _ <- <-. now apply Fl.
    + rewrite h_alloc_new in Hc0. injection Hc0 as _ <- <-. now apply Fr.
Qed.

Lemma h_set_path_fresh p : forall h a e v r,
  h_inv_k h -> fresh_unset h a -> fresh_unset h v ->
  h_set_path zh h a p e v = OK r -> good addr heap h_inv_k fresh_unset heap_grow h r.
Proof.
  induction p as [|b p IH]; intros h a e v r Hik Ha Hv Hs.
  - simpl in Hs. injection Hs as <-. split; [exact Hik|]. split; [apply heap_grow_refl|exact Hv].
  - rewrite h_set_path_cons in Hs. pose proof Hik as ((Hwf & Hz & _) & _ & _).
    destruct (h_step_children zh h a (length p) e) as [[l r0]| |] eqn:Est; cbn [bind] in Hs;
      try discriminate.
    assert (Hlr : fresh_unset h l /\ fresh_unset h r0).
    { unfold h_step_children in Est. destruct (h_cell h a) as [[c|memo l0 r1]|] eqn:Hc; try discriminate.
      - destruct e; [|discriminate]. destruct (chunk_eqb c (zh (S (length p)))); [|discriminate].
        destruct (N.of_nat (length p) <=? 64) eqn:Ek; [|discriminate]. apply N.leb_le in Ek.
        injection Est as <- <-.
        assert (Hzc : h_cell h (zero_addr (length p)) = Some (CLeaf (zh (length p)))) by (apply Hz; lia).
        pose proof (fresh_leaf _ _ _ Hzc (heap_wf_lt _ _ _ Hwf Hzc)). auto.
      - injection Est as <- <-. exact (fresh_child _ _ _ _ _ Hwf Ha Hc). }
    destruct Hlr as [Fl Fr].
    destruct b.
    + destruct (h_set_path zh h r0 p e v) as [[r' h1]| |] eqn:Er; cbn [bind] in Hs; try discriminate.
      destruct (IH _ _ _ _ _ Hik Fr Hv Er) as (Hik1 & Hg1 & Fr'). simpl in *.
      injection Hs as <-. eapply good_trans; [apply heap_grow_trans|exact Hg1|].
      apply pair_alloc_k; [exact Hik1|exact (fresh_mono _ _ _ Hik Hg1 Fl)|exact Fr'].
    + destruct (h_set_path zh h l p e v) as [[l' h1]| |] eqn:El; cbn [bind] in Hs; try discriminate.
      destruct (IH _ _ _ _ _ Hik Fl Hv El) as (Hik1 & Hg1 & Fl'). simpl in *.
      injection Hs as <-. eapply good_trans; [apply heap_grow_trans|exact Hg1|].
      apply pair_alloc_k; [exact Hik1|exact Fl'|exact (fresh_mono _ _ _ Hik Hg1 Fr)].
Qed.

Lemma hm_step_fresh st o :
  SInv addr heap h_inv_k fresh_unset st ->
  SInv addr heap h_inv_k fresh_unset (fst (hm_step zh st o)).
Proof.
  intros HS. destruct (hm_step zh st o) as [st' r] eqn:E. unfold hm_step in E. simpl.
  eapply (step_inv addr heap h_getter (h_setter zh) h_leaf h_pair h_chunk zero_addr true_addr zh
            h_inv_k fresh_unset heap_grow); try eassumption.
  - apply heap_grow_refl.
  - apply heap_grow_trans.
  - intros s s' t Hi _ Hg Hf. eapply fresh_mono; eauto.
  - apply leaf_alloc_k.
  - apply pair_alloc_k.
  - intros s a g e v r0. unfold h_setter. apply h_set_path_fresh.
  - intros s a g t ((Hwf & _) & _) [Ha Hf] Hg. unfold h_getter in Hg. split.
    + eapply h_get_path_lt; eauto.
    + intros b Hb Hu. apply Hf; [|exact Hu]. eapply reach_trans; [eapply h_get_path_reach; eauto|exact Hb].
  - intros s ((Hwf & Hz & _) & _).
    assert (Hzc : h_cell s (zero_addr 0) = Some (CLeaf (zh 0))) by (apply Hz; lia).
    eapply fresh_leaf; [exact Hzc|eapply heap_wf_lt; eauto].
  - intros s ((_ & _ & Ht) & _ & Hc). eapply fresh_leaf; eauto.
Qed.

End StepCost.

Lemma addr_range_in (k0 n1 b : positive) :
  (k0 <= b)%positive -> (b < n1)%positive ->
  In b (map Pos.of_nat (seq (Pos.to_nat k0) (Pos.to_nat n1 - Pos.to_nat k0))).
Proof.
  intros H1 H2. apply in_map_iff. exists (Pos.to_nat b). split; [apply Pos2Nat.id|].
  apply in_seq. lia.
Qed.

Section StepCost2.
Variable H : chunk -> chunk -> chunk.
Variable zh : nat -> chunk.

(* from a state in which every handle is fully hashed, after ANY step a hash request on ANY
   handle performs at most one hash per cell the step allocated *)
Lemma hm_step_hash_cost st o j r st2 c :
  Hnz H -> hm_inv zh st -> h_cell (m_store _ _ st) true_addr = Some (CLeaf true_chunk) ->
  (forall k x, nth_error (m_handles _ _ st) k = Some x -> memoised (m_store _ _ st) (h_back _ x)) ->
  hm_hash H (fst (hm_step zh st o)) j = OK (r, st2, c) ->
  c <= N.of_nat (Pos.to_nat (hp_next (m_store _ _ (fst (hm_step zh st o)))) -
                 Pos.to_nat (hp_next (m_store _ _ st))).
Proof.
  intros Hz Hi Ht Hm Eh. set (k0 := hp_next (m_store _ _ st)).
  assert (HS : SInv addr heap (h_inv_k zh k0) (fresh_unset k0) st).
  { pose proof Hi as (Hwf & Hzo & Htr & Hv). split.
    - split; [split; [exact Hwf|split; [exact Hzo|exact Htr]]|]. split; [unfold k0; lia|exact Ht].
    - intros k x Hx. split; [eapply Hv; eauto|]. intros b Hb Hu.
      exfalso. eapply memoised_reach_set; eauto. }
  pose proof (hm_step_fresh zh k0 st o HS) as [_ HV].
  destruct (hm_step_inv' zh st o Hi) as [Hi' _].
  set (st' := fst (hm_step zh st o)) in *.
  unfold hm_hash in Eh. destruct (nth_error (m_handles _ _ st') j) as [y|] eqn:Hy; [|discriminate].
  destruct (h_merkle H _ (m_store _ _ st') _) as [[[r0 h0] c0]| |] eqn:Em; try discriminate.
  injection Eh as _ _ <-. destruct (HV _ _ Hy) as [Hyl Hf].
  pose proof (h_merkle_count_distinct H _ _ _ _ _ _
                (map Pos.of_nat (seq (Pos.to_nat k0) (Pos.to_nat (hp_next (m_store _ _ st')) - Pos.to_nat k0)))
                Hz (proj1 Hi') Hyl (le_n _) Em) as Hc.
  rewrite map_length, seq_length in Hc. apply Hc.
  intros b Hb Hu. apply addr_range_in; [now apply Hf|].
  destruct Hu as (l & r1 & Hcb). eapply heap_wf_lt; [apply Hi'|exact Hcb].
Qed.

End StepCost2.

(* the bound is met by the example history: the write through the sub-view allocates a new
   leaf, one pair in the vector (path length 1) and one pair in the container (hook, path
   length 1): 3 cells, 2 hashes *)
Example ex_step_cost :
  let st := hm_run yH yzh ex_st0 [EHash 0; EStep (OGet 0 0)] in
  let o := OSet 1 5 (SLit (TUint 8) (VUint 7)) in
  (Pos.to_nat (hp_next (m_store _ _ (fst (hm_step yzh st o)))) - Pos.to_nat (hp_next (m_store _ _ st)) = 3)%nat /\
  match hm_hash yH (fst (hm_step yzh st o)) 0 with OK (_, _, c) => c = 2 | _ => False end.
Proof. split; vm_compute; reflexivity. Qed.

(* Why [memo_closed] is a premise of "a request leaves the tree fully hashed" (h_merkle_memoised):
   in an arbitrary well-formed heap a pair may hold a memo although one of its children does
   not; MerkleRoot then returns that memo at once and the child stays unhashed.  Such a heap
   is not reachable by the machine (memo_closed and memo_ok are invariants), but it is
   well-formed: cell 67 = unset pair (zero, zero), cell 68 = pair (67, zero) with a memo. *)
Definition ex_open_heap : heap :=
  h_put (snd (h_pair (snd (h_pair (heap_init yzh) 1%positive 1%positive)) 67%positive 1%positive))
        68%positive (CPair (yzh 1) 67%positive 1%positive).

Example ex_memo_closed_needed :
  heap_wf ex_open_heap /\
  h_merkle yH 68 ex_open_heap 68%positive = OK (yzh 1, ex_open_heap, 0) /\
  ~ memoised ex_open_heap 68%positive /\ ~ memo_closed ex_open_heap.
Proof.
  set (h1 := snd (h_pair (heap_init yzh) 1%positive 1%positive)).
  set (h2 := snd (h_pair h1 67%positive 1%positive)).
  assert (W1 : heap_wf h1).
  { unfold h1. rewrite h_pair_eq. apply h_alloc_wf; [apply heap_init_wf|].
    intros m l r E. injection E as _ <- <-. split; vm_compute; reflexivity. }
  assert (W2 : heap_wf h2).
  { unfold h2. rewrite h_pair_eq. apply h_alloc_wf; [exact W1|].
    intros m l r E. injection E as _ <- <-. split; vm_compute; reflexivity. }
  assert (C2 : h_cell h2 68%positive = Some (CPair zero_chunk 67%positive 1%positive))
    by (vm_compute; reflexivity).
  destruct (h_put_memo h2 68%positive zero_chunk 67%positive 1%positive (yzh 1) C2 (or_introl eq_refl))
    as [He Hd].
  assert (Hnm : ~ memoised ex_open_heap 68%positive).
  { intros Hm. inversion Hm as [a c Hc|a m l r Hc Hz Hl Hr]; subst.
    - vm_compute in Hc. discriminate.
    - assert (El : l = 67%positive) by (vm_compute in Hc; congruence). subst l.
      inversion Hl as [a c Hc'|a m' l' r' Hc' Hz' _ _]; subst.
      + vm_compute in Hc'. discriminate.
      + apply Hz'. vm_compute in Hc'. injection Hc' as <- _ _. reflexivity. }
  split; [exact (heap_wf_ext_memo _ _ W2 He Hd)|]. split; [vm_compute; reflexivity|].
  split; [exact Hnm|].
  intros Hcl. apply Hnm.
  assert (Hc : h_cell ex_open_heap 68%positive = Some (CPair (yzh 1) 67%positive 1%positive))
    by (vm_compute; reflexivity).
  assert (Hz : yzh 1 <> zero_chunk) by apply ex_Hnz.
  destruct (Hcl _ _ _ _ Hc Hz) as [Hl Hr]. eapply memoised_pair; eauto.
Qed.

(* the hypotheses of [hm_step_hash_cost] hold in the state of [ex_step_cost] *)
Ltac memo_tac :=
  first [ eapply memoised_leaf; vm_compute; reflexivity
        | eapply memoised_pair; [vm_compute; reflexivity|vm_compute; discriminate|memo_tac|memo_tac] ].

Example ex_step_cost_hyps :
  let st := hm_run yH yzh ex_st0 [EHash 0; EStep (OGet 0 0)] in
  hm_inv yzh st /\ h_cell (m_store _ _ st) true_addr = Some (CLeaf true_chunk) /\
  length (m_handles _ _ st) = 2%nat /\
  (forall k x, nth_error (m_handles _ _ st) k = Some x -> memoised (m_store _ _ st) (h_back _ x)).
Proof.
  cbv zeta. split; [|split; [|split]].
  - apply (hm_run_inv yH yzh _ ex_st0 (proj1 ex_st0_ok)).
  - vm_compute. reflexivity.
  - vm_compute. reflexivity.
  - intros k x Hx.
    assert (E : m_handles _ _ (hm_run yH yzh ex_st0 [EHash 0; EStep (OGet 0 0)]) =
                [mkH _ ex_ty 71%positive None; mkH _ (TVector (TUint 8) 8) 69%positive (Some (0%nat, 0))])
      by (vm_compute; reflexivity).
    rewrite E in Hx. destruct k as [|[|k]]; simpl in Hx.
    + injection Hx as <-. simpl h_back. memo_tac.
    + injection Hx as <-. simpl h_back. memo_tac.
    + destruct k; discriminate.
Qed.
