(* IO.v — model of the byte-level I/O of the codec (C13): the fill loop of
   DecodingReader.Read over an underlying io.Reader that may deliver its bytes in any legal
   way, io.LimitReader, and EncodingWriter.Write over a writer that may fail.
   Definitions only.  Model of the repaired code (fix: D12, a final read that returns its
   data together with io.EOF is not an error when the request is satisfied). *)
From Ztyp Require Import Base.
Open Scope N_scope.

Inductive rerr := RNone | REof | RFail.

(* An underlying reader: the bytes it still holds, the sizes of the chunks it will hand out
   (every size >= 1; when the list is exhausted it hands out whatever is requested), whether
   it reports io.EOF together with its last bytes, and after how many more bytes it fails. *)
Record ureader := mkU { u_data : list byte; u_chunks : list N; u_eof_with_data : bool;
                        u_fail_after : option N }.

Definition minN3 (a b c : N) : N := N.min a (N.min b c).

(* one call input.Read(p) with len(p) = req *)
Definition u_read (u : ureader) (req : N) : list byte * rerr * ureader :=
  if req =? 0 then ([], RNone, u) else
  match u_fail_after u with
  | Some 0 => ([], RFail, u)
  | _ =>
    let avail := N.of_nat (length (u_data u)) in
    if avail =? 0 then ([], REof, u) else
    let '(chunk, rest) := match u_chunks u with
                          | c :: r => (N.max 1 c, r)
                          | [] => (req, [])
                          end in
    let k0 := minN3 req chunk avail in
    let k := match u_fail_after u with Some f => N.min k0 f | None => k0 end in
    let out := firstn (nat_of k) (u_data u) in
    let data' := skipn (nat_of k) (u_data u) in
    let fa' := match u_fail_after u with Some f => Some (f - k) | None => None end in
    let e := if (N.of_nat (length data') =? 0) && u_eof_with_data u then REof else RNone in
    (out, e, mkU data' rest (u_eof_with_data u) fa')
  end.

(* io.LimitReader(r, n).Read *)
Definition lr_read (u : ureader) (lim : N) (req : N) : list byte * rerr * ureader * N :=
  if lim =? 0 then ([], REof, u, lim) else
  let req' := N.min req lim in
  let '(bs, e, u') := u_read u req' in
  (bs, e, u', lim - N.of_nat (length bs)).

(* the fill loop of DecodingReader.Read (after checkedIndexUpdate):
     for n < len(p) { v, err := input.Read(p[n:]); n += v; if err != nil { ... } }        *)
Fixpoint dr_fill (fuel : nat) (u : ureader) (lim need : N) (acc : list byte)
  : list byte * rerr * ureader * N :=
  if need =? 0 then (acc, RNone, u, lim) else
  match fuel with
  | O => (acc, RFail, u, lim)
  | S f =>
    let '(bs, e, u', lim') := lr_read u lim need in
    let acc' := acc ++ bs in
    let need' := need - N.of_nat (length bs) in
    match e with
    | RNone => dr_fill f u' lim' need' acc'
    | REof => if need' =? 0 then (acc', RNone, u', lim') else (acc', REof, u', lim')
    | RFail => (acc', RFail, u', lim')
    end
  end.

(* dr.Read(p) on a reader with index i, bound max and one limit counter *)
Definition dr_read_io (u : ureader) (lim i mx : N) (k : N)
  : res (list byte * ureader * N * N) :=
  if k =? 0 then OK ([], u, lim, i) else
  if two64 - 1 - i <? k then Err else
  if mx <? i + k then Err else
  let '(bs, e, u', lim') := dr_fill (S (nat_of k)) u lim k [] in
  match e with
  | RNone => OK (bs, u', lim', i + k)
  | _ => Err
  end.

(* a sequence of reads, as a decoder performs them *)
Fixpoint run_reads (u : ureader) (lim i mx : N) (reqs : list N) : res (list (list byte)) :=
  match reqs with
  | [] => OK []
  | k :: r =>
    do x <- dr_read_io u lim i mx k; let '(bs, u', lim', i') := x in
    do rest <- run_reads u' lim' i' mx r; OK (bs :: rest)
  end.

Definition one_shot (data : list byte) : ureader := mkU data [] false None.

(* ---- the writer ---- *)
(* an underlying writer that accepts [budget] more bytes and then fails (accepting the part
   of the slice that still fits), or never fails (None) *)
Record wstate := mkW { w_budget : option N; w_accepted : list byte; w_n : N }.

(* EncodingWriter.Write(p): for n < len(p) { d, err := w.Write(p[n:]); ew.n += d; ... } *)
Definition ew_write (w : wstate) (p : list byte) : wstate * bool (* ok *) :=
  match w_budget w with
  | None => (mkW None (w_accepted w ++ p) (w_n w + N.of_nat (length p)), true)
  | Some b =>
    let len := N.of_nat (length p) in
    if len <=? b then (mkW (Some (b - len)) (w_accepted w ++ p) (w_n w + len), true)
    else (mkW (Some 0) (w_accepted w ++ firstn (nat_of b) p) (w_n w + b), false)
  end.

(* an encoder is a sequence of Write calls that stops at the first error *)
Fixpoint ew_write_all (w : wstate) (chunks : list (list byte)) : wstate * bool :=
  match chunks with
  | [] => (w, true)
  | p :: r => let '(w', ok) := ew_write w p in if ok then ew_write_all w' r else (w', false)
  end.
