(* ExtrasProofs.v — proofs about the small entry points modelled in Extras.v:
   basic Encode()/Decode() (C09), codec.Sum (C09), DecodingReader.Skip (C13),
   conv.DynamicBytesUnmarshalText / BytesString (C19).
   Every lemma is followed by [Print Assumptions]; every implication by an [Example] showing that
   its hypotheses are satisfiable. *)
From Coq Require Import PeanoNat ZArith ZifyN ZifyNat ZifyBool.
From Ztyp Require Import Base Types Spec Reader Conv Extras.
From Ztyp Require BitlenProofs BitfieldsProofs SizeProofs ConvProofs.
Open Scope N_scope.

Arguments N.pow : simpl never.
Arguments N.mul : simpl never.
Arguments N.div : simpl never.
Arguments N.modulo : simpl never.

(* ------------------------------------------------------------------------------------ *)
(** * 0. Auxiliary facts on little-endian bytes *)

Lemma pow256_pow2 w : 256 ^ w = 2 ^ (8 * w).
Proof. rewrite N.pow_mul_r. reflexivity. Qed.

Lemma two64_pow : two64 = 2 ^ 64.
Proof. vm_compute. reflexivity. Qed.

Lemma x_le_val_bound : forall bs, le_val bs < 256 ^ lenN bs.
Proof.
  unfold lenN. induction bs as [|b bs IH]; [cbn; lia|].
  cbn [le_val length]. rewrite Nat2N.inj_succ, N.pow_succ_r'.
  pose proof (BitfieldsProofs.N_of_byte_lt b) as Hb.
  set (P := 256 ^ N.of_nat (length bs)) in *. lia.
Qed.

Lemma x_byte_of_N_add a x : byte_of_N (a + 256 * x) = byte_of_N a.
Proof.
  unfold byte_of_N. replace ((a + 256 * x) mod 256) with (a mod 256); [reflexivity|].
  rewrite N.mul_comm, N.mod_add by discriminate. reflexivity.
Qed.

Lemma x_le_bytes_le_val : forall bs, le_bytes (length bs) (le_val bs) = bs.
Proof.
  induction bs as [|b bs IH]; [reflexivity|].
  cbn [length le_val le_bytes].
  rewrite x_byte_of_N_add, BitfieldsProofs.byte_of_N_of_byte. f_equal.
  pose proof (BitfieldsProofs.N_of_byte_lt b) as Hb.
  replace ((N_of_byte b + 256 * le_val bs) / 256) with (le_val bs) by lia. exact IH.
Qed.

Lemma x_le_val_le_bytes_small w n :
  n < 2 ^ (8 * w) -> le_val (le_bytes (nat_of w) n) = n.
Proof.
  intro H. rewrite BitlenProofs.le_val_le_bytes. unfold nat_of. rewrite N2Nat.id.
  rewrite pow256_pow2. apply N.mod_small, H.
Qed.

(* the value shapes allowed by [has_type] at the two basic types *)
Lemma has_type_uint v w : has_type v (TUint w) = true -> exists n, v = VUint n /\ n < 2 ^ (8 * w).
Proof.
  destruct v as [n| | | | | |]; cbn [has_type]; try discriminate.
  intro H. exists n. split; [reflexivity|]. apply N.ltb_lt, H.
Qed.

Lemma has_type_bool v : has_type v TBool = true -> exists b, v = VBool b.
Proof.
  destruct v as [|b| | | | |]; cbn [has_type]; try discriminate. intros _. exists b. reflexivity.
Qed.

(* ------------------------------------------------------------------------------------ *)
(** * 1. Encode() = the specification's serialization *)

Lemma basic_encode_spec : forall t v,
  (exists w, t = TUint w) \/ t = TBool ->
  has_type v t = true ->
  basic_encode t v = OK (spec_ser t v).
Proof.
  intros t v [[w ->] | ->] Hty.
  - destruct (has_type_uint _ _ Hty) as (n & -> & _). reflexivity.
  - destruct (has_type_bool _ Hty) as (b & ->). reflexivity.
Qed.
Print Assumptions basic_encode_spec.

Example basic_encode_spec_ex :
  ((exists w, TUint 8 = TUint w) \/ TUint 8 = TBool) /\
  has_type (VUint 72623859790382856) (TUint 8) = true /\
  basic_encode (TUint 8) (VUint 72623859790382856)
  = OK (map byte_of_N [8; 7; 6; 5; 4; 3; 2; 1]).
Proof. split; [left; exists 8; reflexivity|]. split; vm_compute; reflexivity. Qed.

Example basic_encode_spec_ex_bool :
  ((exists w, TBool = TUint w) \/ TBool = TBool) /\
  has_type (VBool true) TBool = true /\
  basic_encode TBool (VBool true) = OK [byte_of_N 1].
Proof. split; [right; reflexivity|]. split; vm_compute; reflexivity. Qed.

(* ------------------------------------------------------------------------------------ *)
(** * 2. Decode (Encode v) = v *)

(* [wf_ty] is not needed for the round trip; the requested statement (with it) follows. *)
Lemma basic_decode_encode_gen : forall t v,
  ((exists w, t = TUint w) \/ t = TBool) ->
  has_type v t = true ->
  basic_decode t (spec_ser t v) = OK v.
Proof.
  intros t v [[w ->] | ->] Hty.
  - destruct (has_type_uint _ _ Hty) as (n & -> & Hn).
    cbn [spec_ser basic_decode].
    change (N.of_nat (length (le_bytes (nat_of w) n))) with (lenN (le_bytes (nat_of w) n)).
    rewrite SizeProofs.lenN_le_bytes, N.eqb_refl, x_le_val_le_bytes_small by exact Hn.
    reflexivity.
  - destruct (has_type_bool _ Hty) as (b & ->). destruct b; vm_compute; reflexivity.
Qed.

Lemma basic_decode_encode : forall t v,
  wf_ty t = true ->
  ((exists w, t = TUint w) \/ t = TBool) ->
  has_type v t = true ->
  basic_decode t (spec_ser t v) = OK v.
Proof. intros t v _. apply basic_decode_encode_gen. Qed.
Print Assumptions basic_decode_encode.

Example basic_decode_encode_ex :
  wf_ty (TUint 4) = true /\
  ((exists w, TUint 4 = TUint w) \/ TUint 4 = TBool) /\
  has_type (VUint 4294967295) (TUint 4) = true /\
  basic_decode (TUint 4) (spec_ser (TUint 4) (VUint 4294967295)) = OK (VUint 4294967295).
Proof.
  split; [reflexivity|]. split; [left; exists 4; reflexivity|]. split; vm_compute; reflexivity.
Qed.

Example basic_decode_encode_ex_bool :
  wf_ty TBool = true /\
  ((exists w, TBool = TUint w) \/ TBool = TBool) /\
  has_type (VBool false) TBool = true /\
  basic_decode TBool (spec_ser TBool (VBool false)) = OK (VBool false).
Proof. split; [reflexivity|]. split; [right; reflexivity|]. split; vm_compute; reflexivity. Qed.

(* ------------------------------------------------------------------------------------ *)
(** * 3. Decode accepts exactly the canonical encodings *)

(* Again [wf_ty] is not needed: at every other type [basic_decode] is [Err]. *)
Lemma basic_decode_exact_gen : forall t bs v,
  basic_decode t bs = OK v ->
  lenN bs = spec_fixed_len t /\ has_type v t = true /\ spec_ser t v = bs.
Proof.
  intros t bs v H. destruct t as [w| | | | | | | | |]; cbn [basic_decode] in H; try discriminate H.
  - destruct (N.of_nat (length bs) =? w) eqn:E; [|discriminate H].
    apply N.eqb_eq in E. injection H as <-.
    cbn [spec_fixed_len has_type spec_ser]. split; [exact E|]. split.
    + apply N.ltb_lt. rewrite <- pow256_pow2, <- E. apply x_le_val_bound.
    + rewrite <- E. unfold nat_of. rewrite Nat2N.id. apply x_le_bytes_le_val.
  - destruct bs as [|b [|b' r]]; try discriminate H.
    destruct (1 <? N_of_byte b) eqn:E; [discriminate H|].
    apply N.ltb_ge in E. injection H as <-.
    cbn [spec_fixed_len has_type spec_ser]. split; [reflexivity|]. split; [reflexivity|].
    f_equal. rewrite <- (BitfieldsProofs.byte_of_N_of_byte b) at 2. f_equal.
    destruct (0 <? N_of_byte b) eqn:E0.
    + apply N.ltb_lt in E0. lia.
    + apply N.ltb_ge in E0. lia.
Qed.

Lemma basic_decode_exact : forall t bs v,
  wf_ty t = true ->
  basic_decode t bs = OK v ->
  lenN bs = spec_fixed_len t /\ has_type v t = true /\ spec_ser t v = bs.
Proof. intros t bs v _. apply basic_decode_exact_gen. Qed.
Print Assumptions basic_decode_exact.

Lemma basic_decode_no_panic : forall t bs, basic_decode t bs <> Panic.
Proof.
  intros t bs. destruct t as [w| | | | | | | | |]; cbn [basic_decode]; try discriminate.
  - destruct (N.of_nat (length bs) =? w); discriminate.
  - destruct bs as [|b [|b' r]]; try discriminate.
    destruct (1 <? N_of_byte b); discriminate.
Qed.
Print Assumptions basic_decode_no_panic.

(* consequences spelled out: a wrong length or a bool byte above 1 is refused *)
Lemma basic_decode_uint_len : forall w bs, lenN bs <> w -> basic_decode (TUint w) bs = Err.
Proof.
  intros w bs H. cbn [basic_decode]. destruct (N.of_nat (length bs) =? w) eqn:E; [|reflexivity].
  apply N.eqb_eq in E. elim H. exact E.
Qed.
Print Assumptions basic_decode_uint_len.

Lemma basic_decode_bool_iff : forall bs v,
  basic_decode TBool bs = OK v <->
  exists b, v = VBool b /\ bs = [byte_of_N (if b then 1 else 0)].
Proof.
  intros bs v. split.
  - intro H. destruct (basic_decode_exact_gen _ _ _ H) as (_ & Hty & Hs).
    destruct (has_type_bool _ Hty) as (b & ->). exists b. split; [reflexivity|].
    symmetry. exact Hs.
  - intros (b & -> & ->). destruct b; vm_compute; reflexivity.
Qed.
Print Assumptions basic_decode_bool_iff.

Example basic_decode_exact_ex :
  wf_ty (TUint 2) = true /\
  basic_decode (TUint 2) (map byte_of_N [255; 1]) = OK (VUint 511).
Proof. split; vm_compute; reflexivity. Qed.

Example basic_decode_exact_ex_bool :
  wf_ty TBool = true /\
  basic_decode TBool [byte_of_N 1] = OK (VBool true) /\
  basic_decode TBool [byte_of_N 2] = Err /\
  basic_decode TBool [] = Err /\
  basic_decode (TUint 2) [byte_of_N 1] = Err.
Proof. repeat split; vm_compute; reflexivity. Qed.

Example basic_decode_uint_len_ex : lenN [byte_of_N 1; byte_of_N 2; byte_of_N 3] <> 2.
Proof. vm_compute. discriminate. Qed.

(* ------------------------------------------------------------------------------------ *)
(** * 4. codec.Sum does not wrap below 2^64 *)

Lemma codec_sum_acc : forall lens acc,
  acc + sumN lens < two64 -> fold_left add64 lens acc = acc + sumN lens.
Proof.
  induction lens as [|x r IH]; intros acc H; cbn [fold_left sumN fold_right] in *.
  - lia.
  - change (fold_right N.add 0 r) with (sumN r) in *.
    assert (E : add64 acc x = acc + x).
    { unfold add64, wrap64. apply N.mod_small. lia. }
    rewrite E, IH by lia. lia.
Qed.

Lemma codec_sum_spec : forall lens, sumN lens < 2 ^ 64 -> codec_sum lens = sumN lens.
Proof.
  intros lens H. unfold codec_sum. rewrite codec_sum_acc; [reflexivity|].
  rewrite two64_pow. exact H.
Qed.
Print Assumptions codec_sum_spec.

Example codec_sum_spec_ex :
  sumN [18446744073709551000; 600; 0; 15] < 2 ^ 64 /\
  codec_sum [18446744073709551000; 600; 0; 15] = 18446744073709551615.
Proof. split; vm_compute; reflexivity. Qed.

(* the bound is sharp: one more and Sum wraps *)
Example codec_sum_wraps : codec_sum [18446744073709551000; 600; 0; 16] = 0.
Proof. vm_compute. reflexivity. Qed.

(* ------------------------------------------------------------------------------------ *)
(** * 5. Skip(k) = Read(k) with the data dropped *)

Lemma dr_read_no_panic : forall st d k, dr_read st d k <> Panic.
Proof.
  intros st d k. unfold dr_read.
  destruct (k =? 0); [discriminate|].
  destruct (two64 - 1 - d_i d <? k); [discriminate|].
  destruct (d_max d <? d_i d + k); [discriminate|].
  destruct (avail st (d_chain d) <? k); discriminate.
Qed.
Print Assumptions dr_read_no_panic.

Lemma dr_skip_pos : forall st d k, 0 < k ->
  dr_skip st d k = do r <- dr_read st d k; let '(_, st', d') := r in OK (st', d').
Proof.
  intros st d k Hk. unfold dr_skip. destruct (k =? 0) eqn:E; [|reflexivity].
  apply N.eqb_eq in E. lia.
Qed.

Lemma dr_skip_read : forall st d k st' d', 0 < k ->
  (dr_skip st d k = OK (st', d') <-> exists bs, dr_read st d k = OK (bs, st', d')).
Proof.
  intros st d k st' d' Hk. rewrite dr_skip_pos by exact Hk.
  destruct (dr_read st d k) as [[[bs s1] d1]| |]; cbn [bind].
  - split.
    + intro H. injection H as -> ->. exists bs. reflexivity.
    + intros (bs' & H). injection H as _ -> ->. reflexivity.
  - split; [discriminate|]. intros (bs' & H). discriminate H.
  - split; [discriminate|]. intros (bs' & H). discriminate H.
Qed.
Print Assumptions dr_skip_read.

Lemma dr_skip_zero : forall st d, dr_skip st d 0 = OK (st, d).
Proof. reflexivity. Qed.
Print Assumptions dr_skip_zero.

Lemma dr_skip_err_iff : forall st d k, 0 < k ->
  (dr_skip st d k = Err <-> dr_read st d k = Err).
Proof.
  intros st d k Hk. rewrite dr_skip_pos by exact Hk.
  destruct (dr_read st d k) as [[[bs s1] d1]| |]; cbn [bind]; split; congruence.
Qed.
Print Assumptions dr_skip_err_iff.

(* Skip panics only if the underlying read does ... *)
Lemma dr_skip_panic_only_if_read : forall st d k,
  dr_read st d k <> Panic -> dr_skip st d k <> Panic.
Proof.
  intros st d k H. unfold dr_skip. destruct (k =? 0); [discriminate|].
  destruct (dr_read st d k) as [[[bs s1] d1]| |]; cbn [bind]; congruence.
Qed.
Print Assumptions dr_skip_panic_only_if_read.

(* ... and the modelled read never does *)
Lemma dr_skip_no_panic : forall st d k, dr_skip st d k <> Panic.
Proof. intros st d k. apply dr_skip_panic_only_if_read, dr_read_no_panic. Qed.
Print Assumptions dr_skip_no_panic.

(* the bytes a successful Skip drops are the first k bytes of the stream *)
Lemma dr_skip_read_bytes : forall st d k bs st' d',
  dr_read st d k = OK (bs, st', d') -> dr_skip st d k = OK (st', d').
Proof.
  intros st d k bs st' d' H. unfold dr_skip. destruct (k =? 0) eqn:E.
  - unfold dr_read in H. rewrite E in H. injection H as _ <- <-. reflexivity.
  - rewrite H. reflexivity.
Qed.
Print Assumptions dr_skip_read_bytes.

Example dr_skip_read_ex :
  let '(st, d) := new_reader (map byte_of_N [1; 2; 3; 4; 5]) 4 in
  0 < 3 /\
  dr_skip st d 3 = OK (mkRS (map byte_of_N [4; 5]) [1], mkDR 3 4 [O]) /\
  dr_read st d 3 = OK (map byte_of_N [1; 2; 3], mkRS (map byte_of_N [4; 5]) [1], mkDR 3 4 [O]).
Proof. vm_compute. repeat split. Qed.

Example dr_skip_err_ex :
  let '(st, d) := new_reader (map byte_of_N [1; 2; 3; 4; 5]) 4 in
  0 < 5 /\ dr_skip st d 5 = Err /\ dr_read st d 5 = Err.
Proof. vm_compute. repeat split. Qed.

(* ------------------------------------------------------------------------------------ *)
(** * 6. DynamicBytesUnmarshalText / BytesString *)

Lemma dynamic_bytes_roundtrip : forall bs,
  dynamic_bytes_unmarshal (bytes_marshal_text bs) = Some bs.
Proof.
  intro bs. unfold dynamic_bytes_unmarshal, bytes_marshal_text.
  rewrite ConvProofs.strip_0x_marshal. apply ConvProofs.hex_decode_encode.
Qed.
Print Assumptions dynamic_bytes_roundtrip.

Lemma dynamic_bytes_length : forall text bs,
  dynamic_bytes_unmarshal text = Some bs -> lenN (strip_0x text) = 2 * lenN bs.
Proof. intros text bs H. apply ConvProofs.hex_decode_length, H. Qed.
Print Assumptions dynamic_bytes_length.

Lemma bytes_string_eq : forall bs, bytes_string bs = bytes_marshal_text bs.
Proof. reflexivity. Qed.
Print Assumptions bytes_string_eq.

(* "0XaB0c" : upper-case prefix, mixed-case digits *)
Example dynamic_bytes_length_ex :
  dynamic_bytes_unmarshal (map byte_of_N [48; 88; 97; 66; 48; 99]) = Some (map byte_of_N [171; 12]) /\
  lenN (strip_0x (map byte_of_N [48; 88; 97; 66; 48; 99])) = 2 * lenN (map byte_of_N [171; 12]).
Proof. split; vm_compute; reflexivity. Qed.

(* an odd number of digits is refused *)
Example dynamic_bytes_odd : dynamic_bytes_unmarshal (map byte_of_N [48; 120; 97; 66; 48]) = None.
Proof. vm_compute. reflexivity. Qed.

(* ------------------------------------------------------------------------------------ *)
(** * 7. The eager failing writer (C13)

    [ew_write_eager] (Extras.v) models an io.Writer that accepts [budget] bytes and reports its
    failure in the very call that reaches the budget, also when that call's slice was accepted
    completely; empty slices are not passed to the writer.  The accepted bytes are still the
    first [b] bytes of the encoding and the counter still equals their number; the encoder
    succeeds iff the encoding is strictly shorter than the budget (or empty).
    [BitfieldsProofs.lenN] is the length of a list as an [N] (the one used by IOProofs). *)
From Ztyp Require Import IO IOProofs.

Lemma ew_write_all_eager_some : forall chunks b acc n w ok,
  ew_write_all_eager (mkW (Some b) acc n) chunks = (w, ok) ->
  w_accepted w = acc ++ firstn (nat_of b) (concat chunks) /\
  w_n w = n + N.min b (BitfieldsProofs.lenN (concat chunks)) /\
  (ok = true <-> (BitfieldsProofs.lenN (concat chunks) < b \/
                  BitfieldsProofs.lenN (concat chunks) = 0)).
Proof.
  induction chunks as [|p r IH]; intros b acc n w ok H; cbn [ew_write_all_eager] in H.
  - inversion H; subst. cbn [concat w_accepted w_n]. rewrite firstn_nil, app_nil_r.
    unfold BitfieldsProofs.lenN; cbn [length]. repeat split; intros; lia.
  - unfold ew_write_eager in H. cbn [w_budget w_accepted w_n] in H.
    cbn [concat]. rewrite BitfieldsProofs.lenN_app, firstn_app.
    unfold BitfieldsProofs.lenN at 1 3 5.
    destruct (N.eqb_spec (N.of_nat (length p)) 0) as [Z|Z].
    + (* an empty slice: the writer is not called *)
      apply IH in H. destruct H as (A & Nn & O).
      assert (Hp : p = []) by (destruct p; [reflexivity|cbn [length] in Z; lia]).
      subst p. cbn [length firstn app]. rewrite Nat.sub_0_r.
      rewrite firstn_nil. cbn [app].
      split; [exact A|]. split; [rewrite Nn; cbn [length]; lia|]. rewrite O. cbn [length]. lia.
    + destruct (N.ltb_spec (N.of_nat (length p)) b) as [L|L].
      * apply IH in H. destruct H as (A & Nn & O).
        rewrite A, Nn. rewrite (@firstn_all2 _ (nat_of b) p) by (unfold nat_of; lia).
        rewrite <- app_assoc.
        replace (nat_of b - length p)%nat with (nat_of (b - N.of_nat (length p)))
          by (unfold nat_of; lia).
        split; [reflexivity|]. split; [lia|]. rewrite O. lia.
      * inversion H; subst. cbn [w_accepted w_n].
        replace (nat_of b - length p)%nat with 0%nat by (unfold nat_of; lia).
        cbn [firstn]. rewrite app_nil_r. split; [reflexivity|]. split; [lia|].
        split; [discriminate|lia].
Qed.
Print Assumptions ew_write_all_eager_some.

Lemma ew_write_all_eager_none : forall chunks acc n,
  ew_write_all_eager (mkW None acc n) chunks =
  (mkW None (acc ++ concat chunks) (n + BitfieldsProofs.lenN (concat chunks)), true).
Proof.
  induction chunks as [|p r IH]; intros acc n; cbn [ew_write_all_eager concat].
  - now rewrite app_nil_r, N.add_0_r.
  - unfold ew_write_eager.
    destruct (N.eqb_spec (N.of_nat (length p)) 0) as [Z|Z].
    + assert (Hp : p = []) by (destruct p; [reflexivity|cbn [length] in Z; lia]).
      subst p. rewrite IH. reflexivity.
    + cbn [w_budget]. unfold ew_write. cbn [w_budget w_accepted w_n].
      rewrite IH, BitfieldsProofs.lenN_app, app_assoc.
      unfold BitfieldsProofs.lenN at 2. now rewrite N.add_assoc.
Qed.
Print Assumptions ew_write_all_eager_none.

Lemma writer_prefix_eager : forall b chunks w ok,
  ew_write_all_eager (mkW (Some b) [] 0) chunks = (w, ok) ->
  w_accepted w = firstn (nat_of b) (concat chunks) /\
  w_n w = N.min b (BitfieldsProofs.lenN (concat chunks)) /\
  (ok = true <-> (BitfieldsProofs.lenN (concat chunks) < b \/
                  BitfieldsProofs.lenN (concat chunks) = 0)).
Proof. intros b chunks w ok H. apply ew_write_all_eager_some in H. exact H. Qed.
Print Assumptions writer_prefix_eager.

Lemma writer_eager_nofail : forall chunks,
  ew_write_all_eager (mkW None [] 0) chunks =
  (mkW None (concat chunks) (BitfieldsProofs.lenN (concat chunks)), true).
Proof. intro chunks. now rewrite ew_write_all_eager_none. Qed.
Print Assumptions writer_eager_nofail.

(* budget 9 = the total length of the encoding (2 + 0 + 4 + 3 bytes): every byte is accepted,
   the counter is 9, and the encoder nevertheless reports the error; the plain writer of IO.v
   with the same budget succeeds *)
Example writer_prefix_eager_ex :
  let chunks := map (map byte_of_N) [[1; 2]; []; [3; 4; 5; 6]; [7; 8; 9]] in
  BitfieldsProofs.lenN (concat chunks) = 9 /\
  ew_write_all_eager (mkW (Some 9) [] 0) chunks = (mkW (Some 0) (concat chunks) 9, false) /\
  ew_write_all (mkW (Some 9) [] 0) chunks = (mkW (Some 0) (concat chunks) 9, true).
Proof. vm_compute. repeat split. Qed.

(* one byte more of budget and the same encoding succeeds *)
Example writer_prefix_eager_ex_ok :
  let chunks := map (map byte_of_N) [[1; 2]; []; [3; 4; 5; 6]; [7; 8; 9]] in
  ew_write_all_eager (mkW (Some 10) [] 0) chunks = (mkW (Some 1) (concat chunks) 9, true).
Proof. vm_compute. reflexivity. Qed.
