(* Repr.v — the representation relation between backing trees and plain values
   (DESIGN Appendix A.2).  Definitions only; this is specification vocabulary, not model
   code: [repr t n v] says that tree [n] is a well-formed backing of value [v] of type [t].

   Positions beyond the length of a collection hold *zero trees*: either the summary
   leaf ZeroHashes[d] or a pair of zero trees (both occur: defaults of vectors are
   materialised, Pop writes zero chunks, expansion creates pairs of summaries). *)
From Ztyp Require Import Base Bitlen Tree Types Spec View.
Open Scope N_scope.

Section WithZero.
Variable zh : nat -> chunk.

(* a zero subtree of height d *)
Fixpoint ztree (d : nat) (n : node) : Prop :=
  n = Leaf (zh d) \/
  match d, n with
  | S d', Pair a b => ztree d' a /\ ztree d' b
  | _, _ => False
  end.

(* [series d ps n]: the first |ps| bottom positions (at depth d below n, left to right)
   satisfy the respective predicates; everything to the right of them is zero trees.
   Requires |ps| <= 2^d. *)
Fixpoint series (d : nat) (ps : list (node -> Prop)) (n : node) : Prop :=
  match ps with
  | [] => ztree d n
  | p0 :: rest =>
    match d with
    | O => rest = [] /\ p0 n
    | S d' =>
      match n with
      | Leaf _ => False
      | Pair a b =>
        let half := 2 ^ N.of_nat d' in
        if lenN ps <=? half then series d' ps a /\ ztree d' b
        else series d' (firstn (nat_of half) ps) a /\ series d' (skipn (nat_of half) ps) b
      end
    end
  end.

Definition is_chunk (c : chunk) (n : node) : Prop := n = Leaf c.

(* the packed chunks of a series of basic values / of a bit sequence *)
Definition packed_chunks (e : ty) (vs : list val) : list chunk :=
  chunkify (flat_map (spec_ser e) vs).
Definition bit_chunks (bs : list bool) : list chunk := chunkify (bits_to_bytes bs).

Definition cdepth (t : ty) : nat := nat_of (contents_depth t).

Fixpoint repr (t : ty) (n : node) (v : val) {struct t} : Prop :=
  match t, v with
  | TUint w, VUint x => n = Leaf (pad32 (le_bytes (nat_of w) x))
  | TBool, VBool b => n = Leaf (if b then true_chunk else zero_chunk)
  | TBytes _, VBytes bs => n = Leaf (pad32 bs)
  | TRoot, VBytes bs => n = Leaf (pad32 bs)
  | TBitvector _, VBits bs => series (cdepth t) (map is_chunk (bit_chunks bs)) n
  | TBitlist _, VBits bs =>
    exists c, n = Pair c (len_leaf (lenN bs)) /\
              series (cdepth t) (map is_chunk (bit_chunks bs)) c
  | TVector e _, VSeq vs =>
    if is_basic_elem e then series (cdepth t) (map is_chunk (packed_chunks e vs)) n
    else series (cdepth t) (map (fun x m => repr e m x) vs) n
  | TList e _, VSeq vs =>
    exists c, n = Pair c (len_leaf (lenN vs)) /\
      if is_basic_elem e then series (cdepth t) (map is_chunk (packed_chunks e vs)) c
      else series (cdepth t) (map (fun x m => repr e m x) vs) c
  | TContainer fs, VCont vs =>
    series (cdepth t)
      ((fix go (fs : list ty) (vs : list val) : list (node -> Prop) :=
          match fs, vs with
          | f :: fs', x :: vs' => (fun m => repr f m x) :: go fs' vs'
          | _, _ => []
          end) fs vs) n
  | TUnion none opts, VUnion sel ov =>
    exists c, n = Pair c (Leaf (pad32 [byte_of_N sel])) /\
      match ov with
      | None => c = Leaf zero_chunk
      | Some x =>
        (fix pick (os : list ty) (k : nat) : Prop :=
           match os, k with
           | [], _ => False
           | o :: _, O => repr o c x
           | _ :: os', S k' => pick os' k'
           end) opts (nat_of (if none then sel - 1 else sel))
      end
  | _, _ => False
  end.

End WithZero.

(* List/Vector[bool, .] is hashed unpacked by the code (known finding D3): the theorems
   about roots carry this exclusion explicitly. *)
Fixpoint no_bool_seq (t : ty) : bool :=
  match t with
  | TVector e _ | TList e _ =>
    match e with TBool => false | _ => no_bool_seq e end
  | TContainer fs => forallb no_bool_seq fs
  | TUnion _ opts => forallb no_bool_seq opts
  | _ => true
  end.

(* every length / limit parameter is small enough for the uint64 arithmetic of the Go
   constructors not to wrap (the properties go up to 2^40) *)
Fixpoint small_params (t : ty) : bool :=
  match t with
  | TBitvector n | TBitlist n => n <=? 2 ^ 56
  | TVector e n | TList e n => (n <=? 2 ^ 56) && small_params e
  | TContainer fs => forallb small_params fs
  | TUnion _ opts => forallb small_params opts
  | _ => true
  end.
