(* AgreeProofs.v — the two decoders of the library agree: the tree-backed view decoder
   (view.*TypeDef.Deserialize, model View.view_deser) and the flat decoder assembled from the
   codec helpers (model Codec.flat_dec) accept exactly the same byte strings for every
   variable-size type and produce the same value; corollary of the canonicity theorems of C03
   (DecodeProofs) and C10 / C09 (CodecProofs). *)
From Coq Require Import Lia.
From Ztyp Require Import Base Tree Types Spec Reader View Codec Repr.
From Ztyp Require Import ReprProofs SerProofs DecodeProofs CodecProofs SizeProofs.
Open Scope N_scope.

Section Agree.
Variable zh : nat -> chunk.
Hypothesis zh0 : zh 0%nat = zero_chunk.

Lemma lt32_lt63 x : x < 2 ^ 32 -> x < 2 ^ 63.
Proof.
  change (2 ^ 32) with 4294967296. change (2 ^ 63) with 9223372036854775808. lia.
Qed.

Lemma leaf_ok_var t scope : spec_is_fixed t = false -> leaf_ok t scope.
Proof. destruct t; cbn; try discriminate; auto. Qed.

(* same acceptance *)
Theorem decoders_accept_same :
  forall t bs c,
    wf_ty t = true -> small_params t = true -> sizes_ok t = true -> small_fields t = true ->
    spec_is_fixed t = false -> lenN bs < 2 ^ 32 ->
    ((exists n, view_deserialize zh t bs = OK n) <->
     (exists v c', flat_decode t c bs = OK (v, c'))).
Proof.
  intros t bs c Hwf Hsp Hso Hsf Hvar Hlen. split.
  - intros [n Hn].
    destruct (deser_canonical zh zh0 t bs n Hwf Hsp Hso Hsf Hlen (leaf_ok_var t _ Hvar) Hn)
      as (v & Hty & Hbs & _).
    subst bs. destruct (C09_roundtrip_lemma t v Hwf Hsp Hty Hlen c) as [c' Hc].
    exists v, c'. exact Hc.
  - intros (v & c' & Hd).
    destruct (C10_canonical_lemma t c bs v c' Hwf Hsp (lt32_lt63 _ Hlen) Hvar Hd) as [Hty Hbs].
    subst bs. destruct (deser_complete zh zh0 t v Hwf Hsp Hso Hsf Hty Hlen) as (n & Hn & _).
    exists n. exact Hn.
Qed.

(* same value: what the typed getters read from the view is the flat decoder's value, the view
   re-serializes to the input, and the flat value re-encodes to the input *)
Theorem decoders_same_value :
  forall t bs c n v c',
    wf_ty t = true -> small_params t = true -> sizes_ok t = true -> small_fields t = true ->
    spec_is_fixed t = false -> lenN bs < 2 ^ 32 ->
    view_deserialize zh t bs = OK n -> flat_decode t c bs = OK (v, c') ->
    (forall fuel, (ty_depth t <= fuel)%nat -> read_val fuel t n = OK v) /\
    ser_node t n = OK bs /\ flat_enc t v = OK bs /\ repr zh t n v.
Proof.
  intros t bs c n v c' Hwf Hsp Hso Hsf Hvar Hlen Hn Hd.
  destruct (C10_canonical_lemma t c bs v c' Hwf Hsp (lt32_lt63 _ Hlen) Hvar Hd) as [Hty Hbs].
  destruct (deser_canonical zh zh0 t bs n Hwf Hsp Hso Hsf Hlen (leaf_ok_var t _ Hvar) Hn)
    as (v2 & Hty2 & Hbs2 & Hr).
  assert (v2 = v).
  { assert (Hl2 : lenN (spec_ser t v2) < 2 ^ 32) by (rewrite <- Hbs2; exact Hlen).
    destruct (C09_roundtrip_lemma t v2 Hwf Hsp Hty2 Hl2 c) as [c2 Hc2].
    rewrite <- Hbs2, Hd in Hc2. inversion Hc2. reflexivity. }
  subst v2. split; [|split; [|split]].
  - intros fuel Hf. eapply read_val_spec; eassumption.
  - rewrite Hbs. eapply ser_node_spec; try eassumption. rewrite <- Hbs. exact Hlen.
  - rewrite Hbs. apply C09_encode_spec_lemma; try assumption. rewrite <- Hbs. exact Hlen.
  - exact Hr.
Qed.

End Agree.

(* ---- the flat hash-tree-root helpers give the root of the tree-backed view of the same value
   (C08, last clause): through the spec root, by C08's [flat_htr_correct] and C01's [repr_root] ---- *)
From Ztyp Require Import Merkleize.
From Ztyp Require MerkleizeProofs.

Lemma small_fields_weaken : forall t,
  ReprProofs.small_fields t = true -> MerkleizeProofs.small_fields t = true.
Proof.
  induction t as [w| |n| |n|n|e n IHe|e n IHe|fs IHfs|none opts IHopts]
    using MerkleizeProofs.ty_ind_nested; cbn; intros Hs; auto.
  - apply andb_true_iff in Hs. destruct Hs as [Hl Hfs]. apply andb_true_iff. split.
    + apply N.leb_le in Hl. apply N.ltb_lt.
      change (2 ^ 63) with 9223372036854775808 in Hl.
      change (2 ^ 64) with 18446744073709551616. lia.
    + rewrite forallb_forall in *. rewrite Forall_forall in IHfs. auto.
  - rewrite forallb_forall in *. rewrite Forall_forall in IHopts. auto.
Qed.

Section SameRoot.
Variable H : chunk -> chunk -> chunk.
Variable zh : nat -> chunk.
Hypothesis Hzh : forall d, zh d = zero_hash H d.

Theorem flat_htr_is_view_root :
  forall t v n,
    wf_ty t = true -> small_params t = true -> ReprProofs.small_fields t = true ->
    no_bool_seq t = true -> has_type v t = true -> repr zh t n v ->
    flat_htr H zh t v = OK (root_of H n).
Proof.
  intros t v n Hwf Hsp Hsf Hnb Hty Hr.
  rewrite (MerkleizeProofs.flat_htr_correct H zh Hzh t Hwf Hsp (small_fields_weaken t Hsf) v Hty).
  f_equal. symmetry. exact (repr_root H zh Hzh t v n Hwf Hsp Hnb Hty Hr).
Qed.

(* in particular for the view built by the constructors, and for a deserialized view *)
Theorem flat_htr_is_constructed_view_root :
  forall t v,
    wf_ty t = true -> small_params t = true -> ReprProofs.small_fields t = true ->
    no_bool_seq t = true -> has_type v t = true ->
    exists n, from_val zh t v = OK n /\ flat_htr H zh t v = OK (root_of H n).
Proof.
  intros t v Hwf Hsp Hsf Hnb Hty.
  destruct (from_val_repr H zh Hzh t v Hwf Hsp Hsf Hty) as (n & Hn & Hr).
  exists n. split; [exact Hn|]. eapply flat_htr_is_view_root; eassumption.
Qed.
End SameRoot.
