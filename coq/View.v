(* View.v — model of the typed views of view/*.go over pure trees: type metadata,
   default backings, constructors, deserialization, read-only iteration, serialization,
   byte lengths and getters.  Definitions only; mirrors the Go control flow.
   This is the model of the *repaired* code (fix: commits D1,D2,D4..D8,D17 in /repo). *)
From Ztyp Require Import Base Bitlen Tree Types Reader.
Open Scope N_scope.

Section MapM.
Context {A B : Type} (f : A -> res B).
Fixpoint mapM (l : list A) : res (list B) :=
  match l with
  | [] => OK []
  | x :: r => do y <- f x; do ys <- mapM r; OK (y :: ys)
  end.
End MapM.

(* ---- type metadata: ComplexTypeBase as computed by the Go constructors (uint64 wrap) ---- *)
Record tinfo := mkInfo { ti_min : N; ti_max : N; ti_size : N; ti_fixed : bool }.

(* only UintMeta implements BasicTypeDef: VectorType/ListType pack nothing else *)
Definition is_basic_elem (t : ty) : bool := match t with TUint _ => true | _ => false end.

Definition cont_step (acc : N * N * N * N) (i : tinfo) : N * N * N * N :=
  let '(fixed_part, mn, mx, offs) := acc in
  if ti_fixed i then
    (add64 fixed_part (ti_size i), add64 mn (ti_size i), add64 mx (ti_size i), offs)
  else
    (add64 fixed_part 4, add64 mn (add64 4 (ti_min i)), add64 mx (add64 4 (ti_max i)), offs + 1).
(* (FixedPartSize, MinSize, MaxSize, OffsetsCount) *)
Definition cont_acc (is : list tinfo) : N * N * N * N := fold_left cont_step is (0, 0, 0, 0).

Fixpoint info (t : ty) : tinfo :=
  match t with
  | TUint w => mkInfo w w w true
  | TBool => mkInfo 1 1 1 true
  | TBytes n => mkInfo n n n true
  | TRoot => mkInfo 32 32 32 true
  | TBitvector n => let b := wrap64 (n + 7) / 8 in mkInfo b b b true
  | TBitlist n => mkInfo 1 (wrap64 (n + 8) / 8) 0 false
  | TVector e n =>
    let ie := info e in
    if is_basic_elem e then
      let s := mul64 n (ti_size ie) in mkInfo s s s true
    else if ti_fixed ie then
      let s := mul64 n (ti_size ie) in mkInfo s s s true
    else mkInfo (mul64 n (add64 (ti_min ie) 4)) (mul64 n (add64 (ti_max ie) 4)) 0 false
  | TList e n =>
    let ie := info e in
    if is_basic_elem e then mkInfo 0 (mul64 n (ti_size ie)) 0 false
    else if ti_fixed ie then mkInfo 0 (mul64 n (ti_size ie)) 0 false
    else mkInfo 0 (mul64 n (add64 (ti_max ie) 4)) 0 false
  | TContainer fs =>
    let '(fixed_part, mn, mx, offs) := cont_acc (map info fs) in
    if offs =? 0 then mkInfo mn mx fixed_part true else mkInfo mn mx 0 false
  | TUnion none opts =>
    let is := map info opts in
    let '(mn0, mx0, rest) :=
        if none then (0, 0, is)
        else match is with i0 :: r => (ti_min i0, ti_max i0, r) | [] => (0, 0, []) end in
    let mn := fold_left (fun a i => if ti_min i <? a then ti_min i else a) rest mn0 in
    let mx := fold_left (fun a i => if a <? ti_max i then ti_max i else a) rest mx0 in
    mkInfo (add64 mn 1) (add64 mx 1) 0 false
  end.

Definition fixed_part_size (fs : list ty) : N :=
  let '(fp, _, _, _) := cont_acc (map info fs) in fp.

(* ---- tree geometry ---- *)
Definition per_node (e : ty) : N := 32 / ti_size (info e).
Definition bottom_count (e : ty) (n : N) : N :=
  let p := per_node e in wrap64 (n + p - 1) / p.
Definition bits_bottom_count (n : N) : N := N.shiftr (wrap64 (n + 255)) 8.

(* depth of the contents subtree (lists: without the length mix-in level) *)
Definition contents_depth (t : ty) : N :=
  match t with
  | TBitvector n | TBitlist n => cover_depth (bits_bottom_count n)
  | TVector e n | TList e n =>
    if is_basic_elem e then cover_depth (bottom_count e n) else cover_depth n
  | TContainer fs => cover_depth (N.of_nat (length fs))
  | _ => 0
  end.
Definition is_list_ty (t : ty) : bool :=
  match t with TBitlist _ | TList _ _ => true | _ => false end.
(* SubtreeView.depth *)
Definition view_depth (t : ty) : N := contents_depth t + (if is_list_ty t then 1 else 0).

Definition len_leaf (len : N) : node := Leaf (pad32 (le_bytes 8 len)).
Definition true_chunk : chunk := pad32 [byte_of_N 1].

Section WithZero.
Variable zh : nat -> chunk.

Definition zleaf (d : N) : node := Leaf (zh (nat_of d)).

(* ---- TypeDef.DefaultNode ---- *)
Fixpoint default_node (t : ty) : res node :=
  match t with
  | TUint _ | TBool | TBytes _ | TRoot => OK (zleaf 0)
  | TBitvector _ => OK (fill_to_depth (zleaf 0) (nat_of (contents_depth t)))
  | TBitlist _ => OK (Pair (zleaf (contents_depth t)) (zleaf 0))
  | TVector e n =>
    if is_basic_elem e then OK (fill_to_depth (zleaf 0) (nat_of (contents_depth t)))
    else do d <- default_node e; fill_to_length zh d (nat_of (contents_depth t)) n
  | TList _ _ => OK (Pair (zleaf (contents_depth t)) (zleaf 0))
  | TContainer fs =>
    do ns <- mapM default_node fs; fill_to_contents zh ns (nat_of (contents_depth t))
  | TUnion none opts =>
    if none then OK (Pair (Leaf zero_chunk) (Leaf zero_chunk))
    else match opts with
         | o :: _ => do d <- default_node o; OK (Pair d (Leaf zero_chunk))
         | [] => Panic
         end
  end.

(* ---- basic values <-> leaves ---- *)
(* View.Backing() of a basic / single-chunk view *)
Definition basic_chunk (t : ty) (v : val) : res chunk :=
  match t, v with
  | TUint w, VUint n => OK (pad32 (le_bytes (nat_of w) n))
  | TBool, VBool b => OK (if b then true_chunk else zh 0)
  | TBytes _, VBytes bs => OK (pad32 bs)
  | TRoot, VBytes bs => OK (pad32 bs)
  | _, _ => Err
  end.

(* TypeDef.ViewFromBacking for single-chunk types: the plain value read off a leaf *)
Definition leaf_val (t : ty) (c : chunk) : res val :=
  match t with
  | TUint w => OK (VUint (le_val (firstn (nat_of w) c)))
  | TBool => OK (VBool (negb (N_of_byte (hd b0 c) =? 0)))
  | TBytes n => if 32 <? n then Err else OK (VBytes (firstn (nat_of n) c))
  | TRoot => OK (VBytes c)
  | _ => Err
  end.

(* BasicTypeDef.BasicViewFromBacking(root, i) for uintN *)
Definition packed_val (e : ty) (c : chunk) (i : N) : res val :=
  match e with
  | TUint w =>
    if 32 / w <=? i then Err else
    if (w =? 1) || (w =? 2) || (w =? 4) || (w =? 8) then
      OK (VUint (le_val (firstn (nat_of w) (skipn (nat_of (w * i)) c))))
    else if w =? 32 then OK (VUint (le_val c))
    else Err
  | _ => Err
  end.

(* BasicView.BackingFromBase(base, i): nil (here Err: the nil is stored and dereferenced
   later) when i is out of range *)
Definition packed_set (e : ty) (c : chunk) (i : N) (v : val) : res chunk :=
  match e, v with
  | TUint w, VUint n =>
    if 32 / w <=? i then Panic else
    let off := nat_of (w * i) in
    OK (firstn off c ++ le_bytes (nat_of w) n ++ skipn (off + nat_of w) c)
  | _, _ => Err
  end.

(* BoolView.BackingFromBitfieldBase(base, i), i : uint8 *)
Definition chunk_set_bit (c : chunk) (i : N) (b : bool) : chunk :=
  let k := nat_of (N.shiftr i 3) in
  let old := N_of_byte (nth k c b0) in
  let bit := 2 ^ (N.land i 7) in
  list_set c k (byte_of_N (if b then N.lor old bit else N.ldiff old bit)).
(* BoolMeta.BoolViewFromBitfieldBacking(v, i), i : uint8 (repaired: no spurious bound) *)
Definition chunk_get_bit (c : chunk) (i : N) : bool :=
  byte_testbit (nth (nat_of (N.shiftr i 3)) c b0) (N.land i 7).

(* ---- constructors: FromElements / FromBits / FromFields / FromView ---- *)
Definition pack_uints (w : N) (vs : list val) : res (list byte) :=
  do bss <- mapM (fun v => match v with VUint n => OK (le_bytes (nat_of w) n) | _ => Err end) vs;
  OK (concat bss).

Fixpoint from_val (t : ty) (v : val) {struct t} : res node :=
  match t, v with
  | TUint _, _ | TBool, _ | TBytes _, _ | TRoot, _ =>
    do c <- basic_chunk t v; OK (Leaf c)
  | TBitvector n, VBits bs =>
    if negb (N.of_nat (length bs) =? n) then Err else
    fill_to_contents zh (map Leaf (chunkify (bits_to_bytes bs))) (nat_of (contents_depth t))
  | TBitlist n, VBits bs =>
    if n <? N.of_nat (length bs) then Err else
    do c <- fill_to_contents zh (map Leaf (chunkify (bits_to_bytes bs))) (nat_of (contents_depth t));
    OK (Pair c (len_leaf (N.of_nat (length bs))))
  | TVector e n, VSeq vs =>
    match e with
    | TUint w =>
      if n <? N.of_nat (length vs) then Err else
      do bs <- pack_uints w vs;
      fill_to_contents zh (map Leaf (chunkify bs)) (nat_of (contents_depth t))
    | _ =>
      if negb (N.of_nat (length vs) =? n) then Err else
      do ns <- mapM (from_val e) vs;
      fill_to_contents zh ns (nat_of (contents_depth t))
    end
  | TList e n, VSeq vs =>
    if n <? N.of_nat (length vs) then Err else
    do c <- match e with
            | TUint w =>
              do bs <- pack_uints w vs;
              fill_to_contents zh (map Leaf (chunkify bs)) (nat_of (contents_depth t))
            | _ =>
              do ns <- mapM (from_val e) vs;
              fill_to_contents zh ns (nat_of (contents_depth t))
            end;
    OK (Pair c (len_leaf (N.of_nat (length vs))))
  | TContainer fs, VCont vs =>
    if negb (Nat.eqb (length fs) (length vs)) then Err else
    do ns <- (fix go (fs : list ty) (vs : list val) : res (list node) :=
                match fs, vs with
                | f :: fs', x :: vs' => do n <- from_val f x; do r <- go fs' vs'; OK (n :: r)
                | _, _ => OK []
                end) fs vs;
    fill_to_contents zh ns (nat_of (contents_depth t))
  | TUnion none opts, VUnion sel ov =>
    do c <- match ov with
            | None => OK (Leaf zero_chunk)
            | Some x =>
              (fix pick (os : list ty) (k : nat) : res node :=
                 match os, k with
                 | [], _ => Err
                 | o :: _, O => from_val o x
                 | _ :: os', S k' => pick os' k'
                 end) opts (nat_of (if none then sel - 1 else sel))
            end;
    OK (Pair c (Leaf (pad32 [byte_of_N sel])))
  | _, _ => Err
  end.

(* ---- deserialization ---- *)
Definition decoder := rstate -> dreader -> res (node * rstate).

(* count elements, each in SubScope(size) of d *)
Fixpoint deser_fixed_series (dec : decoder) (count : nat) (size : N) (st : rstate) (d : dreader)
  : res (list node * rstate) :=
  match count with
  | O => OK ([], st)
  | S k =>
    do s <- dr_sub_scope st d size; let '(st1, sd) := s in
    do r <- dec st1 sd; let '(n, st2) := r in
    do rest <- deser_fixed_series dec k size st2 d; let '(ns, st3) := rest in
    OK (n :: ns, st3)
  end.

(* read count offsets, each >= the previous one (prev starts at [prev]) *)
Fixpoint read_offsets (count : nat) (prev : N) (st : rstate) (d : dreader)
  : res (list N * rstate * dreader) :=
  match count with
  | O => OK ([], st, d)
  | S k =>
    do r <- dr_read_u32 st d; let '(off, st1, d1) := r in
    if off <? prev then Err else
    do rest <- read_offsets k off st1 d1; let '(offs, st2, d2) := rest in
    OK (off :: offs, st2, d2)
  end.

(* elements between consecutive offsets; the last one takes scope - last offset *)
Fixpoint deser_var_elems (dec : decoder) (offs : list N) (scope : N) (st : rstate) (d : dreader)
  : res (list node * rstate) :=
  match offs with
  | [] => OK ([], st)
  | o :: rest =>
    let size := match rest with
                | o' :: _ => sub32 o' o
                | [] => sub64 scope o
                end in
    do s <- dr_sub_scope st d size; let '(st1, sd) := s in
    do r <- dec st1 sd; let '(n, st2) := r in
    do more <- deser_var_elems dec rest scope st2 d; let '(ns, st3) := more in
    OK (n :: ns, st3)
  end.

Definition fill_contents (ns : list node) (t : ty) : res node :=
  fill_to_contents zh ns (nat_of (contents_depth t)).

(* ByteBitIndex of view/bitlist.go = bitfields.BitIndex *)
Definition byte_bit_index_N (v : N) : N :=
  let '(v, out) := if negb (N.land v 240 =? 0) then (N.shiftr v 4, 4) else (v, 0) in
  let '(v, out) := if negb (N.land v 12 =? 0) then (N.shiftr v 2, N.lor out 2) else (v, out) in
  if negb (N.land v 2 =? 0) then N.lor out 1 else out.

(* one container field of the fixed part *)
Inductive cfield := CFixed (n : node) | CVar (off : N).

Fixpoint deser_cont_fixed (fs : list (tinfo * decoder)) (first : bool) (fixed_part : N)
         (prev scope : N) (st : rstate) (d : dreader)
  : res (list cfield * rstate * dreader) :=
  match fs with
  | [] => OK ([], st, d)
  | (i, dec) :: rest =>
    if ti_fixed i then
      do s <- dr_sub_scope st d (ti_size i); let '(st1, sd) := s in
      do r <- dec st1 sd; let '(n, st2) := r in
      do more <- deser_cont_fixed rest first fixed_part prev scope st2 d;
      let '(cs, st3, d3) := more in OK (CFixed n :: cs, st3, d3)
    else
      do r <- dr_read_u32 st d; let '(off, st1, d1) := r in
      if off <? prev then Err else
      if scope <? off then Err else
      (* repaired (D6): the first offset is exactly the size of the fixed part *)
      if first && negb (off =? fixed_part) then Err else
      do more <- deser_cont_fixed rest false fixed_part off scope st1 d1;
      let '(cs, st3, d3) := more in OK (CVar off :: cs, st3, d3)
  end.

(* the dynamic part: sizes from consecutive offsets, the last from uint32(scope) *)
Fixpoint deser_cont_var (fs : list (cfield * decoder)) (scope : N) (st : rstate) (d : dreader)
  : res (list node * rstate) :=
  match fs with
  | [] => OK ([], st)
  | (CFixed n, _) :: rest =>
    do more <- deser_cont_var rest scope st d; let '(ns, st1) := more in OK (n :: ns, st1)
  | (CVar off, dec) :: rest =>
    let next := (fix nxt (l : list (cfield * decoder)) : option N :=
                   match l with
                   | [] => None
                   | (CVar o, _) :: _ => Some o
                   | _ :: l' => nxt l'
                   end) rest in
    let size := match next with Some o' => sub32 o' off | None => sub32 (wrap32 scope) off end in
    do s <- dr_sub_scope st d size; let '(st1, sd) := s in
    do r <- dec st1 sd; let '(n, st2) := r in
    do more <- deser_cont_var rest scope st2 d; let '(ns, st3) := more in
    OK (n :: ns, st3)
  end.

Fixpoint view_deser (t : ty) (st : rstate) (d : dreader) {struct t} : res (node * rstate) :=
  match t with
  | TUint w =>
    if uint_width_ok w then
      do r <- dr_read st d w; let '(bs, st1, _) := r in OK (Leaf (pad32 bs), st1)
    else Err
  | TBool =>
    do r <- dr_read_byte st d; let '(b, st1, _) := r in
    if 1 <? b then Err else OK (Leaf (if b =? 1 then true_chunk else zh 0), st1)
  | TBytes n =>
    do r <- dr_read st d n; let '(bs, st1, _) := r in OK (Leaf (pad32 bs), st1)
  | TRoot =>
    do r <- dr_read st d 32; let '(bs, st1, _) := r in OK (Leaf (pad32 bs), st1)
  | TBitvector n =>
    let scope := dr_scope d in
    if negb (ti_size (info t) =? scope) then Err else
    do r <- dr_read st d scope; let '(bs, st1, _) := r in
    if negb (scope =? 0) && negb (N.land n 7 =? 0)
       && negb (N.land (N_of_byte (last bs b0)) (2 ^ (N.land n 7) - 1) =? N_of_byte (last bs b0))
    then Err else
    do root <- fill_contents (map Leaf (chunkify bs)) t; OK (root, st1)
  | TBitlist n =>
    let scope := dr_scope d in
    if scope =? 0 then Err else
    if ti_max (info t) <? scope then Err else
    do r <- dr_read st d scope; let '(bs, st1, _) := r in
    let lastb := N_of_byte (last bs b0) in
    if lastb =? 0 then Err else
    if (scope =? 1) && (lastb =? 1) then do dn <- default_node t; OK (dn, st1) else
    let dbi := byte_bit_index_N lastb in
    let bit_len := wrap64 (N.shiftl (scope - 1) 3) + dbi in
    if n <? bit_len then Err else
    let contents :=
        if dbi =? 0 then removelast bs
        else removelast bs ++ [byte_of_N (N.lxor lastb (2 ^ dbi))] in
    do c <- fill_contents (map Leaf (chunkify contents)) t;
    OK (Pair c (len_leaf bit_len), st1)
  | TVector e n =>
    let scope := dr_scope d in
    let ie := info e in
    if is_basic_elem e then
      if negb (ti_size (info t) =? scope) then Err else
      do r <- dr_read st d scope; let '(bs, st1, _) := r in
      do root <- fill_contents (map Leaf (chunkify bs)) t; OK (root, st1)
    else if ti_fixed ie then
      if negb (ti_size (info t) =? scope) then Err else
      do r <- deser_fixed_series (view_deser e) (nat_of n) (ti_size ie) st d;
      let '(ns, st1) := r in
      do root <- fill_contents ns t; OK (root, st1)
    else
      do r <- read_offsets (nat_of n) 0 st d; let '(offs, st1, d1) := r in
      (* repaired (D7): the first offset is exactly the size of the offset table *)
      if negb (hd 0 offs =? mul64 n 4) then Err else
      do r2 <- deser_var_elems (view_deser e) offs scope st1 d1; let '(ns, st2) := r2 in
      do root <- fill_contents ns t; OK (root, st2)
  | TList e n =>
    let scope := dr_scope d in
    let ie := info e in
    if is_basic_elem e then
      let esz := ti_size ie in
      let len := scope / esz in
      if n <? len then Err else
      if negb (mul64 len esz =? scope) then Err else
      if len =? 0 then do dn <- default_node t; OK (dn, st) else
      do r <- dr_read st d scope; let '(bs, st1, _) := r in
      do c <- fill_contents (map Leaf (chunkify bs)) t;
      OK (Pair c (len_leaf len), st1)
    else if scope =? 0 then do dn <- default_node t; OK (dn, st)
    else if ti_fixed ie then
      let esz := ti_size ie in
      let len := scope / esz in
      if n <? len then Err else
      if negb (mul64 len esz =? scope) then Err else
      do r <- deser_fixed_series (view_deser e) (nat_of len) esz st d; let '(ns, st1) := r in
      do c <- fill_contents ns t;
      OK (Pair c (len_leaf len), st1)
    else
      do r <- dr_read_u32 st d; let '(first, st1, d1) := r in
      if negb (first mod 4 =? 0) then Err else
      let len := first / 4 in
      if n <? len then Err else
      (* repaired (D5, D17): a non-empty scope has at least one element, and the offset
         table must fit in the scope before it is allocated *)
      if (first =? 0) || (scope <? first) then Err else
      do r2 <- read_offsets (nat_of (len - 1)) first st1 d1; let '(offs, st2, d2) := r2 in
      do r3 <- deser_var_elems (view_deser e) (first :: offs) scope st2 d2;
      let '(ns, st3) := r3 in
      do c <- fill_contents ns t;
      OK (Pair c (len_leaf len), st3)
  | TContainer fs =>
    let scope := dr_scope d in
    let it := info t in
    if (scope <? ti_min it) || (ti_max it <? scope) then Err else
    let fds := combine (map info fs) (map view_deser fs) in
    let fp := fixed_part_size fs in
    do r <- deser_cont_fixed fds true fp (wrap32 fp) scope st d; let '(cfs, st1, d1) := r in
    do r2 <- deser_cont_var (combine cfs (map view_deser fs)) scope st1 d1;
    let '(ns, st2) := r2 in
    do root <- fill_contents ns t; OK (root, st2)
  | TUnion none opts =>
    let scope := dr_scope d in
    if scope =? 0 then Err else
    do r <- dr_read_byte st d; let '(sel, st1, d1) := r in
    if wrap8 (union_count none opts) <=? sel then Err else
    if none && (sel =? 0) then
      (* repaired (D8): nothing may follow the selector of a None value *)
      if negb (scope =? 1) then Err else
      OK (Pair (Leaf zero_chunk) (Leaf (pad32 [byte_of_N sel])), st1)
    else
      (fix pick (os : list ty) (k : nat) : res (node * rstate) :=
         match os, k with
         | [], _ => Panic
         | o :: _, O =>
           (* repaired (D8): a fixed-size value fills the scope exactly *)
           if ti_fixed (info o) && negb (ti_size (info o) =? scope - 1) then Err else
           do r <- view_deser o st1 d1; let '(c, st2) := r in
           OK (Pair c (Leaf (pad32 [byte_of_N sel])), st2)
         | _ :: os', S k' => pick os' k'
         end) opts (nat_of (if none then sel - 1 else sel))
  end.

(* top-level: TypeDef.Deserialize(codec.NewDecodingReader(bytes.NewReader(bs), scope)) *)
Definition view_deserialize_scoped (t : ty) (bs : list byte) (scope : N) : res node :=
  let '(st, d) := new_reader bs scope in
  do r <- view_deser t st d; OK (fst r).
Definition view_deserialize (t : ty) (bs : list byte) : res node :=
  view_deserialize_scoped t bs (N.of_nat (length bs)).

(* ---- nodeReadonlyIter: explicit stack machine ---- *)
Record niter := mkNI { ni_i : N; ni_stack : list (option node) }.
Definition ni_init (depth : N) : niter := mkNI 0 (repeat None (nat_of depth)).
Definition node_left (n : node) : res node := match n with Pair l _ => OK l | Leaf _ => Err end.
Definition node_right (n : node) : res node := match n with Pair _ r => OK r | Leaf _ => Err end.

(* for ; stackIndex < depth; stackIndex++ { stack[stackIndex] = node; node = node.Left() } *)
Fixpoint descend_left (fuel : nat) (n : node) (si depth : N) (stack : list (option node))
  : res (node * list (option node)) :=
  if depth <=? si then OK (n, stack) else
  match fuel with
  | O => Panic
  | S f =>
    do l <- node_left n;
    descend_left f l (si + 1) depth (list_set stack (nat_of si) (Some n))
  end.

(* the shared "find bottom node number idx" step of all three read-only iterators *)
Definition iter_seek (anchor : node) (depth idx : N) (stack : list (option node))
  : res (node * list (option node)) :=
  do start <-
     (if idx =? 0 then OK (anchor, 0)
      else
        let s := N.lxor idx (idx - 1) in
        let si := wrap8 (depth + 256 - bit_length s) in
        match nth_error stack (nat_of si) with
        | Some (Some nd) => do r <- node_right nd; OK (r, wrap8 (si + 1))
        | _ => Panic
        end);
  let '(n, si) := start in
  descend_left (S (nat_of depth)) n si depth stack.

Definition node_iter_ok (depth len : N) : bool := negb (shl64 1 depth <? len).

Definition node_iter_next (anchor : node) (len depth : N) (it : niter)
  : res (option node * niter) :=
  if len <=? ni_i it then OK (None, it) else
  do r <- iter_seek anchor depth (ni_i it) (ni_stack it); let '(n, stack) := r in
  OK (Some n, mkNI (ni_i it + 1) stack).

(* drain: the first [count] results of the iterator *)
Fixpoint node_iter_take (anchor : node) (len depth : N) (count : nat) (it : niter)
  : res (list node) :=
  match count with
  | O => OK []
  | S k =>
    do r <- node_iter_next anchor len depth it;
    match r with
    | (None, _) => Err   (* "unexpected early iter end" / end of series *)
    | (Some n, it') => do rest <- node_iter_take anchor len depth k it'; OK (n :: rest)
    end
  end.
Definition node_iter_all (anchor : node) (len depth : N) : res (list node) :=
  if node_iter_ok depth len then node_iter_take anchor len depth (nat_of len) (ni_init depth)
  else Err.

(* SubtreeIntoBytes(anchor, depth, length, dest) with len(dest) = dest_len *)
Definition subtree_into_bytes (anchor : node) (depth len dest_len : N) : res (list byte) :=
  do ns <- node_iter_all anchor len depth;
  do cs <- mapM (fun n => match n with Leaf c => OK c | Pair _ _ => Err end) ns;
  if (1 <=? len) && (dest_len <? 32 * (len - 1)) then Panic else
  OK (pad_to (nat_of dest_len) (concat cs)).

(* ---- list length: Getter(RightGindex) as a uint64, checked against the limit ---- *)
Definition list_length (limit : N) (n : node) : res N :=
  match n with
  | Pair _ (Leaf c) =>
    let ll := le_val (firstn 8 c) in if limit <? ll then Err else OK ll
  | _ => Err
  end.
Definition list_limit (t : ty) : N :=
  match t with TBitlist n | TList _ n => n | _ => 0 end.

(* ---- ValueByteLength ---- *)
Definition sum_lens (lens : list N) (start : N) : N := fold_left add64 lens start.

Fixpoint byte_len (t : ty) (n : node) {struct t} : res N :=
  match t with
  | TUint w => OK w
  | TBool => OK 1
  | TBytes k => OK k
  | TRoot => OK 32
  | TBitvector _ => OK (ti_size (info t))
  | TBitlist k => do ll <- list_length k n; OK (wrap64 (ll + 8) / 8)
  | TVector e k =>
    if ti_fixed (info t) then OK (ti_size (info t)) else
    do ns <- node_iter_all n k (view_depth t);
    do lens <- mapM (byte_len e) ns;
    OK (sum_lens lens (mul64 k 4))
  | TList e k =>
    do ll <- list_length k n;
    if is_basic_elem e || ti_fixed (info e) then OK (mul64 ll (ti_size (info e))) else
    do c <- node_left n;
    do ns <- node_iter_all c ll (contents_depth t);
    do lens <- mapM (byte_len e) ns;
    OK (sum_lens lens (mul64 ll 4))
  | TContainer fs =>
    if ti_fixed (info t) then OK (ti_size (info t)) else
    (* per variable-size field: Get(i) (a Getter), then its ValueByteLength *)
    (fix go (fs : list ty) (i : N) (acc : N) : res N :=
       match fs with
       | [] => OK acc
       | f :: fs' =>
         if ti_fixed (info f) then go fs' (i + 1) (add64 acc (ti_size (info f)))
         else
           do g <- to_gindex64 i (view_depth t);
           do c <- getter n g;
           do l <- byte_len f c;
           go fs' (i + 1) (add64 acc (add64 l 4))
       end) fs 0 0
  | TUnion none opts =>
    match n with
    | Pair c (Leaf s) =>
      if negb (forallb (fun b => N_of_byte b =? 0) (tl s)) then Err else
      let sel := N_of_byte (hd b0 s) in
      if wrap8 (union_count none opts) <=? sel then Err else
      if none && (sel =? 0) then OK 1 else
      (fix pick (os : list ty) (k : nat) : res N :=
         match os, k with
         | [], _ => Panic
         | o :: _, O => do l <- byte_len o c; OK (add64 l 1)
         | _ :: os', S k' => pick os' k'
         end) opts (nat_of (if none then sel - 1 else sel))
    | _ => Err
    end
  end.

(* ---- Serialize (into an unbounded buffer); WriteOffset panics at 2^32 ---- *)
Definition write_offset (prev_off prev_size : N) : res (N * list byte) :=
  if two32 <=? prev_off then Panic else
  if two32 <=? prev_size then Panic else
  let off := prev_off + prev_size in
  if two32 <=? off then Panic else OK (off, le_bytes 4 off).

(* offsets of a variable-size series: first pass of serializeComplexVarElemSeries *)
Fixpoint write_offsets (lens : list N) (prev_off prev_size : N) : res (list byte) :=
  match lens with
  | [] => OK []
  | l :: rest =>
    do r <- write_offset prev_off prev_size; let '(off, bs) := r in
    do more <- write_offsets rest off l; OK (bs ++ more)
  end.

Fixpoint ser_node (t : ty) (n : node) {struct t} : res (list byte) :=
  match t with
  | TUint _ | TBool | TBytes _ | TRoot =>
    match n with
    | Leaf c =>
      match t with
      | TUint w => if uint_width_ok w then OK (firstn (nat_of w) c) else Err
      | TBool => OK [byte_of_N (if N_of_byte (hd b0 c) =? 0 then 0 else 1)]
      | TBytes k => if 32 <? k then Err else OK (firstn (nat_of k) c)
      | _ => OK c
      end
    | Pair _ _ => Err
    end
  | TBitvector k =>
    subtree_into_bytes n (view_depth t) (bits_bottom_count k) (ti_size (info t))
  | TBitlist k =>
    do c <- node_left n;
    do ll <- list_length k n;
    let byte_length := wrap64 (ll + 8) / 8 in
    do bs <- subtree_into_bytes c (contents_depth t) (N.shiftr (wrap64 (ll + 255)) 8) byte_length;
    let lastb := N_of_byte (last bs b0) in
    OK (removelast bs ++ [byte_of_N (N.lor lastb (2 ^ (N.land ll 7)))])
  | TVector e k =>
    if is_basic_elem e then
      subtree_into_bytes n (view_depth t) (bottom_count e k) (ti_size (info t))
    else
      do ns <- node_iter_all n k (view_depth t);
      if ti_fixed (info t) then
        do bss <- mapM (ser_node e) ns; OK (concat bss)
      else
        do lens <- mapM (byte_len e) ns;
        do offs <- write_offsets lens (mul64 k 4) 0;
        do bss <- mapM (ser_node e) ns;
        OK (offs ++ concat bss)
  | TList e k =>
    if is_basic_elem e then
      do c <- node_left n;
      do ll <- list_length k n;
      let esz := ti_size (info e) in
      let byte_length := mul64 ll esz in
      let per := 32 / esz in
      subtree_into_bytes c (contents_depth t) (wrap64 (ll + per - 1) / per) byte_length
    else
      do ll <- list_length k n;
      do c <- node_left n;
      do ns <- node_iter_all c ll (contents_depth t);
      if ti_fixed (info e) then
        do bss <- mapM (ser_node e) ns; OK (concat bss)
      else
        do lens <- mapM (byte_len e) ns;
        do offs <- write_offsets lens (mul64 ll 4) 0;
        do bss <- mapM (ser_node e) ns;
        OK (offs ++ concat bss)
  | TContainer fs =>
    do ns <- node_iter_all n (N.of_nat (length fs)) (view_depth t);
    (* fixed part with offsets, then the queued dynamic fields *)
    (fix go (fs : list ty) (ns : list node) (prev_off prev_size : N) (fixed dyn : list byte)
       : res (list byte) :=
       match fs, ns with
       | f :: fs', x :: ns' =>
         if ti_fixed (info f) then
           do bs <- ser_node f x; go fs' ns' prev_off prev_size (fixed ++ bs) dyn
         else
           do l <- byte_len f x;
           do r <- write_offset prev_off prev_size; let '(off, obs) := r in
           do bs <- ser_node f x;
           go fs' ns' off l (fixed ++ obs) (dyn ++ bs)
       | _, _ => OK (fixed ++ dyn)
       end) fs ns (fixed_part_size fs) 0 [] []
  | TUnion none opts =>
    match n with
    | Pair c (Leaf s) =>
      if negb (forallb (fun b => N_of_byte b =? 0) (tl s)) then Err else
      let sel := N_of_byte (hd b0 s) in
      if wrap8 (union_count none opts) <=? sel then Err else
      if none && (sel =? 0) then OK [byte_of_N sel] else
      (fix pick (os : list ty) (k : nat) : res (list byte) :=
         match os, k with
         | [], _ => Panic
         | o :: _, O => do bs <- ser_node o c; OK (byte_of_N sel :: bs)
         | _ :: os', S k' => pick os' k'
         end) opts (nat_of (if none then sel - 1 else sel))
    | _ => Err
    end
  end.

(* ---- getters ---- *)
(* SubtreeView.GetNode *)
Definition get_node (t : ty) (n : node) (i : N) : res node :=
  do g <- to_gindex64 i (view_depth t); getter n g.

Definition leaf_chunk (n : node) : res chunk :=
  match n with Leaf c => OK c | Pair _ _ => Err end.

(* CheckIndex of the list views *)
Definition check_index (t : ty) (n : node) (i : N) : res unit :=
  do ll <- list_length (list_limit t) n;
  if ll <=? i then Err else if list_limit t <=? i then Err else OK tt.

(* result of a typed Get: a plain basic value, a bit, or a child backing *)
Inductive got := GVal (v : val) | GNode (t : ty) (n : node).

Definition view_get (t : ty) (n : node) (i : N) : res got :=
  match t with
  | TBitvector k =>
    if k <=? i then Err else
    do b <- get_node t n (N.shiftr i 8); do c <- leaf_chunk b;
    OK (GVal (VBool (chunk_get_bit c (wrap8 i))))
  | TBitlist _ =>
    do _ <- check_index t n i;
    do b <- get_node t n (N.shiftr i 8); do c <- leaf_chunk b;
    OK (GVal (VBool (chunk_get_bit c (wrap8 i))))
  | TVector e k =>
    if k <=? i then Err else
    if is_basic_elem e then
      let p := per_node e in
      do b <- get_node t n (i / p); do c <- leaf_chunk b;
      do v <- packed_val e c (wrap8 (N.land i (p - 1))); OK (GVal v)
    else do c <- get_node t n i; OK (GNode e c)
  | TList e _ =>
    do _ <- check_index t n i;
    if is_basic_elem e then
      let p := per_node e in
      do b <- get_node t n (i / p); do c <- leaf_chunk b;
      do v <- packed_val e c (wrap8 (N.land i (p - 1))); OK (GVal v)
    else do c <- get_node t n i; OK (GNode e c)
  | TContainer fs =>
    match nth_error fs (nat_of i) with
    | None => Err
    | Some f => do c <- get_node t n i; OK (GNode f c)
    end
  | _ => Err
  end.

(* UnionView.Selector / Value *)
Definition union_selector (t : ty) (n : node) : res N :=
  match t, n with
  | TUnion none opts, Pair _ (Leaf s) =>
    if negb (forallb (fun b => N_of_byte b =? 0) (tl s)) then Err else
    let sel := N_of_byte (hd b0 s) in
    if wrap8 (union_count none opts) <=? sel then Err else OK sel
  | _, _ => Err
  end.
Definition union_value (t : ty) (n : node) : res (option (ty * node)) :=
  do sel <- union_selector t n;
  match t, n with
  | TUnion none opts, Pair c _ =>
    match union_opt none opts sel with
    | None => OK None
    | Some o => OK (Some (o, c))
    end
  | _, _ => Err
  end.

(* read a whole value back through the typed getters (C02: view -> getters -> value) *)
Fixpoint read_val (fuel : nat) (t : ty) (n : node) : res val :=
  match fuel with
  | O => Panic
  | S f =>
    let elems (count : N) :=
        mapM (fun i => do g <- view_get t n (N.of_nat i);
                       match g with
                       | GVal v => OK v
                       | GNode e c => read_val f e c
                       end) (seq 0 (nat_of count)) in
    match t with
    | TUint _ | TBool | TBytes _ | TRoot => do c <- leaf_chunk n; leaf_val t c
    | TBitvector k =>
      do vs <- elems k;
      OK (VBits (map (fun v => match v with VBool b => b | _ => false end) vs))
    | TBitlist k =>
      do ll <- list_length k n; do vs <- elems ll;
      OK (VBits (map (fun v => match v with VBool b => b | _ => false end) vs))
    | TVector _ k => do vs <- elems k; OK (VSeq vs)
    | TList _ k => do ll <- list_length k n; do vs <- elems ll; OK (VSeq vs)
    | TContainer fs => do vs <- elems (N.of_nat (length fs)); OK (VCont vs)
    | TUnion _ _ =>
      do sel <- union_selector t n;
      do ov <- union_value t n;
      match ov with
      | None => OK (VUnion sel None)
      | Some (o, c) => do v <- read_val f o c; OK (VUnion sel (Some v))
      end
    end
  end.

End WithZero.
