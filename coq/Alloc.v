(* Alloc.v — the view decoders of View.v instrumented with the number of bytes they ask the
   Go allocator for (C20).  Every `make`, every new Root / PairNode / view object is
   charged; the charge is returned also when decoding fails (hostile inputs mostly fail
   *after* having allocated).  Definitions only.  [view_deser_a] must stay in lock step
   with View.view_deser: AllocProofs proves [fst (view_deser_a ...) = view_deser ...]. *)
From Ztyp Require Import Base Bitlen Tree Types Reader View.
Open Scope N_scope.

Definition ares (A : Type) : Type := (res A * N)%type.
Definition abind {A B} (x : ares A) (f : A -> ares B) : ares B :=
  match x with
  | (OK a, c) => let '(r, c') := f a in (r, c + c')
  | (Err, c) => (Err, c)
  | (Panic, c) => (Panic, c)
  end.
Definition alift {A} (r : res A) : ares A := (r, 0).
Definition charge (k : N) : ares unit := (OK tt, k).
Notation "'ado' x <- r ; k" := (abind r (fun x => k))
  (at level 200, x pattern, r at level 100, k at level 200, right associativity).

(* unit costs in bytes *)
Definition c_leaf : N := 32.       (* a new Root *)
Definition c_pair : N := 80.       (* a new PairNode (memo + two interface words) *)
Definition c_view : N := 96.       (* a view object *)
Definition c_iface : N := 16.      (* one slot of a []View / []Node *)

(* BytesIntoNodes + SubtreeFillToContents over k bytes of content at tree depth d *)
Definition cost_chunks (k d : N) : N :=
  let chunks := (k + 31) / 32 in
  chunks * (c_iface + c_leaf) + (chunks + d) * c_pair.
(* SubtreeFillToContents over count nodes at depth d, plus the []Node slice *)
Definition cost_fill (count d : N) : N := count * c_iface + (count + d) * c_pair.

Section WithZero.
Variable zh : nat -> chunk.

Definition adecoder := rstate -> dreader -> ares (node * rstate).

Fixpoint deser_fixed_series_a (dec : adecoder) (count : nat) (size : N) (st : rstate) (d : dreader)
  : ares (list node * rstate) :=
  match count with
  | O => alift (OK ([], st))
  | S k =>
    ado s <- alift (dr_sub_scope st d size); let '(st1, sd) := s in
    ado r <- dec st1 sd; let '(n, st2) := r in
    ado rest <- deser_fixed_series_a dec k size st2 d; let '(ns, st3) := rest in
    alift (OK (n :: ns, st3))
  end.

Fixpoint deser_var_elems_a (dec : adecoder) (offs : list N) (scope : N) (st : rstate) (d : dreader)
  : ares (list node * rstate) :=
  match offs with
  | [] => alift (OK ([], st))
  | o :: rest =>
    let size := match rest with
                | o' :: _ => sub32 o' o
                | [] => sub64 scope o
                end in
    ado s <- alift (dr_sub_scope st d size); let '(st1, sd) := s in
    ado r <- dec st1 sd; let '(n, st2) := r in
    ado more <- deser_var_elems_a dec rest scope st2 d; let '(ns, st3) := more in
    alift (OK (n :: ns, st3))
  end.

Fixpoint deser_cont_fixed_a (fs : list (tinfo * adecoder)) (first : bool) (fixed_part : N)
         (prev scope : N) (st : rstate) (d : dreader)
  : ares (list cfield * rstate * dreader) :=
  match fs with
  | [] => alift (OK ([], st, d))
  | (i, dec) :: rest =>
    if ti_fixed i then
      ado s <- alift (dr_sub_scope st d (ti_size i)); let '(st1, sd) := s in
      ado r <- dec st1 sd; let '(n, st2) := r in
      ado more <- deser_cont_fixed_a rest first fixed_part prev scope st2 d;
      let '(cs, st3, d3) := more in alift (OK (CFixed n :: cs, st3, d3))
    else
      ado r <- alift (dr_read_u32 st d); let '(off, st1, d1) := r in
      if off <? prev then alift Err else
      if scope <? off then alift Err else
      if first && negb (off =? fixed_part) then alift Err else
      ado more <- deser_cont_fixed_a rest false fixed_part off scope st1 d1;
      let '(cs, st3, d3) := more in alift (OK (CVar off :: cs, st3, d3))
  end.

Fixpoint deser_cont_var_a (fs : list (cfield * adecoder)) (scope : N) (st : rstate) (d : dreader)
  : ares (list node * rstate) :=
  match fs with
  | [] => alift (OK ([], st))
  | (CFixed n, _) :: rest =>
    ado more <- deser_cont_var_a rest scope st d; let '(ns, st1) := more in alift (OK (n :: ns, st1))
  | (CVar off, dec) :: rest =>
    let next := (fix nxt (l : list (cfield * adecoder)) : option N :=
                   match l with
                   | [] => None
                   | (CVar o, _) :: _ => Some o
                   | _ :: l' => nxt l'
                   end) rest in
    let size := match next with Some o' => sub32 o' off | None => sub32 (wrap32 scope) off end in
    ado s <- alift (dr_sub_scope st d size); let '(st1, sd) := s in
    ado r <- dec st1 sd; let '(n, st2) := r in
    ado more <- deser_cont_var_a rest scope st2 d; let '(ns, st3) := more in
    alift (OK (n :: ns, st3))
  end.

Definition lenNn {A} (l : list A) : N := N.of_nat (length l).

Fixpoint view_deser_a (t : ty) (st : rstate) (d : dreader) {struct t} : ares (node * rstate) :=
  match t with
  | TUint w =>
    if uint_width_ok w then
      ado _ <- charge c_leaf;
      ado r <- alift (dr_read st d w); let '(bs, st1, _) := r in alift (OK (Leaf (pad32 bs), st1))
    else alift Err
  | TBool =>
    ado r <- alift (dr_read_byte st d); let '(b, st1, _) := r in
    if 1 <? b then alift Err else alift (OK (Leaf (if b =? 1 then true_chunk else zh 0), st1))
  | TBytes n =>
    ado _ <- charge (n + c_leaf);
    ado r <- alift (dr_read st d n); let '(bs, st1, _) := r in alift (OK (Leaf (pad32 bs), st1))
  | TRoot =>
    ado _ <- charge c_leaf;
    ado r <- alift (dr_read st d 32); let '(bs, st1, _) := r in alift (OK (Leaf (pad32 bs), st1))
  | TBitvector n =>
    let scope := dr_scope d in
    if negb (ti_size (info t) =? scope) then alift Err else
    ado _ <- charge scope;                                   (* make([]byte, scope) *)
    ado r <- alift (dr_read st d scope); let '(bs, st1, _) := r in
    if negb (scope =? 0) && negb (N.land n 7 =? 0)
       && negb (N.land (N_of_byte (last bs b0)) (2 ^ (N.land n 7) - 1) =? N_of_byte (last bs b0))
    then alift Err else
    ado _ <- charge (cost_chunks scope (contents_depth t) + c_view);
    ado root <- alift (fill_contents zh (map Leaf (chunkify bs)) t); alift (OK (root, st1))
  | TBitlist n =>
    let scope := dr_scope d in
    if scope =? 0 then alift Err else
    if ti_max (info t) <? scope then alift Err else
    ado _ <- charge scope;
    ado r <- alift (dr_read st d scope); let '(bs, st1, _) := r in
    let lastb := N_of_byte (last bs b0) in
    if lastb =? 0 then alift Err else
    if (scope =? 1) && (lastb =? 1) then
      ado _ <- charge (c_pair + c_view);
      ado dn <- alift (default_node zh t); alift (OK (dn, st1)) else
    let dbi := byte_bit_index_N lastb in
    let bit_len := wrap64 (N.shiftl (scope - 1) 3) + dbi in
    if n <? bit_len then alift Err else
    let contents :=
        if dbi =? 0 then removelast bs
        else removelast bs ++ [byte_of_N (N.lxor lastb (2 ^ dbi))] in
    ado _ <- charge (cost_chunks scope (contents_depth t) + c_pair + c_leaf + c_view);
    ado c <- alift (fill_contents zh (map Leaf (chunkify contents)) t);
    alift (OK (Pair c (len_leaf bit_len), st1))
  | TVector e n =>
    let scope := dr_scope d in
    let ie := info e in
    if is_basic_elem e then
      if negb (ti_size (info t) =? scope) then alift Err else
      ado _ <- charge scope;
      ado r <- alift (dr_read st d scope); let '(bs, st1, _) := r in
      ado _ <- charge (cost_chunks scope (contents_depth t) + c_view);
      ado root <- alift (fill_contents zh (map Leaf (chunkify bs)) t); alift (OK (root, st1))
    else if ti_fixed ie then
      if negb (ti_size (info t) =? scope) then alift Err else
      ado _ <- charge (n * c_iface);                          (* make([]View, VectorLength) *)
      ado r <- deser_fixed_series_a (view_deser_a e) (nat_of n) (ti_size ie) st d;
      let '(ns, st1) := r in
      ado _ <- charge (cost_fill n (contents_depth t) + c_view);
      ado root <- alift (fill_contents zh ns t); alift (OK (root, st1))
    else
      ado _ <- charge (n * 4);                                (* make([]uint32, VectorLength) *)
      ado r <- alift (read_offsets (nat_of n) 0 st d); let '(offs, st1, d1) := r in
      if negb (hd 0 offs =? mul64 n 4) then alift Err else
      ado _ <- charge (n * c_iface);
      ado r2 <- deser_var_elems_a (view_deser_a e) offs scope st1 d1; let '(ns, st2) := r2 in
      ado _ <- charge (cost_fill n (contents_depth t) + c_view);
      ado root <- alift (fill_contents zh ns t); alift (OK (root, st2))
  | TList e n =>
    let scope := dr_scope d in
    let ie := info e in
    if is_basic_elem e then
      let esz := ti_size ie in
      let len := scope / esz in
      if n <? len then alift Err else
      if negb (mul64 len esz =? scope) then alift Err else
      if len =? 0 then
        ado _ <- charge (c_pair + c_view);
        ado dn <- alift (default_node zh t); alift (OK (dn, st)) else
      ado _ <- charge scope;
      ado r <- alift (dr_read st d scope); let '(bs, st1, _) := r in
      ado _ <- charge (cost_chunks scope (contents_depth t) + c_pair + c_leaf + c_view);
      ado c <- alift (fill_contents zh (map Leaf (chunkify bs)) t);
      alift (OK (Pair c (len_leaf len), st1))
    else if scope =? 0 then
      ado _ <- charge (c_pair + c_view);
      ado dn <- alift (default_node zh t); alift (OK (dn, st))
    else if ti_fixed ie then
      let esz := ti_size ie in
      let len := scope / esz in
      if n <? len then alift Err else
      if negb (mul64 len esz =? scope) then alift Err else
      ado _ <- charge (len * c_iface);                        (* make([]View, length) *)
      ado r <- deser_fixed_series_a (view_deser_a e) (nat_of len) esz st d; let '(ns, st1) := r in
      ado _ <- charge (cost_fill len (contents_depth t) + c_pair + c_leaf + c_view);
      ado c <- alift (fill_contents zh ns t);
      alift (OK (Pair c (len_leaf len), st1))
    else
      ado r <- alift (dr_read_u32 st d); let '(first, st1, d1) := r in
      if negb (first mod 4 =? 0) then alift Err else
      let len := first / 4 in
      if n <? len then alift Err else
      if (first =? 0) || (scope <? first) then alift Err else
      ado _ <- charge (len * 4);                              (* make([]uint32, length) *)
      ado r2 <- alift (read_offsets (nat_of (len - 1)) first st1 d1); let '(offs, st2, d2) := r2 in
      ado _ <- charge (len * c_iface);                        (* make([]View, length) *)
      ado r3 <- deser_var_elems_a (view_deser_a e) (first :: offs) scope st2 d2;
      let '(ns, st3) := r3 in
      ado _ <- charge (cost_fill len (contents_depth t) + c_pair + c_leaf + c_view);
      ado c <- alift (fill_contents zh ns t);
      alift (OK (Pair c (len_leaf len), st3))
  | TContainer fs =>
    let scope := dr_scope d in
    let it := info t in
    ado _ <- charge (lenNn fs * (c_iface + 8));               (* fields, offsets *)
    if (scope <? ti_min it) || (ti_max it <? scope) then alift Err else
    let fds := combine (map info fs) (map view_deser_a fs) in
    let fp := fixed_part_size fs in
    ado r <- deser_cont_fixed_a fds true fp (wrap32 fp) scope st d; let '(cfs, st1, d1) := r in
    ado r2 <- deser_cont_var_a (combine cfs (map view_deser_a fs)) scope st1 d1;
    let '(ns, st2) := r2 in
    ado _ <- charge (cost_fill (lenNn fs) (contents_depth t) + c_view);
    ado root <- alift (fill_contents zh ns t); alift (OK (root, st2))
  | TUnion none opts =>
    let scope := dr_scope d in
    if scope =? 0 then alift Err else
    ado r <- alift (dr_read_byte st d); let '(sel, st1, d1) := r in
    if wrap8 (union_count none opts) <=? sel then alift Err else
    if none && (sel =? 0) then
      if negb (scope =? 1) then alift Err else
      ado _ <- charge (2 * c_leaf + c_pair + c_view);
      alift (OK (Pair (Leaf zero_chunk) (Leaf (pad32 [byte_of_N sel])), st1))
    else
      (fix pick (os : list ty) (k : nat) : ares (node * rstate) :=
         match os, k with
         | [], _ => alift Panic
         | o :: _, O =>
           if ti_fixed (info o) && negb (ti_size (info o) =? scope - 1) then alift Err else
           ado r <- view_deser_a o st1 d1; let '(c, st2) := r in
           ado _ <- charge (c_leaf + c_pair + c_view);
           alift (OK (Pair c (Leaf (pad32 [byte_of_N sel])), st2))
         | _ :: os', S k' => pick os' k'
         end) opts (nat_of (if none then sel - 1 else sel))
  end.

Definition view_deserialize_a (t : ty) (bs : list byte) : ares node :=
  let '(st, d) := new_reader bs (N.of_nat (length bs)) in
  ado r <- view_deser_a t st d; alift (OK (fst r)).

End WithZero.

(* The bound of C20: alloc <= K t * scope + F t, where neither K nor F depends on a list
   limit (they depend on vector lengths, field counts and tree depths <= 64 only). *)
Fixpoint foot (t : ty) : N :=
  match t with
  | TUint _ | TBool | TRoot => 2 * c_leaf
  | TBytes n => n + 2 * c_leaf
  | TBitvector _ | TBitlist _ => 66 * c_pair + 2 * c_leaf + 2 * c_view
  | TVector e n =>
    if is_basic_elem e then 66 * c_pair + 2 * c_view
    else n * (foot e + 2 * c_iface + c_pair + 4) + 66 * c_pair + 2 * c_view
  | TList _ _ => 66 * c_pair + 2 * c_leaf + 2 * c_view
  | TContainer fs =>
    fold_right (fun f acc => foot f + acc) 0 fs
    + lenNn fs * (2 * c_iface + 8 + c_pair) + 66 * c_pair + 2 * c_view
  | TUnion _ opts => fold_right (fun o acc => N.max (foot o) acc) 0 opts + 4 * c_leaf + 2 * c_pair + 2 * c_view
  end.

Fixpoint perbyte (t : ty) : N :=
  match t with
  | TUint _ | TBool | TRoot | TBytes _ => 0
  | TBitvector _ | TBitlist _ => 8
  | TVector e _ => if is_basic_elem e then 8 else perbyte e
  | TList e _ =>
    if is_basic_elem e then 8
    else foot e + perbyte e + 2 * c_iface + c_pair + 8
  | TContainer fs => fold_right (fun f acc => N.max (perbyte f) acc) 0 fs
  | TUnion _ opts => fold_right (fun o acc => N.max (perbyte o) acc) 0 opts
  end.
