(* TreePath.v — tree.SummaryInto for a generalized index of ANY depth.

   Tree.v states getter/setter/summarize for 64-bit generalized indices ([g_path] is the bit
   iteration of Gindex64).  The library's navigation only uses the Gindex interface (IsRoot,
   BitIter, ...), so a caller-defined Gindex deeper than 64 levels is served by the same code:
   its behaviour is [get_path]/[set_path] on the index's path.  [summarize_path] is
   [Tree.summarize] with the path given directly; [summarize_path_agrees] (TreePathProofs.v)
   shows the two coincide on every 64-bit index. *)
From Ztyp Require Import Base Tree.

Definition summarize_path (zh : nat -> chunk) (H : chunk -> chunk -> chunk) (n : node)
    (p : list bool) : res node :=
  match n with
  | Leaf _ => match p with [] => OK n | _ => Err end
  | Pair _ _ =>
    do _ <- set_path zh n p false n;  (* Setter(target,false) must succeed first *)
    do sub <- get_path n p;
    set_path zh n p false (Leaf (root_of H sub))
  end.
