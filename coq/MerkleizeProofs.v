(* MerkleizeProofs.v — the streaming merkleize loop of tree/merkle.go (Merkleize.v) and the flat
   HashFn helpers of tree/hashing.go compute the roots the SSZ document defines (C08).

   Vocabulary used in the statements of Props/C08.v (all from the model / spec files):
   [merkleize_spec H cs limit]  Spec.v: the document's merkleize(chunks, limit) (virtual padding)
   [mix_in_length], [mix_in_selector], [pack], [pack_bits]   Spec.v
   [lenN l] = N.of_nat (length l)                            Spec.v
   The element function of a chunk series [rs] is [fun i => nth (nat_of i) rs zero_chunk].

   Proof of the main theorem: the invariant of the leaf loop is [Inv i tmp]: for every set bit k
   of i, tmp[k] is the root (height k) of the 2^k leaves that start at [st k i] = i with its
   k+1 low bits cleared.  [B j a n] is the virtual-padding root of height j of the n leaves
   a, a+1, …, a+n-1. *)
From Ztyp Require Import Base Bitlen Bitfields Merkleize Types Spec BitlenProofs MerkleProofs.
From Coq Require Import PeanoNat ZArith ZifyN ZifyNat ZifyBool.
Open Scope N_scope.

Local Opaque two64.
Local Arguments N.pow : simpl never.
Local Arguments Nat.pow : simpl never.
Local Arguments N.of_nat : simpl never.
Local Arguments N.to_nat : simpl never.
Local Arguments N.shiftl : simpl never.
Local Arguments N.shiftr : simpl never.
Local Arguments N.land : simpl never.
Local Arguments N.lor : simpl never.
Local Arguments N.div : simpl never.
Local Arguments N.modulo : simpl never.
Local Arguments N.testbit : simpl never.
Local Arguments N.log2_up : simpl never.

(* ------------------------------------------------------------------------------------ *)
(* A. arithmetic of the binary counter                                                   *)

(* i with its k+1 low bits cleared *)
Definition st (k i : N) : N := 2 ^ (k + 1) * (i / 2 ^ (k + 1)).

Lemma mod_pow2_succ i j : i mod 2 ^ (j + 1) = i mod 2 ^ j + 2 ^ j * N.b2n (N.testbit i j).
Proof.
  rewrite pow2_succ, (N.mul_comm 2), N.mod_mul_r by (try apply pow2_nz; discriminate).
  rewrite <- N.testbit_spec'. reflexivity.
Qed.

Lemma st_split i j : st j i + i mod 2 ^ (j + 1) = i.
Proof. unfold st. symmetry. apply N.div_mod, pow2_nz. Qed.

Lemma mod_pow2_lt i j : i mod 2 ^ j < 2 ^ j.
Proof. apply N.mod_lt, pow2_nz. Qed.

Lemma div_succ_same i Q : Q <> 0 -> i mod Q + 1 < Q -> (i + 1) / Q = i / Q.
Proof.
  intros HQ Hlt. symmetry. apply (N.div_unique (i + 1) Q (i / Q) (i mod Q + 1)); [exact Hlt|].
  pose proof (N.div_mod i Q HQ). lia.
Qed.

Lemma high_same x y n k : x / 2 ^ n = y / 2 ^ n -> n <= k ->
  N.testbit x k = N.testbit y k /\ x / 2 ^ (k + 1) = y / 2 ^ (k + 1).
Proof.
  intros Heq Hle. split.
  - replace k with ((k - n) + n) by lia. rewrite <- !N.div_pow2_bits, Heq. reflexivity.
  - replace (k + 1) with (n + (k + 1 - n)) by lia.
    rewrite N.pow_add_r, <- !N.div_div by apply pow2_nz. rewrite Heq. reflexivity.
Qed.

Lemma pow2_le_inv a b : 2 ^ a <= 2 ^ b -> a <= b.
Proof. intro Hle. apply (N.pow_le_mono_r_iff 2); [reflexivity | exact Hle]. Qed.

Lemma pow2_lt_inv a b : 2 ^ a < 2 ^ b -> a < b.
Proof. intro Hlt. apply (N.pow_lt_mono_r_iff 2); [reflexivity | exact Hlt]. Qed.

Lemma testbit_true_ge i k : N.testbit i k = true -> 2 ^ k <= i.
Proof.
  intro Hb. destruct (N.le_gt_cases (2 ^ k) i) as [Hle|Hgt]; [exact Hle|].
  rewrite (testbit_small i k k Hgt) in Hb by lia. discriminate.
Qed.

(* the loop's test  i & (1<<j) == 0  for a uint64 i and a uint8 j <= 64 *)
Lemma bit_test i j : i < 2 ^ 64 -> j <= 64 ->
  (N.land i (shl64 1 j) =? 0) = negb (N.testbit i j).
Proof.
  intros Hi Hj. destruct (N.eq_dec j 64) as [->|Hne].
  - rewrite shl64_1_high by lia. rewrite N.land_0_r.
    rewrite (testbit_small i 64 64 Hi) by lia. reflexivity.
  - rewrite shl64_1 by lia. apply land_pow2_eqb.
Qed.

(* ------------------------------------------------------------------------------------ *)
(* B. list helpers                                                                       *)

Lemma nth_list_set_eq {A} (d : A) : forall (l : list A) i x, (i < length l)%nat ->
  nth i (list_set l i x) d = x.
Proof.
  induction l as [|y l IH]; intros [|i] x Hi; cbn [length list_set nth] in *; try lia.
  - reflexivity.
  - apply IH. lia.
Qed.

Lemma nth_list_set_neq {A} (d : A) : forall (l : list A) i x j, i <> j ->
  nth j (list_set l i x) d = nth j l d.
Proof.
  induction l as [|y l IH]; intros [|i] x [|j] Hne; cbn [list_set nth]; try reflexivity; try lia.
  apply IH. lia.
Qed.

Lemma list_set_len {A} : forall (l : list A) i x, length (list_set l i x) = length l.
Proof.
  induction l as [|y l IH]; intros [|i] x; cbn [list_set length]; try reflexivity.
  f_equal. apply IH.
Qed.

Section WithHash.
Variable H : chunk -> chunk -> chunk.
Variable zh : nat -> chunk.
Hypothesis Hzh : forall d, zh d = zero_hash H d.

Notation mv := (merkle_virtual H).

Lemma mv_join d l1 l2 : lenN l1 = 2 ^ N.of_nat d -> lenN l2 <= 2 ^ N.of_nat d ->
  mv (S d) (l1 ++ l2) = H (mv d l1) (mv d l2).
Proof.
  intros H1 H2. rewrite merkle_virtual_S.
  assert (Hn : nat_of (2 ^ N.of_nat d) = length l1) by (unfold lenN, nat_of in *; lia).
  destruct (N.leb_spec (lenN (l1 ++ l2)) (2 ^ N.of_nat d)) as [Hle|Hgt].
  - assert (l2 = []) as ->.
    { destruct l2 as [|c l2]; [reflexivity|]. unfold lenN in *.
      rewrite app_length in Hle. cbn [length] in Hle. lia. }
    rewrite app_nil_r, merkle_virtual_nil. reflexivity.
  - rewrite Hn, firstn_app, skipn_app, Nat.sub_diag, firstn_all, skipn_all.
    cbn [firstn skipn]. rewrite app_nil_r. reflexivity.
Qed.

Lemma mv_pad d l : lenN l <= 2 ^ N.of_nat d -> mv (S d) l = H (mv d l) (zh d).
Proof.
  intros Hl. rewrite merkle_virtual_S, Hzh.
  destruct (N.leb_spec (lenN l) (2 ^ N.of_nat d)) as [_|Hgt]; [reflexivity|lia].
Qed.

(* ------------------------------------------------------------------------------------ *)
(* C. the streaming loop                                                                 *)

Section Loop.
Variable leaf : N -> chunk.

(* the leaves a, a+1, ..., a+n-1 *)
Definition rng (a n : N) : list chunk :=
  map leaf (map N.of_nat (seq (N.to_nat a) (N.to_nat n))).

Lemma rng_len a n : lenN (rng a n) = n.
Proof. unfold rng, lenN. rewrite !map_length, seq_length. lia. Qed.

Lemma rng_app a n m : rng a (n + m) = rng a n ++ rng (a + n) m.
Proof.
  unfold rng. rewrite !N2Nat.inj_add, seq_app, !map_app. reflexivity.
Qed.

Lemma rng_0 a : rng a 0 = [].
Proof. reflexivity. Qed.

Lemma rng_1 a : rng a 1 = [leaf a].
Proof.
  unfold rng. change (N.to_nat 1) with 1%nat. cbn [seq map]. rewrite N2Nat.id. reflexivity.
Qed.

Definition B (j a n : N) : chunk := mv (nat_of j) (rng a n).

Lemma nat_of_succ j : nat_of (j + 1) = S (nat_of j).
Proof. unfold nat_of. lia. Qed.

Lemma B_join j a m : m <= 2 ^ j ->
  B (j + 1) a (2 ^ j + m) = H (B j a (2 ^ j)) (B j (a + 2 ^ j) m).
Proof.
  intros Hm. unfold B. rewrite nat_of_succ, rng_app.
  apply mv_join; rewrite rng_len; unfold nat_of; rewrite N2Nat.id; [reflexivity|exact Hm].
Qed.

Lemma B_pad j a n : n <= 2 ^ j -> B (j + 1) a n = H (B j a n) (zh (nat_of j)).
Proof.
  intros Hn. unfold B. rewrite nat_of_succ. apply mv_pad.
  rewrite rng_len. unfold nat_of. rewrite N2Nat.id. exact Hn.
Qed.

Lemma B_0_1 a : B 0 a 1 = leaf a.
Proof. unfold B. rewrite rng_1. reflexivity. Qed.

Lemma B_0_0 a : B 0 a 0 = zh 0.
Proof. unfold B. rewrite rng_0, Hzh. reflexivity. Qed.

Definition Inv (i : N) (tmp : list chunk) : Prop :=
  forall k, N.testbit i k = true -> nth (nat_of k) tmp zero_chunk = B k (st k i) (2 ^ k).

Lemma tmp_get_ok tmp j : (nat_of j < length tmp)%nat ->
  tmp_get tmp j = OK (nth (nat_of j) tmp zero_chunk).
Proof.
  intros Hj. unfold tmp_get.
  rewrite (nth_error_nth' tmp zero_chunk Hj). reflexivity.
Qed.

Lemma tmp_set_ok tmp j c : (nat_of j < length tmp)%nat ->
  tmp_set tmp j c = OK (list_set tmp (nat_of j) c).
Proof.
  intros Hj. unfold tmp_set.
  destruct (N.ltb_spec j (N.of_nat (length tmp))) as [_|Hge]; [reflexivity|].
  unfold nat_of in Hj. lia.
Qed.

Section Merge.
Variables (count depth ld : N) (tmp : list chunk).
Hypothesis Hlen : length tmp = S (nat_of ld).

(* merge(i) for a leaf: i < count *)
Lemma merge_leaf i : i < count -> count <= 2 ^ ld -> i < 2 ^ 64 -> Inv i tmp ->
  forall fuel j h, 64 < j + N.of_nat fuel ->
  i mod 2 ^ j + 1 = 2 ^ j -> h = B j (i + 1 - 2 ^ j) (2 ^ j) ->
  exists tmp', merge_loop H zh fuel i count depth tmp h j = OK tmp' /\
               length tmp' = length tmp /\ Inv (i + 1) tmp'.
Proof.
  intros Hic Hcl Hi64 HInv.
  induction fuel as [|f IH]; intros j h Hfuel Hlow Hh.
  - exfalso.
    assert (2 ^ j <= 2 ^ 64).
    { pose proof (N.mod_le i (2 ^ j) (pow2_nz j)). lia. }
    apply pow2_le_inv in H0. lia.
  - assert (Hj64 : j <= 64).
    { apply pow2_le_inv. pose proof (N.mod_le i (2 ^ j) (pow2_nz j)). lia. }
    assert (Hjld : j <= ld).
    { apply pow2_le_inv. pose proof (N.mod_le i (2 ^ j) (pow2_nz j)). lia. }
    cbn [merge_loop]. rewrite bit_test by assumption.
    pose proof (mod_pow2_succ i j) as Hms. pose proof (st_split i j) as Hst.
    pose proof (pow2_succ j) as Hp.
    destruct (N.testbit i j) eqn:Hbit; cbn [negb N.b2n] in *.
    + (* right side: keep merging up *)
      assert (Hjlt : j < ld).
      { apply pow2_lt_inv. apply testbit_true_ge in Hbit. lia. }
      rewrite tmp_get_ok by (rewrite Hlen; unfold nat_of; lia).
      cbn [bind]. apply IH.
      * lia.
      * lia.
      * rewrite (HInv j Hbit), Hh.
        replace (i + 1 - 2 ^ (j + 1)) with (st j i) by lia.
        replace (i + 1 - 2 ^ j) with (st j i + 2 ^ j) by lia.
        replace (2 ^ (j + 1)) with (2 ^ j + 2 ^ j) by lia.
        symmetry. apply B_join. lia.
    + (* left side of the next combination: store *)
      replace (i =? count) with false by (symmetry; apply N.eqb_neq; lia).
      cbn [andb]. rewrite tmp_set_ok by (rewrite Hlen; unfold nat_of; lia).
      eexists. split; [reflexivity|]. split; [apply list_set_len|].
      intros k Hk.
      assert (Hdiv : (i + 1) / 2 ^ (j + 1) = i / 2 ^ (j + 1)).
      { apply div_succ_same; [apply pow2_nz|]. pose proof (pow2_pos j). lia. }
      destruct (N.lt_trichotomy k j) as [Hlt|[->|Hgt]].
      * (* below j: bit k of i+1 is clear *)
        exfalso.
        assert (Hm : (i + 1) mod 2 ^ (j + 1) = 2 ^ j).
        { pose proof (N.div_mod (i + 1) (2 ^ (j + 1)) (pow2_nz _)) as Hd.
          rewrite Hdiv in Hd. unfold st in Hst. lia. }
        rewrite <- (N.mod_pow2_bits_low (i + 1) (j + 1) k) in Hk by lia.
        rewrite Hm, N.pow2_bits_false in Hk by lia. discriminate.
      * rewrite nth_list_set_eq by (rewrite Hlen; unfold nat_of; lia).
        rewrite Hh. f_equal. unfold st in *. rewrite Hdiv. lia.
      * rewrite nth_list_set_neq by (unfold nat_of; lia).
        destruct (high_same (i + 1) i (j + 1) k Hdiv) as [Hb Hd]; [lia|].
        rewrite Hb in Hk. rewrite (HInv k Hk). unfold st. rewrite Hd. reflexivity.
Qed.

(* merge(count) with hArr = ZeroHashes[0]: the padding call *)
Lemma merge_pad : count < 2 ^ depth -> depth <= ld -> depth <= 64 -> count < 2 ^ 64 ->
  Inv count tmp ->
  forall fuel j h, 64 < j + N.of_nat fuel -> j <= depth ->
  h = B j (count - count mod 2 ^ j) (count mod 2 ^ j) ->
  exists tmp', merge_loop H zh fuel count count depth tmp h j = OK tmp' /\
               length tmp' = length tmp /\
               nth (nat_of depth) tmp' zero_chunk = B depth 0 count.
Proof.
  intros Hcd Hdl Hd64 Hc64 HInv.
  induction fuel as [|f IH]; intros j h Hfuel Hjd Hh.
  - exfalso. lia.
  - cbn [merge_loop]. rewrite bit_test by (try assumption; lia).
    pose proof (mod_pow2_succ count j) as Hms. pose proof (st_split count j) as Hst.
    pose proof (pow2_succ j) as Hp. pose proof (mod_pow2_lt count j) as Hml.
    destruct (N.testbit count j) eqn:Hbit; cbn [negb N.b2n] in *.
    + assert (Hjlt : j < depth).
      { apply pow2_lt_inv. apply testbit_true_ge in Hbit. lia. }
      rewrite tmp_get_ok by (rewrite Hlen; unfold nat_of; lia).
      cbn [bind]. apply IH; [lia|lia|].
      rewrite (HInv j Hbit), Hh.
      replace (count - count mod 2 ^ (j + 1)) with (st j count) by lia.
      replace (count - count mod 2 ^ j) with (st j count + 2 ^ j) by lia.
      replace (count mod 2 ^ (j + 1)) with (2 ^ j + count mod 2 ^ j) by lia.
      symmetry. apply B_join. lia.
    + rewrite N.eqb_refl. cbn [andb].
      destruct (N.ltb_spec j depth) as [Hjlt|Hjge].
      * apply IH; [lia|lia|]. rewrite Hh.
        replace (count mod 2 ^ (j + 1)) with (count mod 2 ^ j) by lia.
        symmetry. rewrite Hzh. rewrite <- Hzh. apply B_pad. lia.
      * assert (j = depth) as -> by lia.
        rewrite tmp_set_ok by (rewrite Hlen; unfold nat_of; lia).
        eexists. split; [reflexivity|]. split; [apply list_set_len|].
        rewrite nth_list_set_eq by (rewrite Hlen; unfold nat_of; lia).
        rewrite Hh, N.mod_small by exact Hcd. f_equal. lia.
Qed.

End Merge.
End Loop.
End WithHash.
