(* MerkleizeProofs.v — the streaming merkleize loop of tree/merkle.go (Merkleize.v) and the flat
   HashFn helpers of tree/hashing.go compute the roots the SSZ document defines (C08).

   Vocabulary used in the statements of Props/C08.v (all from the model / spec files):
   [merkleize_spec H cs limit]  Spec.v: the document's merkleize(chunks, limit) (virtual padding)
   [mix_in_length], [mix_in_selector], [pack], [pack_bits]   Spec.v
   [lenN l] = N.of_nat (length l)                            Spec.v
   The element function of a chunk series [rs] is [fun i => nth (nat_of i) rs zero_chunk].

   Proof of the main theorem: the invariant of the leaf loop is [Inv i tmp]: for every set bit k
   of i, tmp[k] is the root (height k) of the 2^k leaves that start at [st k i] = i with its
   k+1 low bits cleared.  [B j a n] is the virtual-padding root of height j of the n leaves
   a, a+1, …, a+n-1. *)
From Ztyp Require Import BitfieldsProofs.
From Ztyp Require Import Base Bitlen Bitfields Merkleize Types Spec BitlenProofs MerkleProofs.
From Coq Require Import PeanoNat ZArith ZifyN ZifyNat ZifyBool.
Notation lenN := Spec.lenN.
(* parts A-C use plain linear arithmetic (div/mod terms are atoms); part D switches the
   div/mod preprocessing of lia on *)
Local Ltac Zify.zify_post_hook ::= idtac.
(* several coqc processes share .lia.cache in this directory; do not depend on it *)
Unset Lia Cache.
(* lia (8.16) expands every div/mod term into its defining equations, which makes the
   power-of-two arithmetic below very slow; [flia] hides those terms first *)
Ltac absdm := repeat match goal with
  | |- context [N.modulo ?a ?b] =>
    let x := fresh "m" in set (x := N.modulo a b) in *; clearbody x
  | H : context [N.modulo ?a ?b] |- _ =>
    let x := fresh "m" in set (x := N.modulo a b) in *; clearbody x
  | |- context [N.div ?a ?b] =>
    let x := fresh "q" in set (x := N.div a b) in *; clearbody x
  | H : context [N.div ?a ?b] |- _ =>
    let x := fresh "q" in set (x := N.div a b) in *; clearbody x
  end.
Ltac flia := absdm; lia.
Open Scope N_scope.

Local Opaque two64.
Local Arguments N.pow : simpl never.
Local Arguments Nat.pow : simpl never.
Local Arguments N.of_nat : simpl never.
Local Arguments N.to_nat : simpl never.
Local Arguments N.shiftl : simpl never.
Local Arguments N.shiftr : simpl never.
Local Arguments N.land : simpl never.
Local Arguments N.lor : simpl never.
Local Arguments N.div : simpl never.
Local Arguments N.modulo : simpl never.
Local Arguments N.testbit : simpl never.
Local Arguments N.log2_up : simpl never.

(* ------------------------------------------------------------------------------------ *)
(* A. arithmetic of the binary counter                                                   *)

(* i with its k+1 low bits cleared *)
Definition st (k i : N) : N := 2 ^ (k + 1) * (i / 2 ^ (k + 1)).

Lemma mod_pow2_succ i j : i mod 2 ^ (j + 1) = i mod 2 ^ j + 2 ^ j * N.b2n (N.testbit i j).
Proof.
  rewrite pow2_succ, (N.mul_comm 2), N.mod_mul_r by (try apply pow2_nz; discriminate).
  rewrite <- N.testbit_spec'. reflexivity.
Qed.

Lemma st_split i j : st j i + i mod 2 ^ (j + 1) = i.
Proof. unfold st. symmetry. apply N.div_mod, pow2_nz. Qed.

Lemma mod_pow2_lt i j : i mod 2 ^ j < 2 ^ j.
Proof. apply N.mod_lt, pow2_nz. Qed.

Lemma div_succ_same i Q : Q <> 0 -> i mod Q + 1 < Q -> (i + 1) / Q = i / Q.
Proof.
  intros HQ Hlt. symmetry. apply (N.div_unique (i + 1) Q (i / Q) (i mod Q + 1)); [exact Hlt|].
  pose proof (N.div_mod i Q HQ) as Hd. clear - Hd. flia.
Qed.

Lemma high_same x y n k : x / 2 ^ n = y / 2 ^ n -> n <= k ->
  N.testbit x k = N.testbit y k /\ x / 2 ^ (k + 1) = y / 2 ^ (k + 1).
Proof.
  intros Heq Hle. split.
  - replace k with ((k - n) + n) by lia. rewrite <- !N.div_pow2_bits, Heq. reflexivity.
  - replace (k + 1) with (n + (k + 1 - n)) by lia.
    rewrite N.pow_add_r, <- !N.div_div by apply pow2_nz. rewrite Heq. reflexivity.
Qed.

Lemma pow2_le_inv a b : 2 ^ a <= 2 ^ b -> a <= b.
Proof. intro Hle. apply (N.pow_le_mono_r_iff 2); [reflexivity | exact Hle]. Qed.

Lemma pow2_lt_inv a b : 2 ^ a < 2 ^ b -> a < b.
Proof. intro Hlt. apply (N.pow_lt_mono_r_iff 2); [reflexivity | exact Hlt]. Qed.

Lemma testbit_true_ge i k : N.testbit i k = true -> 2 ^ k <= i.
Proof.
  intro Hb. destruct (N.le_gt_cases (2 ^ k) i) as [Hle|Hgt]; [exact Hle|].
  rewrite (testbit_small i k k Hgt) in Hb by lia. discriminate.
Qed.

(* the loop's test  i & (1<<j) == 0  for a uint64 i and a uint8 j <= 64 *)
Lemma bit_test i j : i < 2 ^ 64 -> j <= 64 ->
  (N.land i (shl64 1 j) =? 0) = negb (N.testbit i j).
Proof.
  intros Hi Hj. destruct (N.eq_dec j 64) as [->|Hne].
  - rewrite shl64_1_high by lia. rewrite N.land_0_r.
    rewrite (testbit_small i 64 64 Hi) by lia. reflexivity.
  - rewrite shl64_1 by lia. apply land_pow2_eqb.
Qed.

(* ------------------------------------------------------------------------------------ *)
(* B. list helpers                                                                       *)

Lemma nth_list_set_eq {A} (d : A) : forall (l : list A) i x, (i < length l)%nat ->
  nth i (list_set l i x) d = x.
Proof.
  induction l as [|y l IH]; intros [|i] x Hi; cbn [length list_set nth] in *; try lia.
  - reflexivity.
  - apply IH. lia.
Qed.

Lemma nth_list_set_neq {A} (d : A) : forall (l : list A) i x j, i <> j ->
  nth j (list_set l i x) d = nth j l d.
Proof.
  induction l as [|y l IH]; intros [|i] x [|j] Hne; cbn [list_set nth]; try reflexivity; try lia.
  apply IH. lia.
Qed.

Lemma list_set_len {A} : forall (l : list A) i x, length (list_set l i x) = length l.
Proof.
  induction l as [|y l IH]; intros [|i] x; cbn [list_set length]; try reflexivity.
  f_equal. apply IH.
Qed.

Section WithHash.
Variable H : chunk -> chunk -> chunk.
Variable zh : nat -> chunk.
Hypothesis Hzh : forall d, zh d = zero_hash H d.

Notation mv := (merkle_virtual H).

Lemma mv_join d l1 l2 : lenN l1 = 2 ^ N.of_nat d -> lenN l2 <= 2 ^ N.of_nat d ->
  mv (S d) (l1 ++ l2) = H (mv d l1) (mv d l2).
Proof.
  intros H1 H2. rewrite merkle_virtual_S.
  assert (Hn : nat_of (2 ^ N.of_nat d) = length l1) by (unfold lenN, nat_of in *; lia).
  destruct (N.leb_spec (lenN (l1 ++ l2)) (2 ^ N.of_nat d)) as [Hle|Hgt].
  - assert (l2 = []) as ->.
    { destruct l2 as [|c l2]; [reflexivity|]. unfold lenN in *.
      rewrite app_length in Hle. cbn [length] in Hle. lia. }
    rewrite app_nil_r, merkle_virtual_nil. reflexivity.
  - rewrite Hn, firstn_app, skipn_app, Nat.sub_diag, firstn_all, skipn_all.
    cbn [firstn skipn]. rewrite app_nil_r. reflexivity.
Qed.

Lemma mv_pad d l : lenN l <= 2 ^ N.of_nat d -> mv (S d) l = H (mv d l) (zh d).
Proof.
  intros Hl. rewrite merkle_virtual_S, Hzh.
  destruct (N.leb_spec (lenN l) (2 ^ N.of_nat d)) as [_|Hgt]; [reflexivity|lia].
Qed.

(* ------------------------------------------------------------------------------------ *)
(* C. the streaming loop                                                                 *)

Lemma nat_of_succ j : nat_of (j + 1) = S (nat_of j).
Proof. unfold nat_of. lia. Qed.

Lemma tmp_get_ok tmp j : (nat_of j < length tmp)%nat ->
  tmp_get tmp j = OK (nth (nat_of j) tmp zero_chunk).
Proof.
  intros Hj. unfold tmp_get.
  rewrite (nth_error_nth' tmp zero_chunk Hj). reflexivity.
Qed.

Lemma tmp_set_ok tmp j c : (nat_of j < length tmp)%nat ->
  tmp_set tmp j c = OK (list_set tmp (nat_of j) c).
Proof.
  intros Hj. unfold tmp_set.
  destruct (N.ltb_spec j (N.of_nat (length tmp))) as [_|Hge]; [reflexivity|].
  unfold nat_of in Hj. lia.
Qed.

Lemma climb_ok ld (L : list chunk) : forall k j tmp, j + N.of_nat k = ld ->
  length tmp = S (nat_of ld) -> lenN L <= 2 ^ j ->
  nth (nat_of j) tmp zero_chunk = mv (nat_of j) L ->
  exists tmp', climb H zh k j tmp = OK tmp' /\
               nth (nat_of ld) tmp' zero_chunk = mv (nat_of ld) L /\
               length tmp' = S (nat_of ld).
Proof.
  induction k as [|k IH]; intros j tmp Hjk Hlen HL Hn.
  - exists tmp. change (N.of_nat 0) with 0 in Hjk. rewrite N.add_0_r in Hjk. subst ld.
    cbn [climb]. repeat split; assumption.
  - cbn [climb].
    rewrite tmp_get_ok by (rewrite Hlen; unfold nat_of; lia). cbn [bind].
    rewrite tmp_set_ok by (rewrite Hlen; unfold nat_of; lia). cbn [bind].
    apply IH.
    + lia.
    + rewrite list_set_len. exact Hlen.
    + pose proof (pow2_succ j). lia.
    + rewrite nth_list_set_eq by (rewrite Hlen; unfold nat_of; lia).
      rewrite Hn, nat_of_succ. symmetry. apply mv_pad.
      unfold nat_of. rewrite N2Nat.id. exact HL.
Qed.

Section Loop.
Variable leaf : N -> chunk.

(* the leaves a, a+1, ..., a+n-1 *)
Definition rng (a n : N) : list chunk :=
  map leaf (map N.of_nat (seq (N.to_nat a) (N.to_nat n))).

Lemma rng_len a n : lenN (rng a n) = n.
Proof. unfold rng, lenN. rewrite !map_length, seq_length. lia. Qed.

Lemma rng_app a n m : rng a (n + m) = rng a n ++ rng (a + n) m.
Proof.
  unfold rng. rewrite !N2Nat.inj_add, seq_app, !map_app. reflexivity.
Qed.

Lemma rng_0 a : rng a 0 = [].
Proof. reflexivity. Qed.

Lemma rng_1 a : rng a 1 = [leaf a].
Proof.
  unfold rng. change (N.to_nat 1) with 1%nat. cbn [seq map]. rewrite N2Nat.id. reflexivity.
Qed.

Definition B (j a n : N) : chunk := mv (nat_of j) (rng a n).


Lemma B_join j a m : m <= 2 ^ j ->
  B (j + 1) a (2 ^ j + m) = H (B j a (2 ^ j)) (B j (a + 2 ^ j) m).
Proof.
  intros Hm. unfold B. rewrite nat_of_succ, rng_app.
  apply mv_join; rewrite rng_len; unfold nat_of; rewrite N2Nat.id; [reflexivity|exact Hm].
Qed.

Lemma B_pad j a n : n <= 2 ^ j -> B (j + 1) a n = H (B j a n) (zh (nat_of j)).
Proof.
  intros Hn. unfold B. rewrite nat_of_succ. apply mv_pad.
  rewrite rng_len. unfold nat_of. rewrite N2Nat.id. exact Hn.
Qed.

Lemma B_0_1 a : B 0 a 1 = leaf a.
Proof. unfold B. rewrite rng_1. reflexivity. Qed.

Lemma B_0_0 a : B 0 a 0 = zh 0.
Proof. unfold B. rewrite rng_0, Hzh. reflexivity. Qed.

Definition Inv (i : N) (tmp : list chunk) : Prop :=
  forall k, N.testbit i k = true -> nth (nat_of k) tmp zero_chunk = B k (st k i) (2 ^ k).


Section Merge.
Variables (count depth ld : N) (tmp : list chunk).
Hypothesis Hlen : length tmp = S (nat_of ld).

(* merge(i) for a leaf: i < count *)
Lemma merge_leaf i : i < count -> count <= 2 ^ ld -> i < 2 ^ 64 -> Inv i tmp ->
  forall fuel j h, 64 < j + N.of_nat fuel ->
  i mod 2 ^ j + 1 = 2 ^ j -> h = B j (i + 1 - 2 ^ j) (2 ^ j) ->
  exists tmp', merge_loop H zh fuel i count depth tmp h j = OK tmp' /\
               length tmp' = length tmp /\ Inv (i + 1) tmp'.
Proof.
  intros Hic Hcl Hi64 HInv.
  induction fuel as [|f IH]; intros j h Hfuel Hlow Hh;
    pose proof (N.mod_le i (2 ^ j) (pow2_nz j)) as Hmle;
    assert (Hj64 : j <= 64) by (apply pow2_le_inv; clear - Hmle Hlow Hi64; flia).
  - exfalso. clear - Hfuel Hj64. flia.
  - assert (Hjld : j <= ld) by (apply pow2_le_inv; clear - Hmle Hlow Hic Hcl; flia).
    cbn [merge_loop]. rewrite bit_test by assumption.
    pose proof (mod_pow2_succ i j) as Hms. pose proof (st_split i j) as Hst.
    pose proof (pow2_succ j) as Hp.
    destruct (N.testbit i j) eqn:Hbit; cbn [negb N.b2n] in *.
    + (* right side: keep merging up *)
      rewrite N.mul_1_r in Hms.
      assert (Hjlt : j < ld).
      { apply pow2_lt_inv. apply testbit_true_ge in Hbit. clear - Hbit Hic Hcl. flia. }
      rewrite tmp_get_ok by (rewrite Hlen; unfold nat_of; clear - Hjlt; flia).
      cbn [bind]. apply IH.
      * clear - Hfuel. flia.
      * clear - Hms Hlow Hp. flia.
      * rewrite (HInv j Hbit), Hh.
        replace (i + 1 - 2 ^ (j + 1)) with (st j i) by (clear - Hms Hlow Hp Hst; flia).
        replace (i + 1 - 2 ^ j) with (st j i + 2 ^ j) by (clear - Hms Hlow Hp Hst; flia).
        replace (2 ^ (j + 1)) with (2 ^ j + 2 ^ j) by (clear - Hp; flia).
        symmetry. apply B_join. apply N.le_refl.
    + (* left side of the next combination: store *)
      rewrite N.mul_0_r, N.add_0_r in Hms.
      replace (i =? count) with false by (symmetry; apply N.eqb_neq; clear - Hic; flia).
      cbn [andb]. rewrite tmp_set_ok by (rewrite Hlen; unfold nat_of; clear - Hjld; flia).
      eexists. split; [reflexivity|]. split; [apply list_set_len|].
      intros k Hk.
      assert (Hdiv : (i + 1) / 2 ^ (j + 1) = i / 2 ^ (j + 1)).
      { apply div_succ_same; [apply pow2_nz|]. pose proof (pow2_pos j) as Hpp.
        clear - Hms Hlow Hp Hpp. flia. }
      assert (Hsteq : st j (i + 1) = st j i) by (unfold st; rewrite Hdiv; reflexivity).
      pose proof (st_split (i + 1) j) as Hst'.
      assert (Hm : (i + 1) mod 2 ^ (j + 1) = 2 ^ j)
        by (clear - Hst' Hsteq Hst Hms Hlow; flia).
      destruct (N.lt_trichotomy k j) as [Hlt|[->|Hgt]].
      * (* below j: bit k of i+1 is clear *)
        exfalso.
        rewrite <- (N.mod_pow2_bits_low (i + 1) (j + 1) k) in Hk by (clear - Hlt; flia).
        rewrite Hm, N.pow2_bits_false in Hk by (clear - Hlt; flia). discriminate.
      * rewrite nth_list_set_eq by (rewrite Hlen; unfold nat_of; clear - Hjld; flia).
        rewrite Hh. f_equal. clear - Hst' Hsteq Hm. flia.
      * rewrite nth_list_set_neq by (unfold nat_of; clear - Hgt; flia).
        destruct (high_same (i + 1) i (j + 1) k Hdiv) as [Hb Hd]; [clear - Hgt; flia|].
        rewrite Hb in Hk. rewrite (HInv k Hk). unfold st. rewrite Hd. reflexivity.
Qed.

(* merge(count) with hArr = ZeroHashes[0]: the padding call *)
Lemma merge_pad : count < 2 ^ depth -> depth <= ld -> depth <= 64 -> count < 2 ^ 64 ->
  Inv count tmp ->
  forall fuel j h, 64 < j + N.of_nat fuel -> j <= depth ->
  h = B j (count - count mod 2 ^ j) (count mod 2 ^ j) ->
  exists tmp', merge_loop H zh fuel count count depth tmp h j = OK tmp' /\
               length tmp' = length tmp /\
               nth (nat_of depth) tmp' zero_chunk = B depth 0 count.
Proof.
  intros Hcd Hdl Hd64 Hc64 HInv.
  induction fuel as [|f IH]; intros j h Hfuel Hjd Hh.
  - exfalso. clear - Hfuel Hjd Hd64. flia.
  - cbn [merge_loop]. rewrite bit_test by (try assumption; clear - Hjd Hd64; flia).
    pose proof (mod_pow2_succ count j) as Hms. pose proof (st_split count j) as Hst.
    pose proof (pow2_succ j) as Hp. pose proof (mod_pow2_lt count j) as Hml.
    pose proof (N.mod_le count (2 ^ j) (pow2_nz j)) as Hmle.
    destruct (N.testbit count j) eqn:Hbit; cbn [negb N.b2n] in *.
    + rewrite N.mul_1_r in Hms.
      assert (Hjlt : j < depth).
      { apply pow2_lt_inv. apply testbit_true_ge in Hbit. clear - Hbit Hcd. flia. }
      rewrite tmp_get_ok by (rewrite Hlen; unfold nat_of; clear - Hjlt Hdl; flia).
      cbn [bind]. apply IH; [clear - Hfuel; flia|clear - Hjlt; flia|].
      rewrite (HInv j Hbit), Hh.
      replace (count - count mod 2 ^ (j + 1)) with (st j count) by (clear - Hst; flia).
      replace (count - count mod 2 ^ j) with (st j count + 2 ^ j) by (clear - Hst Hms; flia).
      replace (count mod 2 ^ (j + 1)) with (2 ^ j + count mod 2 ^ j) by (clear - Hms; flia).
      symmetry. apply B_join. clear - Hml. flia.
    + rewrite N.mul_0_r, N.add_0_r in Hms.
      rewrite N.eqb_refl. cbn [andb].
      destruct (N.ltb_spec j depth) as [Hjlt|Hjge].
      * apply IH; [clear - Hfuel; flia|clear - Hjlt; flia|]. rewrite Hh, Hms.
        symmetry. apply B_pad. clear - Hml. flia.
      * assert (j = depth) as -> by (clear - Hjd Hjge; flia).
        rewrite tmp_set_ok by (rewrite Hlen; unfold nat_of; clear - Hdl; flia).
        eexists. split; [reflexivity|]. split; [apply list_set_len|].
        rewrite nth_list_set_eq by (rewrite Hlen; unfold nat_of; clear - Hdl; flia).
        rewrite Hh, N.mod_small by exact Hcd. f_equal. clear. flia.
Qed.

End Merge.
Lemma Inv_0 tmp : Inv 0 tmp.
Proof. intros k Hk. rewrite N.bits_0 in Hk. discriminate. Qed.

Lemma leaves_loop_ok count depth ld : count <= 2 ^ ld -> count < 2 ^ 64 ->
  forall k i tmp, i + N.of_nat k = count -> length tmp = S (nat_of ld) -> Inv i tmp ->
  exists tmp', leaves_loop H zh k i count depth leaf tmp = OK tmp' /\
               length tmp' = S (nat_of ld) /\ Inv count tmp'.
Proof.
  intros Hcl Hc64. induction k as [|k IH]; intros i tmp Hik Hlen HInv.
  - exists tmp. change (N.of_nat 0) with 0 in Hik. rewrite N.add_0_r in Hik. subst count.
    cbn [leaves_loop]. repeat split; assumption.
  - cbn [leaves_loop]. unfold merge.
    assert (Hic : i < count) by lia. assert (Hi64 : i < 2 ^ 64) by lia.
    destruct (merge_leaf count depth ld tmp Hlen i Hic Hcl Hi64 HInv 66%nat 0 (leaf i))
      as (tmp1 & Hm & Hl1 & HInv1).
    + lia.
    + rewrite N.pow_0_r, N.mod_1_r. reflexivity.
    + rewrite N.pow_0_r. replace (i + 1 - 1) with i by lia. symmetry. apply B_0_1.
    + rewrite Hm. cbn [bind]. apply IH; [lia|congruence|exact HInv1].
Qed.


End Loop.

(* the leaves 0 .. count-1 as a list *)
Definition leaves (leaf : N -> chunk) (count : N) : list chunk :=
  map leaf (map N.of_nat (seq 0 (N.to_nat count))).

Lemma log2_up_le64 v : v < 2 ^ 64 -> N.log2_up v <= 64.
Proof.
  intros Hv. destruct (N.eq_dec v 0) as [->|Hnz]; [discriminate|].
  apply N.log2_up_le_pow2; lia.
Qed.

Lemma le_pow2_log2_up v : v <= 2 ^ N.log2_up v.
Proof.
  destruct (N.le_gt_cases v 1) as [Hle|Hgt].
  - rewrite N.log2_up_eqn0 by exact Hle. rewrite N.pow_0_r. exact Hle.
  - apply N.log2_up_spec. exact Hgt.
Qed.

Theorem merkleize_correct count limit leaf : count <= limit -> limit < 2 ^ 64 ->
  merkleize H zh count limit leaf = OK (merkleize_spec H (leaves leaf count) limit).
Proof.
  intros Hcl Hl64. unfold merkleize, merkleize_spec.
  replace (limit <? count) with false by (symmetry; apply N.ltb_ge; exact Hcl).
  change (leaves leaf count) with (rng leaf 0 count).
  destruct (N.eqb_spec limit 0) as [->|Hl0].
  { assert (count = 0) as -> by lia. reflexivity. }
  destruct (N.eqb_spec limit 1) as [->|Hl1].
  { destruct (N.eqb_spec count 1) as [->|Hc1].
    - change (depth_for 1) with 0%nat. rewrite rng_1. reflexivity.
    - assert (count = 0) as -> by lia. reflexivity. }
  assert (Hc64 : count < 2 ^ 64) by lia.
  rewrite (depth_for_cover limit Hl64).
  rewrite !cover_depth_log2_up by assumption.
  set (depth := N.log2_up count). set (ld := N.log2_up limit).
  assert (Hdl : depth <= ld) by (apply N.log2_up_le_mono; exact Hcl).
  assert (Hld64 : ld <= 64) by (apply log2_up_le64; exact Hl64).
  assert (Hcd : count <= 2 ^ depth) by apply le_pow2_log2_up.
  assert (Hcld : count <= 2 ^ ld).
  { eapply N.le_trans; [exact Hcl|apply le_pow2_log2_up]. }
  destruct (leaves_loop_ok leaf count depth ld Hcld Hc64 (nat_of count) 0
              (repeat zero_chunk (S (nat_of ld))))
    as (tmp1 & Hloop & Hlen1 & HInv1).
  { unfold nat_of. lia. }
  { apply repeat_length. }
  { apply Inv_0. }
  rewrite Hloop. cbn [bind].
  (* after the leaves (and the padding call, if any) tmp[depth] is the root at [depth] *)
  assert (Hpad : exists tmp2,
    (if negb (shl64 1 depth =? count)
     then merge H zh count count depth tmp1 (zh 0) else OK tmp1) = OK tmp2 /\
    length tmp2 = S (nat_of ld) /\
    nth (nat_of depth) tmp2 zero_chunk = B leaf depth 0 count).
  { assert (Hshl : (shl64 1 depth =? count) = (2 ^ depth =? count)).
    { destruct (N.eq_dec depth 64) as [Hd|Hd].
      - rewrite shl64_1_high by lia.
        destruct (N.eqb_spec 0 count) as [<-|Hc0].
        + exfalso. unfold depth in Hd. discriminate.
        + symmetry. apply N.eqb_neq. rewrite Hd. lia.
      - rewrite shl64_1 by lia. reflexivity. }
    rewrite Hshl. destruct (N.eqb_spec (2 ^ depth) count) as [Heq|Hne]; cbn [negb].
    - exists tmp1. split; [reflexivity|]. split; [exact Hlen1|].
      assert (Hbit : N.testbit count depth = true).
      { rewrite <- Heq. apply N.pow2_bits_true. }
      rewrite (HInv1 depth Hbit). f_equal; [|exact Heq].
      unfold st. rewrite <- Heq.
      rewrite N.div_small by (apply pow2_lt_mono; lia). lia.
    - unfold merge.
      assert (Hclt : count < 2 ^ depth) by lia.
      assert (Hd64 : depth <= 64) by lia.
      destruct (merge_pad leaf count depth ld tmp1 Hlen1 Hclt Hdl Hd64 Hc64 HInv1 66%nat 0 (zh 0))
        as (tmp2 & Hm & Hl2 & Hn2).
      + lia.
      + lia.
      + rewrite N.pow_0_r, N.mod_1_r. symmetry. apply B_0_0.
      + exists tmp2. split; [exact Hm|]. split; [congruence|exact Hn2]. }
  destruct Hpad as (tmp2 & Hp & Hlen2 & Hn2). rewrite Hp. cbn [bind].
  destruct (climb_ok ld (rng leaf 0 count) (nat_of (ld - depth)) depth tmp2)
    as (tmp3 & Hc & Hn3 & Hlen3).
  { unfold nat_of. lia. }
  { exact Hlen2. }
  { rewrite rng_len. exact Hcd. }
  { exact Hn2. }
  rewrite Hc. cbn [bind].
  rewrite tmp_get_ok by (rewrite Hlen3; lia).
  rewrite Hn3. reflexivity.
Qed.

(* ------------------------------------------------------------------------------------ *)
(* D. the flat helpers                                                                   *)

Local Ltac Zify.zify_post_hook ::= Z.div_mod_to_equations.

Lemma pad32_exact l : length l = 32%nat -> pad32 l = l.
Proof.
  intros Hl. unfold pad32, pad_to. rewrite firstn_app, Hl, Nat.sub_diag, <- Hl, firstn_all.
  cbn [firstn]. apply app_nil_r.
Qed.

Lemma le_bytes_small a b x : x < 256 ^ N.of_nat a ->
  le_bytes (a + b) x = le_bytes a x ++ repeat b0 b.
Proof.
  intros Hx. rewrite le_bytes_app. f_equal. rewrite N.div_small by exact Hx.
  apply le_bytes_zero. apply N.mod_0_l, pow256_nz.
Qed.

Lemma pad32_le8 len : len < 2 ^ 64 -> pad32 (le_bytes 8 len) = pad32 (le_bytes 32 len).
Proof.
  intros Hlen. rewrite (pad32_exact (le_bytes 32 len)) by apply le_bytes_length.
  change (le_bytes 32 len) with (le_bytes (8 + 24) len). rewrite le_bytes_small by exact Hlen.
  cbn [le_bytes]. reflexivity.
Qed.

Lemma mixin_correct v len : len < 2 ^ 64 -> mixin H v len = mix_in_length H v len.
Proof. intros Hlen. unfold mixin, mix_in_length. rewrite pad32_le8 by exact Hlen. reflexivity. Qed.

Lemma pad32_le1 sel : sel < 256 -> pad32 [byte_of_N sel] = pad32 (le_bytes 32 sel).
Proof.
  intros Hs. rewrite (pad32_exact (le_bytes 32 sel)) by apply le_bytes_length.
  change (le_bytes 32 sel) with (le_bytes (1 + 31) sel). rewrite le_bytes_small by exact Hs.
  cbn [le_bytes]. reflexivity.
Qed.

Lemma union_correct_some sel r : sel < 256 -> union_htr H sel (Some r) = mix_in_selector H r sel.
Proof. intros Hs. unfold union_htr, mix_in_selector. rewrite pad32_le1 by exact Hs. reflexivity. Qed.

Lemma union_correct_none sel : sel < 256 ->
  union_htr H sel None = mix_in_selector H zero_chunk sel.
Proof. intros Hs. unfold union_htr, mix_in_selector. rewrite pad32_le1 by exact Hs. reflexivity. Qed.

(* a chunk series read through its [nth] element function *)
Definition nth_elem (rs : list chunk) : N -> chunk := fun i => nth (nat_of i) rs zero_chunk.

Lemma leaves_nth rs : leaves (nth_elem rs) (lenN rs) = rs.
Proof.
  unfold leaves, lenN, nth_elem. rewrite Nat2N.id, map_map.
  apply (nth_ext _ _ zero_chunk zero_chunk).
  - rewrite map_length, seq_length. reflexivity.
  - intros n Hn. rewrite map_length, seq_length in Hn.
    rewrite (nth_indep _ zero_chunk (nth (nat_of (N.of_nat 0)) rs zero_chunk))
      by (rewrite map_length, seq_length; exact Hn).
    rewrite (map_nth (fun x => nth (nat_of (N.of_nat x)) rs zero_chunk)).
    rewrite seq_nth by exact Hn. unfold nat_of. rewrite Nat2N.id. reflexivity.
Qed.

Lemma leaves_ext f g n : (forall i, i < n -> f i = g i) -> leaves f n = leaves g n.
Proof.
  intros Hfg. unfold leaves. rewrite !map_map. apply map_ext_in.
  intros x Hx. apply in_seq in Hx. apply Hfg. lia.
Qed.

Lemma leaves_len f n : lenN (leaves f n) = n.
Proof. unfold leaves, lenN. rewrite !map_length, seq_length. lia. Qed.

Lemma fields_correct rs : lenN rs < 2 ^ 64 ->
  fields_htr H zh rs = OK (merkleize_spec H rs (lenN rs)).
Proof.
  intros Hlen. destruct rs as [|a [|b [|c rs]]]; try reflexivity.
  unfold fields_htr. fold (nth_elem (a :: b :: c :: rs)).
  change (N.of_nat (length (a :: b :: c :: rs))) with (lenN (a :: b :: c :: rs)).
  rewrite merkleize_correct by (try exact Hlen; lia).
  rewrite leaves_nth. reflexivity.
Qed.

Lemma complex_vector_correct elem len : len < 2 ^ 64 ->
  complex_vector_htr H zh elem len = OK (merkleize_spec H (leaves elem len) len).
Proof. intros Hlen. unfold complex_vector_htr. apply merkleize_correct; [lia|exact Hlen]. Qed.

Lemma complex_list_correct elem len limit : len <= limit -> limit < 2 ^ 64 ->
  complex_list_htr H zh elem len limit =
  OK (mix_in_length H (merkleize_spec H (leaves elem len) limit) len).
Proof.
  intros Hle Hlim. unfold complex_list_htr. rewrite merkleize_correct by assumption.
  cbn [bind]. rewrite mixin_correct by lia. reflexivity.
Qed.

Lemma complex_vector_nth rs : lenN rs < 2 ^ 64 ->
  complex_vector_htr H zh (fun i => nth (nat_of i) rs zero_chunk) (lenN rs) =
  OK (merkleize_spec H rs (lenN rs)).
Proof.
  intros Hlen. fold (nth_elem rs). rewrite complex_vector_correct by exact Hlen.
  rewrite leaves_nth. reflexivity.
Qed.

Lemma complex_list_nth rs limit : lenN rs <= limit -> limit < 2 ^ 64 ->
  complex_list_htr H zh (fun i => nth (nat_of i) rs zero_chunk) (lenN rs) limit =
  OK (mix_in_length H (merkleize_spec H rs limit) (lenN rs)).
Proof.
  intros Hle Hlim. fold (nth_elem rs). rewrite complex_list_correct by assumption.
  rewrite leaves_nth. reflexivity.
Qed.

(* ---- byte strings ---- *)

Lemma chunkify_fuel_spec : forall fuel bs, (length bs < fuel)%nat ->
  chunkify_fuel fuel bs =
  map (fun i => pad32 (firstn 32 (skipn (32 * i) bs))) (seq 0 ((length bs + 31) / 32)).
Proof.
  induction fuel as [|f IH]; intros bs Hf; [lia|].
  destruct bs as [|b bs]; [reflexivity|].
  cbn [chunkify_fuel]. set (l := b :: bs) in *.
  assert (Hl : (0 < length l)%nat) by (subst l; cbn [length]; lia).
  assert (Hsk : length (skipn 32 l) = (length l - 32)%nat) by apply skipn_length.
  set (l' := skipn 32 l) in *.
  replace ((length l + 31) / 32)%nat with (S ((length l' + 31) / 32)) by lia.
  cbn [seq map]. rewrite Nat.mul_0_r. change (skipn 0 l) with l. f_equal.
  rewrite IH by lia.
  rewrite <- seq_shift, map_map. apply map_ext. intros i.
  replace (32 * S i)%nat with (32 + 32 * i)%nat by lia. rewrite skipn_add. reflexivity.
Qed.

Lemma pack_leaves bs : pack bs = leaves (bytes_chunk bs) ((lenN bs + 31) / 32).
Proof.
  unfold pack, chunkify. rewrite chunkify_fuel_spec by lia.
  unfold leaves, lenN. rewrite map_map.
  replace (N.to_nat ((N.of_nat (length bs) + 31) / 32)) with ((length bs + 31) / 32)%nat by lia.
  apply map_ext. intros i. unfold bytes_chunk, nat_of.
  replace (N.to_nat (32 * N.of_nat i)) with (32 * i)%nat by lia. reflexivity.
Qed.

Lemma lenN_pack bs : lenN (pack bs) = (lenN bs + 31) / 32.
Proof. rewrite pack_leaves. apply leaves_len. Qed.

Lemma chunks_correct bs limit :
  (lenN bs + 31) / 32 <= limit -> limit < 2 ^ 64 ->
  chunks_htr H zh (bytes_chunk bs) ((lenN bs + 31) / 32) limit = OK (merkleize_spec H (pack bs) limit).
Proof.
  intros Hle Hlim. unfold chunks_htr. rewrite merkleize_correct by assumption.
  rewrite <- pack_leaves. reflexivity.
Qed.

Lemma wrap64_small' n : n < 2 ^ 64 -> wrap64 n = n.
Proof. intros Hn. unfold wrap64. rewrite BitlenProofs.two64_eq. apply N.mod_small, Hn. Qed.

Lemma byte_vector_correct bs : lenN bs < 2 ^ 64 ->
  byte_vector_htr H zh bs = OK (merkleize_spec H (pack bs) ((lenN bs + 31) / 32)).
Proof.
  intros Hlen. unfold byte_vector_htr. fold (lenN bs). apply chunks_correct; [lia|].
  change (2 ^ 64) with 18446744073709551616 in *. lia.
Qed.

Lemma byte_list_correct bs limit : lenN bs <= limit -> limit < 2 ^ 63 ->
  byte_list_htr H zh bs limit =
  OK (mix_in_length H (merkleize_spec H (pack bs) ((limit + 31) / 32)) (lenN bs)).
Proof.
  intros Hle Hlim. unfold byte_list_htr. fold (lenN bs).
  change (2 ^ 63) with 9223372036854775808 in *.
  rewrite wrap64_small' by (change (2 ^ 64) with 18446744073709551616; lia).
  rewrite chunks_correct;
    [|lia|change (2 ^ 64) with 18446744073709551616; lia].
  cbn [bind]. rewrite mixin_correct by (change (2 ^ 64) with 18446744073709551616; lia).
  reflexivity.
Qed.

Lemma shiftr5 a : N.shiftr a 5 = a / 32.
Proof. rewrite N.shiftr_div_pow2. reflexivity. Qed.
Lemma shiftr2 a : N.shiftr a 2 = a / 4.
Proof. rewrite N.shiftr_div_pow2. reflexivity. Qed.
Lemma shiftr8 a : N.shiftr a 8 = a / 256.
Proof. rewrite N.shiftr_div_pow2. reflexivity. Qed.

Lemma uint8_vector_correct bs : lenN bs < 2 ^ 63 ->
  uint8_vector_htr H zh bs = OK (merkleize_spec H (pack bs) ((lenN bs + 31) / 32)).
Proof.
  intros Hlen. unfold uint8_vector_htr. fold (lenN bs).
  change (2 ^ 63) with 9223372036854775808 in *.
  rewrite wrap64_small' by (change (2 ^ 64) with 18446744073709551616; lia).
  rewrite shiftr5. apply chunks_correct; [lia|].
  change (2 ^ 64) with 18446744073709551616; lia.
Qed.

Lemma uint8_list_correct bs limit : lenN bs <= limit -> limit < 2 ^ 63 ->
  uint8_list_htr H zh bs limit =
  OK (mix_in_length H (merkleize_spec H (pack bs) ((limit + 31) / 32)) (lenN bs)).
Proof.
  intros Hle Hlim. unfold uint8_list_htr. fold (lenN bs).
  change (2 ^ 63) with 9223372036854775808 in *.
  rewrite !wrap64_small' by (change (2 ^ 64) with 18446744073709551616; lia).
  rewrite !shiftr5.
  rewrite chunks_correct;
    [|lia|change (2 ^ 64) with 18446744073709551616; lia].
  cbn [bind]. rewrite mixin_correct by (change (2 ^ 64) with 18446744073709551616; lia).
  reflexivity.
Qed.

Lemma lenN_u64s vals : lenN (u64s_bytes vals) = 8 * lenN vals.
Proof.
  unfold u64s_bytes, lenN. induction vals as [|v vals IH]; [reflexivity|].
  cbn [flat_map]. rewrite app_length, le_bytes_length. cbn [length]. lia.
Qed.

Lemma uint64_vector_correct vals : lenN vals < 2 ^ 60 ->
  uint64_vector_htr H zh vals =
  OK (merkleize_spec H (pack (flat_map (le_bytes 8) vals)) ((lenN vals * 8 + 31) / 32)).
Proof.
  intros Hlen. unfold uint64_vector_htr. fold (lenN vals). fold (u64s_bytes vals).
  change (2 ^ 60) with 1152921504606846976 in *.
  rewrite wrap64_small' by (change (2 ^ 64) with 18446744073709551616; lia).
  rewrite shiftr2.
  replace ((lenN vals + 3) / 4) with ((lenN (u64s_bytes vals) + 31) / 32)
    by (rewrite lenN_u64s; lia).
  rewrite chunks_correct; [|lia|rewrite lenN_u64s; change (2 ^ 64) with 18446744073709551616; lia].
  do 2 f_equal. rewrite lenN_u64s. lia.
Qed.

Lemma uint64_list_correct vals limit : lenN vals <= limit -> limit < 2 ^ 60 ->
  uint64_list_htr H zh vals limit =
  OK (mix_in_length H (merkleize_spec H (pack (flat_map (le_bytes 8) vals)) ((limit * 8 + 31) / 32))
                    (lenN vals)).
Proof.
  intros Hle Hlim. unfold uint64_list_htr. fold (lenN vals). fold (u64s_bytes vals).
  change (2 ^ 60) with 1152921504606846976 in *.
  rewrite !wrap64_small' by (change (2 ^ 64) with 18446744073709551616; lia).
  rewrite !shiftr2.
  replace ((lenN vals + 3) / 4) with ((lenN (u64s_bytes vals) + 31) / 32)
    by (rewrite lenN_u64s; lia).
  rewrite chunks_correct;
    [|rewrite lenN_u64s; lia|change (2 ^ 64) with 18446744073709551616; lia].
  cbn [bind]. rewrite mixin_correct by (change (2 ^ 64) with 18446744073709551616; lia).
  do 3 f_equal. lia.
Qed.

(* ---- bit strings ---- *)

Lemma lenN_btb bits : lenN (bits_to_bytes bits) = (lenN bits + 7) / 8.
Proof. unfold lenN. rewrite btb_length. lia. Qed.

Lemma bit_vector_correct bits : lenN bits < 2 ^ 64 ->
  bit_vector_htr H zh (bits_to_bytes bits) =
  OK (merkleize_spec H (pack_bits bits) ((lenN bits + 255) / 256)).
Proof.
  intros Hlen. unfold bit_vector_htr, chunks_htr. fold (lenN (bits_to_bytes bits)).
  set (chunks := (lenN (bits_to_bytes bits) + 31) / 32).
  assert (Hch : chunks = (lenN bits + 255) / 256) by (subst chunks; rewrite lenN_btb; lia).
  change (2 ^ 64) with 18446744073709551616 in *.
  rewrite merkleize_correct by (try apply N.le_refl; change (2 ^ 64) with 18446744073709551616; lia).
  rewrite (leaves_ext _ (bytes_chunk (bits_to_bytes bits))).
  - subst chunks. rewrite <- pack_leaves. rewrite <- Hch. reflexivity.
  - intros i Hi. destruct (N.ltb_spec i chunks) as [_|Hge]; [reflexivity|lia].
Qed.

Lemma pad32_short l : (length l <= 32)%nat -> pad32 l = l ++ repeat b0 (32 - length l).
Proof.
  intros Hl. unfold pad32, pad_to, zero_bytes.
  rewrite firstn_app, firstn_all2 by exact Hl. f_equal. rewrite firstn_repeat'. f_equal. lia.
Qed.

Lemma ldiff_delim r : N.ldiff (bits_val r + 2 ^ lenN r) (2 ^ lenN r) = bits_val r.
Proof.
  pose proof (delim_clear r) as Hx. pose proof (bits_val_bound r) as Hb.
  change (BitfieldsProofs.lenN r) with (lenN r) in *.
  apply N.bits_inj. intros k. rewrite N.ldiff_spec.
  assert (Hk := f_equal (fun z => N.testbit z k) Hx). cbn beta in Hk.
  rewrite N.lxor_spec in Hk.
  destruct (N.eq_dec k (lenN r)) as [->|Hne].
  - rewrite N.pow2_bits_true.
    rewrite (testbit_small (bits_val r) (lenN r) (lenN r) Hb) by apply N.le_refl.
    apply andb_false_r.
  - rewrite N.pow2_bits_false in * by (intro; apply Hne; symmetry; assumption).
    rewrite <- Hk. destruct (N.testbit _ _); reflexivity.
Qed.

Lemma chunk_full (P T : list byte) i : (32 * (i + 1) <= length P)%nat ->
  firstn 32 (skipn (32 * i) (P ++ T)) = firstn 32 (skipn (32 * i) P).
Proof.
  intros HP. rewrite skipn_app, firstn_app, skipn_length.
  replace (32 - (length P - 32 * i))%nat with 0%nat by lia.
  cbn [firstn]. apply app_nil_r.
Qed.

Lemma bitlist_chunk_correct bits i : lenN bits < 2 ^ 63 -> i < (lenN bits + 255) / 256 ->
  bitlist_chunk (bits_to_bytes (bits ++ [true])) (lenN bits) ((lenN bits + 255) / 256) i =
  bytes_chunk (bits_to_bytes bits) i.
Proof.
  intros Hlen Hi. change (2 ^ 63) with 9223372036854775808 in Hlen.
  destruct (split8 bits) as (A & r & q & E & HA & Hr). subst bits.
  set (n := lenN (A ++ r)) in *.
  assert (Hn : n = N.of_nat (8 * q + length r)).
  { subst n. unfold lenN. rewrite app_length, HA. reflexivity. }
  rewrite <- app_assoc, (btb_app8 q A r), (btb_app8 q A (r ++ [true])) by exact HA.
  rewrite (btb_small (r ++ [true])) by (rewrite app_length; cbn [length]; lia).
  rewrite bits_val_snoc_true. change (BitfieldsProofs.lenN r) with (lenN r).
  set (P := bits_to_bytes A). assert (HP : length P = q) by (apply btb_length8, HA).
  set (x := byte_of_N (bits_val r + 2 ^ lenN r)).
  unfold bitlist_chunk.
  destruct (N.ltb_spec i ((n + 255) / 256)) as [_|Hge]; [|lia].
  rewrite wrap64_small' by (rewrite N.shiftl_mul_pow2; change (2 ^ 8) with 256;
                            change (2 ^ 64) with 18446744073709551616; lia).
  rewrite N.shiftl_mul_pow2. change (2 ^ 8) with 256.
  unfold bytes_chunk, nat_of.
  set (ii := N.to_nat i).
  replace (N.to_nat (32 * i)) with (32 * ii)%nat by lia.
  destruct (N.ltb_spec n ((i + 1) * 256)) as [Hlt|Hge].
  - (* the delimiter bit lies in chunk i *)
    assert (Hq1 : (32 * ii <= q)%nat) by lia.
    assert (Hq2 : (q < 32 * (ii + 1))%nat) by lia.
    change 255 with (N.ones 8). rewrite !N.land_ones, !shiftr3, land7.
    change (2 ^ 8) with 256.
    replace (N.to_nat (n mod 256 / 8)) with (q - 32 * ii)%nat by lia.
    replace (n mod 8) with (lenN r) by (unfold lenN; lia).
    set (k := (q - 32 * ii)%nat).
    rewrite !skipn_app. replace (32 * ii - length P)%nat with 0%nat by lia.
    change (skipn 0 [x]) with [x]. change (skipn 0 (bits_to_bytes r)) with (bits_to_bytes r).
    set (P' := skipn (32 * ii) P).
    assert (HP' : length P' = k) by (subst P' k; rewrite skipn_length; lia).
    assert (Hk : (k < 32)%nat) by (subst k; lia).
    rewrite (firstn_all2 (n := 32) (P' ++ [x])) by (rewrite app_length; cbn [length]; lia).
    rewrite (pad32_short (P' ++ [x])) by (rewrite app_length; cbn [length]; lia).
    rewrite <- app_assoc. cbn [app].
    replace k with (length P' + 0)%nat at 1 2 by lia.
    rewrite app_nth2_plus. cbn [nth]. rewrite list_set_app_r. cbn [list_set].
    subst x. rewrite BitfieldsProofs.N_of_byte_of_N by (apply delim_lt256; exact Hr).
    rewrite ldiff_delim.
    destruct r as [|b r].
    + (* no bits in the last byte: it becomes zero = padding *)
      change (bits_to_bytes []) with (@nil byte). rewrite app_nil_r.
      rewrite (firstn_all2 (n := 32) P') by lia.
      rewrite (pad32_short P') by lia. f_equal.
      rewrite app_length. cbn [length bits_val].
      change (byte_of_N 0) with b0.
      replace (32 - length P')%nat with (S (32 - (length P' + 1)))%nat by lia.
      reflexivity.
    + rewrite (btb_small (b :: r)) by (cbn [length] in *; lia).
      rewrite (firstn_all2 (n := 32) (P' ++ _)) by (rewrite app_length; cbn [length]; lia).
      rewrite (pad32_short (P' ++ _)) by (rewrite app_length; cbn [length]; lia).
      rewrite <- app_assoc, !app_length. reflexivity.
  - (* all 256 bits of chunk i are data bits *)
    rewrite !chunk_full by lia. reflexivity.
Qed.

Lemma bit_list_correct bits limit : lenN bits <= limit -> limit < 2 ^ 63 ->
  bit_list_htr H zh (bits_to_bytes (bits ++ [true])) limit =
  OK (mix_in_length H (merkleize_spec H (pack_bits bits) ((limit + 255) / 256)) (lenN bits)).
Proof.
  intros Hle Hlim. unfold bit_list_htr, chunks_htr.
  change (bits_to_bytes (bits ++ [true])) with (pack_bitlist bits).
  assert (Hl63 : lenN bits < 2 ^ 63) by lia.
  change (2 ^ 63) with 9223372036854775808 in *.
  rewrite bitlist_len_pack
    by (change (BitfieldsProofs.lenN bits) with (lenN bits);
        change (2 ^ 64) with 18446744073709551616; lia).
  change (BitfieldsProofs.lenN bits) with (lenN bits).
  rewrite !wrap64_small' by (change (2 ^ 64) with 18446744073709551616; lia).
  rewrite !shiftr8.
  rewrite merkleize_correct by (change (2 ^ 64) with 18446744073709551616; lia).
  cbn [bind]. rewrite mixin_correct by (change (2 ^ 64) with 18446744073709551616; lia).
  do 2 f_equal. unfold merkleize_spec. f_equal.
  rewrite (leaves_ext _ (bytes_chunk (bits_to_bytes bits))).
  - unfold pack_bits. change (chunkify (bits_to_bytes bits)) with (pack (bits_to_bytes bits)).
    rewrite pack_leaves. f_equal. rewrite lenN_btb. lia.
  - intros i Hi. apply bitlist_chunk_correct; assumption.
Qed.

End WithHash.

(* ------------------------------------------------------------------------------------ *)
(* E. composition over the generic flat value of Codec.v                                 *)

From Ztyp Require Import Reader Codec Repr.

(* every container has fewer than 2^64 fields (a Go slice cannot be longer); the other
   parameters are bounded by [small_params] (Repr.v) *)
Fixpoint small_fields (t : ty) : bool :=
  match t with
  | TVector e _ | TList e _ => small_fields e
  | TContainer fs => (lenN fs <? 2 ^ 64) && forallb small_fields fs
  | TUnion _ opts => forallb small_fields opts
  | _ => true
  end.

Section TyInd.
  Variable P : ty -> Prop.
  Hypothesis HUint : forall w, P (TUint w).
  Hypothesis HBool : P TBool.
  Hypothesis HBytes : forall n, P (TBytes n).
  Hypothesis HRoot : P TRoot.
  Hypothesis HBitvector : forall n, P (TBitvector n).
  Hypothesis HBitlist : forall n, P (TBitlist n).
  Hypothesis HVector : forall e n, P e -> P (TVector e n).
  Hypothesis HList : forall e n, P e -> P (TList e n).
  Hypothesis HContainer : forall fs, Forall P fs -> P (TContainer fs).
  Hypothesis HUnion : forall none opts, Forall P opts -> P (TUnion none opts).

  Fixpoint ty_ind_nested (t : ty) : P t :=
    match t with
    | TUint w => HUint w
    | TBool => HBool
    | TBytes n => HBytes n
    | TRoot => HRoot
    | TBitvector n => HBitvector n
    | TBitlist n => HBitlist n
    | TVector e n => HVector e n (ty_ind_nested e)
    | TList e n => HList e n (ty_ind_nested e)
    | TContainer fs =>
      HContainer fs ((fix go (l : list ty) : Forall P l :=
                        match l with
                        | [] => Forall_nil P
                        | x :: r => Forall_cons x (ty_ind_nested x) (go r)
                        end) fs)
    | TUnion none opts =>
      HUnion none opts ((fix go (l : list ty) : Forall P l :=
                           match l with
                           | [] => Forall_nil P
                           | x :: r => Forall_cons x (ty_ind_nested x) (go r)
                           end) opts)
    end.
End TyInd.

(* the local loops of flat_htr / spec_htr / has_type, named *)
Definition go_list (f : val -> res chunk) : list val -> res (list chunk) :=
  fix go (vs : list val) : res (list chunk) :=
    match vs with
    | [] => OK []
    | x :: r => do c <- f x; do cs <- go r; OK (c :: cs)
    end.

Definition go_fields (f : ty -> val -> res chunk) : list ty -> list val -> res (list chunk) :=
  fix go (fs : list ty) (vs : list val) : res (list chunk) :=
    match fs, vs with
    | f0 :: fs', x :: vs' => do c <- f f0 x; do cs <- go fs' vs'; OK (c :: cs)
    | _, _ => OK []
    end.

Definition spec_fields (f : ty -> val -> chunk) : list ty -> list val -> list chunk :=
  fix go (fs : list ty) (vs : list val) : list chunk :=
    match fs, vs with
    | f0 :: fs', x :: vs' => f f0 x :: go fs' vs'
    | _, _ => []
    end.

Definition type_fields : list ty -> list val -> bool :=
  fix go (fs : list ty) (vs : list val) : bool :=
    match fs, vs with
    | [], [] => true
    | f :: fs', x :: vs' => has_type x f && go fs' vs'
    | _, _ => false
    end.

Definition pick_opt {A} (d : A) (f : ty -> A) : list ty -> nat -> A :=
  fix pick (os : list ty) (k : nat) : A :=
    match os, k with
    | [], _ => d
    | o :: _, O => f o
    | _ :: os', S k' => pick os' k'
    end.

Lemma pick_opt_nth {A} (d : A) f : forall os k,
  pick_opt d f os k = match nth_error os k with Some o => f o | None => d end.
Proof.
  induction os as [|o os IH]; intros [|k]; cbn [pick_opt nth_error]; try reflexivity.
  apply IH.
Qed.

Lemma forallb_In {A} (p : A -> bool) l x : forallb p l = true -> In x l -> p x = true.
Proof. intros Hf Hin. rewrite forallb_forall in Hf. apply Hf, Hin. Qed.

Lemma lenN_ser_uint w : forall vs, forallb (fun x => has_type x (TUint w)) vs = true ->
  lenN (flat_map (spec_ser (TUint w)) vs) = lenN vs * w.
Proof.
  induction vs as [|x vs IH]; intros Hty; [reflexivity|].
  cbn [forallb] in Hty. apply andb_prop in Hty. destruct Hty as [Hx Hvs].
  cbn [flat_map]. unfold lenN in *. rewrite app_length, Nat2N.inj_add, IH by exact Hvs.
  destruct x; try discriminate. cbn [spec_ser length]. rewrite le_bytes_length.
  unfold nat_of. lia.
Qed.

Lemma lenN_ser_bool : forall vs, forallb (fun x => has_type x TBool) vs = true ->
  lenN (flat_map (spec_ser TBool) vs) = lenN vs.
Proof.
  induction vs as [|x vs IH]; intros Hty; [reflexivity|].
  cbn [forallb] in Hty. apply andb_prop in Hty. destruct Hty as [Hx Hvs].
  cbn [flat_map]. unfold lenN in *. rewrite app_length, Nat2N.inj_add, IH by exact Hvs.
  destruct x; try discriminate. cbn [spec_ser length]. lia.
Qed.

Lemma u64_vals : forall vs, forallb (fun x => has_type x (TUint 8)) vs = true ->
  flat_map (le_bytes 8) (map (fun x => match x with VUint k => k | _ => 0 end) vs) =
  flat_map (spec_ser (TUint 8)) vs.
Proof.
  induction vs as [|x vs IH]; intros Hty; [reflexivity|].
  cbn [forallb] in Hty. apply andb_prop in Hty. destruct Hty as [Hx Hvs].
  cbn [map flat_map]. rewrite IH by exact Hvs. destruct x; try discriminate. reflexivity.
Qed.

Section FlatHtr.
Variable H : chunk -> chunk -> chunk.
Variable zh : nat -> chunk.
Hypothesis Hzh : forall d, zh d = zero_hash H d.

Lemma small_byte_vector bs : 1 <= lenN bs -> lenN bs <= 32 ->
  merkleize_spec H (pack bs) ((lenN bs + 31) / 32) = pad32 bs.
Proof.
  intros H1 H32. replace ((lenN bs + 31) / 32) with 1 by lia.
  unfold merkleize_spec. change (depth_for 1) with 0%nat.
  destruct bs as [|b bs]; [unfold lenN in H1; cbn [length] in H1; lia|].
  unfold pack, chunkify. cbn [length chunkify_fuel merkle_virtual].
  rewrite firstn_all2 by (unfold lenN in H32; lia). reflexivity.
Qed.

Definition htr_ok (t : ty) : Prop :=
  wf_ty t = true -> small_params t = true -> small_fields t = true ->
  forall v, has_type v t = true -> flat_htr H zh t v = OK (spec_htr H t v).

Lemma go_list_ok e : htr_ok e -> wf_ty e = true -> small_params e = true ->
  small_fields e = true -> forall vs, forallb (fun x => has_type x e) vs = true ->
  go_list (flat_htr H zh e) vs = OK (map (spec_htr H e) vs).
Proof.
  intros He Hwf Hsp Hsf. induction vs as [|x vs IH]; intros Hty; [reflexivity|].
  cbn [forallb] in Hty. apply andb_prop in Hty. destruct Hty as [Hx Hvs].
  cbn [go_list map]. rewrite (He Hwf Hsp Hsf x Hx). cbn [bind].
  fold (go_list (flat_htr H zh e)). rewrite IH by exact Hvs. reflexivity.
Qed.

Lemma go_fields_ok : forall fs, Forall htr_ok fs -> forallb wf_ty fs = true ->
  forallb small_params fs = true -> forallb small_fields fs = true ->
  forall vs, type_fields fs vs = true ->
  go_fields (flat_htr H zh) fs vs = OK (spec_fields (spec_htr H) fs vs) /\
  length (spec_fields (spec_htr H) fs vs) = length fs.
Proof.
  induction fs as [|f fs IH]; intros HF Hwf Hsp Hsf vs Hty.
  - destruct vs; [split; reflexivity|discriminate].
  - destruct vs as [|x vs]; [discriminate|].
    cbn [forallb type_fields] in *.
    apply andb_prop in Hwf, Hsp, Hsf, Hty.
    destruct Hwf as [Hwf1 Hwf2], Hsp as [Hsp1 Hsp2], Hsf as [Hsf1 Hsf2], Hty as [Hx Hvs].
    fold type_fields in Hvs.
    inversion HF as [|? ? Hf HF']; subst.
    destruct (IH HF' Hwf2 Hsp2 Hsf2 vs Hvs) as [IH1 IH2].
    cbn [go_fields spec_fields]. rewrite (Hf Hwf1 Hsp1 Hsf1 x Hx). cbn [bind].
    fold (go_fields (flat_htr H zh)). fold (spec_fields (spec_htr H)).
    rewrite IH1. cbn [bind length]. split; [reflexivity|]. rewrite IH2. reflexivity.
Qed.

Lemma uint_width_bound w : uint_width_ok w = true -> 1 <= w <= 32.
Proof.
  unfold uint_width_ok. intros Hw.
  repeat (apply orb_prop in Hw; destruct Hw as [Hw|Hw]); apply N.eqb_eq in Hw; lia.
Qed.

Theorem flat_htr_correct : forall t, htr_ok t.
Proof.
  induction t as [w| |n| |n|n|e n IHe|e n IHe|fs IHfs|none opts IHopts] using ty_ind_nested;
    intros Hwf Hsp Hsf v Hty.
  - reflexivity.
  - reflexivity.
  - (* BytesN *)
    destruct v; try discriminate. cbn [has_type wf_ty] in *.
    apply N.eqb_eq in Hty. apply andb_prop in Hwf. destruct Hwf as [Hn1 Hn32].
    apply N.leb_le in Hn1, Hn32. fold (lenN bs) in Hty.
    cbn [flat_htr spec_htr]. rewrite byte_vector_correct by (try exact Hzh; change (2 ^ 64) with 18446744073709551616; lia).
    rewrite small_byte_vector by lia. reflexivity.
  - destruct v; try discriminate. reflexivity.
  - (* Bitvector *)
    destruct v; try discriminate. cbn [has_type small_params] in *.
    apply N.eqb_eq in Hty. apply N.leb_le in Hsp. fold (lenN bs) in Hty.
    cbn [flat_htr spec_htr].
    change (2 ^ 56) with 72057594037927936 in Hsp.
    rewrite bit_vector_correct by (try exact Hzh; change (2 ^ 64) with 18446744073709551616; lia).
    rewrite Hty. reflexivity.
  - (* Bitlist *)
    destruct v; try discriminate. cbn [has_type small_params] in *.
    apply N.leb_le in Hty, Hsp. fold (lenN bs) in Hty.
    cbn [flat_htr spec_htr].
    change (2 ^ 56) with 72057594037927936 in Hsp.
    rewrite bit_list_correct by (try exact Hzh; try exact Hty; change (2 ^ 63) with 9223372036854775808; lia).
    reflexivity.
  - (* Vector *)
    destruct v; try discriminate. cbn [has_type wf_ty small_params small_fields] in *.
    apply andb_prop in Hty, Hwf, Hsp.
    destruct Hty as [Hlen Hvs], Hwf as [Hn1 Hwfe], Hsp as [Hn56 Hspe].
    apply N.eqb_eq in Hlen. apply N.leb_le in Hn56. fold (lenN vs) in Hlen.
    change (2 ^ 56) with 72057594037927936 in Hn56.
    assert (Hgen : spec_basic e = false ->
      flat_htr H zh (TVector e n) (VSeq vs) =
      (do rs <- go_list (flat_htr H zh e) vs;
       complex_vector_htr H zh (fun i => nth (nat_of i) rs zero_chunk) (lenN vs))).
    { destruct e; try discriminate; reflexivity. }
    destruct (spec_basic e) eqn:Hbasic.
    + destruct e; try discriminate.
      * (* uintN elements *)
        cbn [wf_ty] in Hwfe. apply uint_width_bound in Hwfe.
        pose proof (lenN_ser_uint w vs Hvs) as Hbl.
        cbn [flat_htr spec_htr spec_basic]. unfold chunk_count_basic. cbn [spec_fixed_len].
        destruct (N.eqb_spec w 1) as [->|Hw1]; [|destruct (N.eqb_spec w 8) as [->|Hw8]].
        -- rewrite byte_vector_correct by (try exact Hzh; rewrite Hbl; change (2 ^ 64) with 18446744073709551616; lia).
           rewrite Hbl, Hlen. reflexivity.
        -- rewrite uint64_vector_correct
             by (try exact Hzh; rewrite lenN_map;
                 change (2 ^ 60) with 1152921504606846976; lia).
           rewrite u64_vals by exact Hvs. rewrite lenN_map, Hlen. reflexivity.
        -- fold (lenN (flat_map (spec_ser (TUint w)) vs)).
           rewrite chunks_correct
             by (try exact Hzh; try apply N.le_refl; rewrite Hbl;
                 change (2 ^ 64) with 18446744073709551616; nia).
           rewrite Hbl, Hlen. reflexivity.
      * (* bool elements *)
        pose proof (lenN_ser_bool vs Hvs) as Hbl.
        cbn [flat_htr spec_htr spec_basic]. unfold chunk_count_basic. cbn [spec_fixed_len].
        fold (lenN (flat_map (spec_ser TBool) vs)).
        rewrite chunks_correct
          by (try exact Hzh; try apply N.le_refl; rewrite Hbl;
              change (2 ^ 64) with 18446744073709551616; lia).
        rewrite Hbl, Hlen, N.mul_1_r. reflexivity.
    + rewrite (Hgen eq_refl).
      rewrite (go_list_ok e IHe Hwfe Hspe Hsf vs Hvs). cbn [bind].
      replace (lenN vs) with (lenN (map (spec_htr H e) vs)) by apply lenN_map.
      rewrite complex_vector_nth
        by (try exact Hzh; rewrite lenN_map; change (2 ^ 64) with 18446744073709551616; lia).
      rewrite lenN_map, Hlen.
      destruct e; try discriminate; reflexivity.
  - (* List *)
    destruct v; try discriminate. cbn [has_type wf_ty small_params small_fields] in *.
    apply andb_prop in Hty, Hsp.
    destruct Hty as [Hlen Hvs], Hsp as [Hn56 Hspe].
    apply N.leb_le in Hlen. apply N.leb_le in Hn56. fold (lenN vs) in Hlen.
    change (2 ^ 56) with 72057594037927936 in Hn56.
    assert (Hgen : spec_basic e = false ->
      flat_htr H zh (TList e n) (VSeq vs) =
      (do rs <- go_list (flat_htr H zh e) vs;
       complex_list_htr H zh (fun i => nth (nat_of i) rs zero_chunk) (lenN vs) n)).
    { destruct e; try discriminate; reflexivity. }
    destruct (spec_basic e) eqn:Hbasic.
    + destruct e; try discriminate.
      * cbn [wf_ty] in Hwf. apply uint_width_bound in Hwf.
        pose proof (lenN_ser_uint w vs Hvs) as Hbl.
        cbn [flat_htr spec_htr spec_basic]. unfold chunk_count_basic. cbn [spec_fixed_len].
        destruct (N.eqb_spec w 1) as [->|Hw1]; [|destruct (N.eqb_spec w 8) as [->|Hw8]].
        -- rewrite byte_list_correct
             by (try exact Hzh; rewrite ?Hbl; change (2 ^ 63) with 9223372036854775808; lia).
           rewrite Hbl, !N.mul_1_r. reflexivity.
        -- rewrite uint64_list_correct
             by (try exact Hzh; rewrite ?lenN_map;
                 change (2 ^ 60) with 1152921504606846976; lia).
           rewrite u64_vals by exact Hvs. rewrite lenN_map. reflexivity.
        -- fold (lenN (flat_map (spec_ser (TUint w)) vs)).
           rewrite chunks_correct
             by (try exact Hzh; rewrite ?Hbl;
                 change (2 ^ 64) with 18446744073709551616; nia).
           cbn [bind]. rewrite mixin_correct by (change (2 ^ 64) with 18446744073709551616; lia).
           reflexivity.
      * pose proof (lenN_ser_bool vs Hvs) as Hbl.
        cbn [flat_htr spec_htr spec_basic]. unfold chunk_count_basic. cbn [spec_fixed_len].
        fold (lenN (flat_map (spec_ser TBool) vs)).
        rewrite chunks_correct
          by (try exact Hzh; rewrite ?Hbl; change (2 ^ 64) with 18446744073709551616; lia).
        cbn [bind]. rewrite mixin_correct by (change (2 ^ 64) with 18446744073709551616; lia).
        rewrite N.mul_1_r. reflexivity.
    + rewrite (Hgen eq_refl).
      rewrite (go_list_ok e IHe Hwf Hspe Hsf vs Hvs). cbn [bind].
      replace (lenN vs) with (lenN (map (spec_htr H e) vs)) by apply lenN_map.
      rewrite complex_list_nth
        by (try exact Hzh; rewrite ?lenN_map; change (2 ^ 64) with 18446744073709551616; lia).
      rewrite lenN_map.
      destruct e; try discriminate; reflexivity.
  - (* Container *)
    destruct v; try discriminate.
    change (has_type (VCont vs) (TContainer fs)) with (type_fields fs vs) in Hty.
    cbn [wf_ty small_params small_fields] in *.
    apply andb_prop in Hwf, Hsf. destruct Hwf as [_ Hwf], Hsf as [Hn Hsf].
    apply N.ltb_lt in Hn.
    destruct (go_fields_ok fs IHfs Hwf Hsp Hsf vs Hty) as [Hgo Hlen].
    change (flat_htr H zh (TContainer fs) (VCont vs))
      with (do rs <- go_fields (flat_htr H zh) fs vs; fields_htr H zh rs).
    change (spec_htr H (TContainer fs) (VCont vs))
      with (merkleize_spec H (spec_fields (spec_htr H) fs vs) (lenN fs)).
    rewrite Hgo. cbn [bind].
    assert (HlenN : lenN (spec_fields (spec_htr H) fs vs) = lenN fs)
      by (unfold lenN; rewrite Hlen; reflexivity).
    rewrite fields_correct by (try exact Hzh; rewrite HlenN; exact Hn).
    rewrite HlenN. reflexivity.
  - (* Union *)
    destruct v as [| | | | | |sel ov]; try discriminate.
    cbn [wf_ty small_params small_fields] in *.
    apply andb_prop in Hwf. destruct Hwf as [Hwf Hwfo]. apply andb_prop in Hwf.
    destruct Hwf as [_ Hcount]. apply N.leb_le in Hcount. unfold union_count in Hcount.
    set (k := nat_of (if none then sel - 1 else sel)).
    change (has_type (VUnion sel ov) (TUnion none opts)) with
      (if none && (sel =? 0) then match ov with None => true | Some _ => false end
       else pick_opt false (fun o => match ov with Some x => has_type x o | None => false end)
                     opts k) in Hty.
    rewrite pick_opt_nth in Hty.
    destruct ov as [x|].
    + change (flat_htr H zh (TUnion none opts) (VUnion sel (Some x))) with
        (pick_opt Err (fun o => do c <- flat_htr H zh o x; OK (union_htr H sel (Some c))) opts k).
      change (spec_htr H (TUnion none opts) (VUnion sel (Some x))) with
        (mix_in_selector H (pick_opt zero_chunk (fun o => spec_htr H o x) opts k) sel).
      rewrite !pick_opt_nth.
      destruct (none && (sel =? 0)) eqn:Hnone; [discriminate|].
      destruct (nth_error opts k) as [o|] eqn:Hnth; [|discriminate].
      assert (Hin : In o opts) by (eapply nth_error_In; exact Hnth).
      assert (Hk : (k < length opts)%nat) by (apply nth_error_Some; congruence).
      rewrite Forall_forall in IHopts.
      rewrite (IHopts o Hin (forallb_In _ _ _ Hwfo Hin) (forallb_In _ _ _ Hsp Hin)
                 (forallb_In _ _ _ Hsf Hin) x Hty).
      cbn [bind]. rewrite union_correct_some; [reflexivity|].
      subst k. unfold nat_of in Hk. destruct none; lia.
    + destruct (none && (sel =? 0)) eqn:Hnone.
      * apply andb_prop in Hnone. destruct Hnone as [_ Hs]. apply N.eqb_eq in Hs. subst sel.
        reflexivity.
      * destruct (nth_error opts k); discriminate.
Qed.

(* the hypotheses are satisfiable by a non-trivial value *)
Example flat_htr_ex_ty : ty :=
  TContainer [TUint 8; TList (TUint 2) 5; TBitlist 9; TVector TRoot 2;
              TUnion true [TBool; TBytes 3]].
Example flat_htr_ex_val : val :=
  VCont [VUint 7; VSeq [VUint 1; VUint 513]; VBits [true; false; true];
         VSeq [VBytes (zero_bytes 32); VBytes (zero_bytes 32)];
         VUnion 2 (Some (VBytes [Byte.x01; Byte.x02; Byte.x03]))].
Example flat_htr_ex_hyps :
  wf_ty flat_htr_ex_ty = true /\ small_params flat_htr_ex_ty = true /\
  small_fields flat_htr_ex_ty = true /\ has_type flat_htr_ex_val flat_htr_ex_ty = true.
Proof. repeat split; vm_compute; reflexivity. Qed.

End FlatHtr.

(* over the limit the routine silently merkleizes the first [limit] leaves (outside C08) *)
Lemma merkleize_over_limit H zh count limit leaf : limit < count ->
  merkleize H zh count limit leaf = merkleize H zh limit limit leaf.
Proof.
  intros Hlt. unfold merkleize.
  replace (limit <? count) with true by (symmetry; apply N.ltb_lt; exact Hlt).
  rewrite N.ltb_irrefl. reflexivity.
Qed.

(* ------------------------------------------------------------------------------------ *)
(* F. examples: the hypotheses of the theorems are satisfiable, and model and spec agree *)
(*    on concrete runs (toy hash of MerkleProofs.v)                                      *)

Definition ex_leaf (i : N) : chunk := [byte_of_N (i + 1); byte_of_N (2 * i)].

Example merkleize_ex_hyps : 5 <= 8 /\ 8 < 2 ^ 64.
Proof. split; [discriminate|reflexivity]. Qed.

Example merkleize_ex :
  merkleize toy_H toy_zh 5 8 ex_leaf =
  OK (merkleize_spec toy_H (map ex_leaf (map N.of_nat (seq 0 (N.to_nat 5)))) 8)
  /\ merkleize toy_H toy_zh 5 8 ex_leaf <> merkleize toy_H toy_zh 4 8 ex_leaf.
Proof. split; vm_compute; [reflexivity|discriminate]. Qed.

Example helpers_ex_hyps :
  lenN [Byte.x01; Byte.x02; Byte.x03] <= 40 /\ 40 < 2 ^ 63 /\
  lenN [true; false; true] <= 300 /\ 300 < 2 ^ 63 /\
  lenN [5; 6; 7; 8; 9] <= 9 /\ 9 < 2 ^ 60 /\ 200 < 256.
Proof. repeat split; vm_compute; reflexivity || discriminate. Qed.

Example helpers_ex :
  byte_list_htr toy_H toy_zh [Byte.x01; Byte.x02; Byte.x03] 40 =
    OK (mix_in_length toy_H (merkleize_spec toy_H (pack [Byte.x01; Byte.x02; Byte.x03]) ((40 + 31) / 32)) 3)
  /\ bit_list_htr toy_H toy_zh (bits_to_bytes ([true; false; true] ++ [true])) 300 =
    OK (mix_in_length toy_H (merkleize_spec toy_H (pack_bits [true; false; true]) ((300 + 255) / 256)) 3)
  /\ uint64_list_htr toy_H toy_zh [5; 6; 7; 8; 9] 9 =
    OK (mix_in_length toy_H (merkleize_spec toy_H (pack (flat_map (le_bytes 8) [5; 6; 7; 8; 9]))
                                            ((9 * 8 + 31) / 32)) 5).
Proof. repeat split; vm_compute; reflexivity. Qed.

(* the bound on the byte limit is needed: (limit + 31) wraps in uint64 *)
Example byte_list_limit_wrap :
  byte_list_htr toy_H toy_zh [Byte.x01] (2 ^ 64 - 1) <>
  OK (mix_in_length toy_H (merkleize_spec toy_H (pack [Byte.x01]) ((2 ^ 64 - 1 + 31) / 32)) 1).
Proof. vm_compute. discriminate. Qed.

Example flat_htr_ex :
  flat_htr toy_H toy_zh flat_htr_ex_ty flat_htr_ex_val =
  OK (spec_htr toy_H flat_htr_ex_ty flat_htr_ex_val).
Proof. vm_compute. reflexivity. Qed.
