(* MerkleizeProofs.v — the streaming merkleize loop of tree/merkle.go (Merkleize.v) and the flat
   HashFn helpers of tree/hashing.go compute the roots the SSZ document defines (C08).

   Vocabulary used in the statements of Props/C08.v (all from the model / spec files):
   [merkleize_spec H cs limit]  Spec.v: the document's merkleize(chunks, limit) (virtual padding)
   [mix_in_length], [mix_in_selector], [pack], [pack_bits]   Spec.v
   [lenN l] = N.of_nat (length l)                            Spec.v
   The element function of a chunk series [rs] is [fun i => nth (nat_of i) rs zero_chunk].

   Proof of the main theorem: the invariant of the leaf loop is [Inv i tmp]: for every set bit k
   of i, tmp[k] is the root (height k) of the 2^k leaves that start at [st k i] = i with its
   k+1 low bits cleared.  [B j a n] is the virtual-padding root of height j of the n leaves
   a, a+1, …, a+n-1. *)
From Ztyp Require Import BitfieldsProofs.
From Ztyp Require Import Base Bitlen Bitfields Merkleize Types Spec BitlenProofs MerkleProofs.
From Coq Require Import PeanoNat ZArith ZifyN ZifyNat ZifyBool.
Notation lenN := Spec.lenN.
(* parts A-C use plain linear arithmetic (div/mod terms are atoms); part D switches the
   div/mod preprocessing of lia on *)
Local Ltac Zify.zify_post_hook ::= idtac.
(* several coqc processes share .lia.cache in this directory; do not depend on it *)
Unset Lia Cache.
Open Scope N_scope.

Local Opaque two64.
Local Arguments N.pow : simpl never.
Local Arguments Nat.pow : simpl never.
Local Arguments N.of_nat : simpl never.
Local Arguments N.to_nat : simpl never.
Local Arguments N.shiftl : simpl never.
Local Arguments N.shiftr : simpl never.
Local Arguments N.land : simpl never.
Local Arguments N.lor : simpl never.
Local Arguments N.div : simpl never.
Local Arguments N.modulo : simpl never.
Local Arguments N.testbit : simpl never.
Local Arguments N.log2_up : simpl never.

(* ------------------------------------------------------------------------------------ *)
(* A. arithmetic of the binary counter                                                   *)

(* i with its k+1 low bits cleared *)
Definition st (k i : N) : N := 2 ^ (k + 1) * (i / 2 ^ (k + 1)).

Lemma mod_pow2_succ i j : i mod 2 ^ (j + 1) = i mod 2 ^ j + 2 ^ j * N.b2n (N.testbit i j).
Proof.
  rewrite pow2_succ, (N.mul_comm 2), N.mod_mul_r by (try apply pow2_nz; discriminate).
  rewrite <- N.testbit_spec'. reflexivity.
Qed.

Lemma st_split i j : st j i + i mod 2 ^ (j + 1) = i.
Proof. unfold st. symmetry. apply N.div_mod, pow2_nz. Qed.

Lemma mod_pow2_lt i j : i mod 2 ^ j < 2 ^ j.
Proof. apply N.mod_lt, pow2_nz. Qed.

Lemma div_succ_same i Q : Q <> 0 -> i mod Q + 1 < Q -> (i + 1) / Q = i / Q.
Proof.
  intros HQ Hlt. symmetry. apply (N.div_unique (i + 1) Q (i / Q) (i mod Q + 1)); [exact Hlt|].
  pose proof (N.div_mod i Q HQ). lia.
Qed.

Lemma high_same x y n k : x / 2 ^ n = y / 2 ^ n -> n <= k ->
  N.testbit x k = N.testbit y k /\ x / 2 ^ (k + 1) = y / 2 ^ (k + 1).
Proof.
  intros Heq Hle. split.
  - replace k with ((k - n) + n) by lia. rewrite <- !N.div_pow2_bits, Heq. reflexivity.
  - replace (k + 1) with (n + (k + 1 - n)) by lia.
    rewrite N.pow_add_r, <- !N.div_div by apply pow2_nz. rewrite Heq. reflexivity.
Qed.

Lemma pow2_le_inv a b : 2 ^ a <= 2 ^ b -> a <= b.
Proof. intro Hle. apply (N.pow_le_mono_r_iff 2); [reflexivity | exact Hle]. Qed.

Lemma pow2_lt_inv a b : 2 ^ a < 2 ^ b -> a < b.
Proof. intro Hlt. apply (N.pow_lt_mono_r_iff 2); [reflexivity | exact Hlt]. Qed.

Lemma testbit_true_ge i k : N.testbit i k = true -> 2 ^ k <= i.
Proof.
  intro Hb. destruct (N.le_gt_cases (2 ^ k) i) as [Hle|Hgt]; [exact Hle|].
  rewrite (testbit_small i k k Hgt) in Hb by lia. discriminate.
Qed.

(* the loop's test  i & (1<<j) == 0  for a uint64 i and a uint8 j <= 64 *)
Lemma bit_test i j : i < 2 ^ 64 -> j <= 64 ->
  (N.land i (shl64 1 j) =? 0) = negb (N.testbit i j).
Proof.
  intros Hi Hj. destruct (N.eq_dec j 64) as [->|Hne].
  - rewrite shl64_1_high by lia. rewrite N.land_0_r.
    rewrite (testbit_small i 64 64 Hi) by lia. reflexivity.
  - rewrite shl64_1 by lia. apply land_pow2_eqb.
Qed.

(* ------------------------------------------------------------------------------------ *)
(* B. list helpers                                                                       *)

Lemma nth_list_set_eq {A} (d : A) : forall (l : list A) i x, (i < length l)%nat ->
  nth i (list_set l i x) d = x.
Proof.
  induction l as [|y l IH]; intros [|i] x Hi; cbn [length list_set nth] in *; try lia.
  - reflexivity.
  - apply IH. lia.
Qed.

Lemma nth_list_set_neq {A} (d : A) : forall (l : list A) i x j, i <> j ->
  nth j (list_set l i x) d = nth j l d.
Proof.
  induction l as [|y l IH]; intros [|i] x [|j] Hne; cbn [list_set nth]; try reflexivity; try lia.
  apply IH. lia.
Qed.

Lemma list_set_len {A} : forall (l : list A) i x, length (list_set l i x) = length l.
Proof.
  induction l as [|y l IH]; intros [|i] x; cbn [list_set length]; try reflexivity.
  f_equal. apply IH.
Qed.

Section WithHash.
Variable H : chunk -> chunk -> chunk.
Variable zh : nat -> chunk.
Hypothesis Hzh : forall d, zh d = zero_hash H d.

Notation mv := (merkle_virtual H).

Lemma mv_join d l1 l2 : lenN l1 = 2 ^ N.of_nat d -> lenN l2 <= 2 ^ N.of_nat d ->
  mv (S d) (l1 ++ l2) = H (mv d l1) (mv d l2).
Proof.
  intros H1 H2. rewrite merkle_virtual_S.
  assert (Hn : nat_of (2 ^ N.of_nat d) = length l1) by (unfold lenN, nat_of in *; lia).
  destruct (N.leb_spec (lenN (l1 ++ l2)) (2 ^ N.of_nat d)) as [Hle|Hgt].
  - assert (l2 = []) as ->.
    { destruct l2 as [|c l2]; [reflexivity|]. unfold lenN in *.
      rewrite app_length in Hle. cbn [length] in Hle. lia. }
    rewrite app_nil_r, merkle_virtual_nil. reflexivity.
  - rewrite Hn, firstn_app, skipn_app, Nat.sub_diag, firstn_all, skipn_all.
    cbn [firstn skipn]. rewrite app_nil_r. reflexivity.
Qed.

Lemma mv_pad d l : lenN l <= 2 ^ N.of_nat d -> mv (S d) l = H (mv d l) (zh d).
Proof.
  intros Hl. rewrite merkle_virtual_S, Hzh.
  destruct (N.leb_spec (lenN l) (2 ^ N.of_nat d)) as [_|Hgt]; [reflexivity|lia].
Qed.

(* ------------------------------------------------------------------------------------ *)
(* C. the streaming loop                                                                 *)

Section Loop.
Variable leaf : N -> chunk.

(* the leaves a, a+1, ..., a+n-1 *)
Definition rng (a n : N) : list chunk :=
  map leaf (map N.of_nat (seq (N.to_nat a) (N.to_nat n))).

Lemma rng_len a n : lenN (rng a n) = n.
Proof. unfold rng, lenN. rewrite !map_length, seq_length. lia. Qed.

Lemma rng_app a n m : rng a (n + m) = rng a n ++ rng (a + n) m.
Proof.
  unfold rng. rewrite !N2Nat.inj_add, seq_app, !map_app. reflexivity.
Qed.

Lemma rng_0 a : rng a 0 = [].
Proof. reflexivity. Qed.

Lemma rng_1 a : rng a 1 = [leaf a].
Proof.
  unfold rng. change (N.to_nat 1) with 1%nat. cbn [seq map]. rewrite N2Nat.id. reflexivity.
Qed.

Definition B (j a n : N) : chunk := mv (nat_of j) (rng a n).

Lemma nat_of_succ j : nat_of (j + 1) = S (nat_of j).
Proof. unfold nat_of. lia. Qed.

Lemma B_join j a m : m <= 2 ^ j ->
  B (j + 1) a (2 ^ j + m) = H (B j a (2 ^ j)) (B j (a + 2 ^ j) m).
Proof.
  intros Hm. unfold B. rewrite nat_of_succ, rng_app.
  apply mv_join; rewrite rng_len; unfold nat_of; rewrite N2Nat.id; [reflexivity|exact Hm].
Qed.

Lemma B_pad j a n : n <= 2 ^ j -> B (j + 1) a n = H (B j a n) (zh (nat_of j)).
Proof.
  intros Hn. unfold B. rewrite nat_of_succ. apply mv_pad.
  rewrite rng_len. unfold nat_of. rewrite N2Nat.id. exact Hn.
Qed.

Lemma B_0_1 a : B 0 a 1 = leaf a.
Proof. unfold B. rewrite rng_1. reflexivity. Qed.

Lemma B_0_0 a : B 0 a 0 = zh 0.
Proof. unfold B. rewrite rng_0, Hzh. reflexivity. Qed.

Definition Inv (i : N) (tmp : list chunk) : Prop :=
  forall k, N.testbit i k = true -> nth (nat_of k) tmp zero_chunk = B k (st k i) (2 ^ k).

Lemma tmp_get_ok tmp j : (nat_of j < length tmp)%nat ->
  tmp_get tmp j = OK (nth (nat_of j) tmp zero_chunk).
Proof.
  intros Hj. unfold tmp_get.
  rewrite (nth_error_nth' tmp zero_chunk Hj). reflexivity.
Qed.

Lemma tmp_set_ok tmp j c : (nat_of j < length tmp)%nat ->
  tmp_set tmp j c = OK (list_set tmp (nat_of j) c).
Proof.
  intros Hj. unfold tmp_set.
  destruct (N.ltb_spec j (N.of_nat (length tmp))) as [_|Hge]; [reflexivity|].
  unfold nat_of in Hj. lia.
Qed.

Section Merge.
Variables (count depth ld : N) (tmp : list chunk).
Hypothesis Hlen : length tmp = S (nat_of ld).

(* merge(i) for a leaf: i < count *)
Lemma merge_leaf i : i < count -> count <= 2 ^ ld -> i < 2 ^ 64 -> Inv i tmp ->
  forall fuel j h, 64 < j + N.of_nat fuel ->
  i mod 2 ^ j + 1 = 2 ^ j -> h = B j (i + 1 - 2 ^ j) (2 ^ j) ->
  exists tmp', merge_loop H zh fuel i count depth tmp h j = OK tmp' /\
               length tmp' = length tmp /\ Inv (i + 1) tmp'.
Proof.
  intros Hic Hcl Hi64 HInv.
  induction fuel as [|f IH]; intros j h Hfuel Hlow Hh.
  - exfalso.
    assert (2 ^ j <= 2 ^ 64).
    { pose proof (N.mod_le i (2 ^ j) (pow2_nz j)). lia. }
    apply pow2_le_inv in H0. lia.
  - assert (Hj64 : j <= 64).
    { apply pow2_le_inv. pose proof (N.mod_le i (2 ^ j) (pow2_nz j)). lia. }
    assert (Hjld : j <= ld).
    { apply pow2_le_inv. pose proof (N.mod_le i (2 ^ j) (pow2_nz j)). lia. }
    cbn [merge_loop]. rewrite bit_test by assumption.
    pose proof (mod_pow2_succ i j) as Hms. pose proof (st_split i j) as Hst.
    pose proof (pow2_succ j) as Hp.
    destruct (N.testbit i j) eqn:Hbit; cbn [negb N.b2n] in *.
    + (* right side: keep merging up *)
      assert (Hjlt : j < ld).
      { apply pow2_lt_inv. apply testbit_true_ge in Hbit. lia. }
      rewrite tmp_get_ok by (rewrite Hlen; unfold nat_of; lia).
      cbn [bind]. apply IH.
      * lia.
      * lia.
      * rewrite (HInv j Hbit), Hh.
        replace (i + 1 - 2 ^ (j + 1)) with (st j i) by lia.
        replace (i + 1 - 2 ^ j) with (st j i + 2 ^ j) by lia.
        replace (2 ^ (j + 1)) with (2 ^ j + 2 ^ j) by lia.
        symmetry. apply B_join. lia.
    + (* left side of the next combination: store *)
      replace (i =? count) with false by (symmetry; apply N.eqb_neq; lia).
      cbn [andb]. rewrite tmp_set_ok by (rewrite Hlen; unfold nat_of; lia).
      eexists. split; [reflexivity|]. split; [apply list_set_len|].
      intros k Hk.
      assert (Hdiv : (i + 1) / 2 ^ (j + 1) = i / 2 ^ (j + 1)).
      { apply div_succ_same; [apply pow2_nz|]. pose proof (pow2_pos j). lia. }
      assert (Hsteq : st j (i + 1) = st j i) by (unfold st; rewrite Hdiv; reflexivity).
      pose proof (st_split (i + 1) j) as Hst'.
      destruct (N.lt_trichotomy k j) as [Hlt|[->|Hgt]].
      * (* below j: bit k of i+1 is clear *)
        exfalso.
        assert (Hm : (i + 1) mod 2 ^ (j + 1) = 2 ^ j) by lia.
        rewrite <- (N.mod_pow2_bits_low (i + 1) (j + 1) k) in Hk by lia.
        rewrite Hm, N.pow2_bits_false in Hk by lia. discriminate.
      * rewrite nth_list_set_eq by (rewrite Hlen; unfold nat_of; lia).
        rewrite Hh. f_equal. lia.
      * rewrite nth_list_set_neq by (unfold nat_of; lia).
        destruct (high_same (i + 1) i (j + 1) k Hdiv) as [Hb Hd]; [lia|].
        rewrite Hb in Hk. rewrite (HInv k Hk). unfold st. rewrite Hd. reflexivity.
Qed.

(* merge(count) with hArr = ZeroHashes[0]: the padding call *)
Lemma merge_pad : count < 2 ^ depth -> depth <= ld -> depth <= 64 -> count < 2 ^ 64 ->
  Inv count tmp ->
  forall fuel j h, 64 < j + N.of_nat fuel -> j <= depth ->
  h = B j (count - count mod 2 ^ j) (count mod 2 ^ j) ->
  exists tmp', merge_loop H zh fuel count count depth tmp h j = OK tmp' /\
               length tmp' = length tmp /\
               nth (nat_of depth) tmp' zero_chunk = B depth 0 count.
Proof.
  intros Hcd Hdl Hd64 Hc64 HInv.
  induction fuel as [|f IH]; intros j h Hfuel Hjd Hh.
  - exfalso. lia.
  - cbn [merge_loop]. rewrite bit_test by (try assumption; lia).
    pose proof (mod_pow2_succ count j) as Hms. pose proof (st_split count j) as Hst.
    pose proof (pow2_succ j) as Hp. pose proof (mod_pow2_lt count j) as Hml.
    destruct (N.testbit count j) eqn:Hbit; cbn [negb N.b2n] in *.
    + assert (Hjlt : j < depth).
      { apply pow2_lt_inv. apply testbit_true_ge in Hbit. lia. }
      rewrite tmp_get_ok by (rewrite Hlen; unfold nat_of; lia).
      cbn [bind]. apply IH; [lia|lia|].
      rewrite (HInv j Hbit), Hh.
      replace (count - count mod 2 ^ (j + 1)) with (st j count) by lia.
      replace (count - count mod 2 ^ j) with (st j count + 2 ^ j) by lia.
      replace (count mod 2 ^ (j + 1)) with (2 ^ j + count mod 2 ^ j) by lia.
      symmetry. apply B_join. lia.
    + rewrite N.eqb_refl. cbn [andb].
      destruct (N.ltb_spec j depth) as [Hjlt|Hjge].
      * apply IH; [lia|lia|]. rewrite Hh.
        replace (count mod 2 ^ (j + 1)) with (count mod 2 ^ j) by lia.
        symmetry. rewrite Hzh. rewrite <- Hzh. apply B_pad. lia.
      * assert (j = depth) as -> by lia.
        rewrite tmp_set_ok by (rewrite Hlen; unfold nat_of; lia).
        eexists. split; [reflexivity|]. split; [apply list_set_len|].
        rewrite nth_list_set_eq by (rewrite Hlen; unfold nat_of; lia).
        rewrite Hh, N.mod_small by exact Hcd. f_equal. lia.
Qed.

End Merge.
Lemma Inv_0 tmp : Inv 0 tmp.
Proof. intros k Hk. rewrite N.bits_0 in Hk. discriminate. Qed.

Lemma leaves_loop_ok count depth ld : count <= 2 ^ ld -> count < 2 ^ 64 ->
  forall k i tmp, i + N.of_nat k = count -> length tmp = S (nat_of ld) -> Inv i tmp ->
  exists tmp', leaves_loop H zh k i count depth leaf tmp = OK tmp' /\
               length tmp' = S (nat_of ld) /\ Inv count tmp'.
Proof.
  intros Hcl Hc64. induction k as [|k IH]; intros i tmp Hik Hlen HInv.
  - exists tmp. replace count with i by lia. cbn [leaves_loop]. auto.
  - cbn [leaves_loop]. unfold merge.
    destruct (merge_leaf count depth ld tmp Hlen i) with (fuel := 66%nat) (j := 0) (h := leaf i)
      as (tmp1 & Hm & Hl1 & HInv1); try assumption; try lia.
    + rewrite N.mod_1_r. reflexivity.
    + rewrite N.pow_0_r. replace (i + 1 - 1) with i by lia. symmetry. apply B_0_1.
    + rewrite Hm. cbn [bind]. apply IH; [lia|congruence|exact HInv1].
Qed.

Lemma climb_ok ld (L : list chunk) : forall k j tmp, j + N.of_nat k = ld ->
  length tmp = S (nat_of ld) -> lenN L <= 2 ^ j ->
  nth (nat_of j) tmp zero_chunk = mv (nat_of j) L ->
  exists tmp', climb H zh k j tmp = OK tmp' /\
               nth (nat_of ld) tmp' zero_chunk = mv (nat_of ld) L /\
               length tmp' = S (nat_of ld).
Proof.
  induction k as [|k IH]; intros j tmp Hjk Hlen HL Hn.
  - exists tmp. replace ld with j by lia. cbn [climb]. auto.
  - cbn [climb].
    rewrite tmp_get_ok by (rewrite Hlen; unfold nat_of; lia). cbn [bind].
    rewrite tmp_set_ok by (rewrite Hlen; unfold nat_of; lia). cbn [bind].
    apply IH.
    + lia.
    + rewrite list_set_len. exact Hlen.
    + pose proof (pow2_succ j). lia.
    + rewrite nth_list_set_eq by (rewrite Hlen; unfold nat_of; lia).
      rewrite Hn, nat_of_succ. symmetry. apply mv_pad.
      unfold nat_of. rewrite N2Nat.id. exact HL.
Qed.

End Loop.

(* the leaves 0 .. count-1 as a list *)
Definition leaves (leaf : N -> chunk) (count : N) : list chunk :=
  map leaf (map N.of_nat (seq 0 (N.to_nat count))).

Lemma log2_up_le64 v : v < 2 ^ 64 -> N.log2_up v <= 64.
Proof.
  intros Hv. destruct (N.eq_dec v 0) as [->|Hnz]; [discriminate|].
  apply N.log2_up_le_pow2; lia.
Qed.

Lemma le_pow2_log2_up v : v <= 2 ^ N.log2_up v.
Proof.
  destruct (N.le_gt_cases v 1) as [Hle|Hgt].
  - rewrite N.log2_up_eqn0 by exact Hle. rewrite N.pow_0_r. exact Hle.
  - apply N.log2_up_spec. exact Hgt.
Qed.

Theorem merkleize_correct count limit leaf : count <= limit -> limit < 2 ^ 64 ->
  merkleize H zh count limit leaf = OK (merkleize_spec H (leaves leaf count) limit).
Proof.
  intros Hcl Hl64. unfold merkleize, merkleize_spec.
  replace (limit <? count) with false by (symmetry; apply N.ltb_ge; exact Hcl).
  change (leaves leaf count) with (rng leaf 0 count).
  destruct (N.eqb_spec limit 0) as [->|Hl0].
  { assert (count = 0) as -> by lia. reflexivity. }
  destruct (N.eqb_spec limit 1) as [->|Hl1].
  { destruct (N.eqb_spec count 1) as [->|Hc1].
    - change (depth_for 1) with 0%nat. rewrite rng_1. reflexivity.
    - assert (count = 0) as -> by lia. reflexivity. }
  assert (Hc64 : count < 2 ^ 64) by lia.
  rewrite (depth_for_cover limit Hl64).
  rewrite !cover_depth_log2_up by assumption.
  set (depth := N.log2_up count). set (ld := N.log2_up limit).
  assert (Hdl : depth <= ld) by (apply N.log2_up_le_mono; exact Hcl).
  assert (Hld64 : ld <= 64) by (apply log2_up_le64; exact Hl64).
  assert (Hcd : count <= 2 ^ depth) by apply le_pow2_log2_up.
  assert (Hcld : count <= 2 ^ ld).
  { eapply N.le_trans; [exact Hcl|apply le_pow2_log2_up]. }
  destruct (leaves_loop_ok leaf count depth ld Hcld Hc64 (nat_of count) 0
              (repeat zero_chunk (S (nat_of ld))))
    as (tmp1 & Hloop & Hlen1 & HInv1).
  { unfold nat_of. lia. }
  { apply repeat_length. }
  { apply Inv_0. }
  rewrite Hloop. cbn [bind].
  (* after the leaves (and the padding call, if any) tmp[depth] is the root at [depth] *)
  assert (Hpad : exists tmp2,
    (if negb (shl64 1 depth =? count)
     then merge H zh count count depth tmp1 (zh 0) else OK tmp1) = OK tmp2 /\
    length tmp2 = S (nat_of ld) /\
    nth (nat_of depth) tmp2 zero_chunk = B leaf depth 0 count).
  { assert (Hshl : (shl64 1 depth =? count) = (2 ^ depth =? count)).
    { destruct (N.eq_dec depth 64) as [Hd|Hd].
      - rewrite shl64_1_high by lia.
        destruct (N.eqb_spec 0 count) as [<-|Hc0].
        + exfalso. unfold depth in Hd. discriminate.
        + symmetry. apply N.eqb_neq. rewrite Hd. lia.
      - rewrite shl64_1 by lia. reflexivity. }
    rewrite Hshl. destruct (N.eqb_spec (2 ^ depth) count) as [Heq|Hne]; cbn [negb].
    - exists tmp1. split; [reflexivity|]. split; [exact Hlen1|].
      assert (Hbit : N.testbit count depth = true).
      { rewrite <- Heq. apply N.pow2_bits_true. }
      rewrite (HInv1 depth Hbit). f_equal; [|exact Heq].
      unfold st. rewrite <- Heq.
      rewrite N.div_small by (apply pow2_lt_mono; lia). lia.
    - unfold merge.
      destruct (merge_pad leaf count depth ld tmp1 Hlen1) with (fuel := 66%nat) (j := 0) (h := zh 0)
        as (tmp2 & Hm & Hl2 & Hn2); try assumption; try lia.
      + rewrite N.mod_1_r. symmetry. apply B_0_0.
      + exists tmp2. split; [exact Hm|]. split; [congruence|exact Hn2]. }
  destruct Hpad as (tmp2 & Hp & Hlen2 & Hn2). rewrite Hp. cbn [bind].
  destruct (climb_ok ld (rng leaf 0 count) (nat_of (ld - depth)) depth tmp2)
    as (tmp3 & Hc & Hn3 & Hlen3).
  { unfold nat_of. lia. }
  { exact Hlen2. }
  { rewrite rng_len. exact Hcd. }
  { exact Hn2. }
  rewrite Hc. cbn [bind].
  rewrite tmp_get_ok by (rewrite Hlen3; lia).
  rewrite Hn3. reflexivity.
Qed.

(* ------------------------------------------------------------------------------------ *)
(* D. the flat helpers                                                                   *)

Local Ltac Zify.zify_post_hook ::= Z.div_mod_to_equations.

Lemma pad32_exact l : length l = 32%nat -> pad32 l = l.
Proof.
  intros Hl. unfold pad32, pad_to. rewrite firstn_app, Hl, Nat.sub_diag, <- Hl, firstn_all.
  cbn [firstn]. apply app_nil_r.
Qed.

Lemma le_bytes_small a b x : x < 256 ^ N.of_nat a ->
  le_bytes (a + b) x = le_bytes a x ++ repeat b0 b.
Proof.
  intros Hx. rewrite le_bytes_app. f_equal. rewrite N.div_small by exact Hx.
  apply le_bytes_zero. apply N.mod_0_l, pow256_nz.
Qed.

Lemma pad32_le8 len : len < 2 ^ 64 -> pad32 (le_bytes 8 len) = pad32 (le_bytes 32 len).
Proof.
  intros Hlen. rewrite (pad32_exact (le_bytes 32 len)) by apply le_bytes_length.
  change 32%nat with (8 + 24)%nat at 2. rewrite le_bytes_small by exact Hlen.
  cbn [le_bytes]. reflexivity.
Qed.

Lemma mixin_correct v len : len < 2 ^ 64 -> mixin H v len = mix_in_length H v len.
Proof. intros Hlen. unfold mixin, mix_in_length. rewrite pad32_le8 by exact Hlen. reflexivity. Qed.

Lemma pad32_le1 sel : sel < 256 -> pad32 [byte_of_N sel] = pad32 (le_bytes 32 sel).
Proof.
  intros Hs. rewrite (pad32_exact (le_bytes 32 sel)) by apply le_bytes_length.
  change 32%nat with (1 + 31)%nat at 2. rewrite le_bytes_small by exact Hs.
  cbn [le_bytes]. reflexivity.
Qed.

Lemma union_correct_some sel r : sel < 256 -> union_htr H sel (Some r) = mix_in_selector H r sel.
Proof. intros Hs. unfold union_htr, mix_in_selector. rewrite pad32_le1 by exact Hs. reflexivity. Qed.

Lemma union_correct_none sel : sel < 256 ->
  union_htr H sel None = mix_in_selector H zero_chunk sel.
Proof. intros Hs. unfold union_htr, mix_in_selector. rewrite pad32_le1 by exact Hs. reflexivity. Qed.

(* a chunk series read through its [nth] element function *)
Definition nth_elem (rs : list chunk) : N -> chunk := fun i => nth (nat_of i) rs zero_chunk.

Lemma leaves_nth rs : leaves (nth_elem rs) (lenN rs) = rs.
Proof.
  unfold leaves, lenN, nth_elem. rewrite Nat2N.id, map_map.
  apply (nth_ext _ _ zero_chunk zero_chunk).
  - rewrite map_length, seq_length. reflexivity.
  - intros n Hn. rewrite map_length, seq_length in Hn.
    rewrite (nth_indep _ zero_chunk (nth (nat_of (N.of_nat 0)) rs zero_chunk))
      by (rewrite map_length, seq_length; exact Hn).
    rewrite (map_nth (fun x => nth (nat_of (N.of_nat x)) rs zero_chunk)).
    rewrite seq_nth by exact Hn. unfold nat_of. rewrite Nat2N.id. reflexivity.
Qed.

Lemma leaves_ext f g n : (forall i, i < n -> f i = g i) -> leaves f n = leaves g n.
Proof.
  intros Hfg. unfold leaves. rewrite !map_map. apply map_ext_in.
  intros x Hx. apply in_seq in Hx. apply Hfg. lia.
Qed.

Lemma leaves_len f n : lenN (leaves f n) = n.
Proof. unfold leaves, lenN. rewrite !map_length, seq_length. lia. Qed.

Lemma fields_correct rs : lenN rs < 2 ^ 64 ->
  fields_htr H zh rs = OK (merkleize_spec H rs (lenN rs)).
Proof.
  intros Hlen. destruct rs as [|a [|b [|c rs]]]; try reflexivity.
  unfold fields_htr. fold (nth_elem (a :: b :: c :: rs)).
  change (N.of_nat (length (a :: b :: c :: rs))) with (lenN (a :: b :: c :: rs)).
  rewrite merkleize_correct by (try exact Hlen; lia).
  rewrite leaves_nth. reflexivity.
Qed.

Lemma complex_vector_correct elem len : len < 2 ^ 64 ->
  complex_vector_htr H zh elem len = OK (merkleize_spec H (leaves elem len) len).
Proof. intros Hlen. unfold complex_vector_htr. apply merkleize_correct; [lia|exact Hlen]. Qed.

Lemma complex_list_correct elem len limit : len <= limit -> limit < 2 ^ 64 ->
  complex_list_htr H zh elem len limit =
  OK (mix_in_length H (merkleize_spec H (leaves elem len) limit) len).
Proof.
  intros Hle Hlim. unfold complex_list_htr. rewrite merkleize_correct by assumption.
  cbn [bind]. rewrite mixin_correct by lia. reflexivity.
Qed.

Lemma complex_vector_nth rs : lenN rs < 2 ^ 64 ->
  complex_vector_htr H zh (fun i => nth (nat_of i) rs zero_chunk) (lenN rs) =
  OK (merkleize_spec H rs (lenN rs)).
Proof.
  intros Hlen. fold (nth_elem rs). rewrite complex_vector_correct by exact Hlen.
  rewrite leaves_nth. reflexivity.
Qed.

Lemma complex_list_nth rs limit : lenN rs <= limit -> limit < 2 ^ 64 ->
  complex_list_htr H zh (fun i => nth (nat_of i) rs zero_chunk) (lenN rs) limit =
  OK (mix_in_length H (merkleize_spec H rs limit) (lenN rs)).
Proof.
  intros Hle Hlim. fold (nth_elem rs). rewrite complex_list_correct by assumption.
  rewrite leaves_nth. reflexivity.
Qed.

(* ---- byte strings ---- *)

Lemma chunkify_fuel_spec : forall fuel bs, (length bs < fuel)%nat ->
  chunkify_fuel fuel bs =
  map (fun i => pad32 (firstn 32 (skipn (32 * i) bs))) (seq 0 ((length bs + 31) / 32)).
Proof.
  induction fuel as [|f IH]; intros bs Hf; [lia|].
  destruct bs as [|b bs]; [reflexivity|].
  cbn [chunkify_fuel]. set (l := b :: bs) in *.
  assert (Hl : (0 < length l)%nat) by (subst l; cbn [length]; lia).
  replace ((length l + 31) / 32)%nat with (S ((length (skipn 32 l) + 31) / 32))
    by (rewrite skipn_length; lia).
  cbn [seq map]. rewrite Nat.mul_0_r. cbn [skipn]. f_equal.
  rewrite IH by (rewrite skipn_length; lia).
  rewrite <- seq_shift, map_map. apply map_ext. intros i.
  replace (32 * S i)%nat with (32 + 32 * i)%nat by lia. rewrite skipn_add. reflexivity.
Qed.

Lemma pack_leaves bs : pack bs = leaves (bytes_chunk bs) ((lenN bs + 31) / 32).
Proof.
  unfold pack, chunkify. rewrite chunkify_fuel_spec by lia.
  unfold leaves, lenN. rewrite map_map.
  replace (N.to_nat ((N.of_nat (length bs) + 31) / 32)) with ((length bs + 31) / 32)%nat by lia.
  apply map_ext. intros i. unfold bytes_chunk, nat_of.
  replace (N.to_nat (32 * N.of_nat i)) with (32 * i)%nat by lia. reflexivity.
Qed.

Lemma lenN_pack bs : lenN (pack bs) = (lenN bs + 31) / 32.
Proof. rewrite pack_leaves. apply leaves_len. Qed.

Lemma chunks_correct bs limit :
  (lenN bs + 31) / 32 <= limit -> limit < 2 ^ 64 ->
  chunks_htr H zh (bytes_chunk bs) ((lenN bs + 31) / 32) limit = OK (merkleize_spec H (pack bs) limit).
Proof.
  intros Hle Hlim. unfold chunks_htr. rewrite merkleize_correct by assumption.
  rewrite <- pack_leaves. reflexivity.
Qed.

Lemma wrap64_small' n : n < 2 ^ 64 -> wrap64 n = n.
Proof. intros Hn. unfold wrap64. rewrite BitlenProofs.two64_eq. apply N.mod_small, Hn. Qed.

Lemma byte_vector_correct bs : lenN bs < 2 ^ 64 ->
  byte_vector_htr H zh bs = OK (merkleize_spec H (pack bs) ((lenN bs + 31) / 32)).
Proof.
  intros Hlen. unfold byte_vector_htr. fold (lenN bs). apply chunks_correct; [lia|].
  change (2 ^ 64) with 18446744073709551616 in *. lia.
Qed.

Lemma byte_list_correct bs limit : lenN bs <= limit -> limit < 2 ^ 63 ->
  byte_list_htr H zh bs limit =
  OK (mix_in_length H (merkleize_spec H (pack bs) ((limit + 31) / 32)) (lenN bs)).
Proof.
  intros Hle Hlim. unfold byte_list_htr. fold (lenN bs).
  change (2 ^ 63) with 9223372036854775808 in *.
  rewrite wrap64_small' by (change (2 ^ 64) with 18446744073709551616; lia).
  rewrite chunks_correct;
    [|lia|change (2 ^ 64) with 18446744073709551616; lia].
  cbn [bind]. rewrite mixin_correct by (change (2 ^ 64) with 18446744073709551616; lia).
  reflexivity.
Qed.

Lemma shiftr5 a : N.shiftr a 5 = a / 32.
Proof. rewrite N.shiftr_div_pow2. reflexivity. Qed.
Lemma shiftr2 a : N.shiftr a 2 = a / 4.
Proof. rewrite N.shiftr_div_pow2. reflexivity. Qed.
Lemma shiftr8 a : N.shiftr a 8 = a / 256.
Proof. rewrite N.shiftr_div_pow2. reflexivity. Qed.

Lemma uint8_vector_correct bs : lenN bs < 2 ^ 63 ->
  uint8_vector_htr H zh bs = OK (merkleize_spec H (pack bs) ((lenN bs + 31) / 32)).
Proof.
  intros Hlen. unfold uint8_vector_htr. fold (lenN bs).
  change (2 ^ 63) with 9223372036854775808 in *.
  rewrite wrap64_small' by (change (2 ^ 64) with 18446744073709551616; lia).
  rewrite shiftr5. apply chunks_correct; [lia|].
  change (2 ^ 64) with 18446744073709551616; lia.
Qed.

Lemma uint8_list_correct bs limit : lenN bs <= limit -> limit < 2 ^ 63 ->
  uint8_list_htr H zh bs limit =
  OK (mix_in_length H (merkleize_spec H (pack bs) ((limit + 31) / 32)) (lenN bs)).
Proof.
  intros Hle Hlim. unfold uint8_list_htr. fold (lenN bs).
  change (2 ^ 63) with 9223372036854775808 in *.
  rewrite !wrap64_small' by (change (2 ^ 64) with 18446744073709551616; lia).
  rewrite !shiftr5.
  rewrite chunks_correct;
    [|lia|change (2 ^ 64) with 18446744073709551616; lia].
  cbn [bind]. rewrite mixin_correct by (change (2 ^ 64) with 18446744073709551616; lia).
  reflexivity.
Qed.

Lemma lenN_u64s vals : lenN (u64s_bytes vals) = 8 * lenN vals.
Proof.
  unfold u64s_bytes, lenN. induction vals as [|v vals IH]; [reflexivity|].
  cbn [flat_map]. rewrite app_length, le_bytes_length. cbn [length]. lia.
Qed.

Lemma uint64_vector_correct vals : lenN vals < 2 ^ 60 ->
  uint64_vector_htr H zh vals =
  OK (merkleize_spec H (pack (flat_map (le_bytes 8) vals)) ((lenN vals * 8 + 31) / 32)).
Proof.
  intros Hlen. unfold uint64_vector_htr. fold (lenN vals). fold (u64s_bytes vals).
  change (2 ^ 60) with 1152921504606846976 in *.
  rewrite wrap64_small' by (change (2 ^ 64) with 18446744073709551616; lia).
  rewrite shiftr2.
  replace ((lenN vals + 3) / 4) with ((lenN (u64s_bytes vals) + 31) / 32)
    by (rewrite lenN_u64s; lia).
  rewrite chunks_correct; [|lia|rewrite lenN_u64s; change (2 ^ 64) with 18446744073709551616; lia].
  do 2 f_equal. rewrite lenN_u64s. lia.
Qed.

Lemma uint64_list_correct vals limit : lenN vals <= limit -> limit < 2 ^ 60 ->
  uint64_list_htr H zh vals limit =
  OK (mix_in_length H (merkleize_spec H (pack (flat_map (le_bytes 8) vals)) ((limit * 8 + 31) / 32))
                    (lenN vals)).
Proof.
  intros Hle Hlim. unfold uint64_list_htr. fold (lenN vals). fold (u64s_bytes vals).
  change (2 ^ 60) with 1152921504606846976 in *.
  rewrite !wrap64_small' by (change (2 ^ 64) with 18446744073709551616; lia).
  rewrite !shiftr2.
  replace ((lenN vals + 3) / 4) with ((lenN (u64s_bytes vals) + 31) / 32)
    by (rewrite lenN_u64s; lia).
  rewrite chunks_correct;
    [|rewrite lenN_u64s; lia|change (2 ^ 64) with 18446744073709551616; lia].
  cbn [bind]. rewrite mixin_correct by (change (2 ^ 64) with 18446744073709551616; lia).
  do 3 f_equal. lia.
Qed.

End WithHash.
