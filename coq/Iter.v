(* Iter.v — model of the read-only iterators of view/iter.go and view/bitfield_iter.go
   (explicit state machines: cursor i, intra-node cursor j, rootIndex, the stack of
   left-hand ancestors) and of the index-based Iter() of the series views.
   Definitions only. *)
From Ztyp Require Import Base Bitlen Tree Types View.
Open Scope N_scope.

Inductive istep := IVal (v : val) | INode (t : ty) (n : node) | IEnd | IErr | IPanic.

(* ---- basicElemReadonlyIter ---- *)
Record eiter := mkEI { ei_i : N; ei_j : N; ei_cur : chunk; ei_ri : N;
                       ei_stack : list (option node) }.

Definition basic_iter_ok (e : ty) (depth len : N) : bool :=
  negb (mul64 (shl64 1 depth) (per_node e) <? len).
Definition basic_iter_init (e : ty) (depth : N) : eiter :=
  mkEI 0 (per_node e) zero_chunk 0 (repeat None (nat_of depth)).

Definition basic_iter_next (e : ty) (anchor : node) (len depth : N) (it : eiter)
  : res (option val * eiter) :=
  if len <=? ei_i it then OK (None, it) else
  if ei_j it <? per_node e then
    do v <- packed_val e (ei_cur it) (ei_j it);
    OK (Some v, mkEI (ei_i it + 1) (wrap8 (ei_j it + 1)) (ei_cur it) (ei_ri it) (ei_stack it))
  else
    do r <- iter_seek anchor depth (ei_ri it) (ei_stack it); let '(n, stack) := r in
    do c <- leaf_chunk n;
    do v <- packed_val e c 0;
    OK (Some v, mkEI (ei_i it + 1) 1 c (ei_ri it + 1) stack).

Fixpoint basic_iter_drain (calls : nat) (e : ty) (anchor : node) (len depth : N) (it : eiter)
  : list istep :=
  match calls with
  | O => []
  | S k =>
    match basic_iter_next e anchor len depth it with
    | OK (Some v, it') => IVal v :: basic_iter_drain k e anchor len depth it'
    | OK (None, it') => IEnd :: basic_iter_drain k e anchor len depth it'
    | Err => [IErr]
    | Panic => [IPanic]
    end
  end.

(* ---- bitReadonlyIter: j is a uint8 that wraps to 0 after 255 ---- *)
Definition bit_iter_ok (depth len : N) : bool := negb (shl64 (shl64 1 depth) 8 <? len).

Definition bit_iter_next (anchor : node) (len depth : N) (it : eiter)
  : res (option bool * eiter) :=
  if len <=? ei_i it then OK (None, it) else
  if 0 <? ei_j it then
    let b := chunk_get_bit (ei_cur it) (ei_j it) in
    OK (Some b, mkEI (ei_i it + 1) (wrap8 (ei_j it + 1)) (ei_cur it) (ei_ri it) (ei_stack it))
  else
    do r <- iter_seek anchor depth (ei_ri it) (ei_stack it); let '(n, stack) := r in
    do c <- leaf_chunk n;
    OK (Some (chunk_get_bit c 0), mkEI (ei_i it + 1) 1 c (ei_ri it + 1) stack).
Definition bit_iter_init (depth : N) : eiter :=
  mkEI 0 0 zero_chunk 0 (repeat None (nat_of depth)).

Fixpoint bit_iter_drain (calls : nat) (anchor : node) (len depth : N) (it : eiter) : list istep :=
  match calls with
  | O => []
  | S k =>
    match bit_iter_next anchor len depth it with
    | OK (Some b, it') => IVal (VBool b) :: bit_iter_drain k anchor len depth it'
    | OK (None, it') => IEnd :: bit_iter_drain k anchor len depth it'
    | Err => [IErr]
    | Panic => [IPanic]
    end
  end.

(* ---- elemReadonlyIter / fieldReadonlyIter: node iterator + ViewFromBacking ---- *)
(* ViewFromBacking fails for the single-chunk types when the node is not a Root *)
Definition view_from_backing_ok (t : ty) (n : node) : bool :=
  match t, n with
  | TUint _, Pair _ _ | TBool, Pair _ _ | TBytes _, Pair _ _ | TRoot, Pair _ _ => false
  | TBytes k, Leaf _ => k <=? 32
  | _, _ => true
  end.

Fixpoint node_iter_drain (calls : nat) (tys : nat -> option ty) (anchor : node) (len depth : N)
         (it : niter) (idx : nat) : list istep :=
  match calls with
  | O => []
  | S k =>
    match node_iter_next anchor len depth it with
    | OK (Some n, it') =>
      match tys idx with
      | Some t =>
        if view_from_backing_ok t n then
          INode t n :: node_iter_drain k tys anchor len depth it' (S idx)
        else [IErr]
      | None => [IErr]
      end
    | OK (None, it') => IEnd :: node_iter_drain k tys anchor len depth it' idx
    | Err => [IErr]
    | Panic => [IPanic]
    end
  end.

(* ---- View.ReadonlyIter() drained with [extra] further calls ---- *)
Definition ro_iter (t : ty) (n : node) (extra : nat) : list istep :=
  match t with
  | TBitvector k =>
    if bit_iter_ok (view_depth t) k
    then bit_iter_drain (nat_of k + extra) n k (view_depth t) (bit_iter_init (view_depth t))
    else [IErr]
  | TBitlist k =>
    match list_length k n, node_left n with
    | OK ll, OK c =>
      if bit_iter_ok (contents_depth t) ll
      then bit_iter_drain (nat_of ll + extra) c ll (contents_depth t) (bit_iter_init (contents_depth t))
      else [IErr]
    | Panic, _ | _, Panic => [IPanic]
    | _, _ => [IErr]
    end
  | TVector e k =>
    if is_basic_elem e then
      if basic_iter_ok e (view_depth t) k
      then basic_iter_drain (nat_of k + extra) e n k (view_depth t) (basic_iter_init e (view_depth t))
      else [IErr]
    else
      if node_iter_ok (view_depth t) k
      then node_iter_drain (nat_of k + extra) (fun _ => Some e) n k (view_depth t) (ni_init (view_depth t)) O
      else [IErr]
  | TList e k =>
    match list_length k n, node_left n with
    | OK ll, OK c =>
      let d := contents_depth t in
      if is_basic_elem e then
        if basic_iter_ok e d ll
        then basic_iter_drain (nat_of ll + extra) e c ll d (basic_iter_init e d)
        else [IErr]
      else
        if node_iter_ok d ll
        then node_iter_drain (nat_of ll + extra) (fun _ => Some e) c ll d (ni_init d) O
        else [IErr]
    | Panic, _ | _, Panic => [IPanic]
    | _, _ => [IErr]
    end
  | TContainer fs =>
    let k := N.of_nat (length fs) in
    if node_iter_ok (view_depth t) k
    then node_iter_drain (length fs + extra) (fun i => nth_error fs i) n k (view_depth t)
                         (ni_init (view_depth t)) O
    else [IErr]
  | _ => [IErr]
  end.

(* ---- View.Iter(): index based, Get(i) for i < length, then end ---- *)
Definition got_step (r : res got) : istep :=
  match r with
  | OK (GVal v) => IVal v
  | OK (GNode t n) => INode t n
  | Err => IErr
  | Panic => IPanic
  end.

Definition series_len (t : ty) (n : node) : res N :=
  match t with
  | TBitvector k | TVector _ k => OK k
  | TBitlist k | TList _ k => list_length k n
  | TContainer fs => OK (N.of_nat (length fs))
  | _ => Err
  end.

(* Go: an element error does not stop the index iterator (ok = true, err set, i advances) *)
Definition ix_iter (t : ty) (n : node) (extra : nat) : list istep :=
  match series_len t n with
  | OK len =>
    map (fun i => got_step (view_get t n (N.of_nat i))) (seq 0 (nat_of len)) ++ repeat IEnd extra
  | Err => [IErr]
  | Panic => [IPanic]
  end.

Definition get_all (t : ty) (n : node) : list istep :=
  match series_len t n with
  | OK len => map (fun i => got_step (view_get t n (N.of_nat i))) (seq 0 (nat_of len))
  | Err => [IErr]
  | Panic => [IPanic]
  end.
