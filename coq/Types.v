(* Types.v — SSZ type descriptions and plain values shared by the spec and the model. *)
From Ztyp Require Import Base.
Open Scope N_scope.

Inductive ty :=
| TUint (w : N)                 (* w = byte width: 1, 2, 4, 8, 32 *)
| TBool
| TBytes (n : N)                (* view.SmallByteVecMeta(n), 1..32 bytes *)
| TRoot                         (* view.RootMeta, 32 bytes *)
| TBitvector (n : N)
| TBitlist (n : N)
| TVector (e : ty) (n : N)
| TList (e : ty) (n : N)
| TContainer (fs : list ty)
| TUnion (none : bool) (opts : list ty).  (* none = true: selector 0 is None, opts are selectors 1.. *)

Inductive val :=
| VUint (n : N)
| VBool (b : bool)
| VBytes (bs : list byte)
| VBits (bs : list bool)
| VSeq (vs : list val)
| VCont (vs : list val)
| VUnion (sel : N) (v : option val).

Definition uint_width_ok (w : N) : bool :=
  (w =? 1) || (w =? 2) || (w =? 4) || (w =? 8) || (w =? 32).

Definition union_count (none : bool) (opts : list ty) : N :=
  N.of_nat (length opts) + (if none then 1 else 0).

(* option type for a selector: None = the None option or out of range *)
Definition union_opt (none : bool) (opts : list ty) (sel : N) : option ty :=
  if none then (if sel =? 0 then None else nth_error opts (nat_of (sel - 1)))
  else nth_error opts (nat_of sel).

(* types for which the SSZ spec defines an encoding and a root *)
Fixpoint wf_ty (t : ty) : bool :=
  match t with
  | TUint w => uint_width_ok w
  | TBool | TRoot => true
  | TBytes n => (1 <=? n) && (n <=? 32)
  | TBitvector n => 1 <=? n
  | TBitlist _ => true
  | TVector e n => (1 <=? n) && wf_ty e
  | TList e _ => wf_ty e
  | TContainer fs => negb (Nat.eqb (length fs) 0) && forallb wf_ty fs
  | TUnion none opts =>
    negb (Nat.eqb (length opts) 0) && (union_count none opts <=? 128) && forallb wf_ty opts
  end.

Fixpoint has_type (v : val) (t : ty) {struct t} : bool :=
  match t, v with
  | TUint w, VUint n => n <? 2 ^ (8 * w)
  | TBool, VBool _ => true
  | TBytes k, VBytes bs => N.of_nat (length bs) =? k
  | TRoot, VBytes bs => N.of_nat (length bs) =? 32
  | TBitvector k, VBits bs => N.of_nat (length bs) =? k
  | TBitlist k, VBits bs => N.of_nat (length bs) <=? k
  | TVector e k, VSeq vs => (N.of_nat (length vs) =? k) && forallb (fun x => has_type x e) vs
  | TList e k, VSeq vs => (N.of_nat (length vs) <=? k) && forallb (fun x => has_type x e) vs
  | TContainer fs, VCont vs =>
    (fix go (fs : list ty) (vs : list val) : bool :=
       match fs, vs with
       | [], [] => true
       | f :: fs', x :: vs' => has_type x f && go fs' vs'
       | _, _ => false
       end) fs vs
  | TUnion none opts, VUnion sel ov =>
    if none && (sel =? 0) then (match ov with None => true | Some _ => false end)
    else
      (fix pick (os : list ty) (k : nat) : bool :=
         match os, k with
         | [], _ => false
         | o :: _, O => match ov with Some x => has_type x o | None => false end
         | _ :: os', S k' => pick os' k'
         end) opts (nat_of (if none then sel - 1 else sel))
  | _, _ => false
  end.

(* the default (zero) value of a type *)
Fixpoint default_val (t : ty) : val :=
  match t with
  | TUint _ => VUint 0
  | TBool => VBool false
  | TBytes n => VBytes (zero_bytes (nat_of n))
  | TRoot => VBytes (zero_bytes 32)
  | TBitvector n => VBits (repeat false (nat_of n))
  | TBitlist _ => VBits []
  | TVector e n => VSeq (repeat (default_val e) (nat_of n))
  | TList _ _ => VSeq []
  | TContainer fs => VCont (map default_val fs)
  | TUnion none opts =>
    if none then VUnion 0 None
    else match opts with
         | o :: _ => VUnion 0 (Some (default_val o))
         | [] => VUnion 0 None
         end
  end.
