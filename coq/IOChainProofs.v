(* IOChainProofs.v — proofs about IOChain.v: the byte-level I/O model of IO.v generalised from
   ONE io.LimitReader to a CHAIN of nested LimitedReaders (property C13), and its relation to
   the in-memory reader of Reader.v (whose [dreader] carries a chain of limit counters).

   Small spec definition used in the statements of Props/C13.v (chain part):
   * [chain_read_ok data lims i mx k]  the success condition of a k-byte read through the
       chain [lims] of limit counters, as a function of the bytes the stream holds only:
         k = 0   or   (no uint64 overflow of i + k,  i + k <= mx,  k <= every counter of the
                       chain,  k <= lenN data)
       ([chain_read_ok_iff] spells it out in Prop; for a one-element chain it is IOProofs'
       [read_ok], [chain_read_ok_one]).
   Reused from IOProofs.v: [nofail], [delivered], [step_rel], [lenN].

   Contents
     1. a one-element chain is IO.v's lr_read / dr_fill / dr_read_io
     2. one Read through the chain
     3. the fill loop: soundness (any reader) and completeness (non-failing reader)
     4. dr_read_io_chain: exact characterisation, schedule independence, short streams
     5. relation to Reader.dr_read / dr_sub_scope
     6. Examples
     7. packaged statements for Props/C13.v *)
From Coq Require Import PeanoNat.
From Ztyp Require Import Base Reader IO IOChain BitfieldsProofs IOProofs.
Open Scope N_scope.

Definition chain_read_ok (data : list byte) (lims : list N) (i mx k : N) : bool :=
  (k =? 0) ||
  (negb (two64 - 1 - i <? k) && negb (mx <? i + k) && forallb (fun l => k <=? l) lims
   && (k <=? lenN data)).

(* ------------------------------------------------------------------------------------ *)
(** * 0. helpers *)

Lemma Forall_0_le (lims : list N) : Forall (fun l => 0 <= l) lims.
Proof. apply Forall_forall. intros; lia. Qed.

Lemma map_sub_0 (lims : list N) : map (fun l => l - 0) lims = lims.
Proof.
  rewrite (map_ext _ (fun l => l)); [apply map_id|]. intros; apply N.sub_0_r.
Qed.

Lemma map_sub_sub j m (lims : list N) :
  map (fun l => l - m) (map (fun l => l - j) lims) = map (fun l => l - (j + m)) lims.
Proof. rewrite map_map. apply map_ext. intros; lia. Qed.

Lemma forallb_le_Forall k (lims : list N) :
  forallb (fun l => k <=? l) lims = true <-> Forall (fun l => k <= l) lims.
Proof.
  rewrite forallb_forall, Forall_forall.
  split; intros H l Hl; specialize (H l Hl); [now apply N.leb_le | now apply N.leb_le].
Qed.

Lemma forallb_le_false k (lims : list N) :
  forallb (fun l => k <=? l) lims = false -> Exists (fun l => l < k) lims.
Proof.
  induction lims as [|l r IH]; cbn [forallb]; [discriminate|].
  destruct (N.leb_spec k l) as [L|L]; cbn [andb].
  - intros H. apply Exists_cons_tl. now apply IH.
  - intros _. now apply Exists_cons_hd.
Qed.

Lemma chain_read_ok_iff data lims i mx k :
  chain_read_ok data lims i mx k = true <->
  k = 0 \/ ((two64 - 1 - i <? k) = false /\ i + k <= mx /\
            Forall (fun l => k <= l) lims /\ k <= lenN data).
Proof.
  unfold chain_read_ok. rewrite orb_true_iff, !andb_true_iff, !negb_true_iff.
  rewrite N.eqb_eq, N.leb_le, forallb_le_Forall, (N.ltb_ge mx (i + k)). tauto.
Qed.

Lemma chain_read_ok_one data lim i mx k :
  chain_read_ok data [lim] i mx k = read_ok data lim i mx k.
Proof. unfold chain_read_ok, read_ok. cbn [forallb]. now rewrite andb_true_r. Qed.

(* ------------------------------------------------------------------------------------ *)
(** * 1. a one-element chain is IO.v's single LimitReader *)

Lemma lrs_read_nil u req :
  lrs_read u [] req = let '(bs, e, u') := u_read u req in (bs, e, u', []).
Proof. reflexivity. Qed.

Lemma lrs_read_one u l req :
  lrs_read u [l] req = let '(bs, e, u', l') := lr_read u l req in (bs, e, u', [l']).
Proof.
  cbn [lrs_read]. unfold lr_read. destruct (l =? 0); [reflexivity|].
  destruct (u_read u (N.min req l)) as [[bs e] u']. reflexivity.
Qed.

Lemma dr_fill_chain_eq fuel u lims need acc :
  dr_fill_chain fuel u lims need acc =
  if need =? 0 then (acc, RNone, u, lims) else
  match fuel with
  | O => (acc, RFail, u, lims)
  | S f =>
    let '(bs, e, u', lims') := lrs_read u lims need in
    let acc' := acc ++ bs in
    let need' := need - N.of_nat (length bs) in
    match e with
    | RNone => dr_fill_chain f u' lims' need' acc'
    | REof => if need' =? 0 then (acc', RNone, u', lims') else (acc', REof, u', lims')
    | RFail => (acc', RFail, u', lims')
    end
  end.
Proof. destruct fuel; reflexivity. Qed.

Lemma dr_fill_chain_one : forall fuel u l need acc,
  dr_fill_chain fuel u [l] need acc =
  let '(bs, e, u', l') := dr_fill fuel u l need acc in (bs, e, u', [l']).
Proof.
  induction fuel as [|fuel IH]; intros u l need acc;
    rewrite dr_fill_chain_eq, dr_fill_eq; destruct (need =? 0); try reflexivity.
  rewrite lrs_read_one. destruct (lr_read u l need) as [[[bs e] u1] l1]. cbv zeta.
  destruct e; [apply IH | destruct (_ =? 0); reflexivity | reflexivity].
Qed.

Lemma dr_read_io_chain_one u l i mx k :
  dr_read_io_chain u [l] i mx k =
  match dr_read_io u l i mx k with
  | OK (bs, u', l', i') => OK (bs, u', [l'], i')
  | Err => Err
  | Panic => Panic
  end.
Proof.
  unfold dr_read_io_chain, dr_read_io. destruct (k =? 0); [reflexivity|].
  destruct (_ <? k); [reflexivity|]. destruct (mx <? _); [reflexivity|].
  rewrite dr_fill_chain_one.
  destruct (dr_fill (S (nat_of k)) u l k []) as [[[bs e] u1] l1]. destruct e; reflexivity.
Qed.

Lemma chain_one_is_lr : forall u l i mx k req,
  lrs_read u [l] req = (let '(bs, e, u', l') := lr_read u l req in (bs, e, u', [l'])) /\
  dr_read_io_chain u [l] i mx k =
    match dr_read_io u l i mx k with
    | OK (bs, u', l', i') => OK (bs, u', [l'], i')
    | Err => Err
    | Panic => Panic
    end.
Proof. intros. split; [apply lrs_read_one | apply dr_read_io_chain_one]. Qed.

(* ------------------------------------------------------------------------------------ *)
(** * 2. one Read through the chain of LimitedReaders *)

Definition chain_post (u : ureader) (lims : list N) (req : N) (bs : list byte) (e : rerr)
           (u' : ureader) (lims' : list N) (j : N) : Prop :=
  bs = firstn (nat_of j) (u_data u) /\ N.of_nat (length bs) = j /\
  j <= req /\ Forall (fun l => j <= l) lims /\ lims' = map (fun l => l - j) lims /\
  step_rel u j u' /\
  (nofail u ->
     e <> RFail /\
     (e = REof -> j = lenN (u_data u) \/ Exists (fun l => l = 0) lims) /\
     (0 < req -> Forall (fun l => 0 < l) lims -> 0 < lenN (u_data u) -> 1 <= j)).

Lemma lrs_read_spec : forall lims u req,
  exists j, let '(bs, e, u', lims') := lrs_read u lims req in
            chain_post u lims req bs e u' lims' j.
Proof.
  induction lims as [|l rest IH]; intros u req.
  - rewrite lrs_read_nil. destruct (u_read_spec u req) as [j H].
    destruct (u_read u req) as [[bs e] u']. destruct H as (Hbs & Hj & Hst & Hnf).
    exists j.
    assert (Hlen : N.of_nat (length bs) = j).
    { subst bs. apply lenN_firstn_le. eapply step_rel_len, Hst. }
    unfold chain_post. split; [exact Hbs|]. split; [exact Hlen|]. split; [exact Hj|].
    split; [constructor|]. split; [reflexivity|]. split; [exact Hst|].
    intros NF. destruct (Hnf NF) as (E1 & E2 & E3). split; [exact E1|]. split.
    + intros E. left. now apply E2.
    + intros R _ D. now apply E3.
  - cbn [lrs_read]. destruct (N.eqb_spec l 0) as [L0|L0].
    { exists 0. unfold chain_post. split; [reflexivity|]. split; [reflexivity|].
      split; [lia|]. split; [apply Forall_0_le|]. split; [now rewrite map_sub_0|].
      split; [apply step_rel_refl|].
      intros _. split; [discriminate|]. split.
      - intros _. right. now apply Exists_cons_hd.
      - intros _ F. inversion F; subst. lia. }
    destruct (IH u (N.min req l)) as [j H].
    destruct (lrs_read u rest (N.min req l)) as [[[bs e] u'] rest'].
    destruct H as (Hbs & Hlen & Hjr & Hall & Hl' & Hst & Hnf).
    exists j. unfold chain_post. rewrite Hlen.
    split; [exact Hbs|]. split; [reflexivity|]. split; [lia|].
    split; [constructor; [lia|exact Hall]|].
    split; [cbn [map]; now rewrite Hl'|]. split; [exact Hst|].
    intros NF. destruct (Hnf NF) as (E1 & E2 & E3). split; [exact E1|]. split.
    + intros E. destruct (E2 E) as [A|A]; [now left | right; now apply Exists_cons_tl].
    + intros R F D. inversion F as [|x xs F1 F2]; subst. apply E3; [lia|exact F2|exact D].
Qed.

(* ------------------------------------------------------------------------------------ *)
(** * 3. the fill loop over the chain *)

(* soundness, for ANY underlying reader (any chunking, eof flag, failure point), any chain
   and any fuel: if the loop reports success, it has delivered exactly the next [need]
   bytes, every counter of the chain was at least [need] and has been decremented by it *)
Lemma dr_fill_chain_sound : forall fuel u lims need acc bs u' lims',
  dr_fill_chain fuel u lims need acc = (bs, RNone, u', lims') ->
  bs = acc ++ firstn (nat_of need) (u_data u) /\
  Forall (fun l => need <= l) lims /\ lims' = map (fun l => l - need) lims /\
  step_rel u need u'.
Proof.
  induction fuel as [|fuel IH]; intros u lims need acc bs u' lims' H;
    rewrite dr_fill_chain_eq in H; destruct (N.eqb_spec need 0) as [N0|N0].
  1,3: inversion H; subst; cbn [nat_of N.to_nat firstn]; rewrite app_nil_r;
       split; [reflexivity|]; split; [apply Forall_0_le|];
       split; [now rewrite map_sub_0 | apply step_rel_refl].
  { discriminate. }
  destruct (lrs_read_spec lims u need) as [j Hj].
  destruct (lrs_read u lims need) as [[[bs1 e] u1] lims1].
  destruct Hj as (Hbs & Hlen & Hjr & Hjl & Hlim & Hst & _).
  cbv zeta in H. rewrite Hlen in H. clear Hlen.
  assert (Hcat : forall m, j + m = need ->
            (acc ++ bs1) ++ firstn (nat_of m) (u_data u1)
            = acc ++ firstn (nat_of need) (u_data u)).
  { intros m Hm. rewrite <- app_assoc. f_equal. subst bs1. rewrite <- Hm, nat_of_add.
    rewrite firstn_add. f_equal. f_equal. eapply step_rel_data, Hst. }
  destruct e.
  - apply IH in H. destruct H as (B & L & L' & S2).
    assert (Hn : j + (need - j) = need) by lia.
    split; [|split; [|split]].
    + rewrite B. now apply Hcat.
    + apply Forall_forall. intros l Hin. rewrite Forall_forall in Hjl, L.
      specialize (Hjl l Hin). subst lims1.
      specialize (L (l - j) (in_map (fun l => l - j) lims l Hin)). cbv beta in *. lia.
    + rewrite L', Hlim, map_sub_sub. now rewrite Hn.
    + rewrite <- Hn. eapply step_rel_trans; eassumption.
  - destruct (N.eqb_spec (need - j) 0) as [Z|Z]; [|discriminate].
    inversion H; subst bs u' lims'. assert (j = need) by lia. subst j.
    split; [|split; [exact Hjl|split; [exact Hlim|exact Hst]]].
    rewrite <- (Hcat 0); [cbn [nat_of N.to_nat firstn]; now rewrite app_nil_r | lia].
  - discriminate.
Qed.

(* completeness, for a reader that does not fail: whatever its chunking and eof behaviour
   and however deep the chain, enough data and enough room in every counter make the loop
   succeed (fuel >= need suffices: every iteration delivers at least one byte) *)
Lemma dr_fill_chain_complete : forall fuel u lims need acc,
  nofail u -> need <= lenN (u_data u) -> Forall (fun l => need <= l) lims ->
  (nat_of need <= fuel)%nat ->
  exists bs u' lims', dr_fill_chain fuel u lims need acc = (bs, RNone, u', lims').
Proof.
  induction fuel as [|fuel IH]; intros u lims need acc NF Hd Hl Hf;
    rewrite dr_fill_chain_eq; destruct (N.eqb_spec need 0) as [N0|N0].
  1,3: now eexists _, _, _.
  { unfold nat_of in Hf. lia. }
  destruct (lrs_read_spec lims u need) as [j Hj].
  destruct (lrs_read u lims need) as [[[bs1 e] u1] lims1].
  destruct Hj as (Hbs & Hlen & Hjr & Hjl & Hlim & Hst & Hnf).
  destruct (Hnf NF) as (E1 & E2 & E3). cbv zeta. rewrite Hlen.
  assert (J1 : 1 <= j).
  { apply E3; [lia| |lia]. apply Forall_forall. intros l Hin. rewrite Forall_forall in Hl.
    specialize (Hl l Hin). cbv beta in Hl. lia. }
  destruct e.
  - apply IH.
    + eapply step_rel_nofail; eassumption.
    + rewrite (step_rel_data _ _ _ Hst), lenN_skipn. unfold nat_of. lia.
    + subst lims1. apply Forall_forall. intros x Hin. apply in_map_iff in Hin.
      destruct Hin as (l & Hx & Hin). rewrite Forall_forall in Hl. specialize (Hl l Hin).
      cbv beta in Hl. lia.
    + unfold nat_of in *. lia.
  - destruct (E2 eq_refl) as [E|E].
    + assert (Z : need - j = 0) by lia. rewrite Z. cbn [N.eqb]. now eexists _, _, _.
    + exfalso. apply Exists_exists in E. destruct E as (l & Hin & L0).
      rewrite Forall_forall in Hl. specialize (Hl l Hin). cbv beta in Hl. lia.
  - congruence.
Qed.

(* failure direction: if the data, the failure point or SOME counter of the chain comes
   before [need] bytes, the loop does not report success *)
Lemma dr_fill_chain_short fuel u lims need acc :
  need > delivered u \/ Exists (fun l => l < need) lims ->
  snd (fst (fst (dr_fill_chain fuel u lims need acc))) <> RNone.
Proof.
  intros H E.
  destruct (dr_fill_chain fuel u lims need acc) as [[[bs e] u'] lims'] eqn:D.
  cbn [fst snd] in E. subst e. apply dr_fill_chain_sound in D.
  destruct D as (_ & L & _ & S). apply step_rel_delivered in S. destruct H as [H|H]; [lia|].
  apply Exists_exists in H. destruct H as (l & Hin & Hl).
  rewrite Forall_forall in L. specialize (L l Hin). cbv beta in L. lia.
Qed.

(* ------------------------------------------------------------------------------------ *)
(** * 4. dr_read_io_chain *)

(* inversion of a successful read, for ANY underlying reader and any chain *)
Lemma dr_read_io_chain_OK_inv u lims i mx k bs u' lims' i' :
  dr_read_io_chain u lims i mx k = OK (bs, u', lims', i') ->
  bs = firstn (nat_of k) (u_data u) /\ step_rel u k u' /\
  Forall (fun l => k <= l) lims /\ lims' = map (fun l => l - k) lims /\ i' = i + k.
Proof.
  unfold dr_read_io_chain. destruct (N.eqb_spec k 0) as [K0|K0].
  { intros H. inversion H; subst. cbn [nat_of N.to_nat firstn].
    split; [reflexivity|]. split; [apply step_rel_refl|]. split; [apply Forall_0_le|].
    split; [now rewrite map_sub_0 | lia]. }
  destruct (two64 - 1 - i <? k); [discriminate|].
  destruct (mx <? i + k); [discriminate|].
  destruct (dr_fill_chain (S (nat_of k)) u lims k []) as [[[bs1 e] u1] lims1] eqn:D.
  destruct e; try discriminate. intros H. injection H as Hb Hu Hl Hi.
  apply dr_fill_chain_sound in D. destruct D as (B & L & L' & S). cbn [app] in B.
  subst. split; [reflexivity|]. split; [exact S|]. split; [exact L|]. split; reflexivity.
Qed.

Lemma dr_read_io_chain_no_panic u lims i mx k : dr_read_io_chain u lims i mx k <> Panic.
Proof.
  unfold dr_read_io_chain. destruct (k =? 0); [discriminate|].
  destruct (_ <? k); [discriminate|]. destruct (mx <? _); [discriminate|].
  destruct (dr_fill_chain _ _ _ _ _) as [[[bs1 e] u1] lims1]. destruct e; discriminate.
Qed.

(* a non-failing reader: success iff [chain_read_ok], with the bytes [firstn k data] *)
Lemma dr_read_io_chain_ok u lims i mx k :
  nofail u -> chain_read_ok (u_data u) lims i mx k = true ->
  exists u', dr_read_io_chain u lims i mx k =
               OK (firstn (nat_of k) (u_data u), u', map (fun l => l - k) lims, i + k)
             /\ step_rel u k u'.
Proof.
  intros NF R. unfold chain_read_ok in R. unfold dr_read_io_chain.
  destruct (N.eqb_spec k 0) as [K0|K0].
  { subst k. exists u. rewrite map_sub_0, N.add_0_r. split; [reflexivity|apply step_rel_refl]. }
  cbn [orb] in R.
  destruct (two64 - 1 - i <? k); [discriminate|].
  destruct (mx <? i + k); [discriminate|]. cbn [negb andb] in R.
  apply andb_prop in R. destruct R as [R1 R2].
  apply forallb_le_Forall in R1. apply N.leb_le in R2.
  destruct (dr_fill_chain_complete (S (nat_of k)) u lims k [] NF R2 R1) as (bs & u' & lims' & E);
    [lia|].
  pose proof (dr_fill_chain_sound _ _ _ _ _ _ _ _ E) as (B & _ & L & S).
  rewrite E, B, L. cbn [app]. now exists u'.
Qed.

Lemma dr_read_io_chain_err u lims i mx k :
  nofail u -> chain_read_ok (u_data u) lims i mx k = false ->
  dr_read_io_chain u lims i mx k = Err.
Proof.
  intros NF R. unfold chain_read_ok in R. unfold dr_read_io_chain.
  destruct (N.eqb_spec k 0) as [K0|K0]; [discriminate|]. cbn [orb] in R.
  destruct (two64 - 1 - i <? k); [reflexivity|].
  destruct (mx <? i + k); [reflexivity|]. cbn [negb andb] in R.
  pose proof (dr_fill_chain_short (S (nat_of k)) u lims k []) as Hs.
  destruct (dr_fill_chain (S (nat_of k)) u lims k []) as [[[bs1 e] u1] lims1].
  cbn [fst snd] in Hs.
  destruct e; try reflexivity. exfalso. apply Hs; [|reflexivity].
  unfold delivered. rewrite NF.
  destruct (forallb (fun l => k <=? l) lims) eqn:FB.
  - left. cbn [andb] in R. apply N.leb_gt in R. lia.
  - right. now apply forallb_le_false.
Qed.

Lemma chain_read_value : forall u lims i mx k,
  u_fail_after u = None ->
  (chain_read_ok (u_data u) lims i mx k = true ->
     exists u', dr_read_io_chain u lims i mx k =
                  OK (firstn (nat_of k) (u_data u), u', map (fun l => l - k) lims, i + k)
                /\ u_data u' = skipn (nat_of k) (u_data u) /\ u_fail_after u' = None
                /\ u_eof_with_data u' = u_eof_with_data u
                /\ exists n, u_chunks u' = skipn n (u_chunks u)) /\
  (chain_read_ok (u_data u) lims i mx k = false -> dr_read_io_chain u lims i mx k = Err).
Proof.
  intros u lims i mx k NF. split.
  - intros R. destruct (dr_read_io_chain_ok u lims i mx k NF R) as (u' & E & S).
    exists u'. split; [exact E|]. split; [exact (step_rel_data _ _ _ S)|].
    split; [exact (step_rel_nofail _ _ _ S NF)|].
    destruct S as (_ & _ & _ & _ & Ef & C). now split.
  - exact (dr_read_io_chain_err u lims i mx k NF).
Qed.

(* for ANY reader: a read that returns a value returns exactly the next k bytes *)
Lemma chain_value_is_prefix : forall u lims i mx k bs u' lims' i',
  dr_read_io_chain u lims i mx k = OK (bs, u', lims', i') ->
  bs = firstn (nat_of k) (u_data u) /\ u_data u' = skipn (nat_of k) (u_data u) /\
  k <= delivered u /\ Forall (fun l => k <= l) lims /\
  lims' = map (fun l => l - k) lims /\ i' = i + k.
Proof.
  intros u lims i mx k bs u' lims' i' H. apply dr_read_io_chain_OK_inv in H.
  destruct H as (B & S & L & L' & I). pose proof (step_rel_delivered _ _ _ S) as (D & _).
  repeat split; try assumption. exact (step_rel_data _ _ _ S).
Qed.

(* schedule independence: two non-failing readers holding the same bytes *)
Lemma chain_schedule_indep : forall u1 u2 lims i mx k,
  u_fail_after u1 = None -> u_fail_after u2 = None -> u_data u1 = u_data u2 ->
  match dr_read_io_chain u1 lims i mx k, dr_read_io_chain u2 lims i mx k with
  | OK (bs1, u1', lims1, i1), OK (bs2, u2', lims2, i2) =>
      bs1 = bs2 /\ u_data u1' = u_data u2' /\ lims1 = lims2 /\ i1 = i2 /\
      u_fail_after u1' = None /\ u_fail_after u2' = None
  | Err, Err => True
  | _, _ => False
  end.
Proof.
  intros u1 u2 lims i mx k N1 N2 D.
  destruct (chain_read_ok (u_data u1) lims i mx k) eqn:R.
  - destruct (dr_read_io_chain_ok u1 lims i mx k N1 R) as (u1' & E1 & S1).
    rewrite D in R. destruct (dr_read_io_chain_ok u2 lims i mx k N2 R) as (u2' & E2 & S2).
    rewrite E1, E2, D. split; [reflexivity|]. split.
    { rewrite (step_rel_data _ _ _ S1), (step_rel_data _ _ _ S2). now rewrite D. }
    split; [reflexivity|]. split; [reflexivity|]. split.
    + exact (step_rel_nofail _ _ _ S1 N1).
    + exact (step_rel_nofail _ _ _ S2 N2).
  - rewrite (dr_read_io_chain_err u1 lims i mx k N1 R). rewrite D in R.
    now rewrite (dr_read_io_chain_err u2 lims i mx k N2 R).
Qed.

(* short or failing streams, exhausted counters: an error, never a value *)
Lemma chain_short_stream u lims i mx k :
  0 < k -> delivered u < k \/ Exists (fun l => l < k) lims ->
  dr_read_io_chain u lims i mx k = Err.
Proof.
  intros K H.
  destruct (dr_read_io_chain u lims i mx k) as [[[[bs u'] lims'] i']| |] eqn:E.
  - apply chain_value_is_prefix in E. destruct E as (_ & _ & D & L & _).
    destruct H as [H|H]; [lia|]. apply Exists_exists in H. destruct H as (l & Hin & Hl).
    rewrite Forall_forall in L. specialize (L l Hin). cbv beta in L. lia.
  - reflexivity.
  - now apply dr_read_io_chain_no_panic in E.
Qed.

(* ------------------------------------------------------------------------------------ *)
(** * 5. relation to Reader.v *)

Lemma min_ltb a b k : (N.min a b <? k) = (a <? k) || (b <? k).
Proof.
  destruct (N.ltb_spec (N.min a b) k), (N.ltb_spec a k), (N.ltb_spec b k);
    cbn [orb]; try reflexivity; lia.
Qed.

(* Reader.avail is the minimum of the chain's counters and the stream length *)
Lemma avail_ltb st chain k :
  (avail st chain <? k) =
  negb (forallb (fun l => k <=? l) (map (lim_get st) chain) && (k <=? lenN (r_stream st))).
Proof.
  unfold avail. induction chain as [|a chain IH]; cbn [fold_right map forallb].
  - cbn [andb]. unfold lenN. apply N.ltb_antisym.
  - rewrite min_ltb, IH, (N.ltb_antisym k (lim_get st a)).
    destruct (k <=? lim_get st a); reflexivity.
Qed.

(* Reader.dr_read succeeds exactly under [chain_read_ok] of its chain's counter values *)
Lemma dr_read_as_ok st d k :
  dr_read st d k =
  if chain_read_ok (r_stream st) (map (lim_get st) (d_chain d)) (d_i d) (d_max d) k
  then (if k =? 0 then OK ([], st, d)
        else OK (firstn (nat_of k) (r_stream st), consume st (d_chain d) k,
                 mkDR (d_i d + k) (d_max d) (d_chain d)))
  else Err.
Proof.
  unfold dr_read, chain_read_ok. destruct (k =? 0); cbn [orb]; [reflexivity|].
  destruct (two64 - 1 - d_i d <? k); cbn [negb andb]; [reflexivity|].
  destruct (d_max d <? d_i d + k); cbn [negb andb]; [reflexivity|].
  rewrite avail_ltb. destruct (_ && _); reflexivity.
Qed.

(* the counters after [consume] *)
Definition dec_all (k : N) (ls : list N) (chain : list nat) : list N :=
  fold_right (fun idx ls => list_set ls idx (nth idx ls 0 - k)) ls chain.

Lemma dec_all_length k ls chain : length (dec_all k ls chain) = length ls.
Proof.
  induction chain as [|a chain IH]; cbn [dec_all fold_right]; [reflexivity|].
  fold (dec_all k ls chain). now rewrite list_set_length.
Qed.

Lemma dec_all_nth_notin k ls : forall chain j,
  Forall (fun idx => (idx < length ls)%nat) chain -> ~ In j chain ->
  nth j (dec_all k ls chain) 0 = nth j ls 0.
Proof.
  induction chain as [|a chain IH]; intros j B NI; [reflexivity|].
  cbn [dec_all fold_right]. fold (dec_all k ls chain).
  inversion B as [|x xs B1 B2]; subst.
  rewrite nth_list_set by (now rewrite dec_all_length).
  destruct (Nat.eqb_spec j a) as [E|E].
  - subst. exfalso. apply NI. now left.
  - apply IH; [exact B2|]. intros I. apply NI. now right.
Qed.

Lemma dec_all_nth_in k ls : forall chain j,
  NoDup chain -> Forall (fun idx => (idx < length ls)%nat) chain -> In j chain ->
  nth j (dec_all k ls chain) 0 = nth j ls 0 - k.
Proof.
  induction chain as [|a chain IH]; intros j ND B I; [destruct I|].
  cbn [dec_all fold_right]. fold (dec_all k ls chain).
  inversion B as [|x xs B1 B2]; subst. inversion ND as [|y ys ND1 ND2]; subst.
  rewrite nth_list_set by (now rewrite dec_all_length).
  destruct (Nat.eqb_spec j a) as [E|E].
  - subst. f_equal. now apply dec_all_nth_notin.
  - apply IH; [exact ND2|exact B2|]. destruct I as [I|I]; [congruence|exact I].
Qed.

Lemma consume_lims st chain k :
  NoDup chain -> Forall (fun idx => (idx < length (r_lims st))%nat) chain ->
  map (lim_get (consume st chain k)) chain = map (fun l => l - k) (map (lim_get st) chain).
Proof.
  intros ND B. rewrite map_map. apply map_ext_in. intros idx I.
  unfold lim_get, consume. cbn [r_lims]. now apply (dec_all_nth_in k (r_lims st) chain idx).
Qed.

Lemma consume_length st chain k : length (r_lims (consume st chain k)) = length (r_lims st).
Proof. unfold consume. cbn [r_lims]. apply (dec_all_length k (r_lims st) chain). Qed.

Lemma chain_agrees_with_reader : forall st d u k,
  NoDup (d_chain d) ->
  Forall (fun idx => (idx < length (r_lims st))%nat) (d_chain d) ->
  u_fail_after u = None -> u_data u = r_stream st ->
  (dr_read_io_chain u (map (lim_get st) (d_chain d)) (d_i d) (d_max d) k = Err
   <-> dr_read st d k = Err) /\
  (forall bs st' d', dr_read st d k = OK (bs, st', d') ->
     exists u',
       dr_read_io_chain u (map (lim_get st) (d_chain d)) (d_i d) (d_max d) k
       = OK (bs, u', map (lim_get st') (d_chain d), d_i d') /\
       u_data u' = r_stream st' /\ u_fail_after u' = None) /\
  dr_read st d k <> Panic.
Proof.
  intros st d u k ND B NF D. rewrite dr_read_as_ok. rewrite <- D.
  set (lims := map (lim_get st) (d_chain d)).
  destruct (chain_read_ok (u_data u) lims (d_i d) (d_max d) k) eqn:R.
  - destruct (dr_read_io_chain_ok u lims (d_i d) (d_max d) k NF R) as (u' & E & S).
    rewrite E. destruct (N.eqb_spec k 0) as [K0|K0].
    + split; [split; discriminate|]. split; [|discriminate].
      intros bs st' d' H. inversion H; subst bs st' d'. exists u'.
      subst k. rewrite map_sub_0, N.add_0_r. cbn [nat_of N.to_nat firstn].
      split; [reflexivity|]. split.
      * rewrite (step_rel_data _ _ _ S). cbn [nat_of N.to_nat skipn]. exact D.
      * exact (step_rel_nofail _ _ _ S NF).
    + split; [split; discriminate|]. split; [|discriminate].
      intros bs st' d' H. inversion H; subst bs st' d'. exists u'. cbn [d_i].
      rewrite (consume_lims st (d_chain d) k ND B). split; [reflexivity|]. split.
      * rewrite (step_rel_data _ _ _ S). unfold consume. cbn [r_stream]. now rewrite D.
      * exact (step_rel_nofail _ _ _ S NF).
  - rewrite (dr_read_io_chain_err u lims (d_i d) (d_max d) k NF R).
    split; [split; reflexivity|]. split; [discriminate|discriminate].
Qed.

(* the well-formedness of the chain is preserved by reads ... *)
Lemma chain_wf_read : forall st d k bs st' d',
  dr_read st d k = OK (bs, st', d') ->
  NoDup (d_chain d) -> Forall (fun idx => (idx < length (r_lims st))%nat) (d_chain d) ->
  NoDup (d_chain d') /\ Forall (fun idx => (idx < length (r_lims st'))%nat) (d_chain d') /\
  d_chain d' = d_chain d.
Proof.
  intros st d k bs st' d' H ND B. unfold dr_read in H.
  destruct (k =? 0); [inversion H; subst; now repeat split|].
  destruct (_ <? k); [discriminate|]. destruct (d_max d <? _); [discriminate|].
  destruct (avail _ _ <? k); [discriminate|]. inversion H; subst. cbn [d_chain].
  split; [exact ND|]. split; [|reflexivity]. now rewrite consume_length.
Qed.

(* ... and established by NewDecodingReader and SubScope: SubScope puts a fresh counter
   with value [count] in front of the chain *)
Lemma chain_wf_new : forall bs scope st d,
  new_reader bs scope = (st, d) ->
  NoDup (d_chain d) /\ Forall (fun idx => (idx < length (r_lims st))%nat) (d_chain d) /\
  map (lim_get st) (d_chain d) = [scope] /\ r_stream st = bs.
Proof.
  intros bs scope st d H. unfold new_reader in H. inversion H; subst.
  cbn [d_chain r_lims r_stream length map]. split.
  - constructor; [intros []|constructor].
  - split; [constructor; [lia|constructor]|]. now split.
Qed.

Lemma chain_wf_sub_scope : forall st d count st' d',
  dr_sub_scope st d count = OK (st', d') ->
  NoDup (d_chain d) -> Forall (fun idx => (idx < length (r_lims st))%nat) (d_chain d) ->
  NoDup (d_chain d') /\ Forall (fun idx => (idx < length (r_lims st'))%nat) (d_chain d') /\
  map (lim_get st') (d_chain d') = count :: map (lim_get st) (d_chain d) /\
  r_stream st' = r_stream st /\ d_i d' = 0 /\ d_max d' = count.
Proof.
  intros st d count st' d' H ND B. unfold dr_sub_scope in H.
  destruct (dr_scope d <? count); [discriminate|]. inversion H; subst.
  cbn [d_chain r_lims r_stream d_i d_max]. rewrite Forall_forall in B.
  split; [|split; [|split; [|now repeat split]]].
  - constructor; [|exact ND]. intros I. specialize (B _ I). lia.
  - rewrite app_length. cbn [length]. constructor; [lia|].
    apply Forall_forall. intros idx I. specialize (B _ I). lia.
  - cbn [map]. f_equal.
    + unfold lim_get. cbn [r_lims]. rewrite app_nth2 by lia. now rewrite Nat.sub_diag.
    + apply map_ext_in. intros idx I. specialize (B _ I). unfold lim_get. cbn [r_lims].
      now apply app_nth1.
Qed.

(* ------------------------------------------------------------------------------------ *)
(** * 6. Examples: the statements are not vacuous *)

Definition exc_data : list byte := firstn 8 ex_data.
(* 8 bytes delivered one byte at a time *)
Definition exc_u : ureader := mkU exc_data [1; 1; 1; 1; 1; 1; 1; 1] false None.

(* a two-level chain: inner counter 3, outer counter 10 *)
Example exc_read3 :
  dr_read_io_chain exc_u [3; 10] 0 3 3 =
  OK (firstn 3 exc_data, mkU (skipn 3 exc_data) [1; 1; 1; 1; 1] false None, [0; 7], 3).
Proof. vm_compute. reflexivity. Qed.
(* a read of 4 exceeds the inner counter (the bound mx is large enough) *)
Example exc_read4 : dr_read_io_chain exc_u [3; 10] 0 100 4 = Err.
Proof. vm_compute. reflexivity. Qed.
(* ... and likewise when the OUTER counter is the small one *)
Example exc_read4_outer :
  dr_read_io_chain exc_u [10; 3] 0 100 4 = Err /\
  dr_read_io_chain exc_u [10; 3] 0 100 3 =
  OK (firstn 3 exc_data, mkU (skipn 3 exc_data) [1; 1; 1; 1; 1] false None, [7; 0], 3).
Proof. vm_compute. split; reflexivity. Qed.
(* a single underlying Read never crosses a counter: 3 from [3; 10], then EOF from the
   inner LimitedReader *)
Example exc_lrs :
  lrs_read (one_shot exc_data) [3; 10] 5 =
    (firstn 3 exc_data, RNone, one_shot (skipn 3 exc_data), [0; 7]) /\
  lrs_read (one_shot (skipn 3 exc_data)) [0; 7] 2 =
    ([], REof, one_shot (skipn 3 exc_data), [0; 7]).
Proof. vm_compute. split; reflexivity. Qed.
(* hypotheses of chain_read_value / chain_short_stream on these inputs *)
Example exc_value_hyp :
  u_fail_after exc_u = None /\ chain_read_ok (u_data exc_u) [3; 10] 0 3 3 = true /\
  chain_read_ok (u_data exc_u) [3; 10] 0 100 4 = false.
Proof. vm_compute. repeat split; reflexivity. Qed.
Example exc_short_hyp : 0 < 4 /\ Exists (fun l => l < 4) [3; 10].
Proof. split; [reflexivity|]. apply Exists_cons_hd. reflexivity. Qed.
Example exc_short_hyp2 : 0 < 9 /\ delivered exc_u < 9 /\ dr_read_io_chain exc_u [20; 20] 0 100 9 = Err.
Proof. vm_compute. repeat split; reflexivity. Qed.
(* final data together with EOF, three counters, fails after 6 bytes *)
Example exc_fail :
  dr_read_io_chain (mkU exc_data [2; 3] true (Some 6)) [9; 8; 9] 0 100 7 = Err /\
  dr_read_io_chain (mkU exc_data [2; 3] true (Some 6)) [9; 8; 9] 0 100 6 =
  OK (firstn 6 exc_data, mkU (skipn 6 exc_data) [] true (Some 0), [3; 2; 3], 6) /\
  dr_read_io_chain (mkU exc_data [2; 3] true None) [9; 8; 9] 0 100 8 =
  OK (exc_data, mkU [] [] true None, [1; 0; 1], 8).
Proof. vm_compute. repeat split; reflexivity. Qed.

(* schedule independence: byte-at-a-time against one-shot delivery, success and failure *)
Example exc_indep :
  u_fail_after exc_u = None /\ u_fail_after (one_shot exc_data) = None /\
  u_data exc_u = u_data (one_shot exc_data) /\
  dr_read_io_chain (one_shot exc_data) [3; 10] 0 3 3 =
    OK (firstn 3 exc_data, one_shot (skipn 3 exc_data), [0; 7], 3) /\
  dr_read_io_chain (one_shot exc_data) [3; 10] 0 100 4 = Err.
Proof. vm_compute. repeat split; reflexivity. Qed.

(* the Reader.v side: NewDecodingReader(8 bytes, scope 10), SubScope(3), read 3 / read 4 *)
Definition exc_st0 := fst (new_reader exc_data 10).
Definition exc_d0 := snd (new_reader exc_data 10).
Example exc_reader :
  exists st1 d1,
    dr_sub_scope exc_st0 exc_d0 3 = OK (st1, d1) /\
    NoDup (d_chain d1) /\ Forall (fun idx => (idx < length (r_lims st1))%nat) (d_chain d1) /\
    map (lim_get st1) (d_chain d1) = [3; 10] /\ u_data exc_u = r_stream st1 /\
    dr_read st1 d1 4 = Err /\
    exists st2 d2, dr_read st1 d1 3 = OK (firstn 3 exc_data, st2, d2) /\
                   map (lim_get st2) (d_chain d1) = [0; 7] /\ d_i d2 = 3.
Proof.
  eexists _, _. split; [vm_compute; reflexivity|]. cbn [d_chain r_lims length].
  split; [constructor; [intros [H|[]]; discriminate|constructor; [intros []|constructor]]|].
  split; [repeat constructor|].
  split; [vm_compute; reflexivity|]. split; [vm_compute; reflexivity|].
  split; [vm_compute; reflexivity|].
  eexists _, _. split; [vm_compute; reflexivity|]. split; vm_compute; reflexivity.
Qed.
