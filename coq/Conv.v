(* Conv.v — model of conv/numbers.go, conv/bytes.go and the text/JSON methods of the basic
   views (view/basic.go, view/u256.go, view/root.go, view/small_byte_vec.go, tree/root.go).
   Definitions only.  strconv.ParseUint (base 0), strconv.underscoreOK and
   math/big nat.scan / Int.scan / setFromScanner are *transcribed* from the installed Go
   sources (go1.23): they are modelled, not verified (trusted base). Text = list of bytes. *)
From Ztyp Require Import Base.
Open Scope N_scope.

Inductive cres (A : Type) :=
| COk (a : A) | CSyntax | CRange | CEmpty | CQuote | COther.
Arguments COk {A} a.
Arguments CSyntax {A}. Arguments CRange {A}. Arguments CEmpty {A}.
Arguments CQuote {A}. Arguments COther {A}.

Definition ch (b : byte) : N := N_of_byte b.
Definition c_0 : N := 48.  Definition c_9 : N := 57.
Definition c_a : N := 97.  Definition c_z : N := 122.
Definition c_A : N := 65.  Definition c_Z : N := 90.
Definition c_us : N := 95. Definition c_quote : N := 34.
Definition c_minus : N := 45. Definition c_plus : N := 43.
Definition lower (c : N) : N := N.lor c 32.

(* ---- decimal printing: strconv.AppendUint(_, v, 10), fmt "%d" ---- *)
Fixpoint print_dec_fuel (fuel : nat) (n : N) (acc : list byte) : list byte :=
  match fuel with
  | O => acc
  | S f => let acc' := byte_of_N (c_0 + n mod 10) :: acc in
           if n / 10 =? 0 then acc' else print_dec_fuel f (n / 10) acc'
  end.
Definition print_dec (n : N) : list byte := print_dec_fuel (S (nat_of (N.size n))) n [].

(* ---- strconv.ParseUint(s, 0, bitSize) ---- *)
Definition max_u64 : N := two64 - 1.

(* underscoreOK(s0) *)
Fixpoint underscore_loop (s : list byte) (hex : bool) (saw : N) : bool :=
  (* saw: 94 '^', 48 '0', 95 '_', 33 '!' *)
  match s with
  | [] => negb (saw =? c_us)
  | b :: r =>
    let c := ch b in
    if ((c_0 <=? c) && (c <=? c_9)) || (hex && (c_a <=? lower c) && (lower c <=? 102)) then
      underscore_loop r hex c_0
    else if c =? c_us then
      if negb (saw =? c_0) then false else underscore_loop r hex c_us
    else if saw =? c_us then false
    else underscore_loop r hex 33
  end.
Definition underscore_ok (s : list byte) : bool :=
  let s := match s with
           | b :: r => if (ch b =? c_minus) || (ch b =? c_plus) then r else s
           | [] => s
           end in
  match s with
  | b0' :: b1 :: r =>
    if (ch b0' =? c_0) && ((lower (ch b1) =? 98) || (lower (ch b1) =? 111) || (lower (ch b1) =? 120))
    then underscore_loop r (lower (ch b1) =? 120) c_0
    else underscore_loop s false 94
  | _ => underscore_loop s false 94
  end.

(* the digit loop; result: value, or syntax/range error; [us] = an underscore was seen *)
Fixpoint parse_digits (s : list byte) (base cutoff max_val n : N) (us : bool) : cres (N * bool) :=
  match s with
  | [] => COk (n, us)
  | b :: r =>
    let c := ch b in
    if c =? c_us then parse_digits r base cutoff max_val n true else
    let d := if (c_0 <=? c) && (c <=? c_9) then Some (c - c_0)
             else if (c_a <=? lower c) && (lower c <=? c_z) then Some (lower c - c_a + 10)
             else None in
    match d with
    | None => CSyntax
    | Some d =>
      if base <=? d then CSyntax else
      if cutoff <=? n then CRange else
      let n' := n * base in              (* n < cutoff: no uint64 overflow *)
      let n1 := wrap64 (n' + d) in
      if (n1 <? n') || (max_val <? n1) then CRange else
      parse_digits r base cutoff max_val n1 us
    end
  end.

Definition parse_uint (s : list byte) (bit_size : N) : cres N :=
  match s with
  | [] => CSyntax
  | b :: r =>
    let '(base, body) :=
        if ch b =? c_0 then
          match r with
          | b1 :: r2 =>
            if (3 <=? N.of_nat (length s)) && (lower (ch b1) =? 98) then (2, r2)
            else if (3 <=? N.of_nat (length s)) && (lower (ch b1) =? 111) then (8, r2)
            else if (3 <=? N.of_nat (length s)) && (lower (ch b1) =? 120) then (16, r2)
            else (8, r)
          | [] => (8, r)
          end
        else (10, s) in
    let cutoff := max_u64 / base + 1 in
    let max_val := 2 ^ bit_size - 1 in
    match parse_digits body base cutoff max_val 0 false with
    | COk (n, us) => if us && negb (underscore_ok s) then CSyntax else COk n
    | CSyntax => CSyntax | CRange => CRange | CEmpty => CEmpty | CQuote => CQuote
    | COther => COther
    end
  end.

(* conv.uintUnmarshal: optional quotes, then ParseUint *)
Definition strip_quotes (b : list byte) : cres (list byte) :=
  match b with
  | [] => CEmpty
  | q :: r =>
    if ch q =? c_quote then
      match r with
      | [] => CQuote
      | _ => if ch (last r b0) =? c_quote then COk (removelast r) else CQuote
      end
    else COk b
  end.

Definition uint_unmarshal_json (b : list byte) (bit_size : N) : cres N :=
  match strip_quotes b with
  | COk body => parse_uint body bit_size
  | CEmpty => CEmpty | CQuote => CQuote | CSyntax => CSyntax | CRange => CRange
  | COther => COther
  end.
(* UintNView.UnmarshalText: ParseUint(string(b), 0, N) then the cast uintN(n) *)
Definition uint_unmarshal_text (b : list byte) (bit_size : N) : cres N :=
  match parse_uint b bit_size with
  | COk n => COk (n mod 2 ^ bit_size)
  | e => e
  end.
(* conv.UintNUnmarshal: *v = uintN(x) *)
Definition uint_unmarshal_json_cast (b : list byte) (bit_size : N) : cres N :=
  match uint_unmarshal_json b bit_size with
  | COk n => COk (n mod 2 ^ bit_size)
  | e => e
  end.

Definition uint_marshal_text (n : N) : list byte := print_dec n.
Definition uint_marshal_json (n : N) : list byte :=
  byte_of_N c_quote :: print_dec n ++ [byte_of_N c_quote].

(* ---- math/big: Int.UnmarshalText = setFromScanner(_, 0) ---- *)
Definition big_digit (c : N) : N :=
  if (c_0 <=? c) && (c <=? c_9) then c - c_0
  else if (c_a <=? c) && (c <=? c_z) then c - c_a + 10
  else if (c_A <=? c) && (c <=? c_Z) then c - c_A + 10
  else 63.

(* the main loop of nat.scan; returns (value, count, prev, invalSep, fully_consumed) *)
Fixpoint big_loop (s : list byte) (b value count prev : N) (inval : bool)
  : N * N * N * bool * bool :=
  match s with
  | [] => (value, count, prev, inval, true)
  | x :: r =>
    let c := ch x in
    if c =? c_us then
      big_loop r b value count c_us (inval || negb (prev =? c_0))
    else
      let d := big_digit c in
      if b <=? d then (value, count, prev, inval, false)     (* UnreadByte; break *)
      else big_loop r b (value * b + d) (count + 1) c_0 inval
  end.

(* nat.scan(r, 0, false) followed by "entire content must have been consumed" *)
Definition big_scan_nat (s : list byte) : option N :=
  let '(b, prefix, count0, prev0, body) :=
      match s with
      | x :: r =>
        if ch x =? c_0 then
          match r with
          | y :: r2 =>
            let c := ch y in
            if (c =? 98) || (c =? 66) then (2, 98, 0, c_0, r2)
            else if (c =? 111) || (c =? 79) then (8, 111, 0, c_0, r2)
            else if (c =? 120) || (c =? 88) then (16, 120, 0, c_0, r2)
            else (8, c_0, 0, c_0, r)
          | [] => (10, 0, 1, c_0, r)
          end
        else (10, 0, 0, 46, s)
      | [] => (10, 0, 0, 46, s)
      end in
  let '(value, count, prev, inval, consumed) := big_loop body b 0 count0 prev0 false in
  if inval || (prev =? c_us) then None else
  if count =? 0 then
    (if prefix =? c_0 then (if consumed then Some 0 else None) else None)
  else if consumed then Some value else None.

(* Int.scan: sign, then mantissa; result (negative?, magnitude) *)
Definition big_unmarshal (s : list byte) : option (bool * N) :=
  match s with
  | [] => None
  | x :: r =>
    let '(neg, body) := if ch x =? c_minus then (true, r)
                        else if ch x =? c_plus then (false, r) else (false, s) in
    match big_scan_nat body with
    | Some v => Some (neg && negb (v =? 0), v)
    | None => None
    end
  end.

Definition two256 : N := 2 ^ 256.
(* Uint256View.UnmarshalText *)
Definition u256_unmarshal_text (s : list byte) : cres N :=
  match big_unmarshal s with
  | None => COther
  | Some (neg, v) => if neg then CRange else if two256 <=? v then CRange else COk v
  end.
(* conv.Uint256Unmarshal *)
Definition u256_unmarshal_json (b : list byte) : cres N :=
  match strip_quotes b with
  | COk body => u256_unmarshal_text body
  | CEmpty => CEmpty | CQuote => CQuote | CSyntax => CSyntax | CRange => CRange
  | COther => COther
  end.

(* ---- hex ---- *)
Definition hex_char (d : N) : byte := byte_of_N (if d <? 10 then c_0 + d else c_a + d - 10).
Definition hex_encode (bs : list byte) : list byte :=
  flat_map (fun b => [hex_char (N_of_byte b / 16); hex_char (N_of_byte b mod 16)]) bs.
(* conv.BytesMarshalText *)
Definition bytes_marshal_text (bs : list byte) : list byte :=
  byte_of_N c_0 :: byte_of_N 120 :: hex_encode bs.

Definition hex_val (c : N) : option N :=
  if (c_0 <=? c) && (c <=? c_9) then Some (c - c_0)
  else if (c_a <=? c) && (c <=? 102) then Some (c - c_a + 10)
  else if (c_A <=? c) && (c <=? 70) then Some (c - c_A + 10)
  else None.
Fixpoint hex_decode (s : list byte) : option (list byte) :=
  match s with
  | [] => Some []
  | x :: y :: r =>
    match hex_val (ch x), hex_val (ch y), hex_decode r with
    | Some a, Some b, Some rest => Some (byte_of_N (16 * a + b) :: rest)
    | _, _, _ => None
    end
  | [_] => None
  end.
Definition strip_0x (text : list byte) : list byte :=
  match text with
  | x :: y :: r => if (ch x =? c_0) && ((ch y =? 120) || (ch y =? 88)) then r else text
  | _ => text
  end.
(* conv.FixedBytesUnmarshalText(dst, text) with len(dst) = k: the decoded bytes, or an error *)
Definition fixed_bytes_unmarshal (k : N) (text : list byte) : option (list byte) :=
  let t := strip_0x text in
  if negb (N.of_nat (length t) =? 2 * k) then None else hex_decode t.
