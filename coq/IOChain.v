(* IOChain.v — the byte-level I/O model of IO.v for a CHAIN of nested io.LimitReaders (C13).
   Definitions only; each one is IO.v's definition with the single limit counter replaced by
   the list of the counters of the nested LimitedReaders, innermost first.

   Go: NewDecodingReader wraps the input in io.LimitReader(scope); SubScope(count) wraps the
   parent's input in another io.LimitReader(count).  A read through a sub-scope therefore goes
   through a chain of LimitedReaders, each of which does
       if l.N <= 0 { return 0, EOF }
       if int64(len(p)) > l.N { p = p[0:l.N] }
       n, err = l.R.Read(p); l.N -= int64(n); return
   where l.R is the next (outer) LimitedReader, and finally the underlying io.Reader
   ([ureader] / [u_read] of IO.v). *)
From Ztyp Require Import Base IO.
Open Scope N_scope.

(* LimitedReader.Read through the chain [lims] of counters (innermost first); the empty
   chain is the underlying reader itself *)
Fixpoint lrs_read (u : ureader) (lims : list N) (req : N)
  : list byte * rerr * ureader * list N :=
  match lims with
  | [] => let '(bs, e, u') := u_read u req in (bs, e, u', [])
  | lim :: rest =>
    if lim =? 0 then ([], REof, u, lim :: rest) else
    let req' := N.min req lim in
    let '(bs, e, u', rest') := lrs_read u rest req' in
    (bs, e, u', lim - N.of_nat (length bs) :: rest')
  end.

(* the fill loop of DecodingReader.Read (after checkedIndexUpdate):
     for n < len(p) { v, err := input.Read(p[n:]); n += v; if err != nil { ... } }        *)
Fixpoint dr_fill_chain (fuel : nat) (u : ureader) (lims : list N) (need : N) (acc : list byte)
  : list byte * rerr * ureader * list N :=
  if need =? 0 then (acc, RNone, u, lims) else
  match fuel with
  | O => (acc, RFail, u, lims)
  | S f =>
    let '(bs, e, u', lims') := lrs_read u lims need in
    let acc' := acc ++ bs in
    let need' := need - N.of_nat (length bs) in
    match e with
    | RNone => dr_fill_chain f u' lims' need' acc'
    | REof => if need' =? 0 then (acc', RNone, u', lims') else (acc', REof, u', lims')
    | RFail => (acc', RFail, u', lims')
    end
  end.

(* dr.Read(p) on a reader with index i, bound max and the chain [lims] of limit counters *)
Definition dr_read_io_chain (u : ureader) (lims : list N) (i mx : N) (k : N)
  : res (list byte * ureader * list N * N) :=
  if k =? 0 then OK ([], u, lims, i) else
  if two64 - 1 - i <? k then Err else
  if mx <? i + k then Err else
  let '(bs, e, u', lims') := dr_fill_chain (S (nat_of k)) u lims k [] in
  match e with
  | RNone => OK (bs, u', lims', i + k)
  | _ => Err
  end.
