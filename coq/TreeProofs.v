(* TreeProofs.v — proofs for property C11 (tree navigation, path-copying writes, expansion of
   zero summaries, summarisation) about the model files Tree.v and Heap.v.

   ==== small specification vocabulary used by Props/C11.v ====

   Paths are [list bool] (false = left), as produced by [g_path].

   [diverges p q]      p and q share a prefix c and then take different branches
                       (equivalently: neither is a prefix of the other, [diverges_iff]).
   [hits_leaf n p]     walking p from n meets a Leaf while at least one bit of p is still
                       to be consumed ("navigating through a missing position").
   [replace_at n p v]  pure functional spec of a write on a fully present path.
   [root_subst H n p c] the Merkle root of n after the subtree at p got root c
                       (recomputes the hashes along p only).
   [zero_tree d]       the fully materialised zero subtree of height d.
   [zt zh d n]         n is a zero subtree of height d: the summary leaf [zh d] or a pair of
                       zero subtrees of height d-1 (same as Repr.ztree).
   [zsum zh h n m]     n and m (both standing at height h above the bottom level of the
                       path) are the same tree up to expanding, in m, zero-summary leaves
                       [Leaf (zh k)] standing at height k into zero subtrees of height k.

   Heap vocabulary:
   [heap_ext h h']     every cell of h is present, bit-identical, in h'; hp_next grows.
   [heap_wf h]         cells exactly below hp_next; children of a pair are older cells.
   [zeros_ok zh h]     the shared zero leaves &ZeroHashes[d] sit at [zero_addr d], d <= 64.
   [habs h a n]        cell a of heap h stands for the pure tree n (fuel-free form of h_abs,
                       see [habs_h_abs] / [h_abs_habs]). *)
From Coq Require Import FMapPositive PArith.
From Ztyp Require Import Base Bitlen Tree Types View Mut Heap BitlenProofs.
Open Scope N_scope.

(* ------------------------------------------------------------------------------------- *)
(* spec definitions                                                                      *)
(* ------------------------------------------------------------------------------------- *)

Definition diverges (p q : list bool) : Prop :=
  exists c b p1 q1, p = c ++ b :: p1 /\ q = c ++ negb b :: q1.

Definition is_prefix (p q : list bool) : Prop := exists r, q = p ++ r.

Fixpoint hits_leaf (n : node) (p : list bool) {struct p} : Prop :=
  match p with
  | [] => False
  | b :: p' => match n with
               | Leaf _ => True
               | Pair l r => hits_leaf (if b then r else l) p'
               end
  end.

Fixpoint replace_at (n : node) (p : list bool) (v : node) {struct p} : option node :=
  match p with
  | [] => Some v
  | b :: p' =>
    match n with
    | Leaf _ => None
    | Pair l r =>
      if b then option_map (fun r' => Pair l r') (replace_at r p' v)
      else option_map (fun l' => Pair l' r) (replace_at l p' v)
    end
  end.

Fixpoint root_subst (H : chunk -> chunk -> chunk) (n : node) (p : list bool) (c : chunk)
  {struct p} : chunk :=
  match p with
  | [] => c
  | b :: p' =>
    match n with
    | Leaf x => x
    | Pair l r =>
      if b then H (root_of H l) (root_subst H r p' c)
      else H (root_subst H l p' c) (root_of H r)
    end
  end.

Definition zero_tree (d : nat) : node := fill_to_depth (Leaf zero_chunk) d.

Inductive zt (zh : nat -> chunk) : nat -> node -> Prop :=
| zt_leaf d : zt zh d (Leaf (zh d))
| zt_pair d a b : zt zh d a -> zt zh d b -> zt zh (S d) (Pair a b).

Inductive zsum (zh : nat -> chunk) : nat -> node -> node -> Prop :=
| zs_refl h n : zsum zh h n n
| zs_zero h m : zt zh h m -> zsum zh h (Leaf (zh h)) m
| zs_pair h l r l' r' : zsum zh h l l' -> zsum zh h r r' ->
                        zsum zh (S h) (Pair l r) (Pair l' r').

(* ------------------------------------------------------------------------------------- *)
(* generic list facts                                                                    *)
(* ------------------------------------------------------------------------------------- *)

Lemma diverges_sym p q : diverges p q -> diverges q p.
Proof.
  intros (c & b & p1 & q1 & -> & ->). exists c, (negb b), q1, p1.
  rewrite Bool.negb_involutive. auto.
Qed.

Lemma diverges_cons b p q : diverges p q -> diverges (b :: p) (b :: q).
Proof.
  intros (c & b' & p1 & q1 & -> & ->). exists (b :: c), b', p1, q1. auto.
Qed.

Lemma diverges_iff p q : diverges p q <-> ~ is_prefix p q /\ ~ is_prefix q p.
Proof.
  split.
  - intros (c & b & p1 & q1 & -> & ->). split; intros [r Hr].
    + rewrite <- app_assoc in Hr. apply app_inv_head in Hr. simpl in Hr.
      injection Hr as Hb _. destruct b; discriminate.
    + rewrite <- app_assoc in Hr. apply app_inv_head in Hr. simpl in Hr.
      injection Hr as Hb _. destruct b; discriminate.
  - revert q. induction p as [|a p IH]; intros q [Hpq Hqp].
    + exfalso. apply Hpq. exists q. reflexivity.
    + destruct q as [|a' q].
      * exfalso. apply Hqp. exists (a :: p). reflexivity.
      * destruct (Bool.bool_dec a a') as [->|Hne].
        -- apply diverges_cons. apply IH. split; intros [r Hr].
           ++ apply Hpq. exists r. simpl. now rewrite Hr.
           ++ apply Hqp. exists r. simpl. now rewrite Hr.
        -- exists [], a, p, q. split; [reflexivity|]. simpl.
           destruct a, a'; try reflexivity; now elim Hne.
Qed.

Lemma same_length_diverges p : forall q, length p = length q -> p <> q -> diverges p q.
Proof.
  intros q Hlen Hne. apply diverges_iff. split; intros [r Hr].
  - assert (r = []) as ->.
    { apply length_zero_iff_nil. rewrite Hr, app_length in Hlen. lia. }
    rewrite app_nil_r in Hr. congruence.
  - assert (r = []) as ->.
    { apply length_zero_iff_nil. rewrite Hr, app_length in Hlen. lia. }
    rewrite app_nil_r in Hr. congruence.
Qed.

(* ------------------------------------------------------------------------------------- *)
(* get_path                                                                              *)
(* ------------------------------------------------------------------------------------- *)

(* get_path is structurally recursive on the node: unfolding lemmas for a variable node *)
Lemma get_path_nil n : get_path n [] = OK n.
Proof. destruct n; reflexivity. Qed.

Lemma get_path_pair l r b p : get_path (Pair l r) (b :: p) = get_path (if b then r else l) p.
Proof. reflexivity. Qed.

Lemma get_path_app n p : forall q m,
  get_path n p = OK m -> get_path n (p ++ q) = get_path m q.
Proof.
  revert n. induction p as [|b p IH]; intros n q m Hg.
  - rewrite get_path_nil in Hg. now injection Hg as ->.
  - destruct n as [c|l r]; [discriminate|]. simpl in *. now apply IH.
Qed.

Lemma get_path_total n p : get_path n p <> Panic.
Proof.
  revert n. induction p as [|b p IH]; intros n.
  - rewrite get_path_nil. discriminate.
  - destruct n as [c|l r]; simpl; [discriminate|]. apply IH.
Qed.

Lemma get_path_missing c b p : get_path (Leaf c) (b :: p) = Err.
Proof. reflexivity. Qed.

Lemma get_path_err_iff n p : get_path n p = Err <-> hits_leaf n p.
Proof.
  revert n. induction p as [|b p IH]; intros n.
  - rewrite get_path_nil. simpl. split; [discriminate|tauto].
  - destruct n as [c|l r]; simpl; [tauto|]. apply IH.
Qed.

Lemma get_path_ok_iff n p : (exists m, get_path n p = OK m) <-> ~ hits_leaf n p.
Proof.
  rewrite <- get_path_err_iff. pose proof (get_path_total n p) as Ht.
  destruct (get_path n p) as [m| |]; split.
  - discriminate.
  - eauto.
  - intros [m Hm]. discriminate.
  - congruence.
  - congruence.
  - congruence.
Qed.

(* the walk meets a leaf early exactly when some proper prefix of p leads to a Leaf *)
Lemma hits_leaf_iff n p :
  hits_leaf n p <-> exists c b r x, p = c ++ b :: r /\ get_path n c = OK (Leaf x).
Proof.
  revert n. induction p as [|b p IH]; intros n.
  - simpl. split; [tauto|]. intros (c & b & r & x & Hp & _). destruct c; discriminate.
  - destruct n as [x|l r]; simpl.
    + split; [|tauto]. intros _. exists [], b, p, x. auto.
    + rewrite IH. split.
      * intros (c & b' & r' & x & -> & Hg). exists (b :: c), b', r', x. auto.
      * intros (c & b' & r' & x & Hp & Hg). destruct c as [|b0 c]; [discriminate|].
        simpl in Hp. injection Hp as -> ->. exists c, b', r', x. auto.
Qed.

(* ------------------------------------------------------------------------------------- *)
(* set_path                                                                              *)
(* ------------------------------------------------------------------------------------- *)

Section Pure.
Variable zh : nat -> chunk.

Lemma chunk_eqb_true a b : chunk_eqb a b = true <-> a = b.
Proof. unfold chunk_eqb. destruct (list_eq_dec Byte.byte_eq_dec a b); split; congruence. Qed.

Lemma chunk_eqb_refl a : chunk_eqb a a = true.
Proof. now apply chunk_eqb_true. Qed.

Lemma chunk_eqb_false a b : chunk_eqb a b = false <-> a <> b.
Proof. unfold chunk_eqb. destruct (list_eq_dec Byte.byte_eq_dec a b); split; congruence. Qed.

(* one step of set_path: the children that the walk continues with *)
Definition step_children (n : node) (k : nat) (e : bool) : res (node * node) :=
  match n with
  | Pair l r => OK (l, r)
  | Leaf c =>
    if e then
      if chunk_eqb c (zh (S k)) then
        do z <- zero_node zh (N.of_nat k); OK (z, z)
      else Err
    else Err
  end.

Lemma set_path_cons n b p e v :
  set_path zh n (b :: p) e v =
  do lr <- step_children n (length p) e;
  let '(l, r) := lr in
  if b then do r' <- set_path zh r p e v; OK (Pair l r')
  else do l' <- set_path zh l p e v; OK (Pair l' r).
Proof. reflexivity. Qed.

Lemma step_children_ok n k e l r :
  step_children n k e = OK (l, r) ->
  n = Pair l r \/
  (e = true /\ n = Leaf (zh (S k)) /\ (k <= 64)%nat /\ l = Leaf (zh k) /\ r = Leaf (zh k)).
Proof.
  destruct n as [c|l0 r0]; simpl.
  - destruct e; [|discriminate].
    destruct (chunk_eqb c (zh (S k))) eqn:Ec; [|discriminate].
    apply chunk_eqb_true in Ec. unfold zero_node.
    destruct (N.of_nat k <=? 64) eqn:Ek; [|discriminate]. simpl.
    intros Heq. injection Heq as <- <-. right.
    apply N.leb_le in Ek. unfold nat_of. rewrite Nnat.Nat2N.id.
    repeat split; auto; try lia. now subst.
  - intros Heq. injection Heq as -> ->. now left.
Qed.

Lemma step_children_pair l r k e : step_children (Pair l r) k e = OK (l, r).
Proof. reflexivity. Qed.

(* 1. read-back *)
Lemma get_set_same p : forall n e v n',
  set_path zh n p e v = OK n' -> get_path n' p = OK v.
Proof.
  induction p as [|b p IH]; intros n e v n' Hs.
  - simpl in Hs. rewrite get_path_nil. congruence.
  - rewrite set_path_cons in Hs.
    destruct (step_children n (length p) e) as [[l r]| |]; simpl in Hs; try discriminate.
    destruct b.
    + destruct (set_path zh r p e v) as [r'| |] eqn:Er; simpl in Hs; try discriminate.
      injection Hs as <-. simpl. eauto.
    + destruct (set_path zh l p e v) as [l'| |] eqn:El; simpl in Hs; try discriminate.
      injection Hs as <-. simpl. eauto.
Qed.

(* positions below the written one are read from the written node *)
Lemma get_set_below p q n e v n' :
  set_path zh n p e v = OK n' -> get_path n' (p ++ q) = get_path v q.
Proof. intros Hs. apply get_path_app. eapply get_set_same; eauto. Qed.

(* 2. off-path positions keep the identical node *)
Lemma get_set_off_path_gen c : forall n b p1 q1 e v n' m,
  set_path zh n (c ++ b :: p1) e v = OK n' ->
  get_path n (c ++ negb b :: q1) = OK m ->
  get_path n' (c ++ negb b :: q1) = OK m.
Proof.
  induction c as [|a c IH]; intros n b p1 q1 e v n' m Hs Hg.
  - simpl app in *. rewrite set_path_cons in Hs.
    simpl in Hg. destruct n as [x|l r]; [discriminate|].
    rewrite step_children_pair in Hs. simpl in Hs.
    destruct b; simpl in *.
    + destruct (set_path zh r p1 e v) as [r'| |]; simpl in Hs; try discriminate.
      injection Hs as <-. exact Hg.
    + destruct (set_path zh l p1 e v) as [l'| |]; simpl in Hs; try discriminate.
      injection Hs as <-. exact Hg.
  - simpl app in *. rewrite set_path_cons in Hs.
    simpl in Hg. destruct n as [x|l r]; [discriminate|].
    rewrite step_children_pair in Hs. simpl in Hs.
    destruct a.
    + destruct (set_path zh r (c ++ b :: p1) e v) as [r'| |] eqn:Er; simpl in Hs; try discriminate.
      injection Hs as <-. simpl. eauto.
    + destruct (set_path zh l (c ++ b :: p1) e v) as [l'| |] eqn:El; simpl in Hs; try discriminate.
      injection Hs as <-. simpl. eauto.
Qed.

Lemma get_set_off_path n p q e v n' m :
  diverges p q ->
  set_path zh n p e v = OK n' -> get_path n q = OK m -> get_path n' q = OK m.
Proof. intros (c & b & p1 & q1 & -> & ->). apply get_set_off_path_gen. Qed.

(* without expansion the two trees agree off the path as results (including errors) *)
Lemma get_set_off_path_noexp_gen c : forall n b p1 q1 v n',
  set_path zh n (c ++ b :: p1) false v = OK n' ->
  get_path n' (c ++ negb b :: q1) = get_path n (c ++ negb b :: q1).
Proof.
  induction c as [|a c IH]; intros n b p1 q1 v n' Hs.
  - simpl app in *. rewrite set_path_cons in Hs.
    destruct n as [x|l r]; [discriminate|].
    rewrite step_children_pair in Hs. simpl in Hs.
    destruct b; simpl in *.
    + destruct (set_path zh r p1 false v) as [r'| |]; simpl in Hs; try discriminate.
      injection Hs as <-. reflexivity.
    + destruct (set_path zh l p1 false v) as [l'| |]; simpl in Hs; try discriminate.
      injection Hs as <-. reflexivity.
  - simpl app in *. rewrite set_path_cons in Hs.
    destruct n as [x|l r]; [discriminate|].
    rewrite step_children_pair in Hs. simpl in Hs.
    destruct a.
    + destruct (set_path zh r (c ++ b :: p1) false v) as [r'| |] eqn:Er; simpl in Hs; try discriminate.
      injection Hs as <-. simpl. eauto.
    + destruct (set_path zh l (c ++ b :: p1) false v) as [l'| |] eqn:El; simpl in Hs; try discriminate.
      injection Hs as <-. simpl. eauto.
Qed.

Lemma get_set_off_path_noexp n p q v n' :
  diverges p q ->
  set_path zh n p false v = OK n' -> get_path n' q = get_path n q.
Proof. intros (c & b & p1 & q1 & -> & ->). apply get_set_off_path_noexp_gen. Qed.

(* 3. totality / errors of set_path *)
Lemma set_path_noexp_cases p : forall n v,
  (hits_leaf n p /\ set_path zh n p false v = Err) \/
  (~ hits_leaf n p /\ exists n', set_path zh n p false v = OK n').
Proof.
  induction p as [|b p IH]; intros n v.
  - right. simpl. split; [tauto|eauto].
  - rewrite set_path_cons. destruct n as [x|l r]; simpl.
    + left. auto.
    + destruct b.
      * destruct (IH r v) as [[Hh ->]|[Hh [r' ->]]]; simpl; [left|right]; eauto.
      * destruct (IH l v) as [[Hh ->]|[Hh [l' ->]]]; simpl; [left|right]; eauto.
Qed.

Lemma set_path_noexp_err_iff n p v : set_path zh n p false v = Err <-> hits_leaf n p.
Proof.
  destruct (set_path_noexp_cases p n v) as [[Hh Hs]|[Hh [n' Hs]]]; rewrite Hs; split;
    intros; try tauto; discriminate.
Qed.

Lemma set_path_noexp_ok_iff n p v :
  (exists n', set_path zh n p false v = OK n') <-> ~ hits_leaf n p.
Proof.
  destruct (set_path_noexp_cases p n v) as [[Hh Hs]|[Hh [n' Hs]]]; rewrite Hs; split.
  - intros [n' Hn']. discriminate.
  - tauto.
  - tauto.
  - eauto.
Qed.

Lemma set_path_noexp_total n p v : set_path zh n p false v <> Panic.
Proof.
  destruct (set_path_noexp_cases p n v) as [[Hh Hs]|[Hh [n' Hs]]]; rewrite Hs; discriminate.
Qed.

Lemma set_path_total p : forall n e v, (length p <= 65)%nat -> set_path zh n p e v <> Panic.
Proof.
  induction p as [|b p IH]; intros n e v Hlen.
  - discriminate.
  - simpl length in Hlen. rewrite set_path_cons.
    assert (Hst : step_children n (length p) e <> Panic).
    { destruct n as [x|l r]; simpl; [|discriminate]. destruct e; [|discriminate].
      destruct (chunk_eqb x (zh (S (length p)))); [|discriminate].
      unfold zero_node. destruct (N.of_nat (length p) <=? 64) eqn:E; simpl; [discriminate|].
      apply N.leb_gt in E. lia. }
    destruct (step_children n (length p) e) as [[l r]| |]; simpl; try congruence.
    destruct b.
    + pose proof (IH r e v ltac:(lia)).
      destruct (set_path zh r p e v); simpl; congruence.
    + pose proof (IH l e v ltac:(lia)).
      destruct (set_path zh l p e v); simpl; congruence.
Qed.

(* on a present position the expand flag is irrelevant *)
Lemma set_path_expand_irrelevant p : forall n e v x,
  get_path n p = OK x -> set_path zh n p e v = set_path zh n p false v.
Proof.
  induction p as [|b p IH]; intros n e v x Hg.
  - reflexivity.
  - destruct n as [c|l r]; [discriminate|]. rewrite get_path_pair in Hg.
    rewrite !set_path_cons, !step_children_pair. cbn [bind].
    destruct b; now rewrite (IH _ e v x Hg).
Qed.

(* expansion refuses a leaf that is not the zero summary of its height *)
Lemma set_path_expand_refuses c b p v :
  c <> zh (S (length p)) -> set_path zh (Leaf c) (b :: p) true v = Err.
Proof.
  intros Hc. rewrite set_path_cons. simpl.
  apply chunk_eqb_false in Hc. now rewrite Hc.
Qed.

(* 4. functional spec of a non-expanding write *)
Lemma set_path_replace_eq p : forall n v,
  set_path zh n p false v = match replace_at n p v with Some x => OK x | None => Err end.
Proof.
  induction p as [|b p IH]; intros n v.
  - reflexivity.
  - rewrite set_path_cons. destruct n as [x|l r]; simpl; [reflexivity|].
    destruct b.
    + rewrite IH. destruct (replace_at r p v); reflexivity.
    + rewrite IH. destruct (replace_at l p v); reflexivity.
Qed.

Lemma set_path_replace_at p n v n' :
  set_path zh n p false v = OK n' <-> replace_at n p v = Some n'.
Proof.
  rewrite set_path_replace_eq. destruct (replace_at n p v); split; congruence.
Qed.

(* ---- 5. expansion equivalence ---- *)

(* one step of the simulation: n (summarised) against m = Pair l' r' (materialised) *)
Lemma zsum_step k n l' r' l r :
  zsum zh (S k) n (Pair l' r') -> step_children n k true = OK (l, r) ->
  zsum zh k l l' /\ zsum zh k r r'.
Proof.
  intros Hz Hst. inversion Hz as [h0 n0 Eh En Em|h0 m0 Hzt Eh En Em|h0 l0 r0 l0' r0' Hl Hr Eh En Em];
    subst.
  - rewrite step_children_pair in Hst. injection Hst as <- <-. split; apply zs_refl.
  - inversion Hzt as [d0 Ed Ec|d0 a0 c0 Ha Hc Ed Ec]; subst.
    apply step_children_ok in Hst. destruct Hst as [Hst|(_ & _ & _ & -> & ->)]; [discriminate|].
    split; now apply zs_zero.
  - rewrite step_children_pair in Hst. injection Hst as <- <-. auto.
Qed.

Lemma zsum_step_ok k n l' r' :
  zsum zh (S k) n (Pair l' r') -> (k <= 64)%nat -> exists l r, step_children n k true = OK (l, r).
Proof.
  intros Hz Hk. inversion Hz as [h0 n0 Eh En Em|h0 m0 Hzt Eh En Em|h0 l0 r0 l0' r0' Hl Hr Eh En Em];
    subst.
  - eexists _, _. reflexivity.
  - simpl. rewrite chunk_eqb_refl. unfold zero_node.
    replace (N.of_nat k <=? 64) with true by (symmetry; apply N.leb_le; lia).
    eexists _, _. reflexivity.
  - eexists _, _. reflexivity.
Qed.

(* the simulation: an expanding write into the summarised tree n is matched by a plain write
   into any materialisation m of n in which the position exists, and the results are again
   related *)
Lemma set_expand_sim p : forall h n m v x n',
  zsum zh h n m -> length p = h -> get_path m p = OK x ->
  set_path zh n p true v = OK n' ->
  exists m', set_path zh m p false v = OK m' /\ zsum zh h n' m'.
Proof.
  induction p as [|b p IH]; intros h n m v x n' Hz Hlen Hg Hs.
  - simpl in *. injection Hs as <-. exists v. split; [reflexivity|]. apply zs_refl.
  - simpl in Hlen. subst h. destruct m as [y|l' r']; [discriminate|].
    rewrite get_path_pair in Hg. rewrite set_path_cons in Hs.
    destruct (step_children n (length p) true) as [[l r]| |] eqn:Est; cbn [bind] in Hs;
      try discriminate.
    destruct (zsum_step _ _ _ _ _ _ Hz Est) as [Hl Hr].
    rewrite set_path_cons, step_children_pair. cbn [bind].
    destruct b.
    + destruct (set_path zh r p true v) as [r1| |] eqn:Er; cbn [bind] in Hs; try discriminate.
      injection Hs as <-.
      destruct (IH _ _ _ _ _ _ Hr eq_refl Hg Er) as (r2 & Hr2 & Hz2).
      rewrite Hr2. cbn [bind]. eexists. split; [reflexivity|]. now apply zs_pair.
    + destruct (set_path zh l p true v) as [l1| |] eqn:El; cbn [bind] in Hs; try discriminate.
      injection Hs as <-.
      destruct (IH _ _ _ _ _ _ Hl eq_refl Hg El) as (l2 & Hl2 & Hz2).
      rewrite Hl2. cbn [bind]. eexists. split; [reflexivity|]. now apply zs_pair.
Qed.

(* ... and the expanding write does succeed (paths of at most 65 bits: the zero table) *)
Lemma set_expand_succeeds p : forall h n m v x,
  zsum zh h n m -> length p = h -> (h <= 65)%nat -> get_path m p = OK x ->
  exists n', set_path zh n p true v = OK n'.
Proof.
  induction p as [|b p IH]; intros h n m v x Hz Hlen Hh Hg.
  - simpl. eauto.
  - simpl in Hlen. subst h. destruct m as [y|l' r']; [discriminate|].
    rewrite get_path_pair in Hg. rewrite set_path_cons.
    destruct (zsum_step_ok _ _ _ _ Hz ltac:(lia)) as (l & r & Est).
    destruct (zsum_step _ _ _ _ _ _ Hz Est) as [Hl Hr]. rewrite Est. cbn [bind].
    destruct b.
    + destruct (IH _ _ _ v _ Hr eq_refl ltac:(lia) Hg) as [r1 ->]. cbn [bind]. eauto.
    + destruct (IH _ _ _ v _ Hl eq_refl ltac:(lia) Hg) as [l1 ->]. cbn [bind]. eauto.
Qed.

Lemma zero_tree_get p : forall d, length p = d -> get_path (zero_tree d) p = OK (Leaf zero_chunk).
Proof.
  induction p as [|b p IH]; intros d Hd; subst d.
  - reflexivity.
  - simpl length. unfold zero_tree. simpl fill_to_depth. rewrite get_path_pair.
    destruct b; now apply IH.
Qed.


End Pure.

(* ---- facts about Merkle roots ---- *)
Section Roots.
Variable H : chunk -> chunk -> chunk.
Variable zh : nat -> chunk.

(* the root after a write only recomputes the hashes along the path *)
Lemma replace_at_root p : forall n v n',
  replace_at n p v = Some n' -> root_of H n' = root_subst H n p (root_of H v).
Proof.
  induction p as [|b p IH]; intros n v n' Hr; simpl in *.
  - now injection Hr as <-.
  - destruct n as [x|l r]; [discriminate|]. destruct b.
    + destruct (replace_at r p v) as [r'|] eqn:Er; [|discriminate].
      injection Hr as <-. simpl. now rewrite (IH _ _ _ Er).
    + destruct (replace_at l p v) as [l'|] eqn:El; [|discriminate].
      injection Hr as <-. simpl. now rewrite (IH _ _ _ El).
Qed.

Lemma set_path_root n p v n' :
  set_path zh n p false v = OK n' -> root_of H n' = root_subst H n p (root_of H v).
Proof. intros Hs. apply replace_at_root. now apply (set_path_replace_at zh). Qed.

Lemma root_subst_id p : forall n m,
  get_path n p = OK m -> root_subst H n p (root_of H m) = root_of H n.
Proof.
  induction p as [|b p IH]; intros n m Hg.
  - rewrite get_path_nil in Hg. now injection Hg as <-.
  - destruct n as [x|l r]; [discriminate|]. simpl in *.
    destruct b; simpl; now rewrite (IH _ _ Hg).
Qed.

(* 6. summarising a position preserves the Merkle root *)
Lemma summarize_root n g n' :
  summarize zh H n g = OK n' -> root_of H n' = root_of H n.
Proof.
  unfold summarize, setter, getter. destruct n as [x|l r].
  - destruct (g =? 1); [|discriminate]. now intros [= <-].
  - generalize (Pair l r) as n. intros n.
    destruct (set_path zh n (g_path g) false n); cbn [bind]; try discriminate.
    destruct (get_path n (g_path g)) as [sub| |] eqn:Eg; cbn [bind]; try discriminate.
    intros Hs. rewrite (set_path_root _ _ _ _ Hs). cbn [root_of].
    now apply root_subst_id.
Qed.

Hypothesis Hzh : forall d, zh d = zero_hash H d.

Lemma zero_tree_root d : root_of H (zero_tree d) = zh d.
Proof.
  rewrite Hzh. unfold zero_tree. induction d as [|d IH]; simpl; [reflexivity|].
  now rewrite IH.
Qed.

Lemma zt_root d n : zt zh d n -> root_of H n = zh d.
Proof.
  induction 1 as [d|d a b Ha IHa Hb IHb]; simpl; [reflexivity|].
  rewrite IHa, IHb, !Hzh. reflexivity.
Qed.

Lemma zero_tree_zt d : zt zh d (zero_tree d).
Proof.
  unfold zero_tree. induction d as [|d IH]; simpl.
  - replace zero_chunk with (zh 0) by (now rewrite Hzh). constructor.
  - now constructor.
Qed.

Lemma zsum_root h n m : zsum zh h n m -> root_of H n = root_of H m.
Proof.
  induction 1 as [h n|h m Hz|h l r l' r' Hl IHl Hr IHr]; simpl.
  - reflexivity.
  - symmetry. now apply zt_root.
  - now rewrite IHl, IHr.
Qed.

Lemma set_expand_equiv h n m p v x n' :
  zsum zh h n m -> length p = h -> get_path m p = OK x ->
  set_path zh n p true v = OK n' ->
  exists m', set_path zh m p false v = OK m' /\ root_of H n' = root_of H m'.
Proof.
  intros Hz Hl Hg Hs. destruct (set_expand_sim zh _ _ _ _ _ _ _ Hz Hl Hg Hs) as (m' & Hm & Hz').
  exists m'. split; [exact Hm|]. eapply zsum_root; eauto.
Qed.

(* the headline instance: a zero summary against the fully materialised zero subtree *)
Lemma set_expand_zero_tree p v :
  (length p <= 65)%nat ->
  exists n' m', set_path zh (Leaf (zh (length p))) p true v = OK n' /\
                set_path zh (zero_tree (length p)) p false v = OK m' /\
                root_of H n' = root_of H m'.
Proof.
  intros Hlen.
  assert (Hz : zsum zh (length p) (Leaf (zh (length p))) (zero_tree (length p))).
  { apply zs_zero. apply zero_tree_zt. }
  pose proof (zero_tree_get p _ eq_refl) as Hg.
  destruct (set_expand_succeeds zh _ _ _ _ v _ Hz eq_refl Hlen Hg) as [n' Hn'].
  destruct (set_expand_equiv _ _ _ _ _ _ _ Hz eq_refl Hg Hn') as (m' & Hm' & Hr).
  eauto.
Qed.

End Roots.

(* ------------------------------------------------------------------------------------- *)
(* 7. generalized-index form                                                             *)
(* ------------------------------------------------------------------------------------- *)

Lemma g_path_length d i : d < 64 -> i < 2 ^ d -> length (g_path (2 ^ d + i)) = N.to_nat d.
Proof. intros Hd Hi. rewrite g_path_spec by assumption. now rewrite map_length, seq_length. Qed.

Lemma g_path_inj d i j : d < 64 -> i < 2 ^ d -> j < 2 ^ d ->
  g_path (2 ^ d + i) = g_path (2 ^ d + j) -> i = j.
Proof.
  intros Hd Hi Hj Heq. rewrite !g_path_spec in Heq by assumption.
  apply N.bits_inj. intros k. destruct (N.lt_ge_cases k d) as [Hk|Hk].
  - set (idx := N.to_nat (d - 1 - k)).
    apply (f_equal (fun l => nth_error l idx)) in Heq.
    rewrite !nth_error_map in Heq.
    assert (Hn : nth_error (seq 0 (N.to_nat d)) idx = Some idx).
    { rewrite nth_error_nth' with (d := O) by (rewrite seq_length; unfold idx; lia).
      rewrite seq_nth by (unfold idx; lia). reflexivity. }
    rewrite Hn in Heq. simpl in Heq. injection Heq as Heq.
    replace (d - 1 - N.of_nat idx) with k in Heq by (unfold idx; lia). exact Heq.
  - rewrite (testbit_small i d k), (testbit_small j d k); auto.
Qed.

Lemma getter_setter_same zh n g e v n' : setter zh n g e v = OK n' -> getter n' g = OK v.
Proof. apply get_set_same. Qed.

Lemma getter_setter_other zh n d i j e v n' m :
  d < 64 -> i < 2 ^ d -> j < 2 ^ d -> i <> j ->
  setter zh n (2 ^ d + i) e v = OK n' ->
  getter n (2 ^ d + j) = OK m -> getter n' (2 ^ d + j) = OK m.
Proof.
  intros Hd Hi Hj Hne. apply get_set_off_path. apply same_length_diverges.
  - now rewrite !g_path_length.
  - intros Heq. apply Hne. eapply g_path_inj; eauto.
Qed.

(* ------------------------------------------------------------------------------------- *)
(* 8. the heap: path copying, sharing, the original stays intact                         *)
(* ------------------------------------------------------------------------------------- *)

Definition heap_ext (h h' : heap) : Prop :=
  (forall a c, h_cell h a = Some c -> h_cell h' a = Some c) /\
  (hp_next h <= hp_next h')%positive.

Definition heap_wf (h : heap) : Prop :=
  (forall a, (a < hp_next h)%positive -> exists c, h_cell h a = Some c) /\
  (forall a, (hp_next h <= a)%positive -> h_cell h a = None) /\
  (forall a memo l r, h_cell h a = Some (CPair memo l r) -> (l < a)%positive /\ (r < a)%positive).

Definition zeros_ok (zh : nat -> chunk) (h : heap) : Prop :=
  forall d, (d <= 64)%nat -> h_cell h (zero_addr d) = Some (CLeaf (zh d)).

Inductive habs (h : heap) : addr -> node -> Prop :=
| habs_leaf a c : h_cell h a = Some (CLeaf c) -> habs h a (Leaf c)
| habs_pair a memo l r x y : h_cell h a = Some (CPair memo l r) ->
    habs h l x -> habs h r y -> habs h a (Pair x y).

(* auxiliary: no cell at or above hp_next (the part of heap_wf that allocation needs) *)
Definition heap_fresh (h : heap) : Prop :=
  forall a, (hp_next h <= a)%positive -> h_cell h a = None.

Lemma heap_wf_fresh h : heap_wf h -> heap_fresh h.
Proof. intros (_ & Hf & _). exact Hf. Qed.

Lemma heap_wf_lt h a c : heap_wf h -> h_cell h a = Some c -> (a < hp_next h)%positive.
Proof.
  intros (_ & Hf & _) Hc. destruct (Pos.ltb_spec a (hp_next h)) as [Hlt|Hge]; [exact Hlt|].
  rewrite (Hf _ Hge) in Hc. discriminate.
Qed.

Lemma heap_ext_refl h : heap_ext h h.
Proof. split; [auto|apply Pos.le_refl]. Qed.

Lemma heap_ext_trans h1 h2 h3 : heap_ext h1 h2 -> heap_ext h2 h3 -> heap_ext h1 h3.
Proof. intros [A1 B1] [A2 B2]. split; [auto|]. eapply Pos.le_trans; eauto. Qed.

Lemma zeros_ok_ext zh h h' : heap_ext h h' -> zeros_ok zh h -> zeros_ok zh h'.
Proof. intros [A _] Hz d Hd. apply A. now apply Hz. Qed.

Lemma h_alloc_new h c : h_cell (snd (h_alloc h c)) (hp_next h) = Some c.
Proof. unfold h_alloc, h_cell. simpl. apply PositiveMap.gss. Qed.

Lemma h_alloc_old h c a : a <> hp_next h -> h_cell (snd (h_alloc h c)) a = h_cell h a.
Proof. intros Hne. unfold h_alloc, h_cell. simpl. apply PositiveMap.gso. exact Hne. Qed.

Lemma h_alloc_next h c : hp_next (snd (h_alloc h c)) = Pos.succ (hp_next h).
Proof. reflexivity. Qed.

Lemma h_pair_eq h l r : h_pair h l r = (hp_next h, snd (h_alloc h (CPair zero_chunk l r))).
Proof. reflexivity. Qed.

(* invert [OK (h_pair h1 l r) = OK (a', h')] keeping the new heap in the form [snd (h_alloc ..)] *)
Ltac inj_pair Hs :=
  rewrite h_pair_eq in Hs;
  match type of Hs with
  | OK (_, ?hh) = _ =>
    let h2 := fresh "h2" in let E := fresh "Eh2" in
    remember hh as h2 eqn:E; injection Hs as <- <-; subst h2
  end.

Lemma h_alloc_ext h c : heap_fresh h -> heap_ext h (snd (h_alloc h c)).
Proof.
  intros Hf. split.
  - intros a c0 Hc. rewrite h_alloc_old; [exact Hc|].
    intros ->. rewrite Hf in Hc; [discriminate|apply Pos.le_refl].
  - rewrite h_alloc_next. lia.
Qed.

Lemma h_alloc_fresh h c : heap_fresh h -> heap_fresh (snd (h_alloc h c)).
Proof.
  intros Hf a Ha. rewrite h_alloc_next in Ha. rewrite h_alloc_old by lia. apply Hf. lia.
Qed.

Lemma h_alloc_wf h c :
  heap_wf h ->
  (forall memo l r, c = CPair memo l r -> (l < hp_next h)%positive /\ (r < hp_next h)%positive) ->
  heap_wf (snd (h_alloc h c)).
Proof.
  intros (Hall & Hf & Hch) Hc. split; [|split].
  - intros a Ha. rewrite h_alloc_next in Ha.
    destruct (Pos.eq_dec a (hp_next h)) as [->|Hne].
    + rewrite h_alloc_new. eauto.
    + rewrite h_alloc_old by exact Hne. apply Hall. lia.
  - now apply h_alloc_fresh.
  - intros a memo l r Ha. destruct (Pos.eq_dec a (hp_next h)) as [->|Hne].
    + rewrite h_alloc_new in Ha. injection Ha as ->. eapply Hc; eauto.
    + rewrite h_alloc_old in Ha by exact Hne. eapply Hch; eauto.
Qed.

Lemma habs_ext h h' a n : heap_ext h h' -> habs h a n -> habs h' a n.
Proof.
  intros [A _]. induction 1 as [a c Hc|a memo l r x y Hc Hl IHl Hr IHr].
  - apply habs_leaf. auto.
  - eapply habs_pair; eauto.
Qed.

Lemma h_get_path_ext h h' q : forall a b,
  heap_ext h h' -> h_get_path h a q = OK b -> h_get_path h' a q = OK b.
Proof.
  induction q as [|d q IH]; intros a b He Hg; simpl in *.
  - exact Hg.
  - destruct (h_cell h a) as [[c|memo l r]|] eqn:Ec; try discriminate.
    destruct He as [A B]. rewrite (A _ _ Ec). apply IH; [split; auto|exact Hg].
Qed.

Section HeapSet.
Variable zh : nat -> chunk.

Definition h_step_children (h : heap) (a : addr) (k : nat) (e : bool) : res (addr * addr) :=
  match h_cell h a with
  | Some (CPair _ l r) => OK (l, r)
  | Some (CLeaf c) =>
    if e then
      if chunk_eqb c (zh (S k)) then
        if N.of_nat k <=? 64 then OK (zero_addr k, zero_addr k) else Panic
      else Err
    else Err
  | None => Panic
  end.

Lemma h_set_path_cons h a b p e v :
  h_set_path zh h a (b :: p) e v =
  do lr <- h_step_children h a (length p) e;
  let '(l, r) := lr in
  if b then do x <- h_set_path zh h r p e v; let '(r', h1) := x in OK (h_pair h1 l r')
  else do x <- h_set_path zh h l p e v; let '(l', h1) := x in OK (h_pair h1 l' r).
Proof. reflexivity. Qed.

Lemma h_step_children_pair h a memo l r k e :
  h_cell h a = Some (CPair memo l r) -> h_step_children h a k e = OK (l, r).
Proof. intros Hc. unfold h_step_children. now rewrite Hc. Qed.

(* the children handed out by a step are old cells *)
Lemma h_step_children_lt h a k e l r :
  heap_wf h -> (e = true -> zeros_ok zh h) ->
  h_step_children h a k e = OK (l, r) -> (l < hp_next h)%positive /\ (r < hp_next h)%positive.
Proof.
  intros Hwf Hz. unfold h_step_children.
  destruct (h_cell h a) as [[c|memo l0 r0]|] eqn:Ec; try discriminate.
  - destruct e; [|discriminate]. destruct (chunk_eqb c (zh (S k))); [|discriminate].
    destruct (N.of_nat k <=? 64) eqn:Ek; [|discriminate]. apply N.leb_le in Ek.
    intros Heq. injection Heq as <- <-.
    assert (Hlt : (zero_addr k < hp_next h)%positive).
    { eapply heap_wf_lt; [exact Hwf|]. apply (Hz eq_refl). lia. }
    auto.
  - intros Heq. injection Heq as <- <-.
    pose proof (heap_wf_lt _ _ _ Hwf Ec) as Ha.
    destruct Hwf as (_ & _ & Hch). destruct (Hch _ _ _ _ Ec) as [Hl Hr]. lia.
Qed.

(* the original is unchanged *)
Lemma h_set_path_ext p : forall h a e v a' h',
  heap_fresh h -> h_set_path zh h a p e v = OK (a', h') -> heap_ext h h' /\ heap_fresh h'.
Proof.
  induction p as [|b p IH]; intros h a e v a' h' Hf Hs.
  - simpl in Hs. injection Hs as <- <-. split; [apply heap_ext_refl|exact Hf].
  - rewrite h_set_path_cons in Hs.
    destruct (h_step_children h a (length p) e) as [[l r]| |]; cbn [bind] in Hs; try discriminate.
    destruct b.
    + destruct (h_set_path zh h r p e v) as [[r' h1]| |] eqn:Er; cbn [bind] in Hs; try discriminate.
      destruct (IH _ _ _ _ _ _ Hf Er) as [He1 Hf1].
      inj_pair Hs. split.
      * eapply heap_ext_trans; [exact He1|]. now apply h_alloc_ext.
      * now apply h_alloc_fresh.
    + destruct (h_set_path zh h l p e v) as [[l' h1]| |] eqn:El; cbn [bind] in Hs; try discriminate.
      destruct (IH _ _ _ _ _ _ Hf El) as [He1 Hf1].
      inj_pair Hs. split.
      * eapply heap_ext_trans; [exact He1|]. now apply h_alloc_ext.
      * now apply h_alloc_fresh.
Qed.

(* well-formedness is preserved and the new root is a cell of the new heap *)
Lemma h_set_path_wf p : forall h a e v a' h',
  heap_wf h -> (e = true -> zeros_ok zh h) -> (v < hp_next h)%positive ->
  h_set_path zh h a p e v = OK (a', h') -> heap_wf h' /\ (a' < hp_next h')%positive.
Proof.
  induction p as [|b p IH]; intros h a e v a' h' Hwf Hz Hv Hs.
  - simpl in Hs. injection Hs as <- <-. auto.
  - rewrite h_set_path_cons in Hs.
    destruct (h_step_children h a (length p) e) as [[l r]| |] eqn:Est; cbn [bind] in Hs;
      try discriminate.
    destruct (h_step_children_lt _ _ _ _ _ _ Hwf Hz Est) as [Hl Hr].
    destruct b.
    + destruct (h_set_path zh h r p e v) as [[r' h1]| |] eqn:Er; cbn [bind] in Hs; try discriminate.
      destruct (IH _ _ _ _ _ _ Hwf Hz Hv Er) as [Hwf1 Hr'].
      destruct (h_set_path_ext _ _ _ _ _ _ _ (heap_wf_fresh _ Hwf) Er) as [[_ Hle] _].
      inj_pair Hs. split.
      * apply h_alloc_wf; [exact Hwf1|]. intros memo l0 r0 Heq. injection Heq as _ <- <-.
        split; [lia|exact Hr'].
      * rewrite h_alloc_next. lia.
    + destruct (h_set_path zh h l p e v) as [[l' h1]| |] eqn:El; cbn [bind] in Hs; try discriminate.
      destruct (IH _ _ _ _ _ _ Hwf Hz Hv El) as [Hwf1 Hl'].
      destruct (h_set_path_ext _ _ _ _ _ _ _ (heap_wf_fresh _ Hwf) El) as [[_ Hle] _].
      inj_pair Hs. split.
      * apply h_alloc_wf; [exact Hwf1|]. intros memo l0 r0 Heq. injection Heq as _ <- <-.
        split; [exact Hl'|lia].
      * rewrite h_alloc_next. lia.
Qed.

(* read-back, by address *)
Lemma h_get_set_same p : forall h a e v a' h',
  heap_fresh h -> h_set_path zh h a p e v = OK (a', h') -> h_get_path h' a' p = OK v.
Proof.
  induction p as [|b p IH]; intros h a e v a' h' Hf Hs.
  - simpl in Hs. injection Hs as <- <-. reflexivity.
  - rewrite h_set_path_cons in Hs.
    destruct (h_step_children h a (length p) e) as [[l r]| |]; cbn [bind] in Hs; try discriminate.
    destruct b.
    + destruct (h_set_path zh h r p e v) as [[r' h1]| |] eqn:Er; cbn [bind] in Hs; try discriminate.
      destruct (h_set_path_ext _ _ _ _ _ _ _ Hf Er) as [_ Hf1].
      inj_pair Hs. cbn [h_get_path]. rewrite h_alloc_new.
      eapply h_get_path_ext; [now apply h_alloc_ext|]. exact (IH _ _ _ _ _ _ Hf Er).
    + destruct (h_set_path zh h l p e v) as [[l' h1]| |] eqn:El; cbn [bind] in Hs; try discriminate.
      destruct (h_set_path_ext _ _ _ _ _ _ _ Hf El) as [_ Hf1].
      inj_pair Hs. cbn [h_get_path]. rewrite h_alloc_new.
      eapply h_get_path_ext; [now apply h_alloc_ext|]. exact (IH _ _ _ _ _ _ Hf El).
Qed.

(* sharing: off-path positions hold the same ADDRESS *)
Lemma h_set_path_shares_gen c : forall h a b p1 q1 e v a' h' x,
  heap_fresh h ->
  h_set_path zh h a (c ++ b :: p1) e v = OK (a', h') ->
  h_get_path h a (c ++ negb b :: q1) = OK x ->
  h_get_path h' a' (c ++ negb b :: q1) = OK x.
Proof.
  induction c as [|d c IH]; intros h a b p1 q1 e v a' h' x Hf Hs Hg.
  - simpl app in *. rewrite h_set_path_cons in Hs. simpl in Hg.
    destruct (h_cell h a) as [[y|memo l r]|] eqn:Ec; try discriminate.
    rewrite (h_step_children_pair _ _ _ _ _ _ _ Ec) in Hs. cbn [bind] in Hs.
    destruct b; simpl negb in *.
    + destruct (h_set_path zh h r p1 e v) as [[r' h1]| |] eqn:Er; cbn [bind] in Hs; try discriminate.
      destruct (h_set_path_ext _ _ _ _ _ _ _ Hf Er) as [He1 Hf1].
      inj_pair Hs. cbn [h_get_path]. rewrite h_alloc_new.
      eapply h_get_path_ext; [|exact Hg].
      eapply heap_ext_trans; [exact He1|now apply h_alloc_ext].
    + destruct (h_set_path zh h l p1 e v) as [[l' h1]| |] eqn:El; cbn [bind] in Hs; try discriminate.
      destruct (h_set_path_ext _ _ _ _ _ _ _ Hf El) as [He1 Hf1].
      inj_pair Hs. cbn [h_get_path]. rewrite h_alloc_new.
      eapply h_get_path_ext; [|exact Hg].
      eapply heap_ext_trans; [exact He1|now apply h_alloc_ext].
  - simpl app in *. rewrite h_set_path_cons in Hs. simpl in Hg.
    destruct (h_cell h a) as [[y|memo l r]|] eqn:Ec; try discriminate.
    rewrite (h_step_children_pair _ _ _ _ _ _ _ Ec) in Hs. cbn [bind] in Hs.
    destruct d.
    + destruct (h_set_path zh h r (c ++ b :: p1) e v) as [[r' h1]| |] eqn:Er; cbn [bind] in Hs;
        try discriminate.
      destruct (h_set_path_ext _ _ _ _ _ _ _ Hf Er) as [He1 Hf1].
      inj_pair Hs. cbn [h_get_path]. rewrite h_alloc_new.
      eapply h_get_path_ext; [now apply h_alloc_ext|]. exact (IH _ _ _ _ _ _ _ _ _ _ Hf Er Hg).
    + destruct (h_set_path zh h l (c ++ b :: p1) e v) as [[l' h1]| |] eqn:El; cbn [bind] in Hs;
        try discriminate.
      destruct (h_set_path_ext _ _ _ _ _ _ _ Hf El) as [He1 Hf1].
      inj_pair Hs. cbn [h_get_path]. rewrite h_alloc_new.
      eapply h_get_path_ext; [now apply h_alloc_ext|]. exact (IH _ _ _ _ _ _ _ _ _ _ Hf El Hg).
Qed.

Lemma h_set_path_shares h a p q e v a' h' x :
  heap_fresh h -> diverges p q ->
  h_set_path zh h a p e v = OK (a', h') ->
  h_get_path h a q = OK x -> h_get_path h' a' q = OK x.
Proof. intros Hf (c & b & p1 & q1 & -> & ->). now apply h_set_path_shares_gen. Qed.

(* refinement of the pure model, one step *)
Lemma h_step_refines h a n k e :
  zeros_ok zh h -> habs h a n ->
  match h_step_children h a k e with
  | OK (l, r) => exists x y, step_children zh n k e = OK (x, y) /\ habs h l x /\ habs h r y
  | Err => step_children zh n k e = Err
  | Panic => step_children zh n k e = Panic
  end.
Proof.
  intros Hz Ha. unfold h_step_children.
  inversion Ha as [a0 c Hc|a0 memo l r x y Hc Hl Hr]; subst; rewrite Hc; simpl.
  - destruct e; [|reflexivity]. destruct (chunk_eqb c (zh (S k))); [|reflexivity].
    unfold zero_node. destruct (N.of_nat k <=? 64) eqn:Ek; [|reflexivity].
    apply N.leb_le in Ek. cbn [bind]. unfold nat_of. rewrite Nnat.Nat2N.id.
    assert (Hzk : habs h (zero_addr k) (Leaf (zh k))).
    { apply habs_leaf. apply Hz. lia. }
    eauto.
  - eauto.
Qed.

Lemma h_set_path_refines_res p : forall h a n e v nv,
  heap_fresh h -> zeros_ok zh h -> habs h a n -> habs h v nv ->
  match h_set_path zh h a p e v with
  | OK (a', h') => exists n', set_path zh n p e nv = OK n' /\ habs h' a' n'
  | Err => set_path zh n p e nv = Err
  | Panic => set_path zh n p e nv = Panic
  end.
Proof.
  induction p as [|b p IH]; intros h a n e v nv Hf Hz Ha Hv.
  - simpl. eauto.
  - rewrite h_set_path_cons, set_path_cons.
    pose proof (h_step_refines h a n (length p) e Hz Ha) as Hst.
    destruct (h_step_children h a (length p) e) as [[l r]| |].
    2:{ rewrite Hst. reflexivity. }
    2:{ rewrite Hst. reflexivity. }
    destruct Hst as (x & y & -> & Hl & Hr). cbn [bind].
    destruct b.
    + specialize (IH h r y e v nv Hf Hz Hr Hv).
      destruct (h_set_path zh h r p e v) as [[r' h1]| |] eqn:Er; cbn [bind].
      2:{ rewrite IH. reflexivity. }
      2:{ rewrite IH. reflexivity. }
      destruct IH as (rn & -> & Hrn). cbn [bind].
      destruct (h_set_path_ext _ _ _ _ _ _ _ Hf Er) as [He1 Hf1].
      rewrite h_pair_eq. eexists. split; [reflexivity|].
      pose proof (h_alloc_ext h1 (CPair zero_chunk l r') Hf1) as He2.
      eapply habs_pair.
      * apply h_alloc_new.
      * eapply habs_ext; [exact He2|]. eapply habs_ext; [exact He1|exact Hl].
      * eapply habs_ext; [exact He2|exact Hrn].
    + specialize (IH h l x e v nv Hf Hz Hl Hv).
      destruct (h_set_path zh h l p e v) as [[l' h1]| |] eqn:El; cbn [bind].
      2:{ rewrite IH. reflexivity. }
      2:{ rewrite IH. reflexivity. }
      destruct IH as (ln & -> & Hln). cbn [bind].
      destruct (h_set_path_ext _ _ _ _ _ _ _ Hf El) as [He1 Hf1].
      rewrite h_pair_eq. eexists. split; [reflexivity|].
      pose proof (h_alloc_ext h1 (CPair zero_chunk l' r) Hf1) as He2.
      eapply habs_pair.
      * apply h_alloc_new.
      * eapply habs_ext; [exact He2|exact Hln].
      * eapply habs_ext; [exact He2|]. eapply habs_ext; [exact He1|exact Hr].
Qed.

Lemma h_set_path_refines h a n p e v nv a' h' :
  heap_fresh h -> zeros_ok zh h -> habs h a n -> habs h v nv ->
  h_set_path zh h a p e v = OK (a', h') ->
  exists n', set_path zh n p e nv = OK n' /\ habs h' a' n'.
Proof.
  intros Hf Hz Ha Hv Hs.
  pose proof (h_set_path_refines_res p h a n e v nv Hf Hz Ha Hv) as Hr.
  rewrite Hs in Hr. exact Hr.
Qed.

End HeapSet.

(* habs is h_abs without the fuel *)
Lemma h_abs_habs fuel : forall h a n, h_abs fuel h a = Some n -> habs h a n.
Proof.
  induction fuel as [|f IH]; intros h a n Ha; simpl in Ha; [discriminate|].
  destruct (h_cell h a) as [[c|memo l r]|] eqn:Ec; try discriminate.
  - injection Ha as <-. now apply habs_leaf.
  - destruct (h_abs f h l) as [x|] eqn:El; [|discriminate].
    destruct (h_abs f h r) as [y|] eqn:Er; [|discriminate].
    injection Ha as <-. eapply habs_pair; eauto.
Qed.

Lemma habs_h_abs h a n :
  habs h a n -> exists f0, forall fuel, (f0 <= fuel)%nat -> h_abs fuel h a = Some n.
Proof.
  induction 1 as [a c Hc|a memo l r x y Hc Hl [f1 IHl] Hr [f2 IHr]].
  - exists 1%nat. intros [|f] Hf; [lia|]. simpl. now rewrite Hc.
  - exists (S (Nat.max f1 f2)). intros [|f] Hf; [lia|]. simpl. rewrite Hc.
    rewrite IHl, IHr by lia. reflexivity.
Qed.

Lemma habs_fun h a n1 : habs h a n1 -> forall n2, habs h a n2 -> n1 = n2.
Proof.
  induction 1 as [a c Hc|a memo l r x y Hc Hl IHl Hr IHr]; intros n2 Hn2;
    inversion Hn2 as [a0 c0 Hc0|a0 memo0 l0 r0 x0 y0 Hc0 Hl0 Hr0]; subst; rewrite Hc in Hc0.
  - now injection Hc0 as <-.
  - discriminate.
  - discriminate.
  - injection Hc0 as _ <- <-. f_equal; auto.
Qed.

(* in a well-formed heap every cell stands for a tree, and fuel = its address is enough *)
Lemma heap_wf_abs h : heap_wf h -> forall k a,
  (Pos.to_nat a <= k)%nat -> (a < hp_next h)%positive -> exists n, h_abs k h a = Some n.
Proof.
  intros Hwf. induction k as [|k IH]; intros a Hk Ha; [lia|].
  destruct Hwf as (Hall & Hf & Hch). destruct (Hall _ Ha) as [[c|memo l r] Hc]; simpl; rewrite Hc.
  - eauto.
  - destruct (Hch _ _ _ _ Hc) as [Hl Hr].
    destruct (IH l ltac:(lia) ltac:(lia)) as [x ->].
    destruct (IH r ltac:(lia) ltac:(lia)) as [y ->]. eauto.
Qed.

Lemma h_set_path_refines_fuel zh h a n p e v nv a' h' f1 f2 :
  heap_wf h -> zeros_ok zh h ->
  h_abs f1 h a = Some n -> h_abs f2 h v = Some nv ->
  h_set_path zh h a p e v = OK (a', h') ->
  exists n', set_path zh n p e nv = OK n' /\ h_abs (Pos.to_nat a') h' a' = Some n'.
Proof.
  intros Hwf Hz Ha Hv Hs.
  apply h_abs_habs in Ha. apply h_abs_habs in Hv.
  destruct (h_set_path_refines zh _ _ _ _ _ _ _ _ _ (heap_wf_fresh _ Hwf) Hz Ha Hv Hs)
    as (n' & Hn' & Habs).
  exists n'. split; [exact Hn'|].
  assert (Hvlt : (v < hp_next h)%positive).
  { inversion Hv; subst; eapply heap_wf_lt; eauto. }
  destruct (h_set_path_wf zh _ _ _ _ _ _ _ Hwf (fun _ => Hz) Hvlt Hs) as [Hwf' Ha'].
  destruct (heap_wf_abs _ Hwf' (Pos.to_nat a') a' (le_n _) Ha') as [n2 Hn2].
  rewrite Hn2. f_equal. apply h_abs_habs in Hn2.
  eapply habs_fun; eauto.
Qed.

(* ------------------------------------------------------------------------------------- *)
(* heap_init satisfies the heap hypotheses                                               *)
(* ------------------------------------------------------------------------------------- *)

Section HeapInit.
Variable zh : nat -> chunk.

Definition heap0 : heap := mkHeap 1%positive (PositiveMap.empty cell).

Lemma heap0_wf : heap_wf heap0.
Proof.
  split; [|split].
  - intros a Ha. simpl in Ha. lia.
  - intros a _. unfold h_cell. simpl. apply PositiveMap.gempty.
  - intros a memo l r Hc. unfold h_cell in Hc. simpl in Hc.
    rewrite PositiveMap.gempty in Hc. discriminate.
Qed.

Lemma init_cells_spec k :
  hp_next (init_cells zh k heap0) = Pos.of_succ_nat k /\
  heap_wf (init_cells zh k heap0) /\
  forall d, (d < k)%nat -> h_cell (init_cells zh k heap0) (zero_addr d) = Some (CLeaf (zh d)).
Proof.
  induction k as [|k (IHn & IHwf & IHc)].
  - split; [reflexivity|]. split; [apply heap0_wf|]. intros d Hd. lia.
  - cbn [init_cells]. split; [|split].
    + rewrite h_alloc_next, IHn. reflexivity.
    + apply h_alloc_wf; [exact IHwf|]. intros memo l r Heq. discriminate.
    + intros d Hd. destruct (PeanoNat.Nat.eq_dec d k) as [->|Hne].
      * unfold zero_addr. rewrite <- IHn. apply h_alloc_new.
      * rewrite h_alloc_old; [apply IHc; lia|].
        rewrite IHn. unfold zero_addr. intros Heq. apply SuccNat2Pos.inj in Heq. contradiction.
Qed.

Lemma heap_init_wf : heap_wf (heap_init zh).
Proof.
  unfold heap_init. fold heap0. destruct (init_cells_spec 65) as (_ & Hwf & _).
  apply h_alloc_wf; [exact Hwf|]. intros memo l r Heq. discriminate.
Qed.

Lemma heap_init_zeros_ok : zeros_ok zh (heap_init zh).
Proof.
  unfold heap_init. fold heap0. destruct (init_cells_spec 65) as (Hn & Hwf & Hc).
  intros d Hd. rewrite h_alloc_old; [apply Hc; lia|].
  rewrite Hn. unfold zero_addr. intros Heq. apply SuccNat2Pos.inj in Heq. lia.
Qed.

End HeapInit.

(* ------------------------------------------------------------------------------------- *)
(* Examples: the hypotheses of the C11 theorems are satisfiable by non-trivial inputs     *)
(* ------------------------------------------------------------------------------------- *)

(* a toy hash and its zero-hash table *)
Definition xH (a b : chunk) : chunk :=
  pad32 [byte_of_N (3 * N_of_byte (hd b0 a) + 5 * N_of_byte (hd b0 b) + 7)].
Definition xzh : nat -> chunk := zero_hash xH.
Definition xc (k : N) : chunk := pad32 [byte_of_N k].

Example ex_xzh : forall d, xzh d = zero_hash xH d.
Proof. reflexivity. Qed.

(* a tree of height 2 with a zero summary (height 1) on the left *)
Definition ex_n : node := Pair (Leaf (xzh 1)) (Pair (Leaf (xc 1)) (Leaf (xc 2))).
Definition ex_m : node := Pair (Pair (Leaf (xzh 0)) (Leaf (xzh 0))) (Pair (Leaf (xc 1)) (Leaf (xc 2))).

Example ex_set_noexp :
  set_path xzh ex_n [true; false] false (Leaf (xc 9)) =
  OK (Pair (Leaf (xzh 1)) (Pair (Leaf (xc 9)) (Leaf (xc 2)))).
Proof. vm_compute. reflexivity. Qed.

Example ex_diverges : diverges [true; false] [false].
Proof. exists [], true, [false], []. split; reflexivity. Qed.

Example ex_get_off : get_path ex_n [false] = OK (Leaf (xzh 1)).
Proof. reflexivity. Qed.

Example ex_hits_leaf : hits_leaf ex_n [false; true] /\ get_path ex_n [false; true] = Err /\
  set_path xzh ex_n [false; true] false (Leaf (xc 9)) = Err.
Proof. repeat split. Qed.

Example ex_replace_at :
  replace_at ex_n [true; false] (Leaf (xc 9)) =
  Some (Pair (Leaf (xzh 1)) (Pair (Leaf (xc 9)) (Leaf (xc 2)))).
Proof. reflexivity. Qed.

Example ex_zsum : zsum xzh 2 ex_n ex_m.
Proof.
  unfold ex_n, ex_m. apply zs_pair; [|apply zs_refl].
  apply zs_zero. apply zt_pair; apply zt_leaf.
Qed.

Example ex_set_expand :
  length [false; true] = 2%nat /\
  get_path ex_m [false; true] = OK (Leaf (xzh 0)) /\
  set_path xzh ex_n [false; true] true (Leaf (xc 9)) =
    OK (Pair (Pair (Leaf (xzh 0)) (Leaf (xc 9))) (Pair (Leaf (xc 1)) (Leaf (xc 2)))).
Proof. split; [reflexivity|]. split; [reflexivity|]. vm_compute. reflexivity. Qed.

Example ex_expand_refuses : xc 1 <> xzh (S (length [true])).
Proof. vm_compute. discriminate. Qed.

Example ex_summarize :
  summarize xzh xH ex_n 3 = OK (Pair (Leaf (xzh 1)) (Leaf (xH (xc 1) (xc 2)))).
Proof. vm_compute. reflexivity. Qed.

Example ex_gindex : setter xzh ex_n (2 ^ 2 + 2) false (Leaf (xc 9)) =
  OK (Pair (Leaf (xzh 1)) (Pair (Leaf (xc 9)) (Leaf (xc 2)))) /\
  getter ex_n (2 ^ 2 + 3) = OK (Leaf (xc 2)) /\ (2 < 64) /\ (2 < 2 ^ 2) /\ (3 < 2 ^ 2) /\ 2 <> 3.
Proof. split; [vm_compute; reflexivity|]. split; [vm_compute; reflexivity|]. lia. Qed.

(* a heap: the process-wide cells plus one pair (zero summary of height 1, trueRoot) at 67 *)
Definition ex_heap : heap := snd (h_pair (heap_init xzh) (zero_addr 1) true_addr).
Definition ex_root : addr := 67%positive.

Example ex_heap_ok : heap_wf ex_heap /\ zeros_ok xzh ex_heap /\ (true_addr < hp_next ex_heap)%positive.
Proof.
  split; [|split].
  - unfold ex_heap. rewrite h_pair_eq. cbn [snd]. apply h_alloc_wf; [apply heap_init_wf|].
    intros memo l r Heq. injection Heq as _ <- <-. split; vm_compute; reflexivity.
  - eapply zeros_ok_ext; [|apply heap_init_zeros_ok].
    unfold ex_heap. rewrite h_pair_eq. cbn [snd]. apply h_alloc_ext. apply heap_wf_fresh, heap_init_wf.
  - vm_compute. reflexivity.
Qed.

Example ex_heap_set :
  is_ok (h_set_path xzh ex_heap ex_root [false; true] true true_addr) = true /\
  h_get_path ex_heap ex_root [true] = OK true_addr /\
  h_abs 2 ex_heap ex_root = Some (Pair (Leaf (xzh 1)) (Leaf true_chunk)) /\
  h_abs 1 ex_heap true_addr = Some (Leaf true_chunk).
Proof. repeat split; vm_compute; reflexivity. Qed.

(* ------------------------------------------------------------------------------------- *)
(* heap theorems in the form used by Props/C11.v (hypothesis heap_wf)                     *)
(* ------------------------------------------------------------------------------------- *)

Lemma h_abs_ext fuel : forall h h' a n,
  heap_ext h h' -> h_abs fuel h a = Some n -> h_abs fuel h' a = Some n.
Proof.
  induction fuel as [|f IH]; intros h h' a n He Ha; simpl in *; [discriminate|].
  destruct (h_cell h a) as [[c|memo l r]|] eqn:Ec; try discriminate.
  - destruct He as [A _]. now rewrite (A _ _ Ec).
  - destruct (h_abs f h l) as [x|] eqn:El; [|discriminate].
    destruct (h_abs f h r) as [y|] eqn:Er; [|discriminate].
    pose proof He as [A _]. rewrite (A _ _ Ec), (IH _ _ _ _ He El), (IH _ _ _ _ He Er). exact Ha.
Qed.

Lemma heap_set_original zh h a p e v a' h' :
  heap_wf h -> h_set_path zh h a p e v = OK (a', h') -> heap_ext h h'.
Proof. intros Hwf Hs. eapply h_set_path_ext; [apply heap_wf_fresh; exact Hwf|exact Hs]. Qed.

Lemma heap_set_wf zh h a p e v a' h' :
  heap_wf h -> zeros_ok zh h -> (v < hp_next h)%positive ->
  h_set_path zh h a p e v = OK (a', h') ->
  heap_ext h h' /\ heap_wf h' /\ zeros_ok zh h' /\ (a' < hp_next h')%positive.
Proof.
  intros Hwf Hz Hv Hs. pose proof (heap_set_original _ _ _ _ _ _ _ _ Hwf Hs) as He.
  destruct (h_set_path_wf zh _ _ _ _ _ _ _ Hwf (fun _ => Hz) Hv Hs) as [Hwf' Ha'].
  split; [exact He|]. split; [exact Hwf'|].
  split; [eapply zeros_ok_ext; eauto|exact Ha'].
Qed.

Lemma heap_set_old_tree zh h a p e v a' h' :
  heap_wf h -> h_set_path zh h a p e v = OK (a', h') ->
  (forall b c, h_cell h b = Some c -> h_cell h' b = Some c) /\
  (forall b q x, h_get_path h b q = OK x -> h_get_path h' b q = OK x) /\
  (forall fuel b n, h_abs fuel h b = Some n -> h_abs fuel h' b = Some n).
Proof.
  intros Hwf Hs. pose proof (heap_set_original _ _ _ _ _ _ _ _ Hwf Hs) as He.
  split; [apply He|]. split.
  - intros b q x. now apply h_get_path_ext.
  - intros fuel b n. now apply h_abs_ext.
Qed.

Lemma heap_get_set_same zh h a p e v a' h' :
  heap_wf h -> h_set_path zh h a p e v = OK (a', h') -> h_get_path h' a' p = OK v.
Proof. intros Hwf Hs. eapply h_get_set_same; [apply heap_wf_fresh; exact Hwf|exact Hs]. Qed.

Lemma heap_set_shares zh h a c b p1 q1 e v a' h' x :
  heap_wf h ->
  h_set_path zh h a (c ++ b :: p1) e v = OK (a', h') ->
  h_get_path h a (c ++ negb b :: q1) = OK x ->
  h_get_path h' a' (c ++ negb b :: q1) = OK x.
Proof. intros Hwf. apply h_set_path_shares_gen. now apply heap_wf_fresh. Qed.

Lemma heap_set_refines zh h a n p e v nv :
  heap_wf h -> zeros_ok zh h -> habs h a n -> habs h v nv ->
  match h_set_path zh h a p e v with
  | OK (a', h') => exists n', set_path zh n p e nv = OK n' /\ habs h' a' n'
  | Err => set_path zh n p e nv = Err
  | Panic => set_path zh n p e nv = Panic
  end.
Proof. intros Hwf. apply h_set_path_refines_res. now apply heap_wf_fresh. Qed.

Lemma heap_wf_abs_total h a :
  heap_wf h -> (a < hp_next h)%positive -> exists n, h_abs (Pos.to_nat a) h a = Some n.
Proof. intros Hwf Ha. eapply heap_wf_abs; eauto. Qed.

Lemma habs_iff_h_abs h a n : habs h a n <-> exists fuel, h_abs fuel h a = Some n.
Proof.
  split.
  - intros Ha. destruct (habs_h_abs _ _ _ Ha) as [f0 Hf]. exists f0. apply Hf. lia.
  - intros [fuel Hf]. eapply h_abs_habs; eauto.
Qed.
