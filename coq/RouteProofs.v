(* RouteProofs.v — corollaries that combine the per-topic developments into the statements
   the properties make about *routes*: a view obtained by deserialization or by a history
   of mutations from the default has the spec root, the spec serialization and the
   component values (C01 routes "deserialization" and "chain of mutations", C02 second
   sentence, C04 observables). *)
From Ztyp Require Import Base Tree Types Spec Reader View Mut VMach Repr.
From Ztyp Require Import ReprProofs SerProofs DecodeProofs MutProofs SizeProofs.
Open Scope N_scope.

Section Routes.
Variable H : chunk -> chunk -> chunk.
Variable zh : nat -> chunk.
Hypothesis Hzh : forall d, zh d = zero_hash H d.

Lemma zh0 : zh 0%nat = zero_chunk.
Proof. rewrite Hzh. reflexivity. Qed.

(* deserializing the encoding of a value: a view with the spec root, the same encoding,
   the same byte length and, through the typed getters, the same components *)
Lemma deser_route :
  forall t v,
    wf_ty t = true -> small_params t = true -> sizes_ok t = true -> small_fields t = true ->
    has_type v t = true -> lenN (spec_ser t v) < 2 ^ 32 ->
    exists n,
      view_deserialize zh t (spec_ser t v) = OK n /\
      ser_node t n = OK (spec_ser t v) /\
      byte_len t n = OK (lenN (spec_ser t v)) /\
      (forall fuel, (ty_depth t <= fuel)%nat -> read_val fuel t n = OK v) /\
      (no_bool_seq t = true -> root_of H n = spec_htr H t v).
Proof.
  intros t v Hwf Hsp Hsz Hsf Hty Hlen.
  destruct (deser_complete zh zh0 t v Hwf Hsp Hsz Hsf Hty Hlen) as [n [Hd Hr]].
  exists n. split; [exact Hd|].
  split; [eapply ser_node_spec; eassumption|].
  split.
  - eapply byte_len_spec; try eassumption.
    eapply N.lt_trans; [exact Hlen|]. reflexivity.
  - split.
    + intros fuel Hf. eapply read_val_spec; eassumption.
    + intros Hnb. eapply repr_root; eassumption.
Qed.

(* whatever the decoder accepts is the encoding of a value whose spec root the view has *)
Lemma deser_accept_route :
  forall t bs n,
    wf_ty t = true -> small_params t = true -> sizes_ok t = true -> small_fields t = true ->
    lenN bs < 2 ^ 32 -> leaf_ok t (lenN bs) ->
    view_deserialize zh t bs = OK n ->
    exists v, has_type v t = true /\ bs = spec_ser t v /\
              ser_node t n = OK bs /\
              (no_bool_seq t = true -> root_of H n = spec_htr H t v).
Proof.
  intros t bs n Hwf Hsp Hsz Hsf Hlen Hleaf Hd.
  destruct (deser_canonical zh zh0 t bs n Hwf Hsp Hsz Hsf Hlen Hleaf Hd) as [v [Hty [Hbs Hr]]].
  exists v. split; [exact Hty|]. split; [exact Hbs|].
  split.
  - rewrite Hbs. eapply ser_node_spec; try eassumption. rewrite <- Hbs. exact Hlen.
  - intros Hnb. eapply repr_root; eassumption.
Qed.

(* a history of mutations from a representing start state: every handle, in particular the
   root view, has the spec root / serialization / components of the plain value that went
   through the same history *)
Lemma history_route :
  forall t n v os,
    ty_ok t -> has_type v t = true -> repr zh t n v ->
    srcs_ok (v_init t v) os ->
    forall k x y,
      nth_error (m_handles node unit (tm_run zh (tm_init t n) os)) k = Some x ->
      nth_error (v_run (v_init t v) os) k = Some y ->
      h_ty node x = vh_ty y /\
      (no_bool_seq (vh_ty y) = true ->
       root_of H (h_back node x) = spec_htr H (vh_ty y) (vh_val y)) /\
      (lenN (spec_ser (vh_ty y) (vh_val y)) < 2 ^ 32 ->
       ser_node (vh_ty y) (h_back node x) = OK (spec_ser (vh_ty y) (vh_val y))) /\
      (forall fuel, (ty_depth (vh_ty y) <= fuel)%nat ->
       read_val fuel (vh_ty y) (h_back node x) = OK (vh_val y)).
Proof.
  intros t n v os Hok Hty Hr Hsrc k x y Hx Hy.
  pose proof (R_init zh t n v Hok Hty Hr) as HR0.
  destruct (history_ok H zh Hzh os _ _ HR0 Hsrc) as [HR _].
  destruct HR as [HF _].
  assert (Hrel : hrel zh x y).
  { clear - HF Hx Hy.
    revert k Hx Hy. induction HF as [|a b l l' Hab HF IH]; intros k Hx Hy.
    - destruct k; discriminate.
    - destruct k as [|k]; cbn in Hx, Hy.
      + inversion Hx; inversion Hy; subst; exact Hab.
      + eapply IH; eassumption. }
  destruct Hrel as [Ht [_ [[Hwf [Hsp Hsf]] [Hty' Hrepr]]]].
  split; [exact Ht|].
  split; [intros Hnb; eapply repr_root; eassumption|].
  split; [intros Hl; eapply ser_node_spec; eassumption|].
  intros fuel Hf. eapply read_val_spec; eassumption.
Qed.

End Routes.

(* ---- C13 at decoder level: a stream that ends before the declared scope is satisfied never
   yields a value (the reader model with fewer bytes in the stream than the scope) ---- *)
Section ShortStream.
Variable zh : nat -> chunk.

Lemma avail_top_le_stream : forall bs scope,
  avail (fst (new_reader bs scope)) (d_chain (snd (new_reader bs scope))) <= lenN bs.
Proof.
  intros bs scope. unfold new_reader, avail, lim_get. cbn.
  apply N.le_min_r.
Qed.

Lemma short_stream_decode :
  forall t delivered scope,
    wf_ty t = true -> small_params t = true -> sizes_ok t = true ->
    scope < 2 ^ 32 -> leaf_ok t scope ->
    lenN delivered < scope ->
    view_deserialize_scoped zh t delivered scope = Err.
Proof.
  intros t delivered scope Hwf Hsp Hsz Hsc Hleaf Hshort.
  unfold view_deserialize_scoped.
  destruct (new_reader delivered scope) as [st d] eqn:Hnr.
  destruct (view_deser zh t st d) as [[n st']| |] eqn:Hd; cbn.
  - exfalso.
    assert (Hst : st = fst (new_reader delivered scope)) by (rewrite Hnr; reflexivity).
    assert (Hdd : d = snd (new_reader delivered scope)) by (rewrite Hnr; reflexivity).
    assert (Hrinv : rinv st d).
    { subst st d. unfold new_reader, rinv, chain_ok. cbn.
      split; [split; [repeat constructor; intros []|repeat constructor]|].
      split; [apply N.le_0_l|exact Hsc]. }
    assert (Hscope : dr_scope d = scope).
    { subst d. unfold new_reader, dr_scope. cbn. apply N.sub_0_r. }
    destruct (deser_local zh t st d n st' Hwf Hsp Hsz Hrinv) as [Hav _].
    { rewrite Hscope. exact Hleaf. }
    { exact Hd. }
    rewrite Hscope in Hav.
    pose proof (avail_top_le_stream delivered scope) as Hle.
    rewrite <- Hst, <- Hdd in Hle.
    eapply N.lt_irrefl. eapply N.le_lt_trans; [|exact Hshort].
    eapply N.le_trans; eassumption.
  - reflexivity.
  - exfalso. eapply view_deser_no_panic. exact Hd.
Qed.
End ShortStream.
