(* IOProofs.v — proofs about the byte-level I/O model IO.v (property C13).

   Small spec definitions used in the statements of Props/C13.v:
   * [lenN l]       (BitfieldsProofs) the length of a list as an [N];
   * [nofail u]     the underlying reader never reports a failure ([u_fail_after u = None]);
   * [delivered u]  the number of bytes the underlying reader hands out before it ends or
                    fails: all its data, or the first [f] bytes if it fails after [f] bytes;
   * [sumN l]       the sum of a list of numbers;
   * [step_rel u j u']  "u' is u after handing out its next j bytes": the data of u' is the
                    data of u without its first j bytes, the failure countdown has decreased by
                    j, the eof-with-data flag is unchanged, the chunk schedule of u' is a
                    suffix of that of u.

   Contents
     1. list helpers
     2. one Read of the underlying reader / of io.LimitReader
     3. the fill loop: soundness (any reader) and completeness (non-failing reader)
     4. C13_fill_spec
     5. dr_read_io: exact characterisation, schedule independence, relation to Reader.dr_read
     6. short / failing streams
     7. the writer
     8. Examples *)
From Ztyp Require Import Base Reader IO BitfieldsProofs.
Open Scope N_scope.

Definition nofail (u : ureader) : Prop := u_fail_after u = None.

Definition delivered (u : ureader) : N :=
  match u_fail_after u with
  | None => lenN (u_data u)
  | Some f => N.min f (lenN (u_data u))
  end.

Definition sumN (l : list N) : N := fold_right N.add 0 l.

Definition step_rel (u : ureader) (j : N) (u' : ureader) : Prop :=
  j <= lenN (u_data u) /\
  u_data u' = skipn (nat_of j) (u_data u) /\
  u_fail_after u' = option_map (fun f => f - j) (u_fail_after u) /\
  (forall f, u_fail_after u = Some f -> j <= f) /\
  u_eof_with_data u' = u_eof_with_data u /\
  exists n, u_chunks u' = skipn n (u_chunks u).

(* ------------------------------------------------------------------------------------ *)
(** * 1. list helpers *)

Lemma skipn_skipn' {A} : forall a b (l : list A), skipn b (skipn a l) = skipn (a + b) l.
Proof.
  induction a as [|a IH]; intros b l; [reflexivity|].
  destruct l as [|x l]; [now rewrite !skipn_nil|]. cbn [skipn Nat.add]. apply IH.
Qed.

Lemma firstn_add {A} : forall a b (l : list A),
  firstn (a + b) l = firstn a l ++ firstn b (skipn a l).
Proof.
  induction a as [|a IH]; intros b l; [reflexivity|].
  destruct l as [|x l]; [now rewrite !firstn_nil|].
  cbn [skipn Nat.add firstn app]. now rewrite IH.
Qed.

Lemma lenN_skipn {A} n (l : list A) : lenN (skipn n l) = lenN l - N.of_nat n.
Proof. unfold lenN. rewrite skipn_length. lia. Qed.

Lemma lenN_firstn_le {A} (j : N) (l : list A) :
  j <= lenN l -> N.of_nat (length (firstn (nat_of j) l)) = j.
Proof. unfold lenN, nat_of. intros H. rewrite firstn_length. lia. Qed.

Lemma nat_of_add a b : nat_of (a + b) = (nat_of a + nat_of b)%nat.
Proof. unfold nat_of. lia. Qed.

(* ------------------------------------------------------------------------------------ *)
(** * 2. one Read of the underlying reader and of the LimitReader *)

Lemma step_rel_refl u : step_rel u 0 u.
Proof.
  unfold step_rel. repeat split.
  - lia.
  - destruct (u_fail_after u); cbn [option_map]; [f_equal; lia | reflexivity].
  - intros; lia.
  - now exists 0%nat.
Qed.

Lemma step_rel_trans u j u' j' u'' :
  step_rel u j u' -> step_rel u' j' u'' -> step_rel u (j + j') u''.
Proof.
  intros (L1 & D1 & F1 & B1 & E1 & n1 & C1) (L2 & D2 & F2 & B2 & E2 & n2 & C2).
  rewrite D1 in L2. rewrite lenN_skipn in L2. unfold nat_of in L2.
  unfold step_rel. repeat split.
  - lia.
  - rewrite D2, D1, skipn_skipn'. now rewrite nat_of_add.
  - rewrite F2, F1. destruct (u_fail_after u); cbn [option_map]; [f_equal; lia | reflexivity].
  - intros f Hf. specialize (B1 f Hf). rewrite Hf in F1. cbn [option_map] in F1.
    specialize (B2 _ F1). lia.
  - congruence.
  - exists (n1 + n2)%nat. now rewrite C2, C1, skipn_skipn'.
Qed.

Lemma step_rel_len u j u' : step_rel u j u' -> j <= lenN (u_data u).
Proof. now intros (H & _). Qed.
Lemma step_rel_data u j u' : step_rel u j u' -> u_data u' = skipn (nat_of j) (u_data u).
Proof. now intros (_ & H & _). Qed.

Definition read_post (u : ureader) (req : N) (bs : list byte) (e : rerr) (u' : ureader)
           (j : N) : Prop :=
  bs = firstn (nat_of j) (u_data u) /\ j <= req /\ step_rel u j u' /\
  (nofail u ->
     e <> RFail /\ (e = REof -> j = lenN (u_data u)) /\
     (0 < req -> 0 < lenN (u_data u) -> 1 <= j)).

Lemma u_read_spec u req :
  exists j, let '(bs, e, u') := u_read u req in read_post u req bs e u' j.
Proof.
  unfold u_read.
  destruct (N.eqb_spec req 0) as [R0|R0].
  { exists 0. unfold read_post. repeat split; try (intros; lia); try discriminate; try apply step_rel_refl. }
  assert (Hfail0 : u_fail_after u = Some 0 -> read_post u req [] RFail u 0).
  { intros F. unfold read_post, nofail. repeat split; try lia; try apply step_rel_refl;
      rewrite F in *; discriminate. }
  assert (Heof : N.of_nat (length (u_data u)) = 0 -> read_post u req [] REof u 0).
  { intros A. unfold read_post. repeat split; try lia; try discriminate;
      try apply step_rel_refl; unfold lenN; lia. }
  (* the generic branch, for a chunk size >= 1 *)
  assert (Hgen : forall chunk rest, 1 <= chunk ->
            (exists n, rest = skipn n (u_chunks u)) ->
            N.of_nat (length (u_data u)) <> 0 ->
            u_fail_after u <> Some 0 ->
            let k0 := minN3 req chunk (N.of_nat (length (u_data u))) in
            let k := match u_fail_after u with Some f => N.min k0 f | None => k0 end in
            let data' := skipn (nat_of k) (u_data u) in
            let fa' := match u_fail_after u with Some f => Some (f - k) | None => None end in
            let e := if (N.of_nat (length data') =? 0) && u_eof_with_data u then REof else RNone in
            read_post u req (firstn (nat_of k) (u_data u)) e
                      (mkU data' rest (u_eof_with_data u) fa') k).
  { intros chunk rest Hc Hr Ha Hf k0 k data' fa' e.
    assert (Hk0 : k0 <= req /\ k0 <= lenN (u_data u) /\ 1 <= k0)
      by (unfold k0, minN3, lenN; lia).
    assert (Hk : k <= k0) by (unfold k; destruct (u_fail_after u); lia).
    unfold read_post. split; [reflexivity|]. split; [lia|]. split.
    - unfold step_rel; cbn [u_data u_fail_after u_eof_with_data u_chunks]. repeat split.
      + lia.
      + intros f F. unfold k. rewrite F. lia.
      + exact Hr.
    - intros NF. unfold nofail in NF. assert (Ek : k = k0) by (unfold k; now rewrite NF).
      repeat split.
      + unfold e. destruct (_ && _); discriminate.
      + unfold e. destruct (N.eqb_spec (N.of_nat (length data')) 0) as [L|L];
          cbn [andb]; [|discriminate]. intros _.
        unfold data' in L. fold (lenN (skipn (nat_of k) (u_data u))) in L.
        rewrite lenN_skipn in L. unfold nat_of in L. lia.
      + intros _ _. lia. }
  destruct (u_fail_after u) as [f|] eqn:F.
  - destruct f as [|p].
    + exists 0. now apply Hfail0.
    + destruct (N.eqb_spec (N.of_nat (length (u_data u))) 0) as [A|A].
      { exists 0. now apply Heof. }
      destruct (u_chunks u) as [|c r] eqn:C.
      * eexists. apply (Hgen req []); try lia; try discriminate. now exists 0%nat.
      * eexists. apply (Hgen (N.max 1 c) r); try lia; try discriminate. now exists 1%nat.
  - destruct (N.eqb_spec (N.of_nat (length (u_data u))) 0) as [A|A].
    { exists 0. now apply Heof. }
    destruct (u_chunks u) as [|c r] eqn:C.
    * eexists. apply (Hgen req []); try lia; try discriminate. now exists 0%nat.
    * eexists. apply (Hgen (N.max 1 c) r); try lia; try discriminate. now exists 1%nat.
Qed.

Definition lread_post (u : ureader) (lim req : N) (bs : list byte) (e : rerr) (u' : ureader)
           (lim' j : N) : Prop :=
  bs = firstn (nat_of j) (u_data u) /\ N.of_nat (length bs) = j /\
  j <= req /\ j <= lim /\ lim' = lim - j /\ step_rel u j u' /\
  (nofail u ->
     e <> RFail /\ (e = REof -> j = lenN (u_data u) \/ lim = 0) /\
     (0 < req -> 0 < lim -> 0 < lenN (u_data u) -> 1 <= j)).

Lemma lr_read_spec u lim req :
  exists j, let '(bs, e, u', lim') := lr_read u lim req in lread_post u lim req bs e u' lim' j.
Proof.
  unfold lr_read. destruct (N.eqb_spec lim 0) as [L0|L0].
  { exists 0. unfold lread_post. split; [reflexivity|]. split; [reflexivity|].
    split; [lia|]. split; [lia|]. split; [lia|]. split; [apply step_rel_refl|].
    intros _. split; [discriminate|]. split; [now right | lia]. }
  destruct (u_read_spec u (N.min req lim)) as [j H].
  destruct (u_read u (N.min req lim)) as [[bs e] u'].
  destruct H as (Hbs & Hj & Hst & Hnf). exists j.
  assert (Hlen : N.of_nat (length bs) = j).
  { subst bs. apply lenN_firstn_le. eapply step_rel_len, Hst. }
  unfold lread_post. rewrite Hlen.
  split; [exact Hbs|]. split; [reflexivity|]. split; [lia|]. split; [lia|].
  split; [reflexivity|]. split; [exact Hst|].
  intros NF. destruct (Hnf NF) as (E1 & E2 & E3). split; [exact E1|]. split.
  - intros E. left. now apply E2.
  - intros. apply E3; lia.
Qed.

(* ------------------------------------------------------------------------------------ *)
(** * 3. the fill loop *)

Lemma dr_fill_eq fuel u lim need acc :
  dr_fill fuel u lim need acc =
  if need =? 0 then (acc, RNone, u, lim) else
  match fuel with
  | O => (acc, RFail, u, lim)
  | S f =>
    let '(bs, e, u', lim') := lr_read u lim need in
    let acc' := acc ++ bs in
    let need' := need - N.of_nat (length bs) in
    match e with
    | RNone => dr_fill f u' lim' need' acc'
    | REof => if need' =? 0 then (acc', RNone, u', lim') else (acc', REof, u', lim')
    | RFail => (acc', RFail, u', lim')
    end
  end.
Proof. destruct fuel; reflexivity. Qed.

(* soundness, for ANY underlying reader (any chunking, eof flag, failure point) and any
   fuel: if the loop reports success, it has delivered exactly the next [need] bytes. *)
Lemma dr_fill_sound : forall fuel u lim need acc bs u' lim',
  dr_fill fuel u lim need acc = (bs, RNone, u', lim') ->
  bs = acc ++ firstn (nat_of need) (u_data u) /\
  need <= lim /\ lim' = lim - need /\ step_rel u need u'.
Proof.
  induction fuel as [|fuel IH]; intros u lim need acc bs u' lim' H;
    rewrite dr_fill_eq in H; destruct (N.eqb_spec need 0) as [N0|N0].
  1,3: inversion H; subst; cbn [nat_of N.to_nat firstn]; rewrite app_nil_r;
       repeat split; try lia; apply step_rel_refl.
  { discriminate. }
  destruct (lr_read_spec u lim need) as [j Hj].
  destruct (lr_read u lim need) as [[[bs1 e] u1] lim1].
  destruct Hj as (Hbs & Hlen & Hjr & Hjl & Hlim & Hst & _).
  cbv zeta in H. rewrite Hlen in H. clear Hlen.
  assert (Hcat : forall m, m <= lenN (u_data u1) -> j + m = need ->
            (acc ++ bs1) ++ firstn (nat_of m) (u_data u1)
            = acc ++ firstn (nat_of need) (u_data u)).
  { intros m _ Hm. rewrite <- app_assoc. f_equal. subst bs1. rewrite <- Hm, nat_of_add.
    rewrite firstn_add. f_equal. f_equal. eapply step_rel_data, Hst. }
  destruct e.
  - apply IH in H. destruct H as (B & L & L' & S2).
    assert (Hn : j + (need - j) = need) by lia.
    split; [|split; [lia|split; [lia|]]].
    + rewrite B. apply Hcat; [eapply step_rel_len, S2 | exact Hn].
    + rewrite <- Hn. eapply step_rel_trans; eassumption.
  - destruct (N.eqb_spec (need - j) 0) as [Z|Z]; [|discriminate].
    inversion H; subst bs u' lim'. assert (j = need) by lia. subst j.
    split; [|split; [lia|split; [exact Hlim|exact Hst]]].
    rewrite <- (Hcat 0); [cbn [nat_of N.to_nat firstn]; now rewrite app_nil_r | lia | lia].
  - discriminate.
Qed.

(* completeness, for a reader that does not fail: whatever its chunking and eof behaviour,
   enough data and enough limit make the loop succeed (fuel >= need suffices: every
   iteration delivers at least one byte). *)
Lemma dr_fill_complete : forall fuel u lim need acc,
  nofail u -> need <= lenN (u_data u) -> need <= lim -> (nat_of need <= fuel)%nat ->
  exists bs u' lim', dr_fill fuel u lim need acc = (bs, RNone, u', lim').
Proof.
  induction fuel as [|fuel IH]; intros u lim need acc NF Hd Hl Hf;
    rewrite dr_fill_eq; destruct (N.eqb_spec need 0) as [N0|N0].
  1,3: now eexists _, _, _.
  { unfold nat_of in Hf. lia. }
  destruct (lr_read_spec u lim need) as [j Hj].
  destruct (lr_read u lim need) as [[[bs1 e] u1] lim1].
  destruct Hj as (Hbs & Hlen & Hjr & Hjl & Hlim & Hst & Hnf).
  destruct (Hnf NF) as (E1 & E2 & E3). cbv zeta. rewrite Hlen.
  assert (J1 : 1 <= j) by (apply E3; lia).
  destruct e.
  - apply IH.
    + unfold nofail in *. destruct Hst as (_ & _ & F & _). rewrite F, NF. reflexivity.
    + destruct Hst as (_ & D & _). rewrite D, lenN_skipn. unfold nat_of. lia.
    + lia.
    + unfold nat_of in *. lia.
  - destruct (E2 eq_refl) as [E|E]; [|lia].
    assert (Z : need - j = 0) by lia. rewrite Z. cbn [N.eqb]. now eexists _, _, _.
  - congruence.
Qed.

(* failure direction: if the data, the limit or the failure point comes before [need]
   bytes, the loop does not report success *)
Lemma dr_fill_short fuel u lim need acc :
  need > lim \/ need > delivered u ->
  snd (fst (fst (dr_fill fuel u lim need acc))) <> RNone.
Proof.
  intros H E.
  destruct (dr_fill fuel u lim need acc) as [[[bs e] u'] lim'] eqn:D. cbn [fst snd] in E.
  subst e. apply dr_fill_sound in D. destruct D as (_ & L & _ & S).
  destruct S as (S1 & _ & _ & S4 & _). unfold delivered in H.
  destruct (u_fail_after u) as [f|]; [specialize (S4 f eq_refl)|]; lia.
Qed.

(* ------------------------------------------------------------------------------------ *)
(** * 4. C13_fill_spec *)

Lemma fill_spec u lim k :
  nofail u -> k <= lenN (u_data u) -> k <= lim ->
  exists u',
    dr_fill (S (nat_of k)) u lim k [] = (firstn (nat_of k) (u_data u), RNone, u', lim - k) /\
    u_data u' = skipn (nat_of k) (u_data u) /\
    u_eof_with_data u' = u_eof_with_data u /\
    u_fail_after u' = None /\
    exists n, u_chunks u' = skipn n (u_chunks u).
Proof.
  intros NF Hd Hl.
  destruct (dr_fill_complete (S (nat_of k)) u lim k [] NF Hd Hl) as (bs & u' & lim' & E); [lia|].
  pose proof (dr_fill_sound _ _ _ _ _ _ _ _ E) as (B & _ & L & S).
  exists u'. rewrite E, B, L. cbn [app].
  destruct S as (_ & D & F & _ & Ef & C). unfold nofail in NF. rewrite NF in F.
  repeat split; assumption.
Qed.

(* the fuel [nat_of k] (without the successor) is already enough *)
Lemma fill_spec_fuel u lim k fuel :
  nofail u -> k <= lenN (u_data u) -> k <= lim -> (nat_of k <= fuel)%nat ->
  exists u',
    dr_fill fuel u lim k [] = (firstn (nat_of k) (u_data u), RNone, u', lim - k) /\
    step_rel u k u'.
Proof.
  intros NF Hd Hl Hf.
  destruct (dr_fill_complete fuel u lim k [] NF Hd Hl Hf) as (bs & u' & lim' & E).
  pose proof (dr_fill_sound _ _ _ _ _ _ _ _ E) as (B & _ & L & S).
  exists u'. rewrite E, B, L. cbn [app]. now split.
Qed.

(* ------------------------------------------------------------------------------------ *)
(** * 5. dr_read_io *)

(* the condition under which a read of k bytes succeeds, as a function of the bytes the
   stream holds only (not of how they are delivered) *)
Definition read_ok (data : list byte) (lim i mx k : N) : bool :=
  (k =? 0) ||
  (negb (two64 - 1 - i <? k) && negb (mx <? i + k) && (k <=? lim) && (k <=? lenN data)).

Lemma step_rel_nofail u j u' : step_rel u j u' -> nofail u -> nofail u'.
Proof. unfold nofail. intros (_ & _ & F & _) NF. now rewrite F, NF. Qed.

Lemma step_rel_delivered u j u' :
  step_rel u j u' -> j <= delivered u /\ delivered u' = delivered u - j.
Proof.
  intros (L & D & F & B & _). unfold delivered. rewrite F, D, lenN_skipn. unfold nat_of.
  destruct (u_fail_after u) as [f|]; cbn [option_map]; [specialize (B f eq_refl)|]; lia.
Qed.

(* inversion of a successful read, for ANY underlying reader *)
Lemma dr_read_io_OK_inv u lim i mx k bs u' lim' i' :
  dr_read_io u lim i mx k = OK (bs, u', lim', i') ->
  bs = firstn (nat_of k) (u_data u) /\ step_rel u k u' /\
  k <= lim /\ lim' = lim - k /\ i' = i + k.
Proof.
  unfold dr_read_io. destruct (N.eqb_spec k 0) as [K0|K0].
  { intros H. inversion H; subst. cbn [nat_of N.to_nat firstn].
    split; [reflexivity|]. split; [apply step_rel_refl|]. repeat split; lia. }
  destruct (two64 - 1 - i <? k); [discriminate|].
  destruct (mx <? i + k); [discriminate|].
  destruct (dr_fill (S (nat_of k)) u lim k []) as [[[bs1 e] u1] lim1] eqn:D.
  destruct e; try discriminate. intros H. injection H as Hb Hu Hl Hi.
  apply dr_fill_sound in D. destruct D as (B & L & L' & S). cbn [app] in B.
  subst. split; [reflexivity|]. split; [exact S|]. split; [exact L|]. split; reflexivity.
Qed.

Lemma dr_read_io_no_panic u lim i mx k : dr_read_io u lim i mx k <> Panic.
Proof.
  unfold dr_read_io. destruct (k =? 0); [discriminate|].
  destruct (_ <? k); [discriminate|]. destruct (mx <? _); [discriminate|].
  destruct (dr_fill _ _ _ _ _) as [[[bs1 e] u1] lim1]. destruct e; discriminate.
Qed.

(* a non-failing reader: success iff [read_ok], with the bytes [firstn k data] *)
Lemma dr_read_io_ok u lim i mx k :
  nofail u -> read_ok (u_data u) lim i mx k = true ->
  exists u', dr_read_io u lim i mx k = OK (firstn (nat_of k) (u_data u), u', lim - k, i + k)
             /\ step_rel u k u'.
Proof.
  intros NF R. unfold read_ok in R. unfold dr_read_io.
  destruct (N.eqb_spec k 0) as [K0|K0].
  { subst k. exists u. rewrite N.sub_0_r, N.add_0_r. split; [reflexivity|apply step_rel_refl]. }
  cbn [orb] in R.
  destruct (two64 - 1 - i <? k); [discriminate|].
  destruct (mx <? i + k); [discriminate|]. cbn [negb andb] in R.
  apply andb_prop in R. destruct R as [R1 R2].
  apply N.leb_le in R1. apply N.leb_le in R2.
  destruct (fill_spec_fuel u lim k (S (nat_of k)) NF R2 R1) as (u' & E & S); [lia|].
  rewrite E. now exists u'.
Qed.

Lemma dr_read_io_err u lim i mx k :
  nofail u -> read_ok (u_data u) lim i mx k = false -> dr_read_io u lim i mx k = Err.
Proof.
  intros NF R. unfold read_ok in R. unfold dr_read_io.
  destruct (N.eqb_spec k 0) as [K0|K0]; [discriminate|]. cbn [orb] in R.
  destruct (two64 - 1 - i <? k); [reflexivity|].
  destruct (mx <? i + k); [reflexivity|]. cbn [negb andb] in R.
  pose proof (dr_fill_short (S (nat_of k)) u lim k []) as Hs.
  destruct (dr_fill (S (nat_of k)) u lim k []) as [[[bs1 e] u1] lim1]. cbn [fst snd] in Hs.
  destruct e; try reflexivity. exfalso. apply Hs; [|reflexivity].
  unfold delivered. rewrite NF.
  destruct (N.leb_spec k lim); [|lia]. destruct (N.leb_spec k (lenN (u_data u))); [discriminate|lia].
Qed.

(* schedule independence: two non-failing readers holding the same bytes *)
Lemma run_reads_indep : forall reqs u1 u2 lim i mx,
  nofail u1 -> nofail u2 -> u_data u1 = u_data u2 ->
  run_reads u1 lim i mx reqs = run_reads u2 lim i mx reqs.
Proof.
  induction reqs as [|k r IH]; intros u1 u2 lim i mx N1 N2 D; [reflexivity|].
  cbn [run_reads]. destruct (read_ok (u_data u1) lim i mx k) eqn:R.
  - destruct (dr_read_io_ok u1 lim i mx k N1 R) as (u1' & E1 & S1).
    rewrite D in R. destruct (dr_read_io_ok u2 lim i mx k N2 R) as (u2' & E2 & S2).
    rewrite E1, E2, D. cbn [bind].
    rewrite (IH u1' u2'); [reflexivity| | |].
    + eapply step_rel_nofail; eassumption.
    + eapply step_rel_nofail; eassumption.
    + rewrite (step_rel_data _ _ _ S1), (step_rel_data _ _ _ S2). now rewrite D.
  - rewrite (dr_read_io_err u1 lim i mx k N1 R). rewrite D in R.
    now rewrite (dr_read_io_err u2 lim i mx k N2 R).
Qed.

Lemma nofail_one_shot data : nofail (one_shot data).
Proof. reflexivity. Qed.

Lemma schedule_indep u lim i mx reqs :
  nofail u -> run_reads u lim i mx reqs = run_reads (one_shot (u_data u)) lim i mx reqs.
Proof. intros NF. apply run_reads_indep; [exact NF|reflexivity|reflexivity]. Qed.

(* the one-shot reader against the in-memory reader of Reader.v *)
Lemma one_shot_step data k u' :
  step_rel (one_shot data) k u' -> u' = one_shot (skipn (nat_of k) data).
Proof.
  intros (_ & D & F & _ & E & n & C). destruct u' as [d c e f]. cbn in *.
  rewrite skipn_nil in C. subst. reflexivity.
Qed.

Lemma read_ok_reader data lim i mx k :
  dr_read_io (one_shot data) lim i mx k =
  match dr_read (mkRS data [lim]) (mkDR i mx [0%nat]) k with
  | OK (bs, st', d') => OK (bs, one_shot (r_stream st'), lim_get st' 0, d_i d')
  | Err => Err
  | Panic => Panic
  end.
Proof.
  destruct (read_ok data lim i mx k) eqn:R.
  - destruct (dr_read_io_ok (one_shot data) lim i mx k (nofail_one_shot data) R) as (u' & E & S).
    rewrite E. apply one_shot_step in S. subst u'. cbn [u_data one_shot].
    unfold read_ok in R. unfold dr_read. cbn [d_i d_max d_chain].
    destruct (N.eqb_spec k 0) as [K0|K0].
    { subst k. cbn [nat_of N.to_nat firstn skipn r_stream]. unfold lim_get. cbn [r_lims nth].
      now rewrite N.sub_0_r, N.add_0_r. }
    cbn [orb] in R.
    destruct (two64 - 1 - i <? k); [discriminate|].
    destruct (mx <? i + k); [discriminate|]. cbn [negb andb] in R.
    apply andb_prop in R. destruct R as [R1 R2]. apply N.leb_le in R1. apply N.leb_le in R2.
    unfold avail. cbn [fold_right r_stream]. unfold lim_get at 1. cbn [r_lims nth].
    unfold lenN in R2.
    destruct (N.ltb_spec (N.min lim (N.of_nat (length data))) k); [lia|].
    unfold consume, lim_get. cbn [fold_right r_stream r_lims nth list_set]. reflexivity.
  - rewrite (dr_read_io_err (one_shot data) lim i mx k (nofail_one_shot data) R).
    unfold read_ok in R. unfold dr_read. cbn [d_i d_max d_chain].
    destruct (N.eqb_spec k 0) as [K0|K0]; [discriminate|]. cbn [orb] in R.
    destruct (two64 - 1 - i <? k); [reflexivity|].
    destruct (mx <? i + k); [reflexivity|]. cbn [negb andb] in R.
    unfold avail. cbn [fold_right r_stream]. unfold lim_get. cbn [r_lims nth].
    unfold lenN in R.
    destruct (N.ltb_spec (N.min lim (N.of_nat (length data))) k); [reflexivity|].
    destruct (N.leb_spec k lim); [|lia].
    destruct (N.leb_spec k (N.of_nat (length data))); [discriminate|lia].
Qed.

(* ------------------------------------------------------------------------------------ *)
(** * 6. short or failing streams *)

Lemma read_short u lim i mx k :
  0 < k -> delivered u < k -> dr_read_io u lim i mx k = Err.
Proof.
  intros K H. destruct (dr_read_io u lim i mx k) as [[[[bs u'] lim'] i']| |] eqn:E.
  - apply dr_read_io_OK_inv in E. destruct E as (_ & S & _).
    apply step_rel_delivered in S. lia.
  - reflexivity.
  - now apply dr_read_io_no_panic in E.
Qed.

Lemma short_stream u lim i mx k :
  0 < k ->
  (u_fail_after u = None /\ lenN (u_data u) < k) \/
  (exists f, u_fail_after u = Some f /\ f < k) ->
  dr_read_io u lim i mx k = Err.
Proof.
  intros K H. apply read_short; [exact K|]. unfold delivered.
  destruct H as [[F L]|(f & F & L)]; rewrite F; lia.
Qed.

Lemma run_reads_no_panic : forall reqs u lim i mx, run_reads u lim i mx reqs <> Panic.
Proof.
  induction reqs as [|k r IH]; intros u lim i mx; cbn [run_reads]; [discriminate|].
  destruct (dr_read_io u lim i mx k) as [[[[bs u'] lim'] i']| |] eqn:E; cbn [bind].
  - specialize (IH u' lim' i' mx). destruct (run_reads u' lim' i' mx r); cbn [bind];
      [discriminate|discriminate|congruence].
  - discriminate.
  - now apply dr_read_io_no_panic in E.
Qed.

Lemma run_reads_OK_total : forall reqs u lim i mx out,
  run_reads u lim i mx reqs = OK out ->
  sumN reqs <= delivered u /\ sumN reqs <= lim /\
  concat out = firstn (nat_of (sumN reqs)) (u_data u) /\
  map (fun bs => lenN bs) out = reqs.
Proof.
  induction reqs as [|k r IH]; intros u lim i mx out H; cbn [run_reads] in H.
  - inversion H; subst. cbn. repeat split; lia.
  - destruct (dr_read_io u lim i mx k) as [[[[bs u'] lim'] i']| |] eqn:E; cbn [bind] in H;
      try discriminate.
    destruct (run_reads u' lim' i' mx r) as [rest| |] eqn:E2; cbn [bind] in H; try discriminate.
    inversion H; subst out. apply IH in E2. destruct E2 as (T1 & T2 & T3 & T4).
    apply dr_read_io_OK_inv in E. destruct E as (B & S & L & L' & _).
    pose proof (step_rel_delivered _ _ _ S) as (D1 & D2).
    cbn [sumN fold_right concat map]. fold (sumN r).
    split; [lia|]. split; [lia|]. split.
    + rewrite T3, B, nat_of_add, firstn_add. f_equal. f_equal. eapply step_rel_data, S.
    + f_equal; [|exact T4]. subst bs. unfold lenN.
      apply lenN_firstn_le. eapply step_rel_len, S.
Qed.

Lemma short_total u lim i mx reqs :
  delivered u < sumN reqs -> run_reads u lim i mx reqs = Err.
Proof.
  intros H. destruct (run_reads u lim i mx reqs) as [out| |] eqn:E.
  - apply run_reads_OK_total in E. lia.
  - reflexivity.
  - now apply run_reads_no_panic in E.
Qed.

(* the limit reader likewise: requests beyond the declared scope fail *)
Lemma short_limit u lim i mx reqs :
  lim < sumN reqs -> run_reads u lim i mx reqs = Err.
Proof.
  intros H. destruct (run_reads u lim i mx reqs) as [out| |] eqn:E.
  - apply run_reads_OK_total in E. lia.
  - reflexivity.
  - now apply run_reads_no_panic in E.
Qed.

(* ------------------------------------------------------------------------------------ *)
(** * 7. the writer *)

Lemma ew_write_all_some : forall chunks b acc n w ok,
  ew_write_all (mkW (Some b) acc n) chunks = (w, ok) ->
  w_accepted w = acc ++ firstn (nat_of b) (concat chunks) /\
  w_n w = n + N.min b (lenN (concat chunks)) /\
  (ok = true <-> lenN (concat chunks) <= b).
Proof.
  induction chunks as [|p r IH]; intros b acc n w ok H; cbn [ew_write_all] in H.
  - inversion H; subst. cbn [concat w_accepted w_n]. rewrite firstn_nil, app_nil_r.
    unfold lenN; cbn [length]. repeat split; intros; lia.
  - unfold ew_write in H. cbn [w_budget w_accepted w_n] in H.
    cbn [concat]. rewrite lenN_app, firstn_app. unfold lenN at 1 3.
    destruct (N.leb_spec (N.of_nat (length p)) b) as [L|L].
    + apply IH in H. destruct H as (A & Nn & O).
      rewrite A, Nn. rewrite (@firstn_all2 _ (nat_of b) p) by (unfold nat_of; lia).
      rewrite <- app_assoc.
      replace (nat_of b - length p)%nat with (nat_of (b - N.of_nat (length p)))
        by (unfold nat_of; lia).
      split; [reflexivity|]. split; [lia|]. rewrite O. lia.
    + inversion H; subst. cbn [w_accepted w_n].
      replace (nat_of b - length p)%nat with 0%nat by (unfold nat_of; lia).
      cbn [firstn]. rewrite app_nil_r. split; [reflexivity|]. split; [lia|].
      split; [discriminate|lia].
Qed.

Lemma ew_write_all_none : forall chunks acc n,
  ew_write_all (mkW None acc n) chunks =
  (mkW None (acc ++ concat chunks) (n + lenN (concat chunks)), true).
Proof.
  induction chunks as [|p r IH]; intros acc n; cbn [ew_write_all concat].
  - now rewrite app_nil_r, N.add_0_r.
  - unfold ew_write. cbn [w_budget w_accepted w_n]. rewrite IH, lenN_app, app_assoc.
    unfold lenN at 2. now rewrite N.add_assoc.
Qed.

Lemma writer_prefix b chunks w ok :
  ew_write_all (mkW (Some b) [] 0) chunks = (w, ok) ->
  w_accepted w = firstn (nat_of b) (concat chunks) /\
  w_n w = N.min b (lenN (concat chunks)) /\
  (ok = true <-> lenN (concat chunks) <= b).
Proof. intros H. apply ew_write_all_some in H. exact H. Qed.

Lemma writer_nofail chunks :
  ew_write_all (mkW None [] 0) chunks = (mkW None (concat chunks) (lenN (concat chunks)), true).
Proof. now rewrite ew_write_all_none. Qed.

(* the counter always equals the number of accepted bytes *)
Lemma writer_counter b chunks w ok :
  ew_write_all (mkW (Some b) [] 0) chunks = (w, ok) -> w_n w = lenN (w_accepted w).
Proof.
  intros H. apply writer_prefix in H. destruct H as (A & Nn & _). rewrite A, Nn.
  unfold lenN, nat_of. rewrite firstn_length. lia.
Qed.

(* ------------------------------------------------------------------------------------ *)
(** * 8. Examples: the hypotheses are satisfiable, the statements are not vacuous *)

Definition ex_data : list byte :=
  [Byte.x01; Byte.x02; Byte.x03; Byte.x04; Byte.x05; Byte.x06; Byte.x07; Byte.x08; Byte.x09; Byte.x0a].
(* delivers 1, then 3, then 2 bytes, then whatever is asked; EOF together with the last bytes *)
Definition ex_u : ureader := mkU ex_data [1; 3; 2] true None.
(* fails after 3 bytes *)
Definition ex_uf : ureader := mkU ex_data [2] false (Some 3).

(* fill_spec: hypotheses hold for ex_u, k = 7, lim = 8; four underlying reads are needed *)
Example ex_fill_hyp : u_fail_after ex_u = None /\ 7 <= lenN (u_data ex_u) /\ 7 <= 8.
Proof. vm_compute. repeat split; discriminate. Qed.
Example ex_fill :
  dr_fill (S (nat_of 7)) ex_u 8 7 [] =
  (firstn 7 ex_data, RNone, mkU (skipn 7 ex_data) [] true None, 1).
Proof. vm_compute. reflexivity. Qed.
(* the last bytes arrive together with io.EOF: not an error (repaired D12) *)
Example ex_fill_eof_with_data :
  dr_read_io ex_u 10 0 10 10 = OK (ex_data, mkU [] [] true None, 0, 10).
Proof. vm_compute. reflexivity. Qed.
(* schedule independence, a succeeding and a failing request list *)
Example ex_indep_ok :
  run_reads ex_u 9 0 9 [2; 0; 3; 4] = OK [firstn 2 ex_data; []; firstn 3 (skipn 2 ex_data); firstn 4 (skipn 5 ex_data)]
  /\ run_reads (one_shot ex_data) 9 0 9 [2; 0; 3; 4] = run_reads ex_u 9 0 9 [2; 0; 3; 4].
Proof. vm_compute. split; reflexivity. Qed.
Example ex_indep_err :
  run_reads ex_u 9 0 9 [2; 8] = Err /\ run_reads (one_shot ex_data) 9 0 9 [2; 8] = Err
  /\ run_reads ex_u 20 0 20 [6; 5] = Err /\ run_reads (one_shot ex_data) 20 0 20 [6; 5] = Err.
Proof. vm_compute. repeat split; reflexivity. Qed.
(* short stream / failing stream *)
Example ex_short_hyp : 0 < 11 /\ u_fail_after ex_u = None /\ lenN (u_data ex_u) < 11.
Proof. vm_compute. repeat split; reflexivity. Qed.
Example ex_short : dr_read_io ex_u 20 0 20 11 = Err.
Proof. vm_compute. reflexivity. Qed.
Example ex_fail_hyp : 0 < 4 /\ exists f, u_fail_after ex_uf = Some f /\ f < 4.
Proof. split; [reflexivity|]. exists 3. split; reflexivity. Qed.
Example ex_fail : dr_read_io ex_uf 20 0 20 4 = Err
  /\ dr_read_io ex_uf 20 0 20 3 = OK (firstn 3 ex_data, mkU (skipn 3 ex_data) [] false (Some 0), 17, 3).
Proof. vm_compute. split; reflexivity. Qed.
Example ex_short_total_hyp : delivered ex_uf < sumN [1; 2; 1] /\ delivered ex_uf = 3.
Proof. vm_compute. split; reflexivity. Qed.
Example ex_short_total : run_reads ex_uf 20 0 20 [1; 2; 1] = Err.
Proof. vm_compute. reflexivity. Qed.
(* the writer: budget 5, the encoder writes 2 + 4 + 3 bytes *)
Example ex_writer :
  ew_write_all (mkW (Some 5) [] 0) [firstn 2 ex_data; firstn 4 (skipn 2 ex_data); skipn 6 ex_data]
  = (mkW (Some 0) (firstn 5 ex_data) 5, false).
Proof. vm_compute. reflexivity. Qed.
Example ex_writer_ok :
  ew_write_all (mkW (Some 10) [] 0) [firstn 2 ex_data; firstn 4 (skipn 2 ex_data); skipn 6 ex_data]
  = (mkW (Some 0) ex_data 10, true).
Proof. vm_compute. reflexivity. Qed.

(* ------------------------------------------------------------------------------------ *)
(** * 9. packaged statements for Props/C13.v *)

Lemma read_value : forall u lim i mx k,
  u_fail_after u = None ->
  (read_ok (u_data u) lim i mx k = true ->
     exists u', dr_read_io u lim i mx k = OK (firstn (nat_of k) (u_data u), u', lim - k, i + k)
                /\ u_data u' = skipn (nat_of k) (u_data u) /\ u_fail_after u' = None) /\
  (read_ok (u_data u) lim i mx k = false -> dr_read_io u lim i mx k = Err).
Proof.
  intros u lim i mx k NF. split.
  - intros R. destruct (dr_read_io_ok u lim i mx k NF R) as (u' & E & S).
    exists u'. split; [exact E|]. split; [exact (step_rel_data _ _ _ S)|].
    exact (step_rel_nofail _ _ _ S NF).
  - exact (dr_read_io_err u lim i mx k NF).
Qed.

Lemma value_is_prefix : forall u lim i mx k bs u' lim' i',
  dr_read_io u lim i mx k = OK (bs, u', lim', i') ->
  bs = firstn (nat_of k) (u_data u) /\ u_data u' = skipn (nat_of k) (u_data u) /\
  k <= delivered u /\ k <= lim /\ lim' = lim - k /\ i' = i + k.
Proof.
  intros u lim i mx k bs u' lim' i' H. apply dr_read_io_OK_inv in H.
  destruct H as (B & S & L & L' & I). pose proof (step_rel_delivered _ _ _ S) as (D & _).
  repeat split; try assumption. exact (step_rel_data _ _ _ S).
Qed.
