(* PartialProofs.v — proofs for property C12 (partial trees: views whose backing has had
   arbitrary subtrees replaced by their summary roots) about the model files Tree.v, View.v,
   Iter.v and Mut.v.

   ==== small specification vocabulary used by Props/C12.v ====

   [summ H n n']       n' is n with some subtrees replaced by their summary leaf
                       [Leaf (root_of H sub)] (tree.SummaryInto); a leaf is its own summary.
                       Reflexive, transitive ([summ_trans]); [summarize] produces it.
   [zero_collision_free H zh n]
                       no subtree of n that is not a zero subtree has a zero-hash root:
                       whenever the root of a subtree m of n is [zh k], m is a zero subtree
                       of height k ([TreeProofs.zt]).  This is what collision resistance of
                       the pair hash gives; [zero_preimage_free H] (the zero hashes have no
                       other preimage than the pair of the previous zero hash) implies it for
                       every tree ([zpf_zcf]).  It is needed exactly for the writes WITH
                       EXPANSION (Append / Pop): the Go code recognises a zero subtree by the
                       value of its summary root.
   [eos r' r]          := r' = Err \/ r' = r   "error or same" (a Panic of the full tree
                       included in "same").
   [eosR R r' r]       the same with the two results related by R instead of equal:
                       r' = Err, or both Panic, or both OK with R a a'.
   [backs zh t n]      := exists v, has_type v t = true /\ repr zh t n v : the tree n is a
                       well-formed backing of some value of type t.
   [step_sim], [iter_sim]  a drained iterator of the partial tree against the one of the full
                       tree: step by step equal (sub-view nodes up to [summ]) until the
                       partial one reports [IErr] and stops. *)
From Coq Require Import List NArith ZArith Bool Lia PeanoNat ZifyN ZifyNat ZifyBool.
From Ztyp Require Import Base Bitlen Tree Types Spec View Iter Mut Repr
     BitlenProofs TreeProofs MerkleProofs ReprProofs IterProofs.
Import ListNotations.
Open Scope N_scope.

#[local] Ltac Zify.zify_post_hook ::= Z.div_mod_to_equations.
Local Arguments N.pow : simpl never.
Local Arguments Nat.pow : simpl never.
Local Arguments N.of_nat : simpl never.
Local Arguments N.to_nat : simpl never.
Local Arguments N.div : simpl never.
Local Arguments N.modulo : simpl never.
Local Opaque two64.

(* ------------------------------------------------------------------------------------- *)
(* 0. spec definitions                                                                   *)
(* ------------------------------------------------------------------------------------- *)

Inductive summ (H : chunk -> chunk -> chunk) : node -> node -> Prop :=
| sm_refl n : summ H n n
| sm_sum n : summ H n (Leaf (root_of H n))
| sm_pair a b a' b' : summ H a a' -> summ H b b' -> summ H (Pair a b) (Pair a' b').

Definition zero_collision_free (H : chunk -> chunk -> chunk) (zh : nat -> chunk) (n : node) : Prop :=
  forall p m k, get_path n p = OK m -> root_of H m = zh k -> zt zh k m.

Definition zero_preimage_free (H : chunk -> chunk -> chunk) : Prop :=
  forall a b k, H a b = zero_hash H k ->
    exists k', k = S k' /\ a = zero_hash H k' /\ b = zero_hash H k'.

Definition eos {A} (r' r : res A) : Prop := r' = Err \/ r' = r.

Definition eosR {A} (R : A -> A -> Prop) (r' r : res A) : Prop :=
  r' = Err \/ (r' = Panic /\ r = Panic) \/ exists a a', r = OK a /\ r' = OK a' /\ R a a'.

Definition backs (zh : nat -> chunk) (t : ty) (n : node) : Prop :=
  exists v, has_type v t = true /\ repr zh t n v.

(* ------------------------------------------------------------------------------------- *)
(* 1. summaries: roots, inversion, transitivity, [summarize]                             *)
(* ------------------------------------------------------------------------------------- *)

Section Summ.
Variable H : chunk -> chunk -> chunk.
Notation summ := (summ H).

Lemma summ_root n n' : summ n n' -> root_of H n' = root_of H n.
Proof.
  induction 1 as [n|n|a b a' b' Ha IHa Hb IHb]; cbn [root_of]; try reflexivity.
  now rewrite IHa, IHb.
Qed.

(* the full tree has a leaf: the partial tree has the same leaf *)
Lemma summ_leaf_inv c m' : summ (Leaf c) m' -> m' = Leaf c.
Proof. intros Hs. inversion Hs; subst; reflexivity. Qed.

(* the partial tree has a pair: so has the full tree, children related *)
Lemma summ_pair_inv n a' b' : summ n (Pair a' b') ->
  exists a b, n = Pair a b /\ summ a a' /\ summ b b'.
Proof.
  intros Hs. inversion Hs; subst.
  - exists a', b'. repeat split; constructor.
  - eauto.
Qed.

(* the partial tree has a leaf: it is the root of what the full tree has there *)
Lemma summ_to_leaf n c : summ n (Leaf c) -> root_of H n = c.
Proof. intros Hs. apply summ_root in Hs. cbn [root_of] in Hs. congruence. Qed.

(* the full tree has a pair *)
Lemma summ_from_pair a b n' : summ (Pair a b) n' ->
  n' = Leaf (root_of H (Pair a b)) \/ exists a' b', n' = Pair a' b' /\ summ a a' /\ summ b b'.
Proof.
  intros Hs. inversion Hs; subst.
  - right. exists a, b. repeat split; constructor.
  - now left.
  - right. eauto.
Qed.

Lemma summ_trans a b c : summ a b -> summ b c -> summ a c.
Proof.
  intros Hab. revert c. induction Hab as [n|n|x y x' y' Hx IHx Hy IHy]; intros c Hbc.
  - exact Hbc.
  - apply summ_leaf_inv in Hbc. subst c. constructor.
  - destruct (summ_from_pair _ _ _ Hbc) as [->|(x'' & y'' & -> & Hx' & Hy')].
    + cbn [root_of]. rewrite (summ_root _ _ Hx), (summ_root _ _ Hy).
      apply (sm_sum H (Pair x y)).
    + constructor; auto.
Qed.

Section WithZero.
Variable zh : nat -> chunk.

(* summarising the position p *)
Lemma set_summary_summ p : forall n sub n',
  get_path n p = OK sub -> set_path zh n p false (Leaf (root_of H sub)) = OK n' -> summ n n'.
Proof.
  induction p as [|b p IH]; intros n sub n' Hg Hs.
  - rewrite get_path_nil in Hg. injection Hg as <-. cbn in Hs. injection Hs as <-. constructor.
  - destruct n as [c|l r]; [discriminate|]. rewrite get_path_pair in Hg.
    rewrite set_path_cons, step_children_pair in Hs. cbn [bind] in Hs. destruct b.
    + destruct (set_path zh r p false _) as [r'| |] eqn:Er; cbn [bind] in Hs; try discriminate.
      injection Hs as <-. constructor; [constructor|]. eapply IH; eauto.
    + destruct (set_path zh l p false _) as [l'| |] eqn:El; cbn [bind] in Hs; try discriminate.
      injection Hs as <-. constructor; [|constructor]. eapply IH; eauto.
Qed.

Lemma summarize_summ n g n' : summarize zh H n g = OK n' -> summ n n'.
Proof.
  unfold summarize, setter, getter. destruct n as [x|l r].
  - destruct (g =? 1); [|discriminate]. intros [= <-]. constructor.
  - generalize (Pair l r) as n. intros n.
    destruct (set_path zh n (g_path g) false n); cbn [bind]; try discriminate.
    destruct (get_path n (g_path g)) as [sub| |] eqn:Eg; cbn [bind]; try discriminate.
    intros Hs. eapply set_summary_summ; eauto.
Qed.

(* repeated summarising *)
Fixpoint summarize_all (n : node) (gs : list N) : res node :=
  match gs with
  | [] => OK n
  | g :: r => do n1 <- summarize zh H n g; summarize_all n1 r
  end.

Lemma summarize_all_summ gs : forall n n', summarize_all n gs = OK n' -> summ n n'.
Proof.
  induction gs as [|g gs IH]; intros n n' Hs; cbn [summarize_all] in Hs.
  - injection Hs as <-. constructor.
  - destruct (summarize zh H n g) as [n1| |] eqn:E1; cbn [bind] in Hs; try discriminate.
    eapply summ_trans; [eapply summarize_summ; eauto|eauto].
Qed.

(* ------------------------------------------------------------------------------------- *)
(* 2. navigation and writes                                                              *)
(* ------------------------------------------------------------------------------------- *)

Lemma summ_get p : forall n n' m',
  summ n n' -> get_path n' p = OK m' -> exists m, get_path n p = OK m /\ summ m m'.
Proof.
  induction p as [|b p IH]; intros n n' m' Hs Hg.
  - rewrite get_path_nil in Hg. injection Hg as <-. exists n. split; [apply get_path_nil|exact Hs].
  - destruct n' as [c|a' b']; [discriminate|]. rewrite get_path_pair in Hg.
    destruct (summ_pair_inv _ _ _ Hs) as (a & b0 & -> & Ha & Hb). rewrite get_path_pair.
    destruct b; eapply IH; eauto.
Qed.

Lemma summ_get_eosR n n' p : summ n n' -> eosR summ (get_path n' p) (get_path n p).
Proof.
  intros Hs. destruct (get_path n' p) as [m'| |] eqn:Hg.
  - destruct (summ_get p _ _ _ Hs Hg) as (m & Hm & Hmm). right. right. eauto.
  - now left.
  - exfalso. exact (get_path_total _ _ Hg).
Qed.

(* a leaf of the full tree is read as the same leaf or not at all *)
Lemma summ_get_leaf n n' p c : summ n n' -> get_path n p = OK (Leaf c) ->
  get_path n' p = Err \/ get_path n' p = OK (Leaf c).
Proof.
  intros Hs Hg. destruct (summ_get_eosR n n' p Hs) as [E|[[E _]|(a & a' & E1 & E2 & Hr)]].
  - now left.
  - exfalso. exact (get_path_total _ _ E).
  - right. rewrite Hg in E1. injection E1 as <-. apply summ_leaf_inv in Hr. now subst a'.
Qed.

(* writes without expansion *)
Lemma summ_set_noexp p : forall n n' v v' r',
  summ n n' -> summ v v' -> set_path zh n' p false v' = OK r' ->
  exists r, set_path zh n p false v = OK r /\ summ r r'.
Proof.
  induction p as [|b p IH]; intros n n' v v' r' Hs Hv Hset.
  - cbn in Hset. injection Hset as <-. exists v. split; [reflexivity|exact Hv].
  - rewrite set_path_cons in Hset. destruct n' as [c|a' b']; [discriminate|].
    rewrite step_children_pair in Hset. cbn [bind] in Hset.
    destruct (summ_pair_inv _ _ _ Hs) as (a & b0 & -> & Ha & Hb).
    rewrite set_path_cons, step_children_pair. cbn [bind]. destruct b.
    + destruct (set_path zh b' p false v') as [x'| |] eqn:E; cbn [bind] in Hset; try discriminate.
      injection Hset as <-. destruct (IH _ _ _ _ _ Hb Hv E) as (x & -> & Hx). cbn [bind].
      eexists. split; [reflexivity|]. now constructor.
    + destruct (set_path zh a' p false v') as [x'| |] eqn:E; cbn [bind] in Hset; try discriminate.
      injection Hset as <-. destruct (IH _ _ _ _ _ Ha Hv E) as (x & -> & Hx). cbn [bind].
      eexists. split; [reflexivity|]. now constructor.
Qed.

Lemma summ_set_noexp_eosR n n' p v v' : summ n n' -> summ v v' ->
  eosR summ (set_path zh n' p false v') (set_path zh n p false v).
Proof.
  intros Hs Hv. destruct (set_path zh n' p false v') as [r'| |] eqn:E.
  - destruct (summ_set_noexp p _ _ _ _ _ Hs Hv E) as (r & Hr & Hrr). right. right. eauto.
  - now left.
  - exfalso. exact (set_path_noexp_total _ _ _ _ E).
Qed.

(* ---- writes with expansion ---- *)
Hypothesis Hzh : forall d, zh d = zero_hash H d.
Notation zcf := (zero_collision_free H zh).

Lemma zcf_leaf c : zcf (Leaf c).
Proof.
  intros p m k Hg Hr. destruct p; [|discriminate]. cbn in Hg. injection Hg as <-.
  cbn in Hr. subst c. constructor.
Qed.

Lemma zcf_pair a b : zcf (Pair a b) -> zcf a /\ zcf b.
Proof.
  intros Hz. split; intros p m k Hg Hr.
  - apply (Hz (false :: p) m k); assumption.
  - apply (Hz (true :: p) m k); assumption.
Qed.

Lemma zcf_sub n p m : zcf n -> get_path n p = OK m -> zcf m.
Proof.
  intros Hz Hg q x k Hq Hr. apply (Hz (p ++ q) x k); [|exact Hr].
  rewrite (get_path_app _ _ _ _ Hg). exact Hq.
Qed.

Lemma zt_summ k m : zt zh k m -> summ m (Leaf (zh k)).
Proof. intros Hz. rewrite <- (zt_root H zh Hzh k m Hz). constructor. Qed.

Lemma zpf_root m : zero_preimage_free H -> forall k, root_of H m = zh k -> zt zh k m.
Proof.
  intros Hp. induction m as [c|a IHa b IHb]; intros k Hr; cbn [root_of] in Hr.
  - subst c. constructor.
  - rewrite Hzh in Hr. destruct (Hp _ _ _ Hr) as (k' & -> & Ea & Eb).
    rewrite <- Hzh in Ea, Eb. constructor; auto.
Qed.

Lemma zpf_zcf n : zero_preimage_free H -> zcf n.
Proof. intros Hp p m k _ Hr. now apply zpf_root. Qed.

(* the heart: an expanding write into the partial tree is matched by the same write into the
   full tree; the results are again full tree / partial tree *)
Lemma summ_set_expand p : forall n n' v v' r',
  zcf n -> summ n n' -> summ v v' -> set_path zh n' p true v' = OK r' ->
  exists r, set_path zh n p true v = OK r /\ summ r r'.
Proof.
  induction p as [|b p IH]; intros n n' v v' r' Hz Hs Hv Hset.
  - cbn in Hset. injection Hset as <-. exists v. split; [reflexivity|exact Hv].
  - rewrite set_path_cons in Hset.
    destruct (step_children zh n' (length p) true) as [[l' r0']| |] eqn:Est; cbn [bind] in Hset;
      try discriminate.
    assert (Hkids : exists l r0, step_children zh n (length p) true = OK (l, r0) /\
                                 summ l l' /\ summ r0 r0' /\ zcf l /\ zcf r0).
    { destruct (step_children_ok zh _ _ _ _ _ Est) as [->|(_ & -> & Hk & -> & ->)].
      - destruct (summ_pair_inv _ _ _ Hs) as (a & b0 & -> & Ha & Hb).
        destruct (zcf_pair _ _ Hz) as [Hza Hzb].
        exists a, b0. rewrite step_children_pair. auto.
      - pose proof (summ_to_leaf _ _ Hs) as Hroot.
        pose proof (Hz [] n (S (length p)) (get_path_nil n) Hroot) as Hzt.
        inversion Hzt as [d0 Ed Ec|d0 a0 c0 Ha Hc Ed Ec]; subst.
        + exists (Leaf (zh (length p))), (Leaf (zh (length p))).
          rewrite Est. repeat split; try constructor; apply zcf_leaf.
        + destruct (zcf_pair _ _ Hz) as [Hza Hzb].
          exists a0, c0. rewrite step_children_pair. repeat split; auto; now apply zt_summ. }
    destruct Hkids as (l & r0 & Est0 & Hl & Hr & Hzl & Hzr).
    rewrite set_path_cons, Est0. cbn [bind]. destruct b.
    + destruct (set_path zh r0' p true v') as [x'| |] eqn:E; cbn [bind] in Hset; try discriminate.
      injection Hset as <-. destruct (IH _ _ _ _ _ Hzr Hr Hv E) as (x & -> & Hx). cbn [bind].
      eexists. split; [reflexivity|]. now constructor.
    + destruct (set_path zh l' p true v') as [x'| |] eqn:E; cbn [bind] in Hset; try discriminate.
      injection Hset as <-. destruct (IH _ _ _ _ _ Hzl Hl Hv E) as (x & -> & Hx). cbn [bind].
      eexists. split; [reflexivity|]. now constructor.
Qed.

Lemma summ_set_expand_eosR n n' p v v' : (length p <= 65)%nat ->
  zcf n -> summ n n' -> summ v v' ->
  eosR summ (set_path zh n' p true v') (set_path zh n p true v).
Proof.
  intros Hlen Hz Hs Hv. destruct (set_path zh n' p true v') as [r'| |] eqn:E.
  - destruct (summ_set_expand p _ _ _ _ _ Hz Hs Hv E) as (r & Hr & Hrr). right. right. eauto.
  - now left.
  - exfalso. exact (set_path_total zh p _ _ _ Hlen E).
Qed.

(* both flags at once *)
Lemma summ_set_any n n' p e v v' r' :
  (e = true -> zcf n) -> summ n n' -> summ v v' -> set_path zh n' p e v' = OK r' ->
  exists r, set_path zh n p e v = OK r /\ summ r r'.
Proof.
  intros Hz Hs Hv Hset. destruct e.
  - eapply summ_set_expand; eauto.
  - eapply summ_set_noexp; eauto.
Qed.

End WithZero.
End Summ.

(* ------------------------------------------------------------------------------------- *)
(* 3. reads                                                                              *)
(* ------------------------------------------------------------------------------------- *)

(* ---- 3.0 error-or-same, generic ---- *)

Lemma eos_eosR {A} (r' r : res A) : eos r' r <-> eosR eq r' r.
Proof.
  unfold eos, eosR. split.
  - intros [->| ->]; [now left|].
    destruct r as [a| |]; [right; right; eauto|now left|right; left; auto].
  - intros [->|[[-> ->]|(a & a' & -> & -> & ->)]]; auto.
Qed.

Lemma eosR_ok {A} (R : A -> A -> Prop) a a' : R a a' -> eosR R (OK a') (OK a).
Proof. intros Hr. right. right. eauto. Qed.

Lemma eosR_err {A} (R : A -> A -> Prop) r : eosR R Err r.
Proof. now left. Qed.

Lemma eosR_same {A} (R : A -> A -> Prop) r : (forall a, R a a) -> eosR R r r.
Proof. intros Hr. destruct r as [a| |]; [right; right; eauto|now left|right; left; auto]. Qed.

Lemma eosR_mono {A} (R S : A -> A -> Prop) r' r :
  (forall a a', R a a' -> S a a') -> eosR R r' r -> eosR S r' r.
Proof.
  intros HRS [->|[[-> ->]|(a & a' & -> & -> & Hr)]]; [now left|right; left; auto|].
  right. right. exists a, a'. repeat split; auto.
Qed.

Lemma eosR_bind {A B} (R : A -> A -> Prop) (S : B -> B -> Prop) r' r k' k :
  eosR R r' r -> (forall a a', R a a' -> eosR S (k' a') (k a)) ->
  eosR S (bind r' k') (bind r k).
Proof.
  intros [->|[[-> ->]|(a & a' & -> & -> & Hr)]] Hk; cbn [bind];
    [now left|right; left; auto|auto].
Qed.

Lemma eosR_strengthen {A} (R : A -> A -> Prop) (P : A -> Prop) r' r :
  eosR R r' r -> (forall a, r = OK a -> P a) -> eosR (fun a a' => R a a' /\ P a) r' r.
Proof.
  intros [->|[[-> ->]|(a & a' & -> & -> & Hr)]] HP; [now left|right; left; auto|].
  right. right. exists a, a'. repeat split; auto.
Qed.

Lemma eosR_no_panic {A} (R : A -> A -> Prop) r' r : eosR R r' r -> r <> Panic -> r' <> Panic.
Proof.
  intros [->|[[-> ->]|(a & a' & -> & -> & Hr)]] Hn; try discriminate. congruence.
Qed.

Lemma eos_bind {A B} (R : A -> A -> Prop) r' r (k' k : A -> res B) :
  eosR R r' r -> (forall a a', R a a' -> eos (k' a') (k a)) -> eos (bind r' k') (bind r k).
Proof.
  intros Hr Hk. apply eos_eosR. eapply eosR_bind; [exact Hr|].
  intros a a' Ha. apply eos_eosR. auto.
Qed.

Lemma eos_refl {A} (r : res A) : eos r r.
Proof. now right. Qed.

Lemma eos_no_panic {A} (r' r : res A) : eos r' r -> r <> Panic -> r' <> Panic.
Proof. intros [->| ->]; [discriminate|auto]. Qed.

Lemma Forall2_eq_eq {A} (l l' : list A) : Forall2 eq l l' -> l = l'.
Proof. induction 1; congruence. Qed.

Lemma mapM_eosR {A B} (R : A -> A -> Prop) (S : B -> B -> Prop) (f' f : A -> res B) :
  forall l l', Forall2 R l l' -> (forall a a', R a a' -> eosR S (f' a') (f a)) ->
  eosR (Forall2 S) (mapM f' l') (mapM f l).
Proof.
  intros l l' HF Hf. induction HF as [|a a' l l' Ha HF IH]; cbn [mapM].
  - apply eosR_ok. constructor.
  - eapply eosR_bind; [apply Hf, Ha|]. intros y y' Hy.
    eapply eosR_bind; [exact IH|]. intros ys ys' Hys. apply eosR_ok. now constructor.
Qed.

Lemma mapM_eos {A B} (R : A -> A -> Prop) (f' f : A -> res B) l l' :
  Forall2 R l l' -> (forall a a', R a a' -> eos (f' a') (f a)) -> eos (mapM f' l') (mapM f l).
Proof.
  intros HF Hf. apply eos_eosR.
  eapply eosR_mono; [|eapply (mapM_eosR R eq); [exact HF|]].
  - intros ys ys' Hys. now apply Forall2_eq_eq.
  - intros a a' Ha. apply eos_eosR. auto.
Qed.

Lemma mapM_eosR_same {A B} (S : B -> B -> Prop) (f' f : A -> res B) : forall l,
  (forall x, In x l -> eosR S (f' x) (f x)) -> eosR (Forall2 S) (mapM f' l) (mapM f l).
Proof.
  induction l as [|x l IH]; intros Hf; cbn [mapM].
  - apply eosR_ok. constructor.
  - eapply eosR_bind; [apply Hf; now left|]. intros y y' Hy.
    eapply eosR_bind; [apply IH; intros z Hz; apply Hf; now right|].
    intros ys ys' Hys. apply eosR_ok. now constructor.
Qed.

Section Reads.
Variable H : chunk -> chunk -> chunk.
Variable zh : nat -> chunk.
Notation summ := (summ H).
Notation backs := (backs zh).

Definition leafy (m : node) : Prop := exists c, m = Leaf c.

Lemma leafy_leaf c : leafy (Leaf c).
Proof. exists c. reflexivity. Qed.

Lemma summ_leafy m m' : summ m m' -> leafy m -> m' = m.
Proof. intros Hs [c ->]. now apply summ_leaf_inv in Hs. Qed.

Lemma Forall2_summ_leafy ns ns' :
  Forall2 (fun m m' => summ m m' /\ leafy m) ns ns' -> ns' = ns.
Proof.
  induction 1 as [|m m' ns ns' [Hs Hl] HF IH]; [reflexivity|].
  rewrite (summ_leafy _ _ Hs Hl), IH. reflexivity.
Qed.

(* ---- 3.1 bottom nodes ---- *)

Lemma bottom_pair a b d q :
  bottom (Pair a b) (d + 1) q = bottom (if N.testbit q d then b else a) d q.
Proof. unfold bottom. rewrite index_path_cons. reflexivity. Qed.

Lemma bottom_0 n q : bottom n 0 q = OK n.
Proof. unfold bottom, index_path. change (N.to_nat 0) with 0%nat. cbn [seq map]. apply get_path_nil. Qed.

Lemma bottom_leaf c d q m : bottom (Leaf c) d q = OK m -> m = Leaf c.
Proof.
  unfold bottom. destruct (index_path d q) as [|b p]; cbn [get_path]; [|discriminate].
  now intros [= <-].
Qed.

Lemma summ_bottom n n' d q : summ n n' -> eosR summ (bottom n' d q) (bottom n d q).
Proof. intros Hs. now apply summ_get_eosR. Qed.

Lemma summ_getter n n' g : summ n n' -> eosR summ (getter n' g) (getter n g).
Proof. intros Hs. now apply summ_get_eosR. Qed.

Lemma summ_get_node t n n' i : summ n n' -> eosR summ (get_node t n' i) (get_node t n i).
Proof.
  intros Hs. unfold get_node.
  destruct (to_gindex64 i (view_depth t)) as [g| |]; cbn [bind];
    [now apply summ_getter|apply eosR_err|right; left; auto].
Qed.

(* get_node in terms of bottom *)
Lemma get_node_ok t n i m : get_node t n i = OK m ->
  view_depth t < 64 /\ i < 2 ^ view_depth t /\ bottom n (view_depth t) i = OK m.
Proof.
  unfold get_node. rewrite to_gindex64_spec.
  destruct (N.ltb_spec (view_depth t) 64) as [Hd|Hd]; cbn [andb bind]; [|discriminate].
  destruct (N.ltb_spec i (2 ^ view_depth t)) as [Hi|Hi]; cbn [bind]; [|discriminate].
  intros Hg. rewrite bottom_getter by assumption. auto.
Qed.

(* the node iterator on the partial tree: error, or the bottom nodes of the full tree up to
   summaries; P is whatever is known about the bottom nodes of the full tree *)
Lemma summ_node_iter (P : node -> Prop) n n' len depth :
  summ n n' ->
  (forall i m, i < len -> bottom n depth i = OK m -> P m) ->
  eosR (Forall2 (fun m m' => summ m m' /\ P m))
       (node_iter_all n' len depth) (node_iter_all n len depth).
Proof.
  intros Hs HP. destruct (node_iter_ok depth len) eqn:Hok.
  2:{ unfold node_iter_all. rewrite Hok. apply eosR_err. }
  destruct (N.lt_ge_cases depth 64) as [Hd|Hd].
  - apply (node_iter_ok_spec depth len Hd) in Hok.
    rewrite !node_iter_all_spec by assumption.
    apply mapM_eosR_same. intros k Hk. apply seq_in_lt in Hk.
    apply eosR_strengthen; [now apply summ_bottom|]. intros m Hm. eapply HP; eauto.
  - apply (node_iter_ok_high depth len Hd) in Hok. subst len.
    unfold node_iter_all. destruct (node_iter_ok depth 0); [|apply eosR_err].
    change (nat_of 0) with 0%nat. cbn [node_iter_take]. apply eosR_ok. constructor.
Qed.

Lemma summ_subtree_into_bytes c c' depth len dl :
  summ c c' -> (forall q m, q < len -> bottom c depth q = OK m -> leafy m) ->
  eos (subtree_into_bytes c' depth len dl) (subtree_into_bytes c depth len dl).
Proof.
  intros Hs HP. unfold subtree_into_bytes.
  eapply eos_bind; [apply (summ_node_iter leafy); eauto|].
  intros ns ns' HF. apply Forall2_summ_leafy in HF. subst ns'. apply eos_refl.
Qed.

(* ---- 3.2 the shape of a backing tree ---- *)

Lemma ztree_bottom_leafy : forall d n q m,
  ztree zh d n -> bottom n (N.of_nat d) q = OK m -> leafy m.
Proof.
  induction d as [|d IH]; intros n q m Hz Hb.
  - apply ztree_0 in Hz. subst n. apply bottom_leaf in Hb. subst m. apply leafy_leaf.
  - destruct n as [c|a b].
    + apply bottom_leaf in Hb. subst m. apply leafy_leaf.
    + apply ztree_S_pair in Hz. destruct Hz as [Ha Hb'].
      replace (N.of_nat (S d)) with (N.of_nat d + 1) in Hb by lia. rewrite bottom_pair in Hb.
      destruct (N.testbit q (N.of_nat d)); eapply IH; eauto.
Qed.

(* a series all of whose components are leaves has only leaves at the bottom level (the
   padding consists of zero subtrees: their bottom nodes are zero leaves) *)
Lemma series_all_leafy : forall d (ps : list (node -> Prop)) n q m,
  Forall (fun p : node -> Prop => forall x, p x -> leafy x) ps ->
  series zh d ps n -> bottom n (N.of_nat d) q = OK m -> leafy m.
Proof.
  induction d as [|d IH]; intros ps n q m HF Hs Hb.
  - destruct ps as [|p ps].
    + apply series_nil in Hs. eapply ztree_bottom_leafy; eauto.
    + apply series_0 in Hs. destruct Hs as [_ Hp]. rewrite bottom_0 in Hb. injection Hb as <-.
      inversion HF; subst; auto.
  - destruct n as [c|a b].
    + apply bottom_leaf in Hb. subst m. apply leafy_leaf.
    + rewrite series_pair in Hs.
      replace (N.of_nat (S d)) with (N.of_nat d + 1) in Hb by lia. rewrite bottom_pair in Hb.
      destruct (lenN ps <=? 2 ^ N.of_nat d); destruct Hs as [Ha Hb'].
      * destruct (N.testbit q (N.of_nat d)).
        -- eapply ztree_bottom_leafy; eauto.
        -- eapply IH; eauto.
      * destruct (N.testbit q (N.of_nat d)).
        -- eapply (IH _ b); [apply Forall_skipn'; exact HF|eauto|eauto].
        -- eapply (IH _ a); [apply Forall_firstn'; exact HF|eauto|eauto].
Qed.

Lemma chunks_bottom_leafy d cs n q m :
  series zh d (map is_chunk cs) n -> bottom n (N.of_nat d) q = OK m -> leafy m.
Proof.
  apply series_all_leafy. apply Forall_forall. intros p Hp. apply in_map_iff in Hp.
  destruct Hp as (c & <- & _). intros x ->. apply leafy_leaf.
Qed.

Lemma series_bottom_fun d (ps : list (node -> Prop)) n i (p : node -> Prop) m :
  series zh d ps n -> nth_error ps i = Some p ->
  bottom n (N.of_nat d) (N.of_nat i) = OK m -> p m.
Proof.
  intros Hs Hn Hb. destruct (series_bottom zh d ps n i p Hs Hn) as (m0 & Hm0 & Hp). congruence.
Qed.

Local Ltac dval v Hty := destruct v; try (cbn [has_type] in Hty; discriminate Hty).

Lemma backs_basic t n : match t with TUint _ | TBool | TBytes _ | TRoot => True | _ => False end ->
  backs t n -> leafy n.
Proof.
  intros Ht (v & Hty & Hr). destruct t; try contradiction; dval v Hty; cbn [repr] in Hr;
    subst n; apply leafy_leaf.
Qed.

(* lists: contents under the left child, the length leaf to the right *)
Lemma backs_list t n : is_list_ty t = true -> backs t n ->
  exists c L, n = Pair c (len_leaf L).
Proof.
  intros Ht (v & Hty & Hr). destruct t; try discriminate; dval v Hty; cbn [repr] in Hr;
    destruct Hr as (c & -> & _); eauto.
Qed.

(* packed contents (bits, unsigned integers): every bottom node is a leaf *)
Lemma backs_bitvector k n q m : backs (TBitvector k) n ->
  bottom n (contents_depth (TBitvector k)) q = OK m -> leafy m.
Proof.
  intros (v & Hty & Hr). dval v Hty. cbn [repr] in Hr. rewrite <- cdepth_N.
  eapply chunks_bottom_leafy; eauto.
Qed.

Lemma backs_bitlist k c L q m : backs (TBitlist k) (Pair c L) ->
  bottom c (contents_depth (TBitlist k)) q = OK m -> leafy m.
Proof.
  intros (v & Hty & Hr). dval v Hty. cbn [repr] in Hr. destruct Hr as (c0 & E & Hr).
  injection E as <- _. rewrite <- cdepth_N. eapply chunks_bottom_leafy; eauto.
Qed.

Lemma backs_vector_basic e k n q m : is_basic_elem e = true -> backs (TVector e k) n ->
  bottom n (contents_depth (TVector e k)) q = OK m -> leafy m.
Proof.
  intros Hb (v & Hty & Hr). dval v Hty. rewrite repr_vector, Hb in Hr. rewrite <- cdepth_N.
  eapply chunks_bottom_leafy; eauto.
Qed.

Lemma backs_list_basic e k c L q m : is_basic_elem e = true -> backs (TList e k) (Pair c L) ->
  bottom c (contents_depth (TList e k)) q = OK m -> leafy m.
Proof.
  intros Hb (v & Hty & Hr). dval v Hty. rewrite repr_list, Hb in Hr.
  destruct Hr as (c0 & E & Hr). injection E as <- _. rewrite <- cdepth_N.
  eapply chunks_bottom_leafy; eauto.
Qed.

(* series of subtrees: the bottom nodes back the elements *)
Lemma elems_bottom_backs e d vs n i m :
  forallb (fun x => has_type x e) vs = true ->
  series zh d (map (fun x m => repr zh e m x) vs) n -> i < lenN vs ->
  bottom n (N.of_nat d) i = OK m -> backs e m.
Proof.
  intros Hty Hs Hi Hb. unfold lenN in Hi.
  destruct (nth_error vs (N.to_nat i)) as [x|] eqn:Hx;
    [|apply nth_error_None in Hx; lia].
  exists x. split.
  - rewrite forallb_forall in Hty. apply Hty. eapply nth_error_In; eauto.
  - rewrite <- (N2Nat.id i) in Hb.
    apply (series_bottom_fun d _ n (N.to_nat i) (fun m => repr zh e m x) m Hs); [|exact Hb].
    now rewrite nth_error_map, Hx.
Qed.

Lemma backs_vector_elems e k n i m : is_basic_elem e = false -> backs (TVector e k) n ->
  i < k -> bottom n (contents_depth (TVector e k)) i = OK m -> backs e m.
Proof.
  intros Hb (v & Hty & Hr) Hi Hbot. dval v Hty. rewrite repr_vector, Hb in Hr.
  cbn [has_type] in Hty. apply andb_true_iff in Hty. destruct Hty as [Hlen Hty].
  apply N.eqb_eq in Hlen. rewrite <- cdepth_N in Hbot.
  eapply elems_bottom_backs; eauto. unfold lenN. lia.
Qed.

Lemma backs_list_elems e k c L : is_basic_elem e = false -> backs (TList e k) (Pair c (len_leaf L)) ->
  exists L0, len_leaf L = len_leaf L0 /\
  forall i m, i < L0 -> bottom c (contents_depth (TList e k)) i = OK m -> backs e m.
Proof.
  intros Hb (v & Hty & Hr). dval v Hty. rewrite repr_list, Hb in Hr.
  destruct Hr as (c0 & E & Hr). injection E as <- E.
  cbn [has_type] in Hty. apply andb_true_iff in Hty. destruct Hty as [_ Hty].
  exists (lenN vs). split; [unfold len_leaf; now rewrite E|].
  intros i m Hi Hbot. rewrite <- cdepth_N in Hbot. eapply elems_bottom_backs; eauto.
Qed.

Lemma cont_preds_length : forall fs vs, length fs = length vs ->
  length (cont_preds zh fs vs) = length fs.
Proof.
  induction fs as [|f fs IH]; intros [|x vs] Hl; cbn in *; try lia. f_equal. apply IH. lia.
Qed.

Lemma rfields_ty_nth' : forall fs vs i f, rfields_ty fs vs = true -> nth_error fs i = Some f ->
  exists x, nth_error vs i = Some x /\ has_type x f = true.
Proof.
  induction fs as [|f0 fs IH]; intros [|x0 vs] i f Hty Hf; cbn [rfields_ty] in Hty;
    try discriminate; [destruct i; discriminate|].
  apply andb_true_iff in Hty. destruct Hty as [H0 Hty].
  destruct i; cbn [nth_error] in *.
  - injection Hf as <-. eauto.
  - eapply IH; eauto.
Qed.

Lemma backs_container fs n i f m : backs (TContainer fs) n -> nth_error fs i = Some f ->
  bottom n (contents_depth (TContainer fs)) (N.of_nat i) = OK m -> backs f m.
Proof.
  intros (v & Hty & Hr) Hf Hbot. dval v Hty. rewrite has_type_cont in Hty.
  rewrite repr_container in Hr. rewrite <- cdepth_N in Hbot.
  destruct (rfields_ty_nth' fs vs i f Hty Hf) as (x & Hx & Htx).
  exists x. split; [exact Htx|].
  apply (series_bottom_fun _ _ n i (fun m => repr zh f m x) m Hr); [|exact Hbot].
  now apply cont_preds_nth.
Qed.

Lemma byte_sel sel : sel < 256 -> N_of_byte (hd b0 (pad32 [byte_of_N sel])) = sel.
Proof. intros Hs. change (hd b0 (pad32 [byte_of_N sel])) with (byte_of_N sel).
  rewrite N_of_byte_of_N. now apply N.mod_small. Qed.

(* unions: value under the left child, selector leaf to the right *)
Lemma backs_union none opts n : wf_ty (TUnion none opts) = true -> backs (TUnion none opts) n ->
  exists c s, n = Pair c (Leaf s) /\
    (none && (N_of_byte (hd b0 s) =? 0) = false ->
     forall o, nth_error opts (nat_of (if none then N_of_byte (hd b0 s) - 1 else N_of_byte (hd b0 s))) = Some o ->
               backs o c).
Proof.
  intros Hwf (v & Hty & Hr). dval v Hty. rewrite repr_union in Hr.
  destruct Hr as (c & -> & Hr). exists c, (pad32 [byte_of_N sel]). split; [reflexivity|].
  cbn [wf_ty] in Hwf. apply andb_true_iff in Hwf. destruct Hwf as [Hwf _].
  apply andb_true_iff in Hwf. destruct Hwf as [_ Hcnt]. apply N.leb_le in Hcnt.
  rewrite has_type_union in Hty.
  assert (Hsel : sel < 256).
  { unfold union_count in Hcnt. destruct (none && (sel =? 0)) eqn:E0.
    - apply andb_true_iff in E0. destruct E0 as [_ E0]. apply N.eqb_eq in E0. lia.
    - rewrite rpick_nth_error in Hty.
      destruct (nth_error opts (nat_of (if none then sel - 1 else sel))) as [o|] eqn:Eo;
        [|discriminate].
      assert (nat_of (if none then sel - 1 else sel) < length opts)%nat
        by (apply nth_error_Some; congruence).
      unfold nat_of in *. destruct none; lia. }
  rewrite (byte_sel sel Hsel). intros E0 o Ho. rewrite E0 in Hty.
  rewrite rpick_nth_error, Ho in Hty. destruct ov as [x|]; [|discriminate].
  rewrite rpick_nth_error, Ho in Hr. exists x. auto.
Qed.

(* ---- 3.3 list length, list header ---- *)

Lemma summ_list_header c L n' : summ (Pair c (len_leaf L)) n' ->
  (exists x, n' = Leaf x) \/ exists c', n' = Pair c' (len_leaf L) /\ summ c c'.
Proof.
  intros Hs. destruct (summ_from_pair _ _ _ _ Hs) as [->|(a' & b' & -> & Ha & Hb)]; [eauto|].
  right. unfold len_leaf in *. apply summ_leaf_inv in Hb. subst b'. eauto.
Qed.

Lemma summ_list_length t n n' limit : is_list_ty t = true -> backs t n -> summ n n' ->
  eos (list_length limit n') (list_length limit n).
Proof.
  intros Ht Hb Hs. destruct (backs_list t n Ht Hb) as (c & L & ->).
  destruct (summ_list_header _ _ _ Hs) as [[x ->]|(c' & -> & Hc)]; [now left|now right].
Qed.

End Reads.
