(* PartialProofs.v — proofs for property C12 (partial trees: views whose backing has had
   arbitrary subtrees replaced by their summary roots) about the model files Tree.v, View.v,
   Iter.v and Mut.v.

   ==== small specification vocabulary used by Props/C12.v ====

   [summ H n n']       n' is n with some subtrees replaced by their summary leaf
                       [Leaf (root_of H sub)] (tree.SummaryInto); a leaf is its own summary.
                       Reflexive, transitive ([summ_trans]); [summarize] produces it.
   [zero_collision_free H zh n]
                       no subtree of n that is not a zero subtree has a zero-hash root:
                       whenever the root of a subtree m of n is [zh k], m is a zero subtree
                       of height k ([TreeProofs.zt]).  This is what collision resistance of
                       the pair hash gives; [zero_preimage_free H] (the zero hashes have no
                       other preimage than the pair of the previous zero hash) implies it for
                       every tree ([zpf_zcf]).  It is needed exactly for the writes WITH
                       EXPANSION (Append / Pop): the Go code recognises a zero subtree by the
                       value of its summary root.
   [eos r' r]          := r' = Err \/ r' = r   "error or same" (a Panic of the full tree
                       included in "same").
   [eosR R r' r]       the same with the two results related by R instead of equal:
                       r' = Err, or both Panic, or both OK with R a a'.
   [backs zh t n]      := exists v, has_type v t = true /\ repr zh t n v : the tree n is a
                       well-formed backing of some value of type t.
   [got_sim]           results of a typed Get: equal plain values; sub-view backings up to [summ].
   [step_sim], [iter_sim]  a drained iterator of the partial tree against the one of the full
                       tree: step by step equal (sub-view nodes up to [summ]) until the
                       partial one reports [IErr] and stops.
   [msim], [hsim], [ssim]  mutation results, handles, machine states: same types and hooks,
                       backings related by [summ].
   [mutating o], [op_expands o]  o is Set/Append/Pop/Change; o is Append/Pop (Setter with expand).
   [typed_state], [hooks_dec]    every handle's backing is well typed; hooks point to older handles.
   [osim], [hist_sim]  outcome of one step / of a history of the partial machine against the
                       full machine: an error, or the same result and related states.

   Contents: 1 summaries; 2 navigation and writes; 3 reads (lengths, getters, byte lengths,
   serialisation, iterators); 4 mutations of one handle, the one-handle machine; 5 hypotheses
   from constructors, no panic (C04); 6 examples and the necessity of the collision hypothesis;
   7 facade; 8 read_val; 9 the machine on arbitrary states (sub-views, hooks, histories). *)
From Coq Require Import List NArith ZArith Bool Lia PeanoNat ZifyN ZifyNat ZifyBool.
From Ztyp Require Import Base Bitlen Tree Types Spec View Iter Mut Repr
     BitlenProofs TreeProofs MerkleProofs ReprProofs IterProofs.
Import ListNotations.
Open Scope N_scope.

#[local] Ltac Zify.zify_post_hook ::= Z.div_mod_to_equations.
Local Arguments N.pow : simpl never.
Local Arguments Nat.pow : simpl never.
Local Arguments N.of_nat : simpl never.
Local Arguments N.to_nat : simpl never.
Local Arguments N.div : simpl never.
Local Arguments N.modulo : simpl never.
Local Opaque two64.

(* ------------------------------------------------------------------------------------- *)
(* 0. spec definitions                                                                   *)
(* ------------------------------------------------------------------------------------- *)

Inductive summ (H : chunk -> chunk -> chunk) : node -> node -> Prop :=
| sm_refl n : summ H n n
| sm_sum n : summ H n (Leaf (root_of H n))
| sm_pair a b a' b' : summ H a a' -> summ H b b' -> summ H (Pair a b) (Pair a' b').

Definition zero_collision_free (H : chunk -> chunk -> chunk) (zh : nat -> chunk) (n : node) : Prop :=
  forall p m k, get_path n p = OK m -> root_of H m = zh k -> zt zh k m.

Definition zero_preimage_free (H : chunk -> chunk -> chunk) : Prop :=
  forall a b k, H a b = zero_hash H k ->
    exists k', k = S k' /\ a = zero_hash H k' /\ b = zero_hash H k'.

Definition eos {A} (r' r : res A) : Prop := r' = Err \/ r' = r.

Definition eosR {A} (R : A -> A -> Prop) (r' r : res A) : Prop :=
  r' = Err \/ (r' = Panic /\ r = Panic) \/ exists a a', r = OK a /\ r' = OK a' /\ R a a'.

Definition backs (zh : nat -> chunk) (t : ty) (n : node) : Prop :=
  exists v, has_type v t = true /\ repr zh t n v.

(* ------------------------------------------------------------------------------------- *)
(* 1. summaries: roots, inversion, transitivity, [summarize]                             *)
(* ------------------------------------------------------------------------------------- *)

Section Summ.
Variable H : chunk -> chunk -> chunk.
Notation summ := (summ H).

Lemma summ_root n n' : summ n n' -> root_of H n' = root_of H n.
Proof.
  induction 1 as [n|n|a b a' b' Ha IHa Hb IHb]; cbn [root_of]; try reflexivity.
  now rewrite IHa, IHb.
Qed.

(* the full tree has a leaf: the partial tree has the same leaf *)
Lemma summ_leaf_inv c m' : summ (Leaf c) m' -> m' = Leaf c.
Proof. intros Hs. inversion Hs; subst; reflexivity. Qed.

(* the partial tree has a pair: so has the full tree, children related *)
Lemma summ_pair_inv n a' b' : summ n (Pair a' b') ->
  exists a b, n = Pair a b /\ summ a a' /\ summ b b'.
Proof.
  intros Hs. inversion Hs; subst.
  - exists a', b'. repeat split; constructor.
  - eauto.
Qed.

(* the partial tree has a leaf: it is the root of what the full tree has there *)
Lemma summ_to_leaf n c : summ n (Leaf c) -> root_of H n = c.
Proof. intros Hs. apply summ_root in Hs. cbn [root_of] in Hs. congruence. Qed.

(* the full tree has a pair *)
Lemma summ_from_pair a b n' : summ (Pair a b) n' ->
  n' = Leaf (root_of H (Pair a b)) \/ exists a' b', n' = Pair a' b' /\ summ a a' /\ summ b b'.
Proof.
  intros Hs. inversion Hs; subst.
  - right. exists a, b. repeat split; constructor.
  - now left.
  - right. eauto.
Qed.

Lemma summ_trans a b c : summ a b -> summ b c -> summ a c.
Proof.
  intros Hab. revert c. induction Hab as [n|n|x y x' y' Hx IHx Hy IHy]; intros c Hbc.
  - exact Hbc.
  - apply summ_leaf_inv in Hbc. subst c. constructor.
  - destruct (summ_from_pair _ _ _ Hbc) as [->|(x'' & y'' & -> & Hx' & Hy')].
    + cbn [root_of]. rewrite (summ_root _ _ Hx), (summ_root _ _ Hy).
      apply (sm_sum H (Pair x y)).
    + constructor; auto.
Qed.

Section WithZero.
Variable zh : nat -> chunk.

(* summarising the position p *)
Lemma set_summary_summ p : forall n sub n',
  get_path n p = OK sub -> set_path zh n p false (Leaf (root_of H sub)) = OK n' -> summ n n'.
Proof.
  induction p as [|b p IH]; intros n sub n' Hg Hs.
  - rewrite get_path_nil in Hg. injection Hg as <-. cbn in Hs. injection Hs as <-. constructor.
  - destruct n as [c|l r]; [discriminate|]. rewrite get_path_pair in Hg.
    rewrite set_path_cons, step_children_pair in Hs. cbn [bind] in Hs. destruct b.
    + destruct (set_path zh r p false _) as [r'| |] eqn:Er; cbn [bind] in Hs; try discriminate.
      injection Hs as <-. constructor; [constructor|]. eapply IH; eauto.
    + destruct (set_path zh l p false _) as [l'| |] eqn:El; cbn [bind] in Hs; try discriminate.
      injection Hs as <-. constructor; [|constructor]. eapply IH; eauto.
Qed.

Lemma summarize_summ n g n' : summarize zh H n g = OK n' -> summ n n'.
Proof.
  unfold summarize, setter, getter. destruct n as [x|l r].
  - destruct (g =? 1); [|discriminate]. intros [= <-]. constructor.
  - generalize (Pair l r) as n. intros n.
    destruct (set_path zh n (g_path g) false n); cbn [bind]; try discriminate.
    destruct (get_path n (g_path g)) as [sub| |] eqn:Eg; cbn [bind]; try discriminate.
    intros Hs. eapply set_summary_summ; eauto.
Qed.

(* repeated summarising *)
Fixpoint summarize_all (n : node) (gs : list N) : res node :=
  match gs with
  | [] => OK n
  | g :: r => do n1 <- summarize zh H n g; summarize_all n1 r
  end.

Lemma summarize_all_summ gs : forall n n', summarize_all n gs = OK n' -> summ n n'.
Proof.
  induction gs as [|g gs IH]; intros n n' Hs; cbn [summarize_all] in Hs.
  - injection Hs as <-. constructor.
  - destruct (summarize zh H n g) as [n1| |] eqn:E1; cbn [bind] in Hs; try discriminate.
    eapply summ_trans; [eapply summarize_summ; eauto|eauto].
Qed.

(* ------------------------------------------------------------------------------------- *)
(* 2. navigation and writes                                                              *)
(* ------------------------------------------------------------------------------------- *)

Lemma summ_get p : forall n n' m',
  summ n n' -> get_path n' p = OK m' -> exists m, get_path n p = OK m /\ summ m m'.
Proof.
  induction p as [|b p IH]; intros n n' m' Hs Hg.
  - rewrite get_path_nil in Hg. injection Hg as <-. exists n. split; [apply get_path_nil|exact Hs].
  - destruct n' as [c|a' b']; [discriminate|]. rewrite get_path_pair in Hg.
    destruct (summ_pair_inv _ _ _ Hs) as (a & b0 & -> & Ha & Hb). rewrite get_path_pair.
    destruct b; eapply IH; eauto.
Qed.

Lemma summ_get_eosR n n' p : summ n n' -> eosR summ (get_path n' p) (get_path n p).
Proof.
  intros Hs. destruct (get_path n' p) as [m'| |] eqn:Hg.
  - destruct (summ_get p _ _ _ Hs Hg) as (m & Hm & Hmm). right. right. eauto.
  - now left.
  - exfalso. exact (get_path_total _ _ Hg).
Qed.

(* a leaf of the full tree is read as the same leaf or not at all *)
Lemma summ_get_leaf n n' p c : summ n n' -> get_path n p = OK (Leaf c) ->
  get_path n' p = Err \/ get_path n' p = OK (Leaf c).
Proof.
  intros Hs Hg. destruct (summ_get_eosR n n' p Hs) as [E|[[E _]|(a & a' & E1 & E2 & Hr)]].
  - now left.
  - exfalso. exact (get_path_total _ _ E).
  - right. rewrite Hg in E1. injection E1 as <-. apply summ_leaf_inv in Hr. now subst a'.
Qed.

(* writes without expansion *)
Lemma summ_set_noexp p : forall n n' v v' r',
  summ n n' -> summ v v' -> set_path zh n' p false v' = OK r' ->
  exists r, set_path zh n p false v = OK r /\ summ r r'.
Proof.
  induction p as [|b p IH]; intros n n' v v' r' Hs Hv Hset.
  - cbn in Hset. injection Hset as <-. exists v. split; [reflexivity|exact Hv].
  - rewrite set_path_cons in Hset. destruct n' as [c|a' b']; [discriminate|].
    rewrite step_children_pair in Hset. cbn [bind] in Hset.
    destruct (summ_pair_inv _ _ _ Hs) as (a & b0 & -> & Ha & Hb).
    rewrite set_path_cons, step_children_pair. cbn [bind]. destruct b.
    + destruct (set_path zh b' p false v') as [x'| |] eqn:E; cbn [bind] in Hset; try discriminate.
      injection Hset as <-. destruct (IH _ _ _ _ _ Hb Hv E) as (x & -> & Hx). cbn [bind].
      eexists. split; [reflexivity|]. now constructor.
    + destruct (set_path zh a' p false v') as [x'| |] eqn:E; cbn [bind] in Hset; try discriminate.
      injection Hset as <-. destruct (IH _ _ _ _ _ Ha Hv E) as (x & -> & Hx). cbn [bind].
      eexists. split; [reflexivity|]. now constructor.
Qed.

Lemma summ_set_noexp_eosR n n' p v v' : summ n n' -> summ v v' ->
  eosR summ (set_path zh n' p false v') (set_path zh n p false v).
Proof.
  intros Hs Hv. destruct (set_path zh n' p false v') as [r'| |] eqn:E.
  - destruct (summ_set_noexp p _ _ _ _ _ Hs Hv E) as (r & Hr & Hrr). right. right. eauto.
  - now left.
  - exfalso. exact (set_path_noexp_total _ _ _ _ E).
Qed.

(* ---- writes with expansion ---- *)
Hypothesis Hzh : forall d, zh d = zero_hash H d.
Notation zcf := (zero_collision_free H zh).

Lemma zcf_leaf c : zcf (Leaf c).
Proof.
  intros p m k Hg Hr. destruct p; [|discriminate]. cbn in Hg. injection Hg as <-.
  cbn in Hr. subst c. constructor.
Qed.

Lemma zcf_pair a b : zcf (Pair a b) -> zcf a /\ zcf b.
Proof.
  intros Hz. split; intros p m k Hg Hr.
  - apply (Hz (false :: p) m k); assumption.
  - apply (Hz (true :: p) m k); assumption.
Qed.

Lemma zcf_sub n p m : zcf n -> get_path n p = OK m -> zcf m.
Proof.
  intros Hz Hg q x k Hq Hr. apply (Hz (p ++ q) x k); [|exact Hr].
  rewrite (get_path_app _ _ _ _ Hg). exact Hq.
Qed.

Lemma zt_summ k m : zt zh k m -> summ m (Leaf (zh k)).
Proof. intros Hz. rewrite <- (zt_root H zh Hzh k m Hz). constructor. Qed.

Lemma zpf_root m : zero_preimage_free H -> forall k, root_of H m = zh k -> zt zh k m.
Proof.
  intros Hp. induction m as [c|a IHa b IHb]; intros k Hr; cbn [root_of] in Hr.
  - subst c. constructor.
  - rewrite Hzh in Hr. destruct (Hp _ _ _ Hr) as (k' & -> & Ea & Eb).
    rewrite <- Hzh in Ea, Eb. constructor; auto.
Qed.

Lemma zpf_zcf n : zero_preimage_free H -> zcf n.
Proof. intros Hp p m k _ Hr. now apply zpf_root. Qed.

(* the heart: an expanding write into the partial tree is matched by the same write into the
   full tree; the results are again full tree / partial tree *)
Lemma summ_set_expand p : forall n n' v v' r',
  zcf n -> summ n n' -> summ v v' -> set_path zh n' p true v' = OK r' ->
  exists r, set_path zh n p true v = OK r /\ summ r r'.
Proof.
  induction p as [|b p IH]; intros n n' v v' r' Hz Hs Hv Hset.
  - cbn in Hset. injection Hset as <-. exists v. split; [reflexivity|exact Hv].
  - rewrite set_path_cons in Hset.
    destruct (step_children zh n' (length p) true) as [[l' r0']| |] eqn:Est; cbn [bind] in Hset;
      try discriminate.
    assert (Hkids : exists l r0, step_children zh n (length p) true = OK (l, r0) /\
                                 summ l l' /\ summ r0 r0' /\ zcf l /\ zcf r0).
    { destruct (step_children_ok zh _ _ _ _ _ Est) as [->|(_ & -> & Hk & -> & ->)].
      - destruct (summ_pair_inv _ _ _ Hs) as (a & b0 & -> & Ha & Hb).
        destruct (zcf_pair _ _ Hz) as [Hza Hzb].
        exists a, b0. rewrite step_children_pair. auto.
      - pose proof (summ_to_leaf _ _ Hs) as Hroot.
        pose proof (Hz [] n (S (length p)) (get_path_nil n) Hroot) as Hzt.
        inversion Hzt as [d0 Ed Ec|d0 a0 c0 Ha Hc Ed Ec]; subst.
        + exists (Leaf (zh (length p))), (Leaf (zh (length p))).
          rewrite Est. repeat split; try constructor; apply zcf_leaf.
        + destruct (zcf_pair _ _ Hz) as [Hza Hzb].
          exists a0, c0. rewrite step_children_pair. repeat split; auto; now apply zt_summ. }
    destruct Hkids as (l & r0 & Est0 & Hl & Hr & Hzl & Hzr).
    rewrite set_path_cons, Est0. cbn [bind]. destruct b.
    + destruct (set_path zh r0' p true v') as [x'| |] eqn:E; cbn [bind] in Hset; try discriminate.
      injection Hset as <-. destruct (IH _ _ _ _ _ Hzr Hr Hv E) as (x & -> & Hx). cbn [bind].
      eexists. split; [reflexivity|]. now constructor.
    + destruct (set_path zh l' p true v') as [x'| |] eqn:E; cbn [bind] in Hset; try discriminate.
      injection Hset as <-. destruct (IH _ _ _ _ _ Hzl Hl Hv E) as (x & -> & Hx). cbn [bind].
      eexists. split; [reflexivity|]. now constructor.
Qed.

Lemma summ_set_expand_eosR n n' p v v' : (length p <= 65)%nat ->
  zcf n -> summ n n' -> summ v v' ->
  eosR summ (set_path zh n' p true v') (set_path zh n p true v).
Proof.
  intros Hlen Hz Hs Hv. destruct (set_path zh n' p true v') as [r'| |] eqn:E.
  - destruct (summ_set_expand p _ _ _ _ _ Hz Hs Hv E) as (r & Hr & Hrr). right. right. eauto.
  - now left.
  - exfalso. exact (set_path_total zh p _ _ _ Hlen E).
Qed.

(* both flags at once *)
Lemma summ_set_any n n' p e v v' r' :
  (e = true -> zcf n) -> summ n n' -> summ v v' -> set_path zh n' p e v' = OK r' ->
  exists r, set_path zh n p e v = OK r /\ summ r r'.
Proof.
  intros Hz Hs Hv Hset. destruct e.
  - eapply summ_set_expand; eauto.
  - eapply summ_set_noexp; eauto.
Qed.

End WithZero.
End Summ.

(* ------------------------------------------------------------------------------------- *)
(* 3. reads                                                                              *)
(* ------------------------------------------------------------------------------------- *)

(* ---- 3.0 error-or-same, generic ---- *)

Lemma eos_eosR {A} (r' r : res A) : eos r' r <-> eosR eq r' r.
Proof.
  unfold eos, eosR. split.
  - intros [->| ->]; [now left|].
    destruct r as [a| |]; [right; right; eauto|now left|right; left; auto].
  - intros [->|[[-> ->]|(a & a' & -> & -> & ->)]]; auto.
Qed.

Lemma eosR_ok {A} (R : A -> A -> Prop) a a' : R a a' -> eosR R (OK a') (OK a).
Proof. intros Hr. right. right. eauto. Qed.

Lemma eosR_err {A} (R : A -> A -> Prop) r : eosR R Err r.
Proof. now left. Qed.

Lemma eosR_same {A} (R : A -> A -> Prop) r : (forall a, R a a) -> eosR R r r.
Proof. intros Hr. destruct r as [a| |]; [right; right; eauto|now left|right; left; auto]. Qed.

Lemma eosR_mono {A} (R S : A -> A -> Prop) r' r :
  (forall a a', R a a' -> S a a') -> eosR R r' r -> eosR S r' r.
Proof.
  intros HRS [->|[[-> ->]|(a & a' & -> & -> & Hr)]]; [now left|right; left; auto|].
  right. right. exists a, a'. repeat split; auto.
Qed.

Lemma eosR_bind {A B} (R : A -> A -> Prop) (S : B -> B -> Prop) r' r k' k :
  eosR R r' r -> (forall a a', R a a' -> eosR S (k' a') (k a)) ->
  eosR S (bind r' k') (bind r k).
Proof.
  intros [->|[[-> ->]|(a & a' & -> & -> & Hr)]] Hk; cbn [bind];
    [now left|right; left; auto|auto].
Qed.

Lemma eosR_strengthen {A} (R : A -> A -> Prop) (P : A -> Prop) r' r :
  eosR R r' r -> (forall a, r = OK a -> P a) -> eosR (fun a a' => R a a' /\ P a) r' r.
Proof.
  intros [->|[[-> ->]|(a & a' & -> & -> & Hr)]] HP; [now left|right; left; auto|].
  right. right. exists a, a'. repeat split; auto.
Qed.

Lemma eosR_no_panic {A} (R : A -> A -> Prop) r' r : eosR R r' r -> r <> Panic -> r' <> Panic.
Proof.
  intros [->|[[-> ->]|(a & a' & -> & -> & Hr)]] Hn; try discriminate. congruence.
Qed.

Lemma eos_bind {A B} (R : A -> A -> Prop) r' r (k' k : A -> res B) :
  eosR R r' r -> (forall a a', R a a' -> eos (k' a') (k a)) -> eos (bind r' k') (bind r k).
Proof.
  intros Hr Hk. apply eos_eosR. eapply eosR_bind; [exact Hr|].
  intros a a' Ha. apply eos_eosR. auto.
Qed.

Lemma eos_refl {A} (r : res A) : eos r r.
Proof. now right. Qed.

Lemma eos_no_panic {A} (r' r : res A) : eos r' r -> r <> Panic -> r' <> Panic.
Proof. intros [->| ->]; [discriminate|auto]. Qed.

Lemma Forall2_eq_eq {A} (l l' : list A) : Forall2 eq l l' -> l = l'.
Proof. induction 1; congruence. Qed.

Lemma mapM_eosR {A B} (R : A -> A -> Prop) (S : B -> B -> Prop) (f' f : A -> res B) :
  forall l l', Forall2 R l l' -> (forall a a', R a a' -> eosR S (f' a') (f a)) ->
  eosR (Forall2 S) (mapM f' l') (mapM f l).
Proof.
  intros l l' HF Hf. induction HF as [|a a' l l' Ha HF IH]; cbn [mapM].
  - apply eosR_ok. constructor.
  - eapply eosR_bind; [apply Hf, Ha|]. intros y y' Hy.
    eapply eosR_bind; [exact IH|]. intros ys ys' Hys. apply eosR_ok. now constructor.
Qed.

Lemma mapM_eos {A B} (R : A -> A -> Prop) (f' f : A -> res B) l l' :
  Forall2 R l l' -> (forall a a', R a a' -> eos (f' a') (f a)) -> eos (mapM f' l') (mapM f l).
Proof.
  intros HF Hf. apply eos_eosR.
  eapply eosR_mono; [|eapply (mapM_eosR R eq); [exact HF|]].
  - intros ys ys' Hys. now apply Forall2_eq_eq.
  - intros a a' Ha. apply eos_eosR. auto.
Qed.

Lemma mapM_eosR_same {A B} (S : B -> B -> Prop) (f' f : A -> res B) : forall l,
  (forall x, In x l -> eosR S (f' x) (f x)) -> eosR (Forall2 S) (mapM f' l) (mapM f l).
Proof.
  induction l as [|x l IH]; intros Hf; cbn [mapM].
  - apply eosR_ok. constructor.
  - eapply eosR_bind; [apply Hf; now left|]. intros y y' Hy.
    eapply eosR_bind; [apply IH; intros z Hz; apply Hf; now right|].
    intros ys ys' Hys. apply eosR_ok. now constructor.
Qed.

Section Reads.
Variable H : chunk -> chunk -> chunk.
Variable zh : nat -> chunk.
Notation summ := (summ H).
Notation backs := (backs zh).

Definition leafy (m : node) : Prop := exists c, m = Leaf c.

Lemma pair_inj a b a' b' : Pair a b = Pair a' b' -> a = a' /\ b = b'.
Proof. intros E. injection E as -> ->. auto. Qed.

Lemma leafy_leaf c : leafy (Leaf c).
Proof. exists c. reflexivity. Qed.

Lemma summ_leafy m m' : summ m m' -> leafy m -> m' = m.
Proof. intros Hs [c ->]. now apply summ_leaf_inv in Hs. Qed.

Lemma Forall2_summ_leafy ns ns' :
  Forall2 (fun m m' => summ m m' /\ leafy m) ns ns' -> ns' = ns.
Proof.
  induction 1 as [|m m' ns ns' [Hs Hl] HF IH]; [reflexivity|].
  rewrite (summ_leafy _ _ Hs Hl), IH. reflexivity.
Qed.

(* ---- 3.1 bottom nodes ---- *)

Lemma bottom_pair a b d q :
  bottom (Pair a b) (d + 1) q = bottom (if N.testbit q d then b else a) d q.
Proof. unfold bottom. rewrite index_path_cons. reflexivity. Qed.

Lemma bottom_0 n q : bottom n 0 q = OK n.
Proof. unfold bottom, index_path. change (N.to_nat 0) with 0%nat. cbn [seq map]. apply get_path_nil. Qed.

Lemma bottom_leaf c d q m : bottom (Leaf c) d q = OK m -> m = Leaf c.
Proof.
  unfold bottom. destruct (index_path d q) as [|b p]; cbn [get_path]; [|discriminate].
  now intros [= <-].
Qed.

Lemma summ_bottom n n' d q : summ n n' -> eosR summ (bottom n' d q) (bottom n d q).
Proof. intros Hs. now apply summ_get_eosR. Qed.

Lemma summ_getter n n' g : summ n n' -> eosR summ (getter n' g) (getter n g).
Proof. intros Hs. now apply summ_get_eosR. Qed.

Lemma summ_get_node t n n' i : summ n n' -> eosR summ (get_node t n' i) (get_node t n i).
Proof.
  intros Hs. unfold get_node.
  destruct (to_gindex64 i (view_depth t)) as [g| |]; cbn [bind];
    [now apply summ_getter|apply eosR_err|right; left; auto].
Qed.

(* get_node in terms of bottom *)
Lemma get_node_ok t n i m : get_node t n i = OK m ->
  view_depth t < 64 /\ i < 2 ^ view_depth t /\ bottom n (view_depth t) i = OK m.
Proof.
  unfold get_node. rewrite to_gindex64_spec.
  destruct (N.ltb_spec (view_depth t) 64) as [Hd|Hd]; cbn [andb bind]; [|discriminate].
  destruct (N.ltb_spec i (2 ^ view_depth t)) as [Hi|Hi]; cbn [bind]; [|discriminate].
  intros Hg. rewrite bottom_getter by assumption. auto.
Qed.

(* the node iterator on the partial tree: error, or the bottom nodes of the full tree up to
   summaries; P is whatever is known about the bottom nodes of the full tree *)
Lemma summ_node_iter (P : node -> Prop) n n' len depth :
  summ n n' ->
  (forall i m, i < len -> bottom n depth i = OK m -> P m) ->
  eosR (Forall2 (fun m m' => summ m m' /\ P m))
       (node_iter_all n' len depth) (node_iter_all n len depth).
Proof.
  intros Hs HP. destruct (node_iter_ok depth len) eqn:Hok.
  2:{ unfold node_iter_all. rewrite Hok. apply eosR_err. }
  destruct (N.lt_ge_cases depth 64) as [Hd|Hd].
  - apply (node_iter_ok_spec depth len Hd) in Hok.
    rewrite !node_iter_all_spec by assumption.
    apply mapM_eosR_same. intros k Hk. apply seq_in_lt in Hk.
    apply eosR_strengthen; [now apply summ_bottom|]. intros m Hm. eapply HP; eauto.
  - apply (node_iter_ok_high depth len Hd) in Hok. subst len.
    unfold node_iter_all. destruct (node_iter_ok depth 0); [|apply eosR_err].
    change (nat_of 0) with 0%nat. cbn [node_iter_take]. apply eosR_ok. constructor.
Qed.

Lemma summ_subtree_into_bytes c c' depth len dl :
  summ c c' -> (forall q m, q < len -> bottom c depth q = OK m -> leafy m) ->
  eos (subtree_into_bytes c' depth len dl) (subtree_into_bytes c depth len dl).
Proof.
  intros Hs HP. unfold subtree_into_bytes.
  eapply eos_bind; [apply (summ_node_iter leafy); eauto|].
  intros ns ns' HF. apply Forall2_summ_leafy in HF. subst ns'. apply eos_refl.
Qed.

(* ---- 3.2 the shape of a backing tree ---- *)

Lemma ztree_bottom_leafy : forall d n q m,
  ztree zh d n -> bottom n (N.of_nat d) q = OK m -> leafy m.
Proof.
  induction d as [|d IH]; intros n q m Hz Hb.
  - apply ztree_0 in Hz. subst n. apply bottom_leaf in Hb. subst m. apply leafy_leaf.
  - destruct n as [c|a b].
    + apply bottom_leaf in Hb. subst m. apply leafy_leaf.
    + apply ztree_S_pair in Hz. destruct Hz as [Ha Hb'].
      replace (N.of_nat (S d)) with (N.of_nat d + 1) in Hb by lia. rewrite bottom_pair in Hb.
      destruct (N.testbit q (N.of_nat d)); [eapply (IH b)|eapply (IH a)]; eauto.
Qed.

(* a series all of whose components are leaves has only leaves at the bottom level (the
   padding consists of zero subtrees: their bottom nodes are zero leaves) *)
Lemma series_all_leafy : forall d (ps : list (node -> Prop)) n q m,
  Forall (fun p : node -> Prop => forall x, p x -> leafy x) ps ->
  series zh d ps n -> bottom n (N.of_nat d) q = OK m -> leafy m.
Proof.
  induction d as [|d IH]; intros ps n q m HF Hs Hb.
  - destruct ps as [|p ps].
    + apply (proj1 (series_nil zh _ _)) in Hs. eapply ztree_bottom_leafy; eauto.
    + apply (proj1 (series_0 zh _ _ _)) in Hs. destruct Hs as [_ Hp]. rewrite bottom_0 in Hb. injection Hb as <-.
      inversion HF; subst; auto.
  - destruct n as [c|a b].
    + apply bottom_leaf in Hb. subst m. apply leafy_leaf.
    + rewrite series_pair in Hs.
      replace (N.of_nat (S d)) with (N.of_nat d + 1) in Hb by lia. rewrite bottom_pair in Hb.
      destruct (lenN ps <=? 2 ^ N.of_nat d); destruct Hs as [Ha Hb'].
      * destruct (N.testbit q (N.of_nat d)).
        -- eapply (ztree_bottom_leafy d b); eauto.
        -- eapply (IH ps a); eauto.
      * destruct (N.testbit q (N.of_nat d)).
        -- eapply (IH _ b); [apply Forall_skipn'; exact HF|eauto|eauto].
        -- eapply (IH _ a); [apply Forall_firstn'; exact HF|eauto|eauto].
Qed.

Lemma chunks_bottom_leafy d cs n q m :
  series zh d (map is_chunk cs) n -> bottom n (N.of_nat d) q = OK m -> leafy m.
Proof.
  apply series_all_leafy. apply Forall_forall. intros p Hp. apply in_map_iff in Hp.
  destruct Hp as (c & <- & _). intros x ->. apply leafy_leaf.
Qed.

Lemma series_bottom_fun d (ps : list (node -> Prop)) n i (p : node -> Prop) m :
  series zh d ps n -> nth_error ps i = Some p ->
  bottom n (N.of_nat d) (N.of_nat i) = OK m -> p m.
Proof.
  intros Hs Hn Hb. destruct (series_bottom zh d ps n i p Hs Hn) as (m0 & Hm0 & Hp). congruence.
Qed.

Local Ltac dval v Hty := destruct v; try (cbn [has_type] in Hty; discriminate Hty).

Lemma backs_basic t n : match t with TUint _ | TBool | TBytes _ | TRoot => True | _ => False end ->
  backs t n -> leafy n.
Proof.
  intros Ht (v & Hty & Hr). destruct t; try contradiction; dval v Hty; cbn [repr] in Hr;
    subst n; apply leafy_leaf.
Qed.

(* lists: contents under the left child, the length leaf to the right *)
Lemma backs_list t n : is_list_ty t = true -> backs t n ->
  exists c L, n = Pair c (len_leaf L).
Proof.
  intros Ht (v & Hty & Hr). destruct t; try discriminate; dval v Hty; cbn [repr] in Hr;
    destruct Hr as (c & -> & _); eauto.
Qed.

(* packed contents (bits, unsigned integers): every bottom node is a leaf *)
Lemma backs_bitvector k n q m : backs (TBitvector k) n ->
  bottom n (contents_depth (TBitvector k)) q = OK m -> leafy m.
Proof.
  intros (v & Hty & Hr). dval v Hty. cbn [repr] in Hr. rewrite <- cdepth_N.
  eapply chunks_bottom_leafy; eauto.
Qed.

Lemma backs_bitlist k c L q m : backs (TBitlist k) (Pair c L) ->
  bottom c (contents_depth (TBitlist k)) q = OK m -> leafy m.
Proof.
  intros (v & Hty & Hr). dval v Hty. cbn [repr] in Hr. destruct Hr as (c0 & E & Hr).
  injection E as <- _. rewrite <- cdepth_N. eapply chunks_bottom_leafy; eauto.
Qed.

Lemma backs_vector_basic e k n q m : is_basic_elem e = true -> backs (TVector e k) n ->
  bottom n (contents_depth (TVector e k)) q = OK m -> leafy m.
Proof.
  intros Hb (v & Hty & Hr). dval v Hty. rewrite repr_vector, Hb in Hr. rewrite <- cdepth_N.
  eapply chunks_bottom_leafy; eauto.
Qed.

Lemma backs_list_basic e k c L q m : is_basic_elem e = true -> backs (TList e k) (Pair c L) ->
  bottom c (contents_depth (TList e k)) q = OK m -> leafy m.
Proof.
  intros Hb (v & Hty & Hr). dval v Hty. rewrite repr_list, Hb in Hr.
  destruct Hr as (c0 & E & Hr). injection E as <- _. rewrite <- cdepth_N.
  eapply chunks_bottom_leafy; eauto.
Qed.

(* series of subtrees: the bottom nodes back the elements *)
Lemma elems_bottom_backs e d vs n i m :
  forallb (fun x => has_type x e) vs = true ->
  series zh d (map (fun x m => repr zh e m x) vs) n -> i < lenN vs ->
  bottom n (N.of_nat d) i = OK m -> backs e m.
Proof.
  intros Hty Hs Hi Hb. unfold lenN in Hi.
  destruct (nth_error vs (N.to_nat i)) as [x|] eqn:Hx;
    [|apply nth_error_None in Hx; lia].
  exists x. split.
  - rewrite forallb_forall in Hty. apply Hty. eapply nth_error_In; eauto.
  - rewrite <- (N2Nat.id i) in Hb.
    apply (series_bottom_fun d _ n (N.to_nat i) (fun m => repr zh e m x) m Hs); [|exact Hb].
    now rewrite nth_error_map, Hx.
Qed.

Lemma backs_vector_elems e k n i m : is_basic_elem e = false -> backs (TVector e k) n ->
  i < k -> bottom n (contents_depth (TVector e k)) i = OK m -> backs e m.
Proof.
  intros Hb (v & Hty & Hr) Hi Hbot. dval v Hty. rewrite repr_vector, Hb in Hr.
  cbn [has_type] in Hty. apply andb_true_iff in Hty. destruct Hty as [Hlen Hty].
  apply N.eqb_eq in Hlen. rewrite <- cdepth_N in Hbot.
  eapply elems_bottom_backs; eauto. unfold lenN. lia.
Qed.

Lemma backs_list_elems e k c L : is_basic_elem e = false -> backs (TList e k) (Pair c (len_leaf L)) ->
  exists L0, len_leaf L = len_leaf L0 /\
  forall i m, i < L0 -> bottom c (contents_depth (TList e k)) i = OK m -> backs e m.
Proof.
  intros Hb (v & Hty & Hr). dval v Hty. rewrite repr_list, Hb in Hr.
  destruct Hr as (c0 & E & Hr). apply pair_inj in E. destruct E as [<- E].
  cbn [has_type] in Hty. apply andb_true_iff in Hty. destruct Hty as [_ Hty].
  exists (lenN vs). split; [exact E|].
  intros i m Hi Hbot. rewrite <- cdepth_N in Hbot. eapply elems_bottom_backs; eauto.
Qed.

Lemma cont_preds_length : forall fs vs, length fs = length vs ->
  length (cont_preds zh fs vs) = length fs.
Proof.
  induction fs as [|f fs IH]; intros [|x vs] Hl; cbn in *; try lia. f_equal. apply IH. lia.
Qed.

Lemma rfields_ty_nth' : forall fs vs i f, rfields_ty fs vs = true -> nth_error fs i = Some f ->
  exists x, nth_error vs i = Some x /\ has_type x f = true.
Proof.
  induction fs as [|f0 fs IH]; intros [|x0 vs] i f Hty Hf; cbn [rfields_ty] in Hty;
    try discriminate; [destruct i; discriminate|].
  apply andb_true_iff in Hty. destruct Hty as [H0 Hty].
  destruct i; cbn [nth_error] in *.
  - injection Hf as <-. eauto.
  - eapply IH; eauto.
Qed.

Lemma backs_container fs n i f m : backs (TContainer fs) n -> nth_error fs i = Some f ->
  bottom n (contents_depth (TContainer fs)) (N.of_nat i) = OK m -> backs f m.
Proof.
  intros (v & Hty & Hr) Hf Hbot. dval v Hty. rewrite has_type_cont in Hty.
  rewrite repr_container in Hr. rewrite <- cdepth_N in Hbot.
  destruct (rfields_ty_nth' fs vs i f Hty Hf) as (x & Hx & Htx).
  exists x. split; [exact Htx|].
  apply (series_bottom_fun _ _ n i (fun m => repr zh f m x) m Hr); [|exact Hbot].
  now apply cont_preds_nth.
Qed.

Lemma byte_sel sel : sel < 256 -> N_of_byte (hd b0 (pad32 [byte_of_N sel])) = sel.
Proof. intros Hs. change (hd b0 (pad32 [byte_of_N sel])) with (byte_of_N sel).
  rewrite N_of_byte_of_N. now apply N.mod_small. Qed.

(* unions: value under the left child, selector leaf to the right *)
Lemma backs_union none opts n : wf_ty (TUnion none opts) = true -> backs (TUnion none opts) n ->
  exists c s, n = Pair c (Leaf s) /\
    (none && (N_of_byte (hd b0 s) =? 0) = false ->
     forall o, nth_error opts (nat_of (if none then N_of_byte (hd b0 s) - 1 else N_of_byte (hd b0 s))) = Some o ->
               backs o c).
Proof.
  intros Hwf (v & Hty & Hr).
  destruct v as [x|x|x|x|x|x|sel ov]; try (cbn [has_type] in Hty; discriminate Hty).
  rewrite repr_union in Hr.
  destruct Hr as (c & -> & Hr). exists c, (pad32 [byte_of_N sel]). split; [reflexivity|].
  cbn [wf_ty] in Hwf. apply andb_true_iff in Hwf. destruct Hwf as [Hwf _].
  apply andb_true_iff in Hwf. destruct Hwf as [_ Hcnt]. apply N.leb_le in Hcnt.
  rewrite has_type_union in Hty.
  assert (Hsel : sel < 256).
  { unfold union_count in Hcnt. destruct (none && (sel =? 0)) eqn:E0.
    - apply andb_true_iff in E0. destruct E0 as [_ E0]. apply N.eqb_eq in E0. lia.
    - rewrite rpick_nth_error in Hty.
      destruct (nth_error opts (nat_of (if none then sel - 1 else sel))) as [o|] eqn:Eo;
        [|discriminate].
      assert (nat_of (if none then sel - 1 else sel) < length opts)%nat
        by (apply nth_error_Some; congruence).
      unfold nat_of in *. destruct none; lia. }
  rewrite (byte_sel sel Hsel). intros E0 o Ho. rewrite E0 in Hty.
  rewrite rpick_nth_error, Ho in Hty. destruct ov as [x|]; [|discriminate].
  rewrite rpick_nth_error, Ho in Hr. exists x. auto.
Qed.

(* ---- 3.3 list length, list header ---- *)

Lemma summ_list_header c L n' : summ (Pair c (len_leaf L)) n' ->
  (exists x, n' = Leaf x) \/ exists c', n' = Pair c' (len_leaf L) /\ summ c c'.
Proof.
  intros Hs. destruct (summ_from_pair _ _ _ _ Hs) as [->|(a' & b' & -> & Ha & Hb)]; [eauto|].
  right. unfold len_leaf in *. apply summ_leaf_inv in Hb. subst b'. eauto.
Qed.

Lemma summ_list_length t n n' limit : is_list_ty t = true -> backs t n -> summ n n' ->
  eos (list_length limit n') (list_length limit n).
Proof.
  intros Ht Hb Hs. destruct (backs_list t n Ht Hb) as (c & L & ->).
  destruct (summ_list_header _ _ _ Hs) as [[x ->]|(c' & -> & Hc)]; [now left|now right].
Qed.


Lemma list_length_len_leaf_le k c L ll : list_length k (Pair c (len_leaf L)) = OK ll -> ll <= L.
Proof.
  unfold list_length, len_leaf.
  change (firstn 8 (pad32 (le_bytes 8 L))) with (le_bytes 8 L). rewrite le_val_le_bytes.
  destruct (k <? _); [discriminate|]. intros [= <-]. apply N.mod_le. apply pow256_nz.
Qed.

Lemma summ_check_index t n n' i : is_list_ty t = true -> backs t n -> summ n n' ->
  eos (check_index t n' i) (check_index t n i).
Proof.
  intros Ht Hb Hs. unfold check_index.
  eapply (eos_bind eq); [apply eos_eosR; eapply summ_list_length; eauto|].
  intros ll ? <-. apply eos_refl.
Qed.

Lemma view_depth_nonlist t : is_list_ty t = false -> view_depth t = contents_depth t.
Proof. intros Ht. unfold view_depth. rewrite Ht. lia. Qed.

Lemma view_depth_list t : is_list_ty t = true -> view_depth t = contents_depth t + 1.
Proof. intros Ht. unfold view_depth. now rewrite Ht. Qed.

(* lists with packed contents: whatever GetNode reaches is a leaf *)
Lemma list_get_node_leafy t c L q a : is_list_ty t = true ->
  (forall q m, bottom c (contents_depth t) q = OK m -> leafy m) ->
  get_node t (Pair c (len_leaf L)) q = OK a -> leafy a.
Proof.
  intros Ht Hc Hg. apply get_node_ok in Hg. destruct Hg as (_ & _ & Hb).
  rewrite (view_depth_list t Ht), bottom_pair in Hb.
  destruct (N.testbit q (contents_depth t)).
  - unfold len_leaf in Hb. apply bottom_leaf in Hb. subst a. apply leafy_leaf.
  - eapply Hc; eauto.
Qed.

(* ---- 3.4 typed getters ---- *)

Definition got_sim (g g' : got) : Prop :=
  match g, g' with
  | GVal v, GVal v' => v = v'
  | GNode e m, GNode e' m' => e = e' /\ summ m m'
  | _, _ => False
  end.

Lemma got_sim_refl g : got_sim g g.
Proof. destruct g; cbn; auto. split; [reflexivity|constructor]. Qed.

(* the packed tail of view_get: a leaf is read *)
Lemma packed_tail_sim (K : chunk -> res got) r' r :
  eosR (fun a a' => summ a a' /\ leafy a) r' r ->
  eosR got_sim (do b <- r'; do c <- leaf_chunk b; K c) (do b <- r; do c <- leaf_chunk b; K c).
Proof.
  intros Hr. eapply eosR_bind; [exact Hr|]. intros b b' [Hs Hl].
  rewrite (summ_leafy _ _ Hs Hl). apply eosR_same. apply got_sim_refl.
Qed.

Lemma node_tail_sim e r' r :
  eosR summ r' r -> eosR got_sim (do c <- r'; OK (GNode e c)) (do c <- r; OK (GNode e c)).
Proof.
  intros Hr. eapply eosR_bind; [exact Hr|]. intros c c' Hc. apply eosR_ok. cbn. auto.
Qed.

Theorem summ_view_get t n n' i : backs t n -> summ n n' ->
  eosR got_sim (view_get t n' i) (view_get t n i).
Proof.
  intros Hb Hs. destruct t as [w| |k| |k|k|e k|e k|fs|none opts]; try apply eosR_err.
  - (* Bitvector *)
    cbn [view_get]. destruct (k <=? i); [apply eosR_err|].
    apply packed_tail_sim. apply eosR_strengthen; [now apply summ_get_node|].
    intros a Ha. apply get_node_ok in Ha. destruct Ha as (_ & _ & Ha).
    rewrite view_depth_nonlist in Ha by reflexivity. eapply backs_bitvector; eauto.
  - (* Bitlist *)
    cbn [view_get].
    eapply (eosR_bind eq); [apply eos_eosR; apply summ_check_index; auto|]. intros _ _ _.
    apply packed_tail_sim. apply eosR_strengthen; [now apply summ_get_node|].
    intros a Ha. destruct (backs_list (TBitlist k) n eq_refl Hb) as (c & L & ->).
    eapply (list_get_node_leafy (TBitlist k)); [reflexivity| |exact Ha].
    intros q m. eapply backs_bitlist; eauto.
  - (* Vector *)
    cbn [view_get]. destruct (k <=? i); [apply eosR_err|].
    destruct (is_basic_elem e) eqn:Hbe.
    + cbv zeta. apply packed_tail_sim. apply eosR_strengthen; [now apply summ_get_node|].
      intros a Ha. apply get_node_ok in Ha. destruct Ha as (_ & _ & Ha).
      rewrite view_depth_nonlist in Ha by reflexivity. eapply backs_vector_basic; eauto.
    + apply node_tail_sim. now apply summ_get_node.
  - (* List *)
    cbn [view_get].
    eapply (eosR_bind eq); [apply eos_eosR; apply summ_check_index; auto|]. intros _ _ _.
    destruct (is_basic_elem e) eqn:Hbe.
    + cbv zeta. apply packed_tail_sim. apply eosR_strengthen; [now apply summ_get_node|].
      intros a Ha. destruct (backs_list (TList e k) n eq_refl Hb) as (c & L & ->).
      eapply (list_get_node_leafy (TList e k)); [reflexivity| |exact Ha].
      intros q m. eapply backs_list_basic; eauto.
    + apply node_tail_sim. now apply summ_get_node.
  - (* Container *)
    cbn [view_get]. destruct (nth_error fs (nat_of i)) as [f|]; [|apply eosR_err].
    apply node_tail_sim. now apply summ_get_node.
Qed.


(* ---- 3.5 ValueByteLength ---- *)

Local Ltac same_step := eapply (eos_bind eq); [apply eosR_same; reflexivity|]; intros ? ? <-.

Lemma node_iter_all_nth n len depth ns i m :
  node_iter_all n len depth = OK ns -> nth_error ns i = Some m ->
  bottom n depth (N.of_nat i) = OK m /\ N.of_nat i < len.
Proof.
  intros Ha Hn. destruct (N.lt_ge_cases depth 64) as [Hd|Hd].
  - eapply node_iter_sound; eauto.
  - exfalso. unfold node_iter_all in Ha. destruct (node_iter_ok depth len) eqn:Hok; [|discriminate].
    apply (node_iter_ok_high depth len Hd) in Hok. subst len.
    change (nat_of 0) with 0%nat in Ha. cbn [node_iter_take] in Ha. injection Ha as <-.
    destruct i; discriminate.
Qed.

(* readable views of the nested fixpoints of byte_len / ser_node *)
Definition blen_go (t : ty) (n : node) : list ty -> N -> N -> res N :=
  fix go (fs : list ty) (i acc : N) : res N :=
  match fs with
  | [] => OK acc
  | f :: fs' =>
    if ti_fixed (info f) then go fs' (i + 1) (add64 acc (ti_size (info f)))
    else
      do g <- to_gindex64 i (view_depth t);
      do c <- getter n g;
      do l <- byte_len f c;
      go fs' (i + 1) (add64 acc (add64 l 4))
  end.

Lemma blen_go_nil t n i acc : blen_go t n [] i acc = OK acc.
Proof. reflexivity. Qed.

Lemma blen_go_cons t n f fs' i acc :
  blen_go t n (f :: fs') i acc =
  if ti_fixed (info f) then blen_go t n fs' (i + 1) (add64 acc (ti_size (info f)))
  else
    do g <- to_gindex64 i (view_depth t);
    do c <- getter n g;
    do l <- byte_len f c;
    blen_go t n fs' (i + 1) (add64 acc (add64 l 4)).
Proof. reflexivity. Qed.

Lemma byte_len_cont fs n :
  byte_len (TContainer fs) n =
  if ti_fixed (info (TContainer fs)) then OK (ti_size (info (TContainer fs)))
  else blen_go (TContainer fs) n fs 0 0.
Proof. reflexivity. Qed.

Lemma byte_len_union none opts c s :
  byte_len (TUnion none opts) (Pair c (Leaf s)) =
  if negb (forallb (fun b => N_of_byte b =? 0) (tl s)) then Err else
  let sel := N_of_byte (hd b0 s) in
  if wrap8 (union_count none opts) <=? sel then Err else
  if none && (sel =? 0) then OK 1 else
  rpick Panic (fun o => do l <- byte_len o c; OK (add64 l 1)) opts
        (nat_of (if none then sel - 1 else sel)).
Proof. reflexivity. Qed.

Fixpoint ser_go (fs : list ty) (ns : list node) (prev_off prev_size : N) (fixed dyn : list byte)
  : res (list byte) :=
  match fs, ns with
  | f :: fs', x :: ns' =>
    if ti_fixed (info f) then
      do bs <- ser_node f x; ser_go fs' ns' prev_off prev_size (fixed ++ bs) dyn
    else
      do l <- byte_len f x;
      do r <- write_offset prev_off prev_size; let '(off, obs) := r in
      do bs <- ser_node f x;
      ser_go fs' ns' off l (fixed ++ obs) (dyn ++ bs)
  | _, _ => OK (fixed ++ dyn)
  end.

Lemma ser_node_cont fs n :
  ser_node (TContainer fs) n =
  do ns <- node_iter_all n (N.of_nat (length fs)) (view_depth (TContainer fs));
  ser_go fs ns (fixed_part_size fs) 0 [] [].
Proof. reflexivity. Qed.

Lemma ser_node_union none opts c s :
  ser_node (TUnion none opts) (Pair c (Leaf s)) =
  if negb (forallb (fun b => N_of_byte b =? 0) (tl s)) then Err else
  let sel := N_of_byte (hd b0 s) in
  if wrap8 (union_count none opts) <=? sel then Err else
  if none && (sel =? 0) then OK [byte_of_N sel] else
  rpick Panic (fun o => do bs <- ser_node o c; OK (byte_of_N sel :: bs)) opts
        (nat_of (if none then sel - 1 else sel)).
Proof. reflexivity. Qed.

Definition len_stmt (t : ty) : Prop :=
  forall n n', wf_ty t = true -> backs t n -> summ n n' ->
  eos (byte_len t n') (byte_len t n).

Definition ser_stmt (t : ty) : Prop :=
  forall n n', wf_ty t = true -> backs t n -> summ n n' ->
  eos (ser_node t n') (ser_node t n).

Notation erel e := (fun m m' : node => summ m m' /\ backs e m).

Lemma elems_len e ns ns' : len_stmt e -> wf_ty e = true -> Forall2 (erel e) ns ns' ->
  eos (mapM (byte_len e) ns') (mapM (byte_len e) ns).
Proof. intros IH Hwf HF. eapply mapM_eos; [exact HF|]. intros m m' [Hs Hb]. now apply IH. Qed.

Lemma elems_ser e ns ns' : ser_stmt e -> wf_ty e = true -> Forall2 (erel e) ns ns' ->
  eos (mapM (ser_node e) ns') (mapM (ser_node e) ns).
Proof. intros IH Hwf HF. eapply mapM_eos; [exact HF|]. intros m m' [Hs Hb]. now apply IH. Qed.

Lemma vector_fixed_basic e k : is_basic_elem e = true -> ti_fixed (info (TVector e k)) = true.
Proof. intros Hb. cbn [info]. rewrite Hb. reflexivity. Qed.

Lemma vector_elems_iter e k n n' : is_basic_elem e = false -> backs (TVector e k) n -> summ n n' ->
  eosR (Forall2 (erel e)) (node_iter_all n' k (view_depth (TVector e k)))
       (node_iter_all n k (view_depth (TVector e k))).
Proof.
  intros Hbe Hb Hs. apply (summ_node_iter (fun m => backs e m)); [exact Hs|].
  intros i m Hi Hbot. rewrite view_depth_nonlist in Hbot by reflexivity.
  eapply backs_vector_elems; eauto.
Qed.

Lemma list_elems_iter e k c c' L ll : is_basic_elem e = false ->
  backs (TList e k) (Pair c (len_leaf L)) -> summ c c' ->
  list_length k (Pair c (len_leaf L)) = OK ll ->
  eosR (Forall2 (erel e)) (node_iter_all c' ll (contents_depth (TList e k)))
       (node_iter_all c ll (contents_depth (TList e k))).
Proof.
  intros Hbe Hb Hs Hll. apply (summ_node_iter (fun m => backs e m)); [exact Hs|].
  intros i m Hi Hbot. destruct (backs_list_elems e k c L Hbe Hb) as (L0 & EL & Hel).
  rewrite EL in Hll. apply list_length_len_leaf_le in Hll. eapply Hel; eauto. lia.
Qed.

Lemma cont_field_getter fs n i g f c : backs (TContainer fs) n -> nth_error fs i = Some f ->
  to_gindex64 (N.of_nat i) (view_depth (TContainer fs)) = OK g -> getter n g = OK c -> backs f c.
Proof.
  intros Hb Hf Hg Hc. rewrite to_gindex64_spec in Hg.
  destruct (N.ltb_spec (view_depth (TContainer fs)) 64) as [Hd|Hd]; cbn [andb] in Hg; [|discriminate].
  destruct (N.ltb_spec (N.of_nat i) (2 ^ view_depth (TContainer fs))) as [Hi|Hi]; [|discriminate].
  injection Hg as <-. rewrite <- bottom_getter in Hc by assumption.
  rewrite view_depth_nonlist in Hc by reflexivity. eapply backs_container; eauto.
Qed.

Lemma blen_go_summ fs n n' :
  backs (TContainer fs) n -> summ n n' ->
  forall fs' j acc, Forall len_stmt fs' -> forallb wf_ty fs' = true ->
  (forall x f, nth_error fs' x = Some f -> nth_error fs (j + x) = Some f) ->
  eos (blen_go (TContainer fs) n' fs' (N.of_nat j) acc) (blen_go (TContainer fs) n fs' (N.of_nat j) acc).
Proof.
  intros Hb Hs. induction fs' as [|f fs' IH]; intros j acc HF Hwf Hnth;
    rewrite ?blen_go_nil, ?blen_go_cons.
  - apply eos_refl.
  - inversion HF as [|f0 l0 IHf HF']; subst. cbn [forallb] in Hwf.
    apply andb_true_iff in Hwf. destruct Hwf as [Hwf Hwfs].
    pose proof (Hnth 0%nat f eq_refl) as Hf. rewrite Nat.add_0_r in Hf.
    replace (N.of_nat j + 1) with (N.of_nat (S j)) by lia.
    assert (Hnth' : forall x f1, nth_error fs' x = Some f1 -> nth_error fs (S j + x) = Some f1).
    { intros x f1 Hx. replace (S j + x)%nat with (j + S x)%nat by lia. now apply Hnth. }
    destruct (ti_fixed (info f)); [now apply IH|].
    destruct (to_gindex64 (N.of_nat j) (view_depth (TContainer fs))) as [g| |] eqn:Hg; cbn [bind];
      [|apply eos_refl|apply eos_refl].
    eapply (eos_bind (erel f)).
    + apply eosR_strengthen; [now apply summ_getter|]. intros c Hc.
      eapply cont_field_getter; eauto.
    + intros c c' [Hsc Hbc]. eapply (eos_bind eq); [apply eos_eosR; now apply IHf|].
      intros l ? <-. now apply IH.
Qed.

Theorem summ_byte_len : forall t, len_stmt t.
Proof.
  apply ty_nind; unfold len_stmt.
  - intros w n n' _ _ _. apply eos_refl.
  - intros n n' _ _ _. apply eos_refl.
  - intros k n n' _ _ _. apply eos_refl.
  - intros n n' _ _ _. apply eos_refl.
  - intros k n n' _ _ _. apply eos_refl.
  - (* Bitlist *)
    intros k n n' _ Hb Hs. cbn [byte_len].
    eapply (eos_bind eq); [apply eos_eosR; eapply (summ_list_length (TBitlist k)); eauto|].
    intros ll ? <-. apply eos_refl.
  - (* Vector *)
    intros e k IHe n n' Hwf Hb Hs. cbn [byte_len].
    destruct (ti_fixed (info (TVector e k))) eqn:Hfx; [apply eos_refl|].
    destruct (is_basic_elem e) eqn:Hbe; [rewrite vector_fixed_basic in Hfx by exact Hbe; discriminate|].
    cbn [wf_ty] in Hwf. apply andb_true_iff in Hwf. destruct Hwf as [_ Hwfe].
    eapply eos_bind; [apply vector_elems_iter; eauto|]. intros ns ns' HF.
    eapply (eos_bind eq); [apply eos_eosR; now apply elems_len|]. intros lens ? <-. apply eos_refl.
  - (* List *)
    intros e k IHe n n' Hwf Hb Hs. cbn [wf_ty] in Hwf.
    destruct (backs_list (TList e k) n eq_refl Hb) as (c & L & ->).
    destruct (summ_list_header _ _ _ Hs) as [[x ->]|(c' & -> & Hc)]; [now left|].
    cbn [byte_len].
    change (list_length k (Pair c' (len_leaf L))) with (list_length k (Pair c (len_leaf L))).
    destruct (list_length k (Pair c (len_leaf L))) as [ll| |] eqn:Hll; cbn [bind];
      [|apply eos_refl|apply eos_refl].
    destruct (is_basic_elem e) eqn:Hbe; cbn [orb]; [apply eos_refl|].
    destruct (ti_fixed (info e)); [apply eos_refl|]. cbn [node_left bind].
    eapply eos_bind; [eapply list_elems_iter; eauto|]. intros ns ns' HF.
    eapply (eos_bind eq); [apply eos_eosR; now apply elems_len|]. intros lens ? <-. apply eos_refl.
  - (* Container *)
    intros fs IHfs n n' Hwf Hb Hs. rewrite !byte_len_cont.
    destruct (ti_fixed (info (TContainer fs))); [apply eos_refl|].
    cbn [wf_ty] in Hwf. apply andb_true_iff in Hwf. destruct Hwf as [_ Hwfs].
    apply (blen_go_summ fs n n' Hb Hs fs 0%nat 0 IHfs Hwfs). intros x f Hx. exact Hx.
  - (* Union *)
    intros none opts IHo n n' Hwf Hb Hs.
    destruct (backs_union none opts n Hwf Hb) as (c & s & -> & Hopt).
    destruct (summ_from_pair _ _ _ _ Hs) as [->|(c' & b' & -> & Hc & Hsel)]; [now left|].
    apply summ_leaf_inv in Hsel. subst b'. rewrite !byte_len_union.
    destruct (negb _); [apply eos_refl|]. cbv zeta.
    destruct (wrap8 (union_count none opts) <=? N_of_byte (hd b0 s)); [apply eos_refl|].
    destruct (none && (N_of_byte (hd b0 s) =? 0)) eqn:E0; [apply eos_refl|].
    rewrite !rpick_nth_error.
    destruct (nth_error opts _) as [o|] eqn:Ho; [|apply eos_refl].
    cbn [wf_ty] in Hwf. apply andb_true_iff in Hwf. destruct Hwf as [_ Hwfo].
    rewrite forallb_forall in Hwfo. rewrite Forall_forall in IHo.
    pose proof (nth_error_In _ _ Ho) as Hin.
    eapply (eos_bind eq); [apply eos_eosR; apply (IHo o Hin); auto|].
    intros l ? <-. apply eos_refl.
Qed.


(* ---- 3.6 Serialize ---- *)

Lemma ser_go_summ : forall fs' ns ns',
  Forall2 summ ns ns' ->
  (forall x f m, nth_error fs' x = Some f -> nth_error ns x = Some m -> backs f m) ->
  Forall ser_stmt fs' -> forallb wf_ty fs' = true ->
  forall po ps fx dy, eos (ser_go fs' ns' po ps fx dy) (ser_go fs' ns po ps fx dy).
Proof.
  induction fs' as [|f fs' IH]; intros ns ns' HF Hty HI Hwf po ps fx dy.
  - destruct HF; cbn [ser_go]; apply eos_refl.
  - destruct HF as [|m m' ns ns' Hm HF]; cbn [ser_go]; [apply eos_refl|].
    inversion HI as [|f0 l0 IHf HI']; subst. cbn [forallb] in Hwf.
    apply andb_true_iff in Hwf. destruct Hwf as [Hwf Hwfs].
    pose proof (Hty 0%nat f m eq_refl eq_refl) as Hbm.
    assert (Hty' : forall x f1 m1, nth_error fs' x = Some f1 -> nth_error ns x = Some m1 -> backs f1 m1).
    { intros x f1 m1 Hx Hn. apply (Hty (S x) f1 m1); assumption. }
    destruct (ti_fixed (info f)).
    + eapply (eos_bind eq); [apply eos_eosR; now apply IHf|]. intros bs ? <-. now apply IH.
    + eapply (eos_bind eq); [apply eos_eosR; now apply summ_byte_len|]. intros l ? <-.
      destruct (write_offset po ps) as [[off obs]| |]; cbn [bind]; [|apply eos_refl|apply eos_refl].
      eapply (eos_bind eq); [apply eos_eosR; now apply IHf|]. intros bs ? <-. now apply IH.
Qed.

(* the tail shared by complex vectors and lists *)
Lemma ser_elems_tail e (fixed : bool) (off0 : N) ns ns' :
  ser_stmt e -> wf_ty e = true -> Forall2 (erel e) ns ns' ->
  eos (if fixed then do bss <- mapM (ser_node e) ns'; OK (concat bss)
       else do lens <- mapM (byte_len e) ns'; do offs <- write_offsets lens off0 0;
            do bss <- mapM (ser_node e) ns'; OK (offs ++ concat bss))
      (if fixed then do bss <- mapM (ser_node e) ns; OK (concat bss)
       else do lens <- mapM (byte_len e) ns; do offs <- write_offsets lens off0 0;
            do bss <- mapM (ser_node e) ns; OK (offs ++ concat bss)).
Proof.
  intros IHe Hwf HF. destruct fixed.
  - eapply (eos_bind eq); [apply eos_eosR; now apply elems_ser|]. intros bss ? <-. apply eos_refl.
  - eapply (eos_bind eq); [apply eos_eosR; apply elems_len; auto; apply summ_byte_len|].
    intros lens ? <-. same_step.
    eapply (eos_bind eq); [apply eos_eosR; now apply elems_ser|]. intros bss ? <-. apply eos_refl.
Qed.

Theorem summ_ser_node : forall t, ser_stmt t.
Proof.
  apply ty_nind; unfold ser_stmt.
  - intros w n n' _ Hb Hs. rewrite (summ_leafy _ _ Hs (backs_basic (TUint w) n I Hb)). apply eos_refl.
  - intros n n' _ Hb Hs. rewrite (summ_leafy _ _ Hs (backs_basic TBool n I Hb)). apply eos_refl.
  - intros k n n' _ Hb Hs. rewrite (summ_leafy _ _ Hs (backs_basic (TBytes k) n I Hb)). apply eos_refl.
  - intros n n' _ Hb Hs. rewrite (summ_leafy _ _ Hs (backs_basic TRoot n I Hb)). apply eos_refl.
  - (* Bitvector *)
    intros k n n' _ Hb Hs. cbn [ser_node]. apply summ_subtree_into_bytes; [exact Hs|].
    intros q m _ Hbot. rewrite view_depth_nonlist in Hbot by reflexivity. eapply backs_bitvector; eauto.
  - (* Bitlist *)
    intros k n n' _ Hb Hs.
    destruct (backs_list (TBitlist k) n eq_refl Hb) as (c & L & ->).
    destruct (summ_list_header _ _ _ Hs) as [[x ->]|(c' & -> & Hc)]; [now left|].
    cbn [ser_node node_left bind].
    change (list_length k (Pair c' (len_leaf L))) with (list_length k (Pair c (len_leaf L))).
    destruct (list_length k (Pair c (len_leaf L))) as [ll| |]; cbn [bind];
      [|apply eos_refl|apply eos_refl].
    cbv zeta. eapply (eos_bind eq).
    + apply eos_eosR. apply summ_subtree_into_bytes; [exact Hc|].
      intros q m _ Hbot. eapply backs_bitlist; eauto.
    + intros bs ? <-. apply eos_refl.
  - (* Vector *)
    intros e k IHe n n' Hwf Hb Hs. cbn [ser_node].
    destruct (is_basic_elem e) eqn:Hbe.
    + apply summ_subtree_into_bytes; [exact Hs|].
      intros q m _ Hbot. rewrite view_depth_nonlist in Hbot by reflexivity.
      eapply backs_vector_basic; eauto.
    + cbn [wf_ty] in Hwf. apply andb_true_iff in Hwf. destruct Hwf as [_ Hwfe].
      eapply eos_bind; [apply vector_elems_iter; eauto|]. intros ns ns' HF.
      now apply ser_elems_tail.
  - (* List *)
    intros e k IHe n n' Hwf Hb Hs. cbn [wf_ty] in Hwf.
    destruct (backs_list (TList e k) n eq_refl Hb) as (c & L & ->).
    destruct (summ_list_header _ _ _ Hs) as [[x ->]|(c' & -> & Hc)].
    { left. cbn [ser_node]. destruct (is_basic_elem e); reflexivity. }
    cbn [ser_node].
    change (list_length k (Pair c' (len_leaf L))) with (list_length k (Pair c (len_leaf L))).
    destruct (is_basic_elem e) eqn:Hbe; cbn [node_left bind].
    + destruct (list_length k (Pair c (len_leaf L))) as [ll| |]; cbn [bind];
        [|apply eos_refl|apply eos_refl].
      cbv zeta. apply summ_subtree_into_bytes; [exact Hc|].
      intros q m _ Hbot. eapply backs_list_basic; eauto.
    + destruct (list_length k (Pair c (len_leaf L))) as [ll| |] eqn:Hll; cbn [bind];
        [|apply eos_refl|apply eos_refl].
      eapply eos_bind; [eapply list_elems_iter; eauto|]. intros ns ns' HF.
      now apply ser_elems_tail.
  - (* Container *)
    intros fs IHfs n n' Hwf Hb Hs. rewrite !ser_node_cont.
    cbn [wf_ty] in Hwf. apply andb_true_iff in Hwf. destruct Hwf as [_ Hwfs].
    set (d := view_depth (TContainer fs)). set (len := N.of_nat (length fs)).
    eapply (eos_bind (fun ns ns' => Forall2 summ ns ns' /\
              forall x m, nth_error ns x = Some m -> bottom n d (N.of_nat x) = OK m)).
    + apply eosR_strengthen.
      * eapply eosR_mono; [|apply (summ_node_iter (fun _ => True)); [exact Hs|auto]].
        intros ns ns' HF. clear -HF. induction HF as [|a a' l l' [Ha _] HF IH]; constructor; auto.
      * intros ns Hns x m Hx. eapply node_iter_all_nth; eauto.
    + intros ns ns' [HF Hbot]. apply ser_go_summ; auto.
      intros x f m Hf Hm. apply Hbot in Hm. unfold d in Hm.
      rewrite view_depth_nonlist in Hm by reflexivity. eapply backs_container; eauto.
  - (* Union *)
    intros none opts IHo n n' Hwf Hb Hs.
    destruct (backs_union none opts n Hwf Hb) as (c & s & -> & Hopt).
    destruct (summ_from_pair _ _ _ _ Hs) as [->|(c' & b' & -> & Hc & Hsel)]; [now left|].
    apply summ_leaf_inv in Hsel. subst b'. rewrite !ser_node_union.
    destruct (negb _); [apply eos_refl|]. cbv zeta.
    destruct (wrap8 (union_count none opts) <=? N_of_byte (hd b0 s)); [apply eos_refl|].
    destruct (none && (N_of_byte (hd b0 s) =? 0)) eqn:E0; [apply eos_refl|].
    rewrite !rpick_nth_error.
    destruct (nth_error opts _) as [o|] eqn:Ho; [|apply eos_refl].
    cbn [wf_ty] in Hwf. apply andb_true_iff in Hwf. destruct Hwf as [_ Hwfo].
    rewrite forallb_forall in Hwfo. rewrite Forall_forall in IHo.
    pose proof (nth_error_In _ _ Ho) as Hin.
    eapply (eos_bind eq); [apply eos_eosR; apply (IHo o Hin); auto|].
    intros l ? <-. apply eos_refl.
Qed.


(* ---- 3.7 the read-only iterators ---- *)

(* one step of the full tree's iterator against the same step on the partial tree *)
Inductive step_sim : istep -> istep -> Prop :=
| ss_val v : step_sim (IVal v) (IVal v)
| ss_node t m m' : summ m m' -> step_sim (INode t m) (INode t m')
| ss_end : step_sim IEnd IEnd
| ss_panic : step_sim IPanic IPanic.

(* the drained iterators: equal step by step until the partial one reports an error *)
Inductive iter_sim : list istep -> list istep -> Prop :=
| is_err l : iter_sim l [IErr]
| is_nil : iter_sim [] []
| is_cons s s' l l' : step_sim s s' -> iter_sim l l' -> iter_sim (s :: l) (s' :: l').

Lemma iter_sim_ends k : iter_sim (repeat IEnd k) (repeat IEnd k).
Proof. induction k; cbn [repeat]; constructor; [constructor|assumption]. Qed.

Lemma steps_of_sim {A} (f : A -> istep) (R : A -> A -> Prop) extra : forall rs rs',
  Forall2 (fun r r' => eosR R r' r) rs rs' ->
  (forall a a', R a a' -> step_sim (f a) (f a')) ->
  iter_sim (steps_of f rs extra) (steps_of f rs' extra).
Proof.
  intros rs rs' HF Hf. induction HF as [|r r' rs rs' Hr HF IH]; cbn [steps_of].
  - apply iter_sim_ends.
  - destruct Hr as [->|[[-> ->]|(a & a' & -> & -> & Ha)]].
    + apply is_err.
    + constructor; constructor.
    + constructor; auto.
Qed.

Lemma Forall2_map_in {A B C} (R : B -> C -> Prop) (f : A -> B) (g : A -> C) l :
  (forall x, In x l -> R (f x) (g x)) -> Forall2 R (map f l) (map g l).
Proof.
  induction l as [|x l IH]; intros Hx; cbn [map]; constructor.
  - apply Hx. now left.
  - apply IH. intros y Hy. apply Hx. now right.
Qed.

Lemma summ_bottom_leafy c c' d q : summ c c' ->
  (forall q m, bottom c d q = OK m -> leafy m) ->
  eosR eq (bottom c' d q) (bottom c d q).
Proof.
  intros Hs Hl. eapply eosR_mono; [|apply eosR_strengthen; [apply (summ_bottom c c' d q Hs)|apply Hl]].
  intros a a' [Ha Hla]. cbv beta in *. symmetry. now apply summ_leafy.
Qed.

Lemma bit_drain_sim c c' len d extra : summ c c' ->
  (forall q m, bottom c d q = OK m -> leafy m) ->
  iter_sim (if bit_iter_ok d len then bit_iter_drain (nat_of len + extra) c len d (bit_iter_init d)
            else [IErr])
           (if bit_iter_ok d len then bit_iter_drain (nat_of len + extra) c' len d (bit_iter_init d)
            else [IErr]).
Proof.
  intros Hs Hl. destruct (bit_iter_ok d len) eqn:Hok; [|apply is_err].
  destruct (N.lt_ge_cases d 64) as [Hd|Hd].
  - destruct (bit_iter_ok_le d len Hd Hok) as [Hle H64]. unfold nat_of.
    rewrite !bit_iter_drain_spec by lia.
    apply (steps_of_sim _ eq); [|intros a ? <-; constructor].
    apply Forall2_map_in. intros k _. unfold bit_elem.
    eapply eosR_bind; [apply summ_bottom_leafy; eauto|]. intros b ? <-. apply eosR_same. reflexivity.
  - apply (bit_iter_ok_high d len Hd) in Hok. subst len.
    rewrite !bit_iter_drain_gen, !gen_drain_end by apply N.le_0_l. apply iter_sim_ends.
Qed.

Lemma basic_drain_sim e c c' len d extra : 1 <= per_node e -> summ c c' ->
  (forall q m, bottom c d q = OK m -> leafy m) ->
  iter_sim (if basic_iter_ok e d len
            then basic_iter_drain (nat_of len + extra) e c len d (basic_iter_init e d) else [IErr])
           (if basic_iter_ok e d len
            then basic_iter_drain (nat_of len + extra) e c' len d (basic_iter_init e d) else [IErr]).
Proof.
  intros Hp Hs Hl. destruct (basic_iter_ok e d len) eqn:Hok; [|apply is_err].
  destruct (N.lt_ge_cases d 64) as [Hd|Hd].
  - destruct (basic_iter_ok_le e d len Hd Hok) as [Hle H64]. unfold nat_of.
    rewrite !basic_iter_drain_spec by lia.
    apply (steps_of_sim _ eq); [|intros a ? <-; constructor].
    apply Forall2_map_in. intros k _. unfold packed_elem. cbv zeta.
    eapply eosR_bind; [apply summ_bottom_leafy; eauto|]. intros b ? <-. apply eosR_same. reflexivity.
  - apply (basic_iter_ok_high e d len Hd) in Hok. subst len.
    rewrite !basic_iter_drain_gen, !gen_drain_end by apply N.le_0_l. apply iter_sim_ends.
Qed.

Lemma vfb_summ t m m' : backs t m -> summ m m' ->
  view_from_backing_ok t m' = true -> view_from_backing_ok t m = true.
Proof.
  intros Hb Hs Hv.
  destruct t as [w| |k| |k|k|e k|e k|fs|none opts]; try (destruct m; reflexivity).
  - rewrite (summ_leafy _ _ Hs (backs_basic (TUint w) m I Hb)) in Hv; exact Hv.
  - rewrite (summ_leafy _ _ Hs (backs_basic TBool m I Hb)) in Hv; exact Hv.
  - rewrite (summ_leafy _ _ Hs (backs_basic (TBytes k) m I Hb)) in Hv; exact Hv.
  - rewrite (summ_leafy _ _ Hs (backs_basic TRoot m I Hb)) in Hv; exact Hv.
Qed.

Lemma node_drain_sim tys c c' len d extra calls : summ c c' ->
  (forall k m t, N.of_nat k < len -> bottom c d (N.of_nat k) = OK m -> tys k = Some t -> backs t m) ->
  calls = nat_of len ->
  iter_sim (if node_iter_ok d len
            then node_iter_drain (calls + extra) tys c len d (ni_init d) O else [IErr])
           (if node_iter_ok d len
            then node_iter_drain (calls + extra) tys c' len d (ni_init d) O else [IErr]).
Proof.
  intros Hs Hty ->. destruct (node_iter_ok d len) eqn:Hok; [|apply is_err].
  destruct (N.lt_ge_cases d 64) as [Hd|Hd].
  - apply (node_iter_ok_spec d len Hd) in Hok. pose proof (pow2_le_64 d Hd). unfold nat_of.
    rewrite !node_iter_drain_init by lia.
    apply (steps_of_sim _ step_sim); [|auto].
    apply Forall2_map_in. intros k Hk. apply seq_in_lt in Hk. unfold node_elem.
    eapply eosR_bind.
    + apply eosR_strengthen; [apply (summ_bottom c c' d (N.of_nat k) Hs)|].
      intros m Hm. exact Hm.
    + intros m m' [Hm Hbot]. cbv beta in Hbot. destruct (tys k) as [t|] eqn:Ht; [|apply eosR_err].
      destruct (view_from_backing_ok t m') eqn:Hv; [|apply eosR_err].
      rewrite (vfb_summ t m m' (Hty k m t Hk Hbot Ht) Hm Hv). apply eosR_ok. now constructor.
  - apply (node_iter_ok_high d len Hd) in Hok. subst len.
    rewrite !node_iter_drain_end by apply N.le_0_l. apply iter_sim_ends.
Qed.

Theorem summ_ro_iter t n n' extra : wf_ty t = true -> backs t n -> summ n n' ->
  iter_sim (ro_iter t n extra) (ro_iter t n' extra).
Proof.
  intros Hwf Hb Hs. destruct t as [w| |k| |k|k|e k|e k|fs|none opts]; try apply is_err.
  - (* Bitvector *)
    cbn [ro_iter]. apply bit_drain_sim; [exact Hs|].
    intros q m Hbot. rewrite view_depth_nonlist in Hbot by reflexivity. eapply backs_bitvector; eauto.
  - (* Bitlist *)
    destruct (backs_list (TBitlist k) n eq_refl Hb) as (c & L & ->).
    destruct (summ_list_header _ _ _ Hs) as [[x ->]|(c' & -> & Hc)]; [apply is_err|].
    cbn [ro_iter].
    change (list_length k (Pair c' (len_leaf L))) with (list_length k (Pair c (len_leaf L))).
    destruct (list_length k (Pair c (len_leaf L))) as [ll| |]; cbn [node_left];
      [|apply is_err|constructor; constructor].
    apply bit_drain_sim; [exact Hc|]. intros q m Hbot. eapply backs_bitlist; eauto.
  - (* Vector *)
    cbn [wf_ty] in Hwf. apply andb_true_iff in Hwf. destruct Hwf as [_ Hwfe].
    cbn [ro_iter]. destruct (is_basic_elem e) eqn:Hbe.
    + apply basic_drain_sim; [apply (packed_index e 0 Hbe Hwfe)|exact Hs|].
      intros q m Hbot. rewrite view_depth_nonlist in Hbot by reflexivity.
      eapply backs_vector_basic; eauto.
    + apply node_drain_sim; [exact Hs| |reflexivity].
      intros i m t Hi Hbot [= <-]. rewrite view_depth_nonlist in Hbot by reflexivity.
      eapply backs_vector_elems; eauto.
  - (* List *)
    cbn [wf_ty] in Hwf.
    destruct (backs_list (TList e k) n eq_refl Hb) as (c & L & ->).
    destruct (summ_list_header _ _ _ Hs) as [[x ->]|(c' & -> & Hc)]; [apply is_err|].
    cbn [ro_iter].
    change (list_length k (Pair c' (len_leaf L))) with (list_length k (Pair c (len_leaf L))).
    destruct (list_length k (Pair c (len_leaf L))) as [ll| |] eqn:Hll; cbn [node_left];
      [|apply is_err|constructor; constructor].
    cbv zeta. destruct (is_basic_elem e) eqn:Hbe.
    + apply basic_drain_sim; [apply (packed_index e 0 Hbe Hwf)|exact Hc|].
      intros q m Hbot. eapply backs_list_basic; eauto.
    + apply node_drain_sim; [exact Hc| |reflexivity].
      intros i m t Hi Hbot [= <-]. destruct (backs_list_elems e k c L Hbe Hb) as (L0 & EL & Hel).
      rewrite EL in Hll. apply list_length_len_leaf_le in Hll. eapply Hel; eauto. lia.
  - (* Container *)
    cbn [ro_iter]. apply node_drain_sim; [exact Hs| |unfold nat_of; now rewrite Nat2N.id].
    intros i m t Hi Hbot Ht. rewrite view_depth_nonlist in Hbot by reflexivity.
    eapply backs_container; eauto.
Qed.

(* the index-based iterator / the getters one by one: every entry is an error or the entry of
   the full tree (Go's index iterator does not stop at an element error) *)
Theorem summ_get_all t n n' : backs t n -> summ n n' ->
  get_all t n' = [IErr] \/
  Forall2 (fun s s' => s' = IErr \/ step_sim s s') (get_all t n) (get_all t n').
Proof.
  intros Hb Hs. unfold get_all.
  assert (Hlen : eos (series_len t n') (series_len t n)).
  { destruct t; try apply eos_refl; cbn [series_len].
    - eapply (summ_list_length (TBitlist n0)); eauto.
    - eapply (summ_list_length (TList t n0)); eauto. }
  destruct Hlen as [->| ->]; [now left|].
  destruct (series_len t n) as [len| |];
    [|now left|right; constructor; [right; constructor|constructor]].
  right. apply Forall2_map_in. intros i _.
  destruct (summ_view_get t n n' (N.of_nat i) Hb Hs) as [->|[[-> ->]|(g & g' & -> & -> & Hg)]].
  - now left.
  - right. constructor.
  - right. destruct g, g'; cbn in Hg; try contradiction; cbn [got_step].
    + subst. constructor.
    + destruct Hg as [-> Hg]. now constructor.
Qed.

End Reads.

(* ------------------------------------------------------------------------------------- *)
(* 4. mutations (the pure instance TM of Mut.v)                                          *)
(* ------------------------------------------------------------------------------------- *)

Lemma biter_run_length : forall fuel it, (length (biter_run fuel it) <= fuel)%nat.
Proof.
  induction fuel as [|f IH]; intros it; cbn [biter_run]; [cbn; lia|].
  destruct (biter_next it) as [it' [r ok]]. destruct ok; cbn [length]; [|lia].
  specialize (IH it'). lia.
Qed.

Lemma g_path_len g : (length (g_path g) <= 65)%nat.
Proof. unfold g_path. pose proof (biter_run_length 64 (fst (g_bit_iter g))). lia. Qed.

Lemma g_path_three : g_path 3 = [true].
Proof. vm_compute. reflexivity. Qed.

Definition packed_ty (t : ty) : bool :=
  match t with
  | TBitvector _ | TBitlist _ => true
  | TVector e _ | TList e _ => is_basic_elem e
  | _ => false
  end.

Definition op_expands (o : op) : bool :=
  match o with OAppend _ _ | OPop _ => true | _ => false end.

Definition mutating (o : op) : bool :=
  match o with OSet _ _ _ | OAppend _ _ | OPop _ | OChange _ _ _ => true | _ => false end.

Section Mutations.
Variable H : chunk -> chunk -> chunk.
Variable zh : nat -> chunk.
Hypothesis Hzh : forall d, zh d = zero_hash H d.
Notation summ := (summ H).
Notation backs := (backs zh).
Notation zcf := (zero_collision_free H zh).
Notation tm_mutate := (mutate node unit p_get (p_set zh) p_leaf p_pair p_chunk (p_zero zh) p_true zh).
Notation tm_resolve := (resolve_src node unit p_leaf p_pair (p_zero zh) p_true zh).

(* results of mutations: the new backing of the full tree against that of the partial tree *)
Definition msim (r r' : node * unit) : Prop := summ (fst r) (fst r').

(* handles and states: same types and hooks, backings related *)
Definition hsim (x x' : handle node) : Prop :=
  h_ty node x = h_ty node x' /\ h_hook node x = h_hook node x' /\
  summ (h_back node x) (h_back node x').
Definition ssim (st st' : tm_state) : Prop :=
  Forall2 hsim (m_handles node unit st) (m_handles node unit st').

Lemma packed_get_node_leafy t a q b : packed_ty t = true -> backs t a ->
  get_node t a q = OK b -> leafy b.
Proof.
  intros Hp Hb Hg. destruct t as [w| |k| |k|k|e k|e k|fs|none opts]; try discriminate.
  - apply get_node_ok in Hg. destruct Hg as (_ & _ & Hg).
    rewrite view_depth_nonlist in Hg by reflexivity. eapply backs_bitvector; eauto.
  - destruct (backs_list zh (TBitlist k) a eq_refl Hb) as (c & L & ->).
    eapply (list_get_node_leafy (TBitlist k)); [reflexivity| |exact Hg].
    intros q0 m. eapply backs_bitlist; eauto.
  - apply get_node_ok in Hg. destruct Hg as (_ & _ & Hg).
    rewrite view_depth_nonlist in Hg by reflexivity. eapply backs_vector_basic; eauto.
  - destruct (backs_list zh (TList e k) a eq_refl Hb) as (c & L & ->).
    eapply (list_get_node_leafy (TList e k)); [reflexivity| |exact Hg].
    intros q0 m. eapply backs_list_basic; eauto.
Qed.

Lemma p_set_sim s s' a a' g e v v' : (e = true -> zcf a) -> summ a a' -> summ v v' ->
  eosR msim (p_set zh s' a' g e v') (p_set zh s a g e v).
Proof.
  intros Hz Hs Hv. unfold p_set, setter. eapply (eosR_bind summ).
  - destruct e.
    + apply (summ_set_expand_eosR H zh Hzh); auto. apply g_path_len.
    + now apply summ_set_noexp_eosR.
  - intros r r' Hr. apply eosR_ok. exact Hr.
Qed.

Lemma tm_set_node_sim t s s' a a' i v v' : summ a a' -> summ v v' ->
  eosR msim (m_set_node node unit (p_set zh) t s' a' i v') (m_set_node node unit (p_set zh) t s a i v).
Proof.
  intros Hs Hv. unfold m_set_node.
  destruct (to_gindex64 i (view_depth t)) as [g| |]; cbn [bind];
    [apply p_set_sim; auto; discriminate|apply eosR_err|right; left; auto].
Qed.

Lemma tm_set_length_sim s s' a a' len : summ a a' ->
  eosR msim (m_set_length node unit (p_set zh) p_leaf s' a' len)
            (m_set_length node unit (p_set zh) p_leaf s a len).
Proof.
  intros Hs. unfold m_set_length. cbn [p_leaf]. apply p_set_sim; [discriminate|exact Hs|constructor].
Qed.

Lemma tm_length_sim t limit s s' a a' : is_list_ty t = true -> backs t a -> summ a a' ->
  eos (m_length node unit p_get p_chunk limit s' a') (m_length node unit p_get p_chunk limit s a).
Proof.
  intros Ht Hb Hs. destruct (backs_list zh t a Ht Hb) as (c & L & ->).
  unfold m_length, p_get, getter. rewrite g_path_three.
  destruct (summ_list_header H _ _ _ Hs) as [[x ->]|(c' & -> & Hc)]; [now left|now right].
Qed.

Lemma tm_check_index_sim t s s' a a' i : is_list_ty t = true -> backs t a -> summ a a' ->
  eos (m_check_index node unit p_get p_chunk t s' a' i) (m_check_index node unit p_get p_chunk t s a i).
Proof.
  intros Ht Hb Hs. unfold m_check_index.
  eapply (eos_bind eq); [apply eos_eosR; eapply tm_length_sim; eauto|]. intros ll ? <-. apply eos_refl.
Qed.

(* reading a packed chunk *)
Lemma chunk_read_sim {X} (R : X -> X -> Prop) t s s' a a' q (K' K : chunk -> res X) :
  packed_ty t = true -> backs t a -> summ a a' ->
  (forall c, eosR R (K' c) (K c)) ->
  eosR R (do b <- m_get_node node unit p_get t s' a' q; do c <- p_chunk s' b; K' c)
         (do b <- m_get_node node unit p_get t s a q; do c <- p_chunk s b; K c).
Proof.
  intros Hp Hb Hs HK.
  change (m_get_node node unit p_get t s' a' q) with (get_node t a' q).
  change (m_get_node node unit p_get t s a q) with (get_node t a q).
  eapply eosR_bind.
  - apply eosR_strengthen; [apply (summ_get_node H t a a' q Hs)|].
    intros b Hg. eapply packed_get_node_leafy; eauto.
  - intros b b' [Hsb Hl]. cbv beta in Hl. rewrite (summ_leafy H _ _ Hsb Hl).
    unfold p_chunk. destruct (leaf_chunk b) as [c| |]; cbn [bind];
      [apply HK|apply eosR_err|right; left; auto].
Qed.

(* the common tail of Append / Pop: a write (possibly expanding), then the new length *)
Lemma set_then_length_sim s s' a a' g e v v' len :
  (e = true -> zcf a) -> summ a a' -> summ v v' ->
  eosR msim
    (do r <- p_set zh s' a' g e v'; let '(a1, s2) := r in
     m_set_length node unit (p_set zh) p_leaf s2 a1 len)
    (do r <- p_set zh s a g e v; let '(a1, s2) := r in
     m_set_length node unit (p_set zh) p_leaf s2 a1 len).
Proof.
  intros Hz Hs Hv. eapply eosR_bind; [now apply p_set_sim|].
  intros [a1 s2] [a1' s2'] Hr. unfold msim in Hr. cbn [fst] in Hr. now apply tm_set_length_sim.
Qed.

Lemma msim_refl r : msim r r.
Proof. unfold msim. constructor. Qed.

Lemma tm_bit_set_sim t s s' a a' i b : packed_ty t = true -> backs t a -> summ a a' ->
  eosR msim (m_bit_set node unit p_get (p_set zh) p_leaf p_chunk t s' a' i b)
            (m_bit_set node unit p_get (p_set zh) p_leaf p_chunk t s a i b).
Proof.
  intros Hp Hb Hs. unfold m_bit_set. apply chunk_read_sim; auto.
  intros c. cbn [p_leaf]. apply tm_set_node_sim; [exact Hs|constructor].
Qed.

Lemma tm_packed_set_sim t e s s' a a' i v : packed_ty t = true -> backs t a -> summ a a' ->
  eosR msim (m_packed_set node unit p_get (p_set zh) p_leaf p_chunk t e s' a' i v)
            (m_packed_set node unit p_get (p_set zh) p_leaf p_chunk t e s a i v).
Proof.
  intros Hp Hb Hs. unfold m_packed_set. cbv zeta. apply chunk_read_sim; auto.
  intros c. destruct (packed_set e c _ v) as [c1| |]; cbn [bind];
    [|apply eosR_err|right; left; auto].
  cbn [p_leaf]. apply tm_set_node_sim; [exact Hs|constructor].
Qed.

Lemma tm_bit_append_sim t limit s s' a a' b :
  packed_ty t = true -> is_list_ty t = true -> backs t a -> zcf a -> summ a a' ->
  eosR msim (m_bit_append node unit p_get (p_set zh) p_leaf p_chunk zh t limit s' a' b)
            (m_bit_append node unit p_get (p_set zh) p_leaf p_chunk zh t limit s a b).
Proof.
  intros Hp Ht Hb Hz Hs. unfold m_bit_append.
  eapply (eosR_bind eq); [apply eos_eosR; eapply tm_length_sim; eauto|]. intros ll ? <-.
  destruct (limit <=? ll); [apply eosR_err|].
  destruct (to_gindex64 (N.shiftr ll 8) (view_depth t)) as [g| |]; cbn [bind];
    [|apply eosR_err|right; left; auto].
  eapply (eosR_bind eq).
  - destruct (N.land ll 255 =? 0); [apply eosR_same; reflexivity|].
    apply chunk_read_sim; auto. intros c. apply eosR_same. reflexivity.
  - intros c1 ? <-. cbn [p_leaf]. apply set_then_length_sim; auto. constructor.
Qed.

Lemma tm_bit_pop_sim t limit s s' a a' :
  packed_ty t = true -> is_list_ty t = true -> backs t a -> zcf a -> summ a a' ->
  eosR msim (m_bit_pop node unit p_get (p_set zh) p_leaf p_chunk t limit s' a')
            (m_bit_pop node unit p_get (p_set zh) p_leaf p_chunk t limit s a).
Proof.
  intros Hp Ht Hb Hz Hs. unfold m_bit_pop.
  eapply (eosR_bind eq); [apply eos_eosR; eapply tm_length_sim; eauto|]. intros ll ? <-.
  destruct (ll =? 0); [apply eosR_err|].
  destruct (to_gindex64 (N.shiftr (ll - 1) 8) (view_depth t)) as [g| |]; cbn [bind];
    [|apply eosR_err|right; left; auto].
  apply chunk_read_sim; auto. intros c. cbn [p_leaf].
  apply set_then_length_sim; auto. constructor.
Qed.

Lemma tm_basic_append_sim t e limit s s' a a' v :
  packed_ty t = true -> is_list_ty t = true -> backs t a -> zcf a -> summ a a' ->
  eosR msim (m_basic_append node unit p_get (p_set zh) p_leaf p_chunk zh t e limit s' a' v)
            (m_basic_append node unit p_get (p_set zh) p_leaf p_chunk zh t e limit s a v).
Proof.
  intros Hp Ht Hb Hz Hs. unfold m_basic_append.
  eapply (eosR_bind eq); [apply eos_eosR; eapply tm_length_sim; eauto|]. intros ll ? <-.
  destruct (limit <=? ll); [apply eosR_err|]. cbv zeta.
  destruct (to_gindex64 (ll / per_node e) (view_depth t)) as [g| |]; cbn [bind];
    [|apply eosR_err|right; left; auto].
  eapply (eosR_bind eq).
  - destruct (ll mod per_node e =? 0); [apply eosR_same; reflexivity|].
    apply chunk_read_sim; auto. intros c. apply eosR_same. reflexivity.
  - intros c1 ? <-. cbn [p_leaf]. apply set_then_length_sim; auto. constructor.
Qed.

Lemma tm_basic_pop_sim t e limit s s' a a' :
  packed_ty t = true -> is_list_ty t = true -> backs t a -> zcf a -> summ a a' ->
  eosR msim (m_basic_pop node unit p_get (p_set zh) p_leaf p_chunk zh t e limit s' a')
            (m_basic_pop node unit p_get (p_set zh) p_leaf p_chunk zh t e limit s a).
Proof.
  intros Hp Ht Hb Hz Hs. unfold m_basic_pop.
  eapply (eosR_bind eq); [apply eos_eosR; eapply tm_length_sim; eauto|]. intros ll ? <-.
  destruct (ll =? 0); [apply eosR_err|]. cbv zeta.
  destruct (to_gindex64 ((ll - 1) / per_node e) (view_depth t)) as [g| |]; cbn [bind];
    [|apply eosR_err|right; left; auto].
  apply chunk_read_sim; auto. intros c.
  destruct (packed_val e (zh 0%nat) _) as [dv| |]; cbn [bind]; [|apply eosR_err|right; left; auto].
  destruct (packed_set e c _ dv) as [c1| |]; cbn [bind]; [|apply eosR_err|right; left; auto].
  cbn [p_leaf]. apply set_then_length_sim; auto. constructor.
Qed.

Lemma tm_complex_append_sim t limit s s' a a' v v' :
  is_list_ty t = true -> backs t a -> zcf a -> summ a a' -> summ v v' ->
  eosR msim (m_complex_append node unit p_get (p_set zh) p_leaf p_chunk t limit s' a' v')
            (m_complex_append node unit p_get (p_set zh) p_leaf p_chunk t limit s a v).
Proof.
  intros Ht Hb Hz Hs Hv. unfold m_complex_append.
  eapply (eosR_bind eq); [apply eos_eosR; eapply tm_length_sim; eauto|]. intros ll ? <-.
  destruct (limit <=? ll); [apply eosR_err|].
  destruct (to_gindex64 ll (view_depth t)) as [g| |]; cbn [bind];
    [|apply eosR_err|right; left; auto].
  apply set_then_length_sim; auto.
Qed.

Lemma tm_complex_pop_sim t limit s s' a a' :
  is_list_ty t = true -> backs t a -> zcf a -> summ a a' ->
  eosR msim (m_complex_pop node unit p_get (p_set zh) p_leaf p_chunk (p_zero zh) t limit s' a')
            (m_complex_pop node unit p_get (p_set zh) p_leaf p_chunk (p_zero zh) t limit s a).
Proof.
  intros Ht Hb Hz Hs. unfold m_complex_pop.
  eapply (eosR_bind eq); [apply eos_eosR; eapply tm_length_sim; eauto|]. intros ll ? <-.
  destruct (ll =? 0); [apply eosR_err|].
  destruct (to_gindex64 (ll - 1) (view_depth t)) as [g| |]; cbn [bind];
    [|apply eosR_err|right; left; auto].
  apply set_then_length_sim; auto. constructor.
Qed.

Lemma tm_slot_set_sim t s s' a a' i v v' : backs t a -> summ a a' -> summ v v' ->
  eosR msim (m_slot_set node unit p_get (p_set zh) p_chunk t s' a' i v')
            (m_slot_set node unit p_get (p_set zh) p_chunk t s a i v).
Proof.
  intros Hb Hs Hv. destruct t as [w| |k| |k|k|e k|e k|fs|none opts]; cbn [m_slot_set];
    try apply eosR_err.
  - destruct (k <=? i); [apply eosR_err|]. now apply tm_set_node_sim.
  - eapply (eosR_bind eq); [apply eos_eosR; eapply tm_check_index_sim; eauto|]. intros _ _ _.
    now apply tm_set_node_sim.
  - destruct (_ <=? i); [apply eosR_err|]. now apply tm_set_node_sim.
Qed.

Lemma get_handle_sim st st' h : ssim st st' ->
  eosR hsim (get_handle node unit st' h) (get_handle node unit st h).
Proof.
  unfold ssim, get_handle. generalize (m_handles node unit st) (m_handles node unit st').
  intros l l' HF. revert h. induction HF as [|x x' l l' Hx HF IH]; intros [|h]; cbn [nth_error];
    try apply eosR_err; [now apply eosR_ok|apply IH].
Qed.

Lemma tm_resolve_sim st st' x w : ssim st st' ->
  eosR msim (tm_resolve st' x w) (tm_resolve st x w).
Proof.
  intros Hst. destruct x as [t v|h|]; cbn [resolve_src].
  - destruct (m_store node unit st), (m_store node unit st'). apply eosR_same. apply msim_refl.
  - eapply eosR_bind; [now apply get_handle_sim|]. intros y y' (_ & _ & Hy).
    apply eosR_ok. exact Hy.
  - destruct (m_store node unit st), (m_store node unit st'). apply eosR_same. apply msim_refl.
Qed.

Local Ltac with_lit X :=
  destruct X as [?lv| |]; cbn [bind]; [|apply eosR_err|right; left; auto].

Local Ltac with_resolve Hst x w :=
  eapply eosR_bind; [apply (tm_resolve_sim _ _ x w Hst)|];
  intros [?b ?s1] [?b' ?s1'] ?Hb'; unfold msim in *; cbn [fst] in *.

(* one mutation of a handle *)
Theorem summ_mutate st st' x x' o :
  ssim st st' -> hsim x x' -> backs (h_ty node x) (h_back node x) ->
  (op_expands o = true -> zcf (h_back node x)) ->
  eosR msim (tm_mutate st' x' o) (tm_mutate st x o).
Proof.
  intros Hst Hx Hb Hz. destruct x as [t a hk], x' as [t' a' hk'].
  destruct Hx as (Et & _ & Hs). cbn [h_ty h_back] in *. subst t'.
  destruct o as [h i|h|h|h i v|h v|h|h sel v]; try apply eosR_err.
  - (* Set *)
    destruct t as [w| |k| |k|k|e k|e k|fs|none opts]; cbn [mutate h_ty h_back]; try apply eosR_err.
    + destruct (k <=? i); [apply eosR_err|]. with_lit (lit_bool v). now apply tm_bit_set_sim.
    + eapply (eosR_bind eq); [apply eos_eosR; eapply tm_check_index_sim; eauto|]. intros _ _ _.
      with_lit (lit_bool v). now apply tm_bit_set_sim.
    + destruct (is_basic_elem e) eqn:Hbe.
      * destruct (k <=? i); [apply eosR_err|]. with_lit (lit_val v). now apply tm_packed_set_sim.
      * with_resolve Hst v (Some e). now apply tm_slot_set_sim.
    + destruct (is_basic_elem e) eqn:Hbe.
      * eapply (eosR_bind eq); [apply eos_eosR; eapply tm_check_index_sim; eauto|]. intros _ _ _.
        with_lit (lit_val v). now apply tm_packed_set_sim.
      * with_resolve Hst v (Some e). now apply tm_slot_set_sim.
    + with_resolve Hst v (@None ty). now apply tm_slot_set_sim.
  - (* Append *)
    specialize (Hz eq_refl).
    destruct t as [w| |k| |k|k|e k|e k|fs|none opts]; cbn [mutate h_ty h_back]; try apply eosR_err.
    + with_lit (lit_bool v). now apply tm_bit_append_sim.
    + destruct (is_basic_elem e) eqn:Hbe.
      * with_lit (lit_val v). now apply tm_basic_append_sim.
      * with_resolve Hst v (Some e). now apply tm_complex_append_sim.
  - (* Pop *)
    specialize (Hz eq_refl).
    destruct t as [w| |k| |k|k|e k|e k|fs|none opts]; cbn [mutate h_ty h_back]; try apply eosR_err.
    + now apply tm_bit_pop_sim.
    + destruct (is_basic_elem e) eqn:Hbe.
      * now apply tm_basic_pop_sim.
      * now apply tm_complex_pop_sim.
  - (* Change *)
    destruct t as [w| |k| |k|k|e k|e k|fs|none opts]; cbn [mutate h_ty h_back]; try apply eosR_err.
    destruct (wrap8 (union_count none opts) <=? sel); [apply eosR_err|].
    eapply (eosR_bind msim).
    + destruct v as [tv vv|hv|]; try apply (tm_resolve_sim _ _ _ _ Hst).
      destruct (negb (sel =? 0)); [apply eosR_err|apply (tm_resolve_sim _ _ _ _ Hst)].
    + intros [c s1] [c' s1'] Hc. unfold msim in Hc. cbn [fst] in Hc.
      cbn [p_leaf p_pair]. apply eosR_ok. unfold msim. cbn [fst]. constructor; [exact Hc|constructor].
Qed.

End Mutations.

(* ---- the machine step on a one-handle state ---- *)

Definition op_target (o : op) : nat :=
  match o with
  | OGet h _ | OUValue h | OCopy h | OSet h _ _ | OAppend h _ | OPop h | OChange h _ _ => h
  end.

Section Step.
Variable H : chunk -> chunk -> chunk.
Variable zh : nat -> chunk.
Hypothesis Hzh : forall d, zh d = zero_hash H d.
Notation summ := (summ H).
Notation backs := (backs zh).
Notation zcf := (zero_collision_free H zh).
Notation tm_mutate := (mutate node unit p_get (p_set zh) p_leaf p_pair p_chunk (p_zero zh) p_true zh).
Notation tm_backing := (set_backing node unit p_get (p_set zh) p_chunk).

Lemma tm_step_mutating st o : mutating o = true ->
  tm_step zh st o =
  match get_handle node unit st (op_target o) with
  | OK x =>
    match tm_mutate st x o with
    | OK (b, s') =>
      let '(st1, r) := tm_backing (hook_fuel node unit st) st (op_target o) b s' in
      (st1, match r with OK _ => OK MUnit | Err => Err | Panic => Panic end)
    | Err => (st, Err)
    | Panic => (st, Panic)
    end
  | Err => (st, Err)
  | Panic => (st, Panic)
  end.
Proof. destruct o; try discriminate; intros _; reflexivity. Qed.

Lemma tm_backing_one t n b s : tm_backing (hook_fuel node unit (tm_init t n)) (tm_init t n) 0 b s =
  (tm_init t b, OK tt).
Proof. destruct s. reflexivity. Qed.

Lemma get_handle_one t n : get_handle node unit (tm_init t n) 0 = OK (mkH node t n None).
Proof. reflexivity. Qed.

(* a mutating operation on a view of the partial tree n': an error that leaves the view as it
   was, or the outcome of the same operation on the full tree n (a Panic of the full tree
   included), with new backings again related by [summ] *)
Theorem summ_tm_step t n n' o : mutating o = true -> backs t n ->
  (op_expands o = true -> zcf n) -> summ n n' ->
  (snd (tm_step zh (tm_init t n') o) = Err /\ fst (tm_step zh (tm_init t n') o) = tm_init t n') \/
  (snd (tm_step zh (tm_init t n') o) = snd (tm_step zh (tm_init t n) o) /\
   exists m m', fst (tm_step zh (tm_init t n) o) = tm_init t m /\
                fst (tm_step zh (tm_init t n') o) = tm_init t m' /\ summ m m').
Proof.
  intros Hm Hb Hz Hs. rewrite !(tm_step_mutating _ o Hm).
  destruct (op_target o) as [|h] eqn:Eh.
  2:{ left. unfold get_handle, tm_init. cbn [m_handles nth_error]. destruct h; auto. }
  rewrite !get_handle_one.
  assert (Hst : ssim H (tm_init t n) (tm_init t n')).
  { unfold ssim, tm_init. cbn [m_handles]. constructor; [|constructor].
    unfold hsim. cbn [h_ty h_hook h_back]. auto. }
  assert (Hx : hsim H (mkH node t n None) (mkH node t n' None)).
  { unfold hsim. cbn [h_ty h_hook h_back]. auto. }
  pose proof (summ_mutate H zh Hzh _ _ _ _ o Hst Hx Hb Hz) as HM.
  destruct HM as [E|[[E1 E2]|((b & s) & (b' & s') & E1 & E2 & Hr)]].
  - left. rewrite E. auto.
  - right. rewrite E1, E2. split; [reflexivity|]. exists n, n'. auto.
  - right. rewrite E1, E2, !tm_backing_one. cbn [fst snd]. split; [reflexivity|].
    exists b, b'. unfold msim in Hr. auto.
Qed.

Corollary summ_tm_step_root t n n' o : mutating o = true -> backs t n ->
  (op_expands o = true -> zcf n) -> summ n n' ->
  snd (tm_step zh (tm_init t n') o) = Err \/
  (snd (tm_step zh (tm_init t n') o) = snd (tm_step zh (tm_init t n) o) /\
   exists m m', fst (tm_step zh (tm_init t n) o) = tm_init t m /\
                fst (tm_step zh (tm_init t n') o) = tm_init t m' /\
                root_of H m' = root_of H m).
Proof.
  intros Hm Hb Hz Hs.
  destruct (summ_tm_step t n n' o Hm Hb Hz Hs) as [[E _]|(E & m & m' & E1 & E2 & Hmm)];
    [now left|right]. split; [exact E|]. exists m, m'. repeat split; auto. now apply summ_root.
Qed.

End Step.

(* ------------------------------------------------------------------------------------- *)
(* 5. how to obtain the hypotheses; never a panic (with C04)                             *)
(* ------------------------------------------------------------------------------------- *)

Lemma from_val_backs H zh t v n : (forall d, zh d = zero_hash H d) ->
  wf_ty t = true -> small_params t = true -> small_fields t = true -> has_type v t = true ->
  from_val zh t v = OK n -> backs zh t n.
Proof.
  intros Hzh Hwf Hsp Hsf Hty E.
  destruct (from_val_repr H zh Hzh t v Hwf Hsp Hsf Hty) as (n0 & E0 & Hr).
  rewrite E in E0. injection E0 as <-. exists v. auto.
Qed.

From Ztyp Require Import VMach MutProofs.

(* C04 shows that a mutation of a well-typed view with a well-typed source never panics; hence
   neither does the same mutation on any partial version of it *)
Corollary summ_mutate_no_panic H zh (Hzh : forall d, zh d = zero_hash H d) tm vm tm' x x' y o :
  R zh tm vm -> hrel zh x y ->
  (forall h s, op_src o = Some (h, s) -> src_fits vm (op_want (vh_ty y) o) s) ->
  ssim H tm tm' -> hsim H x x' ->
  (op_expands o = true -> zero_collision_free H zh (h_back node x)) ->
  mutate node unit p_get (p_set zh) p_leaf p_pair p_chunk (p_zero zh) p_true zh tm' x' o <> Panic.
Proof.
  intros HR Hxy Hfit Hst Hx Hz.
  assert (Hb : backs zh (h_ty node x) (h_back node x)).
  { destruct Hxy as (Ht & _ & _ & Hty & Hr). rewrite Ht. exists (vh_val y). auto. }
  eapply eosR_no_panic; [apply (summ_mutate H zh Hzh tm tm' x x' o Hst Hx Hb Hz)|].
  eapply mutate_no_panic; eauto.
Qed.

(* ------------------------------------------------------------------------------------- *)
(* 6. Examples: the hypotheses are satisfiable; the collision hypothesis is necessary    *)
(* ------------------------------------------------------------------------------------- *)

Notation xH := TreeProofs.xH.
Notation xzh := TreeProofs.xzh.
Notation xc := TreeProofs.xc.

(* a List[uint256, 4] holding [1; 2] (toy hash xH / table xzh of TreeProofs) *)
Definition ex12_ty : ty := TList (TUint 32) 4.
Definition ex12_val : val := VSeq [VUint 1; VUint 2].
Definition ex12_full : node :=
  Pair (Pair (Pair (Leaf (xc 1)) (Leaf (xc 2))) (Leaf (xzh 1))) (len_leaf 2).
(* the pair of elements replaced by its summary root *)
Definition ex12_part : node :=
  Pair (Pair (Leaf (xH (xc 1) (xc 2))) (Leaf (xzh 1))) (len_leaf 2).

Example ex12_from_val : from_val xzh ex12_ty ex12_val = OK ex12_full.
Proof. vm_compute. reflexivity. Qed.

Example ex12_backs : backs xzh ex12_ty ex12_full.
Proof.
  apply (from_val_backs xH xzh ex12_ty ex12_val); try (vm_compute; reflexivity).
Qed.

Example ex12_summarize : summarize xzh xH ex12_full 4 = OK ex12_part.
Proof. vm_compute. reflexivity. Qed.

Example ex12_summ : summ xH ex12_full ex12_part.
Proof. apply (summarize_summ xH xzh ex12_full 4). exact ex12_summarize. Qed.

(* the zero hashes of the toy hash: 0, 7, 63, 255, 255, ... *)
Lemma xzh_stable k : (3 <= k)%nat -> xzh k = xzh 3.
Proof.
  induction 1 as [|k Hk IH]; [reflexivity|].
  change (xzh (S k)) with (xH (xzh k) (xzh k)). rewrite IH. vm_compute. reflexivity.
Qed.

Example ex12_zcf : zero_collision_free xH xzh ex12_full.
Proof.
  intros p m k Hg Hr.
  assert (Hk : exists j, (j <= 3)%nat /\ xzh k = xzh j).
  { destruct (Nat.le_gt_cases k 3) as [Hle|Hgt]; [exists k; auto|].
    exists 3%nat. split; [lia|]. apply xzh_stable. lia. }
  destruct Hk as (j & Hj & Ej).
  assert (Hleaf : forall c, m = Leaf c -> zt xzh k m).
  { intros c ->. cbn [root_of] in Hr. rewrite Hr. constructor. }
  unfold ex12_full in Hg.
  destruct p as [|b1 [|b2 [|b3 [|b4 p]]]]; try destruct b1; try destruct b2; try destruct b3;
    cbn [get_path] in Hg; try discriminate Hg; injection Hg as <-;
    try (eapply Hleaf; reflexivity);
    exfalso; rewrite Ej in Hr;
    destruct j as [|[|[|[|j]]]]; try lia; vm_compute in Hr; discriminate Hr.
Qed.

(* reads: the summarised elements cannot be read, everything else reads as before *)
Example ex12_reads :
  list_length 4 ex12_part = OK 2 /\ list_length 4 ex12_full = OK 2 /\
  view_get ex12_ty ex12_part 0 = Err /\
  view_get ex12_ty ex12_full 0 = OK (GVal (VUint 1)) /\
  ser_node ex12_ty ex12_part = Err /\
  byte_len ex12_ty ex12_part = byte_len ex12_ty ex12_full /\
  ro_iter ex12_ty ex12_part 1 = [IErr] /\
  ro_iter ex12_ty ex12_full 1 = [IVal (VUint 1); IVal (VUint 2); IEnd].
Proof. repeat split; vm_compute; reflexivity. Qed.

(* a mutation that succeeds on both: Append(3) expands the zero summary to the right *)
Definition ex12_op : op := OAppend 0 (SLit (TUint 32) (VUint 3)).

Example ex12_step :
  mutating ex12_op = true /\ op_expands ex12_op = true /\
  tm_step xzh (tm_init ex12_ty ex12_part) ex12_op =
    (tm_init ex12_ty (Pair (Pair (Leaf (xH (xc 1) (xc 2))) (Pair (Leaf (xc 3)) (Leaf (xzh 0))))
                           (len_leaf 3)), OK MUnit) /\
  tm_step xzh (tm_init ex12_ty ex12_full) ex12_op =
    (tm_init ex12_ty (Pair (Pair (Pair (Leaf (xc 1)) (Leaf (xc 2))) (Pair (Leaf (xc 3)) (Leaf (xzh 0))))
                           (len_leaf 3)), OK MUnit).
Proof. repeat split; vm_compute; reflexivity. Qed.

(* a container with the list as a field; the list field summarised as a whole *)
Definition ex12c_ty : ty := TContainer [TUint 8; ex12_ty; TRoot].
Definition ex12c_val : val := VCont [VUint 77; ex12_val; VBytes (repeat Byte.x01 32)].
Definition ex12c_full : node :=
  Pair (Pair (Leaf (xc 77)) ex12_full) (Pair (Leaf (repeat Byte.x01 32)) (Leaf (xzh 0))).
Definition ex12c_part : node :=
  Pair (Pair (Leaf (xc 77)) (Leaf (root_of xH ex12_full)))
       (Pair (Leaf (repeat Byte.x01 32)) (Leaf (xzh 0))).

Example ex12c_hyps :
  from_val xzh ex12c_ty ex12c_val = OK ex12c_full /\
  summarize xzh xH ex12c_full 5 = OK ex12c_part /\
  wf_ty ex12c_ty = true /\ has_type ex12c_val ex12c_ty = true.
Proof. repeat split; vm_compute; reflexivity. Qed.

Example ex12c_reads :
  view_get ex12c_ty ex12c_part 0 = view_get ex12c_ty ex12c_full 0 /\
  view_get ex12c_ty ex12c_part 1 = OK (GNode ex12_ty (Leaf (root_of xH ex12_full))) /\
  view_get ex12c_ty ex12c_full 1 = OK (GNode ex12_ty ex12_full) /\
  ser_node ex12c_ty ex12c_part = Err /\
  (exists bs, ser_node ex12c_ty ex12c_full = OK bs) /\
  root_of xH ex12c_part = root_of xH ex12c_full.
Proof. repeat split; try (vm_compute; reflexivity). eexists. vm_compute. reflexivity. Qed.

(* ---- the collision hypothesis cannot be dropped ----
   A pair hash with one collision with a zero hash: cH (xc 9) 0 = cH 0 0.  The List[uint256, 2]
   holding [9] has the contents subtree (9, 0), whose root is the zero hash of height 1.  After
   summarising it, Append(11) takes the summary for an empty subtree: the element 9 is silently
   lost and the root differs.  With a collision resistant hash this cannot happen. *)
Definition cH (a b : chunk) : chunk :=
  if chunk_eqb a (xc 9) && chunk_eqb b zero_chunk then xH zero_chunk zero_chunk else xH a b.
Definition czh : nat -> chunk := zero_hash cH.
Definition cex_ty : ty := TList (TUint 32) 2.
Definition cex_full : node := Pair (Pair (Leaf (xc 9)) (Leaf zero_chunk)) (len_leaf 1).
Definition cex_part : node := Pair (Leaf (czh 1)) (len_leaf 1).
Definition cex_op : op := OAppend 0 (SLit (TUint 32) (VUint 11)).

Example cex_collision :
  from_val czh cex_ty (VSeq [VUint 9]) = OK cex_full /\
  summarize czh cH cex_full 2 = OK cex_part /\
  (exists m m',
     tm_step czh (tm_init cex_ty cex_full) cex_op = (tm_init cex_ty m, OK MUnit) /\
     tm_step czh (tm_init cex_ty cex_part) cex_op = (tm_init cex_ty m', OK MUnit) /\
     root_of cH m' <> root_of cH m /\
     view_get cex_ty m 0 = OK (GVal (VUint 9)) /\
     view_get cex_ty m' 0 = OK (GVal (VUint 0))) /\
  ~ zero_collision_free cH czh cex_full.
Proof.
  split; [vm_compute; reflexivity|]. split; [vm_compute; reflexivity|]. split.
  - eexists _, _. split; [vm_compute; reflexivity|]. split; [vm_compute; reflexivity|].
    split; [vm_compute; discriminate|]. split; vm_compute; reflexivity.
  - intros Hz.
    assert (Hzt : zt czh 1 (Pair (Leaf (xc 9)) (Leaf zero_chunk))).
    { apply (Hz [false]); [reflexivity|vm_compute; reflexivity]. }
    assert (Hne : czh 0 <> xc 9) by (vm_compute; discriminate).
    inversion Hzt as [|d a b Ha Hb]; subst. inversion Ha; try congruence.
Qed.

(* ------------------------------------------------------------------------------------- *)
(* 7. the results in the form used by Props/C12.v                                        *)
(* ------------------------------------------------------------------------------------- *)

Lemma bind_np {A B} (r : res A) (k : A -> res B) :
  r <> Panic -> (forall a, k a <> Panic) -> bind r k <> Panic.
Proof. intros Hr Hk. destruct r; cbn [bind]; [apply Hk|discriminate|congruence]. Qed.

Lemma get_node_np t n i : get_node t n i <> Panic.
Proof.
  unfold get_node, to_gindex64. destruct (64 <=? view_depth t); [discriminate|].
  cbv zeta. destruct (_ <=? i); [discriminate|]. cbn [bind]. apply get_path_total.
Qed.

Lemma check_index_np t n i : check_index t n i <> Panic.
Proof.
  unfold check_index. apply bind_np; [apply IterProofs.list_length_not_panic|].
  intros ll. destruct (ll <=? i); [discriminate|]. destruct (_ <=? i); discriminate.
Qed.

Lemma view_get_no_panic t n i : view_get t n i <> Panic.
Proof.
  assert (Hpk : forall e b, (do c <- leaf_chunk b; do v <- packed_val e c
                 (wrap8 (N.land i (per_node e - 1))); OK (GVal v)) <> Panic).
  { intros e b. apply bind_np; [apply IterProofs.leaf_chunk_not_panic|]. intros c.
    apply bind_np; [apply IterProofs.packed_val_not_panic|]. discriminate. }
  assert (Hbit : forall b, (do c <- leaf_chunk b; OK (GVal (VBool (chunk_get_bit c (wrap8 i))))) <> Panic).
  { intros b. apply bind_np; [apply IterProofs.leaf_chunk_not_panic|]. discriminate. }
  destruct t as [w| |k| |k|k|e k|e k|fs|none opts]; cbn [view_get]; try discriminate.
  - destruct (k <=? i); [discriminate|]. apply bind_np; [apply get_node_np|apply Hbit].
  - apply bind_np; [apply check_index_np|]. intros _.
    apply bind_np; [apply get_node_np|apply Hbit].
  - destruct (k <=? i); [discriminate|]. destruct (is_basic_elem e).
    + cbv zeta. apply bind_np; [apply get_node_np|apply Hpk].
    + apply bind_np; [apply get_node_np|discriminate].
  - apply bind_np; [apply check_index_np|]. intros _. destruct (is_basic_elem e).
    + cbv zeta. apply bind_np; [apply get_node_np|apply Hpk].
    + apply bind_np; [apply get_node_np|discriminate].
  - destruct (nth_error fs (nat_of i)); [|discriminate].
    apply bind_np; [apply get_node_np|discriminate].
Qed.

Section Facade.
Variable H : chunk -> chunk -> chunk.
Variable zh : nat -> chunk.
Notation summ := (summ H).

(* typed getters: a plain value read from the partial tree is the value of the full tree; a
   sub-view backing is the full tree's sub-view backing up to summaries; never a panic *)
Corollary summ_view_get_val t n n' i v : backs zh t n -> summ n n' ->
  view_get t n' i = OK (GVal v) -> view_get t n i = OK (GVal v).
Proof.
  intros Hb Hs Hg.
  destruct (summ_view_get H zh t n n' i Hb Hs) as [E|[[E _]|(g & g' & E1 & E2 & Hr)]];
    try congruence.
  rewrite Hg in E2. injection E2 as <-. destruct g; cbn in Hr; [now subst|contradiction].
Qed.

Corollary summ_view_get_node t n n' i e m' : backs zh t n -> summ n n' ->
  view_get t n' i = OK (GNode e m') -> exists m, view_get t n i = OK (GNode e m) /\ summ m m'.
Proof.
  intros Hb Hs Hg.
  destruct (summ_view_get H zh t n n' i Hb Hs) as [E|[[E _]|(g & g' & E1 & E2 & Hr)]];
    try congruence.
  rewrite Hg in E2. injection E2 as <-. destruct g; cbn in Hr; [contradiction|].
  destruct Hr as [-> Hr]. eauto.
Qed.

(* the read-only iterator, component by component *)
Lemma iter_sim_nth l l' : iter_sim H l l' -> forall i s', nth_error l' i = Some s' ->
  s' = IErr \/ exists s, nth_error l i = Some s /\ step_sim H s s'.
Proof.
  induction 1 as [l| |s s' l l' Hs Hl IH]; intros i x Hx.
  - destruct i as [|[|i]]; cbn in Hx; try discriminate. injection Hx as <-. now left.
  - destruct i; discriminate.
  - destruct i as [|i]; cbn [nth_error] in *.
    + injection Hx as <-. right. eauto.
    + now apply IH.
Qed.

Corollary summ_ro_iter_comp t n n' extra i s' : wf_ty t = true -> backs zh t n -> summ n n' ->
  nth_error (ro_iter t n' extra) i = Some s' -> is_comp s' = true ->
  exists s, nth_error (ro_iter t n extra) i = Some s /\ step_sim H s s'.
Proof.
  intros Hwf Hb Hs Hn Hc.
  destruct (iter_sim_nth _ _ (summ_ro_iter H zh t n n' extra Hwf Hb Hs) i s' Hn) as [->|Hx];
    [discriminate|exact Hx].
Qed.

Corollary summ_ro_iter_no_panic t n n' extra : wf_ty t = true -> backs zh t n -> summ n n' ->
  ~ In IPanic (ro_iter t n extra) -> ~ In IPanic (ro_iter t n' extra).
Proof.
  intros Hwf Hb Hs Hnp Hin. apply In_nth_error in Hin. destruct Hin as [i Hi].
  destruct (iter_sim_nth _ _ (summ_ro_iter H zh t n n' extra Hwf Hb Hs) i IPanic Hi) as [E|(s & Hn & Hsim)];
    [discriminate|]. inversion Hsim; subst. apply Hnp. eapply nth_error_In; eauto.
Qed.

End Facade.

(* the node iterator over arbitrary trees *)
Lemma summ_node_iter_plain H n n' len depth : summ H n n' ->
  eosR (Forall2 (summ H)) (node_iter_all n' len depth) (node_iter_all n len depth).
Proof.
  intros Hs. eapply eosR_mono; [|apply (summ_node_iter H (fun _ => True)); [exact Hs|auto]].
  intros ns ns' HF. induction HF as [|a a' l l' [Ha _] HF IH]; constructor; auto.
Qed.

Lemma summarize_all_root H zh gs n n' :
  summarize_all H zh n gs = OK n' -> summ H n n' /\ root_of H n' = root_of H n.
Proof.
  intros E. pose proof (summarize_all_summ H zh gs n n' E) as Hs.
  split; [exact Hs|now apply summ_root].
Qed.

Lemma summ_set_expand_root H zh (Hzh : forall d, zh d = zero_hash H d) p n n' v v' r' :
  zero_collision_free H zh n -> summ H n n' -> summ H v v' ->
  set_path zh n' p true v' = OK r' ->
  exists r, set_path zh n p true v = OK r /\ summ H r r' /\ root_of H r' = root_of H r.
Proof.
  intros Hz Hs Hv E. destruct (summ_set_expand H zh Hzh p n n' v v' r' Hz Hs Hv E) as (r & E1 & Hr).
  exists r. repeat split; auto. now apply summ_root.
Qed.

(* two summarisations in a row: the element pair, then the whole contents subtree *)
Example ex12_summarize_all :
  summarize_all xH xzh ex12_full [4; 2] =
  OK (Pair (Leaf (root_of xH (Pair (Pair (Leaf (xc 1)) (Leaf (xc 2))) (Leaf (xzh 1))))) (len_leaf 2)).
Proof. vm_compute. reflexivity. Qed.

(* ------------------------------------------------------------------------------------- *)
(* 8. reading a whole value back through the typed getters ([read_val])                  *)
(* ------------------------------------------------------------------------------------- *)

Section ReadVal.
Variable H : chunk -> chunk -> chunk.
Variable zh : nat -> chunk.
Notation summ := (summ H).
Notation backs := (backs zh).

Lemma backs_list_bound e k c L : is_basic_elem e = false ->
  backs (TList e k) (Pair c (len_leaf L)) ->
  exists L0, len_leaf L = len_leaf L0 /\ L0 <= 2 ^ contents_depth (TList e k) /\
  forall i m, i < L0 -> bottom c (contents_depth (TList e k)) i = OK m -> backs e m.
Proof.
  intros Hb (v & Hty & Hr). destruct v as [x|x|x|x|vs|x|x y]; try (cbn [has_type] in Hty; discriminate Hty).
  rewrite repr_list, Hb in Hr. destruct Hr as (c0 & E & Hr). apply pair_inj in E. destruct E as [<- E].
  cbn [has_type] in Hty. apply andb_true_iff in Hty. destruct Hty as [_ Hty].
  exists (lenN vs). split; [exact E|]. split.
  - pose proof (series_length zh _ _ _ Hr) as Hl. unfold lenN in *. rewrite map_length in Hl.
    rewrite <- cdepth_N. exact Hl.
  - intros i m Hi Hbot. rewrite <- cdepth_N in Hbot. eapply elems_bottom_backs; eauto.
Qed.

Lemma packed_tail_not_node (r : res node) (K : chunk -> res val) e0 c0 :
  (do b <- r; do c <- leaf_chunk b; do v <- K c; OK (GVal v)) = OK (GNode e0 c0) -> False.
Proof.
  destruct r as [b| |]; cbn [bind]; try discriminate.
  destruct (leaf_chunk b) as [c| |]; cbn [bind]; try discriminate.
  destruct (K c); cbn [bind]; discriminate.
Qed.

Lemma bit_tail_not_node (r : res node) (K : chunk -> val) e0 c0 :
  (do b <- r; do c <- leaf_chunk b; OK (GVal (K c))) = OK (GNode e0 c0) -> False.
Proof.
  destruct r as [b| |]; cbn [bind]; try discriminate.
  destruct (leaf_chunk b) as [c| |]; cbn [bind]; discriminate.
Qed.

Lemma node_tail_inv (r : res node) e e0 c0 :
  (do c <- r; OK (GNode e c)) = OK (GNode e0 c0) -> e0 = e /\ r = OK c0.
Proof. destruct r as [c| |]; cbn [bind]; try discriminate. intros [= <- <-]. auto. Qed.

(* a sub-view handed out by a typed Get of a well-typed view is well typed *)
Lemma view_get_node_backs t n i e0 c0 : wf_ty t = true -> backs t n ->
  view_get t n i = OK (GNode e0 c0) -> backs e0 c0 /\ wf_ty e0 = true.
Proof.
  intros Hwf Hb Hg. destruct t as [w| |k| |k|k|e k|e k|fs|none opts]; cbn [view_get] in Hg;
    try discriminate.
  - destruct (k <=? i); [discriminate|]. exfalso.
    exact (bit_tail_not_node _ (fun c => VBool (chunk_get_bit c (wrap8 i))) _ _ Hg).
  - destruct (check_index _ n i); cbn [bind] in Hg; try discriminate. exfalso.
    exact (bit_tail_not_node _ (fun c => VBool (chunk_get_bit c (wrap8 i))) _ _ Hg).
  - cbn [wf_ty] in Hwf. apply andb_true_iff in Hwf. destruct Hwf as [_ Hwfe].
    destruct (N.leb_spec k i) as [|Hi]; [discriminate|].
    destruct (is_basic_elem e) eqn:Hbe.
    { exfalso. cbv zeta in Hg.
      exact (packed_tail_not_node _ (fun c => packed_val e c (wrap8 (N.land i (per_node e - 1)))) _ _ Hg). }
    apply node_tail_inv in Hg. destruct Hg as [-> Hg]. split; [|exact Hwfe].
    apply get_node_ok in Hg. destruct Hg as (_ & _ & Hg).
    rewrite view_depth_nonlist in Hg by reflexivity. eapply backs_vector_elems; eauto.
  - cbn [wf_ty] in Hwf.
    destruct (backs_list zh (TList e k) n eq_refl Hb) as (c & L & ->).
    unfold check_index in Hg. cbn [list_limit] in Hg.
    destruct (list_length k (Pair c (len_leaf L))) as [ll| |] eqn:Hll; cbn [bind] in Hg;
      try discriminate.
    destruct (N.leb_spec ll i) as [|Hi]; [discriminate|].
    destruct (k <=? i); [discriminate|]. cbn [bind] in Hg.
    destruct (is_basic_elem e) eqn:Hbe.
    { exfalso. cbv zeta in Hg.
      exact (packed_tail_not_node _ (fun c => packed_val e c (wrap8 (N.land i (per_node e - 1)))) _ _ Hg). }
    apply node_tail_inv in Hg. destruct Hg as [-> Hg]. split; [|exact Hwf].
    destruct (backs_list_bound e k c L Hbe Hb) as (L0 & EL & Hbound & Hel).
    rewrite EL in Hll. apply list_length_len_leaf_le in Hll.
    apply get_node_ok in Hg. destruct Hg as (_ & _ & Hg).
    rewrite (view_depth_list (TList e k) eq_refl), bottom_pair in Hg.
    rewrite (testbit_small i (contents_depth (TList e k)) (contents_depth (TList e k))) in Hg
      by lia.
    eapply Hel; eauto. lia.
  - cbn [wf_ty] in Hwf. apply andb_true_iff in Hwf. destruct Hwf as [_ Hwfs].
    destruct (nth_error fs (nat_of i)) as [f|] eqn:Hf; [|discriminate].
    apply node_tail_inv in Hg. destruct Hg as [-> Hg]. split.
    + apply get_node_ok in Hg. destruct Hg as (_ & _ & Hg).
      rewrite view_depth_nonlist in Hg by reflexivity.
      rewrite <- (N2Nat.id i) in Hg. eapply backs_container; eauto.
    + rewrite forallb_forall in Hwfs. apply Hwfs. eapply nth_error_In; eauto.
Qed.

Theorem summ_read_val : forall fuel t n n', wf_ty t = true -> backs t n -> summ n n' ->
  eos (read_val fuel t n') (read_val fuel t n).
Proof.
  induction fuel as [|f IH]; intros t n n' Hwf Hb Hs; [apply eos_refl|].
  assert (Helems : forall count,
    eos (mapM (fun i => do g <- view_get t n' (N.of_nat i);
                        match g with GVal v => OK v | GNode e c => read_val f e c end)
              (seq 0 (nat_of count)))
        (mapM (fun i => do g <- view_get t n (N.of_nat i);
                        match g with GVal v => OK v | GNode e c => read_val f e c end)
              (seq 0 (nat_of count)))).
  { intros count. apply eos_eosR. eapply eosR_mono; [|apply (mapM_eosR_same eq)].
    - intros ys ys' Hys. now apply Forall2_eq_eq.
    - intros i _. eapply eosR_bind.
      + apply eosR_strengthen; [apply (summ_view_get H zh t n n' (N.of_nat i) Hb Hs)|].
        intros g Hg. exact Hg.
      + intros g g' [Hsim Hg]. cbv beta in Hg. destruct g as [v|e c], g' as [v'|e' c']; cbn in Hsim;
          try contradiction.
        * subst v'. apply eosR_same. reflexivity.
        * destruct Hsim as [<- Hc]. apply eos_eosR.
          destruct (view_get_node_backs t n _ e c Hwf Hb Hg) as [Hbc Hwfe]. now apply IH. }
  destruct t as [w| |k| |k|k|e k|e k|fs|none opts]; cbn [read_val].
  - rewrite (summ_leafy H _ _ Hs (backs_basic zh (TUint w) n I Hb)). apply eos_refl.
  - rewrite (summ_leafy H _ _ Hs (backs_basic zh TBool n I Hb)). apply eos_refl.
  - rewrite (summ_leafy H _ _ Hs (backs_basic zh (TBytes k) n I Hb)). apply eos_refl.
  - rewrite (summ_leafy H _ _ Hs (backs_basic zh TRoot n I Hb)). apply eos_refl.
  - eapply (eos_bind eq); [apply eos_eosR; apply Helems|]. intros vs ? <-. apply eos_refl.
  - eapply (eos_bind eq); [apply eos_eosR; apply (summ_list_length H zh (TBitlist k)); auto|].
    intros ll ? <-.
    eapply (eos_bind eq); [apply eos_eosR; apply Helems|]. intros vs ? <-. apply eos_refl.
  - eapply (eos_bind eq); [apply eos_eosR; apply Helems|]. intros vs ? <-. apply eos_refl.
  - eapply (eos_bind eq); [apply eos_eosR; apply (summ_list_length H zh (TList e k)); auto|].
    intros ll ? <-.
    eapply (eos_bind eq); [apply eos_eosR; apply Helems|]. intros vs ? <-. apply eos_refl.
  - eapply (eos_bind eq); [apply eos_eosR; apply Helems|]. intros vs ? <-. apply eos_refl.
  - (* Union *)
    destruct (backs_union zh none opts n Hwf Hb) as (c & s & -> & Hopt).
    destruct (summ_from_pair H _ _ _ Hs) as [->|(c' & b' & -> & Hc & Hsel)]; [now left|].
    apply summ_leaf_inv in Hsel. subst b'.
    change (union_selector (TUnion none opts) (Pair c' (Leaf s)))
      with (union_selector (TUnion none opts) (Pair c (Leaf s))).
    destruct (union_selector (TUnion none opts) (Pair c (Leaf s))) as [sel| |] eqn:Hsl; cbn [bind];
      [|apply eos_refl|apply eos_refl].
    unfold union_value.
    change (union_selector (TUnion none opts) (Pair c' (Leaf s)))
      with (union_selector (TUnion none opts) (Pair c (Leaf s))).
    rewrite Hsl. cbn [bind].
    destruct (union_opt none opts sel) as [o|] eqn:Ho; [|apply eos_refl].
    assert (Hsel : sel = N_of_byte (hd b0 s)).
    { cbn [union_selector] in Hsl. destruct (negb _); [discriminate|]. cbv zeta in Hsl.
      destruct (_ <=? _); [discriminate|]. now injection Hsl as <-. }
    assert (Hbo : backs o c /\ wf_ty o = true).
    { cbn [wf_ty] in Hwf. apply andb_true_iff in Hwf. destruct Hwf as [_ Hwfo].
      rewrite forallb_forall in Hwfo. unfold union_opt in Ho. rewrite Hsel in Ho.
      destruct none; cbn [andb] in Hopt.
      - destruct (N_of_byte (hd b0 s) =? 0) eqn:E0; [discriminate|].
        split; [now apply (Hopt eq_refl)|]. apply Hwfo. eapply nth_error_In; eauto.
      - split; [now apply (Hopt eq_refl)|]. apply Hwfo. eapply nth_error_In; eauto. }
    destruct Hbo as [Hbo Hwo]. cbn [bind].
    eapply (eos_bind eq); [apply eos_eosR; now apply IH|]. intros v ? <-. apply eos_refl.
Qed.

End ReadVal.

Example ex12c_read_val :
  read_val 3 ex12c_ty ex12c_full = OK ex12c_val /\ read_val 3 ex12c_ty ex12c_part = Err /\
  read_val 2 ex12_ty ex12_full = OK ex12_val /\ read_val 2 ex12_ty ex12_part = Err.
Proof. repeat split; vm_compute; reflexivity. Qed.

(* ------------------------------------------------------------------------------------- *)
(* 9. the machine TM on arbitrary states: sub-views, hook propagation, histories         *)
(* ------------------------------------------------------------------------------------- *)

(* every handle's backing is well typed; hooks point to older handles *)
Definition typed_state (zh : nat -> chunk) (st : tm_state) : Prop :=
  forall j x, nth_error (m_handles node unit st) j = Some x -> backs zh (h_ty node x) (h_back node x).
Definition hooks_dec (st : tm_state) : Prop :=
  forall k x p i, nth_error (m_handles node unit st) k = Some x -> h_hook node x = Some (p, i) ->
                  (p < k)%nat.

(* histories: results equal until the partial machine reports an error *)
Inductive hist_sim : list (res mout) -> list (res mout) -> Prop :=
| hs_nil : hist_sim [] []
| hs_err r l l' : hist_sim (r :: l) (Err :: l')
| hs_same r l l' : hist_sim l l' -> hist_sim (r :: l) (r :: l').

Section GenStep.
Variable H : chunk -> chunk -> chunk.
Variable zh : nat -> chunk.
Hypothesis Hzh : forall d, zh d = zero_hash H d.
Notation summ := (summ H).
Notation backs := (backs zh).
Notation zcf := (zero_collision_free H zh).
Notation ssim := (ssim H).
Notation hsim := (hsim H).
Notation tm_mutate := (mutate node unit p_get (p_set zh) p_leaf p_pair p_chunk (p_zero zh) p_true zh).
Notation tm_backing := (set_backing node unit p_get (p_set zh) p_chunk).
Notation handles := (m_handles node unit).

(* outcome of the partial machine against the outcome of the full machine *)
Definition osim {A} (p p' : tm_state * res A) : Prop :=
  snd p' = Err \/ (snd p' = snd p /\ ssim (fst p) (fst p')).

Lemma put_back_nth_eq st h b s x : nth_error (handles st) h = Some x ->
  nth_error (handles (put_back node unit st h b s)) h = Some (mkH node (h_ty node x) b (h_hook node x)).
Proof.
  intros Ex. unfold put_back. rewrite Ex. cbn [m_handles].
  apply nth_error_list_set_eq. eapply nth_error_lt; eauto.
Qed.

Lemma put_back_nth_none st h b s : nth_error (handles st) h = None ->
  handles (put_back node unit st h b s) = handles st.
Proof. intros Ex. unfold put_back. rewrite Ex. reflexivity. Qed.

Lemma put_back_nth_neq st h b s j : j <> h ->
  nth_error (handles (put_back node unit st h b s)) j = nth_error (handles st) j.
Proof.
  intros Hne. unfold put_back. destruct (nth_error (handles st) h) as [x|]; cbn [m_handles]; [|reflexivity].
  apply nth_error_list_set_neq. congruence.
Qed.

Lemma ssim_put_back st st' h b b' s s' : ssim st st' -> summ b b' ->
  ssim (put_back node unit st h b s) (put_back node unit st' h b' s').
Proof.
  intros Hst Hb. unfold PartialProofs.ssim in *. unfold put_back.
  destruct (nth_error (handles st) h) as [x|] eqn:Ex.
  - destruct (Forall2_nth_l _ _ _ _ _ Hst Ex) as (x' & Ex' & Et & Ek & _). rewrite Ex'.
    cbn [m_handles]. apply Forall2_list_set; [exact Hst|].
    unfold PartialProofs.hsim. cbn [h_ty h_hook h_back]. auto.
  - rewrite (proj1 (Forall2_nth_none _ _ _ h Hst) Ex). exact Hst.
Qed.

Lemma hooks_dec_put_back st h b s : hooks_dec st -> hooks_dec (put_back node unit st h b s).
Proof.
  intros Hd k x p i Ex Ehk. destruct (Nat.eq_dec k h) as [->|Hne].
  - destruct (nth_error (handles st) h) as [x0|] eqn:E0.
    + rewrite (put_back_nth_eq st h b s x0 E0) in Ex. injection Ex as <-. cbn [h_hook] in Ehk.
      eapply Hd; eauto.
    + rewrite (put_back_nth_none st h b s E0) in Ex. congruence.
  - rewrite put_back_nth_neq in Ex by exact Hne. eapply Hd; eauto.
Qed.

(* BackedView.SetBacking with its hook chain *)
Lemma set_backing_sim : forall fuel st st' h b b' s s',
  ssim st st' -> summ b b' ->
  (forall j x, (j < h)%nat -> nth_error (handles st) j = Some x -> backs (h_ty node x) (h_back node x)) ->
  hooks_dec st ->
  osim (tm_backing fuel st h b s) (tm_backing fuel st' h b' s').
Proof.
  induction fuel as [|f IH]; intros st st' h b b' s s' Hst Hb Hty Hd; cbn [set_backing].
  - right. cbn [fst snd]. split; [reflexivity|now apply ssim_put_back].
  - pose proof (ssim_put_back st st' h b b' s s' Hst Hb) as Hst1.
    pose proof (hooks_dec_put_back st h b s Hd) as Hd1.
    set (st1 := put_back node unit st h b s) in *. set (st1' := put_back node unit st' h b' s') in *.
    destruct (nth_error (handles st1) h) as [x|] eqn:Ex.
    2:{ rewrite (proj1 (Forall2_nth_none _ _ _ h Hst1) Ex). now left. }
    destruct (Forall2_nth_l _ _ _ _ _ Hst1 Ex) as (x' & Ex' & Et & Ek & Hxb). rewrite Ex', <- Ek.
    destruct (h_hook node x) as [[p i]|] eqn:Ehook; [|right; cbn [fst snd]; auto].
    pose proof (Hd1 h x p i Ex Ehook) as Hp.
    destruct (nth_error (handles st1) p) as [px|] eqn:Epx.
    2:{ rewrite (proj1 (Forall2_nth_none _ _ _ p Hst1) Epx). now left. }
    destruct (Forall2_nth_l _ _ _ _ _ Hst1 Epx) as (px' & Epx' & Etp & _ & Hpb). rewrite Epx', <- Etp.
    assert (Hbp : backs (h_ty node px) (h_back node px)).
    { apply (Hty p px Hp). unfold st1 in Epx. rewrite put_back_nth_neq in Epx by lia. exact Epx. }
    pose proof (tm_slot_set_sim H zh Hzh (h_ty node px) (m_store node unit st1) (m_store node unit st1')
                  (h_back node px) (h_back node px') i b b' Hbp Hpb Hb) as HS.
    destruct HS as [E|[[E1 E2]|((pb & s2) & (pb' & s2') & E1 & E2 & Hr)]].
    + rewrite E. now left.
    + rewrite E1, E2. right. cbn [fst snd]. auto.
    + rewrite E1, E2. unfold msim in Hr. cbn [fst] in Hr. apply IH; auto.
      intros j y Hj Ey. apply (Hty j y); [lia|].
      unfold st1 in Ey. rewrite put_back_nth_neq in Ey by lia. exact Ey.
Qed.

Lemma ssim_length st st' : ssim st st' -> length (handles st) = length (handles st').
Proof. intros Hst. apply (Forall2_length' _ _ _ Hst). Qed.

Lemma ssim_push st st' x x' : ssim st st' -> hsim x x' ->
  ssim (fst (push_handle node unit st x)) (fst (push_handle node unit st' x')) /\
  snd (push_handle node unit st x) = snd (push_handle node unit st' x').
Proof.
  intros Hst Hx. unfold push_handle. cbn [fst snd]. split.
  - unfold PartialProofs.ssim. cbn [m_handles]. apply Forall2_app; [exact Hst|]. constructor; [exact Hx|constructor].
  - now apply ssim_length.
Qed.

(* a mutating operation, any state *)
Theorem summ_tm_step_mut st st' o : mutating o = true ->
  ssim st st' -> typed_state zh st -> hooks_dec st ->
  (op_expands o = true -> forall x, get_handle node unit st (op_target o) = OK x -> zcf (h_back node x)) ->
  osim (tm_step zh st o) (tm_step zh st' o).
Proof.
  intros Hm Hst Hty Hd Hz. rewrite !(tm_step_mutating zh _ o Hm).
  destruct (get_handle_sim H st st' (op_target o) Hst) as [E|[[E _]|(x & x' & E1 & E2 & Hx)]].
  - rewrite E. now left.
  - exfalso. unfold get_handle in E. destruct (nth_error _ _); discriminate.
  - rewrite E1, E2.
    assert (Hbx : backs (h_ty node x) (h_back node x)).
    { unfold get_handle in E1. destruct (nth_error (handles st) (op_target o)) as [y|] eqn:Ey;
        [|discriminate]. injection E1 as <-. eapply Hty; eauto. }
    destruct (summ_mutate H zh Hzh st st' x x' o Hst Hx Hbx (fun He => Hz He x E1))
      as [E|[[E3 E4]|((b & s) & (b' & s') & E3 & E4 & Hr)]].
    + rewrite E. now left.
    + rewrite E3, E4. right. cbn [fst snd]. auto.
    + rewrite E3, E4. unfold msim in Hr. cbn [fst] in Hr.
      unfold hook_fuel. rewrite <- (ssim_length st st' Hst).
      pose proof (set_backing_sim (S (length (handles st))) st st' (op_target o) b b' s s' Hst Hr
                    (fun j y _ Ey => Hty j y Ey) Hd) as HB.
      destruct (tm_backing (S (length (handles st))) st (op_target o) b s) as [st1 r].
      destruct (tm_backing (S (length (handles st))) st' (op_target o) b' s') as [st1' r'].
      destruct HB as [E|[E Hs1]]; cbn [fst snd] in *.
      * rewrite E. now left.
      * rewrite E. right. cbn [fst snd]. auto.
Qed.

End GenStep.

Section GenStep2.
Variable H : chunk -> chunk -> chunk.
Variable zh : nat -> chunk.
Hypothesis Hzh : forall d, zh d = zero_hash H d.
Notation summ := (summ H).
Notation backs := (backs zh).
Notation zcf := (zero_collision_free H zh).
Notation ssim := (ssim H).
Notation hsim := (hsim H).
Notation handles := (m_handles node unit).

Lemma backs_union_shape none opts n : backs (TUnion none opts) n -> exists c s, n = Pair c (Leaf s).
Proof.
  intros (v & Hty & Hr).
  destruct v as [x|x|x|x|x|x|sel ov]; try (cbn [has_type] in Hty; discriminate Hty).
  rewrite repr_union in Hr. destruct Hr as (c & -> & _). eauto.
Qed.

Lemma elem_ty_sim t a a' i : backs t a -> summ a a' ->
  tm_elem_ty t a' i = None \/ tm_elem_ty t a' i = tm_elem_ty t a i.
Proof.
  intros Hb Hs. destruct t as [w| |k| |k|k|e k|e k|fs|none opts]; try (right; reflexivity).
  cbn [tm_elem_ty]. destruct (is_basic_elem e); [now right|].
  destruct (tm_check_index_sim H zh (TList e k) tt tt a a' i eq_refl Hb Hs) as [->| ->];
    [now left|now right].
Qed.

Lemma uvalue_sim none opts a a' : backs (TUnion none opts) a -> summ a a' ->
  eosR (fun r r' : option ty * node => fst r = fst r' /\ summ (snd r) (snd r'))
       (tm_uvalue none opts a') (tm_uvalue none opts a).
Proof.
  intros Hb Hs. destruct (backs_union_shape none opts a Hb) as (c & s & ->).
  unfold tm_uvalue, p_get, getter. rewrite g_path_three, g_path_2.
  destruct (summ_from_pair H _ _ _ Hs) as [->|(c' & b' & -> & Hc & Hsel)]; [apply eosR_err|].
  apply summ_leaf_inv in Hsel. subst b'. cbn [get_path bind p_chunk leaf_chunk].
  destruct (negb _); [apply eosR_err|]. cbv zeta.
  destruct (_ <=? _); [apply eosR_err|]. rewrite !get_path_nil. cbn [bind].
  apply eosR_ok. cbn [fst snd]. auto.
Qed.

(* a reading operation (typed Get of a sub-view, union value, copy), any state *)
Theorem summ_tm_step_read st st' o : mutating o = false ->
  ssim st st' -> typed_state zh st ->
  osim H (tm_step zh st o) (tm_step zh st' o).
Proof.
  intros Hm Hst Hty. destruct o as [h i|h|h|h i v|h v|h|h sel v]; try discriminate Hm.
  - (* typed Get *)
    rewrite !tm_step_get.
    destruct (get_handle_sim H st st' h Hst) as [E|[[E _]|(x & x' & E1 & E2 & Hx)]].
    + rewrite E. now left.
    + exfalso. unfold get_handle in E. destruct (nth_error _ _); discriminate.
    + rewrite E1, E2. destruct Hx as (Et & _ & Hs). rewrite <- Et.
      assert (Hbx : backs (h_ty node x) (h_back node x)).
      { unfold get_handle in E1. destruct (nth_error (handles st) h) as [y|] eqn:Ey; [|discriminate].
        injection E1 as <-. eapply Hty; eauto. }
      destruct (elem_ty_sim (h_ty node x) (h_back node x) (h_back node x') i Hbx Hs) as [->| ->];
        [now left|].
      destruct (tm_elem_ty (h_ty node x) (h_back node x) i) as [e|]; [|now left].
      change (m_get_node node unit p_get (h_ty node x) tt (h_back node x') i)
        with (get_node (h_ty node x) (h_back node x') i).
      change (m_get_node node unit p_get (h_ty node x) tt (h_back node x) i)
        with (get_node (h_ty node x) (h_back node x) i).
      destruct (summ_get_node H (h_ty node x) _ _ i Hs) as [->|[[-> ->]|(c & c' & -> & -> & Hc)]].
      * now left.
      * right. cbn [fst snd]. auto.
      * assert (Hh : hsim (mkH node e c (Some (h, i))) (mkH node e c' (Some (h, i)))).
        { unfold PartialProofs.hsim. cbn [h_ty h_hook h_back]. auto. }
        destruct (ssim_push H st st' _ _ Hst Hh) as [Hp Hk].
        unfold push_handle in *. cbn [fst snd] in *. right. cbn [fst snd]. rewrite Hk. auto.
  - (* union value *)
    rewrite !tm_step_uvalue.
    destruct (get_handle_sim H st st' h Hst) as [E|[[E _]|(x & x' & E1 & E2 & Hx)]].
    + rewrite E. now left.
    + exfalso. unfold get_handle in E. destruct (nth_error _ _); discriminate.
    + rewrite E1, E2. destruct Hx as (Et & _ & Hs). rewrite <- Et.
      assert (Hbx : backs (h_ty node x) (h_back node x)).
      { unfold get_handle in E1. destruct (nth_error (handles st) h) as [y|] eqn:Ey; [|discriminate].
        injection E1 as <-. eapply Hty; eauto. }
      destruct (h_ty node x) as [w| |k| |k|k|e k|e k|fs|none opts]; try (now left).
      destruct (uvalue_sim none opts _ _ Hbx Hs)
        as [->|[[-> ->]|((o & c) & (o' & c') & -> & -> & Eo & Hc)]].
      * now left.
      * right. cbn [fst snd]. auto.
      * cbn [fst snd] in Eo, Hc. subst o'. destruct o as [o|].
        -- assert (Hh : hsim (mkH node o c None) (mkH node o c' None)).
           { unfold PartialProofs.hsim. cbn [h_ty h_hook h_back]. auto. }
           destruct (ssim_push H st st' _ _ Hst Hh) as [Hp Hk].
           unfold push_handle in *. cbn [fst snd] in *. right. cbn [fst snd]. rewrite Hk. auto.
        -- right. cbn [fst snd]. auto.
  - (* copy *)
    unfold tm_step, step.
    destruct (get_handle_sim H st st' h Hst) as [E|[[E _]|(x & x' & E1 & E2 & Hx)]].
    + rewrite E. now left.
    + exfalso. unfold get_handle in E. destruct (nth_error _ _); discriminate.
    + rewrite E1, E2. destruct Hx as (Et & _ & Hs). rewrite <- Et.
      assert (Hh : hsim (mkH node (h_ty node x) (h_back node x) None)
                        (mkH node (h_ty node x) (h_back node x') None)).
      { unfold PartialProofs.hsim. cbn [h_ty h_hook h_back]. auto. }
      destruct (ssim_push H st st' _ _ Hst Hh) as [Hp Hk].
      unfold push_handle in *. cbn [fst snd] in *. right. cbn [fst snd]. rewrite Hk. auto.
Qed.

(* every operation *)
Theorem summ_tm_step_any st st' o :
  ssim st st' -> typed_state zh st -> hooks_dec st ->
  (op_expands o = true -> forall x, get_handle node unit st (op_target o) = OK x -> zcf (h_back node x)) ->
  osim H (tm_step zh st o) (tm_step zh st' o).
Proof.
  intros Hst Hty Hd Hz. destruct (mutating o) eqn:Hm.
  - now apply summ_tm_step_mut.
  - now apply summ_tm_step_read.
Qed.

(* states related to a plain-value machine state (C04) are typed, with hooks to older handles *)
Lemma R_typed tm vm : R zh tm vm -> typed_state zh tm /\ hooks_dec tm.
Proof.
  intros [HF Hh]. split.
  - intros j x Ex. destruct (Forall2_nth_l _ _ _ _ _ HF Ex) as (y & Ey & Et & _ & _ & Hty & Hr).
    rewrite Et. exists (vh_val y). auto.
  - intros k x p i Ex Ehk. destruct (Forall2_nth_l _ _ _ _ _ HF Ex) as (y & Ey & _ & Ek & _).
    rewrite Ek in Ehk. destruct (Hh k y p i Ey Ehk) as [Hp _]. exact Hp.
Qed.

(* whole histories of operations on a view of the full tree and on a view of the partial tree:
   the same results until the partial one reports an error; C04 keeps the full machine well
   typed along the way *)
Theorem summ_history : (forall n, zcf n) ->
  forall os tm vm tm', R zh tm vm -> srcs_ok vm os -> ssim tm tm' ->
  hist_sim (tm_trace zh tm os) (tm_trace zh tm' os) /\
  (~ In Err (tm_trace zh tm' os) -> ssim (tm_run zh tm os) (tm_run zh tm' os)).
Proof.
  intros Hzcf. induction os as [|o os IH]; intros tm vm tm' HR Hsrc Hst.
  - cbn [tm_trace]. split; [constructor|]. intros _. exact Hst.
  - destruct Hsrc as [Ho Hsrc]. destruct (R_typed tm vm HR) as [Hty Hd].
    destruct (step_ok H zh Hzh tm vm o HR Ho) as [HR' _].
    pose proof (summ_tm_step_any tm tm' o Hst Hty Hd (fun _ x _ => Hzcf _)) as HS.
    cbn [tm_trace]. unfold tm_run. cbn [fold_left]. fold (tm_run zh (fst (tm_step zh tm o)) os).
    fold (tm_run zh (fst (tm_step zh tm' o)) os).
    destruct HS as [E|[E Hs1]].
    + rewrite E. split; [constructor|]. intros Hn. exfalso. apply Hn. now left.
    + rewrite E. destruct (IH _ _ _ HR' Hsrc Hs1) as [IH1 IH2]. split; [now constructor|].
      intros Hn. apply IH2. intros Hin. apply Hn. now right.
Qed.

End GenStep2.

(* ---- an injective pair hash: every tree is collision free, the history theorem applies ---- *)
Definition ienc (a : chunk) : chunk := flat_map (fun c => [Byte.x01; c]) a ++ [Byte.x00].
Definition iH (a b : chunk) : chunk := Byte.x02 :: ienc a ++ b.
Definition izh : nat -> chunk := zero_hash iH.

Lemma ienc_inj : forall a a' b b', ienc a ++ b = ienc a' ++ b' -> a = a' /\ b = b'.
Proof.
  unfold ienc. induction a as [|c a IH]; intros [|c' a'] b b' E; cbn in E.
  - injection E as ->. auto.
  - discriminate.
  - discriminate.
  - injection E as -> E. destruct (IH _ _ _ E) as [-> ->]. auto.
Qed.

Lemma iH_zpf : zero_preimage_free iH.
Proof.
  intros a b [|k] E.
  - discriminate E.
  - exists k. split; [reflexivity|]. cbn [zero_hash] in E. unfold iH in E. injection E as E.
    apply ienc_inj in E. exact E.
Qed.

Lemma iH_zcf n : zero_collision_free iH izh n.
Proof. apply (zpf_zcf iH izh (fun d => eq_refl) n iH_zpf). Qed.

Definition ex12h_full : node :=
  match from_val izh ex12c_ty ex12c_val with OK n => n | _ => Leaf [] end.
(* the pair of list elements, deep inside the container, replaced by its summary root *)
Definition ex12h_part : node :=
  match summarize izh iH ex12h_full 20 with OK n => n | _ => Leaf [] end.
Definition ex12h_ops : list op :=
  [ OGet 0 1;                                  (* handle 1: the list field, hooked to the root *)
    OAppend 1 (SLit (TUint 32) (VUint 3));     (* expands a zero summary; propagates to handle 0 *)
    OSet 0 0 (SLit (TUint 8) (VUint 5));
    OSet 1 0 (SLit (TUint 32) (VUint 8)) ].    (* element 0 is summarised away: error *)

Example ex12h_hyps :
  from_val izh ex12c_ty ex12c_val = OK ex12h_full /\
  summarize izh iH ex12h_full 20 = OK ex12h_part /\
  R izh (tm_init ex12c_ty ex12h_full) (v_init ex12c_ty ex12c_val) /\
  srcs_ok (v_init ex12c_ty ex12c_val) ex12h_ops /\
  ssim iH (tm_init ex12c_ty ex12h_full) (tm_init ex12c_ty ex12h_part).
Proof.
  assert (E1 : from_val izh ex12c_ty ex12c_val = OK ex12h_full) by (vm_compute; reflexivity).
  assert (E2 : summarize izh iH ex12h_full 20 = OK ex12h_part) by (vm_compute; reflexivity).
  split; [exact E1|]. split; [exact E2|]. split; [|split].
  - assert (Hok : ty_ok ex12c_ty) by (repeat split; vm_compute; reflexivity).
    assert (Hty : has_type ex12c_val ex12c_ty = true) by (vm_compute; reflexivity).
    destruct Hok as (A & B & C).
    destruct (from_val_repr iH izh (fun d => eq_refl) ex12c_ty ex12c_val A B C Hty) as (n & En & Rn).
    rewrite E1 in En. injection En as <-.
    apply R_init; [repeat split; assumption|exact Hty|exact Rn].
  - vm_compute. repeat split; intros; subst; try discriminate; try reflexivity;
      repeat match goal with
             | H : Some _ = Some _ |- _ => injection H as H; subst
             end; try reflexivity; try discriminate.
  - unfold ssim, tm_init. cbn [m_handles]. constructor; [|constructor].
    unfold hsim. cbn [h_ty h_hook h_back]. repeat split.
    apply (summarize_summ iH izh ex12h_full 20). exact E2.
Qed.

Example ex12h_traces :
  tm_trace izh (tm_init ex12c_ty ex12h_full) ex12h_ops = [OK (MHandle 1); OK MUnit; OK MUnit; OK MUnit] /\
  tm_trace izh (tm_init ex12c_ty ex12h_part) ex12h_ops = [OK (MHandle 1); OK MUnit; OK MUnit; Err] /\
  map (fun x => root_of iH (h_back node x))
      (m_handles node unit (tm_run izh (tm_init ex12c_ty ex12h_part) (firstn 3 ex12h_ops))) =
  map (fun x => root_of iH (h_back node x))
      (m_handles node unit (tm_run izh (tm_init ex12c_ty ex12h_full) (firstn 3 ex12h_ops))).
Proof. repeat split; vm_compute; reflexivity. Qed.

(* with C04 the full machine never panics on well-typed sources; hence neither does the partial one *)
Corollary summ_tm_step_no_panic H zh (Hzh : forall d, zh d = zero_hash H d) tm vm tm' o :
  R zh tm vm -> src_ok vm o -> ssim H tm tm' ->
  (op_expands o = true -> forall x, get_handle node unit tm (op_target o) = OK x ->
                          zero_collision_free H zh (h_back node x)) ->
  snd (tm_step zh tm' o) <> Panic.
Proof.
  intros HR Hsrc Hst Hz. destruct (R_typed zh tm vm HR) as [Hty Hd].
  destruct (tm_step zh tm o) as [tm1 r] eqn:Et. destruct (v_step vm o) as [vm1 r1] eqn:Ev.
  destruct (step_ok_eq H zh Hzh tm vm o tm1 r vm1 r1 HR Hsrc Et Ev) as (_ & _ & Hnp).
  destruct (summ_tm_step_any H zh Hzh tm tm' o Hst Hty Hd Hz) as [E|[E _]].
  - rewrite E. discriminate.
  - rewrite E, Et. exact Hnp.
Qed.
