(* PartialProofs.v — proofs for property C12 (partial trees: views whose backing has had
   arbitrary subtrees replaced by their summary roots) about the model files Tree.v, View.v,
   Iter.v and Mut.v.

   ==== small specification vocabulary used by Props/C12.v ====

   [summ H n n']       n' is n with some subtrees replaced by their summary leaf
                       [Leaf (root_of H sub)] (tree.SummaryInto); a leaf is its own summary.
                       Reflexive, transitive ([summ_trans]); [summarize] produces it.
   [zero_collision_free H zh n]
                       no subtree of n that is not a zero subtree has a zero-hash root:
                       whenever the root of a subtree m of n is [zh k], m is a zero subtree
                       of height k ([TreeProofs.zt]).  This is what collision resistance of
                       the pair hash gives; [zero_preimage_free H] (the zero hashes have no
                       other preimage than the pair of the previous zero hash) implies it for
                       every tree ([zpf_zcf]).  It is needed exactly for the writes WITH
                       EXPANSION (Append / Pop): the Go code recognises a zero subtree by the
                       value of its summary root.
   [eos r' r]          := r' = Err \/ r' = r   "error or same" (a Panic of the full tree
                       included in "same").
   [eosR R r' r]       the same with the two results related by R instead of equal:
                       r' = Err, or both Panic, or both OK with R a a'.
   [backs zh t n]      := exists v, has_type v t = true /\ repr zh t n v : the tree n is a
                       well-formed backing of some value of type t.
   [step_sim], [iter_sim]  a drained iterator of the partial tree against the one of the full
                       tree: step by step equal (sub-view nodes up to [summ]) until the
                       partial one reports [IErr] and stops. *)
From Coq Require Import List NArith ZArith Bool Lia PeanoNat ZifyN ZifyNat ZifyBool.
From Ztyp Require Import Base Bitlen Tree Types Spec View Iter Mut Repr
     BitlenProofs TreeProofs MerkleProofs ReprProofs IterProofs.
Import ListNotations.
Open Scope N_scope.

#[local] Ltac Zify.zify_post_hook ::= Z.div_mod_to_equations.
Local Arguments N.pow : simpl never.
Local Arguments Nat.pow : simpl never.
Local Arguments N.of_nat : simpl never.
Local Arguments N.to_nat : simpl never.
Local Arguments N.div : simpl never.
Local Arguments N.modulo : simpl never.
Local Opaque two64.

(* ------------------------------------------------------------------------------------- *)
(* 0. spec definitions                                                                   *)
(* ------------------------------------------------------------------------------------- *)

Inductive summ (H : chunk -> chunk -> chunk) : node -> node -> Prop :=
| sm_refl n : summ H n n
| sm_sum n : summ H n (Leaf (root_of H n))
| sm_pair a b a' b' : summ H a a' -> summ H b b' -> summ H (Pair a b) (Pair a' b').

Definition zero_collision_free (H : chunk -> chunk -> chunk) (zh : nat -> chunk) (n : node) : Prop :=
  forall p m k, get_path n p = OK m -> root_of H m = zh k -> zt zh k m.

Definition zero_preimage_free (H : chunk -> chunk -> chunk) : Prop :=
  forall a b k, H a b = zero_hash H k ->
    exists k', k = S k' /\ a = zero_hash H k' /\ b = zero_hash H k'.

Definition eos {A} (r' r : res A) : Prop := r' = Err \/ r' = r.

Definition eosR {A} (R : A -> A -> Prop) (r' r : res A) : Prop :=
  r' = Err \/ (r' = Panic /\ r = Panic) \/ exists a a', r = OK a /\ r' = OK a' /\ R a a'.

Definition backs (zh : nat -> chunk) (t : ty) (n : node) : Prop :=
  exists v, has_type v t = true /\ repr zh t n v.

(* ------------------------------------------------------------------------------------- *)
(* 1. summaries: roots, inversion, transitivity, [summarize]                             *)
(* ------------------------------------------------------------------------------------- *)

Section Summ.
Variable H : chunk -> chunk -> chunk.
Notation summ := (summ H).

Lemma summ_root n n' : summ n n' -> root_of H n' = root_of H n.
Proof.
  induction 1 as [n|n|a b a' b' Ha IHa Hb IHb]; cbn [root_of]; try reflexivity.
  now rewrite IHa, IHb.
Qed.

(* the full tree has a leaf: the partial tree has the same leaf *)
Lemma summ_leaf_inv c m' : summ (Leaf c) m' -> m' = Leaf c.
Proof. intros Hs. inversion Hs; subst; reflexivity. Qed.

(* the partial tree has a pair: so has the full tree, children related *)
Lemma summ_pair_inv n a' b' : summ n (Pair a' b') ->
  exists a b, n = Pair a b /\ summ a a' /\ summ b b'.
Proof.
  intros Hs. inversion Hs; subst.
  - exists a', b'. repeat split; constructor.
  - eauto.
Qed.

(* the partial tree has a leaf: it is the root of what the full tree has there *)
Lemma summ_to_leaf n c : summ n (Leaf c) -> root_of H n = c.
Proof. intros Hs. apply summ_root in Hs. cbn [root_of] in Hs. congruence. Qed.

(* the full tree has a pair *)
Lemma summ_from_pair a b n' : summ (Pair a b) n' ->
  n' = Leaf (root_of H (Pair a b)) \/ exists a' b', n' = Pair a' b' /\ summ a a' /\ summ b b'.
Proof.
  intros Hs. inversion Hs; subst.
  - right. exists a, b. repeat split; constructor.
  - now left.
  - right. eauto.
Qed.

Lemma summ_trans a b c : summ a b -> summ b c -> summ a c.
Proof.
  intros Hab. revert c. induction Hab as [n|n|x y x' y' Hx IHx Hy IHy]; intros c Hbc.
  - exact Hbc.
  - apply summ_leaf_inv in Hbc. subst c. constructor.
  - destruct (summ_from_pair _ _ _ Hbc) as [->|(x'' & y'' & -> & Hx' & Hy')].
    + cbn [root_of]. rewrite (summ_root _ _ Hx), (summ_root _ _ Hy).
      apply (sm_sum H (Pair x y)).
    + constructor; auto.
Qed.

Section WithZero.
Variable zh : nat -> chunk.

(* summarising the position p *)
Lemma set_summary_summ p : forall n sub n',
  get_path n p = OK sub -> set_path zh n p false (Leaf (root_of H sub)) = OK n' -> summ n n'.
Proof.
  induction p as [|b p IH]; intros n sub n' Hg Hs.
  - rewrite get_path_nil in Hg. injection Hg as <-. cbn in Hs. injection Hs as <-. constructor.
  - destruct n as [c|l r]; [discriminate|]. rewrite get_path_pair in Hg.
    rewrite set_path_cons, step_children_pair in Hs. cbn [bind] in Hs. destruct b.
    + destruct (set_path zh r p false _) as [r'| |] eqn:Er; cbn [bind] in Hs; try discriminate.
      injection Hs as <-. constructor; [constructor|]. eapply IH; eauto.
    + destruct (set_path zh l p false _) as [l'| |] eqn:El; cbn [bind] in Hs; try discriminate.
      injection Hs as <-. constructor; [|constructor]. eapply IH; eauto.
Qed.

Lemma summarize_summ n g n' : summarize zh H n g = OK n' -> summ n n'.
Proof.
  unfold summarize, setter, getter. destruct n as [x|l r].
  - destruct (g =? 1); [|discriminate]. intros [= <-]. constructor.
  - generalize (Pair l r) as n. intros n.
    destruct (set_path zh n (g_path g) false n); cbn [bind]; try discriminate.
    destruct (get_path n (g_path g)) as [sub| |] eqn:Eg; cbn [bind]; try discriminate.
    intros Hs. eapply set_summary_summ; eauto.
Qed.

(* repeated summarising *)
Fixpoint summarize_all (n : node) (gs : list N) : res node :=
  match gs with
  | [] => OK n
  | g :: r => do n1 <- summarize zh H n g; summarize_all n1 r
  end.

Lemma summarize_all_summ gs : forall n n', summarize_all n gs = OK n' -> summ n n'.
Proof.
  induction gs as [|g gs IH]; intros n n' Hs; cbn [summarize_all] in Hs.
  - injection Hs as <-. constructor.
  - destruct (summarize zh H n g) as [n1| |] eqn:E1; cbn [bind] in Hs; try discriminate.
    eapply summ_trans; [eapply summarize_summ; eauto|eauto].
Qed.

(* ------------------------------------------------------------------------------------- *)
(* 2. navigation and writes                                                              *)
(* ------------------------------------------------------------------------------------- *)

Lemma summ_get p : forall n n' m',
  summ n n' -> get_path n' p = OK m' -> exists m, get_path n p = OK m /\ summ m m'.
Proof.
  induction p as [|b p IH]; intros n n' m' Hs Hg.
  - rewrite get_path_nil in Hg. injection Hg as <-. exists n. split; [apply get_path_nil|exact Hs].
  - destruct n' as [c|a' b']; [discriminate|]. rewrite get_path_pair in Hg.
    destruct (summ_pair_inv _ _ _ Hs) as (a & b0 & -> & Ha & Hb). rewrite get_path_pair.
    destruct b; eapply IH; eauto.
Qed.

Lemma summ_get_eosR n n' p : summ n n' -> eosR summ (get_path n' p) (get_path n p).
Proof.
  intros Hs. destruct (get_path n' p) as [m'| |] eqn:Hg.
  - destruct (summ_get p _ _ _ Hs Hg) as (m & Hm & Hmm). right. right. eauto.
  - now left.
  - exfalso. exact (get_path_total _ _ Hg).
Qed.

(* a leaf of the full tree is read as the same leaf or not at all *)
Lemma summ_get_leaf n n' p c : summ n n' -> get_path n p = OK (Leaf c) ->
  get_path n' p = Err \/ get_path n' p = OK (Leaf c).
Proof.
  intros Hs Hg. destruct (summ_get_eosR n n' p Hs) as [E|[[E _]|(a & a' & E1 & E2 & Hr)]].
  - now left.
  - exfalso. exact (get_path_total _ _ E).
  - right. rewrite Hg in E1. injection E1 as <-. apply summ_leaf_inv in Hr. now subst a'.
Qed.

(* writes without expansion *)
Lemma summ_set_noexp p : forall n n' v v' r',
  summ n n' -> summ v v' -> set_path zh n' p false v' = OK r' ->
  exists r, set_path zh n p false v = OK r /\ summ r r'.
Proof.
  induction p as [|b p IH]; intros n n' v v' r' Hs Hv Hset.
  - cbn in Hset. injection Hset as <-. exists v. split; [reflexivity|exact Hv].
  - rewrite set_path_cons in Hset. destruct n' as [c|a' b']; [discriminate|].
    rewrite step_children_pair in Hset. cbn [bind] in Hset.
    destruct (summ_pair_inv _ _ _ Hs) as (a & b0 & -> & Ha & Hb).
    rewrite set_path_cons, step_children_pair. cbn [bind]. destruct b.
    + destruct (set_path zh b' p false v') as [x'| |] eqn:E; cbn [bind] in Hset; try discriminate.
      injection Hset as <-. destruct (IH _ _ _ _ _ Hb Hv E) as (x & -> & Hx). cbn [bind].
      eexists. split; [reflexivity|]. now constructor.
    + destruct (set_path zh a' p false v') as [x'| |] eqn:E; cbn [bind] in Hset; try discriminate.
      injection Hset as <-. destruct (IH _ _ _ _ _ Ha Hv E) as (x & -> & Hx). cbn [bind].
      eexists. split; [reflexivity|]. now constructor.
Qed.

Lemma summ_set_noexp_eosR n n' p v v' : summ n n' -> summ v v' ->
  eosR summ (set_path zh n' p false v') (set_path zh n p false v).
Proof.
  intros Hs Hv. destruct (set_path zh n' p false v') as [r'| |] eqn:E.
  - destruct (summ_set_noexp p _ _ _ _ _ Hs Hv E) as (r & Hr & Hrr). right. right. eauto.
  - now left.
  - exfalso. exact (set_path_noexp_total _ _ _ _ E).
Qed.

(* ---- writes with expansion ---- *)
Hypothesis Hzh : forall d, zh d = zero_hash H d.
Notation zcf := (zero_collision_free H zh).

Lemma zcf_leaf c : zcf (Leaf c).
Proof.
  intros p m k Hg Hr. destruct p; [|discriminate]. cbn in Hg. injection Hg as <-.
  cbn in Hr. subst c. constructor.
Qed.

Lemma zcf_pair a b : zcf (Pair a b) -> zcf a /\ zcf b.
Proof.
  intros Hz. split; intros p m k Hg Hr.
  - apply (Hz (false :: p) m k); assumption.
  - apply (Hz (true :: p) m k); assumption.
Qed.

Lemma zcf_sub n p m : zcf n -> get_path n p = OK m -> zcf m.
Proof.
  intros Hz Hg q x k Hq Hr. apply (Hz (p ++ q) x k); [|exact Hr].
  rewrite (get_path_app _ _ _ _ Hg). exact Hq.
Qed.

Lemma zt_summ k m : zt zh k m -> summ m (Leaf (zh k)).
Proof. intros Hz. rewrite <- (zt_root H zh Hzh k m Hz). constructor. Qed.

Lemma zpf_root m : zero_preimage_free H -> forall k, root_of H m = zh k -> zt zh k m.
Proof.
  intros Hp. induction m as [c|a IHa b IHb]; intros k Hr; cbn [root_of] in Hr.
  - subst c. constructor.
  - rewrite Hzh in Hr. destruct (Hp _ _ _ Hr) as (k' & -> & Ea & Eb).
    rewrite <- Hzh in Ea, Eb. constructor; auto.
Qed.

Lemma zpf_zcf n : zero_preimage_free H -> zcf n.
Proof. intros Hp p m k _ Hr. now apply zpf_root. Qed.

(* the heart: an expanding write into the partial tree is matched by the same write into the
   full tree; the results are again full tree / partial tree *)
Lemma summ_set_expand p : forall n n' v v' r',
  zcf n -> summ n n' -> summ v v' -> set_path zh n' p true v' = OK r' ->
  exists r, set_path zh n p true v = OK r /\ summ r r'.
Proof.
  induction p as [|b p IH]; intros n n' v v' r' Hz Hs Hv Hset.
  - cbn in Hset. injection Hset as <-. exists v. split; [reflexivity|exact Hv].
  - rewrite set_path_cons in Hset.
    destruct (step_children zh n' (length p) true) as [[l' r0']| |] eqn:Est; cbn [bind] in Hset;
      try discriminate.
    assert (Hkids : exists l r0, step_children zh n (length p) true = OK (l, r0) /\
                                 summ l l' /\ summ r0 r0' /\ zcf l /\ zcf r0).
    { destruct (step_children_ok zh _ _ _ _ _ Est) as [->|(_ & -> & Hk & -> & ->)].
      - destruct (summ_pair_inv _ _ _ Hs) as (a & b0 & -> & Ha & Hb).
        destruct (zcf_pair _ _ Hz) as [Hza Hzb].
        exists a, b0. rewrite step_children_pair. auto.
      - pose proof (summ_to_leaf _ _ Hs) as Hroot.
        pose proof (Hz [] n (S (length p)) (get_path_nil n) Hroot) as Hzt.
        inversion Hzt as [d0 Ed Ec|d0 a0 c0 Ha Hc Ed Ec]; subst.
        + exists (Leaf (zh (length p))), (Leaf (zh (length p))).
          rewrite Est. repeat split; try constructor; apply zcf_leaf.
        + destruct (zcf_pair _ _ Hz) as [Hza Hzb].
          exists a0, c0. rewrite step_children_pair. repeat split; auto; now apply zt_summ. }
    destruct Hkids as (l & r0 & Est0 & Hl & Hr & Hzl & Hzr).
    rewrite set_path_cons, Est0. cbn [bind]. destruct b.
    + destruct (set_path zh r0' p true v') as [x'| |] eqn:E; cbn [bind] in Hset; try discriminate.
      injection Hset as <-. destruct (IH _ _ _ _ _ Hzr Hr Hv E) as (x & -> & Hx). cbn [bind].
      eexists. split; [reflexivity|]. now constructor.
    + destruct (set_path zh l' p true v') as [x'| |] eqn:E; cbn [bind] in Hset; try discriminate.
      injection Hset as <-. destruct (IH _ _ _ _ _ Hzl Hl Hv E) as (x & -> & Hx). cbn [bind].
      eexists. split; [reflexivity|]. now constructor.
Qed.

Lemma summ_set_expand_eosR n n' p v v' : (length p <= 65)%nat ->
  zcf n -> summ n n' -> summ v v' ->
  eosR summ (set_path zh n' p true v') (set_path zh n p true v).
Proof.
  intros Hlen Hz Hs Hv. destruct (set_path zh n' p true v') as [r'| |] eqn:E.
  - destruct (summ_set_expand p _ _ _ _ _ Hz Hs Hv E) as (r & Hr & Hrr). right. right. eauto.
  - now left.
  - exfalso. exact (set_path_total zh p _ _ _ Hlen E).
Qed.

(* both flags at once *)
Lemma summ_set_any n n' p e v v' r' :
  (e = true -> zcf n) -> summ n n' -> summ v v' -> set_path zh n' p e v' = OK r' ->
  exists r, set_path zh n p e v = OK r /\ summ r r'.
Proof.
  intros Hz Hs Hv Hset. destruct e.
  - eapply summ_set_expand; eauto.
  - eapply summ_set_noexp; eauto.
Qed.

End WithZero.
End Summ.
