(* MutProofs.v — property C04: typed mutations through views and sub-views keep the root view
   observationally identical to a plain value subjected to the same operations.

   TM  = the view machine of Mut.v over pure trees ([tm_step]: Set/Append/Pop/Change of
         view/*.go and the BackingHook propagation).
   VM  = the abstract machine of VMach.v over plain values ([v_step]).

   Contents
     0. spec vocabulary used by Props/C04.v (small definitions, explained)
     A. paths of bottom positions; reading / writing / appending / popping in a [series]
     B. bytes and bits inside chunk lists: packing seen pointwise; the six chunk rewriting facts
     C. the typed mutations over pure trees, one by one (bitfields, packed integers, node series)
     D. facts about types, geometry, sources of mutations
     E. one mutation of a handle: TM against VM, every operation, every type ([mutate_ok])
     F. hook propagation ([backing_ok]), one step ([step_ok])
     G. histories, observations (root, length), errors; examples and a recorded discrepancy
     H. element reads through the typed getters ([view_get_ok])

   Hypotheses.  [zh] is the zero-hash table of the pair hash [H] (the structural parts only use
   [zh 0 = zero_chunk]).  Types are [ty_ok]: wf_ty, small_params (lengths/limits <= 2^56) and
   ReprProofs.small_fields (at most 2^63 fields per container; with more, CoverDepth reaches 64
   and ToGindex64 refuses every index while the plain value accepts it).  Sources of mutations
   are [src_ok]: typed literals; handles only where the Go API takes a backed view (elements of
   complex series, container fields, union values); bits and packed integers come as literals. *)
From Coq Require Import PeanoNat ZArith ZifyN ZifyNat ZifyBool.
From Ztyp Require Import Base Bitlen Tree Types Spec View Mut Repr VMach
     BitlenProofs TreeProofs MerkleProofs ReprProofs.
From Ztyp Require BitfieldsProofs.
Open Scope N_scope.

#[local] Ltac Zify.zify_post_hook ::= Z.div_mod_to_equations.
Local Arguments N.pow : simpl never.
Local Arguments Nat.pow : simpl never.
Local Arguments N.of_nat : simpl never.
Local Arguments N.to_nat : simpl never.
Local Arguments N.div : simpl never.
Local Arguments N.modulo : simpl never.
Local Arguments Nat.div : simpl never.
Local Arguments Nat.modulo : simpl never.
Local Arguments N.log2_up : simpl never.
Local Opaque two64.

(* ==================================================================================== *)
(** * 0. Spec vocabulary of property C04 *)
(* ==================================================================================== *)

(* the types the theorems talk about: SSZ-legal, every length/limit at most 2^56, at most 2^63
   fields per container (ReprProofs.small_fields; Go's len() is an int) *)
Definition ty_ok (t : ty) : Prop :=
  wf_ty t = true /\ small_params t = true /\ small_fields t = true.

(* handle k of TM and handle k of VM: same type, same hook, the backing tree represents the
   plain value *)
Definition hrel (zh : nat -> chunk) (x : handle node) (y : vhandle) : Prop :=
  h_ty node x = vh_ty y /\ h_hook node x = vh_hook y /\ ty_ok (vh_ty y) /\
  has_type (vh_val y) (vh_ty y) = true /\ repr zh (vh_ty y) (h_back node x) (vh_val y).

(* a hook points to an older handle, to a slot whose element type is the child's type *)
Definition hooks_ok (vm : vstate) : Prop :=
  forall k y p i, nth_error vm k = Some y -> vh_hook y = Some (p, i) ->
    (p < k)%nat /\ exists py, nth_error vm p = Some py /\ slot_ty (vh_ty py) i = Some (vh_ty y).

Definition R (zh : nat -> chunk) (tm : tm_state) (vm : vstate) : Prop :=
  Forall2 (hrel zh) (m_handles node unit tm) vm /\ hooks_ok vm.

(* what a mutation expects from its source: nothing (the operation fails anyway), a literal of
   type e (bits, packed integers: basic views are plain values in Go), a literal or a handle of
   type e, or the None option of a union *)
Inductive want := WAny | WLit (e : ty) | WTy (e : ty) | WNoneOpt.

Definition op_want (t : ty) (o : op) : want :=
  match o, t with
  | OSet _ _ _, (TBitvector _ | TBitlist _) => WLit TBool
  | OSet _ _ _, (TVector e _ | TList e _) => if is_basic_elem e then WLit e else WTy e
  | OSet _ i _, TContainer fs =>
    match nth_error fs (nat_of i) with Some f => WTy f | None => WAny end
  | OAppend _ _, TBitlist _ => WLit TBool
  | OAppend _ _, TList e _ => if is_basic_elem e then WLit e else WTy e
  | OChange _ sel _, TUnion none opts =>
    if union_count none opts <=? sel then WAny
    else match union_opt none opts sel with Some e => WTy e | None => WNoneOpt end
  | _, _ => WAny
  end.

Definition src_fits (vm : vstate) (w : want) (s : src) : Prop :=
  match s with
  | SLit t v =>
    (ty_ok t /\ has_type v t = true) /\
    match w with WAny => True | WLit e | WTy e => t = e | WNoneOpt => False end
  | SHandle h =>
    match w with
    | WAny => True
    | WTy e => forall y, nth_error vm h = Some y -> vh_ty y = e
    | WLit _ | WNoneOpt => False
    end
  | SNone => match w with WAny | WNoneOpt => True | _ => False end
  end.

Definition op_src (o : op) : option (nat * src) :=
  match o with
  | OSet h _ s | OAppend h s | OChange h _ s => Some (h, s)
  | _ => None
  end.

Definition src_ok (vm : vstate) (o : op) : Prop :=
  match op_src o with
  | Some (h, s) => forall y, nth_error vm h = Some y -> src_fits vm (op_want (vh_ty y) o) s
  | None => True
  end.

(* outputs agree *)
Definition out_rel (r : res mout) (r' : option vout) : Prop :=
  match r, r' with
  | OK MUnit, Some VUnit => True
  | OK (MHandle k), Some (VHandle k') => k = k'
  | OK MNoneValue, Some VNoneValue => True
  | Err, None => True
  | _, _ => False
  end.


(* the result of a TM mutation against the result of the VM mutation: success with a tree
   representing the new (still well-typed) value, or an error (never a panic) on both sides *)
Definition mut_rel (zh : nat -> chunk) (t : ty) (r : res (node * unit)) (ov : option val) : Prop :=
  match ov with
  | Some v' => exists n', r = OK (n', tt) /\ repr zh t n' v' /\ has_type v' t = true
  | None => r = Err
  end.

(* the result of SetBacking (hook chain) against the result of the plain write-back *)
Definition back_rel (r : res unit) (ok : bool) : Prop :=
  (r = OK tt /\ ok = true) \/ (r = Err /\ ok = false).


(* mutating operations and the handle an operation addresses *)
Definition is_mut (o : op) : bool :=
  match o with OSet _ _ _ | OAppend _ _ | OPop _ | OChange _ _ _ => true | _ => false end.
Definition op_handle (o : op) : nat :=
  match o with
  | OGet h _ | OUValue h | OCopy h | OSet h _ _ | OAppend h _ | OPop h | OChange h _ _ => h
  end.


(* runs and traces *)
Definition tm_run (zh : nat -> chunk) (tm : tm_state) (os : list op) : tm_state :=
  fold_left (fun st o => fst (tm_step zh st o)) os tm.
Definition v_run (vm : vstate) (os : list op) : vstate :=
  fold_left (fun st o => fst (v_step st o)) os vm.

Fixpoint tm_trace (zh : nat -> chunk) (tm : tm_state) (os : list op) : list (res mout) :=
  match os with
  | [] => []
  | o :: r => snd (tm_step zh tm o) :: tm_trace zh (fst (tm_step zh tm o)) r
  end.
Fixpoint v_trace (vm : vstate) (os : list op) : list (option vout) :=
  match os with
  | [] => []
  | o :: r => snd (v_step vm o) :: v_trace (fst (v_step vm o)) r
  end.

(* every operation of the history has a well-typed source in the state it is applied to *)
Fixpoint srcs_ok (vm : vstate) (os : list op) : Prop :=
  match os with
  | [] => True
  | o :: r => src_ok vm o /\ srcs_ok (fst (v_step vm o)) r
  end.


(* where the bottom positions of a view of type t are: [d] levels below the contents node,
   which is the backing itself or (lists) its left child *)
Definition geom (t : ty) (lst : bool) (d : nat) : Prop :=
  view_depth t = N.of_nat d + (if lst then 1 else 0) /\ view_depth t < 64.
Definition wrapn (lst : bool) (c L : node) : node := if lst then Pair c L else c.


(* the plain value of element i (None = out of range) *)
Definition v_elem (t : ty) (v : val) (i : N) : option val :=
  if v_len t v <=? i then None else
  match v with
  | VBits bs => option_map VBool (nth_error bs (nat_of i))
  | VSeq vs | VCont vs => nth_error vs (nat_of i)
  | _ => None
  end.

(* what a typed Get returns, against the plain element *)
Definition got_rel (zh : nat -> chunk) (g : got) (y : val) : Prop :=
  match g with
  | GVal v => v = y
  | GNode e c => repr zh e c y /\ has_type y e = true
  end.


(* chunk lists: byte m of a chunk list; well-sized chunks; two chunk lists that are equal up
   to trailing zero chunks (a zero chunk at the end of a series is padding) *)
(* byte number m of a chunk list (b0 beyond the end) *)
Definition cbyte (cs : list chunk) (m : nat) : byte :=
  nth (m mod 32) (nth (m / 32) cs []) b0.
Definition len32 (c : chunk) : Prop := length c = 32%nat.

Definition chunks_equiv (cs1 cs2 : list chunk) : Prop :=
  Forall len32 cs1 /\ Forall len32 cs2 /\ (length cs2 <= length cs1)%nat /\
  forall m, cbyte cs1 m = cbyte cs2 m.

(* the w bytes of a packed unsigned integer (zeros for anything else) *)
Definition uint_bytes (w : nat) (v : val) : list byte :=
  match v with VUint n => le_bytes w n | _ => repeat b0 w end.

(* BackingFromBase: the bytes of slot r replaced *)
Definition slot_write (w : nat) (c : chunk) (r : nat) (new : list byte) : chunk :=
  firstn (w * r) c ++ new ++ skipn (w * r + w) c.


(* ==================================================================================== *)
(** * Part A. Paths of bottom positions; reading, writing, appending, popping in a series *)
(* ==================================================================================== *)

(* ---- generic list facts ---- *)
Lemma lenN_app' {A} (a b : list A) : lenN (a ++ b) = lenN a + lenN b.
Proof. unfold lenN. rewrite app_length. lia. Qed.

Lemma lenN_nil' {A} : lenN (@nil A) = 0.
Proof. reflexivity. Qed.

Lemma lenN_one {A} (x : A) : lenN [x] = 1.
Proof. reflexivity. Qed.

Lemma lenN_zero' {A} (l : list A) : lenN l = 0 -> l = [].
Proof. destruct l; [reflexivity|]. unfold lenN. cbn [length]. lia. Qed.

Lemma lenN_list_set {A} (l : list A) i x : lenN (list_set l i x) = lenN l.
Proof.
  unfold lenN. f_equal. revert i. induction l as [|y l IH]; intros [|i]; cbn [list_set length]; auto.
Qed.

Lemma list_set_app_lt {A} : forall (l r : list A) j x, (j < length l)%nat ->
  list_set (l ++ r) j x = list_set l j x ++ r.
Proof.
  induction l as [|y l IH]; intros r j x Hj; cbn [length] in Hj; [lia|].
  destruct j as [|j]; cbn [list_set app]; [reflexivity|]. rewrite IH by lia. reflexivity.
Qed.

Lemma list_set_app_ge {A} : forall (l r : list A) j x, (length l <= j)%nat ->
  list_set (l ++ r) j x = l ++ list_set r (j - length l) x.
Proof.
  induction l as [|y l IH]; intros r j x Hj; cbn [length] in *.
  - rewrite Nat.sub_0_r. reflexivity.
  - destruct j as [|j]; [lia|]. cbn [list_set app]. rewrite IH by lia. reflexivity.
Qed.

Lemma nth_list_set_eq {A} (d : A) : forall (l : list A) i x, (i < length l)%nat ->
  nth i (list_set l i x) d = x.
Proof.
  induction l as [|y l IH]; intros [|i] x Hi; cbn [length] in Hi; try lia; cbn [list_set nth]; auto.
  apply IH. lia.
Qed.

Lemma nth_list_set_neq {A} (d : A) : forall (l : list A) i j x, i <> j ->
  nth j (list_set l i x) d = nth j l d.
Proof.
  induction l as [|y l IH]; intros [|i] [|j] x Hne; cbn [list_set nth]; auto; try lia.
Qed.

Lemma list_set_last {A} (l : list A) x y : list_set (l ++ [x]) (length l) y = l ++ [y].
Proof. rewrite list_set_app_ge by lia. rewrite Nat.sub_diag. reflexivity. Qed.

Lemma map_list_set {A B} (f : A -> B) : forall l i x,
  map f (list_set l i x) = list_set (map f l) i (f x).
Proof. induction l as [|y l IH]; intros [|i] x; cbn [list_set map]; auto. rewrite IH. reflexivity. Qed.

Lemma map_removelast {A B} (f : A -> B) : forall l, map f (removelast l) = removelast (map f l).
Proof.
  induction l as [|y l IH]; [reflexivity|]. destruct l as [|z l]; [reflexivity|].
  cbn [removelast map] in *. rewrite IH. reflexivity.
Qed.

Lemma snoc_cases {A} (l : list A) : l = [] \/ exists l' x, l = l' ++ [x].
Proof.
  destruct l as [|a l]; [left; reflexivity|right].
  destruct (exists_last (l := a :: l)) as (l' & x & E); [discriminate|]. eauto.
Qed.

Lemma lenN_removelast {A} (l : list A) : lenN (removelast l) = lenN l - 1.
Proof.
  destruct (snoc_cases l) as [->|(l' & x & ->)]; [reflexivity|].
  rewrite removelast_last, lenN_app', lenN_one. lia.
Qed.

(* ---- the path of bottom position i at depth d ---- *)
Lemma bits_msb_S d i : bits_msb (S d) i = N.testbit i (N.of_nat d) :: bits_msb d i.
Proof. reflexivity. Qed.

Lemma bits_msb_length d i : length (bits_msb d i) = d.
Proof. induction d as [|d IH]; cbn [bits_msb length]; auto. Qed.

Lemma bits_msb_sub d : forall k i, (k <= d)%nat -> i < 2 ^ N.of_nat d ->
  bits_msb k (2 ^ N.of_nat d + i) = bits_msb k i.
Proof.
  induction k as [|k IH]; intros i Hk Hi; [reflexivity|].
  cbn [bits_msb]. rewrite IH by (lia || assumption). f_equal.
  apply testbit_anchor_low; [exact Hi|lia].
Qed.

Lemma bits_msb_left d i : i < 2 ^ N.of_nat d -> bits_msb (S d) i = false :: bits_msb d i.
Proof.
  intros Hi. rewrite bits_msb_S. f_equal. apply (testbit_small i (N.of_nat d)); [exact Hi|lia].
Qed.

Lemma bits_msb_right d i : 2 ^ N.of_nat d <= i -> i < 2 ^ N.of_nat (S d) ->
  bits_msb (S d) i = true :: bits_msb d (i - 2 ^ N.of_nat d).
Proof.
  intros Hlo Hhi. rewrite pow2N_S in Hhi. rewrite bits_msb_S.
  replace i with (2 ^ N.of_nat d + (i - 2 ^ N.of_nat d)) at 1 2 by lia.
  rewrite bits_msb_sub by lia. f_equal.
  replace (2 ^ N.of_nat d + (i - 2 ^ N.of_nat d)) with ((i - 2 ^ N.of_nat d) + 1 * 2 ^ N.of_nat d) by lia.
  rewrite N.testbit_eqb. rewrite N.div_add by apply pow2_nz.
  rewrite N.div_small by lia. reflexivity.
Qed.

Lemma g_path_bits d i : N.of_nat d < 64 -> i < 2 ^ N.of_nat d ->
  g_path (2 ^ N.of_nat d + i) = bits_msb d i.
Proof.
  intros Hd Hi. rewrite g_path_spec by assumption. rewrite bits_msb_map, Nat2N.id.
  apply map_ext_in. intros k Hk. apply in_seq in Hk. f_equal. lia.
Qed.

(* SubtreeView.GetNode/SetNode address position i of a vector at depth d with
   ToGindex64(i, d); lists hold their contents under the left child: depth d + 1 *)
Lemma vector_path d i : N.of_nat d < 64 -> i < 2 ^ N.of_nat d ->
  exists g, to_gindex64 i (N.of_nat d) = OK g /\ g_path g = bits_msb d i.
Proof.
  intros Hd Hi. exists (2 ^ N.of_nat d + i). split; [|apply g_path_bits; assumption].
  rewrite to_gindex64_spec, (proj2 (N.ltb_lt _ _) Hd), (proj2 (N.ltb_lt _ _) Hi). reflexivity.
Qed.

Lemma list_path d i : N.of_nat d + 1 < 64 -> i < 2 ^ N.of_nat d ->
  exists g, to_gindex64 i (N.of_nat d + 1) = OK g /\ g_path g = false :: bits_msb d i.
Proof.
  intros Hd Hi. replace (N.of_nat d + 1) with (N.of_nat (S d)) in * by lia.
  destruct (vector_path (S d) i Hd) as (g & E & P); [rewrite pow2N_S; lia|].
  exists g. split; [exact E|]. rewrite P. apply bits_msb_left. exact Hi.
Qed.

Section Series.
Variable zh : nat -> chunk.

Notation series := (series zh).
Notation ztree := (ztree zh).

(* split a series at the pivot: left part, right part; the right part is empty unless the
   left part is full *)
Lemma series_split d ps a b :
  series (S d) ps (Pair a b) ->
  exists psa psb, ps = psa ++ psb /\ series d psa a /\ series d psb b /\
                  (psb = [] \/ lenN psa = 2 ^ N.of_nat d).
Proof.
  intros Hs. apply series_pair in Hs.
  destruct (N.leb_spec (lenN ps) (2 ^ N.of_nat d)) as [Hle|Hgt].
  - destruct Hs as [Ha Hb]. exists ps, []. rewrite app_nil_r.
    repeat split; auto. apply series_nil. exact Hb.
  - destruct Hs as [Ha Hb].
    exists (firstn (nat_of (2 ^ N.of_nat d)) ps), (skipn (nat_of (2 ^ N.of_nat d)) ps).
    rewrite firstn_skipn. repeat split; auto. right.
    rewrite lenN_firstn. unfold nat_of. lia.
Qed.

Lemma series_join d psa psb a b :
  series d psa a -> series d psb b -> (psb = [] \/ lenN psa = 2 ^ N.of_nat d) ->
  series (S d) (psa ++ psb) (Pair a b).
Proof.
  intros Ha Hb Hc. apply series_pair.
  pose proof (series_length zh d psa a Ha) as Hla.
  destruct (N.leb_spec (lenN (psa ++ psb)) (2 ^ N.of_nat d)) as [Hle|Hgt].
  - rewrite lenN_app' in Hle. destruct Hc as [->|Hfull].
    + rewrite app_nil_r. split; [exact Ha|]. apply series_nil. exact Hb.
    + assert (Hz : lenN psb = 0) by lia. apply lenN_zero' in Hz. subst psb.
      rewrite app_nil_r. split; [exact Ha|]. apply series_nil. exact Hb.
  - rewrite lenN_app' in Hgt. destruct Hc as [->|Hfull].
    + rewrite lenN_nil' in Hgt. lia.
    + assert (Hn : nat_of (2 ^ N.of_nat d) = length psa) by (unfold lenN, nat_of in *; lia).
      rewrite Hn, firstn_app, skipn_app, Nat.sub_diag, firstn_all, skipn_all.
      cbn [firstn skipn]. rewrite app_nil_r. cbn [app]. split; assumption.
Qed.

Lemma series_nonempty_pair d ps n : series (S d) ps n -> ps <> [] -> exists a b, n = Pair a b.
Proof.
  intros Hs Hne. destruct n as [c|a b]; [|eauto].
  apply (proj1 (series_leaf zh _ _ _)) in Hs. destruct Hs as [-> _]. contradiction.
Qed.

(* ---- read ---- *)
Lemma series_get d : forall ps n i, series d ps n -> i < lenN ps ->
  exists m, get_path n (bits_msb d i) = OK m /\ nth (nat_of i) ps (fun _ => False) m.
Proof.
  induction d as [|d IH]; intros ps n i Hs Hi.
  - destruct ps as [|p ps]; [rewrite lenN_nil' in Hi; lia|].
    apply (proj1 (series_0 zh _ _ _)) in Hs. destruct Hs as [-> Hp]. rewrite lenN_one in Hi.
    assert (i = 0) by lia. subst i. exists n. split; [apply get_path_nil|exact Hp].
  - destruct (series_nonempty_pair d ps n Hs) as (a & b & ->).
    { intros ->. rewrite lenN_nil' in Hi. lia. }
    pose proof (series_length zh _ _ _ Hs) as Hlen.
    destruct (series_split d ps a b Hs) as (psa & psb & -> & Ha & Hb & Hc).
    pose proof (series_length zh _ _ _ Ha) as Hla.
    rewrite lenN_app' in Hi, Hlen.
    destruct (N.lt_ge_cases i (lenN psa)) as [Hlt|Hge].
    + rewrite bits_msb_left by lia. rewrite get_path_pair.
      destruct (IH psa a i Ha Hlt) as (m & Hg & Hn). exists m. split; [exact Hg|].
      rewrite app_nth1 by (unfold lenN, nat_of in *; lia). exact Hn.
    + destruct Hc as [->|Hfull]; [rewrite lenN_nil' in Hi; lia|].
      rewrite bits_msb_right by lia. rewrite get_path_pair.
      destruct (IH psb b (i - 2 ^ N.of_nat d) Hb) as (m & Hg & Hn); [lia|].
      exists m. split; [exact Hg|].
      rewrite app_nth2 by (unfold lenN, nat_of in *; lia).
      replace (nat_of i - length psa)%nat with (nat_of (i - 2 ^ N.of_nat d))
        by (unfold lenN, nat_of in *; lia).
      exact Hn.
Qed.

(* ---- write on a present position (the expand flag is irrelevant) ---- *)
Lemma series_set d : forall ps n i e v (q : node -> Prop), series d ps n -> i < lenN ps -> q v ->
  exists n', set_path zh n (bits_msb d i) e v = OK n' /\
             series d (list_set ps (nat_of i) q) n'.
Proof.
  induction d as [|d IH]; intros ps n i e v q Hs Hi Hq.
  - destruct ps as [|p ps]; [rewrite lenN_nil' in Hi; lia|].
    apply (proj1 (series_0 zh _ _ _)) in Hs. destruct Hs as [-> Hp]. rewrite lenN_one in Hi.
    assert (i = 0) by lia. subst i. exists v. split; [reflexivity|].
    change (nat_of 0) with O. cbn [list_set]. apply series_0. split; [reflexivity|exact Hq].
  - destruct (series_nonempty_pair d ps n Hs) as (a & b & ->).
    { intros ->. rewrite lenN_nil' in Hi. lia. }
    pose proof (series_length zh _ _ _ Hs) as Hlen.
    destruct (series_split d ps a b Hs) as (psa & psb & -> & Ha & Hb & Hc).
    pose proof (series_length zh _ _ _ Ha) as Hla.
    rewrite lenN_app' in Hi, Hlen.
    destruct (N.lt_ge_cases i (lenN psa)) as [Hlt|Hge].
    + rewrite bits_msb_left by lia. rewrite set_path_cons, step_children_pair. cbn [bind].
      destruct (IH psa a i e v q Ha Hlt Hq) as (a' & Hg & Hn). rewrite Hg. cbn [bind].
      exists (Pair a' b). split; [reflexivity|].
      rewrite list_set_app_lt by (unfold lenN, nat_of in *; lia).
      apply series_join; auto. rewrite lenN_list_set. exact Hc.
    + destruct Hc as [->|Hfull]; [rewrite lenN_nil' in Hi; lia|].
      rewrite bits_msb_right by lia. rewrite set_path_cons, step_children_pair. cbn [bind].
      destruct (IH psb b (i - 2 ^ N.of_nat d) e v q Hb) as (b' & Hg & Hn); [lia|exact Hq|].
      rewrite Hg. cbn [bind]. exists (Pair a b'). split; [reflexivity|].
      rewrite list_set_app_ge by (unfold lenN, nat_of in *; lia).
      replace (nat_of i - length psa)%nat with (nat_of (i - 2 ^ N.of_nat d))
        by (unfold lenN, nat_of in *; lia).
      apply series_join; auto.
Qed.

(* ---- append: the first absent position; the expansion meets zero summaries only ---- *)
Lemma set_path_expand_zero b p v : (length p <= 64)%nat ->
  set_path zh (Leaf (zh (S (length p)))) (b :: p) true v =
  set_path zh (Pair (Leaf (zh (length p))) (Leaf (zh (length p)))) (b :: p) true v.
Proof.
  intros Hl. rewrite !set_path_cons. cbn [step_children]. rewrite chunk_eqb_refl.
  unfold zero_node. destruct (N.leb_spec (N.of_nat (length p)) 64) as [_|Hgt]; [|lia].
  unfold nat_of. rewrite Nat2N.id. reflexivity.
Qed.

Lemma series_append d : forall ps n v (q : node -> Prop),
  (d <= 64)%nat -> series d ps n -> lenN ps < 2 ^ N.of_nat d -> q v ->
  exists n', set_path zh n (bits_msb d (lenN ps)) true v = OK n' /\
             series d (ps ++ [q]) n'.
Proof.
  induction d as [|d IH]; intros ps n v q Hd Hs Hl Hq.
  - rewrite pow2N_0 in Hl. assert (Hz : lenN ps = 0) by lia. apply lenN_zero' in Hz. subst ps.
    exists v. split; [reflexivity|]. cbn [app]. apply series_0. split; [reflexivity|exact Hq].
  - assert (Hpair : exists a b, series (S d) ps (Pair a b) /\
              set_path zh n (bits_msb (S d) (lenN ps)) true v =
              set_path zh (Pair a b) (bits_msb (S d) (lenN ps)) true v).
    { destruct n as [c|a b]; [|eauto].
      apply (proj1 (series_leaf zh _ _ _)) in Hs. destruct Hs as [-> ->].
      exists (Leaf (zh d)), (Leaf (zh d)). split.
      - apply series_nil, ztree_S_pair. split; apply ztree_leaf.
      - rewrite bits_msb_S.
        pose proof (set_path_expand_zero (N.testbit (lenN (@nil (node -> Prop))) (N.of_nat d))
                      (bits_msb d (lenN (@nil (node -> Prop)))) v) as E.
        rewrite bits_msb_length in E. apply E. lia. }
    destruct Hpair as (a & b & Hs' & ->). clear Hs n.
    destruct (series_split d ps a b Hs') as (psa & psb & -> & Ha & Hb & Hc).
    pose proof (series_length zh _ _ _ Ha) as Hla.
    pose proof (series_length zh _ _ _ Hb) as Hlb.
    rewrite lenN_app' in *. rewrite pow2N_S in Hl.
    destruct Hc as [->|Hfull].
    + rewrite lenN_nil', N.add_0_r in *. rewrite app_nil_r.
      destruct (N.lt_ge_cases (lenN psa) (2 ^ N.of_nat d)) as [Hlt|Hge].
      * rewrite bits_msb_left by lia. rewrite set_path_cons, step_children_pair. cbn [bind].
        destruct (IH psa a v q ltac:(lia) Ha Hlt Hq) as (a' & Hg & Hn). rewrite Hg. cbn [bind].
        exists (Pair a' b). split; [reflexivity|].
        rewrite <- (app_nil_r (psa ++ [q])). apply series_join; auto.
      * assert (Hfull : lenN psa = 2 ^ N.of_nat d) by lia.
        rewrite bits_msb_right by (rewrite ?pow2N_S; lia).
        rewrite set_path_cons, step_children_pair. cbn [bind].
        rewrite Hfull, N.sub_diag. change 0 with (lenN (@nil (node -> Prop))).
        destruct (IH [] b v q ltac:(lia) Hb) as (b' & Hg & Hn);
          [rewrite lenN_nil'; apply pow2N_pos|exact Hq|].
        rewrite Hg. cbn [bind]. exists (Pair a b'). split; [reflexivity|].
        apply series_join; auto.
    + rewrite bits_msb_right by (rewrite ?pow2N_S; lia).
      rewrite set_path_cons, step_children_pair. cbn [bind].
      replace (lenN psa + lenN psb - 2 ^ N.of_nat d) with (lenN psb) by lia.
      destruct (IH psb b v q ltac:(lia) Hb ltac:(lia) Hq) as (b' & Hg & Hn).
      rewrite Hg. cbn [bind]. exists (Pair a b'). split; [reflexivity|].
      rewrite <- app_assoc. apply series_join; auto.
Qed.

(* ---- a trailing zero position is padding ---- *)
Lemma series_drop_last d : forall ps (q : node -> Prop) n,
  (forall m, q m -> m = Leaf (zh 0)) -> series d (ps ++ [q]) n -> series d ps n.
Proof.
  induction d as [|d IH]; intros ps q n Hq Hs.
  - destruct ps as [|p ps].
    + cbn [app] in Hs. apply (proj1 (series_0 zh _ _ _)) in Hs. destruct Hs as [_ Hn].
      apply series_nil, ztree_0. apply Hq, Hn.
    + cbn [app] in Hs. apply (proj1 (series_0 zh _ _ _)) in Hs. destruct Hs as [Hnil _].
      destruct ps; discriminate.
  - destruct (series_nonempty_pair d _ n Hs) as (a & b & ->).
    { destruct ps; discriminate. }
    destruct (series_split d _ a b Hs) as (psa & psb & E & Ha & Hb & Hc).
    destruct (snoc_cases psb) as [->|(psb' & x & ->)].
    + rewrite app_nil_r in E. subst psa.
      rewrite <- (app_nil_r ps). apply series_join; auto.
      apply (IH ps q a Hq Ha).
    + rewrite app_assoc in E. apply app_inj_tail in E. destruct E as [-> ->].
      destruct Hc as [Hc|Hfull]; [destruct psb'; discriminate|].
      apply series_join; auto. apply (IH psb' x b Hq Hb).
Qed.

Lemma series_drop_zeros d (ps : list (node -> Prop)) k n :
  series d (ps ++ repeat (is_chunk (zh 0)) k) n -> series d ps n.
Proof.
  revert ps. induction k as [|k IH]; intros ps Hs.
  - cbn [repeat] in Hs. rewrite app_nil_r in Hs. exact Hs.
  - apply IH. apply (series_drop_last d _ (is_chunk (zh 0)) n).
    + intros m Hm. exact Hm.
    + rewrite <- app_assoc. rewrite repeat_snoc. exact Hs.
Qed.

(* pop of the last position: overwrite it with the zero leaf *)
Lemma series_pop d ps n e : series d ps n -> ps <> [] ->
  exists n', set_path zh n (bits_msb d (lenN ps - 1)) e (Leaf (zh 0)) = OK n' /\
             series d (removelast ps) n'.
Proof.
  intros Hs Hne. destruct (snoc_cases ps) as [->|(ps' & x & ->)]; [contradiction|].
  rewrite removelast_last.
  destruct (series_set d _ n (lenN (ps' ++ [x]) - 1) e (Leaf (zh 0)) (fun m => m = Leaf (zh 0)) Hs)
    as (n' & Hset & Hs').
  { rewrite lenN_app', lenN_one. lia. }
  { reflexivity. }
  exists n'. split; [exact Hset|].
  replace (nat_of (lenN (ps' ++ [x]) - 1)) with (length ps') in Hs'
    by (rewrite lenN_app', lenN_one; unfold lenN, nat_of; lia).
  rewrite list_set_last in Hs'.
  apply (series_drop_last d ps' _ n' (fun m H => H) Hs').
Qed.

End Series.

(* ==================================================================================== *)
(** * Part B. Bytes and bits inside chunk lists: packing seen pointwise *)
(* ==================================================================================== *)

(* bit number m of a chunk list *)
Definition cbit (cs : list chunk) (m : nat) : bool :=
  N.testbit (N_of_byte (cbyte cs (m / 8))) (N.of_nat (m mod 8)).

Lemma nth_repeat_b0 k m : nth m (repeat b0 k) b0 = b0.
Proof.
  destruct (Nat.lt_ge_cases m k) as [Hlt|Hge].
  - apply nth_repeat.
  - apply nth_overflow. rewrite repeat_length. exact Hge.
Qed.

Lemma nth_repeat_lt {A} (x d : A) k m : (m < k)%nat -> nth m (repeat x k) d = x.
Proof.
  revert m. induction k as [|k IH]; intros m Hm; [lia|]. destruct m; cbn [repeat nth]; auto. apply IH. lia.
Qed.

Lemma pad32_length bs : length (pad32 bs) = 32%nat.
Proof.
  unfold pad32, pad_to, zero_bytes. rewrite firstn_length, app_length, repeat_length. lia.
Qed.

Lemma nth_pad32 bs k : (k < 32)%nat -> nth k (pad32 bs) b0 = nth k bs b0.
Proof.
  intros Hk. unfold pad32, pad_to, zero_bytes.
  rewrite BitfieldsProofs.nth_firstn_lt by exact Hk.
  destruct (Nat.lt_ge_cases k (length bs)) as [Hlt|Hge].
  - apply app_nth1. exact Hlt.
  - rewrite app_nth2 by exact Hge. rewrite nth_repeat_b0. symmetry. apply nth_overflow. exact Hge.
Qed.

Lemma zero_chunk_len : len32 zero_chunk.
Proof. reflexivity. Qed.

Lemma nth_zero_chunk k : nth k zero_chunk b0 = b0.
Proof. apply nth_repeat_b0. Qed.

Lemma chunkify_fuel_nth : forall fuel bs j, (length bs < fuel)%nat ->
  nth j (chunkify_fuel fuel bs) [] =
  if (32 * j <? length bs)%nat then pad32 (firstn 32 (skipn (32 * j) bs)) else [].
Proof.
  induction fuel as [|f IH]; intros bs j Hl; [lia|].
  destruct bs as [|b bs'].
  - cbn [chunkify_fuel length]. destruct j; reflexivity.
  - cbn [chunkify_fuel]. destruct j as [|j].
    + cbn [nth]. reflexivity.
    + cbn [nth].
      assert (Hs : length (skipn 32 (b :: bs')) = (length (b :: bs') - 32)%nat) by apply skipn_length.
      rewrite IH by (cbn [length] in *; lia). rewrite Hs.
      replace (32 * S j)%nat with (32 + 32 * j)%nat by lia.
      rewrite BitfieldsProofs.skipn_add.
      destruct (Nat.ltb_spec (32 * j) (length (b :: bs') - 32));
        destruct (Nat.ltb_spec (32 + 32 * j) (length (b :: bs'))); try lia; reflexivity.
Qed.

Lemma cbyte_chunkify bs m : cbyte (chunkify bs) m = nth m bs b0.
Proof.
  unfold cbyte, chunkify. rewrite chunkify_fuel_nth by lia.
  pose proof (Nat.div_mod m 32 ltac:(lia)) as Hdm.
  pose proof (Nat.mod_upper_bound m 32 ltac:(lia)) as Hmod.
  destruct (Nat.ltb_spec (32 * (m / 32)) (length bs)) as [Hlt|Hge].
  - rewrite nth_pad32 by exact Hmod. rewrite BitfieldsProofs.nth_firstn_lt by exact Hmod.
    rewrite BitfieldsProofs.nth_skipn_add. f_equal. lia.
  - destruct (m mod 32)%nat; cbn [nth]; symmetry; apply nth_overflow; lia.
Qed.

Lemma chunkify_len32 bs : Forall len32 (chunkify bs).
Proof.
  unfold chunkify. generalize (S (length bs)) as fuel. intros fuel. revert bs.
  induction fuel as [|f IH]; intros bs; [constructor|].
  destruct bs as [|b bs']; [constructor|]. cbn [chunkify_fuel]. constructor; [apply pad32_length|apply IH].
Qed.

Lemma cbyte_nth cs j k : (k < 32)%nat -> nth k (nth j cs []) b0 = cbyte cs (32 * j + k).
Proof.
  intros Hk. unfold cbyte.
  replace ((32 * j + k) / 32)%nat with j by lia.
  replace ((32 * j + k) mod 32)%nat with k by lia.
  reflexivity.
Qed.

Lemma chunks_ext cs1 cs2 :
  Forall len32 cs1 -> Forall len32 cs2 -> length cs1 = length cs2 ->
  (forall m, cbyte cs1 m = cbyte cs2 m) -> cs1 = cs2.
Proof.
  intros H1 H2 Hl Hb. apply (nth_ext _ _ [] [] Hl). intros j Hj.
  rewrite Forall_forall in H1, H2.
  assert (L1 : length (nth j cs1 []) = 32%nat) by (apply H1, nth_In; exact Hj).
  assert (L2 : length (nth j cs2 []) = 32%nat) by (apply H2, nth_In; rewrite <- Hl; exact Hj).
  apply (nth_ext _ _ b0 b0); [exact (eq_trans L1 (eq_sym L2))|]. intros k Hk. change (k < length (nth j cs1 []))%nat in Hk. rewrite L1 in Hk.
  rewrite !cbyte_nth by exact Hk. apply Hb.
Qed.

Lemma cbyte_overflow cs m : (length cs <= m / 32)%nat -> cbyte cs m = b0.
Proof.
  intros Hl. unfold cbyte. rewrite (nth_overflow cs) by exact Hl. destruct (m mod 32)%nat; reflexivity.
Qed.

Lemma cbyte_app_zeros cs k m : cbyte (cs ++ repeat zero_chunk k) m = cbyte cs m.
Proof.
  destruct (Nat.lt_ge_cases (m / 32) (length cs)) as [Hlt|Hge].
  - unfold cbyte. rewrite app_nth1 by exact Hlt. reflexivity.
  - rewrite (cbyte_overflow cs m Hge). unfold cbyte. rewrite app_nth2 by exact Hge.
    destruct (Nat.lt_ge_cases (m / 32 - length cs) k) as [Hlt|Hge'].
    + rewrite nth_repeat_lt by exact Hlt. apply nth_zero_chunk.
    + rewrite (nth_overflow (repeat zero_chunk k)) by (rewrite repeat_length; exact Hge').
      destruct (m mod 32)%nat; reflexivity.
Qed.

Lemma Forall_repeat' {A} (Q : A -> Prop) x k : Q x -> Forall Q (repeat x k).
Proof. intros Hx. induction k; cbn [repeat]; constructor; auto. Qed.

(* pointwise equal chunk lists differ by trailing zero chunks only *)
Lemma chunks_ext_trim cs1 cs2 :
  Forall len32 cs1 -> Forall len32 cs2 -> (length cs2 <= length cs1)%nat ->
  (forall m, cbyte cs1 m = cbyte cs2 m) ->
  cs1 = cs2 ++ repeat zero_chunk (length cs1 - length cs2).
Proof.
  intros H1 H2 Hl Hb. apply chunks_ext; auto.
  - apply Forall_app. split; [exact H2|]. apply Forall_repeat', zero_chunk_len.
  - rewrite app_length, repeat_length. lia.
  - intros m. rewrite cbyte_app_zeros. apply Hb.
Qed.

Lemma list_set_len32 cs j c : Forall len32 cs -> len32 c -> Forall len32 (list_set cs j c).
Proof.
  intros Hcs Hc. revert j. induction Hcs as [|x l Hx Hl IH]; intros [|j]; cbn [list_set];
    constructor; auto.
Qed.

Lemma cbyte_list_set cs j c m : (j < length cs)%nat ->
  cbyte (list_set cs j c) m = if (m / 32 =? j)%nat then nth (m mod 32) c b0 else cbyte cs m.
Proof.
  intros Hj. unfold cbyte. destruct (Nat.eqb_spec (m / 32) j) as [->|Hne].
  - rewrite nth_list_set_eq by exact Hj. reflexivity.
  - rewrite nth_list_set_neq by congruence. reflexivity.
Qed.

Lemma cbyte_snoc cs c m :
  cbyte (cs ++ [c]) m = if (m / 32 =? length cs)%nat then nth (m mod 32) c b0 else cbyte cs m.
Proof.
  unfold cbyte. destruct (Nat.eqb_spec (m / 32) (length cs)) as [->|Hne].
  - rewrite app_nth2, Nat.sub_diag by lia. reflexivity.
  - destruct (Nat.lt_ge_cases (m / 32) (length cs)) as [Hlt|Hge].
    + rewrite app_nth1 by exact Hlt. reflexivity.
    + rewrite (nth_overflow cs) by exact Hge.
      rewrite (nth_overflow (cs ++ [c])) by (rewrite app_length; cbn [length]; lia). reflexivity.
Qed.

(* ---- series of chunks up to trailing zero chunks ---- *)
Section ChunkSeries.
Variable zh : nat -> chunk.
Hypothesis Hz0 : zh 0 = zero_chunk.

Lemma series_chunks_equiv d cs1 cs2 n :
  Forall len32 cs1 -> Forall len32 cs2 -> (length cs2 <= length cs1)%nat ->
  (forall m, cbyte cs1 m = cbyte cs2 m) ->
  series zh d (map is_chunk cs1) n -> series zh d (map is_chunk cs2) n.
Proof.
  intros H1 H2 Hl Hb Hs. rewrite (chunks_ext_trim cs1 cs2 H1 H2 Hl Hb) in Hs.
  rewrite map_app, map_repeat', <- Hz0 in Hs.
  apply (series_drop_zeros zh d _ _ n Hs).
Qed.

Lemma nth_map_chunk cs j m : (j < length cs)%nat ->
  nth j (map is_chunk cs) (fun _ => False) m -> m = Leaf (nth j cs []).
Proof.
  intros Hj Hn. rewrite (nth_indep _ _ (is_chunk []))in Hn by (rewrite map_length; exact Hj).
  rewrite map_nth in Hn. exact Hn.
Qed.
End ChunkSeries.

(* ==================================================================================== *)
(** ** packed unsigned integers *)

Lemma div_in_slot w r m : (0 < w)%nat -> (w * r <= m < w * r + w)%nat -> (m / w = r)%nat.
Proof. intros Hw Hm. symmetry. apply Nat.div_unique with (m - w * r)%nat; lia. Qed.

Lemma div_slot_iff w r m : (0 < w)%nat -> (m / w = r)%nat <-> (w * r <= m < w * r + w)%nat.
Proof.
  intros Hw. split; [|apply div_in_slot; exact Hw].
  intros <-. pose proof (Nat.div_mod m w ltac:(lia)). pose proof (Nat.mod_upper_bound m w ltac:(lia)).
  lia.
Qed.

Lemma uint_bytes_length w v : length (uint_bytes w v) = w.
Proof. destruct v; cbn [uint_bytes]; rewrite ?le_bytes_length, ?repeat_length; reflexivity. Qed.

Lemma flat_map_uint_bytes w vs :
  forallb (fun x => has_type x (TUint w)) vs = true ->
  flat_map (spec_ser (TUint w)) vs = flat_map (uint_bytes (nat_of w)) vs.
Proof.
  induction vs as [|v vs IH]; intros Hty; [reflexivity|].
  cbn [forallb] in Hty. apply andb_prop in Hty. destruct Hty as [Hv Hvs].
  cbn [flat_map]. rewrite IH by exact Hvs. destruct v; try discriminate Hv. reflexivity.
Qed.

Lemma flat_map_fixed_length {A} (f : A -> list byte) w vs :
  (forall v, length (f v) = w) -> length (flat_map f vs) = (w * length vs)%nat.
Proof.
  intros Hf. induction vs as [|v vs IH]; cbn [flat_map length]; [lia|].
  rewrite app_length, Hf, IH. lia.
Qed.

(* byte m of a packed series: element m/w, byte m mod w *)
Lemma nth_flat_map_fixed (f : val -> list byte) w dv : (0 < w)%nat ->
  (forall v, length (f v) = w) -> (forall k, nth k (f dv) b0 = b0) ->
  forall vs m, nth m (flat_map f vs) b0 = nth (m mod w) (f (nth (m / w) vs dv)) b0.
Proof.
  intros Hw Hf Hd. induction vs as [|v vs IH]; intros m.
  - cbn [flat_map]. destruct (m / w)%nat, m; cbn [nth]; rewrite Hd; reflexivity.
  - cbn [flat_map]. destruct (Nat.lt_ge_cases m w) as [Hlt|Hge].
    + rewrite app_nth1 by (rewrite Hf; exact Hlt).
      rewrite Nat.div_small, Nat.mod_small by exact Hlt. reflexivity.
    + rewrite app_nth2 by (rewrite Hf; exact Hge). rewrite Hf, IH.
      replace m with ((m - w) + 1 * w)%nat at 3 4 by lia.
      rewrite Nat.div_add, Nat.mod_add by lia.
      replace ((m - w) / w + 1)%nat with (S ((m - w) / w)) by lia. reflexivity.
Qed.

Lemma uint_bytes_default w k : nth k (uint_bytes w (VUint 0)) b0 = b0.
Proof. cbn [uint_bytes]. rewrite le_bytes_0. apply nth_repeat_b0. Qed.

Lemma nth_packed w vs m : (0 < w)%nat ->
  nth m (flat_map (uint_bytes w) vs) b0 = nth (m mod w) (uint_bytes w (nth (m / w) vs (VUint 0))) b0.
Proof.
  intros Hw. apply nth_flat_map_fixed; [exact Hw|apply uint_bytes_length|apply uint_bytes_default].
Qed.

Lemma slot_write_length w c r new : length c = 32%nat -> length new = w -> (w * r + w <= 32)%nat ->
  length (slot_write w c r new) = 32%nat.
Proof.
  intros Hc Hn Hr. unfold slot_write. rewrite !app_length, firstn_length, skipn_length. lia.
Qed.

Lemma nth_slot_write w c r new m : (0 < w)%nat -> length c = 32%nat -> length new = w ->
  (w * r + w <= 32)%nat ->
  nth m (slot_write w c r new) b0 = if (m / w =? r)%nat then nth (m mod w) new b0 else nth m c b0.
Proof.
  intros Hw Hc Hn Hr. unfold slot_write.
  destruct (Nat.lt_ge_cases m (w * r)) as [Hlt|Hge].
  - rewrite app_nth1 by (rewrite firstn_length; lia).
    rewrite BitfieldsProofs.nth_firstn_lt by exact Hlt.
    destruct (Nat.eqb_spec (m / w) r) as [E|_]; [|reflexivity].
    apply div_slot_iff in E; lia.
  - rewrite app_nth2 by (rewrite firstn_length; lia). rewrite firstn_length.
    replace (Nat.min (w * r) (length c)) with (w * r)%nat by lia.
    destruct (Nat.lt_ge_cases m (w * r + w)) as [Hlt'|Hge'].
    + rewrite app_nth1 by lia.
      rewrite (div_in_slot w r m Hw) by lia. rewrite Nat.eqb_refl.
      f_equal. apply Nat.mod_unique with r; lia.
    + rewrite app_nth2 by lia. rewrite BitfieldsProofs.nth_skipn_add, Hn.
      destruct (Nat.eqb_spec (m / w) r) as [E|_]; [apply div_slot_iff in E; lia|].
      f_equal. lia.
Qed.

Lemma packed_set_uint w c i n :
  packed_set (TUint w) c i (VUint n) =
  if 32 / w <=? i then Panic else OK (slot_write (nat_of w) c (nat_of i) (le_bytes (nat_of w) n)).
Proof.
  cbn [packed_set]. destruct (32 / w <=? i); [reflexivity|]. unfold slot_write, nat_of.
  rewrite N2Nat.inj_mul. reflexivity.
Qed.

(* the numbers: w bytes per element, p elements per chunk *)
Lemma uint_width_cases w : uint_width_ok w = true ->
  (w = 1 /\ 32 / w = 32) \/ (w = 2 /\ 32 / w = 16) \/ (w = 4 /\ 32 / w = 8) \/
  (w = 8 /\ 32 / w = 4) \/ (w = 32 /\ 32 / w = 1).
Proof.
  unfold uint_width_ok. intros Hw.
  assert (Hc : w = 1 \/ w = 2 \/ w = 4 \/ w = 8 \/ w = 32) by lia.
  destruct Hc as [->|[->|[->|[->| ->]]]]; vm_compute; tauto.
Qed.

Lemma per_node_uint w : per_node (TUint w) = 32 / w.
Proof. reflexivity. Qed.

Lemma land_pred_pow2 i p : (p = 32 \/ p = 16 \/ p = 8 \/ p = 4 \/ p = 1) -> N.land i (p - 1) = i mod p.
Proof.
  intros [->|[->|[->|[->| ->]]]].
  - change (32 - 1) with (N.ones 5). rewrite N.land_ones. reflexivity.
  - change (16 - 1) with (N.ones 4). rewrite N.land_ones. reflexivity.
  - change (8 - 1) with (N.ones 3). rewrite N.land_ones. reflexivity.
  - change (4 - 1) with (N.ones 2). rewrite N.land_ones. reflexivity.
  - change (1 - 1) with (N.ones 0). rewrite N.land_ones. reflexivity.
Qed.

(* byte M of the packed chunks: element M/w *)
Lemma cbyte_packed w vs M : uint_width_ok w = true ->
  forallb (fun x => has_type x (TUint w)) vs = true ->
  cbyte (packed_chunks (TUint w) vs) M =
  nth (M mod nat_of w) (uint_bytes (nat_of w) (nth (M / nat_of w) vs (VUint 0))) b0.
Proof.
  intros Hw Hty. unfold packed_chunks. rewrite cbyte_chunkify, flat_map_uint_bytes by exact Hty.
  apply nth_packed. unfold uint_width_ok, nat_of in *. lia.
Qed.

Lemma packed_chunks_length w vs : uint_width_ok w = true ->
  forallb (fun x => has_type x (TUint w)) vs = true ->
  length (packed_chunks (TUint w) vs) = ((nat_of w * length vs + 31) / 32)%nat.
Proof.
  intros Hw Hty. unfold packed_chunks. rewrite chunkify_length, flat_map_uint_bytes by exact Hty.
  rewrite (flat_map_fixed_length _ (nat_of w)) by apply uint_bytes_length. reflexivity.
Qed.

Lemma nth_list_set_val (vs : list val) i x k d : (i < length vs)%nat ->
  nth k (list_set vs i x) d = if (k =? i)%nat then x else nth k vs d.
Proof.
  intros Hi. destruct (Nat.eqb_spec k i) as [->|Hne].
  - apply nth_list_set_eq. exact Hi.
  - apply nth_list_set_neq. congruence.
Qed.

Lemma nth_snoc_val {A} (vs : list A) x k d :
  nth k (vs ++ [x]) d = if (k =? length vs)%nat then x else nth k vs d.
Proof.
  destruct (Nat.eqb_spec k (length vs)) as [->|Hne].
  - rewrite app_nth2, Nat.sub_diag by lia. reflexivity.
  - destruct (Nat.lt_ge_cases k (length vs)) as [Hlt|Hge].
    + apply app_nth1. exact Hlt.
    + rewrite (nth_overflow vs) by exact Hge. apply nth_overflow. rewrite app_length. cbn [length]. lia.
Qed.

Lemma nth_removelast_val {A} (vs : list A) k d :
  nth k (removelast vs) d = if (k =? length vs - 1)%nat then d else nth k vs d.
Proof.
  destruct (snoc_cases vs) as [->|(l & x & ->)].
  - cbn [removelast length]. destruct k; cbn [nth]; destruct (_ =? _)%nat; reflexivity.
  - rewrite removelast_last, app_length. cbn [length]. replace (length l + 1 - 1)%nat with (length l) by lia.
    rewrite nth_snoc_val. destruct (Nat.eqb_spec k (length l)) as [->|Hne].
    + apply nth_overflow. lia.
    + reflexivity.
Qed.

(* the three chunk-level facts: element i of the series lives in slot i mod p of chunk i / p *)
Section Packed.
Variables (w : N) (vs : list val).
Hypothesis Hw : uint_width_ok w = true.
Hypothesis Hty : forallb (fun x => has_type x (TUint w)) vs = true.

Let wn := nat_of w.
Let pn := nat_of (32 / w).

Lemma wp32 : (0 < wn)%nat /\ (wn * pn = 32)%nat /\ (0 < pn)%nat.
Proof.
  unfold wn, pn, nat_of. destruct (uint_width_cases w Hw) as [[-> ->]|[[-> ->]|[[-> ->]|[[-> ->]|[-> ->]]]]];
    vm_compute; repeat split; lia.
Qed.

(* position arithmetic: byte M lies in chunk j, slot r  <->  element M / w = p j + r *)
Lemma slot_pos j r M : (r < pn)%nat ->
  ((M / 32 = j /\ (M mod 32) / wn = r) <-> M / wn = pn * j + r)%nat.
Proof.
  destruct wp32 as (Hw0 & Hwp & Hp0). intros Hr.
  pose proof (Nat.div_mod M 32 ltac:(lia)) as D1.
  pose proof (Nat.mod_upper_bound M 32 ltac:(lia)) as U1.
  pose proof (Nat.div_mod (M mod 32) wn ltac:(lia)) as D2.
  pose proof (Nat.mod_upper_bound (M mod 32) wn ltac:(lia)) as U2.
  assert (Hq : (M mod 32 / wn < pn)%nat) by (apply Nat.div_lt_upper_bound; lia).
  assert (E : (M / wn = pn * (M / 32) + M mod 32 / wn)%nat).
  { symmetry. apply Nat.div_unique with ((M mod 32) mod wn)%nat; [exact U2|]. nia. }
  rewrite E. split.
  - intros [<- <-]. reflexivity.
  - intros Heq. assert (M / 32 = j)%nat by nia. split; [assumption|nia].
Qed.

Lemma mod_mod_w M : ((M mod 32) mod wn = M mod wn)%nat.
Proof.
  destruct wp32 as (Hw0 & Hwp & Hp0).
  pose proof (Nat.div_mod M 32 ltac:(lia)) as D1.
  symmetry. rewrite D1 at 1.
  replace (32 * (M / 32) + M mod 32)%nat with (M mod 32 + (pn * (M / 32)) * wn)%nat by nia.
  apply Nat.mod_add. lia.
Qed.

Let cs := packed_chunks (TUint w) vs.

(* the chunk a slot write produces, described pointwise *)
Lemma cbyte_slot_write cs0 j (c : chunk) r x M :
  (r < pn)%nat -> length c = 32%nat ->
  (forall k, (k < 32)%nat -> nth k c b0 = cbyte cs (32 * j + k)) ->
  (forall M', (M' / 32 = j)%nat ->
     cbyte cs0 M' = nth (M' mod 32) (slot_write wn c r (uint_bytes wn x)) b0) ->
  (forall M', (M' / 32 <> j)%nat -> cbyte cs0 M' = cbyte cs M') ->
  cbyte cs0 M = nth (M mod wn) (uint_bytes wn (if (M / wn =? pn * j + r)%nat then x
                                               else nth (M / wn) vs (VUint 0))) b0.
Proof.
  destruct wp32 as (Hw0 & Hwp & Hp0). intros Hr Hc Hold Hin Hout.
  pose proof (Nat.div_mod M 32 ltac:(lia)) as D1.
  pose proof (Nat.mod_upper_bound M 32 ltac:(lia)) as U1.
  destruct (Nat.eq_dec (M / 32) j) as [Ej|Nj].
  - rewrite Hin by exact Ej.
    rewrite nth_slot_write; [|exact Hw0|exact Hc|apply uint_bytes_length|nia].
    rewrite mod_mod_w.
    destruct (Nat.eqb_spec (M mod 32 / wn) r) as [Er|Nr].
    + rewrite (proj2 (Nat.eqb_eq _ _) (proj1 (slot_pos j r M Hr) (conj Ej Er))). reflexivity.
    + destruct (Nat.eqb_spec (M / wn) (pn * j + r)) as [E|_].
      { apply (slot_pos j r M Hr) in E. tauto. }
      rewrite Hold by exact U1. subst j. rewrite <- D1.
      unfold cs. apply cbyte_packed; assumption.
  - rewrite Hout by exact Nj.
    destruct (Nat.eqb_spec (M / wn) (pn * j + r)) as [E|_].
    { apply (slot_pos j r M Hr) in E. tauto. }
    unfold cs. apply cbyte_packed; assumption.
Qed.

End Packed.

(* ==================================================================================== *)
(** ** bits *)

Lemma byte_ext a b :
  (forall j, (j < 8)%nat ->
     N.testbit (N_of_byte a) (N.of_nat j) = N.testbit (N_of_byte b) (N.of_nat j)) -> a = b.
Proof.
  intros Hb. apply BitfieldsProofs.N_of_byte_inj. apply N.bits_inj. intros k.
  destruct (N.lt_ge_cases k 8) as [Hlt|Hge].
  - specialize (Hb (N.to_nat k) ltac:(lia)). rewrite N2Nat.id in Hb. exact Hb.
  - pose proof (BitfieldsProofs.N_of_byte_lt a). pose proof (BitfieldsProofs.N_of_byte_lt b).
    rewrite (testbit_small (N_of_byte a) 8 k), (testbit_small (N_of_byte b) 8 k); auto.
Qed.

Lemma cbit_bit_chunks bs M : cbit (bit_chunks bs) M = nth M bs false.
Proof.
  unfold cbit, bit_chunks. rewrite cbyte_chunkify.
  pose proof (Nat.mod_upper_bound M 8 ltac:(lia)) as U.
  rewrite BitfieldsProofs.btb_testbit by exact U. f_equal.
  pose proof (Nat.div_mod M 8 ltac:(lia)). lia.
Qed.

Lemma cbit_ext cs1 cs2 : (forall M, cbit cs1 M = cbit cs2 M) -> forall m, cbyte cs1 m = cbyte cs2 m.
Proof.
  intros Hb m. apply byte_ext. intros j Hj. specialize (Hb (8 * m + j)%nat). unfold cbit in Hb.
  replace ((8 * m + j) / 8)%nat with m in Hb by lia.
  replace ((8 * m + j) mod 8)%nat with j in Hb by lia. exact Hb.
Qed.

Lemma bit_chunks_length bs : length (bit_chunks bs) = ((length bs + 255) / 256)%nat.
Proof. pose proof (bit_chunks_lenN bs) as E. unfold lenN in E. lia. Qed.

Lemma chunk_set_bit_length c i b : length (chunk_set_bit c i b) = length c.
Proof. unfold chunk_set_bit. apply BitfieldsProofs.list_set_length. Qed.

Lemma testbit_byte_of_N x j : (j < 8)%nat ->
  N.testbit (N_of_byte (byte_of_N x)) (N.of_nat j) = N.testbit x (N.of_nat j).
Proof.
  intros Hj. rewrite N_of_byte_of_N. change 256 with (2 ^ 8). apply N.mod_pow2_bits_low. lia.
Qed.

Lemma chunk_set_bit_bits c i b k j : length c = 32%nat -> i < 256 -> (k < 32)%nat -> (j < 8)%nat ->
  N.testbit (N_of_byte (nth k (chunk_set_bit c i b) b0)) (N.of_nat j) =
  if (8 * k + j =? nat_of i)%nat then b else N.testbit (N_of_byte (nth k c b0)) (N.of_nat j).
Proof.
  intros Hc Hi Hk Hj. unfold chunk_set_bit.
  rewrite BitfieldsProofs.shiftr3, BitfieldsProofs.land7.
  assert (Hq : (nat_of (i / 8) < 32)%nat) by (unfold nat_of; lia).
  destruct (Nat.eq_dec k (nat_of (i / 8))) as [->|Hne].
  - rewrite nth_list_set_eq by lia. rewrite testbit_byte_of_N by exact Hj.
    destruct b.
    + rewrite N.lor_spec, N.pow2_bits_eqb.
      destruct (Nat.eqb_spec (8 * nat_of (i / 8) + j) (nat_of i)) as [E|NE].
      * replace (i mod 8 =? N.of_nat j) with true by (symmetry; apply N.eqb_eq; unfold nat_of in *; lia).
        apply orb_true_r.
      * replace (i mod 8 =? N.of_nat j) with false by (symmetry; apply N.eqb_neq; unfold nat_of in *; lia).
        apply orb_false_r.
    + rewrite N.ldiff_spec, N.pow2_bits_eqb.
      destruct (Nat.eqb_spec (8 * nat_of (i / 8) + j) (nat_of i)) as [E|NE].
      * replace (i mod 8 =? N.of_nat j) with true by (symmetry; apply N.eqb_eq; unfold nat_of in *; lia).
        apply andb_false_r.
      * replace (i mod 8 =? N.of_nat j) with false by (symmetry; apply N.eqb_neq; unfold nat_of in *; lia).
        apply andb_true_r.
  - rewrite nth_list_set_neq by congruence.
    destruct (Nat.eqb_spec (8 * k + j) (nat_of i)) as [E|NE]; [|reflexivity].
    exfalso. apply Hne. unfold nat_of in *. lia.
Qed.

(* the chunk list after one bit write in chunk j, described pointwise *)
Lemma cbit_set cs cs0 j (c : chunk) i b M : i < 256 -> length c = 32%nat ->
  (forall k, (k < 32)%nat -> nth k c b0 = cbyte cs (32 * j + k)) ->
  (forall M', (M' / 32 = j)%nat -> cbyte cs0 M' = nth (M' mod 32) (chunk_set_bit c i b) b0) ->
  (forall M', (M' / 32 <> j)%nat -> cbyte cs0 M' = cbyte cs M') ->
  cbit cs0 M = if (M =? 256 * j + nat_of i)%nat then b else cbit cs M.
Proof.
  intros Hi Hc Hold Hin Hout. unfold cbit.
  pose proof (Nat.mod_upper_bound M 8 ltac:(lia)) as U8.
  pose proof (Nat.mod_upper_bound (M / 8) 32 ltac:(lia)) as U32.
  destruct (Nat.eq_dec (M / 8 / 32) j) as [Ej|Nj].
  - rewrite Hin by exact Ej. rewrite chunk_set_bit_bits by assumption.
    rewrite Hold by exact U32.
    replace (32 * j + M / 8 mod 32)%nat with (M / 8)%nat by lia.
    destruct (Nat.eqb_spec (8 * (M / 8 mod 32) + M mod 8) (nat_of i)) as [E|NE];
      destruct (Nat.eqb_spec M (256 * j + nat_of i)) as [E'|NE']; try reflexivity; exfalso; lia.
  - rewrite Hout by exact Nj.
    destruct (Nat.eqb_spec M (256 * j + nat_of i)) as [E'|NE']; [|reflexivity].
    exfalso. unfold nat_of in *. lia.
Qed.

(* ==================================================================================== *)
(** ** chunk lists equal up to trailing zero chunks; the six rewriting facts *)

Lemma series_equiv (zh : nat -> chunk) d cs1 cs2 n : zh 0%nat = zero_chunk -> chunks_equiv cs1 cs2 ->
  series zh d (map is_chunk cs1) n -> series zh d (map is_chunk cs2) n.
Proof. intros Hz (H1 & H2 & Hl & Hb). apply series_chunks_equiv; assumption. Qed.

Lemma app_len32 cs c : Forall len32 cs -> len32 c -> Forall len32 (cs ++ [c]).
Proof. intros. apply Forall_app. split; [assumption|]. constructor; [assumption|constructor]. Qed.

Lemma nth_len32 cs j : Forall len32 cs -> (j < length cs)%nat -> length (nth j cs []) = 32%nat.
Proof. intros H Hj. rewrite Forall_forall in H. apply H, nth_In, Hj. Qed.

Lemma forallb_list_set {A} (p : A -> bool) : forall l i x,
  forallb p l = true -> p x = true -> forallb p (list_set l i x) = true.
Proof.
  induction l as [|y l IH]; intros [|i] x Hl Hx; cbn [list_set forallb] in *; auto;
    apply andb_prop in Hl; destruct Hl as [Hy Hl]; rewrite ?Hx, ?Hy; cbn [andb]; auto.
Qed.

Lemma forallb_snoc {A} (p : A -> bool) l x :
  forallb p l = true -> p x = true -> forallb p (l ++ [x]) = true.
Proof. intros Hl Hx. rewrite forallb_app, Hl. cbn [forallb]. rewrite Hx. reflexivity. Qed.

Lemma forallb_removelast {A} (p : A -> bool) l : forallb p l = true -> forallb p (removelast l) = true.
Proof.
  destruct (snoc_cases l) as [->|(l' & x & ->)]; [auto|].
  rewrite removelast_last, forallb_app. intros H. apply andb_prop in H. tauto.
Qed.

(* ---- bits ---- *)
Section BitFacts.
Variable bs : list bool.
Let cs := bit_chunks bs.
Let L := length bs.

Lemma bits_set_equiv i b : (i < L)%nat ->
  let j := (i / 256)%nat in
  (j < length cs)%nat /\
  chunks_equiv (list_set cs j (chunk_set_bit (nth j cs []) (N.of_nat (i mod 256)) b))
               (bit_chunks (list_set bs i b)).
Proof.
  intros Hi j. assert (Hj : (j < length cs)%nat).
  { unfold cs. rewrite bit_chunks_length. unfold j, L in *. lia. }
  split; [exact Hj|].
  assert (H32 : Forall len32 cs) by apply chunkify_len32.
  assert (Hc : length (nth j cs []) = 32%nat) by (apply nth_len32; assumption).
  repeat split.
  - apply list_set_len32; [exact H32|]. unfold len32. rewrite chunk_set_bit_length. exact Hc.
  - apply chunkify_len32.
  - rewrite BitfieldsProofs.list_set_length, bit_chunks_length. unfold cs.
    rewrite bit_chunks_length, BitfieldsProofs.list_set_length. lia.
  - apply cbit_ext. intros M. rewrite cbit_bit_chunks.
    rewrite (cbit_set cs _ j (nth j cs []) (N.of_nat (i mod 256)) b M).
    + unfold cs. rewrite cbit_bit_chunks. unfold nat_of. rewrite Nat2N.id.
      destruct (Nat.eqb_spec M (256 * j + i mod 256)) as [E|NE].
      * replace M with i by (unfold j in E; lia). symmetry. apply nth_list_set_eq. exact Hi.
      * symmetry. apply nth_list_set_neq. unfold j in NE. lia.
    + pose proof (Nat.mod_upper_bound i 256 ltac:(lia)). lia.
    + exact Hc.
    + intros k Hk. apply cbyte_nth. exact Hk.
    + intros M' HM'. rewrite cbyte_list_set by exact Hj. rewrite (proj2 (Nat.eqb_eq _ _) HM'). reflexivity.
    + intros M' HM'. rewrite cbyte_list_set by exact Hj. rewrite (proj2 (Nat.eqb_neq _ _) HM'). reflexivity.
Qed.

Lemma bits_append_equiv b :
  let j := (L / 256)%nat in
  ((L mod 256 = 0)%nat -> j = length cs /\
     chunks_equiv (cs ++ [chunk_set_bit zero_chunk 0 b]) (bit_chunks (bs ++ [b]))) /\
  ((L mod 256 <> 0)%nat -> (j < length cs)%nat /\
     chunks_equiv (list_set cs j (chunk_set_bit (nth j cs []) (N.of_nat (L mod 256)) b))
                  (bit_chunks (bs ++ [b]))).
Proof.
  intros j. assert (H32 : Forall len32 cs) by apply chunkify_len32.
  assert (Hlen : length cs = ((L + 255) / 256)%nat) by apply bit_chunks_length.
  assert (Hlen' : length (bit_chunks (bs ++ [b])) = ((L + 1 + 255) / 256)%nat).
  { rewrite bit_chunks_length, app_length. reflexivity. }
  pose proof (Nat.mod_upper_bound L 256 ltac:(lia)) as HU.
  split; intros Hm.
  - assert (Hj : j = length cs) by (unfold j; lia). split; [exact Hj|].
    repeat split.
    + apply app_len32; [exact H32|]. unfold len32. rewrite chunk_set_bit_length. reflexivity.
    + apply chunkify_len32.
    + rewrite app_length. cbn [length]. lia.
    + apply cbit_ext. intros M. rewrite cbit_bit_chunks.
      rewrite (cbit_set cs _ j zero_chunk 0 b M).
      * unfold cs. rewrite cbit_bit_chunks. rewrite nth_snoc_val. fold L.
        change (nat_of 0) with O.
        replace (256 * j + 0)%nat with L by (unfold j; lia). reflexivity.
      * lia.
      * reflexivity.
      * intros k Hk. rewrite nth_zero_chunk. symmetry. apply cbyte_overflow. lia.
      * intros M' HM'. rewrite cbyte_snoc. rewrite <- Hj, (proj2 (Nat.eqb_eq _ _) HM'). reflexivity.
      * intros M' HM'. rewrite cbyte_snoc. rewrite <- Hj, (proj2 (Nat.eqb_neq _ _) HM'). reflexivity.
  - assert (Hj : (j < length cs)%nat) by (unfold j; lia). split; [exact Hj|].
    assert (Hc : length (nth j cs []) = 32%nat) by (apply nth_len32; assumption).
    repeat split.
    + apply list_set_len32; [exact H32|]. unfold len32. rewrite chunk_set_bit_length. exact Hc.
    + apply chunkify_len32.
    + rewrite BitfieldsProofs.list_set_length. unfold j in *. lia.
    + apply cbit_ext. intros M. rewrite cbit_bit_chunks.
      rewrite (cbit_set cs _ j (nth j cs []) (N.of_nat (L mod 256)) b M).
      * unfold cs. rewrite cbit_bit_chunks. rewrite nth_snoc_val. fold L.
        unfold nat_of. rewrite Nat2N.id.
        replace (256 * j + L mod 256)%nat with L by (unfold j; lia). reflexivity.
      * lia.
      * exact Hc.
      * intros k Hk. apply cbyte_nth. exact Hk.
      * intros M' HM'. rewrite cbyte_list_set by exact Hj. rewrite (proj2 (Nat.eqb_eq _ _) HM'). reflexivity.
      * intros M' HM'. rewrite cbyte_list_set by exact Hj. rewrite (proj2 (Nat.eqb_neq _ _) HM'). reflexivity.
Qed.

Lemma bits_pop_equiv : (0 < L)%nat ->
  let j := ((L - 1) / 256)%nat in
  (j < length cs)%nat /\
  chunks_equiv (list_set cs j (chunk_set_bit (nth j cs []) (N.of_nat ((L - 1) mod 256)) false))
               (bit_chunks (removelast bs)).
Proof.
  intros HL j. assert (H32 : Forall len32 cs) by apply chunkify_len32.
  assert (Hlen : length cs = ((L + 255) / 256)%nat) by apply bit_chunks_length.
  assert (Hlr : length (removelast bs) = (L - 1)%nat).
  { pose proof (lenN_removelast bs) as E. unfold lenN in E. fold L in E. lia. }
  pose proof (Nat.mod_upper_bound (L - 1) 256 ltac:(lia)) as HU.
  assert (Hj : (j < length cs)%nat) by (unfold j; lia). split; [exact Hj|].
  assert (Hc : length (nth j cs []) = 32%nat) by (apply nth_len32; assumption).
  repeat split.
  - apply list_set_len32; [exact H32|]. unfold len32. rewrite chunk_set_bit_length. exact Hc.
  - apply chunkify_len32.
  - rewrite BitfieldsProofs.list_set_length, bit_chunks_length, Hlr. lia.
  - apply cbit_ext. intros M. rewrite cbit_bit_chunks.
    rewrite (cbit_set cs _ j (nth j cs []) (N.of_nat ((L - 1) mod 256)) false M).
    + unfold cs. rewrite cbit_bit_chunks. rewrite nth_removelast_val. fold L.
      unfold nat_of. rewrite Nat2N.id.
      replace (256 * j + (L - 1) mod 256)%nat with (L - 1)%nat by (unfold j; lia). reflexivity.
    + lia.
    + exact Hc.
    + intros k Hk. apply cbyte_nth. exact Hk.
    + intros M' HM'. rewrite cbyte_list_set by exact Hj. rewrite (proj2 (Nat.eqb_eq _ _) HM'). reflexivity.
    + intros M' HM'. rewrite cbyte_list_set by exact Hj. rewrite (proj2 (Nat.eqb_neq _ _) HM'). reflexivity.
Qed.
End BitFacts.

(* ---- packed unsigned integers ---- *)
Section PackedFacts.
Variables (w : N) (vs : list val).
Hypothesis Hw : uint_width_ok w = true.
Hypothesis Hty : forallb (fun x => has_type x (TUint w)) vs = true.

Let wn := nat_of w.
Let pn := nat_of (32 / w).
Let cs := packed_chunks (TUint w) vs.
Let L := length vs.

Lemma pf_len : length cs = ((wn * L + 31) / 32)%nat.
Proof. apply packed_chunks_length; assumption. Qed.

Lemma pf_slot_len j r x : (r < pn)%nat -> (j < length cs)%nat ->
  len32 (slot_write wn (nth j cs []) r (uint_bytes wn x)).
Proof.
  destruct (wp32 w vs Hw Hty) as (Hw0 & Hwp & Hp0). fold wn pn in Hw0, Hwp, Hp0.
  intros Hr Hj. apply slot_write_length.
  - apply nth_len32; [apply chunkify_len32|exact Hj].
  - apply uint_bytes_length.
  - nia.
Qed.

Lemma pf_in cs' j c' M : (j < length cs')%nat -> (M / 32 = j)%nat ->
  cbyte (list_set cs' j c') M = nth (M mod 32) c' b0.
Proof. intros Hj HM. rewrite cbyte_list_set by exact Hj. rewrite (proj2 (Nat.eqb_eq _ _) HM). reflexivity. Qed.

Lemma pf_out cs' j c' M : (j < length cs')%nat -> (M / 32 <> j)%nat ->
  cbyte (list_set cs' j c') M = cbyte cs' M.
Proof. intros Hj HM. rewrite cbyte_list_set by exact Hj. rewrite (proj2 (Nat.eqb_neq _ _) HM). reflexivity. Qed.

Lemma packed_set_equiv i x : has_type x (TUint w) = true -> (i < L)%nat ->
  let j := (i / pn)%nat in
  (j < length cs)%nat /\ (i mod pn < pn)%nat /\
  chunks_equiv (list_set cs j (slot_write wn (nth j cs []) (i mod pn) (uint_bytes wn x)))
               (packed_chunks (TUint w) (list_set vs i x)).
Proof.
  destruct (wp32 w vs Hw Hty) as (Hw0 & Hwp & Hp0). fold wn pn in Hw0, Hwp, Hp0.
  intros Hx Hi j.
  pose proof (Nat.div_mod i pn ltac:(lia)) as Dm. fold j in Dm.
  pose proof (Nat.mod_upper_bound i pn ltac:(lia)) as Hr.
  assert (Hty' : forallb (fun y => has_type y (TUint w)) (list_set vs i x) = true)
    by (apply forallb_list_set; assumption).
  assert (Hj : (j < length cs)%nat).
  { rewrite pf_len. assert (32 * j + 1 <= wn * L)%nat by nia. lia. }
  split; [exact Hj|]. split; [exact Hr|].
  assert (H32 : Forall len32 cs) by apply chunkify_len32.
  repeat split.
  - apply list_set_len32; [exact H32|]. apply pf_slot_len; assumption.
  - apply chunkify_len32.
  - rewrite BitfieldsProofs.list_set_length, pf_len.
    rewrite packed_chunks_length by assumption. rewrite BitfieldsProofs.list_set_length. fold wn L. lia.
  - intros M.
    rewrite (cbyte_slot_write w vs Hw Hty _ j (nth j cs []) (i mod pn) x M).
    + rewrite (cbyte_packed w _ M Hw Hty'). fold wn pn.
      rewrite nth_list_set_val by exact Hi. rewrite <- Dm. reflexivity.
    + exact Hr.
    + apply nth_len32; assumption.
    + intros k Hk. apply cbyte_nth. exact Hk.
    + intros M' HM'. apply pf_in; assumption.
    + intros M' HM'. apply pf_out; assumption.
Qed.

Lemma packed_append_equiv x : has_type x (TUint w) = true ->
  let j := (L / pn)%nat in
  ((L mod pn = 0)%nat -> j = length cs /\
     chunks_equiv (cs ++ [slot_write wn zero_chunk 0 (uint_bytes wn x)])
                  (packed_chunks (TUint w) (vs ++ [x]))) /\
  ((L mod pn <> 0)%nat -> (j < length cs)%nat /\ (L mod pn < pn)%nat /\
     chunks_equiv (list_set cs j (slot_write wn (nth j cs []) (L mod pn) (uint_bytes wn x)))
                  (packed_chunks (TUint w) (vs ++ [x]))).
Proof.
  destruct (wp32 w vs Hw Hty) as (Hw0 & Hwp & Hp0). fold wn pn in Hw0, Hwp, Hp0.
  intros Hx j.
  pose proof (Nat.div_mod L pn ltac:(lia)) as Dm. fold j in Dm.
  pose proof (Nat.mod_upper_bound L pn ltac:(lia)) as Hr.
  assert (Hty' : forallb (fun y => has_type y (TUint w)) (vs ++ [x]) = true)
    by (apply forallb_snoc; assumption).
  assert (H32 : Forall len32 cs) by apply chunkify_len32.
  assert (Hlen' : length (packed_chunks (TUint w) (vs ++ [x])) = ((wn * (L + 1) + 31) / 32)%nat).
  { rewrite packed_chunks_length by assumption. rewrite app_length. reflexivity. }
  assert (Hw32 : (wn <= 32)%nat) by nia.
  split; intros Hm.
  - assert (HwL : (wn * L = 32 * j)%nat) by nia.
    assert (Hj : j = length cs) by (rewrite pf_len; lia). split; [exact Hj|].
    repeat split.
    + apply app_len32; [exact H32|]. apply slot_write_length; [reflexivity|apply uint_bytes_length|nia].
    + apply chunkify_len32.
    + rewrite Hlen', app_length. cbn [length]. rewrite <- Hj. lia.
    + intros M.
      rewrite (cbyte_slot_write w vs Hw Hty _ j zero_chunk 0 x M).
      * rewrite (cbyte_packed w _ M Hw Hty'). fold wn pn.
        rewrite nth_snoc_val. fold L. replace (pn * j + 0)%nat with L by lia. reflexivity.
      * exact Hp0.
      * reflexivity.
      * intros k Hk. rewrite nth_zero_chunk. symmetry. apply cbyte_overflow. fold cs. lia.
      * intros M' HM'. rewrite cbyte_snoc. fold cs. rewrite <- Hj, (proj2 (Nat.eqb_eq _ _) HM'). reflexivity.
      * intros M' HM'. rewrite cbyte_snoc. fold cs. rewrite <- Hj, (proj2 (Nat.eqb_neq _ _) HM'). reflexivity.
  - assert (HwL : (wn * L = 32 * j + wn * (L mod pn))%nat) by nia.
    assert (Hwr : (1 <= wn * (L mod pn))%nat) by nia.
    assert (Hwr' : (wn * (L mod pn) + wn <= 32)%nat) by nia.
    assert (Hj : (j < length cs)%nat) by (rewrite pf_len; lia).
    split; [exact Hj|]. split; [exact Hr|].
    repeat split.
    + apply list_set_len32; [exact H32|]. apply pf_slot_len; assumption.
    + apply chunkify_len32.
    + rewrite Hlen', BitfieldsProofs.list_set_length, pf_len. lia.
    + intros M.
      rewrite (cbyte_slot_write w vs Hw Hty _ j (nth j cs []) (L mod pn) x M).
      * rewrite (cbyte_packed w _ M Hw Hty'). fold wn pn.
        rewrite nth_snoc_val. fold L. rewrite <- Dm. reflexivity.
      * exact Hr.
      * apply nth_len32; assumption.
      * intros k Hk. apply cbyte_nth. exact Hk.
      * intros M' HM'. apply pf_in; assumption.
      * intros M' HM'. apply pf_out; assumption.
Qed.

Lemma packed_pop_equiv : (0 < L)%nat ->
  let j := ((L - 1) / pn)%nat in
  (j < length cs)%nat /\ ((L - 1) mod pn < pn)%nat /\
  chunks_equiv (list_set cs j (slot_write wn (nth j cs []) ((L - 1) mod pn) (uint_bytes wn (VUint 0))))
               (packed_chunks (TUint w) (removelast vs)).
Proof.
  destruct (wp32 w vs Hw Hty) as (Hw0 & Hwp & Hp0). fold wn pn in Hw0, Hwp, Hp0.
  intros HL j.
  pose proof (Nat.div_mod (L - 1) pn ltac:(lia)) as Dm. fold j in Dm.
  pose proof (Nat.mod_upper_bound (L - 1) pn ltac:(lia)) as Hr.
  assert (Hty' : forallb (fun y => has_type y (TUint w)) (removelast vs) = true)
    by (apply forallb_removelast; assumption).
  assert (Hlr : length (removelast vs) = (L - 1)%nat).
  { pose proof (lenN_removelast vs) as E. unfold lenN in E. fold L in E. lia. }
  assert (H32 : Forall len32 cs) by apply chunkify_len32.
  assert (Hj : (j < length cs)%nat).
  { rewrite pf_len. assert (32 * j + 1 <= wn * L)%nat by nia. lia. }
  split; [exact Hj|]. split; [exact Hr|].
  repeat split.
  - apply list_set_len32; [exact H32|]. apply pf_slot_len; assumption.
  - apply chunkify_len32.
  - rewrite BitfieldsProofs.list_set_length, pf_len.
    rewrite packed_chunks_length by assumption. rewrite Hlr. fold wn.
    assert (wn * (L - 1) <= wn * L)%nat by nia. lia.
  - intros M.
    rewrite (cbyte_slot_write w vs Hw Hty _ j (nth j cs []) ((L - 1) mod pn) (VUint 0) M).
    + rewrite (cbyte_packed w _ M Hw Hty'). fold wn pn.
      rewrite nth_removelast_val. fold L. rewrite <- Dm. reflexivity.
    + exact Hr.
    + apply nth_len32; assumption.
    + intros k Hk. apply cbyte_nth. exact Hk.
    + intros M' HM'. apply pf_in; assumption.
    + intros M' HM'. apply pf_out; assumption.
Qed.
End PackedFacts.

(* ==================================================================================== *)
(** * Part C. The typed mutations over pure trees, one by one *)
(* ==================================================================================== *)

Lemma g_path_3 : g_path 3 = [true].
Proof. vm_compute. reflexivity. Qed.
Lemma g_path_2 : g_path 2 = [false].
Proof. vm_compute. reflexivity. Qed.

Lemma firstn8_len_leaf ll : firstn 8 (pad32 (le_bytes 8 ll)) = le_bytes 8 ll.
Proof.
  rewrite pad32_short by (rewrite le_bytes_length; lia).
  rewrite firstn_app, le_bytes_length. change (8 - 8)%nat with O. rewrite firstn_O, app_nil_r.
  apply firstn_all2. rewrite le_bytes_length. lia.
Qed.

Lemma le_val_len_leaf ll : ll < 2 ^ 64 -> le_val (firstn 8 (pad32 (le_bytes 8 ll))) = ll.
Proof.
  intros Hl. rewrite firstn8_len_leaf, le_val_le_bytes. change (256 ^ N.of_nat 8) with (2 ^ 64).
  apply N.mod_small. exact Hl.
Qed.

Section Pure.
Variable zh : nat -> chunk.
Hypothesis Hz0 : zh 0%nat = zero_chunk.

Notation series := (series zh).

Lemma gindex_geom t lst d i : geom t lst d -> i < 2 ^ N.of_nat d ->
  to_gindex64 i (view_depth t) = OK (2 ^ view_depth t + i).
Proof.
  intros [Hv H64] Hi. rewrite to_gindex64_spec.
  rewrite (proj2 (N.ltb_lt _ _) H64).
  assert (Hlt : i < 2 ^ view_depth t).
  { rewrite Hv. destruct lst.
    - rewrite N.pow_add_r. change (2 ^ 1) with 2. lia.
    - rewrite N.add_0_r. exact Hi. }
  rewrite (proj2 (N.ltb_lt _ _) Hlt). reflexivity.
Qed.

Lemma pget_geom t lst d c L i : geom t lst d -> i < 2 ^ N.of_nat d ->
  p_get tt (wrapn lst c L) (2 ^ view_depth t + i) = get_path c (bits_msb d i).
Proof.
  intros [Hv H64] Hi. unfold p_get, getter. rewrite Hv in *. destruct lst; cbn [wrapn].
  - replace (N.of_nat d + 1) with (N.of_nat (S d)) in * by lia.
    rewrite g_path_bits by (rewrite ?pow2N_S; lia).
    rewrite bits_msb_left by exact Hi. apply get_path_pair.
  - rewrite N.add_0_r in *. rewrite g_path_bits by assumption. reflexivity.
Qed.

Lemma pset_geom t lst d c L i e v : geom t lst d -> i < 2 ^ N.of_nat d ->
  p_set zh tt (wrapn lst c L) (2 ^ view_depth t + i) e v =
  do c' <- set_path zh c (bits_msb d i) e v; OK (wrapn lst c' L, tt).
Proof.
  intros [Hv H64] Hi. unfold p_set, setter. rewrite Hv in *. destruct lst; cbn [wrapn].
  - replace (N.of_nat d + 1) with (N.of_nat (S d)) in * by lia.
    rewrite g_path_bits by (rewrite ?pow2N_S; lia).
    rewrite bits_msb_left by exact Hi. rewrite set_path_cons, step_children_pair. cbn [bind].
    destruct (set_path zh c (bits_msb d i) e v); reflexivity.
  - rewrite N.add_0_r in *. rewrite g_path_bits by assumption.
    destruct (set_path zh c (bits_msb d i) e v); reflexivity.
Qed.

(* ---- the length leaf ---- *)
Lemma tm_length_ok limit c ll : ll <= limit -> ll < 2 ^ 64 ->
  m_length node unit p_get p_chunk limit tt (Pair c (len_leaf ll)) = OK ll.
Proof.
  intros Hle Hl. unfold m_length, p_get, getter. rewrite g_path_3.
  rewrite get_path_pair, get_path_nil. cbn [bind p_chunk leaf_chunk len_leaf].
  rewrite le_val_len_leaf by exact Hl.
  rewrite (proj2 (N.ltb_ge _ _) Hle). reflexivity.
Qed.

Lemma tm_set_length_ok c L len :
  m_set_length node unit (p_set zh) p_leaf tt (Pair c L) len = OK (Pair c (len_leaf len), tt).
Proof.
  unfold m_set_length, p_leaf, p_set, setter. rewrite g_path_3. reflexivity.
Qed.

Lemma tm_check_index_ok t c ll i : ll <= list_limit t -> ll < 2 ^ 64 ->
  m_check_index node unit p_get p_chunk t tt (Pair c (len_leaf ll)) i =
  if ll <=? i then Err else OK tt.
Proof.
  intros Hle Hl. unfold m_check_index. rewrite tm_length_ok by assumption. cbn [bind].
  destruct (N.leb_spec ll i) as [Hi|Hi]; [reflexivity|].
  rewrite (proj2 (N.leb_gt _ _)) by lia. reflexivity.
Qed.

(* ---- slots ---- *)
Lemma read_slot t lst d c L ps i : geom t lst d -> series d ps c -> i < lenN ps ->
  exists m, m_get_node node unit p_get t tt (wrapn lst c L) i = OK m /\
            nth (nat_of i) ps (fun _ => False) m.
Proof.
  intros Hg Hs Hi. pose proof (series_length zh _ _ _ Hs) as Hl.
  unfold m_get_node. rewrite (gindex_geom t lst d i Hg) by lia. cbn [bind].
  rewrite (pget_geom t lst d c L i Hg) by lia. apply (series_get zh); assumption.
Qed.

Lemma write_slot t lst d c L ps i e v (q : node -> Prop) :
  geom t lst d -> series d ps c -> i < lenN ps -> q v ->
  exists c', p_set zh tt (wrapn lst c L) (2 ^ view_depth t + i) e v = OK (wrapn lst c' L, tt) /\
             series d (list_set ps (nat_of i) q) c'.
Proof.
  intros Hg Hs Hi Hq. pose proof (series_length zh _ _ _ Hs) as Hl.
  rewrite (pset_geom t lst d c L i e v Hg) by lia.
  destruct (series_set zh d ps c i e v q Hs Hi Hq) as (c' & E & S).
  exists c'. rewrite E. split; [reflexivity|exact S].
Qed.

Lemma append_slot t lst d c L ps v (q : node -> Prop) :
  geom t lst d -> series d ps c -> lenN ps < 2 ^ N.of_nat d -> q v ->
  exists c', p_set zh tt (wrapn lst c L) (2 ^ view_depth t + lenN ps) true v = OK (wrapn lst c' L, tt) /\
             series d (ps ++ [q]) c'.
Proof.
  intros Hg Hs Hl Hq.
  rewrite (pset_geom t lst d c L _ true v Hg) by lia.
  assert (Hd : (d <= 64)%nat) by (destruct Hg as [Hv H64]; lia).
  destruct (series_append zh d ps c v q Hd Hs Hl Hq) as (c' & E & S).
  exists c'. rewrite E. split; [reflexivity|exact S].
Qed.

(* ---- chunks ---- *)
Lemma read_chunk t lst d c L cs j : geom t lst d -> series d (map is_chunk cs) c ->
  (j < length cs)%nat ->
  m_get_node node unit p_get t tt (wrapn lst c L) (N.of_nat j) = OK (Leaf (nth j cs [])).
Proof.
  intros Hg Hs Hj.
  destruct (read_slot t lst d c L _ (N.of_nat j) Hg Hs) as (m & E & Hn).
  { rewrite lenN_map. unfold lenN. lia. }
  rewrite E. f_equal. unfold nat_of in Hn. rewrite Nat2N.id in Hn.
  apply (nth_map_chunk cs j m Hj Hn).
Qed.

Lemma write_chunk t lst d c L cs j e c1 : geom t lst d -> series d (map is_chunk cs) c ->
  (j < length cs)%nat ->
  exists c', p_set zh tt (wrapn lst c L) (2 ^ view_depth t + N.of_nat j) e (Leaf c1)
             = OK (wrapn lst c' L, tt) /\
             series d (map is_chunk (list_set cs j c1)) c'.
Proof.
  intros Hg Hs Hj.
  destruct (write_slot t lst d c L _ (N.of_nat j) e (Leaf c1) (is_chunk c1) Hg Hs) as (c' & E & S).
  { rewrite lenN_map. unfold lenN. lia. }
  { reflexivity. }
  exists c'. split; [exact E|]. rewrite map_list_set.
  unfold nat_of in S. rewrite Nat2N.id in S. exact S.
Qed.

Lemma append_chunk t lst d c L cs c1 : geom t lst d -> series d (map is_chunk cs) c ->
  lenN cs < 2 ^ N.of_nat d ->
  exists c', p_set zh tt (wrapn lst c L) (2 ^ view_depth t + lenN cs) true (Leaf c1)
             = OK (wrapn lst c' L, tt) /\
             series d (map is_chunk (cs ++ [c1])) c'.
Proof.
  intros Hg Hs Hl.
  destruct (append_slot t lst d c L _ (Leaf c1) (is_chunk c1) Hg Hs) as (c' & E & S).
  { rewrite lenN_map. exact Hl. }
  { reflexivity. }
  exists c'. rewrite lenN_map in E. split; [exact E|]. rewrite map_app. exact S.
Qed.


(* ==================================================================================== *)
(** ** bitfields *)

Lemma shiftr8 a : N.shiftr a 8 = a / 256.
Proof. rewrite N.shiftr_div_pow2. reflexivity. Qed.
Lemma land255 a : N.land a 255 = a mod 256.
Proof. change 255 with (N.ones 8). rewrite N.land_ones. reflexivity. Qed.

Lemma tm_bit_set_ok t lst d c L bs i b :
  geom t lst d -> series d (map is_chunk (bit_chunks bs)) c -> i < lenN bs ->
  exists c', m_bit_set node unit p_get (p_set zh) p_leaf p_chunk t tt (wrapn lst c L) i b
             = OK (wrapn lst c' L, tt) /\
             series d (map is_chunk (bit_chunks (list_set bs (nat_of i) b))) c'.
Proof.
  intros Hg Hs Hi.
  destruct (bits_set_equiv bs (nat_of i) b) as (Hj & Heq); [unfold lenN, nat_of in *; lia|].
  cbv zeta in Hj, Heq.
  unfold m_bit_set. rewrite shiftr8.
  replace (i / 256) with (N.of_nat (nat_of i / 256)) by (unfold nat_of; lia).
  rewrite (read_chunk t lst d c L _ _ Hg Hs Hj). cbn [bind p_chunk leaf_chunk p_leaf].
  unfold m_set_node.
  pose proof (series_length zh _ _ _ Hs) as Hl. rewrite lenN_map in Hl.
  rewrite (gindex_geom t lst d _ Hg) by (unfold lenN in Hl; lia). cbn [bind].
  destruct (write_chunk t lst d c L _ _ false
              (chunk_set_bit (nth (nat_of i / 256) (bit_chunks bs) []) (wrap8 i) b) Hg Hs Hj)
    as (c' & E & S).
  exists c'. split; [exact E|].
  refine (series_equiv zh d _ _ c' Hz0 _ S).
  replace (wrap8 i) with (N.of_nat (nat_of i mod 256)) by (unfold wrap8, nat_of; lia).
  exact Heq.
Qed.


Lemma tm_bit_append_ok t d c bs b limit :
  geom t true d -> series d (map is_chunk (bit_chunks bs)) c ->
  lenN bs <= limit -> limit < 2 ^ 64 -> (limit + 255) / 256 <= 2 ^ N.of_nat d ->
  if limit <=? lenN bs
  then m_bit_append node unit p_get (p_set zh) p_leaf p_chunk zh t limit tt
         (Pair c (len_leaf (lenN bs))) b = Err
  else exists c', m_bit_append node unit p_get (p_set zh) p_leaf p_chunk zh t limit tt
                    (Pair c (len_leaf (lenN bs))) b
                  = OK (Pair c' (len_leaf (lenN bs + 1)), tt) /\
                  series d (map is_chunk (bit_chunks (bs ++ [b]))) c'.
Proof.
  intros Hg Hs Hle Hlim Hcap. unfold m_bit_append.
  rewrite tm_length_ok by lia. cbn [bind].
  destruct (N.leb_spec limit (lenN bs)) as [Hfull|Hroom]; [reflexivity|].
  rewrite shiftr8, land255.
  replace (lenN bs / 256) with (N.of_nat (length bs / 256)) by (unfold lenN; lia).
  change (Pair c (len_leaf (lenN bs))) with (wrapn true c (len_leaf (lenN bs))).
  rewrite (gindex_geom t true d _ Hg) by (unfold lenN in *; lia). cbn [bind].
  destruct (bits_append_equiv bs b) as [H0 H1]. cbv zeta in H0, H1.
  destruct (N.eqb_spec (lenN bs mod 256) 0) as [Ez|Ez].
  - destruct H0 as (Hj & Heq); [unfold lenN in Ez; lia|].
    cbn [bind p_leaf]. rewrite Hz0, Hj.
    destruct (append_chunk t true d c (len_leaf (lenN bs)) (bit_chunks bs)
                (chunk_set_bit zero_chunk 0 b) Hg Hs) as (c' & E & S).
    { rewrite bit_chunks_lenN. lia. }
    change (lenN (bit_chunks bs)) with (N.of_nat (length (bit_chunks bs))) in E. rewrite E. cbn [bind wrapn]. rewrite tm_set_length_ok.
    exists c'. split; [reflexivity|].
    refine (series_equiv zh d _ _ c' Hz0 _ S). exact Heq.
  - destruct H1 as (Hj & Heq); [unfold lenN in Ez; lia|].
    rewrite (read_chunk t true d c _ _ _ Hg Hs Hj). cbn [bind p_chunk leaf_chunk p_leaf].
    destruct (write_chunk t true d c (len_leaf (lenN bs)) _ _ true
                (chunk_set_bit (nth (length bs / 256) (bit_chunks bs) []) (wrap8 (lenN bs)) b) Hg Hs Hj)
      as (c' & E & S).
    rewrite E. cbn [bind wrapn]. rewrite tm_set_length_ok.
    exists c'. split; [reflexivity|].
    refine (series_equiv zh d _ _ c' Hz0 _ S).
    replace (wrap8 (lenN bs)) with (N.of_nat (length bs mod 256)) by (unfold wrap8, lenN; lia).
    exact Heq.
Qed.

Lemma tm_bit_pop_ok t d c bs limit :
  geom t true d -> series d (map is_chunk (bit_chunks bs)) c ->
  lenN bs <= limit -> limit < 2 ^ 64 ->
  if lenN bs =? 0
  then m_bit_pop node unit p_get (p_set zh) p_leaf p_chunk t limit tt
         (Pair c (len_leaf (lenN bs))) = Err
  else exists c', m_bit_pop node unit p_get (p_set zh) p_leaf p_chunk t limit tt
                    (Pair c (len_leaf (lenN bs)))
                  = OK (Pair c' (len_leaf (lenN bs - 1)), tt) /\
                  series d (map is_chunk (bit_chunks (removelast bs))) c'.
Proof.
  intros Hg Hs Hle Hlim. unfold m_bit_pop.
  rewrite tm_length_ok by lia. cbn [bind].
  destruct (N.eqb_spec (lenN bs) 0) as [Ez|Ez]; [reflexivity|].
  rewrite shiftr8.
  replace ((lenN bs - 1) / 256) with (N.of_nat ((length bs - 1) / 256)) by (unfold lenN; lia).
  change (Pair c (len_leaf (lenN bs))) with (wrapn true c (len_leaf (lenN bs))).
  destruct (bits_pop_equiv bs) as (Hj & Heq); [unfold lenN in Ez; lia|]. cbv zeta in Hj, Heq.
  pose proof (series_length zh _ _ _ Hs) as Hl. rewrite lenN_map in Hl.
  rewrite (gindex_geom t true d _ Hg) by (unfold lenN in Hl; lia). cbn [bind].
  rewrite (read_chunk t true d c _ _ _ Hg Hs Hj). cbn [bind p_chunk leaf_chunk p_leaf].
  destruct (write_chunk t true d c (len_leaf (lenN bs)) _ _ true
              (chunk_set_bit (nth ((length bs - 1) / 256) (bit_chunks bs) []) (wrap8 (lenN bs - 1)) false)
              Hg Hs Hj) as (c' & E & S).
  rewrite E. cbn [bind wrapn]. rewrite tm_set_length_ok.
  exists c'. split; [reflexivity|].
  refine (series_equiv zh d _ _ c' Hz0 _ S).
  replace (wrap8 (lenN bs - 1)) with (N.of_nat ((length bs - 1) mod 256)) by (unfold wrap8, lenN; lia).
  exact Heq.
Qed.


(* ==================================================================================== *)
(** ** packed unsigned integers *)

Lemma sub_index w i : uint_width_ok w = true ->
  wrap8 (N.land i (32 / w - 1)) = i mod (32 / w) /\ i mod (32 / w) < 32 / w /\ 32 / w <> 0.
Proof.
  intros Hw. destruct (uint_width_cases w Hw) as [[-> E]|[[-> E]|[[-> E]|[[-> E]|[-> E]]]]];
    rewrite E; (rewrite land_pred_pow2 by tauto); unfold wrap8; lia.
Qed.

Lemma packed_capacity w ll limit : uint_width_ok w = true -> ll < limit ->
  ll / (32 / w) < chunk_count_basic (TUint w) limit.
Proof.
  intros Hw Hl. unfold chunk_count_basic. cbn [spec_fixed_len].
  destruct (uint_width_cases w Hw) as [[-> E]|[[-> E]|[[-> E]|[[-> E]|[-> E]]]]]; rewrite E; lia.
Qed.

Lemma le_val_zeros k : le_val (repeat b0 k) = 0.
Proof. induction k as [|k IH]; cbn [repeat le_val]; [reflexivity|]. rewrite IH. reflexivity. Qed.

Lemma packed_val_zero w sub : uint_width_ok w = true -> sub < 32 / w ->
  packed_val (TUint w) zero_chunk sub = OK (VUint 0).
Proof.
  intros Hw Hs. unfold packed_val. rewrite (proj2 (N.leb_gt _ _) Hs).
  unfold zero_chunk, zero_bytes. rewrite skipn_repeat', firstn_repeat', !le_val_zeros.
  destruct ((w =? 1) || (w =? 2) || (w =? 4) || (w =? 8)) eqn:E1; [reflexivity|].
  destruct (w =? 32) eqn:E2; [reflexivity|].
  exfalso. unfold uint_width_ok in Hw. rewrite ?E1, ?E2 in Hw. discriminate Hw.
Qed.

Lemma has_type_uint x w : has_type x (TUint w) = true -> exists n, x = VUint n.
Proof. destruct x; cbn [has_type]; try discriminate. eauto. Qed.

Lemma tm_packed_set_ok t lst d c L w vs i x :
  geom t lst d -> uint_width_ok w = true ->
  forallb (fun y => has_type y (TUint w)) vs = true -> has_type x (TUint w) = true ->
  series d (map is_chunk (packed_chunks (TUint w) vs)) c -> i < lenN vs ->
  exists c', m_packed_set node unit p_get (p_set zh) p_leaf p_chunk t (TUint w) tt (wrapn lst c L) i x
             = OK (wrapn lst c' L, tt) /\
             series d (map is_chunk (packed_chunks (TUint w) (list_set vs (nat_of i) x))) c'.
Proof.
  intros Hg Hw Hty Hx Hs Hi.
  destruct (sub_index w i Hw) as (Esub & Hsub & Hp).
  destruct (packed_set_equiv w vs Hw Hty (nat_of i) x Hx) as (Hj & Hr & Heq);
    [unfold lenN, nat_of in *; lia|]. cbv zeta in Hj, Heq.
  destruct (has_type_uint x w Hx) as [n ->].
  unfold m_packed_set. rewrite per_node_uint.
  replace (i / (32 / w)) with (N.of_nat (nat_of i / nat_of (32 / w)))
    by (unfold nat_of; rewrite <- N2Nat.inj_div, N2Nat.id; reflexivity).
  rewrite (read_chunk t lst d c L _ _ Hg Hs Hj). cbn [bind p_chunk leaf_chunk].
  rewrite Esub, packed_set_uint. rewrite (proj2 (N.leb_gt _ _) Hsub). cbn [bind p_leaf].
  unfold m_set_node.
  pose proof (series_length zh _ _ _ Hs) as Hl. rewrite lenN_map in Hl.
  rewrite (gindex_geom t lst d _ Hg) by (unfold lenN in Hl; lia). cbn [bind].
  match goal with |- context [Leaf ?cc] =>
    destruct (write_chunk t lst d c L _ _ false cc Hg Hs Hj) as (c' & E & S) end.
  exists c'. split; [exact E|].
  refine (series_equiv zh d _ _ c' Hz0 _ S).
  replace (nat_of (i mod (32 / w))) with (nat_of i mod nat_of (32 / w))%nat
    by (unfold nat_of; rewrite N2Nat.inj_mod; reflexivity).
  exact Heq.
Qed.

Lemma tm_basic_append_ok t d c w vs x limit :
  geom t true d -> uint_width_ok w = true ->
  forallb (fun y => has_type y (TUint w)) vs = true -> has_type x (TUint w) = true ->
  series d (map is_chunk (packed_chunks (TUint w) vs)) c ->
  lenN vs <= limit -> limit < 2 ^ 64 -> chunk_count_basic (TUint w) limit <= 2 ^ N.of_nat d ->
  if limit <=? lenN vs
  then m_basic_append node unit p_get (p_set zh) p_leaf p_chunk zh t (TUint w) limit tt
         (Pair c (len_leaf (lenN vs))) x = Err
  else exists c', m_basic_append node unit p_get (p_set zh) p_leaf p_chunk zh t (TUint w) limit tt
                    (Pair c (len_leaf (lenN vs))) x
                  = OK (Pair c' (len_leaf (lenN vs + 1)), tt) /\
                  series d (map is_chunk (packed_chunks (TUint w) (vs ++ [x]))) c'.
Proof.
  intros Hg Hw Hty Hx Hs Hle Hlim Hcap. unfold m_basic_append.
  rewrite tm_length_ok by lia. cbn [bind].
  destruct (N.leb_spec limit (lenN vs)) as [Hfull|Hroom]; [reflexivity|].
  destruct (sub_index w (lenN vs) Hw) as (Esub & Hsub & Hp).
  pose proof (packed_capacity w (lenN vs) limit Hw Hroom) as Hc.
  destruct (has_type_uint x w Hx) as [n ->].
  rewrite per_node_uint.
  assert (Ediv : lenN vs / (32 / w) = N.of_nat (length vs / nat_of (32 / w))).
  { unfold lenN, nat_of. rewrite Nat2N.inj_div, N2Nat.id. reflexivity. }
  assert (Emod : (nat_of (lenN vs mod (32 / w)) = length vs mod nat_of (32 / w))%nat).
  { unfold lenN, nat_of. rewrite N2Nat.inj_mod, Nat2N.id. reflexivity. }
  rewrite Ediv in *.
  change (Pair c (len_leaf (lenN vs))) with (wrapn true c (len_leaf (lenN vs))).
  rewrite (gindex_geom t true d _ Hg) by lia. cbn [bind].
  destruct (packed_append_equiv w vs Hw Hty (VUint n) Hx) as [H0 H1]. cbv zeta in H0, H1.
  destruct (N.eqb_spec (lenN vs mod (32 / w)) 0) as [Ez|Ez].
  - destruct H0 as (Hj & Heq); [rewrite <- Emod, Ez; reflexivity|].
    rewrite Hz0, packed_set_uint.
    rewrite (proj2 (N.leb_gt (32 / w) 0)) by lia. cbn [bind p_leaf]. rewrite Hj.
    match goal with |- context [Leaf ?cc] =>
      destruct (append_chunk t true d c (len_leaf (lenN vs)) (packed_chunks (TUint w) vs) cc Hg Hs)
        as (c' & E & S) end.
    { unfold lenN. rewrite <- Hj. lia. }
    change (lenN (packed_chunks (TUint w) vs)) with (N.of_nat (length (packed_chunks (TUint w) vs))) in E.
    rewrite E. cbn [bind wrapn]. rewrite tm_set_length_ok.
    exists c'. split; [reflexivity|].
    refine (series_equiv zh d _ _ c' Hz0 _ S). exact Heq.
  - destruct H1 as (Hj & Hr & Heq); [rewrite <- Emod; unfold nat_of; lia|].
    rewrite (read_chunk t true d c _ _ _ Hg Hs Hj). cbn [bind p_chunk leaf_chunk].
    rewrite Esub, packed_set_uint. rewrite (proj2 (N.leb_gt _ _) Hsub). cbn [bind p_leaf].
    match goal with |- context [Leaf ?cc] =>
      destruct (write_chunk t true d c (len_leaf (lenN vs)) _ _ true cc Hg Hs Hj) as (c' & E & S) end.
    rewrite E. cbn [bind wrapn]. rewrite tm_set_length_ok.
    exists c'. split; [reflexivity|].
    refine (series_equiv zh d _ _ c' Hz0 _ S). rewrite Emod. exact Heq.
Qed.

Lemma tm_basic_pop_ok t d c w vs limit :
  geom t true d -> uint_width_ok w = true ->
  forallb (fun y => has_type y (TUint w)) vs = true ->
  series d (map is_chunk (packed_chunks (TUint w) vs)) c ->
  lenN vs <= limit -> limit < 2 ^ 64 ->
  if lenN vs =? 0
  then m_basic_pop node unit p_get (p_set zh) p_leaf p_chunk zh t (TUint w) limit tt
         (Pair c (len_leaf (lenN vs))) = Err
  else exists c', m_basic_pop node unit p_get (p_set zh) p_leaf p_chunk zh t (TUint w) limit tt
                    (Pair c (len_leaf (lenN vs)))
                  = OK (Pair c' (len_leaf (lenN vs - 1)), tt) /\
                  series d (map is_chunk (packed_chunks (TUint w) (removelast vs))) c'.
Proof.
  intros Hg Hw Hty Hs Hle Hlim. unfold m_basic_pop.
  rewrite tm_length_ok by lia. cbn [bind].
  destruct (N.eqb_spec (lenN vs) 0) as [Ez|Ez]; [reflexivity|].
  destruct (sub_index w (lenN vs - 1) Hw) as (Esub & Hsub & Hp).
  rewrite per_node_uint.
  assert (Ediv : (lenN vs - 1) / (32 / w) = N.of_nat ((length vs - 1) / nat_of (32 / w))).
  { unfold lenN, nat_of. rewrite Nat2N.inj_div, N2Nat.id. f_equal. lia. }
  assert (Emod : (nat_of ((lenN vs - 1) mod (32 / w)) = (length vs - 1) mod nat_of (32 / w))%nat).
  { unfold lenN, nat_of. rewrite N2Nat.inj_mod. f_equal. lia. }
  rewrite Ediv.
  change (Pair c (len_leaf (lenN vs))) with (wrapn true c (len_leaf (lenN vs))).
  destruct (packed_pop_equiv w vs Hw Hty) as (Hj & Hr & Heq); [unfold lenN in Ez; lia|].
  cbv zeta in Hj, Heq.
  pose proof (series_length zh _ _ _ Hs) as Hl. rewrite lenN_map in Hl.
  rewrite (gindex_geom t true d _ Hg) by (unfold lenN in Hl; lia). cbn [bind].
  rewrite (read_chunk t true d c _ _ _ Hg Hs Hj). cbn [bind p_chunk leaf_chunk].
  rewrite Esub, Hz0, (packed_val_zero w _ Hw Hsub). cbn [bind].
  rewrite packed_set_uint. rewrite (proj2 (N.leb_gt _ _) Hsub). cbn [bind p_leaf].
  match goal with |- context [Leaf ?cc] =>
    destruct (write_chunk t true d c (len_leaf (lenN vs)) _ _ true cc Hg Hs Hj) as (c' & E & S) end.
  rewrite E. cbn [bind wrapn]. rewrite tm_set_length_ok.
  exists c'. split; [reflexivity|].
  refine (series_equiv zh d _ _ c' Hz0 _ S). rewrite Emod. exact Heq.
Qed.


(* ==================================================================================== *)
(** ** series of nodes (complex elements, fields) *)

Lemma tm_set_node_ok t lst d c L ps i v (q : node -> Prop) :
  geom t lst d -> series d ps c -> i < lenN ps -> q v ->
  exists c', m_set_node node unit (p_set zh) t tt (wrapn lst c L) i v = OK (wrapn lst c' L, tt) /\
             series d (list_set ps (nat_of i) q) c'.
Proof.
  intros Hg Hs Hi Hq. unfold m_set_node.
  pose proof (series_length zh _ _ _ Hs) as Hl.
  rewrite (gindex_geom t lst d _ Hg) by lia. cbn [bind].
  apply write_slot; assumption.
Qed.

Lemma tm_complex_append_ok t d c ps limit v (q : node -> Prop) :
  geom t true d -> series d ps c -> lenN ps <= limit -> limit < 2 ^ 64 ->
  limit <= 2 ^ N.of_nat d -> q v ->
  if limit <=? lenN ps
  then m_complex_append node unit p_get (p_set zh) p_leaf p_chunk t limit tt
         (Pair c (len_leaf (lenN ps))) v = Err
  else exists c', m_complex_append node unit p_get (p_set zh) p_leaf p_chunk t limit tt
                    (Pair c (len_leaf (lenN ps))) v
                  = OK (Pair c' (len_leaf (lenN ps + 1)), tt) /\
                  series d (ps ++ [q]) c'.
Proof.
  intros Hg Hs Hle Hlim Hcap Hq. unfold m_complex_append.
  rewrite tm_length_ok by lia. cbn [bind].
  destruct (N.leb_spec limit (lenN ps)) as [Hfull|Hroom]; [reflexivity|].
  change (Pair c (len_leaf (lenN ps))) with (wrapn true c (len_leaf (lenN ps))).
  rewrite (gindex_geom t true d _ Hg) by lia. cbn [bind].
  destruct (append_slot t true d c (len_leaf (lenN ps)) ps v q Hg Hs ltac:(lia) Hq) as (c' & E & S).
  rewrite E. cbn [bind wrapn]. rewrite tm_set_length_ok.
  exists c'. split; [reflexivity|exact S].
Qed.

Lemma tm_complex_pop_ok t d c ps limit :
  geom t true d -> series d ps c -> lenN ps <= limit -> limit < 2 ^ 64 ->
  if lenN ps =? 0
  then m_complex_pop node unit p_get (p_set zh) p_leaf p_chunk (p_zero zh) t limit tt
         (Pair c (len_leaf (lenN ps))) = Err
  else exists c', m_complex_pop node unit p_get (p_set zh) p_leaf p_chunk (p_zero zh) t limit tt
                    (Pair c (len_leaf (lenN ps)))
                  = OK (Pair c' (len_leaf (lenN ps - 1)), tt) /\
                  series d (removelast ps) c'.
Proof.
  intros Hg Hs Hle Hlim. unfold m_complex_pop.
  rewrite tm_length_ok by lia. cbn [bind].
  destruct (N.eqb_spec (lenN ps) 0) as [Ez|Ez]; [reflexivity|].
  pose proof (series_length zh _ _ _ Hs) as Hl.
  change (Pair c (len_leaf (lenN ps))) with (wrapn true c (len_leaf (lenN ps))).
  rewrite (gindex_geom t true d _ Hg) by lia. cbn [bind].
  rewrite (pset_geom t true d c _ _ true _ Hg) by lia.
  destruct (series_pop zh d ps c true Hs) as (c' & E & S).
  { intros ->. apply Ez. reflexivity. }
  unfold p_zero. rewrite E. cbn [bind wrapn]. rewrite tm_set_length_ok.
  exists c'. split; [reflexivity|exact S].
Qed.

End Pure.

(* ==================================================================================== *)
(** * Part D. The simulation relation, sources, and one mutation of a handle *)
(* ==================================================================================== *)

(* ------------------------------------------------------------------------------------ *)
(** ** facts about types *)

Lemma forallb_nth_error {A} (p : A -> bool) l k x :
  forallb p l = true -> nth_error l k = Some x -> p x = true.
Proof.
  intros Hf Hn. rewrite forallb_forall in Hf. apply Hf. eapply nth_error_In. exact Hn.
Qed.

Lemma ty_ok_vector e k : ty_ok (TVector e k) -> ty_ok e /\ 1 <= k /\ k <= 2 ^ 56.
Proof.
  intros (Hwf & Hsp & Hsf). cbn [wf_ty small_params small_fields] in *.
  apply andb_prop in Hwf, Hsp. destruct Hwf as [Hk Hwf], Hsp as [Hk' Hsp].
  apply N.leb_le in Hk, Hk'. repeat split; assumption.
Qed.

Lemma ty_ok_list e k : ty_ok (TList e k) -> ty_ok e /\ k <= 2 ^ 56.
Proof.
  intros (Hwf & Hsp & Hsf). cbn [wf_ty small_params small_fields] in *.
  apply andb_prop in Hsp. destruct Hsp as [Hk' Hsp].
  apply N.leb_le in Hk'. repeat split; assumption.
Qed.

Lemma ty_ok_container fs : ty_ok (TContainer fs) ->
  lenN fs <= 2 ^ 63 /\ forall i f, nth_error fs i = Some f -> ty_ok f.
Proof.
  intros (Hwf & Hsp & Hsf). cbn [wf_ty small_params small_fields] in *.
  apply andb_prop in Hwf, Hsf. destruct Hwf as [_ Hwf], Hsf as [Hn Hsf].
  apply N.leb_le in Hn. split; [exact Hn|].
  intros i f Hf. repeat split; eapply forallb_nth_error; eauto.
Qed.

Lemma ty_ok_union none opts : ty_ok (TUnion none opts) ->
  union_count none opts <= 128 /\ forall i o, nth_error opts i = Some o -> ty_ok o.
Proof.
  intros (Hwf & Hsp & Hsf). cbn [wf_ty small_params small_fields] in *.
  apply andb_prop in Hwf. destruct Hwf as [Hwf Hwfo].
  apply andb_prop in Hwf. destruct Hwf as [_ Hc]. apply N.leb_le in Hc.
  split; [exact Hc|]. intros i o Ho. repeat split; eapply forallb_nth_error; eauto.
Qed.

Lemma ty_ok_bits k : ty_ok (TBitvector k) \/ ty_ok (TBitlist k) -> k <= 2 ^ 56.
Proof. intros [(_ & Hsp & _)|(_ & Hsp & _)]; cbn [small_params] in Hsp; apply N.leb_le; exact Hsp. Qed.

(* ---- geometry ---- *)
Lemma view_depth_eq t :
  view_depth t = N.of_nat (cdepth t) + (if is_list_ty t then 1 else 0).
Proof. unfold view_depth, cdepth, nat_of. rewrite N2Nat.id. reflexivity. Qed.

Lemma geom_of t : N.of_nat (cdepth t) + (if is_list_ty t then 1 else 0) < 64 ->
  geom t (is_list_ty t) (cdepth t).
Proof. intros Hlt. split; [apply view_depth_eq|]. rewrite view_depth_eq. exact Hlt. Qed.

Lemma geom_bitvector k : k <= 2 ^ 56 -> geom (TBitvector k) false (cdepth (TBitvector k)).
Proof.
  intros Hk. apply (geom_of (TBitvector k)). rewrite cdepth_bitvector by exact Hk.
  pose proof (depth_for_bound ((k + 255) / 256) 48 ltac:(lia)). cbn [is_list_ty]. lia.
Qed.

Lemma geom_bitlist k : k <= 2 ^ 56 -> geom (TBitlist k) true (cdepth (TBitlist k)).
Proof.
  intros Hk. apply (geom_of (TBitlist k)). rewrite cdepth_bitlist by exact Hk.
  pose proof (depth_for_bound ((k + 255) / 256) 48 ltac:(lia)). cbn [is_list_ty]. lia.
Qed.

Lemma cap_bits k : k <= 2 ^ 56 -> (k + 255) / 256 <= 2 ^ N.of_nat (cdepth (TBitlist k)).
Proof. intros Hk. rewrite cdepth_bitlist by exact Hk. apply depth_for_ge. Qed.

Lemma geom_vector_uint w k : uint_width_ok w = true -> k <= 2 ^ 56 ->
  geom (TVector (TUint w) k) false (cdepth (TVector (TUint w) k)).
Proof.
  intros Hw Hk. apply (geom_of (TVector (TUint w) k)). rewrite cdepth_vector_uint by assumption.
  pose proof (chunk_count_uint_bound w k Hw Hk).
  pose proof (depth_for_bound (chunk_count_basic (TUint w) k) 56 ltac:(lia)). cbn [is_list_ty]. lia.
Qed.

Lemma geom_list_uint w k : uint_width_ok w = true -> k <= 2 ^ 56 ->
  geom (TList (TUint w) k) true (cdepth (TList (TUint w) k)).
Proof.
  intros Hw Hk. apply (geom_of (TList (TUint w) k)). rewrite cdepth_list_uint by assumption.
  pose proof (chunk_count_uint_bound w k Hw Hk).
  pose proof (depth_for_bound (chunk_count_basic (TUint w) k) 56 ltac:(lia)). cbn [is_list_ty]. lia.
Qed.

Lemma cap_uint w k : uint_width_ok w = true -> k <= 2 ^ 56 ->
  chunk_count_basic (TUint w) k <= 2 ^ N.of_nat (cdepth (TList (TUint w) k)).
Proof. intros Hw Hk. rewrite cdepth_list_uint by assumption. apply depth_for_ge. Qed.

Lemma geom_vector_nb e k : is_basic_elem e = false -> k <= 2 ^ 56 ->
  geom (TVector e k) false (cdepth (TVector e k)).
Proof.
  intros Hb Hk. apply (geom_of (TVector e k)). rewrite cdepth_vector_nb by assumption.
  pose proof (depth_for_bound k 56 ltac:(lia)). cbn [is_list_ty]. lia.
Qed.

Lemma geom_list_nb e k : is_basic_elem e = false -> k <= 2 ^ 56 ->
  geom (TList e k) true (cdepth (TList e k)).
Proof.
  intros Hb Hk. apply (geom_of (TList e k)). rewrite cdepth_list_nb by assumption.
  pose proof (depth_for_bound k 56 ltac:(lia)). cbn [is_list_ty]. lia.
Qed.

Lemma cap_nb e k : is_basic_elem e = false -> k <= 2 ^ 56 ->
  k <= 2 ^ N.of_nat (cdepth (TList e k)).
Proof. intros Hb Hk. rewrite cdepth_list_nb by assumption. apply depth_for_ge. Qed.

Lemma geom_container fs : lenN fs <= 2 ^ 63 ->
  geom (TContainer fs) false (cdepth (TContainer fs)).
Proof.
  intros Hn. apply (geom_of (TContainer fs)).
  change (cdepth (TContainer fs)) with (nat_of (cover_depth (lenN fs))).
  rewrite cover_depth_for by lia.
  pose proof (depth_for_bound (lenN fs) 63 Hn). cbn [is_list_ty]. lia.
Qed.

(* ---- typed values, slot by slot ---- *)
Lemma rfields_ty_length : forall fs vs, rfields_ty fs vs = true -> length fs = length vs.
Proof.
  induction fs as [|f fs IH]; intros [|x vs] Hty; cbn [rfields_ty] in Hty; try discriminate; auto.
  apply andb_prop in Hty. cbn [length]. f_equal. apply IH, Hty.
Qed.

Lemma rfields_ty_nth : forall fs vs i f x, rfields_ty fs vs = true ->
  nth_error fs i = Some f -> nth_error vs i = Some x -> has_type x f = true.
Proof.
  induction fs as [|f0 fs IH]; intros [|x0 vs] i f x Hty Hf Hx; cbn [rfields_ty] in Hty;
    try discriminate; try (destruct i; discriminate).
  apply andb_prop in Hty. destruct Hty as [H0 Hr]. destruct i as [|i]; cbn [nth_error] in *.
  - congruence.
  - eapply IH; eauto.
Qed.

Lemma rfields_ty_set : forall fs vs i f x, rfields_ty fs vs = true ->
  nth_error fs i = Some f -> has_type x f = true -> rfields_ty fs (list_set vs i x) = true.
Proof.
  induction fs as [|f0 fs IH]; intros [|x0 vs] i f x Hty Hf Hx; cbn [rfields_ty] in Hty;
    try discriminate; try (destruct i; discriminate).
  apply andb_prop in Hty. destruct Hty as [H0 Hr]. destruct i as [|i]; cbn [nth_error list_set rfields_ty] in *.
  - injection Hf as <-. rewrite Hx, Hr. reflexivity.
  - rewrite H0. cbn [andb]. eapply IH; eauto.
Qed.

Section ReprSlots.
Variable zh : nat -> chunk.

Lemma rfields_repr_length : forall fs vs, length fs = length vs ->
  length (rfields_repr zh fs vs) = length vs.
Proof.
  induction fs as [|f fs IH]; intros [|x vs] Hl; cbn [length rfields_repr] in *; try discriminate; auto.
Qed.

Lemma rfields_repr_nth : forall fs vs i f x m,
  nth_error fs i = Some f -> nth_error vs i = Some x ->
  nth i (rfields_repr zh fs vs) (fun _ => False) m -> repr zh f m x.
Proof.
  induction fs as [|f0 fs IH]; intros [|x0 vs] i f x m Hf Hx Hn;
    try (destruct i; discriminate).
  destruct i as [|i]; cbn [nth_error rfields_repr nth] in *.
  - injection Hf as <-. injection Hx as <-. exact Hn.
  - eapply IH; eauto.
Qed.

Lemma rfields_repr_set : forall fs vs i f x, nth_error fs i = Some f ->
  rfields_repr zh fs (list_set vs i x) = list_set (rfields_repr zh fs vs) i (fun m => repr zh f m x).
Proof.
  induction fs as [|f0 fs IH]; intros [|x0 vs] i f x Hf; try (destruct i; discriminate).
  - destruct i; reflexivity.
  - destruct i as [|i]; cbn [nth_error rfields_repr list_set] in *.
    + injection Hf as <-. reflexivity.
    + f_equal. apply IH. exact Hf.
Qed.

Lemma elems_repr_nth e vs i x m : nth_error vs i = Some x ->
  nth i (map (fun x m => repr zh e m x) vs) (fun _ => False) m -> repr zh e m x.
Proof.
  revert i. induction vs as [|x0 vs IH]; intros [|i] Hx Hn; try discriminate; cbn [nth_error map nth] in *.
  - injection Hx as <-. exact Hn.
  - eapply IH; eauto.
Qed.
End ReprSlots.

Lemma nth_error_lt {A} (l : list A) i x : nth_error l i = Some x -> (i < length l)%nat.
Proof. intros Hn. apply nth_error_Some. congruence. Qed.

Lemma nth_error_ex {A} (l : list A) i : (i < length l)%nat -> exists x, nth_error l i = Some x.
Proof. intros Hi. destruct (nth_error l i) eqn:E; [eauto|]. apply nth_error_None in E. lia. Qed.

Lemma Forall2_nth_l {A B} (P : A -> B -> Prop) l1 l2 k x :
  Forall2 P l1 l2 -> nth_error l1 k = Some x -> exists y, nth_error l2 k = Some y /\ P x y.
Proof.
  intros HF. revert k. induction HF as [|a b l1 l2 Hab _ IH]; intros [|k] Hx; try discriminate;
    cbn [nth_error] in *.
  - injection Hx as <-. eauto.
  - apply IH, Hx.
Qed.

Lemma Forall2_nth_r {A B} (P : A -> B -> Prop) l1 l2 k y :
  Forall2 P l1 l2 -> nth_error l2 k = Some y -> exists x, nth_error l1 k = Some x /\ P x y.
Proof.
  intros HF. revert k. induction HF as [|a b l1 l2 Hab _ IH]; intros [|k] Hy; try discriminate;
    cbn [nth_error] in *.
  - injection Hy as <-. eauto.
  - apply IH, Hy.
Qed.

Lemma Forall2_nth_none {A B} (P : A -> B -> Prop) l1 l2 k :
  Forall2 P l1 l2 -> nth_error l1 k = None <-> nth_error l2 k = None.
Proof.
  intros HF. rewrite !nth_error_None. rewrite (Forall2_length' _ _ _ HF). reflexivity.
Qed.

(* ------------------------------------------------------------------------------------ *)
(** ** the source of a mutation *)

Section Machine.
Variable H : chunk -> chunk -> chunk.
Variable zh : nat -> chunk.
Hypothesis Hzh : forall d, zh d = zero_hash H d.

Lemma Hz0 : zh 0%nat = zero_chunk.
Proof. exact (zh0 H zh Hzh). Qed.

Notation tm_resolve := (resolve_src node unit p_leaf p_pair (p_zero zh) p_true zh).
Notation tm_mutate := (mutate node unit p_get (p_set zh) p_leaf p_pair p_chunk (p_zero zh) p_true zh).

Lemma alloc_node_pure n s : alloc_node node unit p_leaf p_pair s n = (n, tt).
Proof.
  revert s. induction n as [c|l IHl r IHr]; intros s; cbn [alloc_node].
  - reflexivity.
  - rewrite IHl, IHr. reflexivity.
Qed.

(* a source that fits type e resolves to a tree representing the value VM reads *)
Lemma resolve_src_ok tm vm s want e :
  R zh tm vm -> src_fits vm (WTy e) s ->
  match v_src vm s with
  | Some (Some v) => exists n, tm_resolve tm s want = OK (n, tt) /\ repr zh e n v /\ has_type v e = true
  | Some None => False
  | None => tm_resolve tm s want = Err
  end.
Proof.
  intros [HF _] Hfit. destruct s as [t v|h|]; cbn [src_fits] in Hfit.
  - destruct Hfit as [[(Hwf & Hsp & Hsf) Hty] ->]. cbn [v_src].
    assert (Hgen : exists n, (do n <- from_val zh e v; OK (alloc_node node unit p_leaf p_pair (m_store node unit tm) n))
                             = OK (n, tt) /\ repr zh e n v).
    { destruct (from_val_repr H zh Hzh e v Hwf Hsp Hsf Hty) as (n & E & Rn).
      exists n. rewrite E. cbn [bind]. rewrite alloc_node_pure. split; [reflexivity|exact Rn]. }
    destruct Hgen as (n & En & Rn).
    destruct e; try (exists n; split; [exact En|split; [exact Rn|exact Hty]]).
    (* TBool: the shared true / zero roots *)
    destruct v; try discriminate Hty. cbn [resolve_src].
    destruct (m_store node unit tm).
    eexists. split; [reflexivity|]. split; [|exact Hty].
    cbn [repr]. unfold p_true, p_zero. rewrite Hz0. destruct b; reflexivity.
  - cbn [v_src resolve_src]. unfold v_get, get_handle.
    destruct (nth_error vm h) as [y|] eqn:Ey.
    + destruct (Forall2_nth_r _ _ _ _ _ HF Ey) as (x & Ex & Hxy). rewrite Ex. cbn [bind].
      destruct Hxy as (Ht & _ & _ & Hty & Hr). specialize (Hfit y eq_refl). subst e.
      destruct (m_store node unit tm). eexists. split; [reflexivity|]. split; assumption.
    + rewrite (proj2 (Forall2_nth_none _ _ _ h HF) Ey). reflexivity.
  - destruct Hfit.
Qed.

End Machine.

(* ==================================================================================== *)
(** * Part E. One mutation of a handle: TM against VM *)
(* ==================================================================================== *)

Section Mutate.
Variable H : chunk -> chunk -> chunk.
Variable zh : nat -> chunk.
Hypothesis Hzh : forall d, zh d = zero_hash H d.

Let Hz0' : zh 0%nat = zero_chunk := Hz0 H zh Hzh.

Notation tm_mutate := (mutate node unit p_get (p_set zh) p_leaf p_pair p_chunk (p_zero zh) p_true zh).

Variable tm : tm_state.
Variable vm : vstate.
Hypothesis HR : R zh tm vm.

Lemma fits_lit e s : src_fits vm (WLit e) s -> exists v, s = SLit e v /\ ty_ok e /\ has_type v e = true.
Proof.
  destruct s as [t v|h|]; cbn [src_fits]; try tauto.
  intros [[Hok Hty] ->]. eauto.
Qed.

Lemma mut_set_bitvector k a bs hk hk' h i s :
  ty_ok (TBitvector k) -> has_type (VBits bs) (TBitvector k) = true ->
  repr zh (TBitvector k) a (VBits bs) -> src_fits vm (WLit TBool) s ->
  mut_rel zh (TBitvector k) (tm_mutate tm (mkH node (TBitvector k) a hk) (OSet h i s))
          (v_mutate vm (mkVH (TBitvector k) (VBits bs) hk') (OSet h i s)).
Proof.
  intros Hok Hty Hr Hfit.
  destruct (fits_lit _ _ Hfit) as (v & -> & _ & Hv). destruct v; try discriminate Hv.
  pose proof (ty_ok_bits k (or_introl Hok)) as Hk.
  cbn [has_type] in Hty. apply N.eqb_eq in Hty. fold (lenN bs) in Hty.
  change (series zh (cdepth (TBitvector k)) (map is_chunk (bit_chunks bs)) a) in Hr.
  unfold mut_rel, v_mutate. cbn [vh_ty vh_val v_src]. unfold v_slot_set, v_len.
  unfold mutate. cbn [h_ty h_back lit_bool bind]. rewrite Hty.
  destruct (N.leb_spec k i) as [Hi|Hi]; [reflexivity|].
  destruct (m_store node unit tm).
  destruct (tm_bit_set_ok zh Hz0' (TBitvector k) false _ a a bs i b (geom_bitvector k Hk) Hr ltac:(lia))
    as (c' & E & S).
  cbn [wrapn] in E. exists c'. split; [exact E|]. split; [exact S|].
  cbn [has_type]. rewrite BitfieldsProofs.list_set_length. apply N.eqb_eq. exact Hty.
Qed.


Lemma mut_set_bitlist k a bs hk hk' h i s :
  ty_ok (TBitlist k) -> has_type (VBits bs) (TBitlist k) = true ->
  repr zh (TBitlist k) a (VBits bs) -> src_fits vm (WLit TBool) s ->
  mut_rel zh (TBitlist k) (tm_mutate tm (mkH node (TBitlist k) a hk) (OSet h i s))
          (v_mutate vm (mkVH (TBitlist k) (VBits bs) hk') (OSet h i s)).
Proof.
  intros Hok Hty Hr Hfit.
  destruct (fits_lit _ _ Hfit) as (v & -> & _ & Hv). destruct v; try discriminate Hv.
  pose proof (ty_ok_bits k (or_intror Hok)) as Hk.
  cbn [has_type] in Hty. apply N.leb_le in Hty. fold (lenN bs) in Hty.
  destruct Hr as (c & -> & Hs). fold (cdepth (TBitlist k)) in Hs. fold (bit_chunks bs) in Hs.
  unfold mut_rel, v_mutate. cbn [vh_ty vh_val v_src]. unfold v_slot_set, v_len.
  unfold mutate. cbn [h_ty h_back lit_bool].
  destruct (m_store node unit tm).
  rewrite tm_check_index_ok by (cbn [list_limit]; lia).
  destruct (N.leb_spec (lenN bs) i) as [Hi|Hi]; [reflexivity|]. cbn [bind].
  destruct (tm_bit_set_ok zh Hz0' (TBitlist k) true _ c (len_leaf (lenN bs)) bs i b (geom_bitlist k Hk) Hs Hi)
    as (c' & E & S).
  cbn [wrapn] in E. eexists. split; [exact E|]. split.
  - exists c'. rewrite lenN_list_set. split; [reflexivity|exact S].
  - cbn [has_type]. rewrite BitfieldsProofs.list_set_length. apply N.leb_le. exact Hty.
Qed.

Lemma mut_append_bitlist k a bs hk hk' h s :
  ty_ok (TBitlist k) -> has_type (VBits bs) (TBitlist k) = true ->
  repr zh (TBitlist k) a (VBits bs) -> src_fits vm (WLit TBool) s ->
  mut_rel zh (TBitlist k) (tm_mutate tm (mkH node (TBitlist k) a hk) (OAppend h s))
          (v_mutate vm (mkVH (TBitlist k) (VBits bs) hk') (OAppend h s)).
Proof.
  intros Hok Hty Hr Hfit.
  destruct (fits_lit _ _ Hfit) as (v & -> & _ & Hv). destruct v; try discriminate Hv.
  pose proof (ty_ok_bits k (or_intror Hok)) as Hk.
  cbn [has_type] in Hty. apply N.leb_le in Hty. fold (lenN bs) in Hty.
  destruct Hr as (c & -> & Hs). fold (cdepth (TBitlist k)) in Hs. fold (bit_chunks bs) in Hs.
  unfold mut_rel, v_mutate. cbn [vh_ty vh_val v_src].
  unfold mutate. cbn [h_ty h_back lit_bool bind].
  destruct (m_store node unit tm).
  pose proof (tm_bit_append_ok zh Hz0' (TBitlist k) _ c bs b k (geom_bitlist k Hk) Hs Hty ltac:(lia)
                (cap_bits k Hk)) as Hap.
  destruct (k <=? lenN bs) eqn:Efull; [exact Hap|].
  destruct Hap as (c' & E & S). eexists. split; [exact E|]. split.
  - exists c'. rewrite lenN_app', lenN_one. split; [reflexivity|exact S].
  - cbn [has_type]. apply N.leb_gt in Efull. apply N.leb_le.
    change (N.of_nat (length (bs ++ [b]))) with (lenN (bs ++ [b])). rewrite lenN_app', lenN_one. lia.
Qed.

Lemma mut_pop_bitlist k a bs hk hk' h :
  ty_ok (TBitlist k) -> has_type (VBits bs) (TBitlist k) = true ->
  repr zh (TBitlist k) a (VBits bs) ->
  mut_rel zh (TBitlist k) (tm_mutate tm (mkH node (TBitlist k) a hk) (OPop h))
          (v_mutate vm (mkVH (TBitlist k) (VBits bs) hk') (OPop h)).
Proof.
  intros Hok Hty Hr.
  pose proof (ty_ok_bits k (or_intror Hok)) as Hk.
  cbn [has_type] in Hty. apply N.leb_le in Hty. fold (lenN bs) in Hty.
  destruct Hr as (c & -> & Hs). fold (cdepth (TBitlist k)) in Hs. fold (bit_chunks bs) in Hs.
  unfold mut_rel, v_mutate. cbn [vh_ty vh_val].
  unfold mutate. cbn [h_ty h_back].
  destruct (m_store node unit tm).
  pose proof (tm_bit_pop_ok zh Hz0' (TBitlist k) _ c bs k (geom_bitlist k Hk) Hs Hty ltac:(lia)) as Hp.
  destruct (lenN bs =? 0) eqn:Ez; [exact Hp|].
  destruct Hp as (c' & E & S). eexists. split; [exact E|]. split.
  - exists c'. rewrite lenN_removelast. split; [reflexivity|exact S].
  - cbn [has_type]. apply N.leb_le.
    change (N.of_nat (length (removelast bs))) with (lenN (removelast bs)). rewrite lenN_removelast. lia.
Qed.


Lemma has_type_vector vs e k : has_type (VSeq vs) (TVector e k) = true ->
  lenN vs = k /\ forallb (fun x => has_type x e) vs = true.
Proof.
  cbn [has_type]. intros Hty. apply andb_prop in Hty. destruct Hty as [Hl Hf].
  apply N.eqb_eq in Hl. split; assumption.
Qed.

Lemma has_type_list vs e k : has_type (VSeq vs) (TList e k) = true ->
  lenN vs <= k /\ forallb (fun x => has_type x e) vs = true.
Proof.
  cbn [has_type]. intros Hty. apply andb_prop in Hty. destruct Hty as [Hl Hf].
  apply N.leb_le in Hl. split; assumption.
Qed.

Lemma has_type_vector_intro vs e k : lenN vs = k -> forallb (fun x => has_type x e) vs = true ->
  has_type (VSeq vs) (TVector e k) = true.
Proof. intros Hl Hf. cbn [has_type]. fold (lenN vs). rewrite Hl, N.eqb_refl, Hf. reflexivity. Qed.

Lemma has_type_list_intro vs e k : lenN vs <= k -> forallb (fun x => has_type x e) vs = true ->
  has_type (VSeq vs) (TList e k) = true.
Proof.
  intros Hl Hf. cbn [has_type]. fold (lenN vs). rewrite (proj2 (N.leb_le _ _) Hl), Hf. reflexivity.
Qed.

Lemma has_type_seq v e k : has_type v (TVector e k) = true \/ has_type v (TList e k) = true ->
  exists vs, v = VSeq vs.
Proof. destruct v; cbn [has_type]; intros [Hd|Hd]; try discriminate Hd; eauto. Qed.

(* SetNode of a slot of a complex vector, a complex list, a container *)
Lemma slot_set_ok t a v i n y e :
  ty_ok t -> has_type v t = true -> repr zh t a v ->
  slot_ty t i = Some e -> repr zh e n y -> has_type y e = true ->
  mut_rel zh t (m_slot_set node unit p_get (p_set zh) p_chunk t tt a i n) (v_slot_set t v i y).
Proof.
  intros Hok Hty Hr Hslot Hn Hy. destruct t; try discriminate Hslot.
  - (* vector *)
    cbn [slot_ty] in Hslot. destruct (is_basic_elem t) eqn:Eb; [discriminate|]. injection Hslot as <-.
    destruct (has_type_seq v t n0 (or_introl Hty)) as [vs ->].
    destruct (ty_ok_vector _ _ Hok) as (Hoke & Hk1 & Hk).
    destruct (has_type_vector _ _ _ Hty) as [Hl Hf].
    rewrite repr_vector, Eb in Hr.
    unfold mut_rel, v_slot_set, v_len. cbn [m_slot_set]. rewrite Hl.
    destruct (N.leb_spec n0 i) as [Hi|Hi]; [reflexivity|].
    destruct (tm_set_node_ok zh (TVector t n0) false _ a a _ i n (fun m => repr zh t m y)
                (geom_vector_nb t n0 Eb Hk) Hr) as (c' & E & S).
    { rewrite lenN_map. lia. } { exact Hn. }
    cbn [wrapn] in E. exists c'. split; [exact E|]. split.
    + rewrite repr_vector, Eb. rewrite (map_list_set (fun x m => repr zh t m x)). exact S.
    + apply has_type_vector_intro; [rewrite lenN_list_set; exact Hl|].
      apply forallb_list_set; assumption.
  - (* list *)
    cbn [slot_ty] in Hslot. destruct (is_basic_elem t) eqn:Eb; [discriminate|]. injection Hslot as <-.
    destruct (has_type_seq v t n0 (or_intror Hty)) as [vs ->].
    destruct (ty_ok_list _ _ Hok) as (Hoke & Hk).
    destruct (has_type_list _ _ _ Hty) as [Hl Hf].
    rewrite repr_list, Eb in Hr. destruct Hr as (c & -> & Hs).
    unfold mut_rel, v_slot_set, v_len. cbn [m_slot_set].
    rewrite tm_check_index_ok by (cbn [list_limit]; lia).
    destruct (N.leb_spec (lenN vs) i) as [Hi|Hi]; [reflexivity|]. cbn [bind].
    destruct (tm_set_node_ok zh (TList t n0) true _ c (len_leaf (lenN vs)) _ i n (fun m => repr zh t m y)
                (geom_list_nb t n0 Eb Hk) Hs) as (c' & E & S).
    { rewrite lenN_map. lia. } { exact Hn. }
    cbn [wrapn] in E. eexists. split; [exact E|]. split.
    + rewrite repr_list, Eb. exists c'. rewrite lenN_list_set. split; [reflexivity|].
      rewrite (map_list_set (fun x m => repr zh t m x)). exact S.
    + apply has_type_list_intro; [rewrite lenN_list_set; exact Hl|].
      apply forallb_list_set; assumption.
  - (* container *)
    cbn [slot_ty] in Hslot.
    destruct v; try discriminate Hty. rewrite has_type_cont in Hty. rewrite repr_cont in Hr.
    destruct (ty_ok_container _ Hok) as (Hn63 & Hfs).
    pose proof (rfields_ty_length _ _ Hty) as Hlen.
    pose proof (nth_error_lt _ _ _ Hslot) as Hlt.
    unfold mut_rel, v_slot_set, v_len. cbn [m_slot_set].
    rewrite (proj2 (N.leb_gt (N.of_nat (length fs)) i)) by (unfold nat_of in Hlt; lia).
    rewrite (proj2 (N.leb_gt (lenN vs) i)) by (unfold lenN, nat_of in *; lia).
    destruct (tm_set_node_ok zh (TContainer fs) false _ a a _ i n (fun m => repr zh e m y)
                (geom_container fs Hn63) Hr) as (c' & E & S).
    { unfold lenN. rewrite rfields_repr_length by exact Hlen. unfold nat_of in Hlt. lia. }
    { exact Hn. }
    cbn [wrapn] in E. exists c'. split; [exact E|]. split.
    + rewrite repr_cont, (rfields_repr_set zh fs vs _ e y Hslot). exact S.
    + rewrite has_type_cont. eapply rfields_ty_set; eauto.
Qed.

Lemma slot_set_container_oob fs a v i n :
  has_type v (TContainer fs) = true -> nth_error fs (nat_of i) = None ->
  m_slot_set node unit p_get (p_set zh) p_chunk (TContainer fs) tt a i n = Err /\
  forall y, v_slot_set (TContainer fs) v i y = None.
Proof.
  intros Hty Hnone. destruct v; try discriminate Hty. rewrite has_type_cont in Hty.
  pose proof (rfields_ty_length _ _ Hty) as Hlen. apply nth_error_None in Hnone.
  cbn [m_slot_set]. unfold v_slot_set, v_len.
  rewrite (proj2 (N.leb_le (N.of_nat (length fs)) i)) by (unfold nat_of in Hnone; lia).
  rewrite (proj2 (N.leb_le (lenN vs) i)) by (unfold lenN, nat_of in *; lia).
  split; reflexivity.
Qed.


Notation tm_resolve := (resolve_src node unit p_leaf p_pair (p_zero zh) p_true zh).

Lemma ty_ok_uint w : ty_ok (TUint w) -> uint_width_ok w = true.
Proof. intros (Hwf & _). exact Hwf. Qed.

(* a source for which nothing is expected never makes the machine panic *)
Lemma resolve_src_any s want : src_fits vm WAny s ->
  tm_resolve tm s want = Err \/ exists n, tm_resolve tm s want = OK (n, tt).
Proof.
  intros Hfit. destruct s as [t v|h|].
  - destruct Hfit as [[Hok Hty] _].
    assert (Hf : src_fits vm (WTy t) (SLit t v)) by (cbn [src_fits]; auto).
    pose proof (resolve_src_ok H zh Hzh tm vm _ want t HR Hf) as Hres. cbn [v_src] in Hres.
    destruct Hres as (n & E & _). right. eauto.
  - cbn [resolve_src]. unfold get_handle. destruct (nth_error (m_handles node unit tm) h); cbn [bind].
    + right. destruct (m_store node unit tm). eauto.
    + left. reflexivity.
  - right. cbn [resolve_src]. unfold p_leaf. eauto.
Qed.

Lemma mut_set_vector e k a vs hk hk' h i s :
  ty_ok (TVector e k) -> has_type (VSeq vs) (TVector e k) = true ->
  repr zh (TVector e k) a (VSeq vs) ->
  src_fits vm (if is_basic_elem e then WLit e else WTy e) s ->
  mut_rel zh (TVector e k) (tm_mutate tm (mkH node (TVector e k) a hk) (OSet h i s))
          (v_mutate vm (mkVH (TVector e k) (VSeq vs) hk') (OSet h i s)).
Proof.
  intros Hok Hty Hr Hfit.
  destruct (ty_ok_vector _ _ Hok) as (Hoke & Hk1 & Hk).
  destruct (has_type_vector _ _ _ Hty) as [Hl Hf].
  destruct (is_basic_elem e) eqn:Eb.
  - destruct e; try discriminate Eb. rename w into w.
    destruct (fits_lit _ _ Hfit) as (v & -> & _ & Hv).
    pose proof (ty_ok_uint _ Hoke) as Hw.
    rewrite repr_vector in Hr. cbn [is_basic_elem] in Hr.
    unfold mut_rel, v_mutate. cbn [vh_ty vh_val v_src]. unfold v_slot_set, v_len.
    unfold mutate. cbn [h_ty h_back is_basic_elem lit_val bind]. rewrite Hl.
    destruct (N.leb_spec k i) as [Hi|Hi]; [reflexivity|].
    destruct (m_store node unit tm).
    destruct (tm_packed_set_ok zh Hz0' (TVector (TUint w) k) false _ a a w vs i v
                (geom_vector_uint w k Hw Hk) Hw Hf Hv Hr ltac:(lia)) as (c' & E & S).
    cbn [wrapn] in E. exists c'. split; [exact E|]. split.
    + rewrite repr_vector. cbn [is_basic_elem]. exact S.
    + apply has_type_vector_intro; [rewrite lenN_list_set; exact Hl|].
      apply forallb_list_set; assumption.
  - pose proof (resolve_src_ok H zh Hzh tm vm s (Some e) e HR Hfit) as Hres.
    unfold v_mutate. cbn [vh_ty vh_val].
    unfold mutate. cbn [h_ty h_back]. rewrite Eb.
    destruct (v_src vm s) as [[y|]|].
    + destruct Hres as (n & E & Rn & Hy). rewrite E. cbn [bind].
      apply (slot_set_ok (TVector e k) a (VSeq vs) i n y e Hok Hty Hr); auto.
      cbn [slot_ty]. rewrite Eb. reflexivity.
    + destruct Hres.
    + rewrite Hres. reflexivity.
Qed.

Lemma mut_set_list e k a vs hk hk' h i s :
  ty_ok (TList e k) -> has_type (VSeq vs) (TList e k) = true ->
  repr zh (TList e k) a (VSeq vs) ->
  src_fits vm (if is_basic_elem e then WLit e else WTy e) s ->
  mut_rel zh (TList e k) (tm_mutate tm (mkH node (TList e k) a hk) (OSet h i s))
          (v_mutate vm (mkVH (TList e k) (VSeq vs) hk') (OSet h i s)).
Proof.
  intros Hok Hty Hr Hfit.
  destruct (ty_ok_list _ _ Hok) as (Hoke & Hk).
  destruct (has_type_list _ _ _ Hty) as [Hl Hf].
  destruct (is_basic_elem e) eqn:Eb.
  - destruct e; try discriminate Eb.
    destruct (fits_lit _ _ Hfit) as (v & -> & _ & Hv).
    pose proof (ty_ok_uint _ Hoke) as Hw.
    rewrite repr_list in Hr. cbn [is_basic_elem] in Hr. destruct Hr as (c & -> & Hs).
    unfold mut_rel, v_mutate. cbn [vh_ty vh_val v_src]. unfold v_slot_set, v_len.
    unfold mutate. cbn [h_ty h_back is_basic_elem lit_val].
    destruct (m_store node unit tm).
    rewrite tm_check_index_ok by (cbn [list_limit]; lia).
    destruct (N.leb_spec (lenN vs) i) as [Hi|Hi]; [reflexivity|]. cbn [bind].
    destruct (tm_packed_set_ok zh Hz0' (TList (TUint w) k) true _ c (len_leaf (lenN vs)) w vs i v
                (geom_list_uint w k Hw Hk) Hw Hf Hv Hs Hi) as (c' & E & S).
    cbn [wrapn] in E. eexists. split; [exact E|]. split.
    + rewrite repr_list. cbn [is_basic_elem]. exists c'. rewrite lenN_list_set. split; [reflexivity|exact S].
    + apply has_type_list_intro; [rewrite lenN_list_set; exact Hl|].
      apply forallb_list_set; assumption.
  - pose proof (resolve_src_ok H zh Hzh tm vm s (Some e) e HR Hfit) as Hres.
    unfold v_mutate. cbn [vh_ty vh_val].
    unfold mutate. cbn [h_ty h_back]. rewrite Eb.
    destruct (v_src vm s) as [[y|]|].
    + destruct Hres as (n & E & Rn & Hy). rewrite E. cbn [bind].
      apply (slot_set_ok (TList e k) a (VSeq vs) i n y e Hok Hty Hr); auto.
      cbn [slot_ty]. rewrite Eb. reflexivity.
    + destruct Hres.
    + rewrite Hres. reflexivity.
Qed.

Lemma mut_set_container fs a vs hk hk' h i s :
  ty_ok (TContainer fs) -> has_type (VCont vs) (TContainer fs) = true ->
  repr zh (TContainer fs) a (VCont vs) ->
  src_fits vm (match nth_error fs (nat_of i) with Some f => WTy f | None => WAny end) s ->
  mut_rel zh (TContainer fs) (tm_mutate tm (mkH node (TContainer fs) a hk) (OSet h i s))
          (v_mutate vm (mkVH (TContainer fs) (VCont vs) hk') (OSet h i s)).
Proof.
  intros Hok Hty Hr Hfit.
  unfold v_mutate. cbn [vh_ty vh_val].
  unfold mutate. cbn [h_ty h_back].
  destruct (nth_error fs (nat_of i)) as [f|] eqn:Ef.
  - pose proof (resolve_src_ok H zh Hzh tm vm s None f HR Hfit) as Hres.
    destruct (v_src vm s) as [[y|]|].
    + destruct Hres as (n & E & Rn & Hy). rewrite E. cbn [bind].
      apply (slot_set_ok (TContainer fs) a (VCont vs) i n y f Hok Hty Hr); auto.
    + destruct Hres.
    + rewrite Hres. reflexivity.
  - destruct (slot_set_container_oob fs a (VCont vs) i) with (n := a) as [_ Hv]; [exact Hty|exact Ef|].
    assert (Hnone : match v_src vm s with Some (Some y) => v_slot_set (TContainer fs) (VCont vs) i y
                                     | _ => None end = None).
    { destruct (v_src vm s) as [[y|]|]; auto. }
    rewrite Hnone. unfold mut_rel.
    destruct (resolve_src_any s None Hfit) as [E|[n E]]; rewrite E; cbn [bind]; [reflexivity|].
    apply (slot_set_container_oob fs a (VCont vs) i n Hty Ef).
Qed.


Lemma mut_append_list e k a vs hk hk' h s :
  ty_ok (TList e k) -> has_type (VSeq vs) (TList e k) = true ->
  repr zh (TList e k) a (VSeq vs) ->
  src_fits vm (if is_basic_elem e then WLit e else WTy e) s ->
  mut_rel zh (TList e k) (tm_mutate tm (mkH node (TList e k) a hk) (OAppend h s))
          (v_mutate vm (mkVH (TList e k) (VSeq vs) hk') (OAppend h s)).
Proof.
  intros Hok Hty Hr Hfit.
  destruct (ty_ok_list _ _ Hok) as (Hoke & Hk).
  destruct (has_type_list _ _ _ Hty) as [Hl Hf].
  destruct (is_basic_elem e) eqn:Eb.
  - destruct e; try discriminate Eb.
    destruct (fits_lit _ _ Hfit) as (v & -> & _ & Hv).
    pose proof (ty_ok_uint _ Hoke) as Hw.
    rewrite repr_list in Hr. cbn [is_basic_elem] in Hr. destruct Hr as (c & -> & Hs).
    unfold mut_rel, v_mutate. cbn [vh_ty vh_val v_src].
    unfold mutate. cbn [h_ty h_back is_basic_elem lit_val bind].
    destruct (m_store node unit tm).
    pose proof (tm_basic_append_ok zh Hz0' (TList (TUint w) k) _ c w vs v k
                  (geom_list_uint w k Hw Hk) Hw Hf Hv Hs Hl ltac:(lia) (cap_uint w k Hw Hk)) as Hap.
    destruct (k <=? lenN vs) eqn:Efull; [exact Hap|].
    destruct Hap as (c' & E & S). eexists. split; [exact E|]. split.
    + rewrite repr_list. cbn [is_basic_elem]. exists c'. rewrite lenN_app', lenN_one.
      split; [reflexivity|exact S].
    + apply N.leb_gt in Efull. apply has_type_list_intro; [rewrite lenN_app', lenN_one; lia|].
      apply forallb_snoc; assumption.
  - pose proof (resolve_src_ok H zh Hzh tm vm s (Some e) e HR Hfit) as Hres.
    rewrite repr_list, Eb in Hr. destruct Hr as (c & -> & Hs).
    unfold mut_rel, v_mutate. cbn [vh_ty vh_val].
    unfold mutate. cbn [h_ty h_back]. rewrite Eb.
    destruct (v_src vm s) as [[y|]|].
    + destruct Hres as (n & E & Rn & Hy). rewrite E. cbn [bind].
      pose proof (tm_complex_append_ok zh (TList e k) _ c _ k n (fun m => repr zh e m y)
                    (geom_list_nb e k Eb Hk) Hs) as Hap.
      rewrite lenN_map in Hap. specialize (Hap Hl ltac:(lia) (cap_nb e k Eb Hk) Rn).
      destruct (k <=? lenN vs) eqn:Efull; [exact Hap|].
      destruct Hap as (c' & E' & S). eexists. split; [exact E'|]. split.
      * rewrite repr_list, Eb. exists c'. rewrite lenN_app', lenN_one. split; [reflexivity|].
        rewrite map_app. exact S.
      * apply N.leb_gt in Efull. apply has_type_list_intro; [rewrite lenN_app', lenN_one; lia|].
        apply forallb_snoc; assumption.
    + destruct Hres.
    + rewrite Hres. reflexivity.
Qed.

Lemma mut_pop_list e k a vs hk hk' h :
  ty_ok (TList e k) -> has_type (VSeq vs) (TList e k) = true ->
  repr zh (TList e k) a (VSeq vs) ->
  mut_rel zh (TList e k) (tm_mutate tm (mkH node (TList e k) a hk) (OPop h))
          (v_mutate vm (mkVH (TList e k) (VSeq vs) hk') (OPop h)).
Proof.
  intros Hok Hty Hr.
  destruct (ty_ok_list _ _ Hok) as (Hoke & Hk).
  destruct (has_type_list _ _ _ Hty) as [Hl Hf].
  unfold mut_rel, v_mutate. cbn [vh_ty vh_val].
  unfold mutate. cbn [h_ty h_back].
  destruct (m_store node unit tm).
  destruct (is_basic_elem e) eqn:Eb.
  - destruct e; try discriminate Eb.
    pose proof (ty_ok_uint _ Hoke) as Hw.
    rewrite repr_list in Hr. cbn [is_basic_elem] in Hr. destruct Hr as (c & -> & Hs).
    pose proof (tm_basic_pop_ok zh Hz0' (TList (TUint w) k) _ c w vs k
                  (geom_list_uint w k Hw Hk) Hw Hf Hs Hl ltac:(lia)) as Hp.
    destruct (lenN vs =? 0) eqn:Ez; [exact Hp|].
    destruct Hp as (c' & E & S). eexists. split; [exact E|]. split.
    + rewrite repr_list. cbn [is_basic_elem]. exists c'. rewrite lenN_removelast.
      split; [reflexivity|exact S].
    + apply has_type_list_intro; [rewrite lenN_removelast; lia|].
      apply forallb_removelast; assumption.
  - rewrite repr_list, Eb in Hr. destruct Hr as (c & -> & Hs).
    pose proof (tm_complex_pop_ok zh (TList e k) _ c _ k (geom_list_nb e k Eb Hk) Hs) as Hp.
    rewrite lenN_map in Hp. specialize (Hp Hl ltac:(lia)).
    destruct (lenN vs =? 0) eqn:Ez; [exact Hp|].
    destruct Hp as (c' & E & S). eexists. split; [exact E|]. split.
    + rewrite repr_list, Eb. exists c'. rewrite lenN_removelast. split; [reflexivity|].
      rewrite map_removelast. exact S.
    + apply has_type_list_intro; [rewrite lenN_removelast; lia|].
      apply forallb_removelast; assumption.
Qed.

(* ---- union ---- *)
Lemma union_opt_some none opts sel e : union_opt none opts sel = Some e ->
  none && (sel =? 0) = false /\
  nth_error opts (nat_of (if none then sel - 1 else sel)) = Some e.
Proof.
  unfold union_opt. destruct none; cbn [andb].
  - destruct (sel =? 0); [discriminate|]. auto.
  - auto.
Qed.

Lemma union_opt_none none opts sel : sel < union_count none opts ->
  union_opt none opts sel = None -> none = true /\ sel = 0.
Proof.
  unfold union_opt, union_count. intros Hlt Hn. destruct none.
  - destruct (N.eqb_spec sel 0) as [->|Hne]; [auto|].
    apply nth_error_None in Hn. unfold nat_of in Hn. lia.
  - apply nth_error_None in Hn. unfold nat_of in Hn. lia.
Qed.

Lemma mut_change_union none opts a sel0 ov hk hk' h sel s :
  ty_ok (TUnion none opts) ->
  src_fits vm (op_want (TUnion none opts) (OChange h sel s)) s ->
  mut_rel zh (TUnion none opts) (tm_mutate tm (mkH node (TUnion none opts) a hk) (OChange h sel s))
          (v_mutate vm (mkVH (TUnion none opts) (VUnion sel0 ov) hk') (OChange h sel s)).
Proof.
  intros Hok Hfit.
  destruct (ty_ok_union _ _ Hok) as (Hc & Hopts).
  unfold v_mutate. cbn [vh_ty vh_val].
  unfold mutate. cbn [h_ty h_back]. cbn [op_want] in Hfit.
  replace (wrap8 (union_count none opts)) with (union_count none opts) by (unfold wrap8; lia).
  destruct (N.leb_spec (union_count none opts) sel) as [Hsel|Hsel]; [reflexivity|].
  destruct (union_opt none opts sel) as [e|] eqn:Eo.
  - destruct (union_opt_some _ _ _ _ Eo) as [Hns He].
    pose proof (resolve_src_ok H zh Hzh tm vm s None e HR Hfit) as Hres.
    assert (Hs : match s with
                 | SNone => if negb (sel =? 0) then Err else tm_resolve tm s None
                 | _ => tm_resolve tm s None end = tm_resolve tm s None).
    { destruct s; try reflexivity. destruct Hfit. }
    rewrite Hs.
    destruct (v_src vm s) as [[y|]|].
    + destruct Hres as (n & E & Rn & Hy). rewrite E. cbn [bind p_leaf p_pair].
      eexists. split; [reflexivity|]. split.
      * rewrite repr_union. eexists. split; [reflexivity|].
        rewrite rpick_nth_error, He. exact Rn.
      * rewrite has_type_union, Hns, rpick_nth_error, He. exact Hy.
    + destruct Hres.
    + rewrite Hres. reflexivity.
  - destruct (union_opt_none _ _ _ Hsel Eo) as [-> ->].
    destruct s as [t v|h'|]; cbn [src_fits] in Hfit; try tauto.
    cbn [v_src negb N.eqb resolve_src p_leaf bind p_pair].
    eexists. split; [reflexivity|]. split.
    + rewrite repr_union. eexists. split; reflexivity.
    + rewrite has_type_union. reflexivity.
Qed.


(* ---- every mutation, every type ---- *)
Theorem mutate_ok x y o : hrel zh x y ->
  (forall h s, op_src o = Some (h, s) -> src_fits vm (op_want (vh_ty y) o) s) ->
  mut_rel zh (vh_ty y) (tm_mutate tm x o) (v_mutate vm y o).
Proof.
  destruct x as [t a hk], y as [t' v hk']. intros (Ht & Hhk & Hok & Hty & Hr) Hfit.
  cbn [h_ty h_hook h_back vh_ty vh_hook vh_val] in *. subst t' hk'.
  destruct o as [h i|h|h|h i s|h s|h|h sel s]; cbn [op_src] in Hfit.
  - destruct t; reflexivity.
  - destruct t; reflexivity.
  - destruct t; reflexivity.
  - specialize (Hfit h s eq_refl).
    destruct t; try reflexivity.
    + destruct v; try discriminate Hty. apply mut_set_bitvector; assumption.
    + destruct v; try discriminate Hty. apply mut_set_bitlist; assumption.
    + destruct v; try discriminate Hty. apply mut_set_vector; assumption.
    + destruct v; try discriminate Hty. apply mut_set_list; assumption.
    + destruct v; try discriminate Hty. apply mut_set_container; assumption.
  - specialize (Hfit h s eq_refl).
    destruct t; try reflexivity.
    + destruct v; try discriminate Hty. apply mut_append_bitlist; assumption.
    + destruct v; try discriminate Hty. apply mut_append_list; assumption.
  - destruct t; try reflexivity.
    + destruct v; try discriminate Hty. apply mut_pop_bitlist; assumption.
    + destruct v; try discriminate Hty. apply mut_pop_list; assumption.
  - specialize (Hfit h s eq_refl).
    destruct t; try reflexivity.
    destruct v; try discriminate Hty. apply mut_change_union; assumption.
Qed.

(* no mutation can panic; an error leaves no trace (the new backing is only installed on OK) *)
Corollary mutate_no_panic x y o : hrel zh x y ->
  (forall h s, op_src o = Some (h, s) -> src_fits vm (op_want (vh_ty y) o) s) ->
  tm_mutate tm x o <> Panic.
Proof.
  intros Hxy Hfit. pose proof (mutate_ok x y o Hxy Hfit) as Hm. unfold mut_rel in Hm.
  destruct (v_mutate vm y o); [destruct Hm as (n & -> & _)|rewrite Hm]; discriminate.
Qed.

End Mutate.

(* ==================================================================================== *)
(** * Part F. Hooks, steps, histories *)
(* ==================================================================================== *)

(* ---- list_set and nth_error ---- *)
Lemma nth_error_list_set_eq {A} : forall (l : list A) i x, (i < length l)%nat ->
  nth_error (list_set l i x) i = Some x.
Proof.
  induction l as [|y l IH]; intros [|i] x Hi; cbn [length] in Hi; try lia; cbn [list_set nth_error]; auto.
  apply IH. lia.
Qed.

Lemma nth_error_list_set_neq {A} : forall (l : list A) i j x, i <> j ->
  nth_error (list_set l i x) j = nth_error l j.
Proof.
  induction l as [|y l IH]; intros [|i] [|j] x Hne; cbn [list_set nth_error]; auto; try lia.
Qed.

Lemma Forall2_list_set {A B} (P : A -> B -> Prop) : forall l1 l2 i x y,
  Forall2 P l1 l2 -> P x y -> Forall2 P (list_set l1 i x) (list_set l2 i y).
Proof.
  intros l1 l2 i x y HF Hxy. revert i. induction HF as [|a b l1 l2 Hab HF IH]; intros [|i];
    cbn [list_set]; constructor; auto.
Qed.

(* the hook structure of a VM state: types and hooks, not values *)
Definition shape (vm : vstate) : list (ty * option (nat * N)) :=
  map (fun y => (vh_ty y, vh_hook y)) vm.

Lemma shape_nth vm vm' k y : shape vm = shape vm' -> nth_error vm k = Some y ->
  exists y', nth_error vm' k = Some y' /\ vh_ty y' = vh_ty y /\ vh_hook y' = vh_hook y.
Proof.
  intros Hs Hk. apply (f_equal (fun l => nth_error l k)) in Hs. unfold shape in Hs.
  rewrite !nth_error_map, Hk in Hs. cbn [option_map] in Hs.
  destruct (nth_error vm' k) as [y'|]; [|discriminate]. cbn [option_map] in Hs.
  injection Hs as E1 E2. eauto.
Qed.

Lemma hooks_ok_shape vm vm' : shape vm = shape vm' -> hooks_ok vm -> hooks_ok vm'.
Proof.
  intros Hs Hh k y' p i Hk Hhook.
  destruct (shape_nth vm' vm k y' (eq_sym Hs) Hk) as (y & Ey & Ety & Ehk).
  destruct (Hh k y p i Ey ltac:(congruence)) as (Hlt & py & Epy & Hslot).
  split; [exact Hlt|].
  destruct (shape_nth vm vm' p py Hs Epy) as (py' & Epy' & Ety' & _).
  exists py'. split; [exact Epy'|]. congruence.
Qed.

Lemma shape_put vm h v : shape (v_put vm h v) = shape vm.
Proof.
  unfold v_put. destruct (nth_error vm h) as [y|] eqn:Ey; [|reflexivity].
  unfold shape. rewrite map_list_set. cbn [vh_ty vh_hook].
  apply nth_error_split in Ey. destruct Ey as (l1 & l2 & -> & <-).
  rewrite map_app. cbn [map]. rewrite list_set_app_ge by (rewrite map_length; lia).
  rewrite map_length, Nat.sub_diag. reflexivity.
Qed.

Lemma v_put_length vm h v : length (v_put vm h v) = length vm.
Proof.
  pose proof (f_equal (@length _) (shape_put vm h v)) as E. unfold shape in E.
  rewrite !map_length in E. exact E.
Qed.

Section Machine.
Variable H : chunk -> chunk -> chunk.
Variable zh : nat -> chunk.
Hypothesis Hzh : forall d, zh d = zero_hash H d.

Notation tm_backing := (set_backing node unit p_get (p_set zh) p_chunk).
Notation tm_mutate := (mutate node unit p_get (p_set zh) p_leaf p_pair p_chunk (p_zero zh) p_true zh).

(* installing a new backing / a new value in handle h *)
Lemma R_put tm vm h y b v :
  R zh tm vm -> nth_error vm h = Some y -> repr zh (vh_ty y) b v -> has_type v (vh_ty y) = true ->
  R zh (put_back node unit tm h b tt) (v_put vm h v) /\
  exists x', nth_error (m_handles node unit (put_back node unit tm h b tt)) h = Some x' /\
             h_ty node x' = vh_ty y /\ h_hook node x' = vh_hook y /\ h_back node x' = b /\
             nth_error (v_put vm h v) h = Some (mkVH (vh_ty y) v (vh_hook y)).
Proof.
  intros [HF Hh] Ey Hr Hty.
  destruct (Forall2_nth_r _ _ _ _ _ HF Ey) as (x & Ex & Hxy).
  pose proof Hxy as (Et & Ehk & Hok & _ & _).
  unfold put_back, v_put. rewrite Ex, Ey. cbn [m_handles].
  split.
  - split.
    + cbn [m_handles]. apply Forall2_list_set; [exact HF|].
      unfold hrel. cbn [h_ty h_hook h_back vh_ty vh_hook vh_val]. auto.
    + apply (hooks_ok_shape vm); [|exact Hh].
      pose proof (shape_put vm h v) as E. unfold v_put in E. rewrite Ey in E. symmetry. exact E.
  - eexists. split.
    + apply nth_error_list_set_eq. eapply nth_error_lt. exact Ex.
    + cbn [h_ty h_hook h_back]. repeat split; auto.
      apply nth_error_list_set_eq. eapply nth_error_lt. exact Ey.
Qed.

(* BackingHook propagation = write-back of the plain value, also when it fails half-way *)
Theorem backing_ok : forall fuel tm vm h y b v,
  R zh tm vm -> (h < fuel)%nat -> nth_error vm h = Some y ->
  repr zh (vh_ty y) b v -> has_type v (vh_ty y) = true ->
  R zh (fst (tm_backing fuel tm h b tt)) (fst (v_write_back fuel vm h v)) /\
  back_rel (snd (tm_backing fuel tm h b tt)) (snd (v_write_back fuel vm h v)) /\
  shape (fst (v_write_back fuel vm h v)) = shape vm.
Proof.
  induction fuel as [|f IH]; intros tm vm h y b v HR Hlt Ey Hr Hty; [lia|].
  destruct (R_put tm vm h y b v HR Ey Hr Hty) as (HR1 & x' & Ex' & Et' & Ehk' & Eb' & Ey').
  pose proof (shape_put vm h v) as Hshape.
  cbn [set_backing v_write_back].
  set (tm1 := put_back node unit tm h b tt) in *. set (vm1 := v_put vm h v) in *.
  rewrite Ex', Ey'. rewrite Ehk'. cbn [vh_hook].
  destruct (vh_hook y) as [[p i]|] eqn:Ehook.
  - destruct HR1 as [HF1 Hh1].
    destruct (Hh1 h _ p i Ey' eq_refl) as (Hp & py & Epy & Hslot). cbn [vh_ty] in Hslot.
    destruct (Forall2_nth_r _ _ _ _ _ HF1 Epy) as (px & Epx & Hpxy).
    rewrite Epx, Epy. destruct Hpxy as (Etp & _ & Hokp & Htyp & Hrp). rewrite Etp.
    destruct (m_store node unit tm1).
    pose proof (slot_set_ok zh (vh_ty py) (h_back node px) (vh_val py) i b v (vh_ty y)
                  Hokp Htyp Hrp Hslot Hr Hty) as Hm. unfold mut_rel in Hm.
    destruct (v_slot_set (vh_ty py) (vh_val py) i v) as [pv|].
    + destruct Hm as (pb & -> & Rpb & Hpv).
      destruct (IH tm1 vm1 p py pb pv (conj HF1 Hh1) ltac:(lia) Epy Rpb Hpv) as (HR2 & Hb2 & Hs2).
      split; [exact HR2|]. split; [exact Hb2|]. congruence.
    + rewrite Hm. cbn [fst snd]. split; [exact (conj HF1 Hh1)|]. split; [right; auto|exact Hshape].
  - cbn [fst snd]. split; [exact HR1|]. split; [left; auto|exact Hshape].
Qed.


Corollary backing_sim fuel tm vm h y b v :
  R zh tm vm -> (h < fuel)%nat -> nth_error vm h = Some y ->
  repr zh (vh_ty y) b v -> has_type v (vh_ty y) = true ->
  R zh (fst (tm_backing fuel tm h b tt)) (fst (v_write_back fuel vm h v)) /\
  back_rel (snd (tm_backing fuel tm h b tt)) (snd (v_write_back fuel vm h v)).
Proof.
  intros HR Hlt Ey Hr Hty. destruct (backing_ok fuel tm vm h y b v HR Hlt Ey Hr Hty) as (A & B & _).
  split; assumption.
Qed.

(* ---- pushing a new handle ---- *)
Lemma R_push tm vm x y : R zh tm vm -> hrel zh x y ->
  (forall p i, vh_hook y = Some (p, i) ->
     exists py, nth_error vm p = Some py /\ slot_ty (vh_ty py) i = Some (vh_ty y)) ->
  R zh (fst (push_handle node unit tm x)) (vm ++ [y]) /\
  snd (push_handle node unit tm x) = length vm.
Proof.
  intros [HF Hh] Hxy Hhook. unfold push_handle. cbn [fst snd m_handles]. split.
  - split.
    + cbn [m_handles]. apply Forall2_app; [exact HF|]. constructor; [exact Hxy|constructor].
    + intros k y' p i Hk Hk'.
      destruct (Nat.lt_ge_cases k (length vm)) as [Hlt|Hge].
      * rewrite nth_error_app1 in Hk by exact Hlt.
        destruct (Hh k y' p i Hk Hk') as (Hp & py & Epy & Hslot). split; [exact Hp|].
        exists py. split; [|exact Hslot]. rewrite nth_error_app1; [exact Epy|]. eapply nth_error_lt; eauto.
      * pose proof (nth_error_lt _ _ _ Hk) as Hlen. rewrite app_length in Hlen. cbn [length] in Hlen.
        assert (k = length vm) by lia. subst k.
        rewrite nth_error_app2, Nat.sub_diag in Hk by lia. cbn [nth_error] in Hk. injection Hk as <-.
        destruct (Hhook p i Hk') as (py & Epy & Hslot).
        pose proof (nth_error_lt _ _ _ Epy) as Hp. split; [exact Hp|].
        exists py. split; [|exact Hslot]. rewrite nth_error_app1; [exact Epy|exact Hp].
  - apply (Forall2_length' _ _ _ HF).
Qed.

Lemma get_handle_rel tm vm h : R zh tm vm ->
  match v_get vm h with
  | Some y => exists x, get_handle node unit tm h = OK x /\ hrel zh x y
  | None => get_handle node unit tm h = Err
  end.
Proof.
  intros [HF _]. unfold v_get, get_handle. destruct (nth_error vm h) as [y|] eqn:Ey.
  - destruct (Forall2_nth_r _ _ _ _ _ HF Ey) as (x & Ex & Hxy). rewrite Ex. eauto.
  - rewrite (proj2 (Forall2_nth_none _ _ _ h HF) Ey). reflexivity.
Qed.

(* ---- typed Get of a composite element ---- *)
Definition tm_elem_ty (t : ty) (a : node) (i : N) : option ty :=
  match t with
  | TVector e k => if is_basic_elem e || (k <=? i) then None else Some e
  | TList e _ =>
    if is_basic_elem e then None
    else match m_check_index node unit p_get p_chunk t tt a i with OK _ => Some e | _ => None end
  | TContainer fs => nth_error fs (nat_of i)
  | _ => None
  end.

Lemma get_ok t a v i : ty_ok t -> has_type v t = true -> repr zh t a v ->
  match slot_ty t i, v_slot_get t v i with
  | Some e, Some y =>
    tm_elem_ty t a i = Some e /\
    exists c, m_get_node node unit p_get t tt a i = OK c /\
              repr zh e c y /\ has_type y e = true /\ ty_ok e
  | _, _ => tm_elem_ty t a i = None
  end.
Proof.
  intros Hok Hty Hr. destruct t; try reflexivity.
  - (* vector *)
    destruct (has_type_seq v t n (or_introl Hty)) as [vs ->].
    destruct (ty_ok_vector _ _ Hok) as (Hoke & Hk1 & Hk).
    destruct (has_type_vector _ _ _ Hty) as [Hl Hf].
    cbn [slot_ty tm_elem_ty]. unfold v_slot_get, v_len. cbn [seq_vals]. rewrite Hl.
    destruct (is_basic_elem t) eqn:Eb; [reflexivity|]. cbn [orb].
    destruct (N.leb_spec n i) as [Hi|Hi]; [reflexivity|].
    destruct (nth_error_ex vs (nat_of i)) as [y Ey]; [unfold lenN, nat_of in *; lia|].
    rewrite Ey. split; [reflexivity|].
    rewrite repr_vector, Eb in Hr.
    destruct (read_slot zh (TVector t n) false _ a a _ i (geom_vector_nb t n Eb Hk) Hr) as (c & E & Hn).
    { rewrite lenN_map. lia. }
    cbn [wrapn] in E. exists c. split; [exact E|]. split; [|split].
    + eapply elems_repr_nth; eauto.
    + exact (forallb_nth_error (fun x => has_type x t) vs _ y Hf Ey).
    + exact Hoke.
  - (* list *)
    destruct (has_type_seq v t n (or_intror Hty)) as [vs ->].
    destruct (ty_ok_list _ _ Hok) as (Hoke & Hk).
    destruct (has_type_list _ _ _ Hty) as [Hl Hf].
    cbn [slot_ty tm_elem_ty]. unfold v_slot_get, v_len. cbn [seq_vals].
    destruct (is_basic_elem t) eqn:Eb; [reflexivity|].
    rewrite repr_list, Eb in Hr. destruct Hr as (c0 & -> & Hs).
    rewrite tm_check_index_ok by (cbn [list_limit]; lia).
    destruct (N.leb_spec (lenN vs) i) as [Hi|Hi]; [reflexivity|].
    destruct (nth_error_ex vs (nat_of i)) as [y Ey]; [unfold lenN, nat_of in *; lia|].
    rewrite Ey. split; [reflexivity|].
    destruct (read_slot zh (TList t n) true _ c0 (len_leaf (lenN vs)) _ i (geom_list_nb t n Eb Hk) Hs)
      as (c & E & Hn).
    { rewrite lenN_map. lia. }
    cbn [wrapn] in E. exists c. split; [exact E|]. split; [|split].
    + eapply elems_repr_nth; eauto.
    + exact (forallb_nth_error (fun x => has_type x t) vs _ y Hf Ey).
    + exact Hoke.
  - (* container *)
    destruct v; try discriminate Hty. rewrite has_type_cont in Hty. rewrite repr_cont in Hr.
    destruct (ty_ok_container _ Hok) as (Hn63 & Hfs).
    pose proof (rfields_ty_length _ _ Hty) as Hlen.
    cbn [slot_ty tm_elem_ty]. unfold v_slot_get, v_len. cbn [seq_vals].
    destruct (nth_error fs (nat_of i)) as [f|] eqn:Ef; [|reflexivity].
    pose proof (nth_error_lt _ _ _ Ef) as Hlt.
    rewrite (proj2 (N.leb_gt (lenN vs) i)) by (unfold lenN, nat_of in *; lia).
    destruct (nth_error_ex vs (nat_of i)) as [y Ey]; [lia|].
    rewrite Ey. split; [reflexivity|].
    destruct (read_slot zh (TContainer fs) false _ a a _ i (geom_container fs Hn63) Hr) as (c & E & Hn).
    { unfold lenN. rewrite rfields_repr_length by exact Hlen. unfold nat_of in Hlt. lia. }
    cbn [wrapn] in E. exists c. split; [exact E|]. split; [|split].
    + eapply rfields_repr_nth; eauto.
    + eapply rfields_ty_nth; eauto.
    + eapply Hfs; eauto.
Qed.


(* ---- UnionView.Value ---- *)
Definition tm_uvalue (none : bool) (opts : list ty) (a : node) : res (option ty * node) :=
  do r <- p_get tt a 3; do s <- p_chunk tt r;
  if negb (forallb (fun b => N_of_byte b =? 0) (tl s)) then Err else
  let sel := N_of_byte (hd b0 s) in
  if wrap8 (union_count none opts) <=? sel then Err else
  do c <- p_get tt a 2;
  OK (union_opt none opts sel, c).

Lemma has_type_union_sel none opts sel ov :
  has_type (VUnion sel ov) (TUnion none opts) = true -> sel < union_count none opts.
Proof.
  rewrite has_type_union. unfold union_count.
  destruct none; cbn [andb].
  - destruct (N.eqb_spec sel 0) as [->|Hne]; [lia|].
    rewrite rpick_nth_error. destruct (nth_error opts (nat_of (sel - 1))) eqn:E; [|discriminate].
    intros _. apply nth_error_lt in E. unfold nat_of in E. lia.
  - rewrite rpick_nth_error. destruct (nth_error opts (nat_of sel)) eqn:E; [|discriminate].
    intros _. apply nth_error_lt in E. unfold nat_of in E. lia.
Qed.

Lemma sel_chunk sel : pad32 [byte_of_N sel] = byte_of_N sel :: repeat b0 31.
Proof. reflexivity. Qed.

Lemma uvalue_ok none opts a sel ov :
  ty_ok (TUnion none opts) -> has_type (VUnion sel ov) (TUnion none opts) = true ->
  repr zh (TUnion none opts) a (VUnion sel ov) ->
  exists c, tm_uvalue none opts a = OK (union_opt none opts sel, c) /\
    match union_opt none opts sel, ov with
    | None, _ => True
    | Some o, Some y => repr zh o c y /\ has_type y o = true /\ ty_ok o
    | Some _, None => False
    end.
Proof.
  intros Hok Hty Hr.
  destruct (ty_ok_union _ _ Hok) as (Hc & Hopts).
  pose proof (has_type_union_sel _ _ _ _ Hty) as Hsel.
  rewrite repr_union in Hr. destruct Hr as (c & -> & Hc').
  exists c. split.
  - unfold tm_uvalue, p_get, getter. rewrite g_path_3, g_path_2.
    rewrite !get_path_pair, !get_path_nil. cbn [bind p_chunk leaf_chunk].
    rewrite sel_chunk. cbn [tl hd].
    assert (Hz : forallb (fun b => N_of_byte b =? 0) (repeat b0 31) = true) by (vm_compute; reflexivity).
    rewrite Hz. cbn [negb].
    rewrite N_of_byte_of_N, (N.mod_small sel 256) by lia.
    replace (wrap8 (union_count none opts)) with (union_count none opts) by (unfold wrap8; lia).
    rewrite (proj2 (N.leb_gt _ _) Hsel). reflexivity.
  - destruct (union_opt none opts sel) as [o|] eqn:Eo; [|exact I].
    destruct (union_opt_some _ _ _ _ Eo) as [Hns He].
    rewrite has_type_union, Hns, rpick_nth_error, He in Hty.
    destruct ov as [y|]; [|discriminate Hty].
    rewrite rpick_nth_error, He in Hc'. split; [exact Hc'|]. split; [exact Hty|].
    eapply Hopts; eauto.
Qed.

(* ---- one step ---- *)
Lemma tm_step_get tm h i :
  tm_step zh tm (OGet h i) =
  match get_handle node unit tm h with
  | OK x =>
    match tm_elem_ty (h_ty node x) (h_back node x) i with
    | None => (tm, Err)
    | Some e =>
      match m_get_node node unit p_get (h_ty node x) tt (h_back node x) i with
      | OK c => let '(st1, k) := push_handle node unit tm (mkH node e c (Some (h, i))) in (st1, OK (MHandle k))
      | Err => (tm, Err)
      | Panic => (tm, Panic)
      end
    end
  | Err => (tm, Err) | Panic => (tm, Panic)
  end.
Proof.
  unfold tm_step, step, tm_elem_ty. destruct (get_handle node unit tm h) as [x| |]; reflexivity.
Qed.

Lemma tm_step_uvalue tm h :
  tm_step zh tm (OUValue h) =
  match get_handle node unit tm h with
  | OK x =>
    match h_ty node x with
    | TUnion none opts =>
      match tm_uvalue none opts (h_back node x) with
      | OK (None, _) => (tm, OK MNoneValue)
      | OK (Some o, c) => let '(st1, k) := push_handle node unit tm (mkH node o c None) in (st1, OK (MHandle k))
      | Err => (tm, Err) | Panic => (tm, Panic)
      end
    | _ => (tm, Err)
    end
  | Err => (tm, Err) | Panic => (tm, Panic)
  end.
Proof.
  unfold tm_step, step, tm_uvalue. destruct (get_handle node unit tm h) as [x| |]; reflexivity.
Qed.

Lemma tm_step_mut tm o : is_mut o = true ->
  tm_step zh tm o =
  match get_handle node unit tm (op_handle o) with
  | OK x =>
    match tm_mutate tm x o with
    | OK (b, s') =>
      let '(st1, r) := tm_backing (hook_fuel node unit tm) tm (op_handle o) b s' in
      (st1, match r with OK _ => OK MUnit | Err => Err | Panic => Panic end)
    | Err => (tm, Err)
    | Panic => (tm, Panic)
    end
  | Err => (tm, Err) | Panic => (tm, Panic)
  end.
Proof. destruct o; try discriminate; intros _; reflexivity. Qed.

Lemma v_step_mut vm o : is_mut o = true ->
  v_step vm o =
  match v_get vm (op_handle o) with
  | Some x =>
    match v_mutate vm x o with
    | Some v' => let '(st1, ok) := v_write_back (S (length vm)) vm (op_handle o) v' in
                 (st1, if ok then Some VUnit else None)
    | None => (vm, None)
    end
  | None => (vm, None)
  end.
Proof. destruct o; try discriminate; intros _; reflexivity. Qed.

Theorem step_ok tm vm o : R zh tm vm -> src_ok vm o ->
  R zh (fst (tm_step zh tm o)) (fst (v_step vm o)) /\
  out_rel (snd (tm_step zh tm o)) (snd (v_step vm o)).
Proof.
  intros HR Hsrc.
  destruct (is_mut o) eqn:Emut.
  - (* mutations *)
    rewrite (tm_step_mut tm o Emut), (v_step_mut vm o Emut).
    pose proof (get_handle_rel tm vm (op_handle o) HR) as Hg.
    destruct (v_get vm (op_handle o)) as [y|] eqn:Ey.
    + destruct Hg as (x & -> & Hxy).
      assert (Hfit : forall h s, op_src o = Some (h, s) -> src_fits vm (op_want (vh_ty y) o) s).
      { intros h s Eo. unfold src_ok in Hsrc. rewrite Eo in Hsrc. apply Hsrc.
        destruct o; try discriminate; cbn [op_src] in Eo; injection Eo as <- <-; exact Ey. }
      pose proof (mutate_ok H zh Hzh tm vm HR x y o Hxy Hfit) as Hm. unfold mut_rel in Hm.
      destruct (v_mutate vm y o) as [v'|].
      * destruct Hm as (b & -> & Rb & Hv').
        assert (Hlen : length (m_handles node unit tm) = length vm)
          by (destruct HR as [HF _]; apply (Forall2_length' _ _ _ HF)).
        unfold hook_fuel. rewrite Hlen.
        destruct (backing_ok (S (length vm)) tm vm (op_handle o) y b v' HR) as (HR' & Hb & _); auto.
        { unfold v_get in Ey. apply nth_error_lt in Ey. lia. }
        destruct (tm_backing (S (length vm)) tm (op_handle o) b tt) as [tm' r].
        destruct (v_write_back (S (length vm)) vm (op_handle o) v') as [vm' ok].
        cbn [fst snd] in *. split; [exact HR'|].
        destruct Hb as [[-> ->]|[-> ->]]; exact I.
      * rewrite Hm. cbn [fst snd]. split; [exact HR|exact I].
    + rewrite Hg. cbn [fst snd]. split; [exact HR|exact I].
  - destruct o as [h i|h|h|h i s|h s|h|h sel s]; try discriminate Emut.
    + (* typed Get *)
      rewrite tm_step_get. cbn [v_step].
      pose proof (get_handle_rel tm vm h HR) as Hg.
      destruct (v_get vm h) as [y|] eqn:Ey.
      * destruct Hg as (x & -> & Hxy). pose proof Hxy as (Et & Ehk & Hok & Hty & Hr).
        rewrite Et.
        pose proof (get_ok (vh_ty y) (h_back node x) (vh_val y) i Hok Hty Hr) as Hget.
        destruct (slot_ty (vh_ty y) i) as [e|] eqn:Eslot.
        -- destruct (v_slot_get (vh_ty y) (vh_val y) i) as [v|].
           ++ destruct Hget as (-> & c & -> & Rc & Hv & Hoke).
              destruct (R_push tm vm (mkH node e c (Some (h, i))) (mkVH e v (Some (h, i))) HR)
                as (HR' & Ek).
              { unfold hrel. cbn [h_ty h_hook h_back vh_ty vh_hook vh_val]. auto. }
              { cbn [vh_hook vh_ty]. intros p j Ep. injection Ep as <- <-. exists y. split; [exact Ey|exact Eslot]. }
              destruct (push_handle node unit tm (mkH node e c (Some (h, i)))) as [tm' k].
              cbn [fst snd] in *. split; [exact HR'|]. exact Ek.
           ++ rewrite Hget. cbn [fst snd]. split; [exact HR|exact I].
        -- rewrite Hget. cbn [fst snd]. split; [exact HR|exact I].
      * rewrite Hg. cbn [fst snd]. split; [exact HR|exact I].
    + (* union value *)
      rewrite tm_step_uvalue. cbn [v_step].
      pose proof (get_handle_rel tm vm h HR) as Hg.
      destruct (v_get vm h) as [y|] eqn:Ey.
      * destruct Hg as (x & -> & Hxy). pose proof Hxy as (Et & Ehk & Hok & Hty & Hr).
        rewrite Et.
        destruct (vh_ty y) as [| | | | | | | | |none opts] eqn:Ety; try (cbn [fst snd]; split; [exact HR|exact I]).
        destruct (vh_val y) as [| | | | | |sel ov] eqn:Ev; try discriminate Hty.
        destruct (uvalue_ok none opts (h_back node x) sel ov Hok Hty Hr) as (c & -> & Hu).
        destruct (union_opt none opts sel) as [o|].
        -- destruct ov as [v|]; [|destruct Hu].
           destruct Hu as (Rc & Hv & Hoko).
           destruct (R_push tm vm (mkH node o c None) (mkVH o v None) HR) as (HR' & Ek).
           { unfold hrel. cbn [h_ty h_hook h_back vh_ty vh_hook vh_val]. auto. }
           { cbn [vh_hook]. intros p j Ep. discriminate Ep. }
           destruct (push_handle node unit tm (mkH node o c None)) as [tm' k].
           cbn [fst snd] in *. split; [exact HR'|]. exact Ek.
        -- cbn [fst snd]. split; [exact HR|exact I].
      * rewrite Hg. cbn [fst snd]. split; [exact HR|exact I].
    + (* copy *)
      unfold tm_step, step. cbn [v_step].
      pose proof (get_handle_rel tm vm h HR) as Hg.
      destruct (v_get vm h) as [y|] eqn:Ey.
      * destruct Hg as (x & -> & Hxy). pose proof Hxy as (Et & Ehk & Hok & Hty & Hr).
        destruct (R_push tm vm (mkH node (h_ty node x) (h_back node x) None)
                    (mkVH (vh_ty y) (vh_val y) None) HR) as (HR' & Ek).
        { unfold hrel. cbn [h_ty h_hook h_back vh_ty vh_hook vh_val]. auto. }
        { cbn [vh_hook]. intros p j Ep. discriminate Ep. }
        destruct (push_handle node unit tm (mkH node (h_ty node x) (h_back node x) None)) as [tm' k].
        cbn [fst snd] in *. split; [exact HR'|]. exact Ek.
      * rewrite Hg. cbn [fst snd]. split; [exact HR|exact I].
Qed.

End Machine.

(* ==================================================================================== *)
(** * Part G. Histories, observations, errors; examples *)
(* ==================================================================================== *)

Section Machine.
Variable H : chunk -> chunk -> chunk.
Variable zh : nat -> chunk.
Hypothesis Hzh : forall d, zh d = zero_hash H d.

Notation tm_mutate := (mutate node unit p_get (p_set zh) p_leaf p_pair p_chunk (p_zero zh) p_true zh).

Theorem step_ok_eq tm vm o tm' r vm' r' : R zh tm vm -> src_ok vm o ->
  tm_step zh tm o = (tm', r) -> v_step vm o = (vm', r') ->
  R zh tm' vm' /\ out_rel r r' /\ r <> Panic.
Proof.
  intros HR Hs Et Ev. pose proof (step_ok H zh Hzh tm vm o HR Hs) as [HR' Ho].
  rewrite Et, Ev in *. cbn [fst snd] in *. split; [exact HR'|]. split; [exact Ho|].
  intros ->. destruct r'; exact Ho.
Qed.

Theorem history_ok : forall os tm vm, R zh tm vm -> srcs_ok vm os ->
  R zh (tm_run zh tm os) (v_run vm os) /\
  Forall2 out_rel (tm_trace zh tm os) (v_trace vm os).
Proof.
  induction os as [|o os IH]; intros tm vm HR Hs.
  - split; [exact HR|constructor].
  - destruct Hs as [Ho Hs]. destruct (step_ok H zh Hzh tm vm o HR Ho) as [HR' Hout].
    destruct (IH _ _ HR' Hs) as [HR'' Htr].
    split; [exact HR''|]. cbn [tm_trace v_trace]. constructor; assumption.
Qed.

(* the initial states *)
Lemma R_init t n v : ty_ok t -> has_type v t = true -> repr zh t n v ->
  R zh (tm_init t n) (v_init t v).
Proof.
  intros Hok Hty Hr. split.
  - cbn [tm_init m_handles v_init]. constructor; [|constructor].
    unfold hrel. cbn [h_ty h_hook h_back vh_ty vh_hook vh_val]. auto.
  - intros k y p i Hk Hhook. destruct k as [|k]; cbn [v_init nth_error] in Hk.
    + injection Hk as <-. discriminate Hhook.
    + destruct k; discriminate Hk.
Qed.

(* ---- observations on related states ---- *)
Theorem observe_root tm vm k x y : R zh tm vm ->
  nth_error (m_handles node unit tm) k = Some x -> nth_error vm k = Some y ->
  no_bool_seq (vh_ty y) = true ->
  h_ty node x = vh_ty y /\ root_of H (h_back node x) = spec_htr H (vh_ty y) (vh_val y).
Proof.
  intros [HF _] Ex Ey Hnb.
  destruct (Forall2_nth_l _ _ _ _ _ HF Ex) as (y' & Ey' & Hxy).
  rewrite Ey in Ey'. injection Ey' as <-.
  destruct Hxy as (Et & _ & (Hwf & Hsp & _) & Hty & Hr).
  split; [exact Et|]. apply (repr_root H zh Hzh); assumption.
Qed.

Theorem observe_length tm vm k x y : R zh tm vm ->
  nth_error (m_handles node unit tm) k = Some x -> nth_error vm k = Some y ->
  is_list_ty (vh_ty y) = true ->
  list_length (list_limit (vh_ty y)) (h_back node x) = OK (v_len (vh_ty y) (vh_val y)).
Proof.
  intros [HF _] Ex Ey Hl.
  destruct (Forall2_nth_l _ _ _ _ _ HF Ex) as (y' & Ey' & Hxy).
  rewrite Ey in Ey'. injection Ey' as <-.
  destruct Hxy as (Et & _ & Hok & Hty & Hr).
  destruct (vh_ty y) as [| | | |k'|k'|e k'|e k'|fs|none opts] eqn:Ety; try discriminate Hl.
  - destruct (vh_val y) as [| | |bs| | |]; try discriminate Hty.
    pose proof (ty_ok_bits k' (or_intror Hok)) as Hk.
    cbn [has_type] in Hty. apply N.leb_le in Hty. fold (lenN bs) in Hty.
    destruct Hr as (c & -> & _). cbn [list_length list_limit v_len len_leaf].
    rewrite le_val_len_leaf by lia. rewrite (proj2 (N.ltb_ge _ _) Hty). reflexivity.
  - destruct (vh_val y) as [| | | |vs| |]; try discriminate Hty.
    destruct (ty_ok_list _ _ Hok) as (_ & Hk).
    destruct (has_type_list _ _ _ Hty) as [Hlen _].
    rewrite repr_list in Hr. destruct Hr as (c & -> & _). cbn [list_length list_limit v_len len_leaf].
    rewrite le_val_len_leaf by lia. rewrite (proj2 (N.ltb_ge _ _) Hlen). reflexivity.
Qed.

(* ---- errors leave everything unchanged ---- *)
Theorem tm_error_unchanged tm o x : is_mut o = true ->
  get_handle node unit tm (op_handle o) = OK x -> tm_mutate tm x o = Err ->
  tm_step zh tm o = (tm, Err).
Proof. intros Hm Hg He. rewrite (tm_step_mut zh tm o Hm), Hg, He. reflexivity. Qed.

Theorem tm_read_error_unchanged tm o tm' : is_mut o = false ->
  tm_step zh tm o = (tm', Err) -> tm' = tm.
Proof.
  intros Hm. destruct o as [h i|h|h|h i s|h s|h|h sel s]; try discriminate Hm.
  - rewrite tm_step_get. destruct (get_handle node unit tm h) as [x| |]; try congruence.
    destruct (tm_elem_ty _ _ _); try congruence.
    destruct (m_get_node _ _ _ _ _ _ _); try congruence.
    destruct (push_handle _ _ _ _). congruence.
  - rewrite tm_step_uvalue. destruct (get_handle node unit tm h) as [x| |]; try congruence.
    destruct (h_ty node x); try congruence.
    destruct (tm_uvalue _ _ _) as [[[o|] c]| |]; try congruence.
    destruct (push_handle _ _ _ _). congruence.
  - unfold tm_step, step. destruct (get_handle node unit tm h) as [x| |]; try congruence.
    destruct (push_handle _ _ _ _). congruence.
Qed.

Theorem errors_unchanged tm vm o y : R zh tm vm -> src_ok vm o -> is_mut o = true ->
  v_get vm (op_handle o) = Some y -> v_mutate vm y o = None ->
  tm_step zh tm o = (tm, Err) /\ v_step vm o = (vm, None).
Proof.
  intros HR Hsrc Hm Ey Hnone.
  rewrite (v_step_mut vm o Hm), Ey, Hnone. split; [|reflexivity].
  pose proof (get_handle_rel zh tm vm (op_handle o) HR) as Hg. rewrite Ey in Hg.
  destruct Hg as (x & Ex & Hxy).
  apply (tm_error_unchanged tm o x Hm Ex).
  assert (Hfit : forall h s, op_src o = Some (h, s) -> src_fits vm (op_want (vh_ty y) o) s).
  { intros h s Eo. unfold src_ok in Hsrc. rewrite Eo in Hsrc. apply Hsrc.
    destruct o; try discriminate; cbn [op_src] in Eo; injection Eo as <- <-; exact Ey. }
  pose proof (mutate_ok H zh Hzh tm vm HR x y o Hxy Hfit) as Hmr. unfold mut_rel in Hmr.
  rewrite Hnone in Hmr. exact Hmr.
Qed.

End Machine.

(* when the plain value refuses a mutation: out of range, full, empty, bad selector *)
Lemma v_mutate_index_error vm y h i s :
  v_len (vh_ty y) (vh_val y) <= i -> v_mutate vm y (OSet h i s) = None.
Proof.
  intros Hi. unfold v_mutate.
  assert (E : forall x, v_slot_set (vh_ty y) (vh_val y) i x = None).
  { intros x. unfold v_slot_set. rewrite (proj2 (N.leb_le _ _) Hi). reflexivity. }
  destruct (vh_ty y); try reflexivity; destruct (v_src vm s) as [[x|]|]; try reflexivity; apply E.
Qed.

Lemma v_mutate_append_full vm y h s :
  list_limit (vh_ty y) <= v_len (vh_ty y) (vh_val y) -> v_mutate vm y (OAppend h s) = None.
Proof.
  intros Hl. unfold v_mutate. destruct (vh_ty y) as [| | | |k|k|e k|e k|fs|none opts]; try reflexivity.
  - destruct (v_src vm s) as [[[| b| | | | |]|]|]; try reflexivity.
    destruct (vh_val y); try reflexivity. cbn [list_limit v_len] in Hl.
    rewrite (proj2 (N.leb_le _ _) Hl). reflexivity.
  - destruct (v_src vm s) as [[x|]|]; try reflexivity.
    destruct (vh_val y); try reflexivity. cbn [list_limit v_len] in Hl.
    rewrite (proj2 (N.leb_le _ _) Hl). reflexivity.
Qed.

Lemma v_mutate_pop_empty vm y h :
  v_len (vh_ty y) (vh_val y) = 0 -> v_mutate vm y (OPop h) = None.
Proof.
  intros Hl. unfold v_mutate. destruct (vh_ty y) as [| | | |k|k|e k|e k|fs|none opts]; try reflexivity;
    destruct (vh_val y); try reflexivity; cbn [v_len] in Hl; rewrite Hl; reflexivity.
Qed.

Lemma v_mutate_selector_error vm y h sel s none opts :
  vh_ty y = TUnion none opts -> union_count none opts <= sel -> v_mutate vm y (OChange h sel s) = None.
Proof.
  intros Et Hs. unfold v_mutate. rewrite Et. rewrite (proj2 (N.leb_le _ _) Hs). reflexivity.
Qed.

(* ==================================================================================== *)
(** * Examples: the hypotheses are satisfiable, and a concrete history *)

Lemma ex_ty_ok : ty_ok ex_ty.
Proof. destruct ex_hyps as (A & B & C & _). repeat split; assumption. Qed.

(* R, srcs_ok: the initial state of a non-trivial container and a history that exercises every
   kind of operation, including sub-views, a failing hook-free error, and a union change *)
Definition ex_ops : list op :=
  [ OGet 0 1;                                   (* handle 1: the List[uint16,5] field *)
    OAppend 1 (SLit (TUint 2) (VUint 513));
    OSet 1 0 (SLit (TUint 2) (VUint 7));
    OGet 0 6;                                   (* handle 2: the list of containers *)
    OAppend 2 (SLit (TContainer [TBool; TUint 1]) (VCont [VBool false; VUint 3]));
    OGet 2 1;                                   (* handle 3: its new element *)
    OSet 3 0 (SLit TBool (VBool true));         (* propagates through handle 2 to the root *)
    OGet 0 3;                                   (* handle 4: the bitlist *)
    OAppend 4 (SLit TBool (VBool true));
    OPop 4; OPop 4; OPop 4; OPop 4;
    OPop 4;                                     (* error: empty *)
    OSet 1 9 (SLit (TUint 2) (VUint 1));        (* error: out of range *)
    OGet 0 5;                                   (* handle 5: the union *)
    OChange 5 0 SNone;
    OUValue 5;
    OChange 5 1 (SLit TBool (VBool true));
    OUValue 5;                                  (* handle 6 *)
    OCopy 0;                                    (* handle 7 *)
    OSet 0 2 (SHandle 9);                       (* error: no such handle *)
    OPop 2; OPop 2;
    OSet 3 1 (SLit (TUint 1) (VUint 200))       (* hook error: the parent slot is gone *)
  ].

Example ex_history_hyps : exists n,
  R toy_zh (tm_init ex_ty n) (v_init ex_ty ex_val) /\ srcs_ok (v_init ex_ty ex_val) ex_ops.
Proof.
  destruct repr_root_ex as (n & Rn & _). exists n. split.
  - apply R_init; [exact ex_ty_ok| |exact Rn]. destruct ex_hyps as (_ & _ & _ & _ & E). exact E.
  - vm_compute. repeat split; intros; subst; try discriminate; try reflexivity;
      repeat match goal with
             | H : Some _ = Some _ |- _ => injection H as H; subst
             end; try reflexivity; try discriminate.
Qed.

(* the two machines run side by side on that history: same outputs, same roots everywhere *)
Example ex_history_run : exists n,
  from_val toy_zh ex_ty ex_val = OK n /\
  let tm := tm_run toy_zh (tm_init ex_ty n) ex_ops in
  let vm := v_run (v_init ex_ty ex_val) ex_ops in
  map (fun x => root_of toy_H (h_back node x)) (m_handles node unit tm) =
  map (fun y => spec_htr toy_H (vh_ty y) (vh_val y)) vm /\
  length vm = 8%nat /\
  v_trace (v_init ex_ty ex_val) ex_ops =
  [Some (VHandle 1); Some VUnit; Some VUnit; Some (VHandle 2); Some VUnit; Some (VHandle 3);
   Some VUnit; Some (VHandle 4); Some VUnit; Some VUnit; Some VUnit; Some VUnit; Some VUnit;
   None; None; Some (VHandle 5); Some VUnit; Some VNoneValue; Some VUnit; Some (VHandle 6);
   Some (VHandle 7); None; Some VUnit; Some VUnit; None] /\
  tm_trace toy_zh (tm_init ex_ty n) ex_ops =
  [OK (MHandle 1); OK MUnit; OK MUnit; OK (MHandle 2); OK MUnit; OK (MHandle 3);
   OK MUnit; OK (MHandle 4); OK MUnit; OK MUnit; OK MUnit; OK MUnit; OK MUnit;
   Err; Err; OK (MHandle 5); OK MUnit; OK MNoneValue; OK MUnit; OK (MHandle 6);
   OK (MHandle 7); Err; OK MUnit; OK MUnit; Err].
Proof. eexists. split; [vm_compute; reflexivity|]. vm_compute. repeat split; reflexivity. Qed.

(* series lemmas, on a small tree: three chunks at depth 2 *)
Example ex_series_hyps :
  series toy_zh 2 (map is_chunk [[Byte.x01]; [Byte.x02]; [Byte.x03]])
         (Pair (Pair (Leaf [Byte.x01]) (Leaf [Byte.x02])) (Pair (Leaf [Byte.x03]) (Leaf (toy_zh 0)))) /\
  2 < lenN (map is_chunk [[Byte.x01]; [Byte.x02]; [Byte.x03]]) /\
  lenN (map is_chunk [[Byte.x01]; [Byte.x02]; [Byte.x03]]) < 2 ^ N.of_nat 2.
Proof.
  split; [|split; reflexivity].
  apply series_pair. cbn [lenN length map]. change (N.of_nat 3 <=? 2 ^ N.of_nat 1) with false.
  change (nat_of (2 ^ N.of_nat 1)) with 2%nat. cbn [firstn skipn]. split.
  - apply series_pair. cbn [lenN length]. change (N.of_nat 2 <=? 2 ^ N.of_nat 0) with false.
    change (nat_of (2 ^ N.of_nat 0)) with 1%nat. cbn [firstn skipn].
    split; apply series_0; split; reflexivity.
  - apply series_pair. cbn [lenN length]. change (N.of_nat 1 <=? 2 ^ N.of_nat 0) with true.
    split; [apply series_0; split; reflexivity|left; reflexivity].
Qed.

(* per-mutation lemmas: their geometric hypotheses hold for the types of the example *)
Example ex_geom_hyps :
  geom (TList (TUint 2) 5) true (cdepth (TList (TUint 2) 5)) /\
  geom (TBitvector 300) false (cdepth (TBitvector 300)) /\
  geom (TList (TContainer [TBool; TUint 1]) 4) true (cdepth (TList (TContainer [TBool; TUint 1]) 4)) /\
  geom ex_ty false (cdepth ex_ty).
Proof.
  repeat split; vm_compute; try reflexivity; discriminate.
Qed.

(* chunk rewriting facts / packed mutations: five uint16 in a list, element 3 overwritten *)
Example ex_packed_hyps :
  uint_width_ok 2 = true /\
  forallb (fun x => has_type x (TUint 2)) [VUint 1; VUint 65535; VUint 3; VUint 4; VUint 5] = true /\
  has_type (VUint 513) (TUint 2) = true /\ (3 < length [VUint 1; VUint 65535; VUint 3; VUint 4; VUint 5])%nat.
Proof. repeat split; vm_compute; auto. Qed.

(* hook propagation, one mutation: a related pair of states with a hooked sub-view *)
Example ex_backing_hyps : exists n tm vm y,
  tm = tm_run toy_zh (tm_init ex_ty n) [OGet 0 6; OGet 1 0] /\
  vm = v_run (v_init ex_ty ex_val) [OGet 0 6; OGet 1 0] /\
  R toy_zh tm vm /\ nth_error vm 2 = Some y /\ vh_hook y = Some (1%nat, 0) /\
  src_ok vm (OSet 2 1 (SLit (TUint 1) (VUint 7))).
Proof.
  destruct repr_root_ex as (n & Rn & _).
  assert (HR0 : R toy_zh (tm_init ex_ty n) (v_init ex_ty ex_val)).
  { apply R_init; [exact ex_ty_ok| |exact Rn]. destruct ex_hyps as (_ & _ & _ & _ & E). exact E. }
  destruct (history_ok toy_H toy_zh (fun d => eq_refl) [OGet 0 6; OGet 1 0] _ _ HR0) as [HR _].
  { vm_compute. tauto. }
  eexists n, _, _, _. split; [reflexivity|]. split; [reflexivity|]. split; [exact HR|].
  split; [vm_compute; reflexivity|]. split; [reflexivity|].
  vm_compute. intros y Ey. injection Ey as <-. repeat split; reflexivity.
Qed.

(* ==================================================================================== *)
(** * A recorded discrepancy between TM and VM (outside [src_ok])

    A handle of a basic type (obtained by a typed Get of a container field) used as the source
    of a packed Append / a bit Set: VM reads the handle's value and succeeds, TM only accepts
    literals there ([lit_val] / [lit_bool]) and reports an error.  In Go the argument is a
    BasicView value (Uint8View, BoolView), so VM is the faithful side; [src_ok] asks for
    literals at these positions. *)
Definition disc_ty : ty := TContainer [TUint 8; TList (TUint 8) 4; TBool; TBitlist 9].
Definition disc_val : val := VCont [VUint 5; VSeq [VUint 1]; VBool true; VBits [false]].

Theorem handle_source_discrepancy : exists n,
  has_type disc_val disc_ty = true /\ from_val toy_zh disc_ty disc_val = OK n /\
  tm_trace toy_zh (tm_init disc_ty n) [OGet 0 0; OGet 0 1; OAppend 2 (SHandle 1)]
    = [OK (MHandle 1); OK (MHandle 2); Err] /\
  v_trace (v_init disc_ty disc_val) [OGet 0 0; OGet 0 1; OAppend 2 (SHandle 1)]
    = [Some (VHandle 1); Some (VHandle 2); Some VUnit] /\
  tm_trace toy_zh (tm_init disc_ty n) [OGet 0 2; OGet 0 3; OSet 2 0 (SHandle 1)]
    = [OK (MHandle 1); OK (MHandle 2); Err] /\
  v_trace (v_init disc_ty disc_val) [OGet 0 2; OGet 0 3; OSet 2 0 (SHandle 1)]
    = [Some (VHandle 1); Some (VHandle 2); Some VUnit].
Proof. eexists. split; [reflexivity|]. split; [vm_compute; reflexivity|]. vm_compute. repeat split; reflexivity. Qed.

(* ==================================================================================== *)
(** * Part H. Element reads through the typed getters *)
(* ==================================================================================== *)

(* reading a bit out of the chunk list *)
Lemma chunk_get_bit_bits bs i : i < lenN bs ->
  chunk_get_bit (nth (nat_of i / 256) (bit_chunks bs) []) (wrap8 i) = nth (nat_of i) bs false.
Proof.
  intros Hi. unfold chunk_get_bit, byte_testbit, wrap8.
  rewrite BitfieldsProofs.shiftr3, BitfieldsProofs.land7.
  rewrite <- cbit_bit_chunks. unfold cbit.
  replace (nat_of (i mod 256 / 8)) with ((nat_of i / 8) mod 32)%nat by (unfold nat_of; lia).
  rewrite cbyte_nth by (apply Nat.mod_upper_bound; lia).
  f_equal; [f_equal; f_equal; lia|unfold nat_of; lia].
Qed.

(* reading a packed integer out of its chunk *)
Lemma packed_val_chunk w vs i : uint_width_ok w = true ->
  forallb (fun x => has_type x (TUint w)) vs = true -> i < lenN vs ->
  packed_val (TUint w) (nth (nat_of i / nat_of (32 / w)) (packed_chunks (TUint w) vs) [])
             (i mod (32 / w)) = OK (nth (nat_of i) vs (VUint 0)).
Proof.
  intros Hw Hty Hi.
  destruct (wp32 w vs Hw Hty) as (Hw0 & Hwp & Hp0).
  destruct (sub_index w i Hw) as (_ & Hsub & Hp).
  set (wn := nat_of w) in *. set (pn := nat_of (32 / w)) in *.
  set (j := (nat_of i / pn)%nat). set (r := (nat_of i mod pn)%nat).
  pose proof (Nat.div_mod (nat_of i) pn ltac:(lia)) as Dm. fold j r in Dm.
  pose proof (Nat.mod_upper_bound (nat_of i) pn ltac:(lia)) as Hr. fold r in Hr.
  destruct (packed_set_equiv w vs Hw Hty (nat_of i) (VUint 0)) as (Hj & _ & _);
    [cbn [has_type]; apply N.ltb_lt, pow2_pos|unfold lenN, nat_of in *; lia|].
  cbv zeta in Hj. fold pn j in Hj.
  set (c := nth j (packed_chunks (TUint w) vs) []).
  assert (Hc : length c = 32%nat) by (apply nth_len32; [apply chunkify_len32|exact Hj]).
  destruct (nth_error_ex vs (nat_of i)) as [x Ex]; [unfold lenN, nat_of in *; lia|].
  pose proof (forallb_nth_error _ _ _ _ Hty Ex) as Hx. cbv beta in Hx.
  rewrite (nth_error_nth _ _ (VUint 0) Ex).
  destruct (has_type_uint x w Hx) as [n ->]. cbn [has_type] in Hx. apply N.ltb_lt in Hx.
  assert (Hbytes : firstn wn (skipn (wn * r) c) = le_bytes wn n).
  { apply (nth_ext _ _ b0 b0).
    - rewrite firstn_length, skipn_length, le_bytes_length. nia.
    - intros k Hk. rewrite firstn_length, skipn_length in Hk.
      assert (Hkw : (k < wn)%nat) by lia.
      rewrite BitfieldsProofs.nth_firstn_lt by exact Hkw. rewrite BitfieldsProofs.nth_skipn_add.
      unfold c. rewrite cbyte_nth by nia.
      rewrite (cbyte_packed w vs _ Hw Hty). fold wn.
      replace ((32 * j + (wn * r + k)) / wn)%nat with (nat_of i).
      2:{ apply Nat.div_unique with k; [exact Hkw|]. nia. }
      replace ((32 * j + (wn * r + k)) mod wn)%nat with k.
      2:{ apply Nat.mod_unique with (nat_of i); [exact Hkw|]. nia. }
      rewrite (nth_error_nth _ _ (VUint 0) Ex). reflexivity. }
  assert (Hval : le_val (le_bytes wn n) = n).
  { rewrite le_val_le_bytes. apply N.mod_small. rewrite pow256. unfold wn, nat_of. rewrite N2Nat.id. exact Hx. }
  assert (Er : nat_of (w * (i mod (32 / w))) = (wn * r)%nat).
  { unfold nat_of, wn, r, pn. rewrite N2Nat.inj_mul, N2Nat.inj_mod. reflexivity. }
  unfold packed_val. rewrite (proj2 (N.leb_gt _ _) Hsub).
  destruct ((w =? 1) || (w =? 2) || (w =? 4) || (w =? 8)) eqn:E1.
  - rewrite Er. fold wn. rewrite Hbytes, Hval. reflexivity.
  - destruct (N.eqb_spec w 32) as [E32|N32].
    + assert (Hwn : wn = 32%nat) by (unfold wn, nat_of; lia).
      assert (Hr0 : r = O) by nia.
      rewrite Hwn, Hr0 in Hbytes. change (32 * 0)%nat with O in Hbytes. cbn [skipn] in Hbytes.
      rewrite firstn_all2 in Hbytes by lia. rewrite Hbytes, <- Hwn, Hval. reflexivity.
    + exfalso. unfold uint_width_ok in Hw. rewrite E1 in Hw. cbn [orb] in Hw.
      apply N.eqb_eq in Hw. contradiction.
Qed.

Section Reads.
Variable zh : nat -> chunk.

Lemma get_node_eq t a i : get_node t a i = m_get_node node unit p_get t tt a i.
Proof. reflexivity. Qed.
Lemma check_index_eq t a i : check_index t a i = m_check_index node unit p_get p_chunk t tt a i.
Proof.
  unfold check_index, m_check_index, m_length, list_length, p_get, getter. rewrite g_path_3.
  destruct a as [c|l [c|rl rr]]; reflexivity.
Qed.

Theorem view_get_ok t a v i : ty_ok t -> has_type v t = true -> repr zh t a v ->
  match v_elem t v i with
  | Some y => exists g, view_get t a i = OK g /\ got_rel zh g y
  | None => view_get t a i = Err
  end.
Proof.
  intros Hok Hty Hr.
  assert (Hz : forall t', v_len t' v = 0 -> view_get t' a i = Err ->
               match v_elem t' v i with
               | Some y => exists g, view_get t' a i = OK g /\ got_rel zh g y
               | None => view_get t' a i = Err
               end).
  { intros t' Hl He. unfold v_elem. rewrite Hl, (proj2 (N.leb_le 0 i)) by lia. exact He. }
  destruct t; try (apply Hz; [destruct v; reflexivity|reflexivity]).
  - (* bitvector *)
    destruct v; try discriminate Hty.
    pose proof (ty_ok_bits n (or_introl Hok)) as Hk.
    cbn [has_type] in Hty. apply N.eqb_eq in Hty. fold (lenN bs) in Hty.
    change (series zh (cdepth (TBitvector n)) (map is_chunk (bit_chunks bs)) a) in Hr.
    unfold v_elem. cbn [v_len view_get]. rewrite Hty.
    destruct (N.leb_spec n i) as [Hi|Hi]; [reflexivity|].
    destruct (nth_error_ex bs (nat_of i)) as [b Eb]; [unfold lenN, nat_of in *; lia|].
    rewrite Eb. cbn [option_map].
    destruct (bits_set_equiv bs (nat_of i) b) as (Hj & _); [unfold lenN, nat_of in *; lia|]. cbv zeta in Hj.
    rewrite get_node_eq, shiftr8.
    replace (i / 256) with (N.of_nat (nat_of i / 256)) by (unfold nat_of; lia).
    change a with (wrapn false a a).
    rewrite (read_chunk zh (TBitvector n) false _ a a _ _ (geom_bitvector n Hk) Hr Hj).
    cbn [bind leaf_chunk]. eexists. split; [reflexivity|]. cbn [got_rel].
    rewrite chunk_get_bit_bits by lia. rewrite (nth_error_nth _ _ false Eb). reflexivity.
  - (* bitlist *)
    destruct v; try discriminate Hty.
    pose proof (ty_ok_bits n (or_intror Hok)) as Hk.
    cbn [has_type] in Hty. apply N.leb_le in Hty. fold (lenN bs) in Hty.
    destruct Hr as (c & -> & Hs). fold (cdepth (TBitlist n)) in Hs. fold (bit_chunks bs) in Hs.
    unfold v_elem. cbn [v_len view_get].
    rewrite check_index_eq, (tm_check_index_ok (TBitlist n)) by (cbn [list_limit]; lia).
    destruct (N.leb_spec (lenN bs) i) as [Hi|Hi]; [reflexivity|]. cbn [bind].
    destruct (nth_error_ex bs (nat_of i)) as [b Eb]; [unfold lenN, nat_of in *; lia|].
    rewrite Eb. cbn [option_map].
    destruct (bits_set_equiv bs (nat_of i) b) as (Hj & _); [unfold lenN, nat_of in *; lia|]. cbv zeta in Hj.
    rewrite get_node_eq, shiftr8.
    replace (i / 256) with (N.of_nat (nat_of i / 256)) by (unfold nat_of; lia).
    change (Pair c (len_leaf (lenN bs))) with (wrapn true c (len_leaf (lenN bs))).
    rewrite (read_chunk zh (TBitlist n) true _ c _ _ _ (geom_bitlist n Hk) Hs Hj).
    cbn [bind leaf_chunk]. eexists. split; [reflexivity|]. cbn [got_rel].
    rewrite chunk_get_bit_bits by lia. rewrite (nth_error_nth _ _ false Eb). reflexivity.
  - (* vector *)
    destruct (has_type_seq v t n (or_introl Hty)) as [vs ->].
    destruct (ty_ok_vector _ _ Hok) as (Hoke & Hk1 & Hk).
    destruct (has_type_vector _ _ _ Hty) as [Hl Hf].
    unfold v_elem. cbn [v_len view_get]. rewrite Hl.
    destruct (N.leb_spec n i) as [Hi|Hi]; [reflexivity|].
    destruct (nth_error_ex vs (nat_of i)) as [y Ey]; [unfold lenN, nat_of in *; lia|]. rewrite Ey.
    destruct (is_basic_elem t) eqn:Eb.
    + destruct t; try discriminate Eb. pose proof (ty_ok_uint _ Hoke) as Hw.
      rewrite repr_vector in Hr. cbn [is_basic_elem] in Hr.
      destruct (sub_index w i Hw) as (Esub & Hsub & Hp).
      destruct (packed_set_equiv w vs Hw Hf (nat_of i) y) as (Hj & _ & _);
        [exact (forallb_nth_error _ _ _ _ Hf Ey)|unfold lenN, nat_of in *; lia|]. cbv zeta in Hj.
      rewrite per_node_uint, get_node_eq.
      replace (i / (32 / w)) with (N.of_nat (nat_of i / nat_of (32 / w)))
        by (unfold nat_of; rewrite <- N2Nat.inj_div, N2Nat.id; reflexivity).
      change a with (wrapn false a a).
      rewrite (read_chunk zh (TVector (TUint w) n) false _ a a _ _ (geom_vector_uint w n Hw Hk) Hr Hj).
      cbn [bind leaf_chunk]. rewrite Esub, (packed_val_chunk w vs i Hw Hf) by lia. cbn [bind].
      eexists. split; [reflexivity|]. cbn [got_rel]. apply (nth_error_nth _ _ _ Ey).
    + pose proof (get_ok zh (TVector t n) a (VSeq vs) i Hok Hty Hr) as Hg.
      cbn [slot_ty] in Hg. rewrite Eb in Hg. unfold v_slot_get, v_len in Hg. cbn [seq_vals] in Hg.
      rewrite Hl, (proj2 (N.leb_gt _ _) Hi), Ey in Hg.
      destruct Hg as (_ & c & Ec & Rc & Hy & _). rewrite get_node_eq, Ec. cbn [bind].
      eexists. split; [reflexivity|]. split; assumption.
  - (* list *)
    destruct (has_type_seq v t n (or_intror Hty)) as [vs ->].
    destruct (ty_ok_list _ _ Hok) as (Hoke & Hk).
    destruct (has_type_list _ _ _ Hty) as [Hl Hf].
    unfold v_elem. cbn [v_len view_get].
    pose proof Hr as Hr0. rewrite repr_list in Hr. destruct Hr as (c & -> & Hs).
    rewrite check_index_eq, (tm_check_index_ok (TList t n)) by (cbn [list_limit]; lia).
    destruct (N.leb_spec (lenN vs) i) as [Hi|Hi]; [reflexivity|]. cbn [bind].
    destruct (nth_error_ex vs (nat_of i)) as [y Ey]; [unfold lenN, nat_of in *; lia|]. rewrite Ey.
    destruct (is_basic_elem t) eqn:Eb.
    + destruct t; try discriminate Eb. pose proof (ty_ok_uint _ Hoke) as Hw.
      cbn [is_basic_elem] in Hs.
      destruct (sub_index w i Hw) as (Esub & Hsub & Hp).
      destruct (packed_set_equiv w vs Hw Hf (nat_of i) y) as (Hj & _ & _);
        [exact (forallb_nth_error _ _ _ _ Hf Ey)|unfold lenN, nat_of in *; lia|]. cbv zeta in Hj.
      rewrite per_node_uint, get_node_eq.
      replace (i / (32 / w)) with (N.of_nat (nat_of i / nat_of (32 / w)))
        by (unfold nat_of; rewrite <- N2Nat.inj_div, N2Nat.id; reflexivity).
      change (Pair c (len_leaf (lenN vs))) with (wrapn true c (len_leaf (lenN vs))).
      rewrite (read_chunk zh (TList (TUint w) n) true _ c _ _ _ (geom_list_uint w n Hw Hk) Hs Hj).
      cbn [bind leaf_chunk]. rewrite Esub, (packed_val_chunk w vs i Hw Hf) by lia. cbn [bind].
      eexists. split; [reflexivity|]. cbn [got_rel]. apply (nth_error_nth _ _ _ Ey).
    + pose proof (get_ok zh (TList t n) _ (VSeq vs) i Hok Hty Hr0) as Hg.
      cbn [slot_ty] in Hg. rewrite Eb in Hg. unfold v_slot_get, v_len in Hg. cbn [seq_vals] in Hg.
      rewrite (proj2 (N.leb_gt _ _) Hi), Ey in Hg.
      destruct Hg as (_ & c' & Ec & Rc & Hy & _). rewrite get_node_eq, Ec. cbn [bind].
      eexists. split; [reflexivity|]. split; assumption.
  - (* container *)
    destruct v; try discriminate Hty.
    pose proof (get_ok zh (TContainer fs) a (VCont vs) i Hok Hty Hr) as Hg.
    rewrite has_type_cont in Hty. pose proof (rfields_ty_length _ _ Hty) as Hlen.
    unfold v_elem. cbn [v_len view_get]. cbn [slot_ty tm_elem_ty] in Hg.
    unfold v_slot_get, v_len in Hg. cbn [seq_vals] in Hg.
    destruct (N.leb_spec (lenN vs) i) as [Hi|Hi].
    + assert (En : nth_error fs (nat_of i) = None)
        by (apply nth_error_None; unfold lenN, nat_of in *; lia).
      rewrite En. reflexivity.
    + destruct (nth_error_ex fs (nat_of i)) as [f Ef]; [unfold lenN, nat_of in *; lia|].
      destruct (nth_error_ex vs (nat_of i)) as [y Ey]; [unfold lenN, nat_of in *; lia|].
      rewrite Ef, Ey in *. destruct Hg as (_ & c & Ec & Rc & Hy & _).
      rewrite get_node_eq, Ec. cbn [bind]. eexists. split; [reflexivity|]. split; assumption.
Qed.

End Reads.
